------------------------------ MODULE DofLayout ------------------------------
(***************************************************************************)
(* Degree-of-freedom bookkeeping of pp.ad.EquationSystem under histories   *)
(* of create_variables / remove_variables.                                 *)
(*                                                                         *)
(* Grids: the md-grid is a constant sequence of grid records in the order  *)
(* mdg.subdomains() followed by mdg.interfaces():                          *)
(*     [kind |-> "sd" | "intf", nc |-> cells, nf |-> faces, nn |-> nodes]   *)
(* Mechanism layer (Impl): `vars` is the registry _variables in insertion  *)
(* order, `numb` the dictionary _variable_numbers (as the sequence of      *)
(* variable ids in block order) and `sizes` the array _variable_num_dofs;  *)
(* Create appends blocks (_append_dofs) and re-clusters with the two loops *)
(* of _cluster_dofs_gridwise; Remove pops and re-clusters per variable.    *)
(* Property layer (Ref, C05): blocks partition 0..N-1 contiguously in the  *)
(* order (grid order, creation order); owner lookup; projections; value    *)
(* dissection.  The Ref operators are also what the monitor                *)
(* (trace/M_DofLayout.tla) evaluates on states recorded from the code.     *)
(***************************************************************************)
EXTENDS DofLayoutRef

CONSTANTS Names,     \* variable names offered
          Domains,   \* sequence of domain choices, each a sequence of grid indices (all "sd" or all "intf")
          MaxVars    \* exploration bound on the number of registered variables

VARIABLES vars,    \* registry: sequence of [vid, name, g, ndof], insertion order
          numb,    \* block order: sequence of vids (position p is variable number p - 1)
          sizes,   \* sizes[p] = number of dofs of block p
          nextId,
          last     \* outcome of the last call ("ok", "KeyError", "ValueError")

dvars == <<vars, numb, sizes, nextId, last>>

Init == vars = <<>> /\ numb = <<>> /\ sizes = <<>> /\ nextId = 1 /\ last = "init"

\* create_variables(name, dof_info = DofTypes[d], subdomains | interfaces = Domains[dom])
Create(name, d, dom) ==
  /\ Len(vars) + Len(Domains[dom]) <= MaxVars
  /\ IF \E i \in 1..Len(vars) : vars[i].name = name /\ \E k \in 1..Len(Domains[dom]) : vars[i].g = Domains[dom][k]
     THEN /\ last' = "KeyError" /\ UNCHANGED <<vars, numb, sizes, nextId>>
     ELSE LET doms == Domains[dom]
              new  == [k \in 1..Len(doms) |->
                         [vid |-> nextId + k - 1, name |-> name, g |-> doms[k], ndof |-> NumDofs(doms[k], DofTypes[d])]]
              reg  == vars \o new
              \* _append_dofs: each new variable becomes the last block
              numb1  == numb \o [k \in 1..Len(new) |-> new[k].vid]
              sizes1 == sizes \o [k \in 1..Len(new) |-> new[k].ndof]
              size1(vid) == sizes1[CHOOSE q \in 1..Len(numb1) : numb1[q] = vid]
              numb2  == ClusterFrom(1, reg)
          IN /\ vars' = reg /\ nextId' = nextId + Len(doms)
             /\ numb' = numb2
             /\ sizes' = [p \in 1..Len(numb2) |-> size1(numb2[p])]
             /\ last' = "ok"

\* remove_variables(list of variables): here all variables called `name`
Remove(name) ==
  /\ \E i \in 1..Len(vars) : vars[i].name = name
  /\ LET reg == SelectSeq(vars, LAMBDA v : v.name # name)
         size0(vid) == sizes[CHOOSE q \in 1..Len(numb) : numb[q] = vid]
         numb2 == ClusterFrom(1, reg)
     IN /\ vars' = reg /\ numb' = numb2
        /\ sizes' = [p \in 1..Len(numb2) |-> size0(numb2[p])]
        /\ last' = "ok" /\ UNCHANGED nextId

Next ==
  \/ \E n \in Names, d \in 1..Len(DofTypes), dom \in 1..Len(Domains) : Create(n, d, dom)
  \/ \E n \in Names : Remove(n)

Spec == Init /\ [][Next]_dvars

(* --------------------------- design: Impl realises Ref (ref/DofLayoutRef.tla) ------------------ *)
\* design-level: the mechanism realises the reference layout
ImplIsRef ==
  /\ numb = RefOrder(vars)
  /\ \A p \in 1..Len(numb) : sizes[p] = RefNdof(vars, numb[p])
TypeOK == Len(numb) = Len(vars) /\ Len(sizes) = Len(vars)
=============================================================================
