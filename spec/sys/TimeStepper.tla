----------------------------- MODULE TimeStepper -----------------------------
(***************************************************************************)
(* pp.TimeManager driven by the time loop of run_time_dependent_model:     *)
(*    while not final_time_reached(): increase_time(); increase_time_index();*)
(*        solve -> compute_time_step(iterations=it)          (converged)    *)
(*              -> compute_time_step(recompute_solution=True) (failed)      *)
(*                                                                         *)
(* All quantities are dyadic rationals scaled to integers (unit 2^-K, K is *)
(* chosen by the harness); relaxation factors are fractions N/D.  A        *)
(* step that is not representable in this unit sets `exact` to FALSE and   *)
(* the state constraint prunes the behaviour: on the remaining behaviours  *)
(* IEEE doubles reproduce every value bit for bit and np.isclose reduces   *)
(* to equality.                                                            *)
(*                                                                         *)
(* Mechanism layer: one action per public call, the private sub-steps      *)
(* (_adaptation_*, _correction_based_on_dt_min/max/schedule) are the LET   *)
(* chain of that action in the order of the code.                          *)
(* Property layer (C09): Mono, NoOvershoot, NoSkippedSchedule, HitsAll,    *)
(* DtBounds, FailureRewinds, RaiseOnlyWhenExhausted, Termination.          *)
(***************************************************************************)
EXTENDS Integers, Sequences, FiniteSets

CONSTANTS Schedule,     \* strictly increasing sequence of scaled times, Len >= 2
          DtInit, DtMin, DtMax,
          IterLow, IterHigh,      \* iter_optimal_range
          ItChoices,              \* iteration counts offered to Converged
          OverN, OverD, UnderN, UnderD, RecompN, RecompD,
          RecompMax,
          LandingFix,             \* TRUE: landing on a scheduled time re-checks the next one (repaired code)
          FaultBudget             \* total number of failed solves explored

VARIABLES time, dt, sidx, recomp, about, tindex, phase,
          lastAcc, hit, nfail, exact

vars == <<time, dt, sidx, recomp, about, tindex, phase, lastAcc, hit, nfail, exact>>
core == <<time, dt, sidx, recomp, about, tindex, phase>>

N == Len(Schedule)
Final == Schedule[N]

Phases == {"ready", "solving", "done", "raised", "crashed"}

(* ---------------- mechanism: the corrections, as functions ---------------- *)

\* The adapted step is the rational q / D (q = dt * N, factor N / D); the corrections below work on
\* numerators over the common denominator D so that no rounding happens before the step is final.
CorrMinQ(q, D) == IF q < DtMin * D THEN DtMin * D ELSE q
CorrMaxQ(q, D) == IF q > DtMax * D THEN DtMax * D ELSE q

\* _correction_based_on_schedule at time t with step q / D and 1-based index s of the next
\* scheduled time.  Result: [q, sidx, about, crash]  (step = q / D)
CorrSchedule(t, q, s, D) ==
  IF s > N THEN [q |-> q, sidx |-> s, about |-> FALSE, crash |-> TRUE]   \* IndexError in the code
  ELSE LET st == Schedule[s] IN
    IF t * D + q > st * D
    THEN IF t = st
         THEN \* landed on the scheduled time without correction ("isclose" branch)
              IF LandingFix /\ s + 1 <= N /\ t * D + q > Schedule[s + 1] * D
              THEN [q |-> (Schedule[s + 1] - t) * D, sidx |-> s + 1, about |-> TRUE, crash |-> FALSE]
              ELSE [q |-> q, sidx |-> s + 1, about |-> TRUE, crash |-> FALSE]
         ELSE [q |-> (st - t) * D, sidx |-> s + 1, about |-> TRUE, crash |-> FALSE]
    ELSE [q |-> q, sidx |-> s, about |-> FALSE, crash |-> FALSE]

\* _adaptation_based_on_iterations
AdaptN(it) == IF it <= IterLow THEN OverN ELSE IF it >= IterHigh THEN UnderN ELSE 1
AdaptD(it) == IF it <= IterLow THEN OverD ELSE IF it >= IterHigh THEN UnderD ELSE 1

(* ------------------------------- actions --------------------------------- *)

Init ==
  /\ time = Schedule[1] /\ dt = DtInit /\ sidx = 2 /\ recomp = 0 /\ about = FALSE
  /\ tindex = 0 /\ phase = "ready"
  /\ lastAcc = Schedule[1] /\ hit = {1} /\ nfail = 0 /\ exact = TRUE

\* increase_time(); increase_time_index()   (loop guard: not final_time_reached())
IncreaseTime ==
  /\ phase = "ready"
  /\ time' = time + dt /\ tindex' = tindex + 1 /\ phase' = "solving"
  /\ UNCHANGED <<dt, sidx, recomp, about, lastAcc, hit, nfail, exact>>

\* the nonlinear solve converged after `it` iterations: compute_time_step(iterations=it)
Converged(it) ==
  /\ phase = "solving"
  /\ lastAcc' = time
  /\ hit' = hit \cup {k \in 1..N : Schedule[k] = time}
  /\ nfail' = nfail
  /\ IF time >= Final
     THEN \* final_time_reached(): returns None, the loop ends
          /\ phase' = "done"
          /\ UNCHANGED <<time, dt, sidx, recomp, about, tindex, exact>>
     ELSE LET D  == AdaptD(it)
              q3 == CorrMaxQ(CorrMinQ(dt * AdaptN(it), D), D)
              c  == CorrSchedule(time, q3, sidx, D)
          IN /\ exact' = (exact /\ c.q % D = 0)
             /\ recomp' = 0
             /\ dt' = c.q \div D /\ sidx' = c.sidx /\ about' = c.about
             /\ phase' = IF c.crash THEN "crashed" ELSE "ready"
             /\ UNCHANGED <<time, tindex>>

\* the nonlinear solve failed: compute_time_step(recompute_solution=True)
Failed ==
  /\ phase = "solving"
  /\ nfail < FaultBudget
  /\ nfail' = nfail + 1
  /\ UNCHANGED <<lastAcc, hit>>
  /\ IF recomp >= RecompMax \/ dt = DtMin
     THEN \* ValueError (recomputation exhausted / pointless at dt_min); nothing was modified
          /\ phase' = "raised"
          /\ UNCHANGED <<time, dt, sidx, recomp, about, tindex, exact>>
     ELSE LET t1 == time - dt
              s1 == IF about THEN sidx - 1 ELSE sidx
              q3 == CorrMaxQ(CorrMinQ(dt * RecompN, RecompD), RecompD)
              c  == CorrSchedule(t1, q3, s1, RecompD)
          IN /\ exact' = (exact /\ c.q % RecompD = 0)
             /\ time' = t1 /\ tindex' = tindex - 1 /\ recomp' = recomp + 1
             /\ dt' = c.q \div RecompD /\ sidx' = c.sidx /\ about' = c.about
             /\ phase' = IF c.crash THEN "crashed" ELSE "ready"

Next == IncreaseTime \/ (\E it \in ItChoices : Converged(it)) \/ Failed

Spec == Init /\ [][Next]_vars /\ WF_vars(Next)

ExactOnly == exact   \* state constraint

(* ------------------------------ properties ------------------------------- *)

TypeOK ==
  /\ phase \in Phases /\ sidx \in 1..(N + 2) /\ recomp \in 0..RecompMax
  /\ about \in BOOLEAN /\ hit \subseteq 1..N /\ nfail \in 0..FaultBudget

\* accepted times strictly increase
Mono == [][lastAcc' # lastAcc => lastAcc' > lastAcc]_vars
\* a converged solve is always at a later time than the previous accepted one
MonoStrict == [][(\E it \in ItChoices : Converged(it)) => time > lastAcc]_vars

NoOvershoot == lastAcc <= Final

NoSkippedSchedule == \A k \in 1..N : Schedule[k] <= lastAcc => k \in hit

HitsAll == phase = "done" => (hit = 1..N /\ lastAcc = Final)

\* the step about to be taken is within [DtMin, DtMax] unless it lands on a scheduled time
DtBounds == phase = "ready" =>
              /\ dt > 0
              /\ \/ (DtMin <= dt /\ dt <= DtMax)
                 \/ \E k \in 1..N : time + dt = Schedule[k]

\* between solves the clock stands at the last accepted time
FailureRewinds == phase = "ready" => time = lastAcc

RaiseOnlyWhenExhausted == phase = "raised" => (recomp >= RecompMax \/ dt = DtMin)

NoCrash == phase # "crashed"

Termination == <>(phase \in {"done", "raised", "crashed"} \/ ~exact)
=============================================================================
