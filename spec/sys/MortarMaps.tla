----------------------------- MODULE MortarMaps -----------------------------
(***************************************************************************)
(* C26, 1-d interfaces: the projections of one mortar grid under histories  *)
(* of replacements done through                                             *)
(* MixedDimensionalGrid.replace_subdomains_and_interfaces, in the order the  *)
(* code composes them:                                                      *)
(*    UpdateMortar(p1, p2)     interface_map: new side grids (0 = keep the   *)
(*                             side)            -> MortarGrid.update_mortar  *)
(*    UpdateSecondary(p)       sd_map for the 1-d grid -> update_secondary   *)
(*    UpdatePrimary(p)         sd_map for the 2-d grid -> update_primary     *)
(* Partitions come from the catalogue Parts (lattice breakpoints of [0, L]); *)
(* the start is a matching interface (all grids on the same partition, all   *)
(* maps identities), as pp.meshing produces it.  The matrices and the        *)
(* clauses are those of ref/MortarMapsRef.tla.                               *)
(*                                                                         *)
(* TLC checks exhaustively that the three clauses hold in every state of     *)
(* every history of at most MaxSteps replacements when DupFaces = FALSE       *)
(* (the code as it is; invariant Laws), and that Laws fails when              *)
(* DupFaces = TRUE (duplicated primary faces, the mechanism before fix         *)
(* d70d13e66, see MortarMapsRef: vacuity).                                     *)
(* trace/T_MortarMaps.tla validates the transitions recorded from porepy      *)
(* against these steps; trace/J_MortarMaps.tla judges the recorded matrices.  *)
(***************************************************************************)
EXTENDS MortarMapsRef

CONSTANTS L,             \* length of the fracture
          Parts,         \* sequence of partitions of [0, L]
          InitParts,     \* indices of the partitions a history may start from
          UMChoices,     \* set of <<p1, p2>>: new partition per mortar side (0 = keep)
          USChoices,     \* set of indices: new secondary partition
          UPChoices,     \* set of indices: new partition of the primary faces (both sides)
          MaxSteps, DupFaces

VARIABLES m, steps
vars == <<m, steps>>

Init == \E p \in InitParts :
          /\ m = InitModel(<<Parts[p], Parts[p]>>, <<Parts[p], Parts[p]>>, Parts[p])
          /\ steps = 0

UpdateMortar(c) ==
  /\ m' = StepUM(m, [s \in 1..2 |-> IF c[s] = 0 THEN m.mort[s] ELSE Parts[c[s]]])
  /\ steps' = steps + 1
UpdateSecondary(p) == m' = StepUS(m, Parts[p]) /\ steps' = steps + 1
UpdatePrimary(p) == m' = StepUP(m, <<Parts[p], Parts[p]>>, DupFaces) /\ steps' = steps + 1

Next == /\ steps < MaxSteps
        /\ \/ \E c \in UMChoices : UpdateMortar(c)
           \/ \E p \in USChoices : UpdateSecondary(p)
           \/ \E p \in UPChoices : UpdatePrimary(p)
Spec == Init /\ [][Next]_vars

PartsOK == \A p \in 1..Len(Parts) : IsPartition(Parts[p], L)
\* one invariant, so that TLC computes the eight matrices of a state once
Laws == LET o == ModelObs(m) IN
          /\ \A s \in 1..2 : IsPartition(m.prim[s], L) /\ IsPartition(m.mort[s], L)
          /\ IsPartition(m.sec, L) /\ HeightOK(o)
          /\ IntPreservesTotals(o) /\ AvgPreservesConstants(o) /\ Transposes(o)
=============================================================================
