---------------------------- MODULE HistoryStore ----------------------------
(***************************************************************************)
(* Time-step / iterate storage of one quantity in a data dictionary        *)
(* (pp.set_solution_values, get_solution_values, shift_solution_values and *)
(* the EquationSystem wrappers around them).                               *)
(*                                                                         *)
(* Heap model: arrays are objects `heap[r]` with an integer content (the   *)
(* vector is always moved as a whole); `slot[loc]` is the sequence of      *)
(* array references stored at index 0,1,2,.. of location loc in            *)
(* {"ts","it"}; `client` are the references the caller still holds (the    *)
(* arrays it passed in and the arrays it got back) and may write into at   *)
(* any time (ClientMutate).                                                *)
(*                                                                         *)
(* Mechanism switches CopyOnSet / CopyOnGet / CopyOnShift are TRUE for the *)
(* code as it is; with one of them FALSE the model shows which clause the  *)
(* missing copy breaks (used as a vacuity check of the invariants).        *)
(***************************************************************************)
EXTENDS Integers, Sequences, FiniteSets

CONSTANTS Depth,      \* [ts |-> M, it |-> M]: max_index passed to every shift of that location; 0 = None (unbounded)
          SetValues,  \* values offered to overwriting writes
          AddValues,  \* values offered to additive writes
          Bump,       \* amount a ClientMutate adds
          MaxContent, \* state constraint on contents
          CopyOnSet, CopyOnGet, CopyOnShift

VARIABLES heap, slot, client, gen, cur, last

vars == <<heap, slot, client, gen, cur, last>>
Locs == <<"ts", "it">>
LocSet == {"ts", "it"}
ClientCap == 2

Alloc(h, c) == Append(h, c)            \* new object with content c; its reference is Len(h) + 1
Push(cl, r) == IF Len(cl) < ClientCap THEN Append(cl, r) ELSE Append(Tail(cl), r)

Init ==
  /\ heap = <<>> /\ slot = [l \in LocSet |-> <<>>] /\ client = <<>>
  /\ gen = [l \in LocSet |-> <<>>] /\ cur = [l \in LocSet |-> 0]
  /\ last = [ev |-> "init", res |-> "ok", val |-> 0]

(* ----- one location of a write, as a function of (heap, slots) ------------------------------ *)
\* returns [h, s, ok]; `a` is the reference of the caller's argument array
SetOne(h, s, loc, a, add) ==
  IF add
  THEN IF s[loc] = <<>>
       THEN [h |-> h, s |-> s, ok |-> FALSE]                                   \* ValueError
       ELSE [h |-> [h EXCEPT ![s[loc][1]] = @ + h[a]], s |-> s, ok |-> TRUE]   \* in-place +=
  ELSE LET r  == IF CopyOnSet THEN Len(h) + 1 ELSE a
           h2 == IF CopyOnSet THEN Alloc(h, h[a]) ELSE h
           s2 == IF s[loc] = <<>> THEN [s EXCEPT ![loc] = <<r>>]
                                  ELSE [s EXCEPT ![loc][1] = r]
       IN [h |-> h2, s |-> s2, ok |-> TRUE]

\* set_solution_values(name, values, data, time_step_index=0 and/or iterate_index=0, additive)
Set(where, v, add) ==
  /\ where \in {"ts", "it", "both"}
  /\ LET h0 == Alloc(heap, v)
         a  == Len(h0)
         \* _validate_indices lists the iterate location first, then the time-step location
         r1 == IF where \in {"it", "both"} THEN SetOne(h0, slot, "it", a, add)
                                            ELSE [h |-> h0, s |-> slot, ok |-> TRUE]
         r2 == IF where \in {"ts", "both"} /\ r1.ok THEN SetOne(r1.h, r1.s, "ts", a, add)
                                            ELSE r1
         ok == r1.ok /\ r2.ok
         wrote(l) == IF l = "it" THEN where \in {"it", "both"} /\ r1.ok
                                 ELSE where \in {"ts", "both"} /\ ok
     IN /\ heap' = r2.h /\ slot' = r2.s
        /\ client' = Push(client, a)
        /\ cur' = [l \in LocSet |-> IF wrote(l) THEN (IF add THEN cur[l] + v ELSE v) ELSE cur[l]]
        /\ last' = [ev |-> "set", res |-> IF ok THEN "ok" ELSE "ValueError", val |-> 0]
        /\ UNCHANGED gen

\* get_solution_values(name, data, <loc>_index = i)
Get(loc, i) ==
  /\ loc \in LocSet /\ i \in 0..Len(slot[loc])
  /\ IF i + 1 > Len(slot[loc])
     THEN /\ last' = [ev |-> "get", res |-> "KeyError", val |-> 0]
          /\ UNCHANGED <<heap, slot, client, gen, cur>>
     ELSE LET src == slot[loc][i + 1] IN
          /\ heap' = IF CopyOnGet THEN Alloc(heap, heap[src]) ELSE heap
          /\ client' = Push(client, IF CopyOnGet THEN Len(heap) + 1 ELSE src)
          /\ last' = [ev |-> "get", res |-> "ok", val |-> heap[src]]
          /\ UNCHANGED <<slot, gen, cur>>

\* the copy loop of shift_solution_values for i = top, top-1, .., 1 (top >= 1)
RECURSIVE ShiftLoop(_, _, _)
ShiftLoop(h, s, i) ==
  IF i < 1 THEN [h |-> h, s |-> s]
  ELSE LET src == s[i]                       \* index i-1 (1-based position i)
           r   == IF CopyOnShift THEN Len(h) + 1 ELSE src
           h2  == IF CopyOnShift THEN Alloc(h, h[src]) ELSE h
           s2  == IF i + 1 > Len(s) THEN Append(s, r) ELSE [s EXCEPT ![i + 1] = r]
       IN ShiftLoop(h2, s2, i - 1)

\* shift_solution_values(name, data, location, max_index = Depth[loc])
Shift(loc) ==
  /\ loc \in LocSet
  /\ IF slot[loc] = <<>>
     THEN /\ last' = [ev |-> "shift", res |-> "ok", val |-> 0]
          /\ UNCHANGED <<heap, slot, client, gen, cur>>
     ELSE LET num == Len(slot[loc])
              M   == Depth[loc]
              top == IF M = 0 \/ M > num THEN num ELSE M - 1
              r   == ShiftLoop(heap, slot[loc], top)
          IN /\ heap' = r.h /\ slot' = [slot EXCEPT ![loc] = r.s]
             /\ gen' = [gen EXCEPT ![loc] = <<heap[slot[loc][1]]>> \o @]
             /\ last' = [ev |-> "shift", res |-> "ok", val |-> 0]
             /\ UNCHANGED <<client, cur>>

\* the caller writes into an array it holds (argument passed earlier or result received earlier)
ClientMutate(k) ==
  /\ k \in 1..Len(client)
  /\ heap' = [heap EXCEPT ![client[k]] = @ + Bump]
  /\ last' = [ev |-> "mut", res |-> "ok", val |-> 0]
  /\ UNCHANGED <<slot, client, gen, cur>>

\* a call addressed to ANOTHER quantity (another name in the same data dictionary / the same variable name on
\* another grid): the histories of different (name, grid) pairs are independent
OtherOp ==
  /\ last' = [ev |-> "other", res |-> "ok", val |-> 0]
  /\ UNCHANGED <<heap, slot, client, gen, cur>>

Next ==
  \/ OtherOp
  \/ \E w \in {"ts", "it", "both"}, v \in SetValues : Set(w, v, FALSE)
  \/ \E w \in {"ts", "it", "both"}, v \in AddValues : Set(w, v, TRUE)
  \/ \E l \in LocSet : \E i \in 0..Len(slot[l]) : Get(l, i)
  \/ \E l \in LocSet : Shift(l)
  \/ \E k \in 1..ClientCap : ClientMutate(k)

Spec == Init /\ [][Next]_vars

(* ------------------------------- canonical view ----------------------------------------------- *)
Positions == slot["ts"] \o slot["it"] \o client
Contents == [p \in 1..Len(Positions) |-> heap[Positions[p]]]
FirstSharing == [p \in 1..Len(Positions) |->
                   CHOOSE q \in 1..p : Positions[q] = Positions[p] /\ \A q2 \in 1..(q - 1) : Positions[q2] # Positions[p]]
Canon == <<Len(slot["ts"]), Len(slot["it"]), Len(client), Contents, FirstSharing, gen, cur, last>>

Bounded == \A r \in 1..Len(heap) : heap[r] <= MaxContent

(* ---------------------------------- properties (C08) ------------------------------------------ *)
\* index 0 holds the latest write (overwrite value plus additive increments)
LatestAtZero == \A l \in LocSet : slot[l] # <<>> => heap[slot[l][1]] = cur[l]

\* index i holds the content index 0 had at the i-th most recent shift
Window == \A l \in LocSet : \A i \in 1..(Len(slot[l]) - 1) :
             i <= Len(gen[l]) => heap[slot[l][i + 1]] = gen[l][i]

\* the depth is respected: at most Depth[l] indices are kept
DepthRespected == \A l \in LocSet : Depth[l] > 0 => Len(slot[l]) <= Depth[l]
\* shifting grows the window by exactly one until the depth is reached
WindowGrows == \A l \in LocSet : slot[l] # <<>> =>
                 Len(slot[l]) = IF Depth[l] = 0 THEN Len(gen[l]) + 1
                                ELSE IF Len(gen[l]) + 1 < Depth[l] THEN Len(gen[l]) + 1 ELSE Depth[l]

\* stored arrays are pairwise distinct objects and none is reachable by the caller
NoAlias ==
  LET st == slot["ts"] \o slot["it"] IN
    /\ \A p, q \in 1..Len(st) : p # q => st[p] # st[q]
    /\ \A p \in 1..Len(st) : \A k \in 1..Len(client) : st[p] # client[k]

\* reads return the stored content
GetReturnsStored == TRUE   \* (stated on the action: last.val = content; see Get)
=============================================================================
