---------------------------- MODULE ExportImport ----------------------------
(***************************************************************************)
(* C38 "Exported states are restored exactly on import": enumeration of    *)
(* the input family and the laws of the export / import model             *)
(* (spec/ref/VtuLayout.tla).                                               *)
(*                                                                         *)
(* Spec, stage "build" -> "done": for every family (a dimension with its   *)
(*   type keys and bounds) builds every layout of at most maxgrids         *)
(*   entities and maxcells cells, cell by cell, and then picks an export   *)
(*   configuration:                                                        *)
(*     route "vtu"    write_vtu(time_step) -> import_state_from_vtu        *)
(*     route "mdgpvd" write_vtu(time_step) -> import_from_pvd(is_mdg_pvd)  *)
(*     route "pvd"    write_vtu for every step of a step list, write_pvd   *)
(*                    -> import_from_pvd (has to find the latest step)     *)
(*     frac           a 1-d subdomain and an interface are glued to every  *)
(*                    2-d grid (more files: dimension 1, mortar 1)         *)
(*     via            how the data are handed to write_vtu: "state" (keys   *)
(*                    of values stored in the md-grid), "tuples" ((grid,    *)
(*                    key, array) tuples in md-grid order), "permuted"      *)
(*                    (such tuples in reverse md-grid order; offered when   *)
(*                    there are at least two grids).  What has to come back *)
(*                    does not depend on it.                                *)
(*   Every layout gets route "vtu" with every via; layouts of at most      *)
(*   `small` cells get all routes, all step lists and every offered value  *)
(*   of frac (route "vtu" with every via, the others with one via).        *)
(*   Emit prints one record per configuration: the harness realises it     *)
(*   with real grids and the real Exporter.  `blocks` is the block layout  *)
(*   the export must produce (mechanism, conformance only).                *)
(*   Laws (must hold, design level): Permutation, RoundTrip, Naive.        *)
(*                                                                         *)
(* Spec, stage "time": enumerates histories of (time, dt) pairs for the    *)
(*   time information file; law TimeInfoLaw: loading the file written      *)
(*   after k calls gives the first k pairs, and restarting from the last   *)
(*   one leaves the pairs before it.  TEmit prints every history.          *)
(***************************************************************************)
EXTENDS VtuLayout, TLC, Json

CONSTANTS Families,    \* set of [dim, keys, maxcells, maxgrids, small, fracs]: keys = type keys (numbers of nodes)
                       \* cells are drawn from; layouts up to `small` cells are combined with every route / step
                       \* list / value of fracs (a subset of BOOLEAN)
          StepLists,   \* set of strictly increasing sequences of time-step indices (route "pvd")
          OneStep,     \* the time-step index used by the single-step routes
          TimeVals, DtVals, MaxHist   \* rationals <<n, d>> and the maximal number of write calls

VARIABLES stage, fam, layout, cfg, hist
vars == <<stage, fam, layout, cfg, hist>>

NoCfg == [route |-> "none", steps |-> <<>>, frac |-> FALSE, via |-> "none"]
NoFam == [dim |-> 0, keys |-> {}, maxcells |-> 0, maxgrids |-> 0, small |-> 0, fracs |-> {}]

Init == /\ cfg = NoCfg /\ hist = <<>>
        /\ \/ stage = "build" /\ fam \in Families /\ layout = << <<>> >>
           \/ stage = "time" /\ fam = NoFam /\ layout = <<>>

AddCell == /\ stage = "build" /\ Total(layout) < fam.maxcells
           /\ \E k \in fam.keys : layout' = [layout EXCEPT ![Len(layout)] = Append(@, k)]
           /\ UNCHANGED <<stage, fam, cfg, hist>>
NewGrid == /\ stage = "build" /\ Len(layout) < fam.maxgrids /\ layout[Len(layout)] # <<>>
           /\ Total(layout) < fam.maxcells
           /\ layout' = Append(layout, <<>>)
           /\ UNCHANGED <<stage, fam, cfg, hist>>
Vias(L) == IF Len(L) >= 2 THEN {"state", "tuples", "permuted"} ELSE {"state", "tuples"}
OneVia(L) == IF Len(L) >= 2 THEN "permuted" ELSE "tuples"
Configs(L) ==
  {[route |-> "vtu", steps |-> <<OneStep>>, frac |-> FALSE, via |-> v] : v \in Vias(L)}
  \cup (IF Total(L) <= fam.small
        THEN {[route |-> "vtu", steps |-> <<OneStep>>, frac |-> f, via |-> v] : f \in fam.fracs, v \in Vias(L)}
             \cup {[route |-> "mdgpvd", steps |-> s, frac |-> f, via |-> OneVia(L)] : s \in {<<OneStep>>} \cup StepLists, f \in fam.fracs}
             \cup {[route |-> "pvd", steps |-> s, frac |-> f, via |-> OneVia(L)] : s \in StepLists, f \in fam.fracs}
        ELSE {})
Finish == /\ stage = "build" /\ layout[Len(layout)] # <<>>
          /\ stage' = "done" /\ cfg' \in Configs(layout)
          /\ UNCHANGED <<fam, layout, hist>>
\* time information: one more write call
TNext == /\ stage = "time" /\ Len(hist) < MaxHist
         /\ \E t \in TimeVals, d \in DtVals : hist' = Append(hist, <<t, d>>)
         /\ UNCHANGED <<stage, fam, layout, cfg>>
Next == AddCell \/ NewGrid \/ Finish \/ TNext
Spec == Init /\ [][Next]_vars

Done == stage = "done"
\* pairwise distinct demonstration values
Demo(L) == [g \in DOMAIN L |-> [i \in DOMAIN L[g] |-> 100 * g + i]]

Permutation == Done => IdsArePermutation(layout)
RoundTrip   == Done => RoundTripLaw(layout, Demo(layout))
Naive       == Done => NaiveLaw(layout, Demo(layout))
\* the model of the import picks the numerically largest step index
LatestLaw   == Done => /\ Latest(cfg.steps) \in Range(cfg.steps)
                       /\ \A k \in DOMAIN cfg.steps : cfg.steps[k] <= Latest(cfg.steps)
                       /\ cfg.steps[PosOf(cfg.steps, Latest(cfg.steps))] = Latest(cfg.steps)

Emit == Done => PrintT(ToJson([dim |-> fam.dim, layout |-> layout, route |-> cfg.route, steps |-> cfg.steps,
                               frac |-> cfg.frac, via |-> cfg.via, blocks |-> Blocks(layout)]))

TimeInfoLaw ==
  \A k \in 1..Len(hist) :
    LET l == Loaded(FileAfter(hist, k))
        s == SetFromExported(l, -1)
    IN /\ Len(l.times) = k /\ Len(l.dts) = k
       /\ \A i \in 1..k : l.times[i] = hist[i][1] /\ l.dts[i] = hist[i][2]
       /\ s.time = hist[k][1] /\ s.dt = hist[k][2] /\ Len(s.times) = k - 1
       /\ SetFromExported(l, k - 1) = s
TEmit == hist # <<>> => PrintT(ToJson([hist |-> hist]))
=============================================================================
