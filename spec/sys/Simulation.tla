------------------------------ MODULE Simulation ------------------------------
(***************************************************************************)
(* The lifecycle of a PorePy model run: the composition root of the        *)
(* specification (DESIGN section 3).  It EXTENDS SimDriver (= TimeStepper  *)
(* x token storage at callback grain) and adds                             *)
(*                                                                         *)
(*  1. SolutionStrategy.prepare_simulation as a chain of sixteen actions,  *)
(*     one per call the method makes, in the order of                      *)
(*     models/solution_strategy.py (the names are the names in the code):  *)
(*                                                                         *)
(*       constructed                                                       *)
(*        -set_materials->                    materials_set                *)
(*        -set_geometry->                     geometry_set                 *)
(*        -initialize_data_saving->           data_saving_initialized      *)
(*        -set_equation_system_manager->      equation_system_created      *)
(*        -create_variables->                 variables_created            *)
(*        -assign_thermodynamic_properties_to_phases->                     *)
(*                                            thermodynamic_properties_assigned *)
(*        -initial_condition->                initial_condition_set        *)
(*        -initialize_previous_iterate_and_time_step_values->              *)
(*                                            previous_values_initialized  *)
(*        -update_time_dependent_ad_arrays->  time_dependent_arrays_updated*)
(*        -reset_state_from_file->            state_reset_from_file        *)
(*        -set_equations->                    equations_set                *)
(*        -update_discretization_parameters-> discretization_parameters_updated *)
(*        -discretize->                       discretized                  *)
(*        -_initialize_linear_solver->        linear_solver_initialized    *)
(*        -set_nonlinear_discretizations->    nonlinear_discretizations_set*)
(*        -save_data_time_step->              initial_data_saved           *)
(*        -(prepare_simulation returns)->     prepared                     *)
(*                                                                         *)
(*     Every action carries its DATA-FLOW precondition (what the real      *)
(*     method reads) as an explicit guard next to the position guard; the  *)
(*     invariant PrepareNeverBlocks says that the order of the code        *)
(*     establishes every precondition.                                     *)
(*                                                                         *)
(*  2. the body of the run:                                                *)
(*     Mode = "time"        run_time_dependent_model: the loop of SimDriver*)
(*                          (BeginStep, NewtonIter, AfterConvergence,      *)
(*                          AfterFailure) with the data export that        *)
(*                          after_nonlinear_convergence / _failure make    *)
(*                          through save_data_time_step;                   *)
(*     Mode = "stationary"  run_stationary_model: ONE solve without        *)
(*                          increase_time, constant time manager (no       *)
(*                          compute_time_step; a failed solve raises);     *)
(*                                                                         *)
(*  3. after_simulation -> finished.                                       *)
(*                                                                         *)
(* save_data_time_step is observable on its own (it is a method of the     *)
(* model), so a converged / failed solve is two actions:                   *)
(*   after_nonlinear_convergence = [compute_time_step; update_solution;    *)
(*        save_data_time_step]  (SimConvSave)  ; return (SimConvReturn)    *)
(*   after_nonlinear_failure     = [save_data_time_step] (SimFailSave) ;   *)
(*        [compute_time_step(recompute) (may raise); reset iterate]        *)
(*                                                        (SimFailReturn)  *)
(*                                                                         *)
(* Stored solution vectors are content tokens as in SimDriver; the token   *)
(* Absent (-1) stands for "not every variable has a value at this index".  *)
(* Restart from file is not modelled (reset_state_from_file is the         *)
(* restart_options["restart"] = False branch: a no-op).                    *)
(*                                                                         *)
(* Cross-component invariants (no listed property states them; the code    *)
(* relies on them): see the section "invariants" below.                    *)
(***************************************************************************)
EXTENDS SimDriver

CONSTANTS Mode,        \* "time" | "stationary"
          NSd, NIntf,  \* subdomains / interfaces of the md-grid made by set_geometry
          NVar, NDof,  \* grid variables / degrees of freedom registered by create_variables
          NEq,         \* equations registered by set_equations; their rows add up to NDof (well-posed model)
          ExportAll,   \* params["times_to_export"] is None: every save_data_time_step exports
          ExportAt     \* otherwise the set of (scaled) times listed in params["times_to_export"]

VARIABLES lc,        \* lifecycle phase (see the chain above; then "prepared", "finished")
          fluid,     \* model.fluid exists                                  (set_materials -> create_fluid)
          nsd, nintf,\* md-grid: number of subdomains / interfaces          (0 = no md-grid yet)
          exporter,  \* model.exporter exists
          es,        \* model.equation_system exists
          nvar, ndof,\* registered grid variables / dofs
          props,     \* thermodynamic properties assigned to every phase
          tda,       \* time-dependent arrays (boundary values) stored on the boundary grids
          neq, nrows,\* registered equations / total number of rows of their image spaces
          dparams,   \* ghost: discretization parameters evaluated and stored
          disc,      \* discretization matrices exist
          lsolver,   \* model.linear_solver chosen
          nexp,      \* exporter._time_step_counter (number of exported steps)
          exptimes,  \* time_manager.exported_times (written by write_time_information)
          sv,        \* "none" | "conv" | "fail": inside which callback save_data_time_step has just run
          nafter,    \* number of after_simulation calls
          acct,      \* ghost: the accepted times, in order
          saved      \* ghost: the times at which save_data_time_step ran, in order

lvars == <<lc, fluid, nsd, nintf, exporter, es, nvar, ndof, props, tda, neq, nrows, dparams, disc, lsolver,
           nexp, exptimes, sv, nafter, acct, saved>>
lvars_but_lc == <<fluid, nsd, nintf, exporter, es, nvar, ndof, props, tda, neq, nrows, dparams, disc, lsolver,
                  nexp, exptimes, sv, nafter, acct, saved>>
simvars == <<allvars, lvars>>

Absent == -1

PrepCalls == <<"set_materials", "set_geometry", "initialize_data_saving", "set_equation_system_manager",
               "create_variables", "assign_thermodynamic_properties_to_phases", "initial_condition",
               "initialize_previous_iterate_and_time_step_values", "update_time_dependent_ad_arrays",
               "reset_state_from_file", "set_equations", "update_discretization_parameters", "discretize",
               "_initialize_linear_solver", "set_nonlinear_discretizations", "save_data_time_step">>
LcChain == <<"constructed", "materials_set", "geometry_set", "data_saving_initialized", "equation_system_created",
             "variables_created", "thermodynamic_properties_assigned", "initial_condition_set",
             "previous_values_initialized", "time_dependent_arrays_updated", "state_reset_from_file",
             "equations_set", "discretization_parameters_updated", "discretized", "linear_solver_initialized",
             "nonlinear_discretizations_set", "initial_data_saved", "prepared", "finished">>
LcIdx(p) == CHOOSE k \in 1..Len(LcChain) : LcChain[k] = p      \* "constructed" = 1, LcChain[k + 1] = after call k
Prepared == lc \in {"prepared", "finished"}

AllIterates  == \A i \in 1..ItDepth : itv[i] # Absent
AllTimeSteps == \A i \in 1..TsDepth : tsv[i] # Absent
AllValues    == AllIterates /\ AllTimeSteps

DoExport(t) == ExportAll \/ t \in ExportAt
\* save_data_time_step at (scaled) time t: write_time_information + write_vtu + write_pvd if the time is selected
Save(t) ==
  /\ saved' = Append(saved, t)
  /\ IF DoExport(t) THEN nexp' = nexp + 1 /\ exptimes' = Append(exptimes, t)
                    ELSE UNCHANGED <<nexp, exptimes>>

(* ------------------------------------ prepare_simulation -------------------------------------- *)
\* data-flow preconditions: what the real method needs to find (numbered as PrepCalls)
Pre(k) ==
  CASE k = 1  -> TRUE
    [] k = 2  -> TRUE
    [] k = 3  -> nsd > 0                               \* pp.Exporter(self.mdg, ...)
    [] k = 4  -> nsd > 0                               \* pp.ad.EquationSystem(self.mdg)
    [] k = 5  -> es                                    \* equation_system.create_variables(...)
    [] k = 6  -> fluid /\ nvar > 0                     \* properties are functions of the variables ("critical")
    [] k = 7  -> nvar > 0 /\ props                     \* values of the variables (and of what depends on them)
    [] k = 8  -> itv[1] # Absent                       \* copies iterate 0 everywhere
    [] k = 9  -> nsd > 0                               \* boundary values are stored on the boundary grids
    [] k = 10 -> AllValues                             \* (restart would overwrite the values)
    [] k = 11 -> nvar > 0 /\ AllValues /\ props        \* equations are built from variables and property functions
    [] k = 12 -> AllValues /\ props                    \* tensors are evaluated at the current state
    [] k = 13 -> neq > 0 /\ dparams                    \* equation_system.discretize() walks the equations
    [] k = 14 -> TRUE
    [] k = 15 -> neq > 0
    [] k = 16 -> exporter /\ nvar > 0 /\ AllTimeSteps  \* data_to_export reads time step index 0

At(k) == lc = LcChain[k] /\ Pre(k) /\ lc' = LcChain[k + 1]

SetMaterials == At(1) /\ fluid' = TRUE
  /\ UNCHANGED <<allvars, nsd, nintf, exporter, es, nvar, ndof, props, tda, neq, nrows, dparams, disc, lsolver,
                 nexp, exptimes, sv, nafter, acct, saved>>
SetGeometry == At(2) /\ nsd' = NSd /\ nintf' = NIntf
  /\ UNCHANGED <<allvars, fluid, exporter, es, nvar, ndof, props, tda, neq, nrows, dparams, disc, lsolver,
                 nexp, exptimes, sv, nafter, acct, saved>>
InitializeDataSaving == At(3) /\ exporter' = TRUE
  /\ UNCHANGED <<allvars, fluid, nsd, nintf, es, nvar, ndof, props, tda, neq, nrows, dparams, disc, lsolver,
                 nexp, exptimes, sv, nafter, acct, saved>>
SetEquationSystemManager == At(4) /\ es' = TRUE
  /\ UNCHANGED <<allvars, fluid, nsd, nintf, exporter, nvar, ndof, props, tda, neq, nrows, dparams, disc, lsolver,
                 nexp, exptimes, sv, nafter, acct, saved>>
CreateVariables == At(5) /\ nvar' = NVar /\ ndof' = NDof
  /\ UNCHANGED <<allvars, fluid, nsd, nintf, exporter, es, props, tda, neq, nrows, dparams, disc, lsolver,
                 nexp, exptimes, sv, nafter, acct, saved>>
AssignThermodynamicProperties == At(6) /\ props' = TRUE
  /\ UNCHANGED <<allvars, fluid, nsd, nintf, exporter, es, nvar, ndof, tda, neq, nrows, dparams, disc, lsolver,
                 nexp, exptimes, sv, nafter, acct, saved>>
\* values at iterate index 0 only; the initial-condition vector is token 0
InitialCondition == At(7) /\ itv' = [itv EXCEPT ![1] = 0]
  /\ UNCHANGED <<vars, sp, newton, tsv, adt, acc, hist, lvars_but_lc>>
\* iterate 0 copied to every iterate index and every time step index
InitializePrevious == At(8)
  /\ itv' = [i \in 1..ItDepth |-> itv[1]] /\ tsv' = [i \in 1..TsDepth |-> itv[1]]
  /\ acc' = [i \in 1..TsDepth |-> itv[1]]
  /\ UNCHANGED <<vars, sp, newton, adt, hist, lvars_but_lc>>
UpdateTimeDependentArrays == At(9) /\ tda' = TRUE
  /\ UNCHANGED <<allvars, fluid, nsd, nintf, exporter, es, nvar, ndof, props, neq, nrows, dparams, disc, lsolver,
                 nexp, exptimes, sv, nafter, acct, saved>>
ResetStateFromFile == At(10) /\ UNCHANGED <<allvars, lvars_but_lc>>
SetEquations == At(11) /\ neq' = NEq /\ nrows' = NDof
  /\ UNCHANGED <<allvars, fluid, nsd, nintf, exporter, es, nvar, ndof, props, tda, dparams, disc, lsolver,
                 nexp, exptimes, sv, nafter, acct, saved>>
UpdateDiscretizationParameters == At(12) /\ dparams' = TRUE
  /\ UNCHANGED <<allvars, fluid, nsd, nintf, exporter, es, nvar, ndof, props, tda, neq, nrows, disc, lsolver,
                 nexp, exptimes, sv, nafter, acct, saved>>
Discretize == At(13) /\ disc' = TRUE
  /\ UNCHANGED <<allvars, fluid, nsd, nintf, exporter, es, nvar, ndof, props, tda, neq, nrows, dparams, lsolver,
                 nexp, exptimes, sv, nafter, acct, saved>>
InitializeLinearSolver == At(14) /\ lsolver' = TRUE
  /\ UNCHANGED <<allvars, fluid, nsd, nintf, exporter, es, nvar, ndof, props, tda, neq, nrows, dparams, disc,
                 nexp, exptimes, sv, nafter, acct, saved>>
SetNonlinearDiscretizations == At(15) /\ UNCHANGED <<allvars, lvars_but_lc>>
\* "Export initial condition"
SaveInitialData == At(16) /\ Save(time)
  /\ UNCHANGED <<allvars, fluid, nsd, nintf, exporter, es, nvar, ndof, props, tda, neq, nrows, dparams, disc,
                 lsolver, sv, nafter, acct>>
PrepareReturns == lc = "initial_data_saved" /\ lc' = "prepared" /\ UNCHANGED <<allvars, lvars_but_lc>>

Prepare ==
  \/ SetMaterials \/ SetGeometry \/ InitializeDataSaving \/ SetEquationSystemManager \/ CreateVariables
  \/ AssignThermodynamicProperties \/ InitialCondition \/ InitializePrevious \/ UpdateTimeDependentArrays
  \/ ResetStateFromFile \/ SetEquations \/ UpdateDiscretizationParameters \/ Discretize
  \/ InitializeLinearSolver \/ SetNonlinearDiscretizations \/ SaveInitialData \/ PrepareReturns

(* ------------------------------------------ the run ------------------------------------------- *)
InRun == lc = "prepared" /\ lc' = lc

\* NewtonSolver.solve -> before_nonlinear_loop.  Time-dependent: preceded by increase_time(), increase_time_index()
SimBegin ==
  /\ InRun /\ sv = "none"
  /\ IF Mode = "time" THEN BeginStep
     ELSE /\ sp = "idle" /\ phase = "ready"
          /\ phase' = "solving" /\ sp' = "loop" /\ newton' = 0 /\ adt' = dt
          /\ UNCHANGED <<time, dt, sidx, recomp, about, tindex, lastAcc, hit, nfail, exact, itv, tsv, acc, hist>>
  /\ UNCHANGED lvars_but_lc

SimIter(o, t) == InRun /\ NewtonIter(o, t) /\ UNCHANGED lvars_but_lc

\* after_nonlinear_convergence up to and including its save_data_time_step
SimConvSave ==
  /\ InRun /\ sv = "none"
  /\ IF Mode = "time" THEN AfterConvergence
     ELSE \* constant time manager: no compute_time_step; update_solution
          /\ sp = "conv" /\ phase = "solving"
          /\ tsv' = ShiftIn(tsv, itv[1], TsDepth) /\ acc' = ShiftIn(acc, itv[1], TsDepth)
          /\ sp' = "idle" /\ phase' = "done" /\ lastAcc' = time
          /\ UNCHANGED <<time, dt, sidx, recomp, about, tindex, hit, nfail, exact, newton, itv, adt, hist>>
  /\ Save(time) /\ acct' = Append(acct, time) /\ sv' = "conv"
  /\ UNCHANGED <<fluid, nsd, nintf, exporter, es, nvar, ndof, props, tda, neq, nrows, dparams, disc, lsolver, nafter>>
SimConvReturn ==
  /\ InRun /\ sv = "conv" /\ sv' = "none"
  /\ UNCHANGED <<allvars, fluid, nsd, nintf, exporter, es, nvar, ndof, props, tda, neq, nrows, dparams, disc, lsolver,
                 nexp, exptimes, nafter, acct, saved>>

\* after_nonlinear_failure: FIRST save_data_time_step (at the time of the failed attempt, nothing reset yet) ...
SimFailSave ==
  /\ InRun /\ sv = "none" /\ sp = "fail"
  /\ Save(time) /\ sv' = "fail"
  /\ UNCHANGED <<allvars, fluid, nsd, nintf, exporter, es, nvar, ndof, props, tda, neq, nrows, dparams, disc, lsolver,
                 nafter, acct>>
\* ... THEN compute_time_step(recompute_solution=True) (may raise) and the reset of iterate 0
SimFailReturn ==
  /\ InRun /\ sv = "fail" /\ sv' = "none"
  /\ IF Mode = "time" THEN AfterFailure
     ELSE \* constant time step: ValueError("Nonlinear iterations did not converge.")
          /\ sp = "fail" /\ phase = "solving" /\ nfail < FaultBudget
          /\ sp' = "idle" /\ phase' = "raised" /\ nfail' = nfail + 1
          /\ UNCHANGED <<time, dt, sidx, recomp, about, tindex, lastAcc, hit, exact, newton, itv, tsv, adt, acc, hist>>
  /\ UNCHANGED <<fluid, nsd, nintf, exporter, es, nvar, ndof, props, tda, neq, nrows, dparams, disc, lsolver,
                 nexp, exptimes, nafter, acct, saved>>

\* the loop guard final_time_reached() (time mode) / the single solve returned (stationary mode)
AfterSimulation ==
  /\ lc = "prepared" /\ sv = "none" /\ sp = "idle" /\ phase = "done"
  /\ lc' = "finished" /\ nafter' = nafter + 1
  /\ UNCHANGED <<allvars, fluid, nsd, nintf, exporter, es, nvar, ndof, props, tda, neq, nrows, dparams, disc, lsolver,
                 nexp, exptimes, sv, acct, saved>>

SimInit ==
  /\ Init
  /\ sp = "idle" /\ newton = 0 /\ adt = DtInit /\ hist = <<>>
  /\ itv = [i \in 1..ItDepth |-> Absent] /\ tsv = [i \in 1..TsDepth |-> Absent]
  /\ acc = [i \in 1..TsDepth |-> Absent]
  /\ lc = "constructed" /\ fluid = FALSE /\ nsd = 0 /\ nintf = 0 /\ exporter = FALSE /\ es = FALSE
  /\ nvar = 0 /\ ndof = 0 /\ props = FALSE /\ tda = FALSE /\ neq = 0 /\ nrows = 0 /\ dparams = FALSE
  /\ disc = FALSE /\ lsolver = FALSE /\ nexp = 0 /\ exptimes = <<>> /\ sv = "none" /\ nafter = 0
  /\ acct = <<>> /\ saved = <<>>

SimNext ==
  \/ Prepare
  \/ SimBegin
  \/ \E o \in {"continue", "converge", "diverge"} : SimIter(o, Fresh)
  \/ SimConvSave \/ SimConvReturn \/ SimFailSave \/ SimFailReturn
  \/ AfterSimulation

SimSpec == SimInit /\ [][SimNext]_simvars /\ WF_simvars(SimNext)

SimTerminal == lc = "finished" \/ phase \in {"raised", "crashed"}

(* ---------------------------------------- invariants ------------------------------------------ *)
LcTypeOK ==
  /\ lc \in {LcChain[k] : k \in 1..Len(LcChain)} /\ sv \in {"none", "conv", "fail"}
  /\ nsd \in {0, NSd} /\ nintf \in {0, NIntf} /\ nvar \in {0, NVar} /\ ndof \in {0, NDof} /\ neq \in {0, NEq}
  /\ Mode \in {"time", "stationary"}

\* the order of the calls in prepare_simulation establishes the data-flow precondition of every call
PrepareNeverBlocks == \A k \in 1..16 : lc = LcChain[k] => Pre(k)

\* variables exist before initial values do
VariablesBeforeInitialCondition == (\E i \in 1..ItDepth : itv[i] # Absent) => (es /\ nvar > 0 /\ ndof > 0)
\* from initialize_previous_iterate_and_time_step_values on every variable has a value at every index
ValuesEverywhereAfterInit == LcIdx(lc) >= 9 => AllValues
\* ... and until the first Newton iteration they are all the same vector
InitialValuesEqual ==
  (LcIdx(lc) >= 9 /\ tindex <= 1 /\ newton = 0 /\ nfail = 0 /\ acct = <<>>) =>
     (\A i \in 1..ItDepth : itv[i] = itv[1]) /\ (\A i \in 1..TsDepth : tsv[i] = itv[1])
\* equations are set only after variables and values exist
EquationsAfterValues == neq > 0 => (nvar > 0 /\ AllValues /\ props)
\* discretization only after the equations (and the parameters) are there
DiscretizeAfterEquations == disc => (neq > 0 /\ dparams)
\* well-posed: as many equation rows as degrees of freedom
WellPosed == neq > 0 => (nrows = ndof /\ ndof > 0)
\* the time loop starts only after prepare_simulation has finished
LoopAfterPrepare == (sp # "idle" \/ phase # "ready" \/ tindex > 0 \/ nfail > 0 \/ sv # "none") => Prepared
\* a Newton iteration finds everything it needs
NewtonNeedsEverything == sp = "loop" => (disc /\ lsolver /\ neq > 0 /\ AllValues /\ tda /\ props /\ exporter)
\* the exporter's step counter and the time manager's exported times move together
ExportCounterIsTimes == nexp = Len(exptimes)
\* what is exported: the selected ones among the times at which save_data_time_step ran
Selected(s) == SelectSeq(s, DoExport)
ExportedAreSaveTimes == exptimes = Selected(saved)
\* every accepted time that is selected has been exported (in order): the initial time, then the accepted ones
IsSubSeq(s, t) == \* s is a subsequence of t (greedy matching)
  LET F[i \in 0..Len(t)] == IF i = 0 THEN 0
                            ELSE LET m == F[i - 1] IN IF m < Len(s) /\ s[m + 1] = t[i] THEN m + 1 ELSE m
  IN F[Len(t)] = Len(s)
AcceptedAreExported == Prepared => IsSubSeq(Selected(<<Schedule[1]>> \o acct), exptimes)
\* NOT an invariant of the code (after_nonlinear_failure exports the failed attempt as well): kept to produce
\* the design-level counterexample that is then shown on the real code
ExportsAreAccepted == (Prepared /\ sv = "none") => exptimes = Selected(<<Schedule[1]>> \o acct)
\* after_simulation runs exactly once, at the end of a run that did not raise
AfterSimulationOnce ==
  /\ nafter = (IF lc = "finished" THEN 1 ELSE 0)
  /\ lc = "finished" => (phase = "done" /\ sp = "idle" /\ (Mode = "time" => (time = Final /\ lastAcc = Final)))
  /\ phase \in {"raised", "crashed"} => nafter = 0
\* the shape of the problem is fixed once made
ShapeIsStable == [][/\ nsd # 0 => (nsd' = nsd /\ nintf' = nintf)
                    /\ nvar # 0 => (nvar' = nvar /\ ndof' = ndof)
                    /\ neq # 0 => (neq' = neq /\ nrows' = nrows)
                    /\ disc => disc']_simvars
SimTermination == <>(SimTerminal \/ ~exact)
=============================================================================
