---------------------------- MODULE BoundaryCond ----------------------------
(***************************************************************************)
(* pp.BoundaryCondition (scalar) and pp.BoundaryConditionVectorial as a    *)
(* small state machine (C39).                                              *)
(*                                                                         *)
(* Abstract faces: 1..4 = the boundary faces conditions are assigned to    *)
(* (FracChosen of them are fracture faces of a split grid: boundary-like,  *)
(* get_all_boundary_faces() returns fracture, tip and domain boundary      *)
(* faces), 5 = a domain boundary face nothing is ever assigned to, 6 = a    *)
(* fracture face nothing is ever assigned to (split grids only), 7 = an    *)
(* interior face.                                                          *)
(* State: fl[f][k] = flag code (BCFlags: dir 1, neu 2, rob 4) of face f,   *)
(* component k (one component for the scalar class); prog = the calls made *)
(* so far.  The constructor processes its (faces, cond) list as a sequence *)
(* of Assign steps (AddItem while prog has one call); the vectorial class   *)
(* exposes set_bc for later calls (NewCall + AddItem) - the scalar class    *)
(* offers nothing but the constructor.  In "mask" form the faces of a call  *)
(* are given as a boolean array, i.e. processed in increasing face order    *)
(* without repetition; in "index" form any order, repetitions included.    *)
(* Optional (WithI2D): internal_to_dirichlet, once, vectorial class.       *)
(*                                                                         *)
(* Property layer (C39): Partition (exactly one flag per boundary face and *)
(* component), InteriorClean (no flag on the interior face),               *)
(* UnassignedNeumann.  Emit prints every program reached: the harness      *)
(* executes each on real objects (Cartesian, simplex, split fractured      *)
(* grids) and J_BoundaryCond judges the recorded flag arrays.              *)
(***************************************************************************)
EXTENDS BCFlags, TLC, Json

CONSTANTS Vectorial,    \* BOOLEAN
          NComp,        \* number of components (1 for the scalar class)
          FracChosen,   \* subset of 1..4: assigned faces that are fracture faces
          MaxAssign,    \* bound on the total number of Assign steps
          MixedForms,   \* TRUE: every call chooses its form; FALSE: all calls of a program use the form of the first
          RobDirFix,    \* TRUE: code after fix 9a25a228d
          WithI2D,      \* offer internal_to_dirichlet
          I2DFix        \* TRUE: internal_to_dirichlet clears the Robin flag (code after fix 188b3d06c)

VARIABLES prog, fl
vars == <<prog, fl>>

Fractured == FracChosen # {}
Faces == (1..5) \cup (IF Fractured THEN {6} ELSE {}) \cup {7}
Bnd == Faces \ {7}
Frac == FracChosen \cup (IF Fractured THEN {6} ELSE {})
Comps == 1..NComp

RECURSIVE NItems(_)
NItems(p) == IF p = <<>> THEN 0 ELSE Len(Head(p).items) + NItems(Tail(p))
LastCall == prog[Len(prog)]
HasI2D == \E j \in 1..Len(prog) : prog[j].op = "i2d"

Init ==
  /\ \E fm \in {"index", "mask"} : prog = <<[op |-> "ctor", form |-> fm, items |-> <<>>]>>
  /\ fl = [f \in Faces |-> [k \in Comps |-> DefaultCode(f \in Bnd)]]

\* one more (face, cond) pair in the list of the current call = one Assign step
AddItem(f, c) ==
  /\ NItems(prog) < MaxAssign
  /\ LastCall.op # "i2d"
  /\ LastCall.form = "mask" => \A j \in 1..Len(LastCall.items) : LastCall.items[j].f < f
  /\ prog' = [prog EXCEPT ![Len(prog)].items = Append(@, [f |-> f, c |-> c])]
  /\ fl' = [fl EXCEPT ![f] = [k \in Comps |-> AssignCode(fl[f][k], c, RobDirFix)]]

\* a later set_bc call (vectorial class only)
NewCall(fm) ==
  /\ Vectorial /\ NItems(prog) < MaxAssign
  /\ MixedForms \/ fm = prog[1].form
  /\ Len(prog) = 1 \/ LastCall.op = "i2d" \/ LastCall.items # <<>>
  /\ prog' = Append(prog, [op |-> "set_bc", form |-> fm, items |-> <<>>])
  /\ UNCHANGED fl

InternalToDirichlet ==
  /\ Vectorial /\ WithI2D /\ ~HasI2D
  /\ Len(prog) = 1 \/ LastCall.items # <<>>
  /\ prog' = Append(prog, [op |-> "i2d", form |-> "none", items |-> <<>>])
  /\ fl' = [f \in Faces |-> IF f \in Frac THEN [k \in Comps |-> I2DCode(fl[f][k], I2DFix)] ELSE fl[f]]

Next ==
  \/ \E f \in 1..4, c \in {"dir", "neu", "rob"} : AddItem(f, c)
  \/ \E fm \in {"index", "mask"} : NewCall(fm)
  \/ InternalToDirichlet

Spec == Init /\ [][Next]_vars

(* ------------------------------ properties (C39) -------------------------- *)
Partition == \A f \in Bnd, k \in Comps : ExactlyOne(fl[f][k])
InteriorClean == \A k \in Comps : NoFlag(fl[7][k])
UnassignedNeumann == \A f \in Bnd \ ProgFaces(prog, Frac), k \in Comps : fl[f][k] = NEU
\* the functional form used by the judge agrees with the step-wise machine
RunProgAgrees == \A f \in Faces, k \in Comps :
                   fl[f][k] = RunProg(DefaultCode(f \in Bnd), prog, f, f \in Frac, RobDirFix, I2DFix)

Emit == PrintT(ToJson([vec |-> Vectorial, prog |-> prog]))
=============================================================================
