------------------------------ MODULE SimDriver ------------------------------
(***************************************************************************)
(* A time-dependent PorePy run at the grain of the solution-strategy       *)
(* callbacks (run_time_dependent_model + NewtonSolver.solve +              *)
(* SolutionStrategy):                                                      *)
(*                                                                         *)
(*   while not final_time_reached():                                       *)
(*     BeginStep        increase_time(); increase_time_index();            *)
(*                      before_nonlinear_loop: ad_time_step := dt, counter := 0 *)
(*     while counter <= MaxIt and not converged:                           *)
(*       NewtonIter(o)  iteration + after_nonlinear_iteration (shift       *)
(*                      iterates, additive write at iterate 0, counter+1)  *)
(*                      + check_convergence -> o in continue/converge/diverge *)
(*     AfterConvergence compute_time_step(iterations = counter); shift     *)
(*                      time steps; time step 0 := iterate 0               *)
(*     AfterFailure     compute_time_step(recompute_solution = True) (may  *)
(*                      raise); iterate 0 := time step 0                   *)
(*                                                                         *)
(* The clock is the TimeStepper module (EXTENDed: its Converged / Failed   *)
(* actions are conjoined with the storage updates).  Stored solution       *)
(* vectors are content tokens (small integers, one per distinct vector);   *)
(* a Newton iteration produces a token chosen by the environment (a fresh  *)
(* one in exhaustive runs, the logged one in trace validation).            *)
(***************************************************************************)
EXTENDS TimeStepper

CONSTANTS MaxIt,      \* NewtonSolver max_iterations
          TsDepth,    \* len(time_step_indices)
          ItDepth,    \* len(iterate_indices)
          TrackHist   \* TRUE: record the outcome script in `hist` (script generation); FALSE in design runs

VARIABLES sp,      \* solver phase: "idle" "loop" "conv" "fail"
          newton,  \* nonlinear_solver_statistics.num_iteration
          itv,     \* iterate values, itv[i] is iterate index i-1
          tsv,     \* time-step values, tsv[i] is time step index i-1
          adt,     \* value of ad_time_step
          acc,     \* ghost: accepted solutions, most recent first (at most TsDepth kept)
          hist     \* ghost: the script of outcomes so far (only recorded when TrackHist)

svars == <<sp, newton, itv, tsv, adt, acc, hist>>
allvars == <<vars, svars>>

ShiftIn(s, x, depth) == SubSeq(<<x>> \o s, 1, depth)   \* x enters at index 0, the oldest falls out

SInit ==
  /\ Init
  /\ sp = "idle" /\ newton = 0
  /\ itv = [i \in 1..ItDepth |-> 0] /\ tsv = [i \in 1..TsDepth |-> 0]   \* initial condition copied everywhere
  /\ adt = DtInit /\ acc = [i \in 1..TsDepth |-> 0] /\ hist = <<>>

\* time_step(): increase_time(); increase_time_index(); then NewtonSolver.solve enters
\* before_nonlinear_loop (ad_time_step := dt, iteration counter := 0).  Nothing is observable in between.
BeginStep ==
  /\ sp = "idle" /\ IncreaseTime
  /\ sp' = "loop" /\ newton' = 0 /\ adt' = dt
  /\ UNCHANGED <<itv, tsv, acc, hist>>

\* one pass of newton_step(): the environment supplies the new iterate's token t and the outcome o
NewtonIter(o, t) ==
  /\ sp = "loop" /\ newton <= MaxIt
  /\ o \in {"continue", "converge", "diverge"}
  \* exploration bound: a solve may only fail while the fault budget lasts
  /\ (o = "diverge" \/ (o = "continue" /\ newton + 1 > MaxIt)) => nfail < FaultBudget
  /\ itv' = ShiftIn(itv, t, ItDepth)
  /\ newton' = newton + 1
  /\ sp' = CASE o = "converge" -> "conv"
             [] o = "diverge"  -> "fail"
             [] OTHER          -> IF newton + 1 <= MaxIt THEN "loop" ELSE "fail"
  /\ hist' = IF TrackHist THEN Append(hist, o) ELSE hist
  /\ UNCHANGED <<vars, tsv, adt, acc>>

AfterConvergence ==
  /\ sp = "conv" /\ Converged(newton)
  /\ tsv' = ShiftIn(tsv, itv[1], TsDepth)
  /\ acc' = ShiftIn(acc, itv[1], TsDepth)
  /\ sp' = "idle"
  /\ UNCHANGED <<newton, itv, adt, hist>>

AfterFailure ==
  /\ sp = "fail" /\ Failed
  /\ IF phase' = "raised"
     THEN UNCHANGED <<itv>>                          \* compute_time_step raised before the reset
     ELSE itv' = [itv EXCEPT ![1] = tsv[1]]
  /\ sp' = "idle"
  /\ UNCHANGED <<newton, tsv, adt, acc, hist>>

\* a token not currently stored anywhere (the smallest one: states that differ only by the names of
\* tokens no longer stored coincide)
Stored == {itv[i] : i \in 1..ItDepth} \cup {tsv[i] : i \in 1..TsDepth} \cup {acc[i] : i \in 1..TsDepth}
Fresh == CHOOSE t \in 0..(2 * (ItDepth + TsDepth) + 1) : t \notin Stored /\ \A u \in 0..(t - 1) : u \in Stored

SNext ==
  \/ BeginStep
  \/ \E o \in {"continue", "converge", "diverge"} : NewtonIter(o, Fresh)
  \/ AfterConvergence \/ AfterFailure

SSpec == SInit /\ [][SNext]_allvars /\ WF_allvars(SNext)

Terminal == phase \in {"done", "raised", "crashed"}

(* ------------------------------- properties (C10) ------------------------------------------- *)
\* after every converged step the most recent time-step values equal the converged iterate and the older
\* ones moved back by one
TsIsConvergedIterate ==
  [][AfterConvergence => /\ tsv'[1] = itv[1]
                         /\ \A i \in 2..TsDepth : tsv'[i] = tsv[i - 1]]_allvars
\* after every failed step (that does not end the run) the current iterate is the last accepted solution
IterateResetOnFailure ==
  [][(AfterFailure /\ phase' # "raised") => (itv'[1] = tsv[1] /\ tsv' = tsv)]_allvars
\* between steps the time-step history is the sequence of accepted solutions
HistoryIsAccepted == sp = "idle" => tsv = acc
\* the run ends at the final time
EndsAtFinal == phase = "done" => time = Final
\* cross-component invariants the code relies on
AdTimeStepIsDt == sp = "loop" => adt = dt
NewtonBounded == newton <= MaxIt + 1
IterateWindow == [][(newton' = newton + 1) =>
                      \A i \in 2..ItDepth : itv'[i] = itv[i - 1]]_allvars
STermination == <>(Terminal \/ ~exact)
=============================================================================
