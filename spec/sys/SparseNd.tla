------------------------------ MODULE SparseNd ------------------------------
(***************************************************************************)
(* pp.array_operations.SparseNdArray (scalar values): storage `_coords`    *)
(* (one integer coordinate tuple per stored point, in append order) and    *)
(* `_values`, the calls add(coords, values, additive) and get(coords).     *)
(*                                                                         *)
(* Impl layer = what add() does, in the order of the code:                 *)
(*   1. np.unique(axis=1) of the batch: lexicographically sorted distinct  *)
(*      coordinates U, index of first occurrence u2a, inverse map a2u,     *)
(*      counts;                                                            *)
(*   2. consolidation of the values: additive -> bincount (sum per         *)
(*      distinct coordinate); overwrite with duplicates -> last occurrence;*)
(*      overwrite without duplicates -> plain permutation values[u2a]      *)
(*      (FwdPerm = TRUE; FALSE models the code before fix 65449598c which  *)
(*      used values[a2u]);                                                 *)
(*   3. membership split of U against the stored coordinates               *)
(*      (intersect_sets);                                                  *)
(*   4. in-place update of the stored values of the members: every member  *)
(*      is written to its own storage slot (PairByMatch = TRUE).  FALSE    *)
(*      models the code before fix bc4022bb5, which paired the r-th member *)
(*      (in the order of U) with the r-th smallest matched storage index   *)
(*      (ib_unique of intersect_sets is sorted);                           *)
(*   5. append of the non-members, in the order of U; the call returns     *)
(*      u2a of the appended coordinates (0-based).                         *)
(* get(): every coordinate is looked up in storage; one absent coordinate  *)
(* raises ValueError.                                                      *)
(*                                                                         *)
(* Ref layer = a dictionary coord -> value (module CoordDict).             *)
(* Property layer (C46): Represents (storage, read as a set of pairs, is   *)
(* the dictionary), GetAgrees (a read returns what the dictionary holds /  *)
(* raises for a coordinate never inserted), NoDupStored.                   *)
(***************************************************************************)
EXTENDS CoordDict

CONSTANTS Dim,          \* number of coordinate axes
          Side,         \* coordinates range over 0..Side-1
          MaxBatch,     \* longest batch offered (design run)
          GetBatch,     \* longest read offered (design run)
          MaxAdds,      \* history bound: number of add calls
          FwdPerm,      \* TRUE: code after fix 65449598c
          PairByMatch   \* TRUE: code after fix bc4022bb5

VARIABLES coords, vals,   \* Impl: storage in append order
          ref,            \* Ref: the dictionary
          nadd,           \* number of add calls so far (history bound)
          last, exp,      \* outcome of the last call (Impl) / what the dictionary says a read must deliver
          ret             \* vector returned by the last add (mechanism only, hidden by DesignView)

vars == <<coords, vals, ref, nadd, last, exp, ret>>
DesignView == <<coords, vals, ref, nadd, last, exp>>

(* ------------------------------ helpers ----------------------------------- *)
RECURSIVE LexLt(_, _)
LexLt(a, b) == IF a = <<>> THEN FALSE
               ELSE IF Head(a) # Head(b) THEN Head(a) < Head(b)
               ELSE LexLt(Tail(a), Tail(b))
LexMin(S) == CHOOSE x \in S : \A y \in S : x = y \/ LexLt(x, y)
RECURSIVE SortCoords(_)
SortCoords(S) == IF S = {} THEN <<>> ELSE LET m == LexMin(S) IN <<m>> \o SortCoords(S \ {m})

MinOf(S) == CHOOSE x \in S : \A y \in S : x <= y
MaxOf(S) == CHOOSE x \in S : \A y \in S : x >= y
RECURSIVE SortInts(_)
SortInts(S) == IF S = {} THEN <<>> ELSE LET m == MinOf(S) IN <<m>> \o SortInts(S \ {m})
RECURSIVE SumOver(_, _)
SumOver(S, f) == IF S = {} THEN 0 ELSE LET j == MinOf(S) IN f[j] + SumOver(S \ {j}, f)

Stored(cs) == {cs[k] : k \in 1..Len(cs)}
SlotOf(cs, c) == CHOOSE k \in 1..Len(cs) : cs[k] = c

(* ------------------------------ add --------------------------------------- *)
\* result of add(batch, bv, additive) on storage (cs, vs)
AddResult(cs, vs, batch, bv, additive) ==
  LET n    == Len(batch)
      U    == SortCoords({batch[j] : j \in 1..n})                    \* step 1
      m    == Len(U)
      a2u  == [j \in 1..n |-> CHOOSE i \in 1..m : U[i] = batch[j]]
      occ(i) == {j \in 1..n : a2u[j] = i}
      u2a  == [i \in 1..m |-> MinOf(occ(i))]
      nodup == \A i \in 1..m : Cardinality(occ(i)) = 1
      uv   == [i \in 1..m |->                                         \* step 2
                IF additive THEN SumOver(occ(i), bv)
                ELSE IF nodup THEN (IF FwdPerm THEN bv[u2a[i]] ELSE bv[a2u[i]])
                ELSE bv[MaxOf(occ(i))]]
      mem  == SortInts({i \in 1..m : U[i] \in Stored(cs)})            \* step 3
      new  == SortInts({i \in 1..m : U[i] \notin Stored(cs)})
      ib   == SortInts({k \in 1..Len(cs) : cs[k] \in {U[i] : i \in 1..m}})
      tgt  == [r \in 1..Len(mem) |-> IF PairByMatch THEN SlotOf(cs, U[mem[r]]) ELSE ib[r]]
      vs2  == [k \in 1..Len(vs) |->                                   \* step 4
                IF \E r \in 1..Len(mem) : tgt[r] = k
                THEN LET r == CHOOSE r \in 1..Len(mem) : tgt[r] = k
                     IN IF additive THEN vs[k] + uv[mem[r]] ELSE uv[mem[r]]
                ELSE vs[k]]
  IN [cs  |-> cs \o [r \in 1..Len(new) |-> U[new[r]]],               \* step 5
      vs  |-> vs2 \o [r \in 1..Len(new) |-> uv[new[r]]],
      out |-> [r \in 1..Len(new) |-> u2a[new[r]] - 1]]

Add(batch, bv, additive) ==
  /\ Len(batch) = Len(bv)
  /\ LET r == AddResult(coords, vals, batch, bv, additive) IN
       /\ coords' = r.cs /\ vals' = r.vs
       /\ last' = [ev |-> "add", res |-> "ok", out |-> <<>>]
       /\ ret' = r.out
  /\ ref' = DictAdd(ref, batch, bv, additive)
  /\ nadd' = nadd + 1
  /\ UNCHANGED exp

(* ------------------------------ get --------------------------------------- *)
Get(batch) ==
  /\ Len(batch) >= 1
  /\ last' = IF \A j \in 1..Len(batch) : batch[j] \in Stored(coords)
             THEN [ev |-> "get", res |-> "ok",
                   out |-> [j \in 1..Len(batch) |-> vals[SlotOf(coords, batch[j])]]]
             ELSE [ev |-> "get", res |-> "ValueError", out |-> <<>>]
  /\ exp' = DictGet(ref, batch)
  /\ ret' = <<>>
  /\ UNCHANGED <<coords, vals, ref, nadd>>

(* ------------------------------ design run -------------------------------- *)
RECURSIVE Tuples(_)
Tuples(k) == IF k = 0 THEN {<<>>} ELSE {<<x>> \o t : x \in 0..(Side - 1), t \in Tuples(k - 1)}
Box == Tuples(Dim)
RECURSIVE SeqsUpTo(_, _)
SeqsUpTo(S, k) == IF k = 0 THEN {<<>>}
                  ELSE SeqsUpTo(S, k - 1) \cup {Append(s, x) : s \in {t \in SeqsUpTo(S, k - 1) : Len(t) = k - 1}, x \in S}

\* values offered by the harness: position j of a batch carries 2^(j-1), so that every subset of positions
\* (additive) and every single position (overwrite) gives a different value
RECURSIVE Pow(_, _)
Pow(b, e) == IF e = 0 THEN 1 ELSE b * Pow(b, e - 1)
ValsFor(n) == [j \in 1..n |-> Pow(2, j - 1)]

Batches == SeqsUpTo(Box, MaxBatch)      \* constant-level: evaluated once
GetBatches == SeqsUpTo(Box, GetBatch) \ {<<>>}

Init ==
  /\ coords = <<>> /\ vals = <<>> /\ ref = EmptyDict /\ nadd = 0
  /\ last = [ev |-> "init", res |-> "ok", out |-> <<>>]
  /\ exp = [res |-> "ok", out |-> <<>>] /\ ret = <<>>

Next ==
  \* (a read leaves everything but last/exp unchanged, so continuing after a read adds nothing)
  \/ /\ nadd < MaxAdds /\ last.ev # "get"
     /\ \E batch \in Batches, additive \in BOOLEAN : Add(batch, ValsFor(Len(batch)), additive)
  \/ last.ev # "get" /\ \E batch \in GetBatches : Get(batch)

Spec == Init /\ [][Next]_vars

(* ------------------------------ properties (C46) -------------------------- *)
NoDupStored == \A k, l \in 1..Len(coords) : k # l => coords[k] # coords[l]
Represents ==
  /\ Len(coords) = Len(vals)
  /\ Stored(coords) = DOMAIN ref
  /\ \A k \in 1..Len(coords) : vals[k] = ref[coords[k]]
GetAgrees ==
  last.ev = "get" => IF exp.res = "ok" THEN last.res = "ok" /\ last.out = exp.out
                                        ELSE last.res # "ok"
=============================================================================
