------------------------------- MODULE MdGrid -------------------------------
(***************************************************************************)
(* pp.MixedDimensionalGrid under histories of its public mutators          *)
(* (src/porepy/grids/md_grid.py), at the grain of the public API:           *)
(*    AddSubdomains(L)          add_subdomains(list)                        *)
(*    AddInterface(i, a, b)     add_interface(intf, (a, b), map)            *)
(*    RemoveSubdomain(s)        remove_subdomain(sd)                        *)
(*    ReplaceSubdomains(map)    replace_subdomains_and_interfaces(sd_map)   *)
(*    ReplaceInterface(i)       replace_subdomains_and_interfaces(          *)
(*                                  interface_map={intf: side grids})       *)
(*                                                                         *)
(* Mechanism layer.  The five dictionaries of the class, as they are:       *)
(*    sdKeys  keys of _subdomain_data in insertion order                    *)
(*    ifKeys  keys of _interface_data in insertion order                    *)
(*    ifPair  _interface_to_subdomains (interface |-> stored pair)          *)
(*    bgOf    _subdomain_to_boundary_grid (subdomain |-> creation stamp of   *)
(*            its BoundaryGrid; nb = number of boundary grids created)      *)
(*    sdTag / ifTag / bgTag   contents of the data dictionaries             *)
(* Listings go through argsort_grids (dimensions dim_max() .. 0 of the      *)
(* PRESENT subdomains, ascending id inside a dimension: an object of        *)
(* higher dimension than every present subdomain is silently dropped).      *)
(* Each action performs the sub-steps of the method in the code's order, so  *)
(* that an exception half-way leaves the modelled partial state:            *)
(*    BgGuard = FALSE             the code before fix 5d1eabcd5: remove /    *)
(*                                replace look up the boundary grid of a     *)
(*                                0-d subdomain -> KeyError after the        *)
(*                                container was modified                    *)
(*    AtomicAddInterface = FALSE  the code before fix 3b4bfadde: add_interface *)
(*                                stores the data dictionary before the      *)
(*                                co-dimension check raises                 *)
(* With both TRUE (the code as it is) TLC checks exhaustively that           *)
(* what the public API would answer (ObsOf) satisfies every C24 clause of    *)
(* ref/MdGridRef.tla against the reference state `ref` (Design); with one    *)
(* of them FALSE the same invariant must fail (vacuity check).               *)
(*                                                                         *)
(* Property layer (C24): ref/MdGridRef.tla.  trace/T_MdGrid.tla validates    *)
(* every transition recorded from the real class against these actions.     *)
(***************************************************************************)
EXTENDS MdGridRef

CONSTANTS Pool0,               \* [D |-> dims of the subdomain pool, M |-> dims of the mortar pool]
          AddLists,            \* set of lists offered to add_subdomains
          BgGuard, AtomicAddInterface

VARIABLES pool, sdKeys, ifKeys, ifPair, bgOf, nb, sdTag, ifTag, bgTag, last, ref
mvars == <<pool, sdKeys, ifKeys, ifPair, bgOf, nb, sdTag, ifTag, bgTag, last, ref>>

D == pool.D
M == pool.M

(* ------------------------------ mechanism: sorting ---------------------------------------------- *)
MaxOf(S) == CHOOSE x \in S : \A y \in S : x >= y
DimMaxOf(p, keys) == MaxOf({p.D[keys[k]] : k \in 1..Len(keys)})
\* grids of S by (dimension df[x] descending from dmax to 0, id idf[x] ascending)
RECURSIVE ById(_, _)
ById(idf, S) == IF S = {} THEN <<>>
                ELSE LET m == CHOOSE x \in S : \A y \in S : idf[x] <= idf[y] IN <<m>> \o ById(idf, S \ {m})
RECURSIVE ArgSortFrom(_, _, _, _)
ArgSortFrom(df, idf, S, d) ==
  IF d < 0 THEN <<>> ELSE ById(idf, {x \in S : df[x] = d}) \o ArgSortFrom(df, idf, S, d - 1)
Ident(S) == [x \in S |-> x]
\* argsort_grids under the subdomains `keys`
ArgSort(p, keys, df, idf, S) == IF keys = <<>> THEN <<>> ELSE ArgSortFrom(df, idf, S, DimMaxOf(p, keys))

PosIn(seq, x) == CHOOSE k \in 1..Len(seq) : seq[k] = x
RankIn(f, S, x) == Cardinality({y \in S : f[y] < f[x]})

(* ------------------------------ what the public API answers ------------------------------------- *)
ObsOf(p, sk, ik, ip, bo, st, it, bt) ==
  LET S == SetOf(sk)
      I == SetOf(ik)
      sds == ArgSort(p, sk, p.D, Ident(S), S)
      ifs == ArgSort(p, sk, p.M, Ident(I), I)
      dangling == \E i \in I : i \notin DOMAIN ip
      sortpair(q) == ArgSort(p, sk, p.D, Ident({q[1], q[2]}), {q[1], q[2]})
      pairOf(i) == IF i \in DOMAIN ip /\ Len(sortpair(ip[i])) = 2 THEN sortpair(ip[i]) ELSE <<-1, -1>>
      \* reverse dictionary {pair: interface}: the last interface stored for a pair wins
      backOf(q) == LET c == {k \in 1..Len(ik) : ik[k] \in DOMAIN ip /\ (ip[ik[k]] = q \/ ip[ik[k]] = <<q[2], q[1]>>)}
                   IN IF c = {} THEN -1 ELSE ik[MaxOf(c)]
      touch(s) == {i \in DOMAIN ip : ip[i][1] = s \/ ip[i][2] = s}
      neigh(s) == {Other(ip[i], s) : i \in touch(s)}
      B == DOMAIN bo
      bdim == [s \in B |-> p.D[s] - 1]
      guard == sk # <<>> /\ B = {}
      bnd == IF guard THEN <<>> ELSE ArgSort(p, sk, bdim, bo, B)
  IN [sds |-> sds,
      by_dim |-> [d \in 1..4 |-> SelectSeq(sds, LAMBDA x : p.D[x] = d - 1)],
      sd_tag |-> [k \in 1..Len(sds) |-> st[sds[k]]],
      ifs |-> ifs,
      if_by_dim |-> [d \in 1..3 |-> SelectSeq(ifs, LAMBDA x : p.M[x] = d - 1)],
      if_tag |-> [k \in 1..Len(ifs) |-> it[ifs[k]]],
      pair |-> [k \in 1..Len(ifs) |-> pairOf(ifs[k])],
      back |-> [k \in 1..Len(ifs) |-> IF pairOf(ifs[k])[1] = -1 THEN -1 ELSE backOf(pairOf(ifs[k]))],
      back_rev |-> [k \in 1..Len(ifs) |-> IF pairOf(ifs[k])[1] = -1 THEN -1
                                          ELSE backOf(<<pairOf(ifs[k])[2], pairOf(ifs[k])[1]>>)],
      sd_ifs |-> [k \in 1..Len(sds) |-> IF dangling THEN <<-1>> ELSE ArgSort(p, sk, p.M, Ident(touch(sds[k])), touch(sds[k]))],
      neigh |-> [k \in 1..Len(sds) |-> ArgSort(p, sk, p.D, Ident(neigh(sds[k])), neigh(sds[k]))],
      neigh_hi |-> [k \in 1..Len(sds) |-> LET N == {x \in neigh(sds[k]) : p.D[x] > p.D[sds[k]]} IN ArgSort(p, sk, p.D, Ident(N), N)],
      neigh_lo |-> [k \in 1..Len(sds) |-> LET N == {x \in neigh(sds[k]) : p.D[x] < p.D[sds[k]]} IN ArgSort(p, sk, p.D, Ident(N), N)],
      bnd_kind |-> IF guard THEN "guard" ELSE "list",
      bnd_parent |-> bnd,
      bnd_dim |-> [k \in 1..Len(bnd) |-> bdim[bnd[k]]],
      bnd_rank |-> [k \in 1..Len(bnd) |-> RankIn(bo, B, bnd[k])],
      bnd_tag |-> [k \in 1..Len(bnd) |-> bt[bnd[k]]],
      sd_bg |-> [k \in 1..Len(sds) |-> IF sds[k] \in B THEN sds[k] ELSE -1],
      sd_bg_pos |-> [k \in 1..Len(sds) |-> IF sds[k] \in B /\ \E j \in 1..Len(bnd) : bnd[j] = sds[k] THEN PosIn(bnd, sds[k]) ELSE 0],
      absent_bg_none |-> B \subseteq S,
      has_sd |-> [g \in 1..Len(p.D) |-> g \in S],
      has_if |-> [i \in 1..Len(p.M) |-> i \in I],
      nsd |-> Len(sk), nif |-> Len(ik),
      errors |-> IF dangling THEN <<"KeyError">> ELSE <<>>]

Obs == ObsOf(pool, sdKeys, ifKeys, ifPair, bgOf, sdTag, ifTag, bgTag)

(* ------------------------------ actions ---------------------------------------------------------- *)
\* start from a container holding the subdomains sk, the interfaces ifs = sequence of <<i, a, b>> and boundary grids
\* created in the order bgs (sequence of parents); every data dictionary is tagged with its object's name
InitWith(p, sk, ifs, bgs) ==
  /\ pool = p /\ sdKeys = sk
  /\ ifKeys = [k \in 1..Len(ifs) |-> ifs[k][1]]
  /\ ifPair = [i \in {ifs[k][1] : k \in 1..Len(ifs)} |->
                 LET k == CHOOSE j \in 1..Len(ifs) : ifs[j][1] = i IN HiLo(p.D, ifs[k][2], ifs[k][3])]
  /\ bgOf = [s \in SetOf(bgs) |-> PosIn(bgs, s)] /\ nb = Len(bgs)
  /\ sdTag = [s \in SetOf(sk) |-> s] /\ ifTag = [i \in {ifs[k][1] : k \in 1..Len(ifs)} |-> i]
  /\ bgTag = [s \in SetOf(bgs) |-> s]
  /\ last = "init"
  /\ ref = [sds |-> SetOf(sk), ifs |-> ifPair, tag |-> sdTag, itag |-> ifTag, btag |-> bgTag]

Init == InitWith(Pool0, <<>>, <<>>, <<>>)

MSt == [sds |-> SetOf(sdKeys), ifs |-> ifPair]        \* enough of a state for the family predicates

AddSubdomains(L) ==
  /\ FamAdd(D, MSt, L)
  /\ ref' = RefAdd(D, ref, L).st /\ UNCHANGED pool
  /\ IF \E k \in 1..Len(L) : L[k] \in SetOf(sdKeys)
     THEN last' = "ValueError" /\ UNCHANGED <<sdKeys, ifKeys, ifPair, bgOf, nb, sdTag, ifTag, bgTag>>
     ELSE LET pos == SelectSeq(L, LAMBDA s : D[s] > 0) IN
          /\ sdKeys' = sdKeys \o L
          /\ sdTag' = [s \in SetOf(L) |-> s] @@ sdTag
          /\ bgOf' = [s \in SetOf(pos) |-> nb + PosIn(pos, s)] @@ bgOf
          /\ bgTag' = [s \in SetOf(pos) |-> s] @@ bgTag
          /\ nb' = nb + Len(pos) /\ last' = "ok"
          /\ UNCHANGED <<ifKeys, ifPair, ifTag>>

AddInterfaceV(i, a, b, atomic) ==
  /\ FamAddIntf(D, M, MSt, i, a, b)
  /\ ref' = RefAddIntf(D, ref, i, a, b).st /\ UNCHANGED <<pool, sdKeys, bgOf, nb, sdTag, bgTag>>
  /\ IF i \in SetOf(ifKeys)
     THEN last' = "ValueError" /\ UNCHANGED <<ifKeys, ifPair, ifTag>>
     ELSE IF AbsV(D[a] - D[b]) >= 3
          THEN /\ last' = "ValueError" /\ UNCHANGED ifPair
               /\ IF atomic THEN UNCHANGED <<ifKeys, ifTag>>
                  ELSE ifKeys' = Append(ifKeys, i) /\ ifTag' = (i :> -1) @@ ifTag
          ELSE /\ ifKeys' = Append(ifKeys, i) /\ ifPair' = (i :> HiLo(D, a, b)) @@ ifPair
               /\ ifTag' = (i :> i) @@ ifTag /\ last' = "ok"

AddInterface(i, a, b) == AddInterfaceV(i, a, b, AtomicAddInterface)

RemoveSubdomain(s) ==
  /\ FamRemove(MSt, s)
  /\ ref' = RefRemove(D, ref, s).st /\ UNCHANGED <<pool, nb>>
  /\ LET keys1 == SelectSeq(sdKeys, LAMBDA x : x # s)                      \* del _subdomain_data[sd]
         tag1 == Restrict(sdTag, SetOf(keys1))
         I == SetOf(ifKeys)
         listed == ArgSort(pool, keys1, M, Ident(I), I)                    \* self.interfaces()
         dangling == \E k \in 1..Len(listed) : listed[k] \notin DOMAIN ifPair
         gone == {i \in SetOf(listed) : i \in DOMAIN ifPair /\ (ifPair[i][1] = s \/ ifPair[i][2] = s)}
         keep == DOMAIN ifPair \ gone
     IN /\ sdKeys' = keys1 /\ sdTag' = tag1
        /\ IF keys1 = <<>> /\ ifKeys # <<>>
           THEN last' = "AssertionError" /\ UNCHANGED <<ifKeys, ifPair, ifTag, bgOf, bgTag>>
           ELSE IF dangling
           THEN last' = "KeyError" /\ UNCHANGED <<ifKeys, ifPair, ifTag, bgOf, bgTag>>
           ELSE /\ ifKeys' = SelectSeq(ifKeys, LAMBDA x : x \notin gone)
                /\ ifPair' = Restrict(ifPair, keep) /\ ifTag' = Restrict(ifTag, SetOf(ifKeys) \ gone)
                /\ IF s \in DOMAIN bgOf
                   THEN /\ bgOf' = Restrict(bgOf, DOMAIN bgOf \ {s}) /\ bgTag' = Restrict(bgTag, DOMAIN bgTag \ {s})
                        /\ last' = "ok"
                   ELSE /\ UNCHANGED <<bgOf, bgTag>>
                        /\ last' = IF BgGuard THEN "ok" ELSE "KeyError"

\* one entry of sd_map, on a record m of the dictionaries it touches
ReplOne(m, old, new) ==
  LET keys1 == IF new \in SetOf(m.sk) THEN m.sk ELSE Append(m.sk, new)      \* _subdomain_data[new] = data
      tag1 == (new :> m.st[old]) @@ m.st
      dangling == \E k \in 1..Len(ifKeys) : ifKeys[k] \notin DOMAIN m.ip    \* subdomain_to_interfaces(old) raises
      sorted(q) == HiLo(D, q[1], q[2])                                     \* interface_to_subdomain_pair
      ip1 == [i \in DOMAIN m.ip |->
                IF sorted(m.ip[i])[1] = old THEN <<new, sorted(m.ip[i])[2]>>
                ELSE IF sorted(m.ip[i])[2] = old THEN <<sorted(m.ip[i])[1], new>> ELSE m.ip[i]]
      keys2 == SelectSeq(keys1, LAMBDA x : x # old)                         \* del _subdomain_data[old]
      tag2 == Restrict(tag1, SetOf(keys2))
  IN IF m.last # "ok" THEN m
     ELSE IF dangling THEN [m EXCEPT !.sk = keys1, !.st = tag1, !.last = "KeyError"]
     ELSE IF old \notin DOMAIN m.bo
          THEN [m EXCEPT !.sk = keys2, !.st = tag2, !.ip = ip1, !.last = IF BgGuard THEN "ok" ELSE "KeyError"]
          ELSE [m EXCEPT !.sk = keys2, !.st = tag2, !.ip = ip1,
                         !.bo = (new :> m.n + 1) @@ Restrict(m.bo, DOMAIN m.bo \ {old}),
                         !.bt = (new :> m.bt[old]) @@ Restrict(m.bt, DOMAIN m.bt \ {old}),
                         !.n = m.n + 1]
RECURSIVE ReplSeq(_, _)
ReplSeq(m, map) == IF map = <<>> THEN m ELSE ReplSeq(ReplOne(m, map[1][1], map[1][2]), Tail(map))

ReplaceSubdomains(map) ==
  /\ map # <<>> /\ FamReplaceSeq(D, MSt, map)
  /\ ref' = RefReplace(D, ref, map).st /\ UNCHANGED <<pool, ifKeys, ifTag>>
  /\ LET m == ReplSeq([sk |-> sdKeys, st |-> sdTag, ip |-> ifPair, bo |-> bgOf, bt |-> bgTag, n |-> nb, last |-> "ok"], map)
     IN /\ sdKeys' = m.sk /\ sdTag' = m.st /\ ifPair' = m.ip /\ bgOf' = m.bo /\ bgTag' = m.bt /\ nb' = m.n
        /\ last' = m.last

\* interface_map: the mortar grid object is updated in place, the container does not change
ReplaceInterface(i) ==
  /\ i \in DOMAIN ifPair
  /\ last' = "ok" /\ UNCHANGED <<pool, sdKeys, ifKeys, ifPair, bgOf, nb, sdTag, ifTag, bgTag, ref>>

Absent == (1..Len(D)) \ SetOf(sdKeys)
Next ==
  \/ \E L \in AddLists : AddSubdomains(L)
  \/ \E i \in 1..Len(M) : \E a, b \in SetOf(sdKeys) : AddInterface(i, a, b)
  \/ \E s \in SetOf(sdKeys) : RemoveSubdomain(s)
  \/ \E old \in SetOf(sdKeys) : \E new \in Absent : ReplaceSubdomains(<<<<old, new>>>>)
  \/ \E i \in SetOf(ifKeys) : ReplaceInterface(i)

Spec == Init /\ [][Next]_mvars

(* ------------------------------ design check ------------------------------------------------------ *)
AllStateClauses(DD, MM, st, o) ==
  /\ ListingSorted(DD, st, o) /\ InterfaceListing(MM, st, o) /\ PairRoundTrip(DD, MM, st, o)
  /\ OneBoundaryGrid(DD, st, o) /\ DataCarriedOver(DD, st, o) /\ NoDangling(DD, MM, st, o)

\* what the API answers satisfies every clause against the reference state, and only rejected calls raise
Design == AllStateClauses(D, M, ref, Obs) /\ last \in {"init", "ok", "ValueError"}
\* the stored dictionaries are mutually consistent
Consistent ==
  /\ DOMAIN ifPair = SetOf(ifKeys) /\ DOMAIN ifTag = SetOf(ifKeys) /\ DOMAIN sdTag = SetOf(sdKeys)
  /\ \A i \in DOMAIN ifPair : {ifPair[i][1], ifPair[i][2]} \subseteq SetOf(sdKeys)
  /\ DOMAIN bgOf = {s \in SetOf(sdKeys) : D[s] > 0} /\ DOMAIN bgTag = DOMAIN bgOf
  /\ \A s, t \in DOMAIN bgOf : s # t => bgOf[s] # bgOf[t]
=============================================================================
