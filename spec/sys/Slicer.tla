-------------------------------- MODULE Slicer --------------------------------
(***************************************************************************)
(* C36: state machine that ENUMERATES slicer programs (see SlicerRef for   *)
(* the statement forms, the reference and the mechanism model).            *)
(*                                                                         *)
(* A behaviour starts from a scenario (1..3 `new` statements) and appends  *)
(* statements Transpose / MatmulSlicer(i, j) / ROp(x, op, i) / Apply(i, y) *)
(* over all names bound so far - so a slicer can be reused in a later      *)
(* statement after it was transposed, chained, or given a pending          *)
(* operation.  Only statements whose reference value is defined are        *)
(* generated (sizes fit: the family of the property).  Every terminal      *)
(* program is emitted as JSON; the harness executes it on real ArraySlicer *)
(* objects and J_Slicer judges the results.                                *)
(*                                                                         *)
(* Design-level laws checked by TLC on the model itself:                   *)
(*   SliceLaw       both slicing code paths equal the matrix product for   *)
(*                  partial injections                                     *)
(*   ImplIsRef      the mechanism model returns the reference value in     *)
(*                  every Apply of a name whose expression never attached  *)
(*                  a pending operand to an object that already carried    *)
(*                  one (`taint`, the single-slot limitation); with        *)
(*                  CopyOnMatmul = FALSE (pre-fix code) it is violated by  *)
(*                  a reuse program, which shows that the enumerated       *)
(*                  family can tell the two apart.                         *)
(***************************************************************************)
EXTENDS SlicerRef, TLC, Json

CONSTANTS Configs,      \* sequence of enumeration configurations (records, see below); a behaviour picks one
          Scen,         \* Scen[c] = the scenarios of Configs[c]: set of sequences of [s, mode], the initial `new` statements
          CopyOnMatmul  \* mechanism switch: TRUE = the code as it is

\* a configuration:
\*   name         label printed with every emitted program
\*   MaxStmts     statements after the scenario
\*   ScalarOps    pending operations offered with a scalar left operand
\*   SparseOps    set of <<op, fmt>>: pending operations offered with a sparse left operand (fmt = scipy class)
\*   ScalarFmts   Python types of scalar operands: "int" "float" "np"
\*   SparseFmts   formats of sparse operands of Apply: "csr" "csc" "coo"
\*   KindsFinal   operand kinds of the last Apply
\*   KindsMid     operand kinds of Applies before the last statement ({} = a program ends at its first Apply)
\*   AllowT, AllowMM
\*   AllowOver    generate statements that attach a pending operand to an object that already has one
\*   Variants     offer two different sparse / AD operands of equal shape and entry count (reuse of one slicer object)
VARIABLES cfi, prog, rs, left     \* left = statements still allowed
svars == <<cfi, prog, rs, left>>
Cf == Configs[cfi]

(* ------------------------------ operands --------------------------------- *)
YVec(n) == Val("vec", [i \in 1..n |-> <<i>>], <<>>, "")
YMat(n) == Val("mat", [i \in 1..n |-> <<i, 5 - i>>], <<>>, "")
SpRow(i) == IF i = 3 THEN <<0, 0>> ELSE IF i % 2 = 1 THEN <<i, 0>> ELSE <<0, i>>
YSp(n, fmt) == Val("sp", [i \in 1..n |-> SpRow(i)], <<>>, fmt)
YAd(n) == Val("ad", [i \in 1..n |-> <<i>>], [i \in 1..n |-> [j \in 1..3 |-> IF (i + j) % 2 = 0 THEN i + j ELSE 0]], "")
YSc(fmt) == Val("sc", <<<<3>>>>, <<>>, fmt)
\* second sparse / AD operand of the same shape and the same number of stored entries but another distribution of
\* the entries over the rows (configurations with Variants = TRUE apply one slicer object to both: anything a slicer
\* remembers from an earlier operand must not leak into the next application)
YSp2(n, fmt) == Val("sp", [i \in 1..n |-> IF n >= 2 /\ i = 1 THEN <<1, 2>> ELSE IF n >= 2 /\ i = 2 THEN <<0, 0>> ELSE SpRow(i)], <<>>, fmt)
YAd2(n) == LET a == YAd(n) IN Val("ad", a.val, [i \in 1..n |-> IF n >= 2 /\ i <= 2 THEN a.jac[3 - i] ELSE a.jac[i]], "")
Operands(kind, n) ==
  CASE kind = "vec" -> {YVec(n)}
    [] kind = "mat" -> {YMat(n)}
    [] kind = "sp"  -> {YSp(n, f) : f \in Cf.SparseFmts} \cup (IF Cf.Variants THEN {YSp2(n, f) : f \in Cf.SparseFmts} ELSE {})
    [] kind = "ad"  -> {YAd(n)} \cup (IF Cf.Variants THEN {YAd2(n)} ELSE {})
    [] kind = "sc"  -> {YSc(f) : f \in Cf.ScalarFmts}
XScalar(op, fmt) == Val("sc", <<<<IF op = "/" THEN 12 ELSE 2>>>>, <<>>, fmt)
XSparse(m, fmt) == Val("sp", [r \in 1..2 |-> [c \in 1..m |-> IF (r + c) % 2 = 0 THEN r + c ELSE 0]], <<>>, fmt)

(* ------------------------------ statements ------------------------------- *)
NNames == Len(rs.addr)
Plain(i) == Len(rs.den[i]) = 1                       \* a constructed or transposed slicer, nothing pending
Last == prog[Len(prog)]
Remaining == left
Ended == Remaining = 0 \/ (Cf.KindsMid = {} /\ Last.st = "app")

\* statements inside the family of the property (sizes fit, the reference value is defined)
Admissible(q, n) ==
  CASE q.st = "T"   -> Plain(q.i)
    [] q.st = "mm"  -> OutRows(rs.den[q.j]) = InRows(rs.den[q.i]) /\ (Cf.AllowOver \/ ~HasPending(rs, q.j))
    [] q.st = "rop" -> Cf.AllowOver \/ ~HasPending(rs, q.i)
    [] q.st = "app" -> n.outR[Len(n.outR)].kind # "undef"
    [] OTHER -> FALSE

Do(q) == LET n == Step(rs, q, CopyOnMatmul) IN
         /\ Admissible(q, n)
         /\ cfi' = cfi /\ left' = left - 1
         /\ prog' = Append(prog, q)
         /\ rs' = n

Init == \E c \in 1..Len(Configs) : \E sc \in Scen[c] :
          /\ cfi = c /\ left = Configs[c].MaxStmts
          /\ prog = [k \in 1..Len(sc) |-> SNew(sc[k].s, sc[k].mode)]
          /\ rs = Run([k \in 1..Len(sc) |-> SNew(sc[k].s, sc[k].mode)], CopyOnMatmul)
\* the last statement of a program is an Apply
Next == /\ ~Ended
        /\ \/ /\ Remaining > 1
              /\ \/ Cf.AllowT /\ \E i \in 1..NNames : Do(ST(i))
                 \/ Cf.AllowMM /\ \E i, j \in 1..NNames : Do(SMM(i, j))
                 \/ \E op \in Cf.ScalarOps, f \in Cf.ScalarFmts, i \in 1..NNames : Do(SROp(op, XScalar(op, f), i))
                 \/ \E pf \in Cf.SparseOps, i \in 1..NNames : Do(SROp(pf[1], XSparse(OutRows(rs.den[i]), pf[2]), i))
           \/ \E k \in (IF Remaining = 1 THEN Cf.KindsFinal ELSE Cf.KindsMid), i \in 1..NNames :
                \E y \in Operands(k, InRows(rs.den[i])) : Do(SApp(i, y))
Spec == Init /\ [][Next]_svars

Terminal == Last.st = "app" /\ Ended
Emit == Terminal => PrintT(ToJson([cfg |-> Cf.name, prog |-> PackProg(prog)]))

(* ------------------------------ model laws ------------------------------- *)
ImplIsRef == \A k \in 1..Len(rs.outR) : rs.outT[k] \/ rs.outI[k] = rs.outR[k]
RefDefined == \A k \in 1..Len(rs.outR) : rs.outR[k].kind # "undef"
SliceLaw == left = Cf.MaxStmts => \A a \in 1..Len(rs.heap) :
              LET o == rs.heap[a]
                  M == [i \in 1..o.s.ds |-> <<i, 7 * i>>]
              IN IsSlicer(o.s) /\ SliceRows(o.s, o.onto, M) = MatMul(ProjMat(o.s), M)

(* --------------------------- scenario families --------------------------- *)
\* all partial injections between index ranges of sizes <= maxSize, written in every order of the index pairs,
\* built by every admissible constructor call
Injs(n, m) == {q \in [1..n -> 0..(m - 1)] : NoRep(q)}
AllSlicers(maxSize) ==
  UNION {UNION {{[dom |-> d, rng |-> r, ds |-> ds, rs |-> rsz] : d \in Injs(n, ds), r \in Injs(n, rsz)}
                : n \in 0..(IF ds < rsz THEN ds ELSE rsz)}
         : ds \in 1..maxSize, rsz \in 1..maxSize}
SingleScenarios(maxSize) == UNION {{<<[s |-> s, mode |-> m]>> : m \in Modes(s)} : s \in AllSlicers(maxSize)}
==============================================================================
