-------------------------------- MODULE Slicer --------------------------------
(***************************************************************************)
(* C36: state machine that ENUMERATES slicer programs (see SlicerRef for   *)
(* the statement forms, the reference and the mechanism model).            *)
(*                                                                         *)
(* A behaviour starts from a scenario (1..3 `new` statements) and appends  *)
(* statements Transpose / MatmulSlicer(i, j) / ROp(x, op, i) / Apply(i, y) *)
(* over all names bound so far - so a slicer can be reused in a later      *)
(* statement after it was transposed, chained, or given a pending          *)
(* operation.  Only statements whose reference value is defined are        *)
(* generated (sizes fit: the family of the property).  Every terminal      *)
(* program is emitted as JSON; the harness executes it on real ArraySlicer *)
(* objects and J_Slicer judges the results.                                *)
(*                                                                         *)
(* Design-level laws checked by TLC on the model itself:                   *)
(*   SliceLaw       both slicing code paths equal the matrix product for   *)
(*                  partial injections                                     *)
(*   ImplIsRef      the mechanism model returns the reference value in     *)
(*                  every program that never attaches a pending operand to *)
(*                  an object that already carries one (`over`); with      *)
(*                  CopyOnMatmul = FALSE (pre-fix code) it is violated by  *)
(*                  a reuse program, which shows that the enumerated       *)
(*                  family can tell the two apart.                         *)
(***************************************************************************)
EXTENDS SlicerRef, TLC, Json

CONSTANTS Scenarios,    \* set of sequences of [s, mode]: the initial `new` statements
          MaxStmts,     \* statements after the scenario
          ScalarOps,    \* pending operations offered with a scalar left operand
          SparseOps,    \* pending operations offered with a sparse left operand (fmt says which scipy class)
          ScalarFmts,   \* Python types of scalar operands: "int" "float" "np"
          KindsFinal,   \* operand kinds of the last Apply
          KindsMid,     \* operand kinds of Applies before the last statement ({} = a program ends at its first Apply)
          AllowT, AllowMM,
          CopyOnMatmul

VARIABLES prog, rs
svars == <<prog, rs>>

(* ------------------------------ operands --------------------------------- *)
YVec(n) == Val("vec", [i \in 1..n |-> <<i>>], <<>>, "")
YMat(n) == Val("mat", [i \in 1..n |-> <<i, 5 - i>>], <<>>, "")
SpRow(i) == IF i = 3 THEN <<0, 0>> ELSE IF i % 2 = 1 THEN <<i, 0>> ELSE <<0, i>>
YSp(n, fmt) == Val("sp", [i \in 1..n |-> SpRow(i)], <<>>, fmt)
YAd(n) == Val("ad", [i \in 1..n |-> <<i>>], [i \in 1..n |-> [j \in 1..3 |-> IF (i + j) % 2 = 0 THEN i + j ELSE 0]], "")
YSc(fmt) == Val("sc", <<<<3>>>>, <<>>, fmt)
Operands(kind, n) ==
  CASE kind = "vec" -> {YVec(n)}
    [] kind = "mat" -> {YMat(n)}
    [] kind = "sp"  -> {YSp(n, f) : f \in {"csr", "csc", "coo"}}
    [] kind = "ad"  -> {YAd(n)}
    [] kind = "sc"  -> {YSc(f) : f \in ScalarFmts}
XScalar(op, fmt) == Val("sc", <<<<IF op = "/" THEN 12 ELSE 2>>>>, <<>>, fmt)
XSparse(m, fmt) == Val("sp", [r \in 1..2 |-> [c \in 1..m |-> IF (r + c) % 2 = 0 THEN r + c ELSE 0]], <<>>, fmt)

(* ------------------------------ statements ------------------------------- *)
NNames == Len(rs.addr)
Plain(i) == Len(rs.den[i]) = 1                       \* a constructed or transposed slicer, nothing pending
Last == prog[Len(prog)]
NInit == Cardinality({k \in 1..Len(prog) : prog[k].st = "new"})
Remaining == MaxStmts - (Len(prog) - NInit)
Ended == Remaining = 0 \/ (KindsMid = {} /\ Last.st = "app")

Candidates ==
     (IF AllowT THEN {ST(i) : i \in {k \in 1..NNames : Plain(k)}} ELSE {})
  \cup (IF AllowMM THEN {SMM(i, j) : i \in 1..NNames, j \in 1..NNames} ELSE {})
  \cup {SROp(op, XScalar(op, f), i) : op \in ScalarOps, f \in ScalarFmts, i \in 1..NNames}
  \cup {SROp(pf[1], XSparse(OutRows(rs.den[i]), pf[2]), i) : pf \in SparseOps, i \in 1..NNames}
  \cup UNION {{SApp(i, y) : y \in Operands(k, InRows(rs.den[i]))}
              : k \in (IF Remaining = 1 THEN KindsFinal ELSE KindsMid), i \in 1..NNames}

Admissible(q) ==
  CASE q.st = "mm"  -> OutRows(rs.den[q.j]) = InRows(rs.den[q.i])
    [] q.st = "app" -> RefEval(rs.den[q.i], q.v).kind # "undef"
    [] OTHER -> TRUE

Init == \E sc \in Scenarios :
          /\ prog = [k \in 1..Len(sc) |-> SNew(sc[k].s, sc[k].mode)]
          /\ rs = Run([k \in 1..Len(sc) |-> SNew(sc[k].s, sc[k].mode)], CopyOnMatmul)
Next == /\ ~Ended
        /\ \E q \in Candidates :
               /\ Admissible(q)
               \* the last statement of a program is an Apply
               /\ Remaining = 1 => q.st = "app"
               /\ prog' = Append(prog, q)
               /\ rs' = Step(rs, q, CopyOnMatmul)
Spec == Init /\ [][Next]_svars

Terminal == Last.st = "app" /\ Ended
Emit == Terminal => PrintT(ToJson([prog |-> prog]))

(* ------------------------------ model laws ------------------------------- *)
ImplIsRef == \A k \in 1..Len(rs.outR) : rs.over \/ rs.outI[k] = rs.outR[k]
RefDefined == \A k \in 1..Len(rs.outR) : rs.outR[k].kind # "undef"
SliceLaw == \A a \in 1..Len(rs.heap) :
              LET o == rs.heap[a]
                  M == [i \in 1..o.s.ds |-> <<i, 7 * i>>]
              IN IsSlicer(o.s) /\ SliceRows(o.s, o.onto, M) = MatMul(ProjMat(o.s), M)

(* --------------------------- scenario families --------------------------- *)
\* all partial injections between index ranges of sizes <= maxSize, written in every order of the index pairs,
\* built by every admissible constructor call
Injs(n, m) == {q \in [1..n -> 0..(m - 1)] : NoRep(q)}
AllSlicers(maxSize) ==
  UNION {UNION {{[dom |-> d, rng |-> r, ds |-> ds, rs |-> rsz] : d \in Injs(n, ds), r \in Injs(n, rsz)}
                : n \in 0..(IF ds < rsz THEN ds ELSE rsz)}
         : ds \in 1..maxSize, rsz \in 1..maxSize}
SingleScenarios(maxSize) == UNION {{<<[s |-> s, mode |-> m]>> : m \in Modes(s)} : s \in AllSlicers(maxSize)}
==============================================================================
