------------------------------ MODULE GridGeom ------------------------------
(***************************************************************************)
(* Exact geometry of grids with INTEGER node coordinates.                  *)
(*                                                                         *)
(* A grid is a record                                                      *)
(*   G = [dim   |-> 1 | 2 | 3,                                             *)
(*        nodes |-> << <<x, y, z>>, ... >>            integers             *)
(*        fn    |-> << <<n1, n2, ...>>, ... >>        face -> ordered nodes*)
(*        cf    |-> << << <<f, s>>, ... >>, ... >>]   cell -> signed faces *)
(* with 1-based indices and s \in {1, -1} (s = 1: the face normal points   *)
(* out of the cell) - the topology porepy stores in face_nodes and         *)
(* cell_faces.                                                             *)
(*                                                                         *)
(* dim 1: faces are nodes, a cell is a segment.  Lengths are irrational in *)
(*        general, so the squared length is carried (Len2).                *)
(* dim 2: the grid lies in a plane z = const.  The faces of a cell are     *)
(*        chained into a node loop; area and centroid by the shoelace      *)
(*        formulas; the outward normal of an edge is its tangent rotated   *)
(*        clockwise w.r.t. the counter-clockwise loop.  Cells may be       *)
(*        non-convex and may have hanging (collinear) nodes.               *)
(* dim 3: faces are planar polygons (node order = right-hand rule for the  *)
(*        face normal).  Twice the vector area N2 by a fan of cross        *)
(*        products; volume and centroid by signed tetrahedra spanned with  *)
(*        the origin.                                                      *)
(* This is independent of porepy's route (sub-simplices around temporary   *)
(* centres, floating point).  All results are integers or normalised       *)
(* rationals <<n, d>> (module Rat).  Coordinates <= 8 keep every           *)
(* intermediate value far below 2^31.                                      *)
(*                                                                         *)
(* Basic(G): measures + validity flags; Exact(G): additionally centroids,  *)
(* normals, areas - one record, evaluated once per grid.                   *)
(* ValidE: well-formedness, closedness, planarity, positivity, agreement   *)
(* of the two sides of an internal face.  LawsE adds the model laws: the   *)
(* divergence-theorem identities for the exact values themselves.          *)
(***************************************************************************)
EXTENDS Integers, Sequences, FiniteSets, Rat, TLC

\* ---- integer / rational 3-vectors ------------------------------------------------------------------
VSub(a, b) == <<a[1] - b[1], a[2] - b[2], a[3] - b[3]>>
VAdd(a, b) == <<a[1] + b[1], a[2] + b[2], a[3] + b[3]>>
VScale(k, a) == <<k * a[1], k * a[2], k * a[3]>>
VDot(a, b) == a[1] * b[1] + a[2] * b[2] + a[3] * b[3]
VCross(a, b) == <<a[2] * b[3] - a[3] * b[2], a[3] * b[1] - a[1] * b[3], a[1] * b[2] - a[2] * b[1]>>
VZero == <<0, 0, 0>>

RECURSIVE ISum(_)
ISum(s) == IF s = <<>> THEN 0 ELSE Head(s) + ISum(Tail(s))
RECURSIVE VSum(_)
VSum(s) == IF s = <<>> THEN VZero ELSE VAdd(Head(s), VSum(Tail(s)))

RV(a) == <<R(a[1]), R(a[2]), R(a[3])>>                      \* integer vector -> rational vector
RVDiv(a, d) == <<RNorm(a[1], d), RNorm(a[2], d), RNorm(a[3], d)>>   \* integer vector / integer
RVSub(a, b) == <<RSub(a[1], b[1]), RSub(a[2], b[2]), RSub(a[3], b[3])>>
RVAdd(a, b) == <<RAdd(a[1], b[1]), RAdd(a[2], b[2]), RAdd(a[3], b[3])>>
RVScale(k, a) == <<RMul(k, a[1]), RMul(k, a[2]), RMul(k, a[3])>>
RVDot(a, b) == RAdd(RMul(a[1], b[1]), RAdd(RMul(a[2], b[2]), RMul(a[3], b[3])))
RVCross(a, b) == <<RSub(RMul(a[2], b[3]), RMul(a[3], b[2])), RSub(RMul(a[3], b[1]), RMul(a[1], b[3])),
                   RSub(RMul(a[1], b[2]), RMul(a[2], b[1]))>>
RVZero == <<RZero, RZero, RZero>>
RECURSIVE RVSum(_)
RVSum(s) == IF s = <<>> THEN RVZero ELSE RVAdd(Head(s), RVSum(Tail(s)))
RVNeg(a) == <<RNeg(a[1]), RNeg(a[2]), RNeg(a[3])>>
RVSgn(s, a) == IF s >= 0 THEN a ELSE RVNeg(a)

\* ---- topology ------------------------------------------------------------------------------------
NCells(G) == Len(G.cf)
NFaces(G) == Len(G.fn)
NNodes(G) == Len(G.nodes)
FacesOf(G, c) == {G.cf[c][i][1] : i \in 1..Len(G.cf[c])}
SignIn(G, c, f) == LET i == CHOOSE i \in 1..Len(G.cf[c]) : G.cf[c][i][1] = f IN G.cf[c][i][2]
CellsOf(G, f) == {c \in 1..NCells(G) : f \in FacesOf(G, c)}
NodesOfCell(G, c) == UNION {{G.fn[f][i] : i \in 1..Len(G.fn[f])} : f \in FacesOf(G, c)}
P(G, n) == G.nodes[n]

\* f2c[f] = the cells of face f (FaceCells, computed once per grid)
WellFormedF(G, f2c) ==
  /\ G.dim \in 1..3
  /\ \A n \in 1..NNodes(G) : Len(G.nodes[n]) = 3 /\ \A k \in 1..3 : G.nodes[n][k] \in -512..512
  /\ \A f \in 1..NFaces(G) : /\ \A i \in 1..Len(G.fn[f]) : G.fn[f][i] \in 1..NNodes(G)
                             /\ Len(G.fn[f]) = (IF G.dim = 1 THEN 1 ELSE IF G.dim = 2 THEN 2 ELSE Len(G.fn[f]))
                             /\ G.dim = 3 => Len(G.fn[f]) >= 3
                             /\ Cardinality(f2c[f]) \in 1..2
  /\ \A c \in 1..NCells(G) : /\ \A i \in 1..Len(G.cf[c]) : G.cf[c][i][1] \in 1..NFaces(G) /\ G.cf[c][i][2] \in {1, -1}
                             /\ Cardinality(FacesOf(G, c)) = Len(G.cf[c])
                             /\ Len(G.cf[c]) >= G.dim + 1
                             /\ G.dim = 1 => Len(G.cf[c]) = 2
  \* an internal face has opposite signs in its two cells
  /\ \A f \in 1..NFaces(G) : LET cs == f2c[f] IN
        Cardinality(cs) = 2 => \E a, b \in cs : a # b /\ SignIn(G, a, f) = -SignIn(G, b, f)

\* ---- dimension 1 ---------------------------------------------------------------------------------
\* end nodes of cell c in the order of G.cf[c]
Seg(G, c) == <<G.fn[G.cf[c][1][1]][1], G.fn[G.cf[c][2][1]][1]>>
Len2(G, c) == LET d == VSub(P(G, Seg(G, c)[2]), P(G, Seg(G, c)[1])) IN VDot(d, d)
Mid1(G, c) == RVDiv(VAdd(P(G, Seg(G, c)[1]), P(G, Seg(G, c)[2])), 2)
\* a direction of the grid's line (first cell) and collinearity of all nodes with it
Dir1(G) == VSub(P(G, Seg(G, 1)[2]), P(G, Seg(G, 1)[1]))
Collinear1(G) == \A n \in 1..NNodes(G) : VCross(VSub(P(G, n), P(G, 1)), Dir1(G)) = VZero

\* ---- dimension 2 (plane z = const) -------------------------------------------------------------------
InPlaneZ(G) == \A n \in 1..NNodes(G) : G.nodes[n][3] = G.nodes[1][3]
OtherNode(G, f, n) == IF G.fn[f][1] = n THEN G.fn[f][2] ELSE G.fn[f][1]
\* chain the faces of a cell into a closed walk: sequence of <<face, from, to>>
RECURSIVE Walk(_, _, _, _)
Walk(G, rest, cur, acc) ==
  IF rest = {} THEN acc
  ELSE LET cand == {g \in rest : cur \in {G.fn[g][1], G.fn[g][2]}} IN
       IF cand = {} THEN acc   \* not a closed loop: LoopClosed fails
       ELSE LET g == CHOOSE g \in cand : TRUE
                nxt == OtherNode(G, g, cur)
            IN Walk(G, rest \ {g}, nxt, Append(acc, <<g, cur, nxt>>))
CellLoop(G, c) == LET f1 == G.cf[c][1][1] IN
                  Walk(G, FacesOf(G, c) \ {f1}, G.fn[f1][2], << <<f1, G.fn[f1][1], G.fn[f1][2]>> >>)
LoopClosed(G, c, lp) == /\ Len(lp) = Len(G.cf[c])
                        /\ lp[Len(lp)][3] = lp[1][2]
                        /\ \A i \in 1..(Len(lp) - 1) : lp[i][3] = lp[i + 1][2]
\* one shoelace term of the oriented edge e = <<face, from, to>>
Shoe(G, e) == LET a == P(G, e[2])  b == P(G, e[3]) IN a[1] * b[2] - b[1] * a[2]
Area2Signed(G, lp) == ISum([i \in 1..Len(lp) |-> Shoe(G, lp[i])])
\* centroid numerator: sum (a + b) * shoe; the centroid is this / (3 * Area2Signed)
CentNum2(G, lp) == VSum([i \in 1..Len(lp) |->
                     LET a == P(G, lp[i][2])  b == P(G, lp[i][3]) IN
                       <<(a[1] + b[1]) * Shoe(G, lp[i]), (a[2] + b[2]) * Shoe(G, lp[i]), 0>>])
\* outward normal of the oriented edge of a loop with orientation o (1 = ccw): tangent rotated clockwise
EdgeOut(G, e, o) == LET d == VSub(P(G, e[3]), P(G, e[2])) IN <<o * d[2], -o * d[1], 0>>

\* all turns of the loop have the orientation o of the loop (straight angles allowed)
Convex2(G, lp, o) == \A i \in 1..Len(lp) :
   LET e == lp[i]
       g == lp[IF i = Len(lp) THEN 1 ELSE i + 1]
       d1 == VSub(P(G, e[3]), P(G, e[2]))
       d2 == VSub(P(G, g[3]), P(G, g[2]))
   IN o * (d1[1] * d2[2] - d1[2] * d2[1]) >= 0

\* ---- dimension 3 ---------------------------------------------------------------------------------
\* fan triangles of a face: <<p1, pi, pi+1>>, i = 2 .. k-1
Fan(G, f) == [i \in 1..(Len(G.fn[f]) - 2) |-> <<P(G, G.fn[f][1]), P(G, G.fn[f][i + 1]), P(G, G.fn[f][i + 2])>>]
TriN2(t) == VCross(VSub(t[2], t[1]), VSub(t[3], t[1]))          \* twice the vector area of a triangle
FaceN2(G, f) == VSum([i \in 1..Len(Fan(G, f)) |-> TriN2(Fan(G, f)[i])])
FacePlanar(G, f) == LET n == FaceN2(G, f) IN
                    \A i \in 1..Len(G.fn[f]) : VDot(VSub(P(G, G.fn[f][i]), P(G, G.fn[f][1])), n) = 0
\* the face is star-shaped w.r.t. the mean m of its nodes (k m = sum of the nodes; everything scaled by k):
\* every triangle (m, p_i, p_i+1) is oriented like the face.  Convex faces are.  (porepy's face centre /
\* area are defined through these triangles.)
FaceStar(G, f) ==
  LET k == Len(G.fn[f])
      S == VSum([i \in 1..k |-> P(G, G.fn[f][i])])
      q(i) == VSub(VScale(k, P(G, G.fn[f][i])), S)
      n == FaceN2(G, f)
  IN \A i \in 1..k : VDot(VCross(q(i), q(IF i = k THEN 1 ELSE i + 1)), n) >= 0
\* centroid of a planar polygon: triangles weighted by their signed area (projection on the face normal)
FaceCent3(G, f) ==
  LET n == FaceN2(G, f)
      fan == Fan(G, f)
      w == [i \in 1..Len(fan) |-> VDot(TriN2(fan[i]), n)]
      num == VSum([i \in 1..Len(fan) |-> VScale(w[i], VAdd(fan[i][1], VAdd(fan[i][2], fan[i][3])))])
  IN RVDiv(num, 3 * ISum(w))
\* six times the signed volume of the tetrahedron (0, a, b, c)
Det3(a, b, c) == VDot(a, VCross(b, c))
\* six times the volume of cell c, and the centroid numerator (centroid = num / (4 * Vol6))
Vol6(G, c) == ISum([i \in 1..Len(G.cf[c]) |->
                 LET f == G.cf[c][i][1]  fan == Fan(G, f) IN
                   G.cf[c][i][2] * ISum([j \in 1..Len(fan) |-> Det3(fan[j][1], fan[j][2], fan[j][3])])])
CentNum3(G, c) == VSum([i \in 1..Len(G.cf[c]) |->
                    LET f == G.cf[c][i][1]  fan == Fan(G, f) IN
                      VScale(G.cf[c][i][2],
                             VSum([j \in 1..Len(fan) |->
                                     VScale(Det3(fan[j][1], fan[j][2], fan[j][3]),
                                            VAdd(fan[j][1], VAdd(fan[j][2], fan[j][3])))]))])

\* ---- everything about one grid -------------------------------------------------------------------------
\* Basic(G): measures and validity only (cheap; all that C20 / C23 need)
\*   vol   : cell measure as a rational (dim 2, 3); for dim 1 the SQUARED length (an integer as rational)
\*   planar: all faces planar (dim 2: grid in a plane z = const; dim 1: nodes collinear)
\*   closed: every cell boundary is closed;  sides (dim 2): both cells of a face agree on its normal
\*   convex (dim 2): every cell is convex;  star (dim 3): every face is star-shaped w.r.t. its node mean
\*   f2c, loops, a2, n2, v6: intermediate results reused by Exact
\* Exact(G): Basic(G) plus  cc: cell centroid;  fc: face centroid;  fn: face normal (dim 2, 3; dim 1: <<>> -
\*   see J_GridGeom.Normal1OK);  fa2: squared face area
FaceCells(G) == TLCEval([f \in 1..NFaces(G) |-> CellsOf(G, f)])
EdgeIn(lp, f) == lp[CHOOSE i \in 1..Len(lp) : lp[i][1] = f]
Basic(G) ==
  IF G.dim = 1 THEN
    TLCEval([vol  |-> [c \in 1..NCells(G) |-> R(Len2(G, c))],
             planar |-> Collinear1(G), convex |-> TRUE, star |-> TRUE, sides |-> TRUE,
             closed |-> \A c \in 1..NCells(G) : Seg(G, c)[1] # Seg(G, c)[2],
             f2c |-> FaceCells(G)])
  ELSE IF G.dim = 2 THEN
    LET loops == TLCEval([c \in 1..NCells(G) |-> CellLoop(G, c)])
        a2 == TLCEval([c \in 1..NCells(G) |-> Area2Signed(G, loops[c])])
        f2c == FaceCells(G)
        closed == \A c \in 1..NCells(G) : LoopClosed(G, c, loops[c]) /\ a2[c] # 0
        \* outward normal of face f seen from cell c, with the sign of cell_faces
        nrm(f, c) == VScale(SignIn(G, c, f), EdgeOut(G, EdgeIn(loops[c], f), Sgn(a2[c])))
    IN TLCEval([vol  |-> [c \in 1..NCells(G) |-> RNorm(Abs(a2[c]), 2)],
                planar |-> InPlaneZ(G), star |-> TRUE,
                convex |-> \A c \in 1..NCells(G) : Convex2(G, loops[c], Sgn(a2[c])),
                closed |-> closed,
                sides |-> closed /\ \A f \in 1..NFaces(G) : \A c, d \in f2c[f] : nrm(f, c) = nrm(f, d),
                f2c |-> f2c, loops |-> loops, a2 |-> a2])
  ELSE
    LET n2 == TLCEval([f \in 1..NFaces(G) |-> FaceN2(G, f)])
        v6 == TLCEval([c \in 1..NCells(G) |-> Vol6(G, c)])
    IN TLCEval([vol  |-> [c \in 1..NCells(G) |-> RNorm(v6[c], 6)],
                planar |-> \A f \in 1..NFaces(G) : FacePlanar(G, f) /\ n2[f] # VZero,
                convex |-> TRUE, sides |-> TRUE, star |-> \A f \in 1..NFaces(G) : FaceStar(G, f),
                closed |-> \A c \in 1..NCells(G) :
                             VSum([i \in 1..Len(G.cf[c]) |-> VScale(G.cf[c][i][2], n2[G.cf[c][i][1]])]) = VZero,
                f2c |-> FaceCells(G), n2 |-> n2, v6 |-> v6])

Exact(G) ==
  LET B == Basic(G) IN
  IF G.dim = 1 THEN
    TLCEval([vol |-> B.vol, planar |-> B.planar, convex |-> B.convex, star |-> B.star, sides |-> B.sides,
             closed |-> B.closed, f2c |-> B.f2c,
             cc   |-> [c \in 1..NCells(G) |-> Mid1(G, c)],
             fc   |-> [f \in 1..NFaces(G) |-> RV(P(G, G.fn[f][1]))],
             fn   |-> <<>>,
             fa2  |-> [f \in 1..NFaces(G) |-> ROne]])
  ELSE IF G.dim = 2 THEN
    LET first(f) == CHOOSE c \in B.f2c[f] : \A d \in B.f2c[f] : c <= d
        nrm(f) == VScale(SignIn(G, first(f), f), EdgeOut(G, EdgeIn(B.loops[first(f)], f), Sgn(B.a2[first(f)])))
    IN
    TLCEval([vol |-> B.vol, planar |-> B.planar, convex |-> B.convex, star |-> B.star, sides |-> B.sides,
             closed |-> B.closed, f2c |-> B.f2c,
             cc   |-> [c \in 1..NCells(G) |->
                         LET num == CentNum2(G, B.loops[c]) IN
                           <<RNorm(num[1], 3 * B.a2[c]), RNorm(num[2], 3 * B.a2[c]), R(G.nodes[1][3])>>],
             fc   |-> [f \in 1..NFaces(G) |-> RVDiv(VAdd(P(G, G.fn[f][1]), P(G, G.fn[f][2])), 2)],
             fn   |-> IF B.closed THEN [f \in 1..NFaces(G) |-> RV(nrm(f))] ELSE <<>>,
             fa2  |-> [f \in 1..NFaces(G) |-> LET d == VSub(P(G, G.fn[f][2]), P(G, G.fn[f][1])) IN R(VDot(d, d))]])
  ELSE
    TLCEval([vol |-> B.vol, planar |-> B.planar, convex |-> B.convex, star |-> B.star, sides |-> B.sides,
             closed |-> B.closed, f2c |-> B.f2c,
             cc   |-> [c \in 1..NCells(G) |-> RVDiv(CentNum3(G, c), 4 * B.v6[c])],
             fc   |-> [f \in 1..NFaces(G) |-> FaceCent3(G, f)],
             fn   |-> [f \in 1..NFaces(G) |-> RVDiv(B.n2[f], 2)],
             fa2  |-> [f \in 1..NFaces(G) |-> RNorm(VDot(B.n2[f], B.n2[f]), 4)]])

RSumF(F, n) == RSum([i \in 1..n |-> F[i]])
\* sum of the exact cell measures (dim 2, 3)
TotalMeasure(G, E) == RSumF(E.vol, NCells(G))

\* ---- the divergence-theorem identities on ANY geometry X = [vol, cc, fc, fn] of rationals ---------------
\* positions are measured from the point p0 (a point of the grid's line / plane)
SignedSum(G, c, Term(_, _)) == RVSum([i \in 1..Len(G.cf[c]) |-> RVSgn(G.cf[c][i][2], Term(G.cf[c][i][1], i))])
ClosedCell(G, X, c) == LET T(f, i) == X.fn[f] IN SignedSum(G, c, T) = RVZero
DivSum(G, X, c, p0) == RSum([i \in 1..Len(G.cf[c]) |->
                          LET f == G.cf[c][i][1] IN
                            RMul(R(G.cf[c][i][2]), RVDot(RVSub(X.fc[f], p0), X.fn[f]))])
DivIdentity(G, X, c, p0) == DivSum(G, X, c, p0) = RMul(R(G.dim), X.vol[c])
CentroidIdentity(G, X, c, p0) ==
  LET T(f, i) == RVScale(RVDot(RVSub(X.fc[f], p0), X.fn[f]), RVSub(X.fc[f], p0))
  IN SignedSum(G, c, T) = RVScale(RMul(R(G.dim + 1), X.vol[c]), RVSub(X.cc[c], p0))
NormalLength(X, f) == RVDot(X.fn[f], X.fn[f]) = X.fa2[f]
\* the normal of face f, taken with the sign of cell c, points away from the cell centre
AwayFromCentre(G, X, c, f) == RSgn(RMul(R(SignIn(G, c, f)), RVDot(RVSub(X.fc[f], X.cc[c]), X.fn[f]))) > 0

\* ---- validity and model laws -----------------------------------------------------------------------------------
\* ValidE(G, B): B = Basic(G) or Exact(G).  The grid is well formed, every cell boundary closed, faces planar,
\* both sides of a face agree, every cell has positive measure.
ValidE(G, B) ==
  /\ WellFormedF(G, B.f2c)
  /\ B.planar /\ B.closed /\ B.sides
  /\ \A c \in 1..NCells(G) : RSgn(B.vol[c]) > 0
\* LawsE(G, E), E = Exact(G): valid, and the exact geometry itself satisfies the divergence-theorem identities
LawsE(G, E) ==
  LET p0 == RV(P(G, 1))
  IN /\ ValidE(G, E)
     /\ G.dim > 1 =>
          /\ \A f \in 1..NFaces(G) : NormalLength(E, f)
          /\ \A c \in 1..NCells(G) : /\ ClosedCell(G, E, c)
                                     /\ DivIdentity(G, E, c, p0)
                                     /\ CentroidIdentity(G, E, c, p0)
Laws(G) == LawsE(G, Exact(G))
WellFormed(G) == WellFormedF(G, FaceCells(G))
=============================================================================
