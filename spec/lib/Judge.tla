------------------------------- MODULE Judge -------------------------------
(***************************************************************************)
(* Batch judgement of cases recorded from the real code.  The harness      *)
(* writes a JSON array of cases (integers, strings, booleans, nested       *)
(* arrays/objects only) and names it in the environment variable           *)
(* VERIF_CASES.  A client module EXTENDS Judge and defines one invariant    *)
(* per property clause as   Clause == Check("Clause", <predicate on C>)     *)
(* where C is the current case.  A false predicate does not stop TLC: it    *)
(* prints a verdict record {case, clause} that the harness turns into a     *)
(* VIOLATION (or KNOWN-FINDING).  So one TLC run judges the whole batch     *)
(* and the verdict is total.  Cases are spread over BLOCKS initial states   *)
(* so that all workers take part.                                           *)
(***************************************************************************)
EXTENDS Integers, Sequences, Json, IOUtils, TLC

Cases == JsonDeserialize(IOEnv.VERIF_CASES)
NCases == Len(Cases)
BLOCKS == 64

VARIABLES blk, ci
jvars == <<blk, ci>>

JInit == blk \in 0..(BLOCKS - 1) /\ ci = 0
JNext == /\ ci = 0
         /\ ci' \in {i \in 1..NCases : i % BLOCKS = blk}
         /\ blk' = blk
JSpec == JInit /\ [][JNext]_jvars

C == Cases[ci]
Judging == ci > 0

Fail(clause) == PrintT(ToJson([case |-> ci, clause |-> clause]))
Check(clause, ok) == (~Judging) \/ ok \/ Fail(clause)
\* for emitting a computed value back to the harness (e.g. a reference result)
Tell(tag, v) == (~Judging) \/ PrintT(ToJson([case |-> ci, tag |-> tag, val |-> v]))
=============================================================================
