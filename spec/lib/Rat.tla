-------------------------------- MODULE Rat --------------------------------
(***************************************************************************)
(* Exact rational arithmetic on pairs <<n, d>> with d > 0, normalised by   *)
(* the gcd.  TLC integers are 32-bit: every client keeps heights small     *)
(* (coordinates <= 8, a few multiplications) and may check RHeightOK.      *)
(***************************************************************************)
EXTENDS Integers, Sequences

Abs(x) == IF x < 0 THEN -x ELSE x
RECURSIVE GCD(_, _)
GCD(a, b) == IF b = 0 THEN Abs(a) ELSE GCD(b, a % b)
Sgn(x) == IF x > 0 THEN 1 ELSE IF x < 0 THEN -1 ELSE 0
Min2(a, b) == IF a <= b THEN a ELSE b
Max2(a, b) == IF a >= b THEN a ELSE b

RNorm(n, d) ==
  LET s == IF d < 0 THEN -1 ELSE 1
      g == GCD(Abs(n), Abs(d))
  IN IF n = 0 THEN <<0, 1>> ELSE <<(s * n) \div g, (s * d) \div g>>

R(n) == <<n, 1>>
RZero == <<0, 1>>
ROne == <<1, 1>>
RAdd(a, b) == RNorm(a[1] * b[2] + b[1] * a[2], a[2] * b[2])
RSub(a, b) == RNorm(a[1] * b[2] - b[1] * a[2], a[2] * b[2])
RNeg(a) == <<-a[1], a[2]>>
RMul(a, b) == RNorm(a[1] * b[1], a[2] * b[2])
RDiv(a, b) == RNorm(a[1] * b[2], a[2] * b[1])       \* b # 0
REq(a, b) == a[1] * b[2] = b[1] * a[2]
RLt(a, b) == a[1] * b[2] < b[1] * a[2]
RLe(a, b) == a[1] * b[2] <= b[1] * a[2]
RMin(a, b) == IF RLe(a, b) THEN a ELSE b
RMax(a, b) == IF RLe(a, b) THEN b ELSE a
RSgn(a) == Sgn(a[1])
RAbs(a) == <<Abs(a[1]), a[2]>>
RIsInt(a) == a[2] = 1
RHeightOK(a) == Abs(a[1]) < 1073741824 /\ a[2] < 1073741824

\* sum / dot product of sequences of rationals
RECURSIVE RSum(_)
RSum(s) == IF s = <<>> THEN RZero ELSE RAdd(Head(s), RSum(Tail(s)))
RDot(u, v) == RSum([i \in 1..Len(u) |-> RMul(u[i], v[i])])
RVecEq(u, v) == Len(u) = Len(v) /\ \A i \in 1..Len(u) : REq(u[i], v[i])
=============================================================================
