--------------------------- MODULE J_OperatorTree ---------------------------
(***************************************************************************)
(* Verdict for C02.  A case records one expression of OperatorTree.tla,    *)
(* built with the real overloads on a real mixed-dimensional grid and      *)
(* evaluated through the equation system, next to the same expression      *)
(* evaluated directly on forward-mode arrays (program DirectProg):         *)
(*   expr   the expression (as emitted by OperatorTreeEnum)                *)
(*   berr   exception while building the operator ("" = none)              *)
(*   built  projection of the built tree (tags, classes, ordered children) *)
(*   d      evaluation with derivatives   [err, kind, n, val, jshape, jac] *)
(*   v      evaluation without derivatives [err, kind, n, val]             *)
(*   r      direct evaluation (the oracle) [kind, n, val, jac, finite]     *)
(*   exact  all numbers of d, v, r are exact rationals <<num, den>>        *)
(*          (val = sequences of them, jac = sequences <<i, j, num, den>>   *)
(*          of the non-zero entries); otherwise val / jac are empty and    *)
(*   q      [dv, dj, vv] the largest deviations |x - ref| / max(1, |ref|)  *)
(*          in units of 1e-12 (value, Jacobian entries, value-only)         *)
(*   prev   for every maximal sub-expression at a previous time step /     *)
(*          iterate: [expr, err, n, val, jnnz, ref, exact, q] from         *)
(*          evaluating that sub-operator alone with derivatives; ref = the *)
(*          stored values (for a leaf) / the direct evaluation on them     *)
(* Clauses of the property: Evaluates, ValueAgrees, JacobianAgrees,        *)
(* ValueOnlyAgrees, PrevTimeNoDerivative.  TreeConforms compares the built *)
(* tree with Build (mechanism: reported as drift).  OracleSane guards the  *)
(* harness (the oracle must have the kind the typing rules predict).       *)
(* Tolerance policy (DESIGN 8): deviation <= 1e-9 passes, > 1e-6 fails,    *)
(* in between is told as inconclusive.                                     *)
(***************************************************************************)
EXTENDS Judge, OperatorTree

CONSTANTS NDOF,      \* number of degrees of freedom = columns of every Jacobian
          TolPass,   \* 1000     (1e-9 in units of 1e-12)
          TolFail    \* 1000000  (1e-6)

E == C.expr
K == RootKind(E, "deriv")
N == IF K[1] = "F" THEN 1 ELSE K[2]
Adm == C.r.finite                      \* the expression is defined (finite) at this state
JSet(j) == {j[i] : i \in 1..Len(j)}
Close(q) == q <= TolFail

RECURSIVE ExprEq(_, _)
ExprEq(x, y) ==
  IF x[1] # y[1] \/ Len(x) # Len(y) THEN FALSE
  ELSE CASE x[1] = "leaf" -> x[2] = y[2] /\ x[3] = y[3] /\ x[4] = y[4]
         [] x[1] = "bin" -> x[2] = y[2] /\ ExprEq(x[3], y[3]) /\ ExprEq(x[4], y[4])
         [] x[1] = "fn" -> x[2] = y[2] /\ Len(x[3]) = Len(y[3]) /\ \A j \in 1..Len(x[3]) : ExprEq(x[3][j], y[3][j])
         [] x[1] = "shift" -> x[2] = y[2] /\ ExprEq(x[3], y[3])
         [] OTHER -> FALSE

OracleSane == Check("OracleSane",
  /\ IsRoot(E)
  /\ C.r.kind = (CASE K[1] = "F" -> "float" [] K[1] = "V" -> "ndarray" [] OTHER -> "AdArray")
  /\ C.r.n = N)

Evaluates == Check("Evaluates", C.berr = "" /\ C.d.err = "" /\ C.v.err = "")

ValueAgrees == Check("ValueAgrees", (Adm /\ C.berr = "" /\ C.d.err = "") =>
  /\ C.d.kind = "AdArray" /\ C.d.n = N
  /\ IF C.exact THEN C.d.val = C.r.val ELSE Close(C.q.dv))

JacobianAgrees == Check("JacobianAgrees", (Adm /\ C.berr = "" /\ C.d.err = "" /\ C.d.kind = "AdArray") =>
  /\ C.d.jshape = <<N, NDOF>>
  /\ IF C.exact THEN JSet(C.d.jac) = JSet(C.r.jac) ELSE Close(C.q.dj))

ValueOnlyAgrees == Check("ValueOnlyAgrees", (Adm /\ C.berr = "" /\ C.d.err = "" /\ C.v.err = "" /\ C.d.kind = "AdArray") =>
  /\ C.v.kind = (IF K[1] = "F" THEN "float" ELSE "ndarray") /\ C.v.n = N
  /\ IF C.exact THEN C.v.val = C.d.val ELSE Close(C.q.vv))

PrevTimeNoDerivative == Check("PrevTimeNoDerivative", C.berr = "" =>
  LET want == PrevSubs(E, 0, 0) IN
  /\ Len(C.prev) = Len(want)
  /\ \A j \in 1..Len(C.prev) :
       LET p == C.prev[j] IN
       /\ ExprEq(p.expr, want[j])
       /\ p.err = ""
       /\ p.jnnz = 0                                       \* contributes no derivative
       /\ p.n = Len(p.ref) \/ ~p.exact
       /\ p.finite => IF p.exact THEN p.val = p.ref ELSE Close(p.q))   \* evaluates to the stored values

TreeConforms == Check("TreeConforms", C.berr = "" => TreeEq(C.built, Build(E)))

\* deviations in the band between the two tolerances are reported, never judged
Band == (~Judging) \/ C.exact \/ ~Adm \/ C.d.err # "" \/ C.v.err # ""
        \/ (C.q.dv <= TolPass /\ C.q.dj <= TolPass /\ C.q.vv <= TolPass)
        \/ ~(Close(C.q.dv) /\ Close(C.q.dj) /\ Close(C.q.vv))
        \/ Tell("inconclusive", <<C.q.dv, C.q.dj, C.q.vv>>)
=============================================================================
