--------------------------- MODULE J_OperatorTree ---------------------------
(***************************************************************************)
(* Verdict for C02.  A case records one expression of OperatorTree.tla,    *)
(* built with the real overloads on a real mixed-dimensional grid and      *)
(* evaluated through the equation system, next to the same expression      *)
(* evaluated directly on forward-mode arrays (program DirectProg):         *)
(*   expr   the expression (as emitted by OperatorTreeEnum)                *)
(*   berr   exception while building the operator ("" = none)              *)
(*   built  projection of the built tree (tags, classes, ordered children) *)
(*   d      evaluation with derivatives   [err, kind, n, val, jshape, jac] *)
(*   v      evaluation without derivatives [err, kind, n, val]             *)
(*   r      direct evaluation (the oracle) [err, kind, n, val, jac,        *)
(*          finite]; err: ZeroDivisionError / OverflowError; finite:       *)
(*          no error and every number finite                               *)
(*   exact  all numbers of d, v, r are exact rationals <<num, den>>        *)
(*          (val = sequences of them, jac = sequences <<i, j, num, den>>   *)
(*          of the non-zero entries); otherwise val / jac are empty and    *)
(*   q      [dv, dj, vv] the largest deviations |x - ref| / max(1, |ref|)  *)
(*          in units of 1e-12 (value, Jacobian entries, value-only)         *)
(*   prev   for every maximal sub-expression at a previous time step /     *)
(*          iterate: [expr, err, n, val, jnnz, ref, exact, q] from         *)
(*          evaluating that sub-operator alone with derivatives; ref = the *)
(*          stored values (for a leaf) / the direct evaluation on them     *)
(* Clauses of the property: Evaluates, ValueAgrees, JacobianAgrees,        *)
(* ValueOnlyAgrees, PrevTimeNoDerivative, AfterSetValueAgrees (the same      *)
(* tree after Scalar.set_value).  TreeConforms compares the built          *)
(* tree with Build (mechanism: reported as drift).  OracleSane guards the  *)
(* harness (the oracle must have the kind the typing rules predict).       *)
(* Tolerance policy (DESIGN 8): deviation <= 1e-9 passes, > 1e-6 fails,    *)
(* in between is told as inconclusive.                                     *)
(***************************************************************************)
EXTENDS Judge, OperatorTree

CONSTANTS NDOF,      \* number of degrees of freedom = columns of every Jacobian
          TolPass,   \* 1000     (1e-9 in units of 1e-12)
          TolFail    \* 1000000  (1e-6)

E == C.expr
K == RootKind(E, "deriv")
N == IF K[1] = "F" THEN 1 ELSE K[2]
Adm == C.r.finite                      \* the expression is defined (finite) at this state
JSet(j) == {j[i] : i \in 1..Len(j)}
Close(q) == q <= TolFail

RECURSIVE ExprEq(_, _)
ExprEq(x, y) ==
  IF x[1] # y[1] \/ Len(x) # Len(y) THEN FALSE
  ELSE CASE x[1] = "leaf" -> x[2] = y[2] /\ x[3] = y[3] /\ x[4] = y[4]
         [] x[1] = "bin" -> x[2] = y[2] /\ ExprEq(x[3], y[3]) /\ ExprEq(x[4], y[4])
         [] x[1] = "fn" -> x[2] = y[2] /\ Len(x[3]) = Len(y[3]) /\ \A j \in 1..Len(x[3]) : ExprEq(x[3][j], y[3][j])
         [] x[1] = "shift" -> x[2] = y[2] /\ ExprEq(x[3], y[3])
         [] OTHER -> FALSE

\* the clauses as predicates of the case, given the root kind k of the expression and its size n
OracleSaneP(k, n) ==
  /\ IsRoot(E)
  /\ C.r.err = "" => /\ C.r.kind = (CASE k[1] = "F" -> "float" [] k[1] = "V" -> "ndarray" [] OTHER -> "AdArray")
                     /\ C.r.n = n
\* building never depends on the state; evaluating may fail where the expression is undefined (division by zero)
EvaluatesP == C.berr = "" /\ (Adm => C.d.err = "" /\ C.v.err = "")
ValueAgreesP(k, n) == (Adm /\ C.berr = "" /\ C.d.err = "") =>
  /\ C.d.kind = "AdArray" /\ C.d.n = n
  /\ IF C.exact THEN C.d.val = C.r.val ELSE Close(C.q.dv)
JacobianAgreesP(k, n) == (Adm /\ C.berr = "" /\ C.d.err = "" /\ C.d.kind = "AdArray") =>
  /\ C.d.jshape = <<n, NDOF>>
  /\ IF C.exact THEN JSet(C.d.jac) = JSet(C.r.jac) ELSE Close(C.q.dj)
ValueOnlyAgreesP(k, n) == (Adm /\ C.berr = "" /\ C.d.err = "" /\ C.v.err = "" /\ C.d.kind = "AdArray") =>
  /\ C.v.kind = (IF k[1] = "F" THEN "float" ELSE "ndarray") /\ C.v.n = n
  /\ IF C.exact THEN C.v.val = C.d.val ELSE Close(C.q.vv)
PrevTimeNoDerivativeP == C.berr = "" =>
  LET want == PrevSubs(E, 0, 0) IN
  /\ Len(C.prev) = Len(want)
  /\ \A j \in 1..Len(C.prev) :
       LET p == C.prev[j] IN
       /\ ExprEq(p.expr, want[j])
       /\ p.err = ""
       /\ p.jnnz = 0                                                    \* contributes no derivative
       /\ p.finite => IF p.exact THEN p.val = p.ref ELSE Close(p.q)     \* evaluates to the stored values
TreeConformsP == C.berr = "" => TreeEq(C.built, Build(E))
\* again = [done, err, qv, qj]: the built operator, multiplied by a new Scalar(2), evaluated once more after
\* Scalar.set_value(3) on the catalogue leaf S (whose value was 2), against 2 * (direct evaluation with S = 3)
AfterSetValueAgreesP == C.again.done => (C.again.err = "" /\ Close(C.again.qv) /\ Close(C.again.qj))

OracleSane == Check("OracleSane", OracleSaneP(K, N))
Evaluates == Check("Evaluates", EvaluatesP)
ValueAgrees == Check("ValueAgrees", ValueAgreesP(K, N))
JacobianAgrees == Check("JacobianAgrees", JacobianAgreesP(K, N))
ValueOnlyAgrees == Check("ValueOnlyAgrees", ValueOnlyAgreesP(K, N))
PrevTimeNoDerivative == Check("PrevTimeNoDerivative", PrevTimeNoDerivativeP)
TreeConforms == Check("TreeConforms", TreeConformsP)

\* deviations in the band between the two tolerances are reported, never judged
Band == (~Judging) \/ C.exact \/ ~Adm \/ C.d.err # "" \/ C.v.err # ""
        \/ (C.q.dv <= TolPass /\ C.q.dj <= TolPass /\ C.q.vv <= TolPass)
        \/ ~(Close(C.q.dv) /\ Close(C.q.dj) /\ Close(C.q.vv))
        \/ Tell("inconclusive", <<C.q.dv, C.q.dj, C.q.vv>>)

\* all clauses in one invariant (Check never stops TLC: every clause of every case is judged and reported)
Verdict == (~Judging) \/
  LET k == RootKind(E, "deriv")
      n == IF k[1] = "F" THEN 1 ELSE k[2]
  IN /\ Check("OracleSane", OracleSaneP(k, n))
     /\ Check("Evaluates", EvaluatesP)
     /\ Check("ValueAgrees", ValueAgreesP(k, n))
     /\ Check("JacobianAgrees", JacobianAgreesP(k, n))
     /\ Check("ValueOnlyAgrees", ValueOnlyAgreesP(k, n))
     /\ Check("PrevTimeNoDerivative", PrevTimeNoDerivativeP)
     /\ Check("TreeConforms", TreeConformsP)
     /\ Check("AfterSetValueAgrees", AfterSetValueAgreesP)
     /\ Band

=============================================================================
