----------------------------- MODULE J_BlockDiag -----------------------------
(***************************************************************************)
(* C37 judge: block-diagonal inversion returns the true inverse.           *)
(*                                                                         *)
(* A case is [fam, in, out].  in = an input of BlockDiagEnum (or of the     *)
(* seeded random generator): sizes, integer unimodular blocks, rowmap,      *)
(* colmap  -- the matrix under test is  A = D[rowmap, :][:, colmap]  for the *)
(* block-diagonal D of the blocks --  plus in.M, the raw scipy storage the   *)
(* harness built for A (and for fam "perm" in.rp0 / in.cp0, the inverse      *)
(* maps).  out = raw storage of what the real code returned, floats rounded  *)
(* to integers when within 1e-9 of one (kind "nonint" otherwise; "raise" =   *)
(* exception; "skipped" = path not run for this case).                       *)
(*                                                                         *)
(* Property clauses (TLC recomputes A from the blocks; exact integers):      *)
(*   InversePython   invert_diagonal_blocks(.., method="python"):  A * X = I *)
(*   InverseNumba    invert_diagonal_blocks(.., method="numba"):   A * X = I *)
(*   PermValid       generate_permutation_to_block_diag_matrix(A) = (rp, cp, *)
(*                   sz) with ValidPerm(A, rp, cp, sz)                        *)
(*   PermInverse     invert_permuted_block_diag_matrix(A, rp, cp, sz) with   *)
(*                   the computed permutation:                     A * X = I *)
(*   PermInverseGiven  the same with the constructing permutation rp0, cp0,  *)
(*                   sizes:                                        A * X = I *)
(* Not property clauses:                                                     *)
(*   HarnessInput    the storage handed to the code denotes A and rp0 / cp0  *)
(*                   are valid (a failure is a harness bug -> exit 2)         *)
(*   PermFinest      the exposed blocks are the connected components (drift  *)
(*                   report only: a coarser valid permutation still satisfies *)
(*                   the property)                                            *)
(***************************************************************************)
EXTENDS Judge, BlockDiag

\* a = the dense matrix under test, recomputed from the blocks (once per case, see Verdicts)
InvOK(a, o) == o.kind = "ok" /\ WF(o.M) /\ IsInverse(a, DenseOf(o.M))
Ran(o) == o.kind # "skipped"

HarnessInput(a) ==
  Check("HarnessInput", /\ WF(C.in.M) /\ DenseOf(C.in.M) = a
                        /\ C.fam = "perm" => ValidPerm(a, C.in.rp0, C.in.cp0, C.in.sizes))
InversePython(a) == Check("InversePython", (C.fam = "blocks" /\ Ran(C.out.python)) => InvOK(a, C.out.python))
InverseNumba(a) == Check("InverseNumba", (C.fam = "blocks" /\ Ran(C.out.numba)) => InvOK(a, C.out.numba))
PermValid(a) ==
  Check("PermValid", C.fam = "perm" =>
           C.out.perm.kind = "ok" /\ ValidPerm(a, C.out.perm.rp, C.out.perm.cp, C.out.perm.sz))
PermInverse(a) == Check("PermInverse", C.fam = "perm" => InvOK(a, C.out.inv_computed))
PermInverseGiven(a) == Check("PermInverseGiven", C.fam = "perm" => InvOK(a, C.out.inv_given))
PermFinest(a) ==
  Check("PermFinest", (C.fam = "perm" /\ C.out.perm.kind = "ok") => Len(C.out.perm.sz) = NumComponents(a))

\* the one invariant given to TLC: every clause is evaluated on every case (Check never returns FALSE,
\* it prints a verdict record), A is assembled once
Verdicts ==
  (~Judging) \/ LET a == Assemble(C.in.blocks, C.in.rowmap, C.in.colmap)
                IN /\ HarnessInput(a) /\ InversePython(a) /\ InverseNumba(a)
                   /\ PermValid(a) /\ PermInverse(a) /\ PermInverseGiven(a) /\ PermFinest(a)
=============================================================================
