----------------------------- MODULE M_Simulation -----------------------------
(***************************************************************************)
(* Monitor: TLC model-checks the cross-component invariants of the         *)
(* lifecycle (spec/sys/Simulation.tla, section "invariants") on the prefix *)
(* tree of runs recorded from the REAL code.  Transitions are the recorded *)
(* edges only; the monitor state is the current node plus ghosts computed  *)
(* from the events seen so far (how many calls of prepare_simulation have  *)
(* returned, accepted solutions / times, times at which data was saved).   *)
(* All predicates are over the LOGGED fields of the real object - nothing  *)
(* is taken from the mechanism model - so they fail exactly when the code  *)
(* breaks the invariant, whatever Simulation.tla says.                     *)
(***************************************************************************)
EXTENDS Integers, Sequences, FiniteSets, Json, IOUtils, TLC

CONSTANTS Schedule, TsDepth, ItDepth, Mode, ExportAll, ExportAt

Graph == JsonDeserialize(IOEnv.VERIF_GRAPH)
P(n) == Graph.nodes[n]
N == Len(Schedule)
Final == Schedule[N]
Absent == -1
ShiftIn(s, x, depth) == SubSeq(<<x>> \o s, 1, depth)

VARIABLES node,
          done,     \* the calls made from prepare_simulation that have returned (and "prepare_simulation" itself)
          lastEv, lastWithin, lastRaised,
          acc,      \* accepted solution tokens, most recent first
          lastAcc, hit, acct,   \* last accepted time, scheduled times hit, accepted times in order
          saved,    \* times at which save_data_time_step ran
          early     \* a solver callback / after_simulation was seen before prepare_simulation returned
mvars == <<node, done, lastEv, lastWithin, lastRaised, acc, lastAcc, hit, acct, saved, early>>

LoopEvents == {"before_nonlinear_loop", "check_convergence", "after_nonlinear_convergence",
               "after_nonlinear_failure", "after_simulation"}
IsConvSave(e) == e.ev = "save_data_time_step" /\ e.within = "after_nonlinear_convergence"
IsFailSave(e) == e.ev = "save_data_time_step" /\ e.within = "after_nonlinear_failure"

MInit == /\ node = 1 /\ done = {} /\ lastEv = "constructed" /\ lastWithin = "" /\ lastRaised = FALSE
         /\ acc = [i \in 1..TsDepth |-> Absent] /\ lastAcc = P(1).time /\ acct = <<>> /\ saved = <<>>
         /\ hit = {j \in 1..N : Schedule[j] = P(1).time} /\ early = FALSE

MNext ==
  \E i \in 1..Len(Graph.edges[node]) :
    LET e == Graph.edges[node][i]
        inprep == e.within = "prepare_simulation"
    IN
      /\ node' = e.dst
      /\ lastEv' = e.ev /\ lastWithin' = e.within /\ lastRaised' = e.raised
      /\ done' = IF (inprep \/ e.ev = "prepare_simulation") /\ ~e.raised THEN done \cup {e.ev} ELSE done
      /\ early' = (early \/ ((e.ev \in LoopEvents \/ (e.ev = "save_data_time_step" /\ ~inprep))
                              /\ "prepare_simulation" \notin done))
      /\ saved' = IF e.ev = "save_data_time_step" THEN Append(saved, P(node).time) ELSE saved
      \* the accepted solution is the converged iterate (iterate 0 when after_nonlinear_convergence starts);
      \* the time-step values are initialised by initialize_previous_iterate_and_time_step_values
      /\ IF IsConvSave(e)
         THEN /\ acc' = ShiftIn(acc, P(node).itv[1], TsDepth)
              /\ lastAcc' = P(node).time /\ acct' = Append(acct, P(node).time)
              /\ hit' = hit \cup {j \in 1..N : Schedule[j] = P(node).time}
         ELSE /\ acc' = IF e.ev = "initialize_previous_iterate_and_time_step_values"
                        THEN [j \in 1..TsDepth |-> P(node).itv[1]] ELSE acc
              /\ UNCHANGED <<lastAcc, hit, acct>>

MSpec == MInit /\ [][MNext]_mvars

Here == P(node)
Leaf == Graph.edges[node] = <<>>
Done(name) == name \in done                   \* the call `name` made by prepare_simulation has returned
Prepared == Done("prepare_simulation")
AllValues(p) == (\A i \in 1..ItDepth : p.itv[i] # Absent) /\ (\A i \in 1..TsDepth : p.tsv[i] # Absent)
DoExport(t) == ExportAll \/ t \in ExportAt
Selected(s) == SelectSeq(s, DoExport)
IsSubSeq(s, t) ==
  LET F[i \in 0..Len(t)] == IF i = 0 THEN 0
                            ELSE LET m == F[i - 1] IN IF m < Len(s) /\ s[m + 1] = t[i] THEN m + 1 ELSE m
  IN F[Len(t)] = Len(s)
Idle == lastEv \in {"prepare_simulation", "after_nonlinear_convergence", "after_nonlinear_failure"} /\ ~lastRaised

(* ------------------------------------ lifecycle invariants ------------------------------------ *)
\* (the ORDER of the calls inside prepare_simulation is mechanism: T_Simulation validates it; here only the
\* data-flow facts the code relies on are demanded, so a harmless reordering stays silent)
\* the time loop (and after_simulation) starts only after prepare_simulation finished
LoopAfterPrepare == ~early
\* variables exist before initial values do
VariablesBeforeInitialCondition ==
  /\ (\E i \in 1..ItDepth : Here.itv[i] # Absent) => (Here.es /\ Here.nvar > 0 /\ Here.ndof > 0)
  /\ lastEv = "initial_condition" => (Here.nvar > 0 /\ Here.itv[1] # Absent)
\* after initialize_previous_iterate_and_time_step_values every variable has a value at every iterate index and
\* every time step index, and (until the first Newton iteration) they are all equal
ValuesEverywhereAfterInit ==
  /\ Done("initialize_previous_iterate_and_time_step_values") => AllValues(Here)
  /\ (Done("initialize_previous_iterate_and_time_step_values") /\ ~Prepared) =>
        /\ \A i \in 1..ItDepth : Here.itv[i] = Here.itv[1]
        /\ \A i \in 1..TsDepth : Here.tsv[i] = Here.itv[1]
\* equations are set only after variables and values (and the property functions) exist
EquationsAfterValues == Here.neq > 0 => (Here.nvar > 0 /\ AllValues(Here) /\ Here.props)
\* discretization matrices only after equations
DiscretizeAfterEquations == Here.disc => (Here.neq > 0 /\ Done("update_discretization_parameters"))
\* well-posed: the equations have as many rows as there are degrees of freedom
WellPosed == Done("set_equations") => (Here.neq > 0 /\ Here.nrows = Here.ndof /\ Here.ndof > 0)
\* whenever the Newton loop runs everything it reads is there
NewtonNeedsEverything ==
  lastEv \in {"before_nonlinear_loop", "check_convergence"} =>
     (Here.disc /\ Here.lsolver /\ Here.neq > 0 /\ AllValues(Here) /\ Here.tda /\ Here.props /\ Here.exporter)
\* md-grid, exporter, equation system appear in this order and only from their calls
GridFromGeometry ==
  /\ (Here.nsd > 0) = Done("set_geometry")
  /\ Here.exporter => Here.nsd > 0
  /\ Here.es => Here.nsd > 0
  /\ Here.nvar > 0 => Here.es
  /\ Here.props => (Here.fluid /\ Here.nvar > 0)

(* ------------------------------------------ export -------------------------------------------- *)
\* the exporter's step counter and the time manager's list of exported times move together
ExportCounterIsTimes == Here.nexp = Len(Here.exptimes)
\* the exported times are the selected ones among the times at which save_data_time_step ran
ExportedAreSaveTimes == Here.exptimes = Selected(saved)
\* every accepted (selected) time has been exported, in order, after the initial state
AcceptedAreExported == Prepared => IsSubSeq(Selected(<<Schedule[1]>> \o acct), Here.exptimes)
\* the initial state is exported by prepare_simulation when selected (counter = 1, time list = <<t0>>)
InitialStateExported ==
  (lastEv = "prepare_simulation") => (Here.exptimes = Selected(<<Schedule[1]>>) /\ Here.tsv[1] = Here.itv[1])
\* STRICT (the form in which the invariant is usually assumed): exactly the accepted states are exported,
\* counter = 1 + number of accepted steps.  after_nonlinear_failure exports the failed attempt too, so this
\* is checked separately and reported as a finding, not as a gate.
ExportsAreAccepted == (Prepared /\ Idle) => Here.exptimes = Selected(<<Schedule[1]>> \o acct)
\* what is exported on convergence is the converged iterate: at the save the time-step values are already updated
ExportsConvergedIterate ==
  [][(lastEv' = "save_data_time_step" /\ lastWithin' = "after_nonlinear_convergence") =>
        /\ P(node').tsv[1] = P(node).itv[1]
        /\ \A i \in 2..TsDepth : P(node').tsv[i] = P(node).tsv[i - 1]]_mvars
\* the save in after_nonlinear_failure happens before anything is reset
FailureSaveKeepsState ==
  [][(lastEv' = "save_data_time_step" /\ lastWithin' = "after_nonlinear_failure") =>
        (P(node').time = P(node).time /\ P(node').itv = P(node).itv /\ P(node').tsv = P(node).tsv)]_mvars
\* save_data_time_step inside prepare / failure changes nothing but the export bookkeeping
SaveOnlyExports ==
  [][(lastEv' = "save_data_time_step" /\ lastWithin' # "after_nonlinear_convergence") =>
        (P(node').nvar = P(node).nvar /\ P(node').neq = P(node).neq /\ P(node').newton = P(node).newton
         /\ P(node').dt = P(node).dt /\ P(node').nexp \in {P(node).nexp, P(node).nexp + 1})]_mvars

(* ------------------------------------------ the run ------------------------------------------- *)
\* after_simulation runs exactly once, after the last accepted step at the final time; never if the run raised
AfterSimulationOnce ==
  /\ Here.nafter = (IF lastEv = "after_simulation" THEN 1 ELSE 0)
  /\ lastEv = "after_simulation" => (Leaf /\ Prepared /\ (Mode = "time" => (Here.time = Final /\ lastAcc = Final))
                                          /\ (Mode = "stationary" => Len(acct) = 1))
AfterSimulationKeepsState ==
  [][lastEv' = "after_simulation" =>
        (P(node').itv = P(node).itv /\ P(node').tsv = P(node).tsv /\ P(node').time = P(node).time
         /\ P(node').nexp = P(node).nexp /\ P(node').exptimes = P(node).exptimes)]_mvars
RunEnds == Leaf => (lastEv = "after_simulation" \/ (lastEv = "after_nonlinear_failure" /\ lastRaised))
EndsAtFinal == (Leaf /\ lastEv = "after_simulation" /\ Mode = "time") => (Here.time = Final /\ hit = 1..N)
AdTimeStepIsDt == lastEv = "before_nonlinear_loop" => Here.adt = Here.dt
HistoryIsAccepted == (Done("initialize_previous_iterate_and_time_step_values") /\ (~Prepared \/ Idle)) => Here.tsv = acc
NoOvershoot == lastAcc <= Final
FailureRewinds == (Prepared /\ Idle /\ Mode = "time") => Here.time = lastAcc
Mono == [][lastAcc' # lastAcc => lastAcc' > lastAcc]_mvars
\* between its save_data_time_step and its return after_nonlinear_convergence changes no stored vector
ConvReturnKeepsStorage ==
  [][lastEv' = "after_nonlinear_convergence" => (P(node').tsv = P(node).tsv /\ P(node').itv = P(node).itv)]_mvars
IterateResetOnFailure ==
  [][(lastEv' = "after_nonlinear_failure" /\ ~lastRaised') =>
        (P(node').itv[1] = P(node).tsv[1] /\ P(node').tsv = P(node).tsv)]_mvars
IterateWindow == [][lastEv' = "check_convergence" =>
                      (/\ \A i \in 2..ItDepth : P(node').itv[i] = P(node).itv[i - 1]
                       /\ P(node').tsv = P(node).tsv)]_mvars
\* the shape of the problem is fixed once made; discretization matrices persist
ShapeIsStable == [][/\ P(node).nsd # 0 => (P(node').nsd = P(node).nsd /\ P(node').nintf = P(node).nintf)
                    /\ P(node).nvar # 0 => (P(node').nvar = P(node).nvar /\ P(node').ndof = P(node).ndof)
                    /\ P(node).neq # 0 => (P(node').neq = P(node).neq /\ P(node').nrows = P(node).nrows)]_mvars
DiscretizationPersists == [][(P(node).disc => P(node').disc) /\ (P(node).lsolver => P(node').lsolver)
                             /\ (P(node).tda => P(node').tda)]_mvars
\* prepare_simulation does not touch the clock
PrepareKeepsClock == [][lastWithin' = "prepare_simulation" =>
                          (P(node').time = P(node).time /\ P(node').dt = P(node).dt /\ P(node').tindex = P(node).tindex
                           /\ P(node').newton = P(node).newton /\ P(node').adt = P(node).adt)]_mvars
==============================================================================
