----------------------------- MODULE J_Partition -----------------------------
(***************************************************************************)
(* C22 judge.  Constants: Grids (incidence records of the parent grids,    *)
(* exported from porepy) and Geoms (their computed geometry as exact       *)
(* rationals).  Cases (recorded from the real code):                       *)
(*  kind "struct": fine, coarse, out = [ok, p]  partition_structured       *)
(*  kind "coord":  gi, n, out = [ok, p]         partition_coordinates      *)
(*                 (check_connectivity = False)                            *)
(*  kind "coordc": gi, n, out = [raised, p]     the same with              *)
(*                 check_connectivity = True (informational clause only)   *)
(*  kind "sub":    gi, S, out.ext = [ok, H, fmap, nmap, pci, geom_ok, geom]*)
(*                 from extract_subgrid + compute_geometry on the child;   *)
(*                 out.ov = per criterion [crit, layers], layers[j] =      *)
(*                 [ok, cells] = overlap(g, S, j, crit)                    *)
(* Property clauses: StructReturns StructRange StructBoxes CoordVector     *)
(* OverlapReturns OverlapGrows OverlapNeighbours OverlapExact              *)
(* ExtractReturns ExtractMaps ExtractIncidence ExtractGeometry.            *)
(* Machinery guard: InFamily.  Informational: CoordConnected.              *)
(***************************************************************************)
EXTENDS Judge, Partition

CONSTANTS Grids, Geoms

AdjOf == [g \in 1..Len(Grids) |-> [face |-> FaceAdj(Grids[g]), node |-> NodeAdj(Grids[g])]]
IsK(k) == C.kind = k
PG == Grids[C.gi]
SS == Range(C.S)

InFamily == Check("InFamily",
  CASE IsK("struct") -> StructFamily(C.fine, C.coarse)
    [] IsK("sub")    -> SS # {} /\ SS \subseteq CellIx(PG) /\ WellFormed(PG)
    [] OTHER         -> WellFormed(PG))

(* ---- partition_structured ---- *)
StructReturns == Check("StructReturns", IsK("struct") => C.out.ok)
StructRangeC  == Check("StructRange", (IsK("struct") /\ C.out.ok) => StructRange(C.fine, C.coarse, C.out.p))
StructBoxesC  == Check("StructBoxes", (IsK("struct") /\ C.out.ok /\ Len(C.out.p) = Prod(C.fine))
                                        => StructBoxes(C.fine, C.out.p))

(* ---- partition_coordinates ---- *)
CoordVector == Check("CoordVector", IsK("coord") => (C.out.ok /\ PartitionVector(PG, C.out.p)))

RECURSIVE Reach(_, _, _)
Reach(adj, P, R) == LET R2 == R \cup {b \in P : \E a \in R : <<a, b>> \in adj}
                    IN IF R2 = R THEN R ELSE Reach(adj, P, R2)
Connected(adj, P) == P = {} \/ Reach(adj, P, {CHOOSE x \in P : TRUE}) = P
CoordConnected == Check("CoordConnected",
  (IsK("coordc") /\ ~C.out.raised) =>
     \A id \in Range(C.out.p) : Connected(AdjOf[C.gi].face, PartCells(C.out.p, id)))

(* ---- overlap ---- *)
Layer(o, j) == o.layers[j]
PrevOK(o, j) == j = 1 \/ Layer(o, j - 1).ok
Prev(o, j) == IF j = 1 THEN SS ELSE Range(Layer(o, j - 1).cells)
OvAll(P(_, _)) ==
  IsK("sub") => \A k \in 1..Len(C.out.ov) : \A j \in 1..Len(C.out.ov[k].layers) : P(C.out.ov[k], j)

OverlapReturns == Check("OverlapReturns", OvAll(LAMBDA o, j : Layer(o, j).ok))
OverlapGrows == Check("OverlapGrows",
  OvAll(LAMBDA o, j : (Layer(o, j).ok /\ PrevOK(o, j)) => Prev(o, j) \subseteq Range(Layer(o, j).cells)))
OverlapNeighboursC == Check("OverlapNeighbours",
  OvAll(LAMBDA o, j : (Layer(o, j).ok /\ PrevOK(o, j)) =>
                         Nbrs(AdjOf[C.gi][o.crit], Prev(o, j)) \subseteq Range(Layer(o, j).cells)))
OverlapExact == Check("OverlapExact",
  OvAll(LAMBDA o, j : Layer(o, j).ok => Range(Layer(o, j).cells) = OverlapRef(AdjOf[C.gi][o.crit], SS, j)))

(* ---- extract_subgrid ---- *)
E == C.out.ext
MapsOK == MapsValid(PG, SS, E.H, E.fmap, E.nmap, E.pci)
ExtractReturns   == Check("ExtractReturns", IsK("sub") => E.ok)
ExtractMaps      == Check("ExtractMaps", (IsK("sub") /\ E.ok) => MapsOK)
ExtractIncidence == Check("ExtractIncidence",
  (IsK("sub") /\ E.ok /\ MapsOK) => InducedIncidence(PG, SS, E.H, E.fmap, E.nmap, E.pci))
ExtractGeometry  == Check("ExtractGeometry",
  (IsK("sub") /\ E.ok /\ MapsOK /\ E.geom_ok) => GeomAgrees(Geoms[C.gi], E.geom, E.fmap, E.nmap, E.pci))
=============================================================================
