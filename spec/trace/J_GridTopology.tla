--------------------------- MODULE J_GridTopology ---------------------------
(***************************************************************************)
(* C21 judge.  A case is  [in |-> G, out |-> ...]  where G is the signed   *)
(* cell-face incidence (+ face nodes) exported from a real pp.Grid and     *)
(* out holds what the grid's connectivity queries returned:                *)
(*   out.dense        cell_faces_as_dense()             2 x nf             *)
(*   out.conn         True entries <<i, j>> of cell_connection_map()       *)
(*   out.bnd_updated  faces tagged domain_boundary_faces after             *)
(*                    update_boundary_face_tag() on a copy                 *)
(*   out.bnd_tags     faces carrying any standard face tag on the grid as  *)
(*                    delivered (get_all_boundary_faces)                   *)
(*   out.sc           per query: faces (input), ok, sgn, cells from        *)
(*                    signs_and_cells_of_boundary_faces(faces)             *)
(*   out.cn           nonzero entries <<node, cell>> of cell_nodes()       *)
(*   out.div          per d: shape and entries <<r, c, v>> of divergence(d)*)
(*   out.mutated      entries of the incidence changed by the queries      *)
(* One invariant per clause of the property; the reference is              *)
(* GridTopology (everything derived from the incidence alone).             *)
(***************************************************************************)
EXTENDS Judge, GridTopology

G == C.in
O == C.out

\* machinery guards (a failure is not a verdict about porepy): the exported grid is in the family and
\* the face lists handed to signs_and_cells_of_boundary_faces contain boundary faces only, no repeats
InFamily == Check("InFamily",
  /\ WellFormed(G)
  /\ \A k \in 1..Len(O.sc) : /\ Range(O.sc[k].faces) \subseteq BoundaryFaces(G)
                             /\ Cardinality(Range(O.sc[k].faces)) = Len(O.sc[k].faces))

Dense == Check("Dense", O.dense = DenseFaceCells(G))

ConnMap == Check("ConnMap", {p \in Range(O.conn) : p[1] # p[2]} = ConnectionMap(G))
ConnSym == Check("ConnSym", LET M == Range(O.conn) IN \A p \in M : <<p[2], p[1]>> \in M)

BoundaryTagUpdate == Check("BoundaryTagUpdate", Range(O.bnd_updated) = BoundaryFaces(G))
BoundaryTagsStored == Check("BoundaryTagsStored", Range(O.bnd_tags) = BoundaryFaces(G))

SignsCells == Check("SignsCells",
  \A k \in 1..Len(O.sc) :
    LET q == O.sc[k] IN q.ok /\ q.sgn = SignsOf(G, q.faces) /\ q.cells = CellsOf(G, q.faces))

CellNodeMap == Check("CellNodeMap", Range(O.cn) = CellNodes(G))

\* the queries only read: out.mutated = number of stored entries of the grid's cell-face incidence that differ after
\* the queries from what they were before (the harness restores the incidence afterwards)
QueriesPure == Check("QueriesPure", O.mutated = 0)

VecDiv == Check("VecDiv",
  \A k \in 1..Len(O.div) :
    LET r == O.div[k] IN
      /\ r.shape = DivShape(G, r.d)
      /\ Range(r.ent) = VectorDivergence(G, r.d)
      /\ Len(r.ent) = Cardinality(VectorDivergence(G, r.d)))
=============================================================================
