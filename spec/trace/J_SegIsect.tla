----------------------------- MODULE J_SegIsect -----------------------------
(***************************************************************************)
(* C28 judge.  One case = one pair of non-degenerate integer segments      *)
(*   C.in   = [dim, a, b, c, d]                                            *)
(*   C.outs = sequence of calls of the real function (segments_2d for      *)
(*            dim 2, segments_3d for dim 3), one per argument order:       *)
(*            [args |-> <<s1, e1, s2, e2>>,   the arguments as passed      *)
(*             err  |-> "" or the name of the exception that was raised,   *)
(*             ok   |-> every returned coordinate is (within 1e-9 of) a    *)
(*                      rational with a small denominator,                 *)
(*             pts  |-> the returned columns as vectors of <<n, d>>        *)
(*                      (empty for None; empty if ~ok)]                    *)
(* Property clauses (each evaluated on every call):                        *)
(*   Returns          the call returns (no exception: the inputs are       *)
(*                    inside the documented domain)                        *)
(*   Exact            the returned coordinates are small rationals at all  *)
(*   Kind             none / single point / segment exactly as             *)
(*                    Isect2 / Isect3 says (columns compared as a SET:     *)
(*                    two identical columns are one point)                 *)
(*   Points           the same point(s) as exact arithmetic                *)
(*   OrderIndependent all argument orders return the same point set        *)
(* WellFormed is a harness self-check (the calls are argument orders of    *)
(* C.in); it is registered as a clause only so that a harness bug cannot   *)
(* go unnoticed.                                                           *)
(***************************************************************************)
EXTENDS Judge, SegIsect

Ref(g) == Isect(g[1], g[2], g[3], g[4])
NOuts == Len(C.outs)

WellFormed ==
  Check("WellFormed",
        \A k \in 1..NOuts :
          LET g == C.outs[k].args
          IN /\ Len(g) = 4 /\ \A i \in 1..4 : Len(g[i]) = C.in.dim
             /\ {{g[1], g[2]}, {g[3], g[4]}} = {{C.in.a, C.in.b}, {C.in.c, C.in.d}}
             /\ g[1] # g[2] /\ g[3] # g[4])

Returns == Check("Returns", \A k \in 1..NOuts : C.outs[k].err = "")

Exact == Check("Exact", \A k \in 1..NOuts : C.outs[k].err = "" => C.outs[k].ok)

Kind ==
  Check("Kind", \A k \in 1..NOuts :
                  C.outs[k].ok => KindOfCount(NDistinct(C.outs[k].pts)) = Ref(C.outs[k].args).kind)

Points ==
  Check("Points", \A k \in 1..NOuts :
                    C.outs[k].ok => SamePts(C.outs[k].pts, Ref(C.outs[k].args).pts))

OrderIndependent ==
  Check("OrderIndependent", \A k \in 1..NOuts :
                              (C.outs[k].ok /\ C.outs[1].ok) => SamePts(C.outs[k].pts, C.outs[1].pts))
=============================================================================
