----------------------------- MODULE J_FvOracle -----------------------------
(***************************************************************************)
(* Judge module for C11 (MPFA), C12 (TPFA) and C18 (RT0 / MVEM): TLC       *)
(* compares what porepy computed with the exact oracle of FvOracle.tla.    *)
(*                                                                         *)
(* A case is one GRID with all configurations that were run on it (the     *)
(* exact geometry is evaluated once per grid):                             *)
(*   [g      grid as exported from porepy (GridGeom format; for an         *)
(*           embedded C18 grid: the pre-image in the plane z = 0 / on the  *)
(*           x-axis),                                                      *)
(*    strict the family guarantees a valid grid (no perturbation),         *)
(*    fields linear fields [g, p0]; the first one is constant (g = 0),     *)
(*    subs   sequence of configurations                                    *)
(*           [kc     permeability per cell, <<kxx,kyy,kzz,kxy,kxz,kyz>>,   *)
(*            bc     "dir" | "neu" | "int" per face,                       *)
(*            nfld   the first nfld fields are used (1 when kc varies),    *)
(*            raised "" or the exception porepy raised,                    *)
(*            out    what porepy returned (see the clauses)]]              *)
(* A verdict record carries the index of the configuration: sub.           *)
(*                                                                         *)
(* Numbers computed by porepy arrive as <<n, d, cls>>: n / d is the        *)
(* closest rational with d <= 10^5 of the double x and cls = 0 if          *)
(* |x - n/d| <= 1e-9 max(1,|x|), 1 if <= 1e-6 max(1,|x|), else 2.  As all  *)
(* exact values of the families have denominators far below 10^5, a value  *)
(* AGREES with the exact rational e iff <<n, d>> = e and cls = 0; it is    *)
(* INCONCLUSIVE (counted, never a verdict) iff <<n, d>> = e and cls = 1;   *)
(* everything else is off by more than 1e-6 relative: a violation.         *)
(* (|x| >= 2^13: <<+-2^29, 1, 2>>; inf / nan: <<+-(2^29 + 1), 1, 2>>.)      *)
(*                                                                         *)
(* Pass 1  TellInputs: TLC decides membership in the family and returns    *)
(*   the exact input data the code is driven with: per field the pressure  *)
(*   at cell centres (pc) and face centres (pf), per configuration and     *)
(*   field the flux out of the domain over every boundary face (of).  The  *)
(*   oracle's model laws are asserted.                                     *)
(* Pass 2  one invariant per property, a conjunction of its clauses:       *)
(*   C11 MpfaAll : Discretises, FluxExact, ConstantGivesZero,              *)
(*                 BoundaryPressureExact; configurations with a degenerate *)
(*                 corner (FvOracle!DegenerateCorners: the one-cell        *)
(*                 interaction region has a singular local system) are     *)
(*                 told as "degenerate" - they are judged like all others  *)
(*   C12 TpfaAll : Discretises, Symmetric, SingleValued, ConstantZero (any *)
(*                 valid grid, any SPD tensor per cell - on porepy's own   *)
(*                 matrices); on Cartesian / tensor grids with diagonal    *)
(*                 tensors: MMatrix, AgreesWithMpfa, Representable and,    *)
(*                 for a constant tensor, LinearExact (TLC multiplies      *)
(*                 porepy's matrices with the exact data); KOrthExact:     *)
(*                 entrywise equality of flux, bound_flux,                 *)
(*                 bound_pressure_cell, bound_pressure_face with TpfaRef   *)
(*                 on K-orthogonal configurations (elsewhere a difference  *)
(*                 is only told: "refdiff" - the formula is mechanism      *)
(*                 there); the model laws of TpfaRef are asserted.  Faces  *)
(*                 whose two half transmissibilities cancel (t1 = -t2: the *)
(*                 harmonic mean is undefined) are told as "singular".     *)
(*   C18 MixedAll: Discretises, FluxExact, ConstantGivesZero,              *)
(*                 CellPressureExact, MassSymmetric, MassPositiveDefinite  *)
(*                 (the last one is the float predicate "Cholesky          *)
(*                 succeeded", evaluated by numpy and only relayed).       *)
(***************************************************************************)
EXTENDS Judge, FvOracle

G == C.g
NC == NCells(G)
NF == NFaces(G)
NS == Len(C.subs)
MaxDen == 100000
Fld(j) == C.fields[j]
IsConst(F) == F.g = <<0, 0, 0>>

FailK(clause, k) == PrintT(ToJson([case |-> ci, sub |-> k, clause |-> clause]))
CheckK(clause, k, ok) == ok \/ FailK(clause, k)
TellK(tag, k, v) == PrintT(ToJson([case |-> ci, sub |-> k, tag |-> tag, val |-> v]))

\* ---- the input family --------------------------------------------------------------------------------------
GridOK(E) == LET v == ValidE(G, E) /\ (G.dim = 3 => E.star) IN
  /\ (C.strict /\ ~v) => Assert(FALSE, <<"strict case outside the family", ci>>)
  /\ v
FieldsOK == /\ IsConst(Fld(1))
            /\ \A j \in 1..Len(C.fields) : (G.dim <= 2 => Fld(j).g[3] = 0) /\ (G.dim = 1 => Fld(j).g[2] = 0)
SubOK(E, u) == /\ Len(u.kc) = NC /\ \A c \in 1..NC : KSPD(u.kc[c]) /\ KBlock(G.dim, u.kc[c])
               /\ BcOK(G, E, u.bc)
               /\ u.nfld \in 1..Len(C.fields) /\ (u.nfld > 1 => ConstantK(u.kc))
\* configurations are produced by FvOracleEnum: one that is malformed is a machinery failure
SubsOK(E) == Assert(FieldsOK /\ \A k \in 1..NS : SubOK(E, C.subs[k]), <<"malformed configuration", ci>>)

\* ---- pass 1 ----------------------------------------------------------------------------------------------------
BFaces(E) == SetToSeq2(BoundaryFaces(G, E))
TellInputs ==
  (~Judging) \/
  LET E == Geom(G) IN
    IF ~GridOK(E) THEN Tell("outside", NS)
    ELSE
      LET bf == BFaces(E) IN
      /\ SubsOK(E)
      /\ \A k \in 1..NS : LET u == C.subs[k] IN
            /\ Assert(\A f \in 1..NF : ConstantLaw(E, u.kc[1], Fld(1).p0, f), <<"constant law fails", ci>>)
            /\ u.nfld > 1 => Assert(OracleLaws(G, E, u.kc[1], Fld(u.nfld)), <<"oracle law fails", ci, k>>)
      /\ Tell("inputs", [pc |-> [j \in 1..Len(C.fields) |-> [c \in 1..NC |-> ExactCellPressure(E, Fld(j), c)]],
                         pf |-> [j \in 1..Len(C.fields) |-> [f \in 1..NF |-> ExactBoundPressure(E, Fld(j), f)]],
                         bf |-> bf,
                         of |-> [k \in 1..NS |-> [j \in 1..C.subs[k].nfld |->
                                   [i \in 1..Len(bf) |-> OutFlux(G, E, C.subs[k].kc[1], Fld(j), bf[i])]]]])

\* ---- comparison of a recorded value <<n, d, cls>> with an exact rational ------------------------------------------
Cls(v, e) == IF v[1] = e[1] /\ v[2] = e[2] THEN v[3] ELSE 2
OKv(v, e) == Cls(v, e) <= 1
InconclusiveK(k, S) == Cardinality(S) = 0 \/ TellK("inconclusive", k, Cardinality(S))
RatOf(v) == <<v[1], v[2]>>
\* sparse rows: row = sequence of <<column, n, d, cls>>
Ent(row, j) == LET S == {i \in 1..Len(row) : row[i][1] = j} IN
               IF S = {} THEN <<0, 1, 0>>
               ELSE LET i == CHOOSE i \in S : TRUE IN <<row[i][2], row[i][3], row[i][4]>>
Cols(row) == {row[i][1] : i \in 1..Len(row)}

\* ---- C11 ---------------------------------------------------------------------------------------------------------
FluxOK(E, u, j) == \A f \in 1..NF : OKv(u.out.q[j][f], ExactFlux(E, u.kc[1], Fld(j), f))
BoundPressureOK(E, u, j) == \A f \in 1..NF : Boundary(E, f) => OKv(u.out.pb[j][f], ExactBoundPressure(E, Fld(j), f))
MpfaSub(E, corners, k) ==
  LET u == C.subs[k]
      deg == DegenerateCorners(G, E, u.kc[1], u.bc, corners)
  IN
    /\ deg = {} \/ TellK("degenerate", k, SetToSeq2({x[1] : x \in deg}))
    /\ IF u.raised # "" THEN CheckK("Discretises", k, FALSE)
       ELSE
         /\ CheckK("FluxExact", k, \A j \in 2..u.nfld : FluxOK(E, u, j))
         /\ CheckK("ConstantGivesZero", k, FluxOK(E, u, 1))
         /\ CheckK("BoundaryPressureExact", k, \A j \in 1..u.nfld : BoundPressureOK(E, u, j))
         /\ InconclusiveK(k, {<<j, f>> \in (1..u.nfld) \X (1..NF) :
                            \/ Cls(u.out.q[j][f], ExactFlux(E, u.kc[1], Fld(j), f)) = 1
                            \/ Boundary(E, f) /\ Cls(u.out.pb[j][f], ExactBoundPressure(E, Fld(j), f)) = 1})
MpfaAll ==
  (~Judging) \/
  LET E == Geom(G) IN
    IF ~GridOK(E) THEN Tell("outside", NS)
    ELSE LET corners == Corners(G, E) IN
         SubsOK(E) /\ \A k \in 1..NS : MpfaSub(E, corners, k)

\* ---- C18 ---------------------------------------------------------------------------------------------------------
CellPressureOK(E, u, j) == \A c \in 1..NC : OKv(u.out.p[j][c], ExactCellPressure(E, Fld(j), c))
\* symmetric on the rationalised entries, or (float predicate relayed as an integer) max|M - M^T| <= 1e-12 max|M|:
\* asym = round(1e15 max|M - M^T| / max|M|)
MassSymmetricOK(u) ==
  \/ u.out.asym <= 1000
  \/ \A i \in 1..Len(u.out.mass) : \A j \in Cols(u.out.mass[i]) :
        j <= Len(u.out.mass) /\ RatOf(Ent(u.out.mass[i], j)) = RatOf(Ent(u.out.mass[j], i))
MixedSub(E, k) ==
  LET u == C.subs[k] IN
    IF u.raised # "" THEN CheckK("Discretises", k, FALSE)
    ELSE
      /\ CheckK("FluxExact", k, \A j \in 2..u.nfld : FluxOK(E, u, j))
      /\ CheckK("ConstantGivesZero", k, FluxOK(E, u, 1))
      /\ CheckK("CellPressureExact", k, \A j \in 1..u.nfld : CellPressureOK(E, u, j))
      /\ CheckK("MassSymmetric", k, MassSymmetricOK(u))
      /\ CheckK("MassPositiveDefinite", k, u.out.chol)
      /\ InconclusiveK(k, {<<j, f>> \in (1..u.nfld) \X (1..NF) :
                         \/ Cls(u.out.q[j][f], ExactFlux(E, u.kc[1], Fld(j), f)) = 1
                         \/ f <= NC /\ Cls(u.out.p[j][f], ExactCellPressure(E, Fld(j), f)) = 1})
MixedAll ==
  (~Judging) \/
  LET E == Geom(G) IN
    IF ~GridOK(E) THEN Tell("outside", NS)
    ELSE SubsOK(E) /\ \A k \in 1..NS : MixedSub(E, k)

\* ---- C12 ---------------------------------------------------------------------------------------------------------
\* A = Div Flux on porepy's flux matrix: A[c][d] = sum_f s(c, f) flux[f][d]; evaluated structurally where a sum has
\* at most one term (no arithmetic on recorded numbers), by rational addition otherwise
Terms(X, c, d) == {i \in 1..Len(G.cf[c]) : RatOf(Ent(X.flux[G.cf[c][i][1]], d)) # RZero}
AEntry(X, c, d) ==
  LET T == Terms(X, c, d) IN
  IF T = {} THEN RZero
  ELSE IF Cardinality(T) = 1 THEN LET i == CHOOSE i \in T : TRUE IN
          RMul(R(G.cf[c][i][2]), RatOf(Ent(X.flux[G.cf[c][i][1]], d)))
  ELSE RSum([i \in 1..Len(G.cf[c]) |-> RMul(R(G.cf[c][i][2]), RatOf(Ent(X.flux[G.cf[c][i][1]], d)))])
SymmetricOK(X) == \A c, d \in 1..NC : c < d => AEntry(X, c, d) = AEntry(X, d, c)
\* the flux over a face depends only on the cells of the face and on its own boundary datum
SingleValuedOK(E, X) == \A f \in 1..NF :
  /\ \A c \in Cols(X.flux[f]) : c \in E.f2c[f] \/ RatOf(Ent(X.flux[f], c)) = RZero
  /\ \A h \in Cols(X.bound_flux[f]) : (h = f /\ Boundary(E, f)) \/ RatOf(Ent(X.bound_flux[f], h)) = RZero
\* p = 1 in every cell, 1 on Dirichlet faces, flux 0 on Neumann faces: every face flux vanishes
RowVals(u, f) == LET r == u.out.flux[f] IN
  [i \in 1..Len(r) |-> <<r[i][2], r[i][3]>>] \o (IF u.bc[f] = "dir" THEN <<RatOf(Ent(u.out.bound_flux[f], f))>> ELSE <<>>)
IsNonZero(v) == v # RZero
\* (inf / nan are recorded as +-(2^29 + 1): inf - inf is not zero; a finite number >= 2^13 is recorded as +-2^29,
\* only its sign is kept - no exact value of the families is that large)
Finite(v) == Abs(v[1]) <= 536870912
\* (not demanded on the faces `sing` where the two-point transmissibility is undefined - FvOracle!Singular: whatever
\* the floating-point evaluation of 1 / (1/t1 + 1/t2) gives there - 1e14, inf, nan - is an artefact; counted)
ConstantZeroOK(u, sing) == \A f \in (1..NF) \ sing :
  LET v == SelectSeq(RowVals(u, f), IsNonZero) IN
    IF \E i \in 1..Len(v) : ~Finite(v[i]) THEN FALSE
    ELSE IF Len(v) = 0 THEN TRUE
    ELSE IF Len(v) = 2 THEN v[1] = RNeg(v[2])
    ELSE IF Len(v) = 1 THEN FALSE
    ELSE RSum(v) = RZero

\* entrywise comparison with TpfaRef; entries whose exact value has a denominator > MaxDen cannot be represented
\* by the recorded rationals and are skipped (counted)
Cmp(v, e) == IF e[2] > MaxDen THEN 3 ELSE Cls(v, e)      \* 3 = skipped
RefEntries(E, u, T) ==
  LET X == u.out IN
  [f \in 1..NF |->
     [i \in 1..Len(SetToSeq2(E.f2c[f])) |-> LET c == SetToSeq2(E.f2c[f])[i] IN
        << Cmp(Ent(X.flux[f], c), RefFlux(G, E, u.bc, T, f, c)),
           Cmp(Ent(X.bound_pressure_cell[f], c), RefBoundPressureCell(E, u.bc, f, c)) >>]
     \o << << Cmp(Ent(X.bound_flux[f], f), RefBoundFlux(G, E, u.bc, T, f, f)),
              Cmp(Ent(X.bound_pressure_face[f], f), RefBoundPressureFace(u.bc, T, f, f)) >> >>]
RefEqual(R0) == \A f \in 1..Len(R0) : \A i \in 1..Len(R0[f]) : R0[f][i][1] # 2 /\ R0[f][i][2] # 2
WithCode(R0, code) == {<<f, i>> \in (1..NF) \X (1..3) : i <= Len(R0[f]) /\ (R0[f][i][1] = code \/ R0[f][i][2] = code)}
\* support of the two pressure-reconstruction matrices
BoundPressureSupportOK(E, X) == \A f \in 1..NF :
  /\ \A c \in Cols(X.bound_pressure_cell[f]) : c \in E.f2c[f] \/ RatOf(Ent(X.bound_pressure_cell[f], c)) = RZero
  /\ \A h \in Cols(X.bound_pressure_face[f]) : h = f \/ RatOf(Ent(X.bound_pressure_face[f], h)) = RZero

\* all recorded numbers are small rationals (as the exact ones are on tensor grids): arithmetic on them is safe
SmallRow(r) == \A i \in 1..Len(r) : Abs(r[i][2]) <= 2000 /\ r[i][3] <= 2000
SmallVals(X) == \A f \in 1..NF : SmallRow(X.flux[f]) /\ SmallRow(X.bound_flux[f])
                                 /\ SmallRow(X.bound_pressure_cell[f]) /\ SmallRow(X.bound_pressure_face[f])
MMatrixOK(X) == \A c, d \in 1..NC :
  LET a == RSum([i \in 1..Len(G.cf[c]) |-> RMul(R(G.cf[c][i][2]), RatOf(Ent(X.flux[G.cf[c][i][1]], d)))])
  IN IF c = d THEN RSgn(a) > 0 ELSE RSgn(a) <= 0
SameEntry(v, w) == RatOf(v) = RatOf(w) /\ v[3] <= 1 /\ w[3] <= 1
AgreesWithMpfaOK(X) == \A f \in 1..NF :
  /\ \A c \in Cols(X.flux[f]) \cup Cols(X.mpfa_flux[f]) : SameEntry(Ent(X.flux[f], c), Ent(X.mpfa_flux[f], c))
  /\ \A h \in Cols(X.bound_flux[f]) \cup Cols(X.mpfa_bound_flux[f]) :
        SameEntry(Ent(X.bound_flux[f], h), Ent(X.mpfa_bound_flux[f], h))
\* porepy's matrices applied (by TLC, in exact arithmetic) to the exact data of a linear field
RowTimes(row, Val(_)) == RSum([i \in 1..Len(row) |-> RMul(<<row[i][2], row[i][3]>>, Val(row[i][1]))])
AppliedFlux(E, u, F, f) ==
  LET pc(c) == ExactCellPressure(E, F, c)
      bv(h) == BcValue(G, E, u.kc[1], F, u.bc, h)
  IN RAdd(RowTimes(u.out.flux[f], pc), RowTimes(u.out.bound_flux[f], bv))
AppliedBoundPressure(E, u, F, f) ==
  LET pc(c) == ExactCellPressure(E, F, c)
      bv(h) == BcValue(G, E, u.kc[1], F, u.bc, h)
  IN RAdd(RowTimes(u.out.bound_pressure_cell[f], pc), RowTimes(u.out.bound_pressure_face[f], bv))
RowCls0(r) == \A i \in 1..Len(r) : r[i][4] = 0
Cls0(X) == \A f \in 1..NF : RowCls0(X.flux[f]) /\ RowCls0(X.bound_flux[f])
                            /\ RowCls0(X.bound_pressure_cell[f]) /\ RowCls0(X.bound_pressure_face[f])
LinearExactOK(E, u) == \A j \in 1..u.nfld : \A f \in 1..NF :
  /\ AppliedFlux(E, u, Fld(j), f) = ExactFlux(E, u.kc[1], Fld(j), f)
  /\ Boundary(E, f) => AppliedBoundPressure(E, u, Fld(j), f) = ExactBoundPressure(E, Fld(j), f)

TpfaSub(E, small, k) ==
  LET u == C.subs[k]
      X == u.out
  IN
    IF u.raised # "" THEN CheckK("Discretises", k, FALSE)
    ELSE
      LET H == IF small THEN Halves(G, E, u.kc) ELSE <<>>
          sing == IF small /\ HalfSmall(H) THEN Singular(H) ELSE {}
          refok == small /\ HalfOK(H) /\ sing = {}
          T == IF refok THEN TpfaT(H) ELSE <<>>
          korth == refok /\ KOrthogonal(G, E, u.kc)
          axis == AxisDiag(G, E, u.kc)
          R0 == IF refok THEN RefEntries(E, u, T) ELSE <<>>
          flds == [j \in 1..u.nfld |-> Fld(j)]
      IN
        /\ CheckK("Symmetric", k, SymmetricOK(X))
        /\ CheckK("SingleValued", k, SingleValuedOK(E, X))
        /\ CheckK("ConstantZero", k, ConstantZeroOK(u, sing))
        /\ axis => Assert(korth, <<"tensor grid with diagonal K is not K-orthogonal / not small", ci, k>>)
        /\ refok => Assert(TpfaLaws(G, E, u.kc, u.bc, T, flds, axis), <<"TpfaRef violates a model law", ci, k>>)
        /\ (~refok) => TellK("noref", k, 1)
        /\ sing = {} \/ TellK("singular", k, SetToSeq2(sing))
        /\ refok =>
             IF korth THEN CheckK("KOrthExact", k, RefEqual(R0) /\ BoundPressureSupportOK(E, X))
             ELSE (RefEqual(R0) /\ BoundPressureSupportOK(E, X)) \/ TellK("refdiff", k, 1)
        /\ refok => InconclusiveK(k, WithCode(R0, 1))
        /\ refok => (WithCode(R0, 3) = {} \/ TellK("skipped", k, Cardinality(WithCode(R0, 3))))
        /\ axis =>
             /\ CheckK("Representable", k, SmallVals(X))
             /\ CheckK("AgreesWithMpfa", k, AgreesWithMpfaOK(X))
             /\ SmallVals(X) =>
                  /\ CheckK("MMatrix", k, MMatrixOK(X))
                  /\ (ConstantK(u.kc) /\ Cls0(X)) => CheckK("LinearExact", k, LinearExactOK(E, u))
TpfaAll ==
  (~Judging) \/
  LET E == Geom(G) IN
    IF ~GridOK(E) THEN Tell("outside", NS)
    ELSE LET small == SmallGeom(G, E) IN
         SubsOK(E) /\ \A k \in 1..NS : TpfaSub(E, small, k)
=============================================================================
