--------------------------- MODULE J_SplitInvariance ---------------------------
(***************************************************************************)
(* C14 judge: TLC evaluates the clauses on matrices recorded from the real *)
(* code (exploration level: metamorphic, black box).  One case =           *)
(*   G       incidence record of the grid (GridTopology)                   *)
(*   scheme  "mpfa" | "mpsa" | "biot"                                      *)
(*   var     the variant emitted by SplitInvarianceEnum: kind "inverter" | *)
(*           "split" | "partial" | "combo", mode, how, and set = the       *)
(*           specified cells / faces / nodes of a partial request          *)
(*   out     okA, okB, okO (FALSE: the code raised), err, af / ac (the     *)
(*           active_faces / active_cells the code left in its parameter    *)
(*           dictionary, <<-1>>: none), mats = one record per matrix of    *)
(*           the code's matrix dictionary: key, sub (coupling keyword or   *)
(*           ""), sa / sb / so (shapes) and rows = for every row the       *)
(*           entries <<column, a1, a2, a3, b1, b2, b3 (, o1, o2, o3)>>     *)
(*           that are stored in any of the matrices, as fixed point limbs  *)
(*           relative to s = 2^e >= max|A| (SplitInvariance, item 5):      *)
(*             A = one piece, default inverter, parameters P               *)
(*             B = the variant, parameters P                               *)
(*             O = (how "flag" / "method") the OLD one-piece               *)
(*                 discretisation with parameters P' on which the update   *)
(*                 was performed                                           *)
(* Clauses (property text in quotes):                                      *)
(*  Completes   A, B (and O) were computed: an exception of the code on an *)
(*              in-family input is an observation                          *)
(*  Shapes      "equal shapes": every matrix of the catalogue is present   *)
(*              in A and B with the documented shape                       *)
(*  TargetRows  "the discretization matrices are identical whether the     *)
(*              grid is discretized in one piece, split into any number of *)
(*              ... subproblems, or rediscretized only on specified        *)
(*              cells/faces/nodes (on the rows those updates target) ...   *)
(*              numba and pure-python local inverters give the same        *)
(*              matrices": B = A entry by entry on the targeted rows =     *)
(*              all rows (inverter, split); the footprint computed here    *)
(*              from the incidence for face rows, CellRows(footprint) for  *)
(*              cell rows (partial fresh / flag); for how = "method" (its  *)
(*              documented contract is the complete discretisation) the    *)
(*              footprint for face rows and all cell rows                  *)
(*  OtherRows   "rediscretized ONLY on ...": an update of an existing      *)
(*              discretisation (flag, method) leaves the face rows outside *)
(*              the footprint as they were: B = O there.  (P' differs from *)
(*              P everywhere for "flag"; only in the modified cells / at   *)
(*              the modified boundary faces for "method", so that the      *)
(*              whole of B must then equal A.)                             *)
(* One invariant, Judgement, evaluates all clauses (they share the         *)
(* footprint); it prints a verdict record per false clause, and Tell       *)
(* records: "where" (matrix / row / column of an offending entry),         *)
(* "inconclusive" (some entry in the band (1e-9, 1e-6] and none beyond),   *)
(* "footprint" / "stencil" (the code's active_faces differ from the        *)
(* footprint / its active_cells do not contain the interaction regions of  *)
(* the footprint: mechanism, reported as DRIFT), "unknown" (a matrix that  *)
(* is not in the catalogue).  Cases are read one file per case (see        *)
(* J_OrthoMaps for the reason).                                            *)
(***************************************************************************)
EXTENDS Judge, SplitInvariance

CONSTANTS CaseDir, NumCases
FBlocks == 32
Case == JsonDeserialize(CaseDir \o "/" \o ToString(ci) \o ".json")
FInit == blk \in 0..(FBlocks - 1) /\ ci = 0
FNext == /\ ci = 0
         /\ ci' \in {i \in 1..NumCases : i % FBlocks = blk}
         /\ blk' = blk
FSpec == FInit /\ [][FNext]_jvars

IsPartial(X) == X.var.kind \in {"partial", "combo"}
HasOld(X) == IsPartial(X) /\ X.var.how \in {"flag", "method"}
InFamily(X) == /\ WellFormed(X.G) /\ X.scheme \in Schemes
               /\ IsPartial(X) => RequestOK(X.G, X.var.mode, Range(X.var.set))
Foot(X) == IF IsPartial(X) THEN Footprint(X.G, X.var.mode, Range(X.var.set)) ELSE FaceIx(X.G)

Completes(X) == X.out.okA /\ X.out.okB /\ (HasOld(X) => X.out.okO)

Known(X, M) == KnownKey(X.scheme, M.key)
ShapeOK(X, M) ==
  LET info == InfoOf(X.scheme, M.key) IN
    /\ M.sa = DocShape(X.G, info) /\ M.sb = M.sa /\ (HasOld(X) => M.so = M.sa)
    /\ Len(M.rows) = M.sa[1]
    /\ IF info.coupled THEN \E i \in 1..Len(CouplingKeys) : CouplingKeys[i] = M.sub ELSE M.sub = ""
Present(X) ==
  \A i \in 1..Len(MatTable(X.scheme)) :
    LET info == MatTable(X.scheme)[i] IN
      IF info.coupled
      THEN \A j \in 1..Len(CouplingKeys) :
             \E k \in 1..Len(X.out.mats) : X.out.mats[k].key = info.key /\ X.out.mats[k].sub = CouplingKeys[j]
      ELSE \E k \in 1..Len(X.out.mats) : X.out.mats[k].key = info.key
Shapes(X) == Present(X) /\ \A k \in 1..Len(X.out.mats) : Known(X, X.out.mats[k]) => ShapeOK(X, X.out.mats[k])

\* what is demanded of the rows of entity ent of a matrix with catalogue record info:
\* 1 = B must equal A, 2 = B must equal O, 0 = nothing
DemandOf(X, info, F, CR, ent) ==
  IF info.re = "face"
  THEN IF ent \in F THEN 1 ELSE IF HasOld(X) THEN 2 ELSE 0
  ELSE IF ~IsPartial(X) \/ X.var.how = "method" \/ ent \in CR THEN 1 ELSE 0
\* per row (1-based) of M the demand
Demands(X, M, F, CR) ==
  LET info == InfoOf(X.scheme, M.key)
      mult == Mult(X.G, info.rm)
      byEnt == [ent \in 0..(Count(X.G, info.re) - 1) |-> DemandOf(X, info, F, CR, ent)]
  IN [r \in 1..Len(M.rows) |-> byEnt[(r - 1) \div mult]]

EntryV(e, d) == IF d = 1 THEN CloseV(<<e[2], e[3], e[4]>>, <<e[5], e[6], e[7]>>)
                ELSE CloseV(<<e[5], e[6], e[7]>>, <<e[8], e[9], e[10]>>)
\* pairs <<demand, verdict>> over the entries of M
MatVerdicts(X, M, F, CR) ==
  LET D == Demands(X, M, F, CR) IN
  UNION { IF D[r] = 0 THEN {} ELSE {<<D[r], EntryV(M.rows[r][k], D[r])>> : k \in 1..Len(M.rows[r])}
          : r \in 1..Len(M.rows) }
\* an offending entry of M for demand d (only evaluated when there is one)
Offender(X, M, F, CR, d) ==
  LET D == Demands(X, M, F, CR)
      bad == {r \in 1..Len(M.rows) : D[r] = d /\ \E k \in 1..Len(M.rows[r]) : EntryV(M.rows[r][k], d) = 2}
      r == CHOOSE q \in bad : \A p \in bad : q <= p
      k == CHOOSE j \in 1..Len(M.rows[r]) : EntryV(M.rows[r][j], d) = 2
  IN [key |-> M.key, sub |-> M.sub, row |-> r - 1, col |-> M.rows[r][k][1], demand |-> d, entry |-> M.rows[r][k]]

JudgeCase(X) ==
  IF ~InFamily(X) THEN Tell("outside", 1)
  ELSE IF ~Completes(X)
  THEN Check("Completes", FALSE)
  ELSE IF ~Shapes(X)
  THEN Check("Shapes", FALSE)
  ELSE
    LET F == Foot(X)
        CR == CellRows(X.G, F)
        mats == {k \in 1..Len(X.out.mats) : Known(X, X.out.mats[k])}
        V == [k \in mats |-> MatVerdicts(X, X.out.mats[k], F, CR)]
        all == UNION {V[k] : k \in mats}
        badT == {k \in mats : <<1, 2>> \in V[k]}
        badO == {k \in mats : <<2, 2>> \in V[k]}
        codeF == Range(X.out.af)
        codeC == Range(X.out.ac)
    IN /\ Check("TargetRows", badT = {})
       /\ Check("OtherRows", badO = {})
       /\ badT # {} => Tell("where", Offender(X, X.out.mats[CHOOSE k \in badT : \A j \in badT : k <= j], F, CR, 1))
       /\ badO # {} => Tell("where", Offender(X, X.out.mats[CHOOSE k \in badO : \A j \in badO : k <= j], F, CR, 2))
       /\ (badT = {} /\ badO = {} /\ (<<1, 1>> \in all \/ <<2, 1>> \in all)) => Tell("inconclusive", 1)
       /\ (IsPartial(X) /\ X.var.how # "method" /\ -1 \notin codeF /\ codeF # F)
            => Tell("footprint", [spec |-> SetToSortSeq(F, <), code |-> SetToSortSeq(codeF, <)])
       /\ (IsPartial(X) /\ X.var.how # "method" /\ -1 \notin codeC /\ ~(NeededCells(X.G, F) \subseteq codeC))
            => Tell("stencil", [needed |-> SetToSortSeq(NeededCells(X.G, F), <), code |-> SetToSortSeq(codeC, <)])
       /\ \A k \in (1..Len(X.out.mats)) \ mats : Tell("unknown", X.out.mats[k].key)
       /\ Tell("rows", [foot |-> Cardinality(F), crows |-> Cardinality(CR)])

Judgement == (~Judging) \/ LET X == Case IN JudgeCase(X)
=============================================================================
