---------------------------- MODULE M_HistoryStore ----------------------------
(***************************************************************************)
(* Monitor: TLC model-checks the C08 clauses on the transition system      *)
(* recorded from the real code.  Nothing of the mechanism model is used:   *)
(* transitions are the recorded edges, the ghosts (what index 0 held at    *)
(* each shift, what the latest write amounts to) are computed from the     *)
(* recorded calls and the observed contents.                               *)
(***************************************************************************)
EXTENDS Integers, Sequences, FiniteSets, Json, IOUtils, TLC

CONSTANTS Depth
Graph == JsonDeserialize(IOEnv.VERIF_GRAPH)
P(n) == Graph.nodes[n]
LocSet == {"ts", "it"}

VARIABLES node, gen, cur, nsh
mvars == <<node, gen, cur, nsh>>

\* only the Depth - 1 most recent shifts can still be visible in the window; forgetting older ones keeps the
\* monitor finite on cyclic recorded graphs
Trunc(s, l) == IF Depth[l] > 0 /\ Len(s) > Depth[l] - 1 THEN SubSeq(s, 1, Depth[l] - 1) ELSE s
Cap(n, l) == IF Depth[l] > 0 /\ n > Depth[l] THEN Depth[l] ELSE n

\* observed contents of location l at node n (index i is element i + 1)
Stored(n, l) == IF l = "ts" THEN SubSeq(P(n).contents, 1, P(n).nts)
                            ELSE SubSeq(P(n).contents, P(n).nts + 1, P(n).nts + P(n).nit)
NStored(n) == P(n).nts + P(n).nit

MInit == /\ node = 1 /\ gen = [l \in LocSet |-> <<>>] /\ cur = [l \in LocSet |-> 0]
         /\ nsh = [l \in LocSet |-> 0]

\* did the call write location l?  (the harness does not offer additive writes to both locations when
\* exactly one of them is empty: what such a rejected call leaves behind is not fixed by the property)
Wrote(e, l, n2) ==
  /\ e.ev = "set" /\ (e.loc = l \/ e.loc = "both")
  /\ P(n2).last.res = "ok"

MNext ==
  \E i \in 1..Len(Graph.edges[node]) :
    LET e == Graph.edges[node][i] IN
      /\ node' = e.dst
      /\ cur' = [l \in LocSet |-> IF Wrote(e, l, e.dst) THEN (IF e.add THEN cur[l] + e.v ELSE e.v) ELSE cur[l]]
      /\ gen' = [l \in LocSet |-> IF e.ev = "shift" /\ e.loc = l /\ Stored(node, l) # <<>>
                                  THEN Trunc(<<Stored(node, l)[1]>> \o gen[l], l) ELSE gen[l]]
      /\ nsh' = [l \in LocSet |-> IF e.ev = "shift" /\ e.loc = l /\ Stored(node, l) # <<>>
                                  THEN Cap(nsh[l] + 1, l) ELSE nsh[l]]

MSpec == MInit /\ [][MNext]_mvars

LatestAtZero == \A l \in LocSet : Stored(node, l) # <<>> => Stored(node, l)[1] = cur[l]
\* index i (below the depth) holds what index 0 held at the i-th most recent shift
Below(i, l) == Depth[l] = 0 \/ i < Depth[l]
Window == \A l \in LocSet : \A i \in 1..(Len(Stored(node, l)) - 1) :
            (i <= Len(gen[l]) /\ Below(i, l)) => Stored(node, l)[i + 1] = gen[l][i]
\* ... and such an index exists once i shifts have happened (an implementation keeping more than the
\* depth is not in conflict with the property, so no upper bound is demanded here)
WindowAvailable == \A l \in LocSet : Stored(node, l) # <<>> =>
                 Len(Stored(node, l)) >= IF Depth[l] = 0 THEN nsh[l] + 1
                                         ELSE IF nsh[l] + 1 < Depth[l] THEN nsh[l] + 1 ELSE Depth[l]
\* no stored array shares memory with another stored array or with an array the caller holds
NoAlias == \A p \in 1..Len(P(node).first) :
             (p <= NStored(node) \/ P(node).first[p] <= NStored(node)) => P(node).first[p] = p
\* additive write to an empty slot is rejected; reading an index never written raises
AdditiveEmptyRejected ==
  [][\A i \in 1..Len(Graph.edges[node]) :
       LET e == Graph.edges[node][i] IN
         (node' = e.dst /\ e.ev = "set" /\ e.add /\
            \E l \in LocSet : (e.loc = l \/ e.loc = "both") /\ Stored(node, l) = <<>>)
         => P(e.dst).last.res = "ValueError"]_mvars
GetReturnsStored ==
  [][\A i \in 1..Len(Graph.edges[node]) :
       LET e == Graph.edges[node][i] IN
         (node' = e.dst /\ e.ev = "get") =>
            IF e.i + 1 <= Len(Stored(node, e.loc))
            THEN P(e.dst).last.res = "ok" /\ P(e.dst).last.val = Stored(node, e.loc)[e.i + 1]
            ELSE P(e.dst).last.res = "KeyError"]_mvars
\* a read or a client write never changes what is stored
ReadsDoNotWrite ==
  [][\A i \in 1..Len(Graph.edges[node]) :
       LET e == Graph.edges[node][i] IN
         (node' = e.dst /\ e.ev \in {"get", "mut"}) =>
            \A l \in LocSet : Stored(e.dst, l) = Stored(node, l)]_mvars
\* histories of different quantities are independent: a call addressed to the other quantity leaves this one's
\* storage as it is, and calls addressed to this quantity leave the other one's storage (P(n).other) as it is
OthersIndependent ==
  [][\A i \in 1..Len(Graph.edges[node]) :
       LET e == Graph.edges[node][i] IN
         node' = e.dst =>
            IF e.ev \in {"oset", "oshift"}
            THEN \A l \in LocSet : Stored(e.dst, l) = Stored(node, l)
            ELSE P(e.dst).other = P(node).other]_mvars
==============================================================================
