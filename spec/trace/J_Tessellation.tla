--------------------------- MODULE J_Tessellation ---------------------------
(***************************************************************************)
(* C33 judge.  One case = two tessellations of a common line / rectangle   *)
(* and what the real code computed for them.                               *)
(*  kind "line":                                                           *)
(*   C.in  = [X, Y   breakpoint sequences of [0, n] (sorted; the grids     *)
(*                   given to match_1d have their cells in this order),    *)
(*            c1, c2 the cells <<t0, t1>> in the order / orientation in    *)
(*                   which they were passed to line_tessellation,          *)
(*            len    integer length of the embedding direction]            *)
(*  kind "tri":                                                            *)
(*   C.in  = [t1, t2 sequences of triangles << <<x,y>>, <<x,y>>, <<x,y>> >>]*)
(*  both:                                                                  *)
(*   C.out = [err, ok (all numbers are small rationals),                   *)
(*            ov    |-> sequence of [i, j, w]: the tuples returned by      *)
(*                      line_tessellation / triangulations (1-based),      *)
(*            avg   |-> dense match_1d/2d(new = first, old = second,       *)
(*                      "averaged") as rows of <<n, d>>,                   *)
(*            integ |-> the same with "integrated"]                        *)
(* Property clauses:                                                       *)
(*   NonNegative     every reported overlap is >= 0                        *)
(*   CellSums        the overlaps of every cell of either tessellation     *)
(*                   sum to its measure (exact length / area)              *)
(*   OverlapRef      (line only) the overlaps reported for a pair of cells *)
(*                   sum to the length of the intersection of the cells    *)
(*   AveragedRows    every row of the averaged matrix sums to 1            *)
(*   IntegratedCols  every column of the integrated matrix sums to 1       *)
(* Family (harness self-check, never a verdict on porepy): line: c1, c2    *)
(* are the cells of X, Y; tri: positive areas, equal total area.  A case   *)
(* whose sums need a common denominator beyond 2*10^6 is reported "unfit"  *)
(* (inconclusive).                                                         *)
(***************************************************************************)
EXTENDS Judge, Tessellation

Line == C.in.kind = "line"
Good == C.out.err = "" /\ C.out.ok
OV == C.out.ov
N1 == IF Line THEN Len(C.in.c1) ELSE Len(C.in.t1)
N2 == IF Line THEN Len(C.in.c2) ELSE Len(C.in.t2)
\* measure of a cell as a rational
Meas1(i) == IF Line THEN R(C.in.len * CellLen(C.in.c1[i])) ELSE RNorm(Area2(C.in.t1[i]), 2)
Meas2(j) == IF Line THEN R(C.in.len * CellLen(C.in.c2[j])) ELSE RNorm(Area2(C.in.t2[j]), 2)

\* the weights of the tuples selected by a predicate (the others contribute an exact zero)
Row(i) == [k \in 1..Len(OV) |-> IF OV[k].i = i THEN OV[k].w ELSE RZero]
Col(j) == [k \in 1..Len(OV) |-> IF OV[k].j = j THEN OV[k].w ELSE RZero]
Pair(i, j) == [k \in 1..Len(OV) |-> IF OV[k].i = i /\ OV[k].j = j THEN OV[k].w ELSE RZero]
MatRow(m, i) == m[i]
MatCol(m, j) == [i \in 1..Len(m) |-> m[i][j]]

InFamily ==
  Check("InFamily",
        IF Line
        THEN /\ IsBreaks(C.in.X, C.in.X[Len(C.in.X)]) /\ IsBreaks(C.in.Y, C.in.X[Len(C.in.X)]) /\ C.in.len >= 1
             /\ {{c[1], c[2]} : c \in {C.in.c1[k] : k \in 1..N1}} = {{C.in.X[k], C.in.X[k + 1]} : k \in 1..NCells(C.in.X)}
             /\ {{c[1], c[2]} : c \in {C.in.c2[k] : k \in 1..N2}} = {{C.in.Y[k], C.in.Y[k + 1]} : k \in 1..NCells(C.in.Y)}
             /\ N1 = NCells(C.in.X) /\ N2 = NCells(C.in.Y)
        ELSE /\ \A k \in 1..N1 : Area2(C.in.t1[k]) > 0
             /\ \A k \in 1..N2 : Area2(C.in.t2[k]) > 0
             /\ TotalArea2(C.in.t1) = TotalArea2(C.in.t2))

Shape == Good => /\ \A k \in 1..Len(OV) : OV[k].i \in 1..N1 /\ OV[k].j \in 1..N2
                 /\ Len(C.out.avg) = N1 /\ Len(C.out.integ) = N1
                 /\ \A i \in 1..N1 : Len(C.out.avg[i]) = N2 /\ Len(C.out.integ[i]) = N2
\* every sum that a clause evaluates; a sum is judged only if its common denominator fits
Sums == {Row(i) : i \in 1..N1} \cup {Col(j) : j \in 1..N2}
        \cup {MatRow(C.out.avg, i) : i \in 1..N1} \cup {MatCol(C.out.integ, j) : j \in 1..N2}
Unfit == (~Judging) \/ ~(Good /\ Shape) \/ (\A q \in Sums : SumFits(q))
         \/ PrintT(ToJson([case |-> ci, tag |-> "unfit", val |-> 0]))


Returns   == Check("Returns", C.out.err = "")
Exact     == Check("Exact", C.out.err = "" => C.out.ok)
ShapeOK   == Check("Shape", Shape)
NonNegative == Check("NonNegative", Good => \A k \in 1..Len(OV) : OV[k].w[1] >= 0)
CellSums ==
  Check("CellSums", (Good /\ Shape) => /\ \A i \in 1..N1 : SumIs(Row(i), Meas1(i))
                                     /\ \A j \in 1..N2 : SumIs(Col(j), Meas2(j)))
OverlapRef ==
  Check("OverlapRef", (Good /\ Shape /\ Line) =>
                        \A i \in 1..N1, j \in 1..N2 :
                          SumIs(Pair(i, j), R(C.in.len * LineOverlapRef(C.in.c1[i], C.in.c2[j]))))
AveragedRows ==
  Check("AveragedRows", (Good /\ Shape) => \A i \in 1..N1 : SumIs(MatRow(C.out.avg, i), ROne))
IntegratedCols ==
  Check("IntegratedCols", (Good /\ Shape) => \A j \in 1..N2 : SumIs(MatCol(C.out.integ, j), ROne))
=============================================================================
