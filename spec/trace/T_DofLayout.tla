----------------------------- MODULE T_DofLayout -----------------------------
(***************************************************************************)
(* Conformance: every edge of the graph recorded from the real             *)
(* EquationSystem (create_variables / remove_variables histories) must be  *)
(* a step of sys/DofLayout; the logged registry, block order               *)
(* (_variable_numbers) and block sizes (_variable_num_dofs) are bound.     *)
(***************************************************************************)
EXTENDS DofLayout, Json, IOUtils, TLC

Graph == JsonDeserialize(IOEnv.VERIF_GRAPH)
VARIABLES node, via
tvars == <<dvars, node, via>>
P(n) == Graph.nodes[n]

BindNext(p) ==
  /\ Len(vars') = Len(p.reg)
  /\ \A k \in 1..Len(p.reg) : /\ vars'[k].vid = p.reg[k].vid /\ vars'[k].name = p.reg[k].name
                              /\ vars'[k].g = p.reg[k].g
  /\ numb' = p.numb /\ sizes' = p.sizes /\ last' = p.last

TInit == Init /\ node = 1 /\ via = <<0, 0>>
TNext ==
  \E i \in 1..Len(Graph.edges[node]) :
    LET e == Graph.edges[node][i] IN
      /\ node' = e.dst /\ via' = <<node, i>>
      /\ CASE e.ev = "create" -> Create(e.name, e.d, e.dom)
           [] e.ev = "remove" -> Remove(e.name)
      /\ BindNext(P(e.dst))
TSpec == TInit /\ [][TNext]_tvars
EmitVia == PrintT(ToJson(via))
==============================================================================
