----------------------------- MODULE J_SegSplit -----------------------------
(***************************************************************************)
(* C29 judge.  One case = one call                                         *)
(*   split_intersecting_segments_2d(p, e, return_argsort=True)             *)
(*   C.in  = [pts  |-> input points <<x, y>> (integers),                   *)
(*            segs |-> input segments [s, e, tags] (1-based indices)]      *)
(*   C.out = [err  |-> "" or the name of the exception raised,             *)
(*            ok   |-> all output coordinates are small rationals,         *)
(*            pts  |-> output points << <<n,d>>, <<n,d>> >>,               *)
(*            edges|-> output edges [s, e, tags] (1-based),                *)
(*            map  |-> 1-based input segment of every output edge]         *)
(* All points are multiplied by L = lcm of the output denominators, then   *)
(* the clauses of SegSplit.tla are evaluated on integers.  A case whose    *)
(* scaled coordinates would leave the 32-bit-safe range is reported as     *)
(* "unfit" (counted as inconclusive by the driver, never a verdict).       *)
(* InBox (output points inside the bounding box of the input) is part of   *)
(* InsideParent; it is evaluated on the rationals so that a wild output    *)
(* point is a violation and not an overflow.                               *)
(***************************************************************************)
EXTENDS Judge, SegSplit

Good == C.out.err = "" /\ C.out.ok
\* incremental, bounded: stop growing once the bound is exceeded (avoids overflow inside the lcm itself)
RECURSIVE LcmB(_, _)
LcmB(s, acc) == IF s = <<>> \/ acc > 100000 THEN acc
                ELSE LcmB(Tail(s), (Head(s) \div GCD(Head(s), acc)) * acc)
Dens == [k \in 1..(2 * Len(C.out.pts)) |-> C.out.pts[(k + 1) \div 2][2 - (k % 2)][2]]
L == LcmB(Dens, 1)
MaxIn == LET S == {C.in.pts[k][i] : k \in 1..Len(C.in.pts), i \in 1..2} IN CHOOSE m \in S : \A x \in S : x <= m
MinIn == LET S == {C.in.pts[k][i] : k \in 1..Len(C.in.pts), i \in 1..2} IN CHOOSE m \in S : \A x \in S : m <= x
InBox == \A k \in 1..Len(C.out.pts) : \A i \in 1..2 :
           LET r == C.out.pts[k][i] IN MinIn * r[2] <= r[1] /\ r[1] <= MaxIn * r[2]
\* scaled integer points, given the common denominator l (computed once per clause in a LET: TLC caches
\* LET-bound values but re-evaluates top-level definitions at every reference)
IPs(l) == [k \in 1..Len(C.in.pts) |-> <<l * C.in.pts[k][1], l * C.in.pts[k][2]>>]
OPs(l) == [k \in 1..Len(C.out.pts) |-> <<C.out.pts[k][1][1] * (l \div C.out.pts[k][1][2]),
                                         C.out.pts[k][2][1] * (l \div C.out.pts[k][2][2])>>]
IS == C.in.segs
OE == C.out.edges
M  == C.out.map
Fit(l) == MinIn >= 0 /\ l * Max2(MaxIn, 1) <= 20000

Unfit == (~Judging) \/ ~Good \/ Fit(L) \/ PrintT(ToJson([case |-> ci, tag |-> "unfit", val |-> L]))

Returns      == Check("Returns", C.out.err = "")
Exact        == Check("Exact", C.out.err = "" => C.out.ok)
\* P(ip, op, str, inbox) is evaluated only on cases that returned exact rationals that fit
Judged(P(_, _, _, _)) ==
  (~Judging) \/ ~Good \/
  LET l == L IN
    ~Fit(l) \/ LET ip == IPs(l)  op == OPs(l)
                   str == Structure(ip, IS, op, OE, M)
               IN P(ip, op, str, InBox)
StructureOK    == Check("Structure",    Judged(LAMBDA ip, op, str, box : str))
NonCrossingOK  == Check("NonCrossing",  Judged(LAMBDA ip, op, str, box : (str /\ box) => NonCrossing(op, OE)))
InsideParentOK == Check("InsideParent", Judged(LAMBDA ip, op, str, box : box /\ (str => InsideParent(ip, IS, op, OE, M))))
TagsOK         == Check("Tags",         Judged(LAMBDA ip, op, str, box : str => Tags(IS, OE, M)))
CoversOK       == Check("Covers",       Judged(LAMBDA ip, op, str, box : (str /\ box) => Covers(ip, IS, op, OE)))
NoDuplicatesOK == Check("NoDuplicates", Judged(LAMBDA ip, op, str, box : (str /\ box) => NoDuplicates(op, OE)))
=============================================================================
