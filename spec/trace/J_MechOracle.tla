---------------------------- MODULE J_MechOracle ----------------------------
(***************************************************************************)
(* Verdicts for C13 (MPSA), C15 (Biot coupling terms), C16 (TPSA): TLC     *)
(* judges what the real discretisations returned against the exact oracle  *)
(* MechOracle.  A case is ONE GRID with the discretisations made on it:    *)
(*   [g |-> grid (GridGeom format), subs |-> << sub-case, ... >>]          *)
(* so that the exact geometry E = Exact(g) and the per-face integer tables *)
(* are evaluated once per grid.  One invariant per property; every clause  *)
(* of every sub-case prints its own verdict record [case, sub, clause].    *)
(*                                                                         *)
(* Numbers: a recorded vector field comes twice - xq: per face / cell a    *)
(* 3-vector of rationals <<n, d>> (d = 0: the double is not within 1e-9 of *)
(* a rational with denominator <= 10^4; third component <<0, 1>> in 2D)    *)
(* and xm: per face / cell the nd components in units of 10^-6.  A clause  *)
(* HOLDS when xq equals the oracle's table on the faces concerned          *)
(* (structural equality of normalised rationals), is VIOLATED when some    *)
(* value is Far from the exact rational (MechOracle!Far) or the code       *)
(* raised, and is INCONCLUSIVE (Tell, never an alarm) in between.          *)
(*                                                                         *)
(* C13 sub-case [mu, lam, neu, error, fields: <<[G, u0, ucq, bcq, tq, tm,  *)
(*               uq, um]>>]                                                *)
(*   neu = Neumann boundary faces (1-based), every other boundary face is  *)
(*   Dirichlet;  t = stress u_cells + bound_stress bc,                     *)
(*   u = bound_displacement_cell u_cells + bound_displacement_face bc for  *)
(*   the field u0 + G x;  ucq, bcq = the data handed to the code.          *)
(*   TractionExact          t[f] = ExactTraction(f) on every non-Neumann   *)
(*                          face, for every field                          *)
(*   TranslationGivesZero   G = 0  =>  t[f] = 0 on every face              *)
(*   BoundDisplacementExact u[f] = u(x_f) on every Dirichlet face          *)
(*   family: ValidE(g), Admissible(neu), fields fit the dimension; the     *)
(*   grid may mix face types (prisms: faces with 3 and with 4 nodes) - the *)
(*   oracle only uses the exact normal / centroid of each planar polygon   *)
(* C15 sub-case [mu, lam, alpha, p, error, gq, gm, fields: <<[G, u0, ucq,  *)
(*               bcq, dq, dm]>>]     all boundary faces Dirichlet          *)
(*   DivUExact   (displacement_divergence u_cells +                        *)
(*                boundary_displacement_divergence bc)[c] = (alpha:G)|c|   *)
(*   GradPExact  (scalar_gradient p)[f] = -p alpha n_f                     *)
(* C16 sub-case [mu, lam, neu, nc, t, error, bcq, sq, sm, regular, solerr,  *)
(*               uq, um, rq, rm]   neu = fully Neumann faces, nc = further *)
(*   Neumann components <<f, k>> (component-wise mixes, e.g. rolling);     *)
(*   boundary data: u_k = t_k in Dirichlet components, zero traction in    *)
(*   Neumann components; at least one face Dirichlet in every component    *)
(*   ZeroStress  (stress u_t + bound_stress bc_t)[f] = 0 on every face     *)
(*   SolveReturnsTranslation   the solution of the assembled system is     *)
(*               u = t in every cell, rotation = 0, solid pressure = 0     *)
(*               (a mixed case whose system the harness found numerically  *)
(*               singular - regular = FALSE - is outside the family: the   *)
(*               solution is not unique; all-Dirichlet systems must be     *)
(*               regular)                                                  *)
(* The model laws on the judged grid (equilibrium of the exact tractions   *)
(* per cell, rigid motions give zero, closed pressure force), the shape of *)
(* a case and "the data handed to the code are the oracle's" are Asserts:  *)
(* machinery, not verdicts.                                                *)
(***************************************************************************)
EXTENDS Judge, MechOracle

(***************************************************************************)
(* Reading the cases.  Judge!Cases = JsonDeserialize(IOEnv.VERIF_CASES) is *)
(* not cached by TLC (IOEnv is not constant-level): every state evaluates  *)
(* it again, i.e. parses the WHOLE batch again - quadratic, and far too    *)
(* slow for cases that carry thousands of numbers.  So the harness writes  *)
(* one file <CaseDir>/<i>.json per case and the spec below (MSpec: the     *)
(* Judge idiom with blk / ci of module Judge, NumCases a plain constant)   *)
(* makes TLC read exactly the file of the case it judges, once (each       *)
(* invariant binds it with LET X == Case).                                 *)
(***************************************************************************)
CONSTANTS CaseDir,    \* directory holding 1.json .. NumCases.json
          NumCases
MBlocks == 16
Case == JsonDeserialize(CaseDir \o "/" \o ToString(ci) \o ".json")
MInit == blk \in 0..(MBlocks - 1) /\ ci = 0
MNext == /\ ci = 0
         /\ ci' \in {i \in 1..NumCases : i % MBlocks = blk}
         /\ blk' = blk
MSpec == MInit /\ [][MNext]_jvars

SetOf(s) == {s[i] : i \in 1..Len(s)}
QShape(q, n) == Len(q) = n /\ \A i \in 1..n : Len(q[i]) = 3 /\ \A k \in 1..3 : Len(q[i][k]) = 2
MShape(m, n, nd) == Len(m) = n /\ \A i \in 1..n : Len(m[i]) = nd
ZeroTable(n) == [i \in 1..n |-> RVZero]

FailS(j, clause) == PrintT(ToJson([case |-> ci, sub |-> j, clause |-> clause]))
TellS(j, tag, v) == PrintT(ToJson([case |-> ci, sub |-> j, tag |-> tag, val |-> v]))
\* three-valued verdict of a clause (on conforming code only allpass is evaluated)
Verdict(j, clause, allpass, anyfar) ==
  IF allpass THEN TRUE ELSE IF anyfar THEN FailS(j, clause) ELSE TellS(j, "inconclusive", clause)

\* ---- C13 -------------------------------------------------------------------------------------------------
JudgeC13 ==
  (~Judging) \/
  LET X == Case
      Gr == X.g
      NC == NCells(Gr)
      NF == NFaces(Gr)
      ND == Gr.dim
      E == Exact(Gr)
      valid == ND \in {2, 3} /\ ValidE(Gr, E)
      bfaces == BoundaryFaces(Gr, E)
      Wn == TLCEval(OverAll(E.fn))
      Wf == TLCEval(OverAll(E.fc))
      Wc == TLCEval(OverAll(E.cc))
      \* outward sign of a boundary face
      out(f) == SignIn(Gr, CHOOSE c \in E.f2c[f] : TRUE, f)
      Sub(j) ==
        LET S == X.subs[j]
            Neu == SetOf(S.neu)
            F == S.fields
            K == 1..Len(F)
            ok == S.error = ""
            shape == (~ok) \/ \A k \in K : /\ QShape(F[k].tq, NF) /\ QShape(F[k].uq, NF) /\ QShape(F[k].bcq, NF)
                                           /\ QShape(F[k].ucq, NC) /\ MShape(F[k].tm, NF, ND) /\ MShape(F[k].um, NF, ND)
            infam == Admissible(Gr, E, Neu) /\ \A k \in K : FieldFits(Gr, F[k].G)
            nonneu == (1..NF) \ Neu
            dir == bfaces \ Neu
            trans == {k \in K : IsTranslation(F[k].G)}
            \* the oracle's tables, evaluated once per sub-case
            T == TLCEval([k \in K |-> TractionTable(Wn, S.mu, S.lam, F[k].G)])
            U == TLCEval([k \in K |-> DispTable(Wf, F[k].G, F[k].u0)])
            laws == \A k \in K : /\ CellSumsZero(Gr, T[k])
                                 /\ IsSkew(F[k].G) => T[k] = ZeroTable(NF)
            \* the data handed to the code: u(x_c) in the cells, u(x_f) on Dirichlet faces, the exact traction w.r.t.
            \* the outward normal on Neumann faces, zero on interior faces
            inputs == \A k \in K :
                        /\ F[k].ucq = DispTable(Wc, F[k].G, F[k].u0)
                        /\ F[k].bcq = [f \in 1..NF |-> IF f \in dir THEN U[k][f]
                                                       ELSE IF f \in Neu THEN RVSgn(out(f), T[k][f]) ELSE RVZero]
        IN
          /\ Assert(shape, <<"malformed case", ci, j>>)
          /\ IF ~infam THEN TellS(j, "outside", 1)
             ELSE
              /\ Assert(laws, <<"oracle law broken", ci, j>>)
              /\ Assert(ok => inputs, <<"input data differ from the oracle's", ci, j>>)
              /\ Verdict(j, "TractionExact",
                         ok /\ \A k \in K : MaskEq(T[k], F[k].tq, nonneu),
                         (~ok) \/ \E k \in K : AnyFar(T[k], F[k].tm, nonneu, ND))
              /\ Verdict(j, "TranslationGivesZero",
                         ok /\ \A k \in trans : F[k].tq = ZeroTable(NF),
                         (~ok) \/ \E k \in trans : AnyFar(ZeroTable(NF), F[k].tm, 1..NF, ND))
              /\ Verdict(j, "BoundDisplacementExact",
                         ok /\ \A k \in K : MaskEq(U[k], F[k].uq, dir),
                         (~ok) \/ \E k \in K : AnyFar(U[k], F[k].um, dir, ND))
  IN IF ~valid THEN Tell("outside", 0) ELSE \A j \in 1..Len(X.subs) : Sub(j)

\* ---- C15 -------------------------------------------------------------------------------------------------
JudgeC15 ==
  (~Judging) \/
  LET X == Case
      Gr == X.g
      NC == NCells(Gr)
      NF == NFaces(Gr)
      ND == Gr.dim
      E == Exact(Gr)
      valid == ND \in {2, 3} /\ ValidE(Gr, E)
      bfaces == BoundaryFaces(Gr, E)
      Wn == TLCEval(OverAll(E.fn))
      Wf == TLCEval(OverAll(E.fc))
      Wc == TLCEval(OverAll(E.cc))
      Sub(j) ==
        LET S == X.subs[j]
            F == S.fields
            K == 1..Len(F)
            ok == S.error = ""
            shape == (~ok) \/ (/\ QShape(S.gq, NF) /\ MShape(S.gm, NF, ND)
                               /\ \A k \in K : /\ Len(F[k].dq) = NC /\ Len(F[k].dm) = NC
                                               /\ QShape(F[k].ucq, NC) /\ QShape(F[k].bcq, NF))
            infam == \A k \in K : FieldFits(Gr, F[k].G)
            A == InPlane(S.alpha, ND)
            GP == TLCEval(GradPTable(Wn, A, S.p))
            D == TLCEval([k \in K |-> DivUTable(E, A, F[k].G)])
            laws == CellSumsZero(Gr, GP)
            inputs == \A k \in K :
                        /\ F[k].ucq = DispTable(Wc, F[k].G, F[k].u0)
                        /\ LET U == DispTable(Wf, F[k].G, F[k].u0)
                           IN F[k].bcq = [f \in 1..NF |-> IF f \in bfaces THEN U[f] ELSE RVZero]
        IN
          /\ Assert(shape, <<"malformed case", ci, j>>)
          /\ IF ~infam THEN TellS(j, "outside", 1)
             ELSE
              /\ Assert(laws, <<"oracle law broken", ci, j>>)
              /\ Assert(ok => inputs, <<"input data differ from the oracle's", ci, j>>)
              /\ Verdict(j, "DivUExact",
                         ok /\ \A k \in K : F[k].dq = D[k],
                         (~ok) \/ \E k \in K, c \in 1..NC : Far(F[k].dm[c], D[k][c]))
              /\ Verdict(j, "GradPExact",
                         ok /\ S.gq = GP,
                         (~ok) \/ AnyFar(GP, S.gm, 1..NF, ND))
  IN IF ~valid THEN Tell("outside", 0) ELSE \A j \in 1..Len(X.subs) : Sub(j)

\* ---- C16 -------------------------------------------------------------------------------------------------
JudgeC16 ==
  (~Judging) \/
  LET X == Case
      Gr == X.g
      NC == NCells(Gr)
      NF == NFaces(Gr)
      ND == Gr.dim
      B == Basic(Gr)
      valid == ND \in {2, 3} /\ ValidE(Gr, B)
      bfaces == BoundaryFaces(Gr, B)
      Sub(j) ==
        LET S == X.subs[j]
            Neu == SetOf(S.neu)
            ok == S.error = ""
            sok == ok /\ S.solerr = ""
            shape == (~ok) \/ (/\ QShape(S.sq, NF) /\ MShape(S.sm, NF, ND) /\ QShape(S.bcq, NF)
                               /\ (~sok) \/ (QShape(S.uq, NC) /\ MShape(S.um, NC, ND) /\ Len(S.rq) = Len(S.rm)))
            NeuC == SetOf(S.nc)     \* further Neumann components <<f, k>> (component-wise mixes)
            infam == CompAdmissible(Gr, bfaces, Neu, NeuC) /\ S.mu > 0 /\ S.lam > 0
            mixed == Neu # {} \/ NeuC # {}
            tt == <<R(S.t[1]), R(S.t[2]), R(IF ND = 3 THEN S.t[3] ELSE 0)>>
            NR == Len(S.rq)
            \* boundary data consistent with the translation: u_k = t_k in every Dirichlet component, zero traction in
            \* every Neumann component
            isdir(f, k) == f \in bfaces /\ f \notin Neu /\ <<f, k>> \notin NeuC
            inputs == S.bcq = [f \in 1..NF |-> [k \in 1..3 |-> IF k <= ND /\ isdir(f, k) THEN tt[k] ELSE RZero]]
        IN
          /\ Assert(shape, <<"malformed case", ci, j>>)
          /\ IF ~infam THEN TellS(j, "outside", 1)
             ELSE
              /\ Assert(ok => inputs, <<"input data differ from the oracle's", ci, j>>)
              /\ Verdict(j, "ZeroStress",
                         ok /\ S.sq = ZeroTable(NF),
                         (~ok) \/ AnyFar(ZeroTable(NF), S.sm, 1..NF, ND))
              /\ IF ok /\ mixed /\ ~S.regular THEN TellS(j, "outside", 2)
                 ELSE Verdict(j, "SolveReturnsTranslation",
                              sok /\ S.uq = [c \in 1..NC |-> tt] /\ S.rq = [i \in 1..NR |-> RZero],
                              (~sok) \/ AnyFar([c \in 1..NC |-> tt], S.um, 1..NC, ND)
                                     \/ \E i \in 1..NR : Far(S.rm[i], RZero))
  IN IF ~valid THEN Tell("outside", 0) ELSE \A j \in 1..Len(X.subs) : Sub(j)
=============================================================================
