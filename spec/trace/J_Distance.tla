----------------------------- MODULE J_Distance -----------------------------
(***************************************************************************)
(* C30 judge: every recorded CALL  C = [fn, in, ok, out]  of a porepy      *)
(* distance function is compared with the exact reference of Distance.tla. *)
(*   out.d2   squared distances as normalised rationals <<n, d>> (the       *)
(*            harness squares the returned distance and converts it with   *)
(*            codec.rat: within 1e-9 of a rational of small denominator,   *)
(*            else out.x = FALSE and the *Dist clause fails)               *)
(*   out.cp   returned closest points as integer vector n over a common    *)
(*            denominator m (out.cpx = FALSE if no small denominator       *)
(*            exists: the *Closest clauses are then not evaluated and the  *)
(*            harness counts the call as inconclusive)                     *)
(* Clauses  *Dist:    returned distance = true Euclidean distance          *)
(*          *Closest: returned closest points lie on the respective        *)
(*                    objects and are at that distance                     *)
(* Family guards: segments with distinct end points, planar polygons.      *)
(***************************************************************************)
EXTENDS Judge, Distance

Is(f) == Judging /\ C.fn = f
I == C.in
O == C.out
Idx(s) == 1..Len(s)
SegOK(ab) == ab[1] # ab[2]
D2S(p, m, q) == RNorm(VDot(VSub(VScale(m, p), q), VSub(VScale(m, p), q)), m * m)   \* |p - q/m|^2

PointPointDist == Check("PointPointDist",
  Is("point_pointset") => C.ok /\ O.x /\ \A i \in Idx(I.pts) : O.d2[i] = PtPtD2(I.p, I.pts[i]))
PointSetDist == Check("PointSetDist",
  Is("pointset") => C.ok /\ O.x /\ \A i \in Idx(I.pts) : \A j \in Idx(I.pts) : O.d2[i][j] = PtPtD2(I.pts[i], I.pts[j]))

PointSegDist == Check("PointSegDist",
  Is("points_segments") /\ (\A j \in Idx(I.segs) : SegOK(I.segs[j])) =>
     C.ok /\ O.x /\ \A i \in Idx(I.pts) : \A j \in Idx(I.segs) : O.d2[i][j] = PtSegD2(I.pts[i], I.segs[j][1], I.segs[j][2]))
PointSegClosest == Check("PointSegClosest",
  Is("points_segments") /\ (\A j \in Idx(I.segs) : SegOK(I.segs[j])) /\ C.ok /\ O.cpx =>
     \A i \in Idx(I.pts) : \A j \in Idx(I.segs) :
        LET cp == O.cp[i][j]  a == I.segs[j][1]  b == I.segs[j][2]
        IN OnSegS(cp.n, cp.m, a, b) /\ D2S(I.pts[i], cp.m, cp.n) = PtSegD2(I.pts[i], a, b))

SegSegDist == Check("SegSegDist",
  Is("segment_segment_set") /\ I.a # I.b /\ (\A j \in Idx(I.segs) : SegOK(I.segs[j])) =>
     C.ok /\ O.x /\ \A j \in Idx(I.segs) : O.d2[j] = SegSegD2(I.a, I.b, I.segs[j][1], I.segs[j][2]))
SegSegClosest == Check("SegSegClosest",
  Is("segment_segment_set") /\ I.a # I.b /\ (\A j \in Idx(I.segs) : SegOK(I.segs[j])) /\ C.ok /\ O.cpx =>
     \A j \in Idx(I.segs) :
        LET cp == O.cp[j]  c == I.segs[j][1]  d == I.segs[j][2]
        IN /\ OnSegS(cp.n1, cp.m, I.a, I.b) /\ OnSegS(cp.n2, cp.m, c, d)
           /\ RNorm(VDot(VSub(cp.n1, cp.n2), VSub(cp.n1, cp.n2)), cp.m * cp.m) = SegSegD2(I.a, I.b, c, d))
\* segment_set: matrix of mutual distances of a set of segments
SegmentSetDist == Check("SegmentSetDist",
  Is("segment_set") /\ (\A j \in Idx(I.segs) : SegOK(I.segs[j])) =>
     C.ok /\ O.x /\ \A i \in Idx(I.segs) : \A j \in Idx(I.segs) :
        O.d2[i][j] = IF i = j THEN RZero ELSE SegSegD2(I.segs[i][1], I.segs[i][2], I.segs[j][1], I.segs[j][2]))

PointPolyDist == Check("PointPolyDist",
  Is("points_polygon") /\ PlanarPoly(I.poly) => C.ok /\ O.x /\ \A i \in Idx(I.pts) : O.d2[i] = PtPolyD2(I.poly, I.pts[i]))
PointPolyClosest == Check("PointPolyClosest",
  Is("points_polygon") /\ PlanarPoly(I.poly) /\ C.ok /\ O.cpx =>
     \A i \in Idx(I.pts) : LET cp == O.cp[i]
                           IN InPolyS(I.poly, cp.n, cp.m) /\ D2S(I.pts[i], cp.m, cp.n) = PtPolyD2(I.poly, I.pts[i]))

SegPolyDist == Check("SegPolyDist",
  Is("segments_polygon") /\ PlanarPoly(I.poly) /\ (\A j \in Idx(I.segs) : SegOK(I.segs[j])) =>
     C.ok /\ O.x /\ \A j \in Idx(I.segs) : O.d2[j] = SegPolyD2(I.poly, I.segs[j][1], I.segs[j][2]))
\* the single returned point must lie on one of the two objects and be at the reference distance from the other
ValidSegPolyPoint(poly, s, e, cp) ==
  LET ref == SegPolyD2(poly, s, e)
  IN \/ OnSegS(cp.n, cp.m, s, e) /\ AtDistFromPoly(poly, cp.n, cp.m, ref)
     \/ InPolyS(poly, cp.n, cp.m) /\ PtSegD2S(cp.n, cp.m, s, e) = ref
\* class split: segment in the plane of the polygon that starts outside the closed polygon and ends strictly inside
Entering(poly, s, e) == SegInPlane(poly, s, e) /\ ~InPolyS(poly, s, 1) /\ StrictlyIn(poly, e)
SegPolyClosest == Check("SegPolyClosest",
  Is("segments_polygon") /\ PlanarPoly(I.poly) /\ (\A j \in Idx(I.segs) : SegOK(I.segs[j])) /\ C.ok /\ O.cpx =>
     \A j \in Idx(I.segs) : ~Entering(I.poly, I.segs[j][1], I.segs[j][2]) =>
        ValidSegPolyPoint(I.poly, I.segs[j][1], I.segs[j][2], O.cp[j]))
SegPolyClosestEntering == Check("SegPolyClosestEntering",
  Is("segments_polygon") /\ PlanarPoly(I.poly) /\ (\A j \in Idx(I.segs) : SegOK(I.segs[j])) /\ C.ok /\ O.cpx =>
     \A j \in Idx(I.segs) : Entering(I.poly, I.segs[j][1], I.segs[j][2]) =>
        ValidSegPolyPoint(I.poly, I.segs[j][1], I.segs[j][2], O.cp[j]))
=============================================================================
