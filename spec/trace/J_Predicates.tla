---------------------------- MODULE J_Predicates ----------------------------
(***************************************************************************)
(* C31 judge: every recorded call  C = [fn, in, ok, out]  of a real porepy *)
(* predicate / sorting helper is compared with the exact reference of      *)
(* Predicates.tla.  ok = FALSE means the real function raised.  One        *)
(* invariant per property clause; each is guarded by the input family of   *)
(* the property (integer coordinates, points OFF the boundary = outside    *)
(* the tolerance band, non-degenerate point sets, manifold triangulations).*)
(* Coordinates are integers; a half-lattice case has all its coordinates   *)
(* doubled by the harness (in.den = 2), which does not change any sign.    *)
(* Clauses (predicates = same answer as exact arithmetic):                 *)
(*   CcwPolygon CcwPolyline PolygonAgree CellAgree PolyhedronAgree         *)
(*   PolyhedronAgreeSupportPlane (same demand, for points lying in the     *)
(*   supporting plane of a face but off the surface: a separately named    *)
(*   class) HalfSpaceAgree PlanarAgree PlanarNormalAgree CollinearAgree    *)
(* Clauses (orderings = returned chain / order is valid for the input):    *)
(*   PairSortValid MultiPairSortValid LineSortValid PlaneSortValid         *)
(*   TriSortValid                                                          *)
(***************************************************************************)
EXTENDS Judge, Predicates

Is(f) == Judging /\ C.fn = f
I == C.in

\* ---- predicates ----
CcwPolygon == Check("CcwPolygon",
  Is("is_ccw_polygon") /\ Area2(I.poly) # 0 => C.ok /\ C.out = IsCcwPolygon(I.poly))
CcwPolyline == Check("CcwPolyline",
  Is("is_ccw_polyline") /\ ~OnLine2(I.p1, I.p2, I.p) => C.ok /\ C.out = Left(I.p1, I.p2, I.p))
PolygonAgree == Check("PolygonAgree",
  Is("point_in_polygon") /\ SimplePoly(I.poly) /\ ~OnBoundary2(I.poly, I.p) => C.ok /\ C.out = InPolygon(I.poly, I.p))
\* point_in_cell: the polygon is embedded in the plane z = 0 (with / without the code's own projection)
CellAgree == Check("CellAgree",
  Is("point_in_cell") /\ SimplePoly(I.poly) /\ ~OnBoundary2(I.poly, I.p) => C.ok /\ C.out = InPolygon(I.poly, I.p))
\* point_in_polyhedron, split by whether the point lies in the supporting plane of a face (off the surface)
PolyhedronAgree == Check("PolyhedronAgree",
  Is("point_in_polyhedron") /\ ~OnSurface(I.faces, I.p) /\ ~OnSupportPlane(I.faces, I.p)
     => C.ok /\ C.out = InPolyhedron(I.faces, I.p))
PolyhedronAgreeSupportPlane == Check("PolyhedronAgreeSupportPlane",
  Is("point_in_polyhedron") /\ ~OnSurface(I.faces, I.p) /\ OnSupportPlane(I.faces, I.p)
     => C.ok /\ C.out = InPolyhedron(I.faces, I.p))
HalfSpaceAgree == Check("HalfSpaceAgree",
  Is("half_space") /\ ~HsBand(I.n, I.x0, I.p) => C.ok /\ C.out = HsIn(I.n, I.x0, I.p))
PlanarAgree == Check("PlanarAgree",
  Is("points_are_planar") /\ ~Collinear(I.pts) => C.ok /\ C.out = Planar(I.pts))
PlanarNormalAgree == Check("PlanarNormalAgree",
  Is("points_are_planar_normal") /\ ~Zero3(I.normal) => C.ok /\ C.out = PlanarN(I.pts, I.normal))
\* points_are_collinear: any point multiset (the first two points may coincide)
CollinearAgree == Check("CollinearAgree",
  Is("points_are_collinear") => C.ok /\ C.out = Collinear(I.pts))

\* ---- orderings ----
\* input family of the pair sorters: the columns form one closed cycle / one open path
Deg(lines, v) == Cardinality({i \in 1..Len(lines) : lines[i][1] = v}) + Cardinality({i \in 1..Len(lines) : lines[i][2] = v})
Verts(lines) == UNION {{lines[i][1], lines[i][2]} : i \in 1..Len(lines)}
RECURSIVE Reach(_, _)
Reach(lines, S) == LET T == S \cup UNION {{lines[i][1], lines[i][2]} : i \in {k \in 1..Len(lines) : lines[k][1] \in S \/ lines[k][2] \in S}}
                   IN IF T = S THEN S ELSE Reach(lines, T)
Connected(lines) == Reach(lines, {lines[1][1]}) = Verts(lines)
NoLoops(lines) == \A i \in 1..Len(lines) : lines[i][1] # lines[i][2]
IsCycle(lines) == NoLoops(lines) /\ Connected(lines) /\ \A v \in Verts(lines) : Deg(lines, v) = 2
IsPath(lines) == /\ NoLoops(lines) /\ Connected(lines) /\ \A v \in Verts(lines) : Deg(lines, v) \in {1, 2}
                 /\ Cardinality({v \in Verts(lines) : Deg(lines, v) = 1}) = 2
PairSortValid == Check("PairSortValid",
  Is("sort_point_pairs") /\ (IF I.circular THEN IsCycle(I.lines) ELSE IsPath(I.lines))
     => C.ok /\ ValidPairSort(I.lines, I.circular, C.out.cols, C.out.ind))
MultiPairSortValid == Check("MultiPairSortValid",
  Is("sort_multiple_point_pairs") /\ (\A c \in 1..Len(I.chains) : IsCycle(I.chains[c]) /\ Len(I.chains[c]) = Len(I.chains[1]))
     => C.ok /\ ValidMultiPairSort(I.chains, C.out))
LineSortValid == Check("LineSortValid",
  Is("sort_points_on_line") /\ Collinear(I.pts) /\ Distinct(I.pts) /\ Len(I.pts) >= 2 => C.ok /\ ValidLineSort(I.pts, C.out))
InPlane(pts, c, nrm) == ~Zero3(nrm) /\ \A i \in 1..Len(pts) : Dot3(nrm, Sub3(pts[i], c)) = 0
PlaneSortValid == Check("PlaneSortValid",
  Is("sort_point_plane") /\ InPlane(I.pts, I.centre, I.normal) /\ ~Collinear(I.pts \o <<I.centre>>)
                         /\ (\A i \in 1..Len(I.pts) : I.pts[i] # I.centre) /\ DistinctRays(I.normal, I.centre, I.pts)
     => C.ok /\ ValidPlaneSort(I.pts, I.centre, I.normal, C.out))
\* edge-connected triangulation (the algorithm walks over shared edges from the first triangle)
RECURSIVE TReach(_, _)
TReach(tris, S) == LET T == S \cup {j \in 1..Len(tris) : \E i \in S : UEdges(tris[i]) \cap UEdges(tris[j]) # {}}
                   IN IF T = S THEN S ELSE TReach(tris, T)
TriFamily(tris) == /\ \A i \in 1..Len(tris) : Cardinality(Range(tris[i])) = 3
                   /\ EdgeManifold(tris) /\ TReach(tris, {1}) = 1..Len(tris)
\* orientable: some choice of flips is valid (so that the demand is satisfiable)
FlipT(t, b) == IF b THEN <<t[1], t[3], t[2]>> ELSE t
Orientable(tris) == \E fl \in [1..Len(tris) -> BOOLEAN] : ValidTriSort(tris, [i \in 1..Len(tris) |-> FlipT(tris[i], fl[i])])
TriSortValid == Check("TriSortValid",
  Is("sort_triangle_edges") /\ TriFamily(I.tris) /\ Orientable(I.tris) => C.ok /\ ValidTriSort(I.tris, C.out))
=============================================================================
