--------------------------- MODULE J_BoundaryCond ---------------------------
(***************************************************************************)
(* Judge for C39: TLC judges the flag arrays recorded from real            *)
(* pp.BoundaryCondition / pp.BoundaryConditionVectorial objects after the  *)
(* programs enumerated by spec/sys/BoundaryCond.tla were executed on real  *)
(* grids.                                                                  *)
(* Case: [g    index into Grids,                                           *)
(*        vec  vectorial class?, prog  the program (abstract faces 1..4),  *)
(*        strcond  conditions passed as one string where a call allows it, *)
(*        raised  name of the exception ("" if none),                      *)
(*        out  <<codes of component 1, ...>>, codes = one flag code per     *)
(*             real face (BCFlags: dir 1 + neu 2 + rob 4)]                  *)
(* Grids[g] = [nf, dim, bnd (all boundary-like faces: domain boundary,      *)
(* fracture, tip), frac (fracture faces), chosen (real faces standing for   *)
(* the abstract faces 1..4, increasing)], faces 1-based.                    *)
(*                                                                         *)
(* Clauses of C39: NoError, Shape, ExactlyOneOnBoundary, NoneOnInterior,   *)
(* UnassignedNeumann - per component.  Mechanism (every flag equals what   *)
(* the Assign steps of BCFlags produce) is conformance, not property.      *)
(***************************************************************************)
EXTENDS Judge, BCFlags

CONSTANTS Grids, RobDirFix, I2DFix

G == Grids[C.g]
Ran == C.raised = ""
NC == IF C.vec THEN G.dim ELSE 1
ShapeOK == Len(C.out) = NC /\ \A k \in 1..Len(C.out) : Len(C.out[k]) = G.nf
Judged == Ran /\ ShapeOK
AllFaces == 1..G.nf
HasI2D == \E j \in 1..Len(C.prog) : C.prog[j].op = "i2d"
\* real faces some call names
Assigned == {G.chosen[a] : a \in ProgFaces(C.prog, {})} \cup (IF HasI2D THEN G.frac ELSE {})

NoError == Check("NoError", Ran)
Shape == Check("Shape", Ran => ShapeOK)
ExactlyOneOnBoundary ==
  Check("ExactlyOneOnBoundary", Judged => \A k \in 1..NC, f \in G.bnd : ExactlyOne(C.out[k][f]))
NoneOnInterior ==
  Check("NoneOnInterior", Judged => \A k \in 1..NC, f \in AllFaces \ G.bnd : NoFlag(C.out[k][f]))
UnassignedNeumann ==
  Check("UnassignedNeumann", Judged => \A k \in 1..NC, f \in G.bnd \ Assigned : C.out[k][f] = NEU)

\* conformance with the mechanism model
Abstract(f) == CHOOSE a \in 1..4 : G.chosen[a] = f
Expected(f) ==
  IF \E a \in 1..4 : G.chosen[a] = f
  THEN RunProg(DefaultCode(TRUE), C.prog, Abstract(f), f \in G.frac, RobDirFix, I2DFix)
  ELSE RunProg(DefaultCode(f \in G.bnd), C.prog, 0, f \in G.frac, RobDirFix, I2DFix)
Mechanism == Check("Mechanism", Judged => \A k \in 1..NC, f \in AllFaces : C.out[k][f] = Expected(f))
=============================================================================
