---------------------------- MODULE J_Saturation ----------------------------
(***************************************************************************)
(* C42 judge: TLC evaluates the property clauses on what the real code     *)
(* returned.  One case = one vectorised call of the real function (M       *)
(* columns) plus the M scalar (1-D) calls on the same columns:             *)
(*   sat:   in = [t, n, N, ks (M x n), rhos (M x n)]                       *)
(*          out = [vec (M x n rationals), sca (M x n rationals)]           *)
(*   chain: in = [t, n, N, e, ks (M x n), dfs (M x (e+n))], out likewise   *)
(*   norm:  in = [t, n, rows (M x n)], out = [vec (M x n)]                 *)
(* A rational <<p, q>> with q = 0 marks a double that is not within 1e-9   *)
(* of any rational with denominator <= MaxDen (so it cannot be the         *)
(* reference value, LawDen).  A failing clause prints the set of failing   *)
(* <<path, column>> pairs.                                                 *)
(*                                                                         *)
(* Clauses (property text in quotes):                                      *)
(*  SatClosedForm  s = closed form (the unique solution of the phase mass  *)
(*                 conservation equations)                                 *)
(*  SatNonNeg      "computed saturations are non-negative"                 *)
(*  SatSumOne      "sum to one"                                            *)
(*  SatReproduce   "reproduce the phase fractions as density-weighted      *)
(*                 saturation ratios"                                      *)
(*  ChainRule      "the chain rule for normalized fractions equals the     *)
(*                 derivative of the composed function"                    *)
(*  NormRowSum     "row normalization yields rows summing to one"          *)
(*  NormRatio      ... and every entry is the input entry over the row sum *)
(* The three saturation laws are evaluated exactly on outputs that lie on  *)
(* the lattice of the reference denominators (OnLattice); an output off    *)
(* that lattice is already reported by SatClosedForm.                      *)
(***************************************************************************)
EXTENDS Judge, Saturation

Report(clause, bad) == bad = {} \/ PrintT(ToJson([case |-> ci, clause |-> clause, bad |-> bad]))
CheckAll(clause, S, Ok(_)) == (~Judging) \/ Report(clause, {x \in S : ~Ok(x)})

IsSat == Judging /\ C.in.t = "sat"
IsChain == Judging /\ C.in.t = "chain"
IsNorm == Judging /\ C.in.t = "norm"
M == IF IsNorm THEN Len(C.in.rows) ELSE Len(C.in.ks)
Paths == IF IsNorm THEN {"vec"} ELSE {"vec", "sca"}
Cols == {<<p, c>> : p \in Paths, c \in 1..M}
Out(x) == C.out[x[1]][x[2]]
Valid(v) == v[2] > 0
AllValid(s) == \A j \in 1..Len(s) : Valid(s[j])
VecEq(s, ref) == Len(s) = Len(ref) /\ \A j \in 1..Len(s) : Valid(s[j]) /\ REq(s[j], ref[j])

K(x) == C.in.ks[x[2]]
Rho(x) == C.in.rhos[x[2]]
OnLattice(x) == AllValid(Out(x)) /\ \A j \in 1..Len(Out(x)) : SatL(K(x), Rho(x)) % Out(x)[j][2] = 0

SatClosedForm == CheckAll("SatClosedForm", IF IsSat THEN Cols ELSE {},
                          LAMBDA x : VecEq(Out(x), SatRef(K(x), Rho(x))))
SatNonNeg     == CheckAll("SatNonNeg", IF IsSat THEN Cols ELSE {},
                          LAMBDA x : AllValid(Out(x)) => NonNeg(Out(x)))
SatSumOne     == CheckAll("SatSumOne", IF IsSat THEN Cols ELSE {},
                          LAMBDA x : OnLattice(x) => SumOne(Out(x)))
SatReproduce  == CheckAll("SatReproduce", IF IsSat THEN Cols ELSE {},
                          LAMBDA x : OnLattice(x) => Reproduce(Out(x), K(x), C.in.N, Rho(x)))
ChainRule     == CheckAll("ChainRule", IF IsChain THEN Cols ELSE {},
                          LAMBDA x : VecEq(Out(x), ChainRef(C.in.dfs[x[2]], K(x), C.in.N)))
NormRatio     == CheckAll("NormRatio", IF IsNorm THEN Cols ELSE {},
                          LAMBDA x : VecEq(Out(x), NormRef(C.in.rows[x[2]])))
NormRowSum    == CheckAll("NormRowSum", IF IsNorm THEN Cols ELSE {},
                          LAMBDA x : (AllValid(Out(x)) /\ \A j \in 1..Len(Out(x)) :
                                         SumSeq(C.in.rows[x[2]]) % Out(x)[j][2] = 0)
                                      => SumOne(Out(x)))
=============================================================================
