-------------------------- MODULE J_GridProjections --------------------------
(***************************************************************************)
(* C27 judge: TLC compares the matrices built by the real                  *)
(* pp.ad.SubdomainProjections / MortarProjections / BoundaryProjection     *)
(* with the reference index maps of spec/ref/GridProjections.tla and       *)
(* checks the laws of the property on the real matrices themselves.        *)
(*                                                                         *)
(* Case: in = [kind, m, nd, list, second] (as enumerated by                *)
(* GridProjectionsFamily; m indexes the constant MDGs), out = the real     *)
(* matrices as [shape |-> <<r, c>>, ent |-> sequence of <<r, c, n, d>>]    *)
(* (explicit zeros removed, duplicates summed, no entry listed twice).     *)
(*   kind "sub":    out.cp, out.cr, out.fp, out.fr (cell / face            *)
(*                  prolongation / restriction for the grids `second`)     *)
(*   kind "mortar": out.m2p_int .. out.s2m_avg, out.sign                   *)
(*   kind "bnd":    out.s2b, out.b2s                                       *)
(*                                                                         *)
(* Clauses of the property                                                 *)
(*   Constructs               the operators are built without an exception *)
(*   RestrictProlongIdentity  restriction o prolongation = identity (real  *)
(*                            matrices, cells and faces)                   *)
(*   FullListIsPermutation    with all listed grids the prolongation is a  *)
(*                            permutation matrix, and P o R = identity     *)
(*   ProlongationFollowsOrder prolongations = blocks at the offsets of the *)
(*                            list order (exact index map), restrictions   *)
(*                            their transposes                             *)
(*   MortarAtOffsets          each of the eight mortar projections = the   *)
(*                            per-interface projections at the matching    *)
(*                            offsets, zero blocks for absent neighbours   *)
(*   MortarSign               sign_of_mortar_sides = block diagonal        *)
(*   BoundaryAtOffsets        subdomain_to_boundary = boundary-grid        *)
(*                            projections at the face offsets;             *)
(*                            boundary_to_subdomain its transpose          *)
(*   BoundaryRoundTrip        s2b o b2s = identity (real matrices)         *)
(***************************************************************************)
EXTENDS Judge, GridProjections

CONSTANT MDGs

M0 == MDGs[C.in.m]
\* the real code built its matrices without raising (out.error = "")
Constructs == Check("Constructs", C.out.error = "")
K(k) == C.in.kind = k /\ C.out.error = ""
\* a recorded matrix as a reference-style matrix; WellFormed: no entry listed twice, indices inside the shape
R(x) == Mat(x.shape[1], x.shape[2], Range(x.ent))
WellFormed(x) == /\ Cardinality({<<e[1], e[2]>> : e \in Range(x.ent)}) = Len(x.ent)
                 /\ \A e \in Range(x.ent) : e[1] \in 0..(x.shape[1] - 1) /\ e[2] \in 0..(x.shape[2] - 1)
Same(x, ref) == WellFormed(x) /\ R(x) = ref

ProlongationFollowsOrder ==
  Check("ProlongationFollowsOrder",
        K("sub") => /\ Same(C.out.cp, Prol(M0, C.in.list, C.in.second, C.in.nd, "cells"))
                    /\ Same(C.out.fp, Prol(M0, C.in.list, C.in.second, C.in.nd, "faces"))
                    /\ Same(C.out.cr, Restr(M0, C.in.list, C.in.second, C.in.nd, "cells"))
                    /\ Same(C.out.fr, Restr(M0, C.in.list, C.in.second, C.in.nd, "faces")))

IdAfter(r, p) == /\ WellFormed(r) /\ WellFormed(p)
                 /\ UniqueContribution(R(r), R(p))
                 /\ Compose(R(r), R(p)) = Identity(p.shape[2])
RestrictProlongIdentity ==
  Check("RestrictProlongIdentity",
        K("sub") => IdAfter(C.out.cr, C.out.cp) /\ IdAfter(C.out.fr, C.out.fp))

FullListIsPermutation ==
  Check("FullListIsPermutation",
        (K("sub") /\ Len(C.in.second) = Len(C.in.list)) =>
          /\ IsPermutation(R(C.out.cp)) /\ IsPermutation(R(C.out.fp))
          /\ IdAfter(C.out.cp, C.out.cr) /\ IdAfter(C.out.fp, C.out.fr)
          /\ (C.in.second = Ident(Len(C.in.list)) =>
                R(C.out.cp) = Identity(C.out.cp.shape[1]) /\ R(C.out.fp) = Identity(C.out.fp.shape[1])))

MRef(w) == Mortar(M0, C.in.list, C.in.second, C.in.nd, w)
MortarAtOffsets ==
  Check("MortarAtOffsets",
        K("mortar") => /\ Same(C.out.m2p_int, MRef("m2p_int")) /\ Same(C.out.m2p_avg, MRef("m2p_avg"))
                       /\ Same(C.out.p2m_int, MRef("p2m_int")) /\ Same(C.out.p2m_avg, MRef("p2m_avg"))
                       /\ Same(C.out.m2s_int, MRef("m2s_int")) /\ Same(C.out.m2s_avg, MRef("m2s_avg"))
                       /\ Same(C.out.s2m_int, MRef("s2m_int")) /\ Same(C.out.s2m_avg, MRef("s2m_avg")))
MortarSign ==
  Check("MortarSign", K("mortar") => Same(C.out.sign, Sign(M0, C.in.second, C.in.nd)))

BoundaryAtOffsets ==
  Check("BoundaryAtOffsets",
        K("bnd") => /\ Same(C.out.s2b, Boundary(M0, C.in.list, C.in.nd))
                    /\ Same(C.out.b2s, Transpose(Boundary(M0, C.in.list, C.in.nd))))
BoundaryRoundTrip ==
  Check("BoundaryRoundTrip",
        K("bnd") => /\ WellFormed(C.out.s2b) /\ WellFormed(C.out.b2s)
                    /\ UniqueContribution(R(C.out.s2b), R(C.out.b2s))
                    /\ Compose(R(C.out.s2b), R(C.out.b2s)) = Identity(C.out.s2b.shape[1]))
=============================================================================
