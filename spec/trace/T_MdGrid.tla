------------------------------ MODULE T_MdGrid ------------------------------
(***************************************************************************)
(* Conformance for C24: every transition recorded from the real            *)
(* pp.MixedDimensionalGrid (harness/props/c24.py, path re-execution) must   *)
(* be a step of the matching action of sys/MdGrid.tla, and what the public  *)
(* API answered afterwards must be what the mechanism model answers         *)
(* (ObsOf of the primed dictionaries), field by field, including the        *)
(* outcome of the call.  The file named by VERIF_GRAPH holds a sequence of  *)
(* recorded graphs, each with its own pool and initial container.           *)
(* Every recorded edge that is a step of the specification is printed as    *)
(* <<graph, node, edge>>; edges never printed were rejected (DRIFT).  Nodes *)
(* are expanded once (view = <<graph, node>>).                              *)
(***************************************************************************)
EXTENDS MdGrid, Json, IOUtils

Graphs == JsonDeserialize(IOEnv.VERIF_GRAPH)

VARIABLES gi, node
tvars == <<mvars, gi, node>>
TView == <<gi, node>>

G == Graphs[gi]
P(n) == G.nodes[n]

SameObs(mo, o) ==
  /\ mo.sds = o.sds /\ mo.by_dim = o.by_dim /\ mo.sd_tag = o.sd_tag
  /\ mo.ifs = o.ifs /\ mo.if_by_dim = o.if_by_dim /\ mo.if_tag = o.if_tag
  /\ mo.pair = o.pair /\ mo.back = o.back /\ mo.back_rev = o.back_rev
  /\ mo.sd_ifs = o.sd_ifs /\ mo.neigh = o.neigh /\ mo.neigh_hi = o.neigh_hi /\ mo.neigh_lo = o.neigh_lo
  /\ mo.bnd_kind = o.bnd_kind /\ mo.bnd_parent = o.bnd_parent /\ mo.bnd_dim = o.bnd_dim
  /\ mo.bnd_rank = o.bnd_rank /\ mo.bnd_tag = o.bnd_tag
  /\ mo.sd_bg = o.sd_bg /\ mo.sd_bg_pos = o.sd_bg_pos /\ mo.absent_bg_none = o.absent_bg_none
  /\ mo.has_sd = o.has_sd /\ mo.has_if = o.has_if /\ mo.nsd = o.nsd /\ mo.nif = o.nif
  /\ (mo.errors = <<>>) = (o.errors = <<>>)

TInit == /\ gi \in 1..Len(Graphs) /\ node = 1
         /\ InitWith(G.pool, G.init.sds, G.init.ifs, G.init.bgs)

TNext ==
  \E i \in 1..Len(G.edges[node]) :
    LET e == G.edges[node][i] IN
      /\ e.fam
      /\ gi' = gi /\ node' = e.dst
      /\ CASE e.ev = "add" -> AddSubdomains(e.L)
           [] e.ev = "addintf" -> AddInterface(e.i, e.a, e.b)
           [] e.ev = "remove" -> RemoveSubdomain(e.s)
           [] e.ev = "replace" -> ReplaceSubdomains(e.map)
           [] e.ev = "replaceintf" -> ReplaceInterface(e.i)
      /\ last' = e.res
      /\ SameObs(ObsOf(pool', sdKeys', ifKeys', ifPair', bgOf', sdTag', ifTag', bgTag'), P(e.dst))
      /\ PrintT(ToJson(<<gi, node, i>>))

TSpec == TInit /\ [][TNext]_tvars
=============================================================================
