---------------------------- MODULE J_MortarMaps ----------------------------
(***************************************************************************)
(* Verdict for C26: TLC judges the projection matrices recorded from        *)
(* porepy.  A case is one interface in one recorded state:                  *)
(*   kind   "exact": entries are exact rationals <<n, d>> (1-d interfaces    *)
(*          on lattice fractures);  "fixed": entries are integers in units   *)
(*          of 1/Unit (2-d interfaces, gmsh geometry: sums are judged with   *)
(*          the rounding slack of their terms)                              *)
(*   p2mI, p2mA, s2mI, s2mA, m2pI, m2pA, m2sI, m2sA: the eight matrices,     *)
(*          per mortar side, restricted to the entities of that side         *)
(*   stray  some matrix has a non-zero entry outside these blocks            *)
(*   shape_ok  every matrix has the shape targets x sources                  *)
(*   err    the replacement raised (then nothing else is judged: Accepted)   *)
(* Clauses: Accepted, IntPreservesTotals, AvgPreservesConstants, Transposes  *)
(* (ref/MortarMapsRef.tla; the fixed-point versions below state the same      *)
(* laws on scaled integers).                                                 *)
(***************************************************************************)
EXTENDS Judge, MortarMapsRef

Unit == 10000000          \* fixed-point unit of "fixed" cases
Loose == 10               \* |sum - 1| <= (number of terms + Loose) / Unit passes  (about 1e-6)

ISum(s) == LET RECURSIVE F(_)
               F(k) == IF k = 0 THEN 0 ELSE s[k] + F(k - 1)
           IN F(Len(s))
Near(x, n) == Abs(x - Unit) <= n + Loose
FColsOne(A) == \A j \in 1..Len(A[1]) : Near(ISum([i \in 1..Len(A) |-> A[i][j]]), Len(A))
FRowsOne(A) == \A i \in 1..Len(A) : Near(ISum(A[i]), Len(A[i]))
FMatEq(A, B) == /\ Len(A) = Len(B)
                /\ \A i \in 1..Len(A) : Len(A[i]) = Len(B[i]) /\ \A j \in 1..Len(A[i]) : Abs(A[i][j] - B[i][j]) <= 1
FTr(A) == [j \in 1..Len(A[1]) |-> [i \in 1..Len(A) |-> A[i][j]]]

FInt(o) == /\ ~o.stray
           /\ \A s \in OSides(o) : FColsOne(o.p2mI[s]) /\ FColsOne(o.s2mI[s]) /\ FColsOne(o.m2pI[s]) /\ FColsOne(o.m2sI[s])
FAvg(o) == \A s \in OSides(o) : FRowsOne(o.p2mA[s]) /\ FRowsOne(o.s2mA[s]) /\ FRowsOne(o.m2pA[s]) /\ FRowsOne(o.m2sA[s])
FTrans(o) == \A s \in OSides(o) : /\ FMatEq(o.m2pI[s], FTr(o.p2mA[s])) /\ FMatEq(o.m2pA[s], FTr(o.p2mI[s]))
                                  /\ FMatEq(o.m2sI[s], FTr(o.s2mA[s])) /\ FMatEq(o.m2sA[s], FTr(o.s2mI[s]))

Ok == C.err = ""
\* shape_ok = FALSE: some matrix does not have the shape (entities of the target) x (entities of the source); then it
\* cannot be the transpose of its partner and the sums are not formed
Shaped == Ok /\ C.shape_ok
Accepted == Check("Accepted", Ok)
IntTotals == Check("IntPreservesTotals", Shaped => IF C.kind = "exact" THEN IntPreservesTotals(C) ELSE FInt(C))
AvgConstants == Check("AvgPreservesConstants", Shaped => IF C.kind = "exact" THEN AvgPreservesConstants(C) ELSE FAvg(C))
Transposed == Check("Transposes", Ok => (C.shape_ok /\ IF C.kind = "exact" THEN Transposes(C) ELSE FTrans(C)))
=============================================================================
