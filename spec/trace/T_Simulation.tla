----------------------------- MODULE T_Simulation -----------------------------
(***************************************************************************)
(* Trace validation of recorded runs of the REAL pp.run_time_dependent_model*)
(* / pp.run_stationary_model against Simulation.tla.                        *)
(*                                                                         *)
(* harness/props/sim_lifecycle.py wraps (in a subclass) every method that  *)
(* prepare_simulation calls, the solver callbacks, save_data_time_step and *)
(* after_simulation, and logs (event, projected state) after the real      *)
(* method returned.  The runs are merged into a prefix tree (Graph: node 1 *)
(* is the constructed model).  Every edge must be a step of THE action of  *)
(* Simulation.tla that models the logged call (selected by the event name  *)
(* and by the call it was made from), with every logged field bound to the *)
(* value observed in the real object.  Not logged, hence inferred by TLC:  *)
(* lc, sv, phase, sp, nfail, dparams and the ghosts.                       *)
(* A recorded edge that is not such a step is reported by the harness      *)
(* (the edges TLC could take are emitted through EmitVia).                 *)
(***************************************************************************)
EXTENDS Simulation, Json, IOUtils, TLC

Graph == JsonDeserialize(IOEnv.VERIF_GRAPH)
VARIABLES node, via
tvars == <<simvars, node, via>>
P(n) == Graph.nodes[n]

BindNext(p) ==
  /\ time' = p.time /\ dt' = p.dt /\ sidx' = p.sidx /\ recomp' = p.recomp /\ about' = p.about
  /\ tindex' = p.tindex /\ newton' = p.newton /\ itv' = p.itv /\ tsv' = p.tsv /\ adt' = p.adt
  /\ fluid' = p.fluid /\ props' = p.props /\ nsd' = p.nsd /\ nintf' = p.nintf /\ exporter' = p.exporter
  /\ es' = p.es /\ nvar' = p.nvar /\ ndof' = p.ndof /\ neq' = p.neq /\ nrows' = p.nrows /\ tda' = p.tda
  /\ disc' = p.disc /\ lsolver' = p.lsolver /\ nexp' = p.nexp /\ exptimes' = p.exptimes /\ nafter' = p.nafter

\* the logged state of the constructed model is the initial state of the spec
TInit == SimInit /\ node = 1 /\ via = <<0, 0>>
         /\ time = P(1).time /\ dt = P(1).dt /\ adt = P(1).adt /\ itv = P(1).itv /\ tsv = P(1).tsv
         /\ nsd = P(1).nsd /\ nvar = P(1).nvar /\ neq = P(1).neq /\ nexp = P(1).nexp

InPrepare(e) == e.within = "prepare_simulation" /\ ~e.raised
TopLevel(e)  == e.within = "" /\ ~e.raised

TStep(e) ==
  CASE e.ev = "set_materials"                   -> InPrepare(e) /\ SetMaterials
    [] e.ev = "set_geometry"                    -> InPrepare(e) /\ SetGeometry
    [] e.ev = "initialize_data_saving"          -> InPrepare(e) /\ InitializeDataSaving
    [] e.ev = "set_equation_system_manager"     -> InPrepare(e) /\ SetEquationSystemManager
    [] e.ev = "create_variables"                -> InPrepare(e) /\ CreateVariables
    [] e.ev = "assign_thermodynamic_properties_to_phases" -> InPrepare(e) /\ AssignThermodynamicProperties
    [] e.ev = "initial_condition"               -> InPrepare(e) /\ InitialCondition
    [] e.ev = "initialize_previous_iterate_and_time_step_values" -> InPrepare(e) /\ InitializePrevious
    [] e.ev = "update_time_dependent_ad_arrays" -> InPrepare(e) /\ UpdateTimeDependentArrays
    [] e.ev = "reset_state_from_file"           -> InPrepare(e) /\ ResetStateFromFile
    [] e.ev = "set_equations"                   -> InPrepare(e) /\ SetEquations
    [] e.ev = "update_discretization_parameters"-> InPrepare(e) /\ UpdateDiscretizationParameters
    [] e.ev = "discretize"                      -> InPrepare(e) /\ Discretize
    [] e.ev = "_initialize_linear_solver"       -> InPrepare(e) /\ InitializeLinearSolver
    [] e.ev = "set_nonlinear_discretizations"   -> InPrepare(e) /\ SetNonlinearDiscretizations
    [] e.ev = "save_data_time_step"             ->
         /\ ~e.raised
         /\ CASE e.within = "prepare_simulation"          -> SaveInitialData
              [] e.within = "after_nonlinear_convergence" -> SimConvSave
              [] e.within = "after_nonlinear_failure"     -> SimFailSave
              [] OTHER -> FALSE
    [] e.ev = "prepare_simulation"              -> TopLevel(e) /\ PrepareReturns
    \* before_nonlinear_loop refreshes the time-dependent arrays at the new time
    [] e.ev = "before_nonlinear_loop"           -> TopLevel(e) /\ e.tda /\ SimBegin
    [] e.ev = "check_convergence"               -> TopLevel(e) /\ SimIter(e.o, e.tok)
    [] e.ev = "after_nonlinear_convergence"     -> TopLevel(e) /\ SimConvReturn
    [] e.ev = "after_nonlinear_failure"         -> e.within = "" /\ SimFailReturn /\ ((phase' = "raised") <=> e.raised)
    [] e.ev = "after_simulation"                -> TopLevel(e) /\ AfterSimulation
    [] OTHER -> FALSE

TNext ==
  \E i \in 1..Len(Graph.edges[node]) :
    LET e == Graph.edges[node][i] IN
      /\ node' = e.dst /\ via' = <<node, i>>
      /\ TStep(e)
      /\ BindNext(P(e.dst))

TSpec == TInit /\ [][TNext]_tvars
EmitVia == PrintT(ToJson(via))
==============================================================================
