----------------------------- MODULE T_SimDriver -----------------------------
(***************************************************************************)
(* Conformance of recorded runs of the real run_time_dependent_model       *)
(* (scripted check_convergence, snapshots after the callbacks) with        *)
(* SimDriver.  The runs are merged into a prefix tree (Graph); every edge  *)
(* must be a step of the corresponding SimDriver action with the logged    *)
(* fields bound; phase, sp, nfail and the ghosts are inferred.             *)
(***************************************************************************)
EXTENDS SimDriver, Json, IOUtils, TLC

Graph == JsonDeserialize(IOEnv.VERIF_GRAPH)
VARIABLES node, via
tvars == <<allvars, node, via>>
P(n) == Graph.nodes[n]

BindNext(p) ==
  /\ time' = p.time /\ dt' = p.dt /\ sidx' = p.sidx /\ recomp' = p.recomp /\ about' = p.about
  /\ tindex' = p.tindex /\ newton' = p.newton /\ itv' = p.itv /\ tsv' = p.tsv /\ adt' = p.adt

TInit == SInit /\ node = 1 /\ via = <<0, 0>>

TStep(e) ==
  CASE e.ev = "begin" -> BeginStep
    [] e.ev = "iter"  -> NewtonIter(e.o, e.tok)
    [] e.ev = "conv"  -> AfterConvergence
    [] e.ev = "fail"  -> AfterFailure /\ ((phase' = "raised") <=> e.raised)

TNext ==
  \E i \in 1..Len(Graph.edges[node]) :
    LET e == Graph.edges[node][i] IN
      /\ node' = e.dst /\ via' = <<node, i>>
      /\ TStep(e)
      /\ BindNext(P(e.dst))

TSpec == TInit /\ [][TNext]_tvars
EmitVia == PrintT(ToJson(via))
==============================================================================
