------------------------------- MODULE J_Slicer -------------------------------
(***************************************************************************)
(* Verdict for C36.  A case is ONE Apply of a slicer program that the      *)
(* harness executed on real ArraySlicer objects (or on pp.ad.Projection    *)
(* operators evaluated through an EquationSystem):                         *)
(*   prog   the program in packed form, exactly as Slicer.tla emitted it   *)
(*   k      which Apply of the program (1-based, program order)            *)
(*   out    what that `S @ y` returned: [kind, val, jac] (integer          *)
(*          matrices; kind "exc" = it raised, "bad" = not an integer       *)
(*          array / unknown container)                                     *)
(* Property clause:                                                        *)
(*   ApplyEqualsRef  the numbers returned equal the value of the           *)
(*                   expression as written with explicit projection        *)
(*                   matrices (SlicerRef!RefEval)                          *)
(* Mechanism (reported as drift, never as violation):                      *)
(*   Mechanism       container type as with explicit matrices, and result  *)
(*                   equal to the one-pending-slot model (where that model *)
(*                   is defined: it checks operand sizes, the code does    *)
(*                   not)                                                  *)
(***************************************************************************)
EXTENDS Judge, SlicerRef

R == Run(UnpackProg(C.prog), TRUE)
ApplyEqualsRef == Check("ApplyEqualsRef", C.k <= Len(R.outR) /\ SameNumbers(C.out, R.outR[C.k]))
Mechanism == Check("Mechanism", C.out.kind \in {"exc", "bad"} \/ R.outI[C.k].kind = "undef" \/
                                  (SameKind(C.out, R.outR[C.k]) /\ SameNumbers(C.out, R.outI[C.k])))
\* both in one evaluation of the program
Verdict == ApplyEqualsRef /\ Mechanism
\* expected value, told to the harness for the human-readable part of a violation report
TellRef == Tell("ref", [kind |-> R.outR[C.k].kind, val |-> R.outR[C.k].val, jac |-> R.outR[C.k].jac])
==============================================================================
