------------------------------- MODULE J_Slicer -------------------------------
(***************************************************************************)
(* Verdict for C36.  A case is ONE Apply of a slicer program that the      *)
(* harness executed on real ArraySlicer objects (or on pp.ad.Projection    *)
(* operators evaluated through an EquationSystem):                         *)
(*   prog   the program in packed form, exactly as Slicer.tla emitted it   *)
(*   k      which Apply of the program (1-based, program order)            *)
(*   out    what that `S @ y` returned: [kind, val, jac] (integer          *)
(*          matrices; kind "exc" = it raised, "bad" = not an integer       *)
(*          array / unknown container)                                     *)
(* Property clause:                                                        *)
(*   ApplyEqualsRef  the numbers returned equal the value of the           *)
(*                   expression as written with explicit projection        *)
(*                   matrices (SlicerRef!RefEval)                          *)
(* Mechanism (reported as drift, never as violation):                      *)
(*   Mechanism       container type as with explicit matrices, and result  *)
(*                   equal to the one-pending-slot model (where that model *)
(*                   is defined: it checks operand sizes, the code does    *)
(*                   not)                                                  *)
(***************************************************************************)
EXTENDS Judge, SlicerRef

\* the program is interpreted once per clause evaluation (LET values are cached by TLC, definitions are not)
RunC == Run(UnpackProg(C.prog), TRUE)
ApplyOK(r) == C.k <= Len(r.outR) /\ SameNumbers(C.out, r.outR[C.k])
MechOK(r) == C.out.kind \in {"exc", "bad"} \/ r.outI[C.k].kind = "undef" \/
             (SameKind(C.out, r.outR[C.k]) /\ SameNumbers(C.out, r.outI[C.k]))
ApplyEqualsRef == LET r == RunC IN Check("ApplyEqualsRef", ApplyOK(r))
Mechanism == LET r == RunC IN Check("Mechanism", MechOK(r))
\* both in one evaluation of the program
Verdict == LET r == RunC IN Check("ApplyEqualsRef", ApplyOK(r)) /\ Check("Mechanism", MechOK(r))
\* expected value, told to the harness for the human-readable part of a violation report
TellRef == LET r == RunC IN Tell("ref", [kind |-> r.outR[C.k].kind, val |-> r.outR[C.k].val, jac |-> r.outR[C.k].jac])
==============================================================================
