----------------------------- MODULE J_FracMesh -----------------------------
(***************************************************************************)
(* C25 judge.  One case = one fracture network meshed by the real code:     *)
(*   C.in  = [family |-> "lattice" | "scaled" | "tensor" | "simplex", dim,  *)
(*            vol |-> <<num, den>> the volume of the domain,                 *)
(*            box |-> <<bx,by,bz>> (the domain is [0,bx] x [0,by] x [0,bz]), *)
(*            fracs |-> integer vertex lists (2 end points / 4 corners),     *)
(*            lat   |-> (lattice family) the network N of FracMesh PART 1,   *)
(*            path, args : how the driver called porepy (opaque here)]       *)
(*   C.out = the exported md-grid O of FracMesh PART 2 (err # "" if the      *)
(*            meshing raised: every clause that needs the grid then fails)   *)
(* Scaled family: lattice networks on Cartesian grids with physical        *)
(* dimensions L # number of cells (cart_grid(.., physdims), create_mdg       *)
(* "cartesian" with target cell sizes, also sizes that do not divide the     *)
(* extent): all clauses; the expected structure is compared through the     *)
(* scaled lattice coordinates 2 n x / L (float tolerance), HostVolume        *)
(* against the volume of the DOMAIN.                                         *)
(* Lattice family (exact, tolerance 0): the seven validity clauses AND the  *)
(* comparison with the unique expected structure (cells of every grid,      *)
(* coupling pairs).  Tensor family (the same networks on non-uniform tensor *)
(* grids with integer node coordinates) and simplex family (gmsh; coupling  *)
(* not unique): the validity clauses only.  Geometric comparisons outside   *)
(* the lattice family are float-judged under the                            *)
(* DESIGN 8 policy: a clause is violated beyond TolV = 64 units (1e-6);     *)
(* a case that passes at TolV but not at TolP = 2 units (3e-8) is reported   *)
(* as inconclusive (Tell record), never as a violation.                      *)
(* Clauses of the property:                                                 *)
(*   EachCellCoupledBothSides  FacesCoincideWithCell  OppositeNormals       *)
(*   FractureTagsExact  HostVolume  CellsOnFracture  MortarSidesMatch       *)
(* InFamily is a harness self-check (the network handed to the real code is *)
(* inside the quantified family).                                           *)
(***************************************************************************)
EXTENDS Judge, FracMesh

Lattice == C.in.family = "lattice"
\* scaled family: the lattice network C.in.lat on the Cartesian grid with lat.box[i] cells on [0, L[i]];
\* C.in.scale[i] = <<n_i, num(L_i), den(L_i)>>, C.in.cs[i] = the target cell size handed to create_mdg (<<0, 1>>: none)
Scaled == C.in.family = "scaled"
TolV == IF Lattice THEN 0 ELSE 64
TolP == IF Lattice THEN 0 ELSE 2

InFamily ==
  Check("InFamily",
        /\ C.in.dim \in {2, 3} /\ C.in.vol[2] >= 1
        /\ ~Scaled => /\ Len(C.in.fracs) >= 1
                      /\ \A k \in 1..Len(C.in.fracs) : Len(C.in.fracs[k]) = (IF C.in.dim = 2 THEN 2 ELSE 4)
                      /\ C.in.vol = <<C.in.box[1] * C.in.box[2] * (IF C.in.dim = 3 THEN C.in.box[3] ELSE 1), 1>>
        /\ Lattice => /\ Admissible(C.in.lat) /\ C.in.lat.dim = C.in.dim /\ C.in.lat.box = C.in.box
                      /\ Len(C.in.lat.fracs) = Len(C.in.fracs)
                      \* the vertex lists describe the lattice boxes
                      /\ \A k \in 1..Len(C.in.fracs) :
                           LET f == C.in.lat.fracs[k]  V == C.in.fracs[k] IN
                           \A i \in 1..3 : {V[n][i] : n \in 1..Len(V)} = {f[1][i], f[2][i]}
        /\ Scaled => /\ Admissible(C.in.lat) /\ C.in.lat.dim = C.in.dim
                     /\ \A i \in 1..3 :
                          LET s == C.in.scale[i] IN
                          /\ s[1] = C.in.lat.box[i] /\ s[3] >= 1 /\ (s[1] > 0 => s[2] >= 1)
                          \* the number of cells is the documented rounding of extent / cell size
                          /\ (s[1] > 0 /\ C.in.cs[i][1] > 0) => s[1] = RoundedCells(<<s[2], s[3]>>, C.in.cs[i])
                     /\ LET D == {i \in 1..3 : C.in.scale[i][1] > 0}
                            PN[S \in SUBSET D] == IF S = {} THEN 1 ELSE LET i == CHOOSE i \in S : TRUE IN C.in.scale[i][2] * PN[S \ {i}]
                            PD[S \in SUBSET D] == IF S = {} THEN 1 ELSE LET i == CHOOSE i \in S : TRUE IN C.in.scale[i][3] * PD[S \ {i}]
                        IN Cardinality(D) = C.in.dim /\ C.in.vol[1] * PD[D] = C.in.vol[2] * PN[D])

ScL(x) == ScaledLoc(C.in.scale, x)
C1(t) == /\ CoupledBothSides(C.in, C.out, t)
         /\ Lattice => LatticePairs(C.in.lat, C.out)
         /\ Scaled => LatticePairsW(C.in.lat, C.out, ScL)
C2(t) == FacesCoincide(C.in, C.out, t)
C3(t) == OppositeNormals(C.in, C.out, t)
C4 == TagsExact(C.in, C.out)
C5(t) == HostVolumeOK(C.in, C.out, t)
\* scaled family: the cells of the host tile the DOMAIN [0, L] and the cells of every fracture grid are exactly the
\* cells of its fracture (on the fracture, adding up to it) - read off the scaled lattice coordinates
C6(t) == IF Scaled THEN LatticeCellsW(C.in.lat, C.out, ScL, LAMBDA x : ScaledOn(C.in.scale, x, t))
         ELSE OnFractures(C.in, C.out, t) /\ (Lattice => LatticeCells(C.in.lat, C.out))
C7(t) == MortarMatch(C.in, C.out, t)

EachCellCoupledBothSides == Check("EachCellCoupledBothSides", C1(TolV))
FacesCoincideWithCell    == Check("FacesCoincideWithCell", C2(TolV))
OppositeNormalsC         == Check("OppositeNormals", C3(TolV))
FractureTagsExact        == Check("FractureTagsExact", C4)
HostVolume               == Check("HostVolume", C5(TolV))
CellsOnFracture          == Check("CellsOnFracture", C6(TolV))
MortarSidesMatch         == Check("MortarSidesMatch", C7(TolV))

\* float-judged cases inside the band between the pass and the violation threshold
Band(loose, tight, name) == IF loose /\ ~tight THEN Tell("inconclusive", name) ELSE TRUE
Inconclusive ==
  (~Judging) \/ Lattice \/
    /\ Band(C1(TolV), C1(TolP), "EachCellCoupledBothSides")
    /\ Band(C2(TolV), C2(TolP), "FacesCoincideWithCell")
    /\ Band(C3(TolV), C3(TolP), "OppositeNormals")
    /\ Band(C5(TolV), C5(TolP), "HostVolume")
    /\ Band(C6(TolV), C6(TolP), "CellsOnFracture")
    /\ Band(C7(TolV), C7(TolP), "MortarSidesMatch")
=============================================================================
