---------------------------- MODULE J_InterpTable ----------------------------
(***************************************************************************)
(* C41 judge: TLC evaluates the clauses on what the real tables returned.  *)
(* One case = one table configuration with all its queries:                *)
(*  in  = [P, low, w, npt, coef, D, mode, linear, qs (seq of lattice       *)
(*         vectors k; x_i = low_i + w_i k_i / D), aq (the queries put to   *)
(*         the adaptive table, in this order, as indices into qs)]         *)
(*  out = [std:  seq over qs of InterpolationTable.interpolate, as a       *)
(*               rational <<p, q>>; q = 0 marks an exception or a number   *)
(*               that is no small rational                                 *)
(*         ada:  seq over aq of the adaptive table's interpolate           *)
(*         gstd, gada: seq over qs resp. aq of the seq over the axes of    *)
(*               .gradient(x, axis)  (<<>> unless f is linear)]            *)
(* Clauses (property text in quotes)                                       *)
(*  InterpExact       "the interpolation table reproduces the function     *)
(*                    exactly everywhere in the box"                       *)
(*  GradExact         "its gradient is exact for linear functions"         *)
(*  AdaptiveAgrees    "the adaptive table agrees with the standard table   *)
(*                    at every queried point"                              *)
(*  AdaptiveExact, AdaptiveGradExact   the same two exactness clauses for  *)
(*                    the adaptive table (also an interpolation table)     *)
(* A failing clause reports the set of failing query indices.              *)
(***************************************************************************)
EXTENDS Judge, InterpTable, Rat

Report(clause, bad) == bad = {} \/ PrintT(ToJson([case |-> ci, clause |-> clause, bad |-> bad]))
CheckAll(clause, S, Ok(_)) == (~Judging) \/ Report(clause, {x \in S : ~Ok(x)})

NQ == Len(C.in.qs)
DP == Pow(C.in.D, C.in.P)
FRef(i) == <<FAt(C.in.low, C.in.w, C.in.coef, C.in.qs[i], C.in.D), DP>>
Valid(v) == v[2] > 0
Is(v, r) == Valid(v) /\ REq(v, r)
NA == Len(C.in.aq)
Lin == IF C.in.linear THEN 1..NQ ELSE {}
LinA == IF C.in.linear THEN 1..NA ELSE {}
GradOk(g) == Len(g) = C.in.P /\ \A a \in 1..C.in.P : Is(g[a], <<GradRef(C.in.coef, a), 1>>)

InterpExact       == CheckAll("InterpExact", 1..NQ, LAMBDA i : Is(C.out.std[i], FRef(i)))
GradExact         == CheckAll("GradExact", Lin, LAMBDA i : GradOk(C.out.gstd[i]))
\* the three adaptive clauses report indices into aq
AdaptiveAgrees    == CheckAll("AdaptiveAgrees", 1..NA,
                              LAMBDA j : /\ Valid(C.out.ada[j]) /\ Valid(C.out.std[C.in.aq[j]])
                                         /\ C.out.ada[j] = C.out.std[C.in.aq[j]])
AdaptiveExact     == CheckAll("AdaptiveExact", 1..NA, LAMBDA j : Is(C.out.ada[j], FRef(C.in.aq[j])))
AdaptiveGradExact == CheckAll("AdaptiveGradExact", LinA, LAMBDA j : GradOk(C.out.gada[j]))
=============================================================================
