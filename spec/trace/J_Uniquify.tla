----------------------------- MODULE J_Uniquify -----------------------------
(***************************************************************************)
(* Judge for C34: TLC judges what the real functions returned.             *)
(* Case fields: fn, in, out, raised ("" if the call returned).             *)
(*  fn = "uniquify"        uniquify_point_set(points, tol)                 *)
(*        in = [pts, tol]  lattice points / tolerance in units             *)
(*        out = [pts, n2o, o2n]  (returned columns decoded to the lattice   *)
(*              point of the bit-identical input column, <<>> if none)      *)
(*  fn = "uniquify_points" fracs.utils.uniquify_points(pts, edges, tol)     *)
(*        in = [pts, tol, edges], out = [pts, edges, removed]               *)
(*  fn = "ismember"        ismember_columns(a, b, sort)                     *)
(*        in = [a, b, sort], out = [ismem, ia]                              *)
(*  fn = "intersect"       intersect_sets(a, b, tol = tn / td)              *)
(*        in = [a, b, tn, td], out = [ia, ib, ainb, inter]                  *)
(* Clauses of C34:                                                         *)
(*  NoError; InFamily (generator check, not a property clause);            *)
(*  Count, Representative, Points, IndexMap        (uniquification)        *)
(*  FU_Points, FU_Edges, FU_Removed                (uniquify_points)       *)
(*  MemberFlags, Witness                           (column membership)     *)
(*  IA, IB, AinB, InterSets                        (set intersection)      *)
(* Mechanism (conformance): uniquification returns ImplOut.                *)
(* StraddleFlag prints the cases in which a cluster straddles a norm-       *)
(* cluster boundary of the sweep (the known defect class); TieFlag those    *)
(* with two norms exactly tol apart (only run with exact embeddings).       *)
(***************************************************************************)
EXTENDS Judge, Uniquify, SetMember

Ran == C.raised = ""
IsU == C.fn = "uniquify"
IsFU == C.fn = "uniquify_points"
IsM == C.fn = "ismember"
IsI == C.fn = "intersect"
UIn == IsU \/ IsFU

NoError == Check("NoError", Ran)
InFamily == Check("InFamily",
                  /\ UIn => WellSeparated(C.in.pts, C.in.tol)
                  /\ IsI => BandFree(C.in.a, C.in.b, C.in.tn, C.in.td))
StraddleFlag == (~Judging) \/ ~(UIn /\ Straddle(C.in.pts, C.in.tol))
                \/ PrintT(ToJson([case |-> ci, tag |-> "straddle", val |-> TRUE]))

Ref == RefOut(C.in.pts, C.in.tol)
U == IsU /\ Ran
Count == Check("Count", U => Len(C.out.n2o) = Len(Ref.n2o) /\ Len(C.out.pts) = Len(Ref.n2o))
Representative == Check("Representative", U => C.out.n2o = Ref.n2o)
Points == Check("Points", U => /\ Len(C.out.pts) = Len(C.out.n2o)
                               /\ \A k \in 1..Len(C.out.n2o) :
                                    C.out.n2o[k] \in 1..Len(C.in.pts) /\ C.out.pts[k] = C.in.pts[C.out.n2o[k]])
IndexMap == Check("IndexMap", U => C.out.o2n = Ref.o2n)
Mechanism == Check("Mechanism", U => /\ C.out.n2o = ImplOut(C.in.pts, C.in.tol).n2o
                                     /\ C.out.o2n = ImplOut(C.in.pts, C.in.tol).o2n
                                     /\ C.out.pts = ImplOut(C.in.pts, C.in.tol).pts)

TieFlag == (~Judging) \/ ~(UIn /\ HasNormTie(C.in.pts, C.in.tol))
           \/ PrintT(ToJson([case |-> ci, tag |-> "tie", val |-> TRUE]))

FU == IsFU /\ Ran
FU_Points == Check("FU_Points", FU => C.out.pts = Ref.pts)
FU_Edges == Check("FU_Edges", FU => C.out.edges = DropPointEdges(C.in.edges, Ref.o2n))
FU_Removed == Check("FU_Removed", FU => C.out.removed = PointEdges(C.in.edges, Ref.o2n))

FU_Mechanism == Check("Mechanism", FU => LET im == ImplOut(C.in.pts, C.in.tol) IN
                                            /\ C.out.pts = im.pts
                                            /\ C.out.edges = DropPointEdges(C.in.edges, im.o2n)
                                            /\ C.out.removed = PointEdges(C.in.edges, im.o2n))

M == IsM /\ Ran
MemberFlags == Check("MemberFlags", M => C.out.ismem = IsMemRef(C.in.a, C.in.b, C.in.sort))
Witness == Check("Witness", M => WitnessOK(C.in.a, C.in.b, C.in.sort, C.out.ia))

I == IsI /\ Ran
IA == Check("IA", I => C.out.ia = IaRef(C.in.a, C.in.b, C.in.tn, C.in.td))
IB == Check("IB", I => C.out.ib = IbRef(C.in.a, C.in.b, C.in.tn, C.in.td))
AinB == Check("AinB", I => C.out.ainb = AinBRef(C.in.a, C.in.b, C.in.tn, C.in.td))
InterSets == Check("InterSets", I => /\ Len(C.out.inter) = Len(C.in.a)
                                     /\ \A i \in 1..Len(C.in.a) :
                                          /\ SeqSet(C.out.inter[i]) = InterRef(C.in.a, C.in.b, C.in.tn, C.in.td)[i]
                                          /\ Len(C.out.inter[i]) = Cardinality(SeqSet(C.out.inter[i])))
=============================================================================
