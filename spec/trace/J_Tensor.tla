------------------------------- MODULE J_Tensor -------------------------------
(***************************************************************************)
(* C40 judge: TLC evaluates the clauses on what the real tensor classes    *)
(* did.  One case = one scenario on one real tensor object.                *)
(*  in  = [kind, scen, cells (seq of parameter tuples, one per cell),      *)
(*         extra, giv, rot = [n, q], sel]           (see TensorEnum.tla)   *)
(*  out = [ok      FALSE if the code raised                                *)
(*         vals    values after construction: per cell a d x d matrix of   *)
(*                 rationals <<p, q>> (q = 0: not a small rational)        *)
(*         flds    constitutive parameter arrays after construction        *)
(*                 (fourth order: <<mu, lmbda>> or <<mu, lmbda, phi>>)     *)
(*         rot     values after rotate(R)          (scen rotate, copy)     *)
(*         nvals, nflds   values / fields of the object returned by        *)
(*                 restrict_to_cells resp. copy                            *)
(*         ovals, oflds   values / fields of the original afterwards       *)
(*         trials  copy: seq of [who, fld, changed, before, after]: array  *)
(*                 `fld` of object `who` was modified in place; before /   *)
(*                 after = all arrays of the OTHER object, flattened]      *)
(* Clauses (property text in quotes)                                       *)
(*  Symmetric      "second- and fourth-order tensors built from admissible *)
(*                 parameters are symmetric" (9x9: major + minor)          *)
(*  MatchesRef     the values are Second(..) / Fourth(..) of Tensor.tla    *)
(*  Rotated        "rotating a second-order tensor is a similarity         *)
(*                 transform": values = R K R^T                            *)
(*  EigenInvariants "... preserving its eigenvalues": trace, second        *)
(*                 invariant and determinant of the returned matrix equal  *)
(*                 those of K (evaluated exactly when the returned entries *)
(*                 have denominators dividing q^2; otherwise Rotated has   *)
(*                 already failed)                                         *)
(*  RestrictSelects "restriction to cells selects those cells"             *)
(*  RestrictKeepsOriginal  ... and leaves the original as it was           *)
(*  CopyEqual / CopyIndependent  "copies are independent of the original"  *)
(***************************************************************************)
EXTENDS Judge, Tensor, Rat

Second2 == Judging /\ C.in.kind = "second"
Scen(s) == Judging /\ C.in.scen = s
NC == Len(C.in.cells)
Dim == IF C.in.kind = "second" THEN 3 ELSE 9
Valid(v) == v[2] > 0
IsInt(v, k) == Valid(v) /\ REq(v, <<k, 1>>)
RefMat(c) == IF C.in.kind = "second" THEN Second(C.in.cells[c], C.in.giv)
             ELSE Fourth(C.in.cells[c][1], C.in.cells[c][2], IF C.in.extra THEN C.in.cells[c][3] ELSE 0)
\* reference constitutive parameter arrays
RefFlds == IF C.in.kind = "second" THEN <<>>
           ELSE [f \in 1..(IF C.in.extra THEN 3 ELSE 2) |-> [c \in 1..NC |-> C.in.cells[c][f]]]
AllValidM(M) == \A i \in 1..Len(M) : \A j \in 1..Len(M[i]) : Valid(M[i][j])
MatIs(M, Ref) == /\ Len(M) = Dim
                 /\ \A i \in 1..Dim : (Len(M[i]) = Dim) /\ (\A j \in 1..Dim : IsInt(M[i][j], Ref[i][j]))
FldsAre(F, Ref) == /\ Len(F) = Len(Ref)
                   /\ \A f \in 1..Len(Ref) :
                        (Len(F[f]) = Len(Ref[f])) /\ (\A c \in 1..Len(Ref[f]) : IsInt(F[f][c], Ref[f][c]))

Ok == C.out.ok
Symmetric == Check("Symmetric",
  Ok /\ \A c \in 1..NC : LET M == C.out.vals[c] IN
          /\ AllValidM(M)
          /\ \A i \in 1..Dim, j \in 1..Dim : M[i][j] = M[j][i]
          /\ C.in.kind = "fourth" => \A i \in 0..2, j \in 0..2, b \in I9 :
                                        M[Flat(i, j)][b] = M[Flat(j, i)][b] /\ M[b][Flat(i, j)] = M[b][Flat(j, i)])
MatchesRef == Check("MatchesRef",
  Ok /\ Len(C.out.vals) = NC /\ (\A c \in 1..NC : MatIs(C.out.vals[c], RefMat(c))) /\ FldsAre(C.out.flds, RefFlds))

\* ---- rotation (second order)
HasRot == Second2 /\ (Scen("rotate") \/ Scen("copy"))
Q2 == C.in.rot.q * C.in.rot.q
RotRef(c) == RotNum(RefMat(c), C.in.rot.n)
Rotated == Check("Rotated", HasRot =>
  Ok /\ \A c \in 1..NC : \A i \in I3, j \in I3 :
          Valid(C.out.rot[c][i][j]) /\ REq(C.out.rot[c][i][j], <<RotRef(c)[i][j], Q2>>))
OnLattice(M) == \A i \in I3, j \in I3 : Valid(M[i][j]) /\ Q2 % M[i][j][2] = 0
Num(M) == Mat3(LAMBDA i, j : M[i][j][1] * (Q2 \div M[i][j][2]))
EigenInvariants == Check("EigenInvariants", HasRot =>
  Ok /\ \A c \in 1..NC : OnLattice(C.out.rot[c]) =>
          LET N == Num(C.out.rot[c])
              K == RefMat(c)
          IN Tr(N) = Q2 * Tr(K) /\ I2(N) = Q2 * Q2 * I2(K) /\ Det(N) = Q2 * Q2 * Q2 * Det(K))

\* ---- restriction
RestrictSelects == Check("RestrictSelects", Scen("restrict") =>
  /\ Ok /\ Len(C.out.nvals) = Len(C.in.sel)
  /\ C.out.nvals = Restrict(C.out.vals, C.in.sel)
  /\ \A k \in 1..Len(C.in.sel) : MatIs(C.out.nvals[k], RefMat(C.in.sel[k] + 1))
  /\ FldsAre(C.out.nflds, [f \in 1..Len(RefFlds) |-> Restrict(RefFlds[f], C.in.sel)]))
RestrictKeepsOriginal == Check("RestrictKeepsOriginal", Scen("restrict") =>
  Ok /\ C.out.ovals = C.out.vals /\ C.out.oflds = C.out.flds)

\* ---- copy
AtCopy == IF HasRot THEN C.out.rot ELSE C.out.vals
CopyEqual == Check("CopyEqual", Scen("copy") =>
  Ok /\ C.out.nvals = AtCopy /\ C.out.nflds = C.out.flds /\ C.out.ovals = AtCopy /\ C.out.oflds = C.out.flds)
CopyIndependent == Check("CopyIndependent", Scen("copy") =>
  Ok /\ Len(C.out.trials) > 0 /\ \A t \in 1..Len(C.out.trials) :
          C.out.trials[t].changed /\ C.out.trials[t].before = C.out.trials[t].after)
=============================================================================
