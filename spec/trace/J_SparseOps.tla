----------------------------- MODULE J_SparseOps -----------------------------
(***************************************************************************)
(* C35 judge: sparse-matrix utilities match dense reference semantics.     *)
(*                                                                         *)
(* A case is [op, in, out]: `in` is the input of one utility exactly as the *)
(* lattice of SparseOpsEnum (or the seeded random generator of the harness) *)
(* produced it, `out` is what the real porepy function returned / left in   *)
(* its in-place argument, as RAW storage arrays (no scipy conversion):      *)
(*    out.kind = "ok" | "raise" (an exception on an in-family input)        *)
(*             | "nonint" (a non-integer value in an integer computation)   *)
(* One invariant per utility = one clause of the property: the returned     *)
(* representation is well formed and denotes exactly the dense matrix /     *)
(* index vector that the reference operator of SparseOps computes.          *)
(* ArgsIntact: arguments that the dense operation does not assign to keep   *)
(* their dense value (for in-place utilities this is the other argument B). *)
(***************************************************************************)
EXTENDS Judge, SparseOps

Ok == C.out.kind = "ok"
Is(o) == C.op = o

ZeroLines ==
  Check("ZeroLines", (Is("zero_rows") \/ Is("zero_columns")) =>
            Ok /\ C.out.A.fmt = C.in.A.fmt /\ Denotes(C.out.A, ZeroLinesRef(C.in.A, C.in.lines)))
Merge ==
  Check("Merge", Is("merge_matrices") =>
            Ok /\ C.out.A.fmt = C.in.A.fmt /\ Denotes(C.out.A, MergeRef(C.in.A, C.in.B, C.in.lines)))
StackMat ==
  Check("StackMat", Is("stack_mat") =>
            Ok /\ C.out.A.fmt = C.in.A.fmt /\ Denotes(C.out.A, StackMatRef(C.in.A, C.in.B)))
StackDiag ==
  Check("StackDiag", Is("stack_diag") => Ok /\ Denotes(C.out.M, StackDiagRef(C.in.A, C.in.B)))
SliceMatrix ==
  Check("SliceMatrix", Is("slice_sparse_matrix") =>
            Ok /\ C.out.M.fmt = C.in.A.fmt /\ Denotes(C.out.M, SliceRef(C.in.A, IndexSeq(C.in.ix))))
SliceIndices ==
  Check("SliceIndices", Is("slice_indices") =>
            Ok /\ SliceIndicesValid(C.in.A, IndexSeq(C.in.ix), C.out.indices, C.in.rai, C.out.array_ind))
FromSparseBlocks ==
  Check("FromSparseBlocks", Is("from_sparse_blocks") =>
            Ok /\ C.out.M.fmt = C.in.fmt /\ Denotes(C.out.M, FromSparseBlocksRef(C.in.blocks)))
FromDenseBlocks ==
  Check("FromDenseBlocks", Is("from_dense_blocks") =>
            Ok /\ C.out.M.fmt = C.in.fmt
               /\ Denotes(C.out.M, FromDenseBlocksRef(C.in.fmt, C.in.data, C.in.bs, C.in.nb)))
DiaFromBlocks ==
  Check("DiaFromBlocks", Is("dia_from_blocks") =>
            Ok /\ C.out.M.fmt = "dia" /\ Denotes(C.out.M, DiaFromBlocksRef(C.in.blocks)))
BlockDiagMatrix ==
  Check("BlockDiagMatrix", Is("block_diag_matrix") =>
            Ok /\ Denotes(C.out.M, BlockDiagMatrixRef(C.in.vals, C.in.sz)))
Kronecker ==
  Check("Kronecker", Is("kron") => Ok /\ Denotes(C.out.M, KronRef(C.in.A, C.in.nd)))
OptimizedStorage ==
  Check("OptimizedStorage", Is("optimized_storage") =>
            Ok /\ C.out.M.fmt = OptimalFmt(C.in.A.shape) /\ Denotes(C.out.M, DenseOf(C.in.A)))
Copy ==
  Check("Copy", Is("copy") => Ok /\ C.out.M.fmt = C.in.A.fmt /\ Denotes(C.out.M, DenseOf(C.in.A)))
RowColData ==
  Check("RowColData", Is("row_col_data") =>
            /\ Ok
            /\ Len(C.out.row) = Len(C.out.data) /\ Len(C.out.col) = Len(C.out.data)
            /\ LET want == IF C.in.remove_nz THEN {t \in Triples(C.in.A) : t[3] # 0} ELSE Triples(C.in.A)
               IN /\ {<<C.out.row[k], C.out.col[k], C.out.data[k]>> : k \in 1..Len(C.out.data)} = want
                  /\ Len(C.out.data) = Cardinality(want))
RlEncode ==
  Check("RlEncode", Is("rlencode") =>
            Ok /\ C.out.comp = RlEncodeRef(C.in.A).comp /\ C.out.num = RlEncodeRef(C.in.A).num)
RlDecode ==
  Check("RlDecode", Is("rldecode") => Ok /\ C.out.v = RlDecodeRef(C.in.A, C.in.n))
RlRoundTrip ==
  Check("RlRoundTrip", Is("rl_roundtrip") => Ok /\ C.out.rows = C.in.A)
ExpandPointers ==
  Check("ExpandPointers", Is("expand_index_pointers") => Ok /\ C.out.v = ExpandPointersRef(C.in.lo, C.in.hi))
ExpandNd ==
  Check("ExpandNd", Is("expand_indices_nd") => Ok /\ C.out.v = ExpandNdRef(C.in.ind, C.in.nd, C.in.order))
ExpandIncrement ==
  Check("ExpandIncrement", Is("expand_indices_add_increment") =>
            Ok /\ C.out.v = ExpandIncrRef(C.in.x, C.in.n, C.in.inc))
BlockDiagIndex ==
  Check("BlockDiagIndex", Is("block_diag_index") =>
            Ok /\ IF C.in.hasn
                  THEN C.out.i = BlockDiagIndexRef(C.in.m, C.in.n).i /\ C.out.j = BlockDiagIndexRef(C.in.m, C.in.n).j
                  ELSE C.out.i = BlockDiagIndexSqRef(C.in.m))
ArgsIntact ==
  Check("ArgsIntact", Ok =>
            \A k \in 1..Len(C.out.intact) :
               WF(C.out.intact[k].after) /\ DenseOf(C.out.intact[k].after) = DenseOf(C.out.intact[k].before))
=============================================================================
