------------------------------ MODULE J_Upwind ------------------------------
(***************************************************************************)
(* C17 judge.  Cases recorded from pp.ad / pp.Upwind on real grids:        *)
(* Every case carries outs = one result per flux magnitude 2^e (e = outs[k].e).*)
(*  kind "sel": g (incidence), s (flux signs), bc, n (components),         *)
(*      outs[k].U / .D / .N   = [shape, ent] of the matrices stored under  *)
(*      upwind_matrix_key, bound_transport_dir_matrix_key,                 *)
(*      bound_transport_neu_matrix_key after Upwind.discretize             *)
(*      (ent = nonzero entries <<row, col, value>>), ok = FALSE if         *)
(*      discretize raised                                                  *)
(*  kind "tr":  g, flux (integers), vol (rationals), inits (integer cell   *)
(*      vectors), dts (rationals), outs[k].A = entries of the matrix returned *)
(*      by Upwind.assemble_matrix_rhs (div * diag(flux) * upwind),         *)
(*      divided by 2^e, outs[k].rhs = its right-hand side / 2^e            *)
(* Clauses: Selection, DirSupport, NeuSupport (faces with nonzero flux;    *)
(* on the other faces only: boundary entries sit on the diagonal of a      *)
(* boundary face of the matching type), TransportConserves,                *)
(* TransportBounds.  InFamily is the machinery guard (input family).       *)
(***************************************************************************)
EXTENDS Judge, Upwind

IsK(k) == C.kind = k
G == C.g
\* every case is realised at several flux magnitudes: C.outs[k] is the result for the flux multiplied by
\* 2^(C.outs[k].e).  The selection clauses are scale free (they depend on the sign only); for transport the
\* harness hands over A and rhs in units of the scale (exact division by a power of two) and the physical
\* step is dt / scale, so the exact step below is the same for every scale.
Outs == C.outs
ForOuts(P(_)) == \A k \in 1..Len(Outs) : P(Outs[k])

InFamily == Check("InFamily",
  /\ Len(Outs) >= 1
  /\ IF IsK("sel") THEN UpwindFamily(G, C.s, C.bc, C.n)
     ELSE /\ WellFormed(G) /\ DivFree(G, C.flux) /\ NoFlow(G, C.flux)
          /\ \A j \in 1..Len(C.dts) : CFL(G, C.flux, C.vol, C.dts[j])
          /\ Len(C.vol) = G.nc /\ \A i \in 1..Len(C.inits) : Len(C.inits[i]) = G.nc)

NoDup(ent) == Cardinality(Range(ent)) = Len(ent)

Selection == Check("Selection", IsK("sel") =>
  LET ref == UpwindRef(G, C.s, C.bc, C.n) IN
  ForOuts(LAMBDA O :
    /\ O.ok
    /\ O.U.shape = <<G.nf * C.n, G.nc * C.n>> /\ NoDup(O.U.ent)
    /\ OnNZ(Range(O.U.ent), G, C.s, C.n) = ref))

DirSupport == Check("DirSupport", IsK("sel") =>
  LET ref == BoundDirRef(G, C.s, C.bc, C.n) IN
  ForOuts(LAMBDA O : O.ok =>
    /\ O.D.shape = <<G.nf * C.n, G.nf * C.n>> /\ NoDup(O.D.ent)
    /\ OnNZ(Range(O.D.ent), G, C.s, C.n) = ref
    /\ \A e \in Range(O.D.ent) : e[1] = e[2] /\ C.bc[(e[1] \div C.n) + 1] = "dir"))

NeuSupport == Check("NeuSupport", IsK("sel") =>
  LET ref == BoundNeuRef(G, C.s, C.bc, C.n) IN
  ForOuts(LAMBDA O : O.ok =>
    /\ O.N.shape = <<G.nf * C.n, G.nf * C.n>> /\ NoDup(O.N.ent)
    /\ {<<e[1], e[2]>> : e \in OnNZ(Range(O.N.ent), G, C.s, C.n)} = ref
    /\ \A e \in Range(O.N.ent) : e[1] = e[2] /\ C.bc[(e[1] \div C.n) + 1] = "neu"))

\* explicit step with porepy's matrix and right-hand side:  V (c' - c) / dt + A c = rhs
StepR(O, c, dt) ==
  LET Ac == MatVec(Range(O.A), c, G.nc)
  IN [i \in 1..G.nc |-> RSub(R(c[i]), RDiv(RMul(dt, R(Ac[i] - O.rhs[i])), C.vol[i]))]
AllSteps(O, P(_, _)) ==
  \A i \in 1..Len(C.inits) : \A j \in 1..Len(C.dts) : P(C.inits[i], StepR(O, C.inits[i], C.dts[j]))

TransportConserves == Check("TransportConserves", IsK("tr") =>
  ForOuts(LAMBDA O : O.ok /\
    AllSteps(O, LAMBDA c, c2 : REq(RTotal(C.vol, c2), RTotal(C.vol, [i \in 1..Len(c) |-> R(c[i])])))))
TransportBounds == Check("TransportBounds", IsK("tr") =>
  ForOuts(LAMBDA O : O.ok =>
    AllSteps(O, LAMBDA c, c2 : \A i \in 1..Len(c) : RLe(R(Min(Range(c))), c2[i]) /\ RLe(c2[i], R(Max(Range(c)))))))
=============================================================================
