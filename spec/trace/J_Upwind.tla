------------------------------ MODULE J_Upwind ------------------------------
(***************************************************************************)
(* C17 judge.  Cases recorded from pp.ad / pp.Upwind on real grids:        *)
(*  kind "sel": g (incidence), s (flux signs), bc, n (components),         *)
(*      out.U / out.D / out.N = [shape, ent] of the matrices stored under  *)
(*      upwind_matrix_key, bound_transport_dir_matrix_key,                 *)
(*      bound_transport_neu_matrix_key after Upwind.discretize             *)
(*      (ent = nonzero entries <<row, col, value>>), out.ok = FALSE if     *)
(*      discretize raised                                                  *)
(*  kind "tr":  g, flux (integers), vol (rationals), inits (integer cell   *)
(*      vectors), dts (rationals), out.A = entries of the matrix returned  *)
(*      by Upwind.assemble_matrix_rhs (div * diag(flux) * upwind),         *)
(*      out.rhs = its right-hand side for zero boundary values             *)
(* Clauses: Selection, DirSupport, NeuSupport (faces with nonzero flux;    *)
(* on the other faces only: boundary entries sit on the diagonal of a      *)
(* boundary face of the matching type), TransportConserves,                *)
(* TransportBounds.  InFamily is the machinery guard (input family).       *)
(***************************************************************************)
EXTENDS Judge, Upwind

IsK(k) == C.kind = k
G == C.g
O == C.out

InFamily == Check("InFamily",
  IF IsK("sel") THEN UpwindFamily(G, C.s, C.bc, C.n)
  ELSE /\ WellFormed(G) /\ DivFree(G, C.flux) /\ NoFlow(G, C.flux)
       /\ \A j \in 1..Len(C.dts) : CFL(G, C.flux, C.vol, C.dts[j])
       /\ Len(C.vol) = G.nc /\ \A i \in 1..Len(C.inits) : Len(C.inits[i]) = G.nc)

NoDup(ent) == Cardinality(Range(ent)) = Len(ent)

Selection == Check("Selection", IsK("sel") =>
  /\ O.ok
  /\ O.U.shape = <<G.nf * C.n, G.nc * C.n>> /\ NoDup(O.U.ent)
  /\ OnNZ(Range(O.U.ent), G, C.s, C.n) = UpwindRef(G, C.s, C.bc, C.n))

DirSupport == Check("DirSupport", (IsK("sel") /\ O.ok) =>
  /\ O.D.shape = <<G.nf * C.n, G.nf * C.n>> /\ NoDup(O.D.ent)
  /\ OnNZ(Range(O.D.ent), G, C.s, C.n) = BoundDirRef(G, C.s, C.bc, C.n)
  /\ \A e \in Range(O.D.ent) : e[1] = e[2] /\ C.bc[(e[1] \div C.n) + 1] = "dir")

NeuSupport == Check("NeuSupport", (IsK("sel") /\ O.ok) =>
  /\ O.N.shape = <<G.nf * C.n, G.nf * C.n>> /\ NoDup(O.N.ent)
  /\ {<<e[1], e[2]>> : e \in OnNZ(Range(O.N.ent), G, C.s, C.n)} = BoundNeuRef(G, C.s, C.bc, C.n)
  /\ \A e \in Range(O.N.ent) : e[1] = e[2] /\ C.bc[(e[1] \div C.n) + 1] = "neu")

\* explicit step with porepy's matrix and right-hand side:  V (c' - c) / dt + A c = rhs
StepR(c, dt) ==
  LET Ac == MatVec(Range(O.A), c, G.nc)
  IN [i \in 1..G.nc |-> RSub(R(c[i]), RDiv(RMul(dt, R(Ac[i] - O.rhs[i])), C.vol[i]))]
AllSteps(P(_, _)) == \A i \in 1..Len(C.inits) : \A j \in 1..Len(C.dts) : P(C.inits[i], StepR(C.inits[i], C.dts[j]))

TransportConserves == Check("TransportConserves", IsK("tr") => O.ok /\
  AllSteps(LAMBDA c, c2 : REq(RTotal(C.vol, c2), RTotal(C.vol, [i \in 1..Len(c) |-> R(c[i])]))))
TransportBounds == Check("TransportBounds", (IsK("tr") /\ O.ok) =>
  AllSteps(LAMBDA c, c2 : \A i \in 1..Len(c) : RLe(R(Min(Range(c))), c2[i]) /\ RLe(c2[i], R(Max(Range(c))))))
=============================================================================
