----------------------------- MODULE J_AdAlgebra -----------------------------
(***************************************************************************)
(* C01 judge: TLC evaluates the property clauses on what real AdArrays     *)
(* returned.  One case = one AD program at one point:                      *)
(*   C.t    the program (nested tuples, see AdAlgebra.Eval)                *)
(*   C.pt   index into Points                                              *)
(*   C.out  [error |-> "" or "ExceptionType: message",                     *)
(*           n     |-> length of .val,  rows, cols |-> shape of .jac,      *)
(*           val   |-> <<n, d>> per entry,   jac |-> rows of <<n, d>>      *)
(*                     (the doubles as rationals; d = 0: not within 1e-9   *)
(*                      of a rational with a small denominator, nan, inf), *)
(*           err   |-> <<row, col (0 = val), e>> for the entries whose     *)
(*                     required value is a TERM: e = the scaled difference *)
(*                     |x - ref| / max(1, |ref|) * 1e12, rounded up,       *)
(*                     capped at 2^30, between the double x returned by    *)
(*                     porepy and the numpy evaluation ref of the term     *)
(*                     emitted by AdAlgebraEnum (ref is NOT computed by    *)
(*                     porepy)]                                            *)
(* The judge computes Eval(C.t, point) itself.                             *)
(*                                                                         *)
(* Clauses (one invariant, they share the evaluation of the program):      *)
(*   InFamily   self-check: the point is in the smooth domain of the       *)
(*              program (the enumerator only emits such cases)             *)
(*   Evaluates  the real evaluation returns (no exception)                 *)
(*   Shape      val has the required length, jac is (length x NN)          *)
(*   Value      "the value equals the plain numpy evaluation of the same   *)
(*              expression": rational required entries exactly, term       *)
(*              entries within the tolerance policy                        *)
(*   Jacobian   "the Jacobian equals the true derivative wherever the      *)
(*              expression is differentiable": likewise, every entry       *)
(* Tolerance policy for term entries (DESIGN section 8): e <= PassE (1e-9) *)
(* passes, e > FailE (1e-6) is a violation, in between the entry is told   *)
(* as "inconclusive".                                                      *)
(***************************************************************************)
EXTENDS Judge, AdAlgebra

PassE == 1000
FailE == 1000000

\* the scaled error recorded for entry (i, j); -1 if the harness did not supply one (-> the clause fails)
ErrOf(i, j) == IF \E k \in 1..Len(C.out.err) : C.out.err[k][1] = i /\ C.out.err[k][2] = j
               THEN C.out.err[CHOOSE k \in 1..Len(C.out.err) : C.out.err[k][1] = i /\ C.out.err[k][2] = j][3]
               ELSE -1
Req(v, i, j) == IF j = 0 THEN v[i].val ELSE JGet(v[i].jac, j)
Obs(i, j) == IF j = 0 THEN C.out.val[i] ELSE C.out.jac[i][j]
EntryOK(v, i, j) == LET r == Req(v, i, j)
                    IN IF IsQ(r) THEN Obs(i, j)[2] > 0 /\ REq(Obs(i, j), Rt(r))
                       ELSE LET e == ErrOf(i, j) IN e >= 0 /\ e <= FailE
EntryGrey(v, i, j) == ~IsQ(Req(v, i, j)) /\ ErrOf(i, j) > PassE /\ ErrOf(i, j) <= FailE

Report(clause, bad) == bad = {} \/ PrintT(ToJson([case |-> ci, clause |-> clause, bad |-> bad]))
TellSet(tag, g) == g = {} \/ PrintT(ToJson([case |-> ci, tag |-> tag, val |-> g]))

Clauses ==
  (~Judging) \/
  LET P == Points[C.pt]
      nn == NNP(P)
      E == Eval(C.t, P)
  IN IF E.k # "ad" THEN Fail("InFamily")
     ELSE IF C.out.error # "" THEN Fail("Evaluates")
     ELSE IF ~(C.out.n = Len(E.v) /\ C.out.rows = Len(E.v) /\ C.out.cols = nn) THEN Fail("Shape")
     ELSE LET v == E.v
              I == 1..Len(v)
              IJ == {<<i, j>> : i \in I, j \in 1..nn}
          IN /\ Report("Value", {<<i, 0>> : i \in {i \in I : ~EntryOK(v, i, 0)}})
             /\ Report("Jacobian", {x \in IJ : ~EntryOK(v, x[1], x[2])})
             /\ TellSet("inconclusive", {x \in IJ \cup {<<i, 0>> : i \in I} : EntryGrey(v, x[1], x[2])})
=============================================================================
