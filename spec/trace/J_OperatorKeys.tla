---------------------------- MODULE J_OperatorKeys ----------------------------
(***************************************************************************)
(* Verdict for C45.  A case is a pair of operator trees (packed form, as   *)
(* OperatorKeysEnum emitted them) that the harness built with the real     *)
(* porepy classes on a real md-grid, each from scratch:                    *)
(*   t1, t2   the trees; route = how t2 was built (OperatorKeys!Routes):   *)
(*            the verdict does not depend on it                            *)
(*   keyeq    t1._key() == t2._key()        hasheq   hash(t1) == hash(t2)  *)
(*   err      "" or the exception raised while building / asking the keys  *)
(* Clauses (the property):                                                 *)
(*   EqualKeys       structurally identical trees over the same leaf data  *)
(*                   and domains have equal keys and equal hashes          *)
(*   DistinctKeys    trees that differ in shape, operation, child order or *)
(*                   leaf data have different keys                         *)
(*   HashFollowsKey  equal keys give equal hashes                          *)
(* Mechanism, reported as drift only:                                      *)
(*   KeyAsModelled   keys agree exactly when OperatorKeys!KeyModel agrees  *)
(***************************************************************************)
EXTENDS Judge, OperatorKeys

CONSTANTS NGrids,            \* <<#subdomains, #interfaces, #boundary grids>> of the harness' grid catalogue (mechanism model only)
          TreeShiftKeepsKey  \* mechanism switch (see OperatorKeys!KeyShows): TRUE = the code as it is

T1 == Unpack(C.t1)
T2 == Unpack(C.t2)
EqualKeys == Check("EqualKeys", StructEq(T1, T2) => (C.err = "" /\ C.keyeq /\ C.hasheq))
DistinctKeys == Check("DistinctKeys", Differ(T1, T2) => (C.err = "" /\ ~C.keyeq))
HashFollowsKey == Check("HashFollowsKey", (C.err = "" /\ C.keyeq) => C.hasheq)
\* mechanism (drift only): the keys agree exactly when the transcribed key contents agree
KeyAsModelled == Check("KeyAsModelled", C.err # "" \/
  (C.keyeq <=> KeyModel(T1, NGrids) = KeyModel(KeyShows(T2, C.route[1], C.route[2], TreeShiftKeepsKey), NGrids)))
==============================================================================
