------------------------------ MODULE J_Refine ------------------------------
(***************************************************************************)
(* C23 - refinement and extrusion preserve measure and nesting.            *)
(*                                                                         *)
(* A case is [kind, parent, child, raised, ...] with parent / child grids  *)
(* in the GridGeom format (integer coordinates after a common scaling) as  *)
(* handed to / returned by porepy:                                         *)
(*  "refine1d"   child = refine_grid_1d(parent, ratio)                     *)
(*  "remesh1d"   child = remesh_1d(parent, nnodes)                         *)
(*  "refinetri"  child, map = refine_triangle_grid(parent); map[k] = parent*)
(*               cell of child k (1-based)                                 *)
(*  "extrude"    child, cellmap, _ = extrude_grid(parent, z) (also the     *)
(*               per-subdomain results of extrude_mdg); cellmap[c] = the   *)
(*               child cells of parent cell c                              *)
(*  "structured" rows = structured_refinement(parent, child): rows[k] =    *)
(*               coarse cells assigned to the fine cell k                  *)
(* Clauses (Refine.tla has the predicates):                                *)
(*  Computes        no exception on an input of the family                 *)
(*  ValidGrid       the new grid is a valid grid (closed cells, positive   *)
(*                  measure, planar faces, no overlap in 1D)               *)
(*  MeasureEqual    total measure = the original (x extrusion height)      *)
(*  MeasurePerParent the children of a parent add up to the parent         *)
(*  Nested          every child lies inside its parent (exact closed       *)
(*                  point-in-cell tests on all child nodes)                *)
(*  OneParent       every new cell has exactly one parent                  *)
(*  OnLattice       the new nodes are on the 1/12 lattice of the old ones  *)
(*                  (true for every family here; otherwise the harness     *)
(*                  could not hand exact coordinates to TLC)               *)
(*  MatchesRef      refine_grid_1d: the child segments are exactly the     *)
(*                  ratio-fold equal subdivision (Refine1dRef)             *)
(*  NodeCount / SameDomain  remesh_1d: requested number of nodes, cells    *)
(*                  inside the segment spanned by the old grid             *)
(*  DimUp           extrusion raises the dimension by one                  *)
(*  UniqueCoarse    structured_refinement: exactly one coarse cell per     *)
(*                  fine cell and it is the one containing it              *)
(* Inputs outside the family (parent not a valid grid, z not monotone /    *)
(* mixed signs, non-convex parent cells for extrusion, fine grid not       *)
(* nested in the coarse one) are skipped and counted (Tell "outside").     *)
(***************************************************************************)
EXTENDS Judge, Refine

Pg == C.parent
Cg == C.child
K == C.kind

Convex2D(G, E) == G.dim # 2 \/ E.convex
ParentOK(PE) ==
  IF Pg.dim = 0 THEN NNodes(Pg) = 1 /\ Pg.nodes[1][3] = 0
  ELSE /\ ValidGrid(Pg, PE)
       \* extrusion: convex cells in the plane z = 0; a 1D base along a coordinate axis (unit direction: lengths
       \* are then in the units of z, and the extruded grid lies in an axis-aligned plane)
       /\ K = "extrude" => /\ Convex2D(Pg, PE) /\ ZMonotone(C.z) /\ \A n \in 1..NNodes(Pg) : Pg.nodes[n][3] = 0
                           /\ Pg.dim = 1 => VDot(DirOf(Pg), DirOf(Pg)) = 1
       /\ K = "refine1d" => Divisible(Pg, C.ratio) /\ C.ratio >= 1
       /\ K = "remesh1d" => C.nnodes >= 2
       /\ K = "structured" => IsNestedPair(Pg, Cg) /\ NCells(Pg) < NCells(Cg)
ExactOf(G) == IF G.dim >= 2 THEN Basic(Flat(G)) ELSE <<>>

\* remesh_1d: the end points of the old grid = the two nodes that belong to one cell only
EndNodes(G) == {n \in 1..NNodes(G) : Cardinality({c \in 1..NCells(G) : n \in {Seg(G, c)[1], Seg(G, c)[2]}}) = 1}
SameDomain == LET e == EndNodes(Pg) IN
   /\ Cardinality(e) = 2
   /\ LET a == CHOOSE n \in e : TRUE
          b == CHOOSE n \in e : n # a
      IN \A k \in 1..NCells(Cg) : \A n \in {Seg(Cg, k)[1], Seg(Cg, k)[2]} : InSeg(P(Pg, a), P(Pg, b), P(Cg, n))

JudgeAll ==
  (~Judging) \/
  LET PE == ExactOf(Pg)
      CE == ExactOf(Cg)
      d == DirOf(Pg)
  IN
  IF ~ParentOK(PE) THEN Tell("outside", 1)
  ELSE IF C.raised THEN Check("Computes", FALSE)
  ELSE IF C.inexact THEN Check("OnLattice", FALSE)
  ELSE IF K = "refine1d" THEN
    /\ Check("ValidGrid", Cg.dim = 1 /\ ValidGrid(Cg, CE))
    /\ Check("MeasureEqual", MeasureEqual(Pg, PE, Cg, CE, d))
    /\ Check("Nested", NestedUnique(Pg, Cg))
    /\ Check("MeasurePerParent", \A c \in 1..NCells(Pg) :
           SumMeasure(Cg, CE, d, SelectSeq(AllCells(Cg), LAMBDA k : CellInside(Pg, c, Cg, k))) = CellMeasure(Pg, PE, d, c))
    /\ Check("MatchesRef", Segments(Cg) = Refine1dRef(Pg, C.ratio) /\ NCells(Cg) = C.ratio * NCells(Pg))
  ELSE IF K = "remesh1d" THEN
    /\ Check("ValidGrid", Cg.dim = 1 /\ ValidGrid(Cg, CE))
    /\ Check("MeasureEqual", MeasureEqual(Pg, PE, Cg, CE, d))
    /\ Check("NodeCount", NNodes(Cg) = C.nnodes /\ NCells(Cg) = C.nnodes - 1)
    /\ Check("SameDomain", SameDomain)
  ELSE IF K = "refinetri" THEN
    /\ Check("ValidGrid", Cg.dim = 2 /\ ValidGrid(Cg, CE))
    /\ Check("OneParent", Len(C.map) = NCells(Cg) /\ \A k \in 1..Len(C.map) : C.map[k] \in 1..NCells(Pg))
    /\ Check("MeasureEqual", MeasureEqual(Pg, PE, Cg, CE, d))
    /\ Check("MeasurePerParent", Len(C.map) = NCells(Cg) /\ MeasurePerParent(Pg, PE, Cg, CE, d, C.map))
    /\ Check("Nested", Len(C.map) = NCells(Cg) /\ Nested(Pg, Cg, C.map))
  ELSE IF K = "extrude" THEN
    /\ Check("DimUp", Cg.dim = Pg.dim + 1)
    /\ Cg.dim = Pg.dim + 1 =>
        /\ Check("ValidGrid", ValidGrid(Cg, CE))
        /\ Check("OneParent", Len(C.cellmap) = NCells(Pg) /\ OneParent(C.cellmap, NCells(Cg)))
        /\ Check("MeasureEqual", Total(Cg, CE, <<0, 0, 1>>) = RMul(R(Height(C.z)), Total(Pg, PE, d)))
        /\ Check("MeasurePerParent", Len(C.cellmap) = NCells(Pg) /\ ExtrudedMeasure(Pg, PE, Cg, CE, C.z, C.cellmap))
        /\ Check("Nested", Len(C.cellmap) = NCells(Pg) /\ ExtrudedNested(Pg, Cg, C.z, C.cellmap))
  ELSE IF K = "structured" THEN
    Check("UniqueCoarse", UniqueCoarse(Pg, Cg, C.rows))
  ELSE Assert(FALSE, <<"unknown kind", K>>)
=============================================================================
