----------------------------- MODULE M_SimDriver -----------------------------
(***************************************************************************)
(* Monitor: TLC checks the C10 clauses (and the clock clauses of C09) on   *)
(* the prefix tree of runs recorded from the real code.  Transitions are   *)
(* the recorded edges only.                                                *)
(***************************************************************************)
EXTENDS Integers, Sequences, FiniteSets, Json, IOUtils, TLC

CONSTANTS Schedule, TsDepth, ItDepth

Graph == JsonDeserialize(IOEnv.VERIF_GRAPH)
P(n) == Graph.nodes[n]
N == Len(Schedule)
Final == Schedule[N]
ShiftIn(s, x, depth) == SubSeq(<<x>> \o s, 1, depth)

VARIABLES node, acc, lastAcc, hit, lastEv
mvars == <<node, acc, lastAcc, hit, lastEv>>

MInit == /\ node = 1 /\ acc = P(1).tsv /\ lastAcc = P(1).time /\ lastEv = "init"
         /\ hit = {k \in 1..N : Schedule[k] = P(1).time}

MNext ==
  \E i \in 1..Len(Graph.edges[node]) :
    LET e == Graph.edges[node][i] IN
      /\ node' = e.dst
      /\ lastEv' = IF e.ev = "fail" /\ e.raised THEN "raised" ELSE e.ev
      /\ IF e.ev = "conv"
         THEN /\ acc' = ShiftIn(acc, P(node).itv[1], TsDepth)
              /\ lastAcc' = P(node).time
              /\ hit' = hit \cup {k \in 1..N : Schedule[k] = P(node).time}
         ELSE UNCHANGED <<acc, lastAcc, hit>>

MSpec == MInit /\ [][MNext]_mvars

Here == P(node)
Leaf == Graph.edges[node] = <<>>

\* --- C10
TsIsConvergedIterate ==
  [][lastEv' = "conv" => /\ P(node').tsv[1] = P(node).itv[1]
                         /\ \A i \in 2..TsDepth : P(node').tsv[i] = P(node).tsv[i - 1]]_mvars
IterateResetOnFailure ==
  [][lastEv' = "fail" => (P(node').itv[1] = P(node).tsv[1] /\ P(node').tsv = P(node).tsv)]_mvars
HistoryIsAccepted == lastEv \in {"init", "conv", "fail"} => Here.tsv = acc
EndsAtFinal == (Leaf /\ lastEv = "conv") => (Here.time = Final /\ hit = 1..N)
RunEnds == Leaf => lastEv \in {"conv", "raised"}
\* --- cross-component invariants
AdTimeStepIsDt == lastEv = "begin" => Here.adt = Here.dt
BeginKeepsStorage == [][lastEv' = "begin" => (P(node').tsv = P(node).tsv /\ P(node').itv = P(node).itv)]_mvars
IterateWindow == [][lastEv' = "iter" => \A i \in 2..ItDepth : P(node').itv[i] = P(node).itv[i - 1]]_mvars
ItersKeepTimeSteps == [][lastEv' = "iter" => P(node').tsv = P(node).tsv]_mvars
\* --- clock clauses of C09 on the same runs
Mono == [][lastAcc' # lastAcc => lastAcc' > lastAcc]_mvars
NoOvershoot == lastAcc <= Final
NoSkippedSchedule == \A k \in 1..N : Schedule[k] <= lastAcc => k \in hit
FailureRewinds == lastEv \in {"conv", "fail"} => Here.time = lastAcc
==============================================================================
