----------------------------- MODULE J_DofLayout -----------------------------
(***************************************************************************)
(* Verdict for C05: every state recorded from the real EquationSystem      *)
(* (after some history of create/remove calls) is judged against the       *)
(* reference layout of ref/DofLayoutRef.tla.  A case is                    *)
(*   reg    variables in creation order: [vid, name, g, d]                 *)
(*   total  num_dofs();  dofs[k] = dofs_of([variable k]);                  *)
(*   owner[i+1] = vid of identify_dof(i);                                  *)
(*   proj   [S, cols]: column indices of projection_to(S), row by row;     *)
(*   rt     [S, written, read, readadd, pervar]: set_variable_values(S)    *)
(*          then get_variable_values(S); the same after an additive write; *)
(*          pervar = what each variable's own storage received.            *)
(***************************************************************************)
EXTENDS Judge, DofLayoutRef

R == [k \in 1..Len(C.reg) |-> [vid |-> C.reg[k].vid, name |-> C.reg[k].name, g |-> C.reg[k].g,
                                ndof |-> NumDofs(C.reg[k].g, DofTypes[C.reg[k].d])]]
SetOf(s) == {s[k] : k \in 1..Len(s)}

Total  == Check("Total", C.total = RefTotal(R))
Ranges == Check("Ranges", \A k \in 1..Len(C.reg) :
                  C.dofs[k] = Range(RefRange(R, C.reg[k].vid).lo, RefRange(R, C.reg[k].vid).hi))
Owner  == Check("Owner", Len(C.owner) = RefTotal(R) /\ \A i \in 1..Len(C.owner) : C.owner[i] = RefOwner(R, i - 1))
Projection == Check("Projection", \A k \in 1..Len(C.proj) : C.proj[k].cols = RefSelect(R, SetOf(C.proj[k].S)))
RoundTrip == Check("RoundTrip", \A k \in 1..Len(C.rt) :
                  /\ C.rt[k].read = C.rt[k].written
                  /\ C.rt[k].readadd = [j \in 1..Len(C.rt[k].written) |-> 2 * C.rt[k].written[j]])
Dissect == Check("Dissect", \A k \in 1..Len(C.rt) : \A j \in 1..Len(C.rt[k].pervar) :
                  C.rt[k].pervar[j].vals = RefSlice(R, SetOf(C.rt[k].S), C.rt[k].pervar[j].vid, C.rt[k].written))
==============================================================================
