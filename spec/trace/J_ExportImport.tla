--------------------------- MODULE J_ExportImport ---------------------------
(***************************************************************************)
(* C38 judge: TLC decides, for every export -> import round trip recorded  *)
(* from the real pp.Exporter (and TimeManager / DataSavingMixin), whether  *)
(* the property clauses hold.  Reference: spec/ref/VtuLayout.tla.          *)
(*                                                                         *)
(* Round-trip cases                                                        *)
(*   in.steps            exported time-step indices, in export order       *)
(*   in.files[f]         one vtu file: layout (entities -> type keys),     *)
(*                       wu[k][g][i] scalar written at step k on cell i of *)
(*                       entity g, wv[k][g][i] = <<a,b,c>> vector written  *)
(*   out.error           "" or the exception raised by the import          *)
(*   out.index           the time index the import reports / was given     *)
(*   out.files[f]        ru[g][i], rv[g] (flat) restored values;           *)
(*                       blocks[k] = what was found in the file of step k  *)
(* Property clauses (violations):                                          *)
(*   ImportSucceeds      neither the export nor the import raises          *)
(*   LatestStep          the step restored is the largest exported index   *)
(*   RestoredIsWritten   every entity gets back, cell by cell, the values  *)
(*                       written at the step the import reports            *)
(* together: the values of the most recent step are restored exactly.      *)
(* Mechanism clause (conformance, reported as drift): BlockLayout.         *)
(*                                                                         *)
(* Time-information cases: in.hist = (time, dt) pairs <<n, d>> written;    *)
(*   out.files[k] file content after call k, out.loaded[k] lists of a      *)
(*   fresh TimeManager after loading it, out.restart[k] time, dt and lists *)
(*   after set_time_and_dt_from_exported_steps().                          *)
(*   TimeInfoRestored / TimeInfoRestart.                                   *)
(* Mixin cases (DataSavingMixin.write_pvd_and_vtu -> load_data_from_pvd    *)
(*   or load_data_from_vtu):                                               *)
(*   round-trip case plus in.hist and out.time / out.dt: TimeRestored.     *)
(***************************************************************************)
EXTENDS Judge, VtuLayout

\* in.kind: "rt" (Exporter round trip), "mixin" (round trip through the DataSavingMixin), "timeinfo"
RT == C.in.kind \in {"rt", "mixin"}
Ok == C.out.error = ""
NF == Len(C.in.files)

ImportSucceeds == Check("ImportSucceeds", RT => Ok)

LatestStep == Check("LatestStep", (RT /\ Ok) => C.out.index = Latest(C.in.steps))

RestoredAt(k) ==
  \A f \in 1..NF :
    LET fi == C.in.files[f]
        fo == C.out.files[f]
    IN /\ Len(fo.ru) = Len(fi.layout) /\ Len(fo.rv) = Len(fi.layout)
       /\ \A g \in DOMAIN fi.layout :
            /\ fo.ru[g] = fi.wu[k][g]
            /\ fo.rv[g] = FlatCells(fi.wv[k][g])
RestoredIsWritten ==
  Check("RestoredIsWritten",
        (RT /\ Ok /\ C.out.index \in Range(C.in.steps)) => RestoredAt(PosOf(C.in.steps, C.out.index)))

\* mechanism: block order, remembered cell ids and per-block data of every written file
SameBlocks(found, want) ==
  /\ Len(found) = Len(want)
  /\ \A b \in DOMAIN want : /\ found[b].key = want[b].key
                            /\ found[b].ids = want[b].ids
                            /\ found[b].data = want[b].data
BlockLayout ==
  Check("BlockLayout",
        RT => \A f \in 1..NF : \A k \in DOMAIN C.in.steps :
                SameBlocks(C.out.files[f].blocks[k], Export(C.in.files[f].layout, C.in.files[f].wu[k])))

\* mixin: the time and the step size written alongside the restored step are the current ones after loading
TimeRestored ==
  Check("TimeRestored",
        (C.in.kind = "mixin" /\ Ok) =>
          LET k == PosOf(C.in.steps, Latest(C.in.steps))
          IN C.out.time = C.in.hist[k][1] /\ C.out.dt = C.in.hist[k][2])

(* ----- time information -------------------------------------------------------------------- *)
NH == Len(C.in.hist)
SameSeq(a, b) == Len(a) = Len(b) /\ \A i \in DOMAIN a : a[i] = b[i]

TimeInfoRestored ==
  Check("TimeInfoRestored",
        C.in.kind = "timeinfo" =>
          \A k \in 1..NH :
            LET want == Loaded(FileAfter(C.in.hist, k))
            IN /\ SameSeq(C.out.loaded[k].times, want.times)
               /\ SameSeq(C.out.loaded[k].dts, want.dts))
TimeInfoRestart ==
  Check("TimeInfoRestart",
        C.in.kind = "timeinfo" =>
          \A k \in 1..NH :
            LET want == SetFromExported(Loaded(FileAfter(C.in.hist, k)), -1)
                got  == C.out.restart[k]
            IN /\ got.time = want.time /\ got.dt = want.dt
               /\ SameSeq(got.times, want.times) /\ SameSeq(got.dts, want.dts))
=============================================================================
