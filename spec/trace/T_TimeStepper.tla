---------------------------- MODULE T_TimeStepper ----------------------------
(***************************************************************************)
(* Conformance: every edge of the transition graph recorded from the real  *)
(* pp.TimeManager (harness/explore.py) must be a step of TimeStepper's     *)
(* actions.  The logged projection binds the core variables; the ghosts    *)
(* (lastAcc, hit) are inferred by the specification's own actions.         *)
(* Every state reached prints the edge it was reached by; edges that are   *)
(* never printed were rejected by the specification (reported as DRIFT).   *)
(***************************************************************************)
EXTENDS TimeStepper, Json, IOUtils, TLC

Graph == JsonDeserialize(IOEnv.VERIF_GRAPH)

VARIABLES node, via
tvars == <<vars, node, via>>

P(n) == Graph.nodes[n]

BindNow(n) ==
  /\ exact = P(n).exact
  /\ P(n).exact => /\ time = P(n).time /\ dt = P(n).dt /\ sidx = P(n).sidx
                   /\ recomp = P(n).recomp /\ about = P(n).about
                   /\ tindex = P(n).tindex
  /\ phase = P(n).phase /\ nfail = P(n).nfail

BindNext(n) ==
  /\ exact' = P(n).exact
  /\ P(n).exact => /\ time' = P(n).time /\ dt' = P(n).dt /\ sidx' = P(n).sidx
                   /\ recomp' = P(n).recomp /\ about' = P(n).about
                   /\ tindex' = P(n).tindex
  /\ phase' = P(n).phase /\ nfail' = P(n).nfail

TInit == Init /\ node = 1 /\ via = <<0, 0>> /\ BindNow(1)

TNext ==
  /\ exact
  /\ \E i \in 1..Len(Graph.edges[node]) :
      LET e == Graph.edges[node][i] IN
        /\ node' = e.dst /\ via' = <<node, i>>
        /\ CASE e.ev = "inc"  -> IncreaseTime
             [] e.ev = "conv" -> Converged(e.it)
             [] e.ev = "fail" -> Failed
        /\ BindNext(e.dst)

TSpec == TInit /\ [][TNext]_tvars

EmitVia == PrintT(ToJson(via))
==============================================================================
