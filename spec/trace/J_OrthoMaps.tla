----------------------------- MODULE J_OrthoMaps -----------------------------
(***************************************************************************)
(* C32 judge: TLC evaluates the clauses on what the real code returned.    *)
(*  in  = the record emitted by OrthoMapsEnum (kind, n, ref, pts / w, ang  *)
(*        / dim, normals)                                                  *)
(*  out = [ok (FALSE: the code raised), err,                               *)
(*         R          kinds plane, line, plane_pts, line_pts, rot: the     *)
(*                    returned 3x3 matrix, encoded [q, n, fx] (OrthoMaps)  *)
(*         v          kind normal: the returned vector                     *)
(*         P, T, N    kind tnp: project_tangential_normal(),               *)
(*                    project_tangential(), project_normal() as dense      *)
(*                    matrices;  P2, T2, N2: the same with num = 2]        *)
(* Clauses (property text in quotes); a clause holds unless some verdict   *)
(* is 2 (exact form: an integer identity is false; fixed point form: the   *)
(* deviation exceeds 1e-6):                                                *)
(*  Orthogonal         "the plane, line and rotation matrices and the      *)
(*                     tangential-normal projection blocks are orthogonal" *)
(*                     rows orthonormal; tnp: per diagonal block, and the  *)
(*                     matrix is block diagonal                            *)
(*  PreservesDistances "... and preserve distances": |M x| = |x| for all   *)
(*                     x, i.e. the columns are orthonormal                 *)
(*  UnitDeterminant    "... with unit determinant": det = +1 for the 3x3   *)
(*                     maps and the 3D projection blocks.  In 2D the code  *)
(*                     documents that the tangent is chosen to point in    *)
(*                     the positive x direction, which makes the block a   *)
(*                     reflection for half of the normals: |det| = 1 is    *)
(*                     demanded there                                      *)
(*  MapsToAxis         "... map the normal to the last local axis": the    *)
(*                     given normal (plane) / tangent (line) is mapped to  *)
(*                     the reference axis (default: the last one), with a  *)
(*                     positive component equal to its length; for a       *)
(*                     vector that is a negative multiple of the reference *)
(*                     axis the rotation axis is undetermined and either   *)
(*                     orientation on the axis is accepted.  plane_pts /   *)
(*                     line_pts (normal / tangent computed from the set):  *)
(*                     the set is mapped into a plane orthogonal to / a    *)
(*                     line along the reference axis.  tnp: "the normal    *)
(*                     component of the normal vector is its length, the   *)
(*                     tangential components vanish"                       *)
(*  NormalOrthogonal   "computed normals of planar point sets are          *)
(*                     orthogonal to the set" (and of unit length)         *)
(*  TnpConsistent      project_tangential / project_normal are the         *)
(*                     tangential / normal rows of                         *)
(*                     project_tangential_normal, and num = 2 repeats the  *)
(*                     block of the first normal                           *)
(* Kinds tilt_*: the same calls for nearly axis-aligned directions such as *)
(* (1, 0, 10^7), handed over as big vectors nb / dv = [s, cv, facs]        *)
(* (OrthoMaps.FxBigDotRel); their MapsToAxis / NormalOrthogonal verdicts   *)
(* are relative to the big component and always taken on the limbs.        *)
(* All clauses are evaluated by the single invariant Judgement (the        *)
(* verdict sets are shared); it prints one verdict record per false        *)
(* clause, and Tell("inconclusive") for a case where some fixed point      *)
(* verdict is in the band (1e-9, 1e-6] and none is a violation.            *)
(* Reading the cases: Judge!Cases is re-parsed by TLC at every reference   *)
(* (IOEnv is not constant-level), which is quadratic in the batch; so the  *)
(* harness writes one file <CaseDir>/<i>.json per case and FSpec (the      *)
(* Judge idiom on blk / ci) makes TLC read exactly the file of the case it *)
(* judges, once (Judgement binds it with LET X == Case).                   *)
(***************************************************************************)
EXTENDS Judge, OrthoMaps

CONSTANTS CaseDir,    \* directory holding 1.json .. NumCases.json
          NumCases
FBlocks == 32
Case == JsonDeserialize(CaseDir \o "/" \o ToString(ci) \o ".json")
FInit == blk \in 0..(FBlocks - 1) /\ ci = 0
FNext == /\ ci = 0
         /\ ci' \in {i \in 1..NumCases : i % FBlocks = blk}
         /\ blk' = blk
FSpec == FInit /\ [][FNext]_jvars

HasR(X) == X.in.kind \in {"plane", "line", "plane_pts", "line_pts", "rot", "tilt_plane", "tilt_plane_pts"}
IsTnp(X) == X.in.kind \in {"tnp", "tilt_tnp"}
Ref(X) == IF X.in.ref = 0 THEN 3 ELSE X.in.ref
Dim(X) == X.in.dim
NV(X) == Len(X.in.normals)

\* ---- tnp shapes
ShapeIs(M, r, c) == Len(M.fx) = r /\ \A i \in 1..r : Len(M.fx[i]) = c
TnpShapes(X) ==
  LET d == Dim(X)  k == NV(X) IN
  /\ ShapeIs(X.out.P, d * k, d * k) /\ ShapeIs(X.out.T, (d - 1) * k, d * k) /\ ShapeIs(X.out.N, k, d * k)
  /\ ShapeIs(X.out.P2, d * 2, d * 2) /\ ShapeIs(X.out.T2, (d - 1) * 2, d * 2) /\ ShapeIs(X.out.N2, 2, d * 2)
\* entries outside the diagonal blocks vanish
OffBlock(M, d, nb) == Worst({FxIsZero(M.fx[p[1]][p[2]]) :
                              p \in {pp \in (1..(d * nb)) \X (1..(d * nb)) : (pp[1] - 1) \div d # (pp[2] - 1) \div d}})

\* ---- verdict sets per clause
VRows(X) == IF HasR(X) THEN {GramV(X.out.R, 3, FALSE)}
            ELSE IF IsTnp(X)
            THEN {GramV(Block(X.out.P, b, Dim(X)), Dim(X), FALSE) : b \in 1..NV(X)}
                 \cup {OffBlock(X.out.P, Dim(X), NV(X)), OffBlock(X.out.P2, Dim(X), 2)}
            ELSE {}
VCols(X) == IF HasR(X) THEN {GramV(X.out.R, 3, TRUE)}
            ELSE IF IsTnp(X) THEN {GramV(Block(X.out.P, b, Dim(X)), Dim(X), TRUE) : b \in 1..NV(X)}
            ELSE {}
\* given the Gram verdicts: orthogonal with determinant +1 (2D projection blocks: |det| = 1, nothing to add)
VDet(X) == IF HasR(X) THEN {ProperGivenV(X.out.R, 3)}
           ELSE IF IsTnp(X) /\ Dim(X) = 3 THEN {ProperGivenV(Block(X.out.P, b, 3), 3) : b \in 1..NV(X)}
           ELSE {}
VAxis(X) ==
  LET K == X.in.kind IN
  CASE K \in {"plane", "line"} -> {MapsToAxisV(X.out.R, 3, X.in.n, Ref(X), AntiParallel(X.in.n, Ref(X)))}
    [] K = "plane_pts" -> LET ds == Diffs(X.in.pts) IN {ComponentsVanishV(X.out.R, 3, ds[i], Ref(X), TRUE) : i \in 1..Len(ds)}
    [] K = "line_pts" -> LET ds == Diffs(X.in.pts) IN {ComponentsVanishV(X.out.R, 3, ds[i], Ref(X), FALSE) : i \in 1..Len(ds)}
    [] K = "tnp" -> {MapsToAxisV(Block(X.out.P, b, Dim(X)), Dim(X), X.in.normals[b], Dim(X), FALSE) : b \in 1..NV(X)}
    \* tilted (nearly axis-aligned) directions: big vectors, always judged on the limbs, relative to the big component
    [] K = "tilt_plane" -> {BigPerpV(X.in.nb, X.out.R.fx[i]) : i \in (1..3) \ {Ref(X)}}
                           \cup {IF BigDotCoarse(X.in.nb, X.out.R.fx[Ref(X)]) > 4096 THEN 0 ELSE 2}
    [] K = "tilt_plane_pts" -> {BigPerpV(X.in.dv[i], X.out.R.fx[Ref(X)]) : i \in 1..Len(X.in.dv)}
    [] K = "tilt_tnp" -> {BigPerpV(X.in.nb, X.out.P.fx[i]) : i \in 1..(Dim(X) - 1)}
                         \cup {IF BigDotCoarse(X.in.nb, X.out.P.fx[Dim(X)]) > 4096 THEN 0 ELSE 2}
    [] OTHER -> {}
VNormal(X) == IF X.in.kind = "normal"
              THEN LET ds == Diffs(X.in.pts) IN {UnitV(X.out.v)} \cup {PerpV(X.out.v, ds[i]) : i \in 1..Len(ds)}
              ELSE IF X.in.kind = "tilt_normal"
              THEN {UnitV(X.out.v)} \cup {BigPerpV(X.in.dv[i], X.out.v.fx) : i \in 1..Len(X.in.dv)}
              ELSE {}
\* T / N are the tangential / normal rows of P (nb blocks of size d)
ConsSet(P, T, N, d, nb) ==
  {CloseV(T.fx[(b - 1) * (d - 1) + i][j], P.fx[(b - 1) * d + i][j]) : b \in 1..nb, i \in 1..(d - 1), j \in 1..(d * nb)}
  \cup {CloseV(N.fx[b][j], P.fx[(b - 1) * d + d][j]) : b \in 1..nb, j \in 1..(d * nb)}
\* num = 2: both diagonal blocks repeat the block of the first normal (so they inherit its verdicts)
VCons(X) ==
  IF IsTnp(X)
  THEN LET d == Dim(X) IN
       ConsSet(X.out.P, X.out.T, X.out.N, d, NV(X)) \cup ConsSet(X.out.P2, X.out.T2, X.out.N2, d, 2)
       \cup {CloseV(X.out.P2.fx[(b - 1) * d + i][(b - 1) * d + j], X.out.P.fx[i][j]) : b \in 1..2, i \in 1..d, j \in 1..d}
  ELSE {}

Shaped(X) == IsTnp(X) => TnpShapes(X)
Applies(X, name) ==
  CASE name \in {"Orthogonal", "PreservesDistances", "UnitDeterminant"} -> HasR(X) \/ IsTnp(X)
    [] name = "MapsToAxis" -> X.in.kind \in {"plane", "line", "plane_pts", "line_pts", "tnp", "tilt_plane", "tilt_plane_pts", "tilt_tnp"}
    [] name = "NormalOrthogonal" -> X.in.kind \in {"normal", "tilt_normal"}
    [] name = "TnpConsistent" -> IsTnp(X)

JudgeCase(X) ==
  IF ~(X.out.ok /\ Shaped(X))
  THEN \A name \in {"Orthogonal", "PreservesDistances", "UnitDeterminant", "MapsToAxis", "NormalOrthogonal", "TnpConsistent"} :
         Check(name, ~Applies(X, name))
  ELSE LET vr == VRows(X)  vc == VCols(X)  vd == VDet(X)  va == VAxis(X)  vn == VNormal(X)  vs == VCons(X)
           gram == Worst(vr \cup vc)
           all == vr \cup vc \cup vd \cup va \cup vn \cup vs
       IN /\ Check("Orthogonal", 2 \notin vr)
          /\ Check("PreservesDistances", 2 \notin vc)
          /\ Check("UnitDeterminant", gram # 2 /\ 2 \notin vd)
          /\ Check("MapsToAxis", 2 \notin va)
          /\ Check("NormalOrthogonal", 2 \notin vn)
          /\ Check("TnpConsistent", 2 \notin vs)
          /\ (1 \in all /\ 2 \notin all) => Tell("inconclusive", 1)
Judgement == (~Judging) \/ LET X == Case IN JudgeCase(X)
=============================================================================
