--------------------------- MODULE J_Equivariance ---------------------------
(***************************************************************************)
(* C20 - grid geometry is equivariant under rigid motions.                 *)
(*                                                                         *)
(* A case is                                                               *)
(*   [M |-> 3x3 integer matrix, q |-> positive integer, t |-> <<i,j,k>>,   *)
(*    a |-> geometry of a grid g with integer nodes,                       *)
(*    b |-> geometry of the grid with nodes (M / q) x + t,                 *)
(*    raised |-> compute_geometry raised on the moved grid,                *)
(*    check |-> TRUE if g must first be shown to be a valid grid (closed,   *)
(*              planar, positive; convex cells if convex = TRUE: grids     *)
(*              whose face orientation is inconsistent),                   *)
(*    g |-> the grid (GridGeom format; <<>> unless check)]                 *)
(* a, b = [vol, cc, fc, fn, fa2] as computed by porepy's compute_geometry  *)
(* and converted to rationals (fa2 = face areas squared).  R = M / q is a  *)
(* proper rotation with rational entries (signed permutation matrices,     *)
(* q = 1; rotations of integer quaternions, q = |quaternion|^2; products). *)
(* 1D and 2D grids are thereby embedded in arbitrary rational lines and    *)
(* planes of 3-space.                                                      *)
(*                                                                         *)
(* Clauses (the property):                                                 *)
(*   VolumesSame      b.vol = a.vol                                        *)
(*   AreasSame        b.fa2 = a.fa2                                        *)
(*   CellCentersMoved b.cc[c] = R a.cc[c] + t                              *)
(*   FaceCentersMoved b.fc[f] = R a.fc[f] + t                              *)
(*   NormalsRotated   b.fn[f] = R a.fn[f]                                  *)
(*   Computes         the moved grid does not make compute_geometry raise  *)
(* The right-hand sides are computed by TLC in exact rational arithmetic   *)
(* (common denominator of the three components, so that 32-bit integers    *)
(* suffice) and compared structurally with porepy's numbers.  MotionIsRigid *)
(* (R R^T = I, det R = 1) is a law about the input and asserted.  Cases    *)
(* whose base geometry a has huge denominators (cannot come from a correct *)
(* geometry of the families; C19 reports those) are skipped and counted.   *)
(***************************************************************************)
EXTENDS Judge, GridGeom

A == C.a
B == C.b
M == C.M
Q == C.q

MotionIsRigid ==
  /\ Q > 0
  /\ \A i, j \in 1..3 : ISum([k \in 1..3 |-> M[i][k] * M[j][k]]) = (IF i = j THEN Q * Q ELSE 0)
  /\ VDot(M[1], VCross(M[2], M[3])) = Q * Q * Q

Lcm(x, y) == (x * y) \div GCD(x, y)
\* common denominator of a rational 3-vector (0 if it would exceed the bound)
Den3(v) == LET l == Lcm(v[1][2], v[2][2]) IN
           IF v[1][2] > 6000 \/ v[2][2] > 6000 \/ v[3][2] > 6000 \/ l > 6000 THEN 0
           ELSE IF Lcm(l, v[3][2]) > 6000 THEN 0 ELSE Lcm(l, v[3][2])
VecSmall(v) == Den3(v) > 0 /\ \A i \in 1..3 : Abs(v[i][1]) <= 64 * v[i][2]
\* R v + s  (s an integer vector) as a normalised rational vector
Moved(v, s) ==
  LET D == Den3(v)
      w == <<v[1][1] * (D \div v[1][2]), v[2][1] * (D \div v[2][2]), v[3][1] * (D \div v[3][2])>>
  IN [i \in 1..3 |-> RNorm(VDot(M[i], w) + s[i] * Q * D, Q * D)]
Same3(u, v) == \A i \in 1..3 : u[i] = v[i]

NC == Len(A.vol)
NF == Len(A.fa2)
ShapeOK == /\ Len(A.cc) = NC /\ Len(B.cc) = NC /\ Len(B.vol) = NC
           /\ Len(A.fc) = NF /\ Len(A.fn) = NF /\ Len(B.fc) = NF /\ Len(B.fn) = NF /\ Len(B.fa2) = NF
BaseSmall == /\ \A c \in 1..NC : VecSmall(A.cc[c])
             /\ \A f \in 1..NF : VecSmall(A.fc[f]) /\ VecSmall(A.fn[f])

JudgeAll ==
  (~Judging) \/
  /\ Assert(MotionIsRigid, <<"not a rigid motion", ci>>)
  /\ Assert(ShapeOK, <<"malformed case", ci>>)
  /\ IF C.check /\ ~(LET E == Basic(C.g) IN ValidE(C.g, E) /\ E.star /\ (C.convex => E.convex)) THEN Tell("outside", 1)
     ELSE IF ~BaseSmall THEN Tell("skipped", 1)
     ELSE IF C.raised THEN Check("Computes", FALSE)
     ELSE
       /\ Check("VolumesSame", \A c \in 1..NC : B.vol[c] = A.vol[c])
       /\ Check("AreasSame", \A f \in 1..NF : B.fa2[f] = A.fa2[f])
       /\ Check("CellCentersMoved", \A c \in 1..NC : Same3(B.cc[c], Moved(A.cc[c], C.t)))
       /\ Check("FaceCentersMoved", \A f \in 1..NF : Same3(B.fc[f], Moved(A.fc[f], C.t)))
       /\ Check("NormalsRotated", \A f \in 1..NF : Same3(B.fn[f], Moved(A.fn[f], VZero)))
=============================================================================
