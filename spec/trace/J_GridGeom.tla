----------------------------- MODULE J_GridGeom -----------------------------
(***************************************************************************)
(* C19 - computed grid geometry satisfies the divergence theorem.          *)
(*                                                                         *)
(* A case is  [g |-> grid (GridGeom format, integer nodes),                *)
(*             meas |-> <<n, d>> measure of the domain (known by            *)
(*                      construction of the family; <<0, 1>>: not known,   *)
(*                      then the sum of the exact cell measures is used),  *)
(*             strict, convex, raised |-> booleans (see below),            *)
(*             out |-> [vol, cc, fc, fn, fa2]]                             *)
(* where out is what porepy's compute_geometry produced, converted to      *)
(* rationals (fa2 = face_areas squared).                                   *)
(*                                                                         *)
(* Two groups of clauses, all evaluated by TLC:                            *)
(*  (I) the property as stated, on porepy's OWN output:                    *)
(*      VolPositive   cell volumes > 0                                     *)
(*      VolSum        they sum to the measure of the domain                *)
(*      NormalLength  n_f . n_f = area_f^2                                 *)
(*      Outward       s_cf n_f points away from the cell (tested against   *)
(*                    the exact centroid; demanded where the exact         *)
(*                    geometry has this sign, i.e. for every cell that is  *)
(*                    star-shaped w.r.t. its centroid)                     *)
(*      Closed        sum_f s_cf n_f = 0 for every cell                    *)
(*      Divergence    sum_f s_cf (x_f - p0) . n_f = dim |c|                *)
(*      Centroid      sum_f s_cf (x_f - p0) ((x_f - p0) . n_f)             *)
(*                       = (dim + 1) |c| (x_c - p0)                        *)
(*      (p0 = first node: a point of the grid's line / plane; the last two *)
(*      only for planar faces - the families contain nothing else and      *)
(*      Valid(E) verifies that).                                           *)
(*      They are evaluated in integers over a common denominator L <= 12;  *)
(*      SmallG(X) guards against 32-bit overflow on garbage values - such  *)
(*      a value is reported by group (II) and by Representable (the exact  *)
(*      values are within the bounds, so the computed ones must be).       *)
(*  (II) comparison with the exact geometry (GridGeom.Exact):              *)
(*      VolExact CenterExact FaceCenterExact NormalExact AreaExact         *)
(*      (structural equality of normalised rationals - no arithmetic on    *)
(*      porepy's numbers).  dim 1: |c|^2 = squared length, and the normal  *)
(*      is characterised by: unit length, parallel to the line, pointing   *)
(*      away from the cell with positive sign.                             *)
(*      Computes      compute_geometry does not raise on a valid grid      *)
(* Further case fields: strict (the family guarantees validity), convex    *)
(* (only meaningful for convex cells), raised (compute_geometry raised),   *)
(* meas = <<0, 1>> when the measure is not known by construction.          *)
(* Model laws about the INPUT are Asserts (machinery, not verdicts).       *)
(***************************************************************************)
EXTENDS Judge, GridGeom

G == C.g
X == C.out
NC == NCells(G)
NF == NFaces(G)
P0 == P(G, 1)

\* ---- guard: a common denominator L <= 12 for fc, fn, vol and bounded magnitudes -------------------------
\* (Y is a geometry record: porepy's output X or the exact geometry E)
DenOK(r, L) == r[2] > 0 /\ L % r[2] = 0
LOK(Y, L) == /\ \A f \in 1..NF : \A i \in 1..3 : DenOK(Y.fc[f][i], L) /\ DenOK(Y.fn[f][i], L)
             /\ \A c \in 1..NC : DenOK(Y.vol[c], L)
Bounded(r, b) == Abs(r[1]) <= b * r[2]
SmallG(Y) == /\ \E L \in 1..12 : LOK(Y, L)
             /\ \A f \in 1..NF : \A i \in 1..3 : Bounded(Y.fc[f][i], 12) /\ Bounded(Y.fn[f][i], 40)
             /\ \A c \in 1..NC : /\ Bounded(Y.vol[c], 200)
                                 /\ \A i \in 1..3 : Y.cc[c][i][2] \in 1..6000 /\ Bounded(Y.cc[c][i], 12)
LeastL == CHOOSE L \in 1..12 : LOK(X, L) /\ \A M \in 1..(L - 1) : ~LOK(X, M)
I(r, L) == r[1] * (L \div r[2])
A(f, L) == <<I(X.fc[f][1], L) - P0[1] * L, I(X.fc[f][2], L) - P0[2] * L, I(X.fc[f][3], L) - P0[3] * L>>
B(f, L) == <<I(X.fn[f][1], L), I(X.fn[f][2], L), I(X.fn[f][3], L)>>
Face(c, i) == G.cf[c][i][1]
Sg(c, i) == G.cf[c][i][2]

IdVolPositive == \A c \in 1..NC : X.vol[c][1] > 0 /\ X.vol[c][2] > 0
IdVolSum(L, m) == ISum([c \in 1..NC |-> I(X.vol[c], L)]) * m[2] = m[1] * L
IdNormalLength(L) == \A f \in 1..NF : RNorm(VDot(B(f, L), B(f, L)), L * L) = X.fa2[f]
IdClosed(L) == \A c \in 1..NC : VSum([i \in 1..Len(G.cf[c]) |-> VScale(Sg(c, i), B(Face(c, i), L))]) = VZero
IdDivergence(L) == \A c \in 1..NC :
   ISum([i \in 1..Len(G.cf[c]) |-> Sg(c, i) * VDot(A(Face(c, i), L), B(Face(c, i), L))]) = G.dim * I(X.vol[c], L) * L
IdCentroid(L) == \A c \in 1..NC :
   LET lhs == VSum([i \in 1..Len(G.cf[c]) |->
                      VScale(Sg(c, i) * VDot(A(Face(c, i), L), B(Face(c, i), L)), A(Face(c, i), L))])
       k == RMul(R(G.dim + 1), X.vol[c])
   IN \A j \in 1..3 : RNorm(lhs[j], L * L * L) = RMul(k, RSub(X.cc[c][j], R(P0[j])))
\* sign of s n_f . (xf - xc) with the exact face centre / cell centre (E) and the normal nf (integer vector)
Lcm(a, b) == (a * b) \div GCD(a, b)
Away(E, c, i, nf) ==
  LET f == Face(c, i)
      xc == E.cc[c]
      xf == E.fc[f]
      D == Lcm(Lcm(Lcm(xc[1][2], xc[2][2]), Lcm(xc[3][2], xf[1][2])), Lcm(xf[2][2], xf[3][2]))
      d == <<I(xf[1], D) - I(xc[1], D), I(xf[2], D) - I(xc[2], D), I(xf[3], D) - I(xc[3], D)>>
  IN Sgn(Sg(c, i) * VDot(d, nf))
ExactN(E, f) == IF G.dim = 1 THEN VZero ELSE <<I(E.fn[f][1], 2), I(E.fn[f][2], 2), I(E.fn[f][3], 2)>>
IdOutward(E, L) == \A c \in 1..NC : \A i \in 1..Len(G.cf[c]) :
   (G.dim = 1 \/ Away(E, c, i, ExactN(E, Face(c, i))) > 0) => Away(E, c, i, B(Face(c, i), L)) > 0

\* ---- exact comparison ------------------------------------------------------------------------------------
ExVol(E) == \A c \in 1..NC :
   IF G.dim = 1 THEN X.vol[c][1] > 0 /\ X.vol[c][2] \in 1..1000 /\ Abs(X.vol[c][1]) <= 30000
                     /\ RMul(X.vol[c], X.vol[c]) = E.vol[c]
   ELSE X.vol[c] = E.vol[c]
ExCenter(E) == \A c \in 1..NC : X.cc[c] = E.cc[c]
ExFaceCenter(E) == \A f \in 1..NF : X.fc[f] = E.fc[f]
ExArea(E) == \A f \in 1..NF : X.fa2[f] = E.fa2[f]
\* dim 1: unit vector along the line, pointing out of the cell where the sign is positive
Normal1OK(E, f, L) ==
  /\ VDot(B(f, L), B(f, L)) = L * L
  /\ VCross(B(f, L), Dir1(G)) = VZero
  /\ \A c \in CellsOf(G, f) :
       LET i == CHOOSE i \in 1..2 : Face(c, i) = f IN Away(E, c, i, B(f, L)) > 0
ExNormal(E, ok, L) == \A f \in 1..NF :
   IF G.dim = 1 THEN ok /\ Normal1OK(E, f, L) ELSE X.fn[f] = E.fn[f]
\* the exact geometry is within the bounds of the integer evaluation (dim 1: the unit tangent is rational)
SmallExact(E) == IF G.dim = 1 THEN /\ \E k \in 1..64 : k * k = VDot(Dir1(G), Dir1(G))
                                   /\ \A n \in 1..NNodes(G) : \A i \in 1..3 : Abs(G.nodes[n][i]) <= 12
                 ELSE SmallG(E)

\* ---- shape of the recorded output (machinery) ----------------------------------------------------------------
IsRat(r) == Len(r) = 2 /\ r[2] > 0
OutputShape ==
  /\ Len(X.vol) = NC /\ Len(X.cc) = NC /\ Len(X.fc) = NF /\ Len(X.fn) = NF /\ Len(X.fa2) = NF
  /\ \A c \in 1..NC : IsRat(X.vol[c]) /\ Len(X.cc[c]) = 3 /\ \A i \in 1..3 : IsRat(X.cc[c][i])
  /\ \A f \in 1..NF : /\ IsRat(X.fa2[f]) /\ Len(X.fc[f]) = 3 /\ Len(X.fn[f]) = 3
                      /\ \A i \in 1..3 : IsRat(X.fc[f][i]) /\ IsRat(X.fn[f][i])

\* ---- the input family ------------------------------------------------------------------------------------------
\* Valid: the grid is well formed, closed, planar, positively oriented, its exact geometry satisfies the
\* identities (GridGeom.LawsE); dim 3: faces star-shaped w.r.t. their node mean (convex faces are); C.convex: the
\* case is only meaningful for convex cells (grids whose face orientation is inconsistent: porepy documents its
\* fallback for convex cells only).  Cases that TLC finds outside the family (possible for the randomly perturbed
\* ones, C.strict = FALSE) are skipped and counted; for the others it is a machinery failure (Assert).
Valid(E) == LawsE(G, E) /\ E.star /\ (C.convex => E.convex)
Measure(E) == IF C.meas[1] = 0 THEN TotalMeasure(G, E) ELSE C.meas

JudgeAll ==
  (~Judging) \/
  LET E == Exact(G)
      valid == Valid(E)
      ok == SmallG(X)
      L == LeastL
  IN
    /\ Assert(OutputShape, <<"malformed case", ci>>)
    /\ (C.strict /\ ~valid) => Assert(FALSE, <<"strict case outside the family", ci>>)
    /\ (valid /\ G.dim > 1) => Assert(TotalMeasure(G, E) = Measure(E), <<"measure of the family is wrong", ci>>)
    /\ IF ~valid THEN Tell("outside", 1)
       ELSE IF C.raised THEN Check("Computes", FALSE)
       ELSE
        /\ Check("VolExact", ExVol(E))
        /\ Check("CenterExact", ExCenter(E))
        /\ Check("FaceCenterExact", ExFaceCenter(E))
        /\ Check("NormalExact", ExNormal(E, ok, L))
        /\ Check("AreaExact", ExArea(E))
        \* the exact values are small rationals, so must be the computed ones
        /\ Check("Representable", SmallExact(E) => ok)
        /\ (~SmallExact(E)) => Tell("skipped", 1)
        /\ ok =>
             /\ Check("VolPositive", IdVolPositive)
             /\ (G.dim > 1 \/ C.meas[1] # 0) => Check("VolSum", IdVolSum(L, Measure(E)))
             /\ Check("NormalLength", IdNormalLength(L))
             /\ Check("Outward", IdOutward(E, L))
             /\ Check("Closed", IdClosed(L))
             /\ Check("Divergence", IdDivergence(L))
             /\ Check("Centroid", IdCentroid(L))
=============================================================================
