----------------------------- MODULE M_SparseNd -----------------------------
(***************************************************************************)
(* Monitor for C46: TLC model-checks "a SparseNdArray behaves like a       *)
(* dictionary of coordinates" on the transition graph RECORDED FROM THE    *)
(* REAL OBJECT (harness/explore.py).  Nothing of the mechanism model       *)
(* SparseNd is used: transitions are the recorded edges, the ghost `dict`  *)
(* is the plain dictionary (CoordDict) fed with the recorded call          *)
(* arguments.  Nodes are the projections [coords, vals, nadd] of the real  *)
(* object; an edge is a call [ev = "add", batch, vals, additive] or        *)
(* [ev = "get", batch] with the observed outcome [res, out].               *)
(*                                                                         *)
(* Clauses of C46 (each evaluated, as part of the next-state relation, on  *)
(* every recorded edge under every dictionary that a recorded history       *)
(* produces; a false clause prints a verdict record [g, clause, path, want] *)
(* and TLC goes on, so the verdict is total):                               *)
(*   GetReturnsDict   reading inserted coordinates returns what the        *)
(*                    dictionary holds, in the order asked for             *)
(*   GetAbsentRaises  reading a batch with a never-inserted coordinate      *)
(*                    raises                                               *)
(*   ReadsDoNotWrite  a read leaves the stored (coordinate, value) pairs    *)
(*                    unchanged                                            *)
(*   AddAccepted      an insertion does not raise                           *)
(***************************************************************************)
EXTENDS CoordDict, Json, IOUtils, TLC

\* the file holds a sequence of recorded graphs (one per configuration); gi selects one
Graphs == JsonDeserialize(IOEnv.VERIF_GRAPH)

VARIABLES gi, node, dict, path
mvars == <<gi, node, dict, path>>
\* `path` (edge indices from node 1) only serves to report the history; it is not part of the view, so every
\* (node, dictionary) pair is expanded once and every recorded edge is judged once per dictionary reaching it
MView == <<gi, node, dict>>

Graph == Graphs[gi]
P(n) == Graph.nodes[n]
E(n, i) == Graph.edges[n][i]
PairSet(n) == {<<P(n).coords[k], P(n).vals[k]>> : k \in 1..Len(P(n).coords)}

MInit == gi \in 1..Len(Graphs) /\ node = 1 /\ dict = EmptyDict /\ path = <<>>

\* ---- the clauses, on the recorded edge i = e out of the current node under the current dictionary ----
Want(e) == IF e.ev = "get" THEN DictGet(dict, e.batch) ELSE [res |-> "ok", out |-> <<>>]
\* (IF, not a disjunction: in a next-state relation TLC explores both disjuncts)
Check(clause, ok, e, i) ==
  IF ok THEN TRUE
  ELSE PrintT(ToJson([g |-> gi, clause |-> clause, path |-> Append(path, i), want |-> Want(e).out]))

GetReturnsDict(e, i) ==
  Check("GetReturnsDict", (e.ev = "get" /\ DictHasAll(dict, e.batch)) => (e.res = "ok" /\ e.out = Want(e).out), e, i)
GetAbsentRaises(e, i) ==
  Check("GetAbsentRaises", (e.ev = "get" /\ ~DictHasAll(dict, e.batch)) => e.res # "ok", e, i)
ReadsDoNotWrite(e, i) ==
  Check("ReadsDoNotWrite", e.ev = "get" => PairSet(e.dst) = PairSet(node), e, i)
AddAccepted(e, i) ==
  Check("AddAccepted", e.ev = "add" => e.res = "ok", e, i)

MNext ==
  \E i \in 1..Len(Graph.edges[node]) :
    LET e == E(node, i) IN
      /\ GetReturnsDict(e, i) /\ GetAbsentRaises(e, i) /\ ReadsDoNotWrite(e, i) /\ AddAccepted(e, i)
      /\ gi' = gi /\ node' = e.dst /\ path' = Append(path, i)
      /\ dict' = IF e.ev = "add" THEN DictAdd(dict, e.batch, e.vals, e.additive) ELSE dict

MSpec == MInit /\ [][MNext]_mvars
=============================================================================
