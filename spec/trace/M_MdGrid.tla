------------------------------ MODULE M_MdGrid ------------------------------
(***************************************************************************)
(* Monitor for C24: TLC model-checks "the mixed-dimensional grid container  *)
(* stays consistent under any history" on the transition graphs RECORDED    *)
(* FROM THE REAL pp.MixedDimensionalGrid.  Nothing of the mechanism model    *)
(* (sys/MdGrid.tla) is used: transitions are the recorded edges, the ghost   *)
(* `st` is the reference container state of ref/MdGridRef.tla fed with the   *)
(* recorded calls (RefApply).  A node is what the public API answered        *)
(* (every listing and lookup, see MdGridRef).                                *)
(*                                                                         *)
(* On every recorded edge, under every reference state a recorded history    *)
(* produces, the clauses of C24 are evaluated as part of the next-state      *)
(* relation: Accepted and RemoveExact on the transition, ListingSorted,      *)
(* InterfaceListing, PairRoundTrip, OneBoundaryGrid, DataCarriedOver,        *)
(* NoDangling on the state reached.  A false clause prints a verdict record  *)
(* [g, clause, path] (path = edge indices from node 1) and TLC goes on, so   *)
(* the verdict is total.  `path` is not part of the view: every              *)
(* (node, reference state) pair is expanded once.                            *)
(***************************************************************************)
EXTENDS MdGridRef, Json, IOUtils

Graphs == JsonDeserialize(IOEnv.VERIF_GRAPH)

VARIABLES gi, node, st, path
mvars == <<gi, node, st, path>>
MView == <<gi, node, st>>

G == Graphs[gi]
D == G.pool.D
M == G.pool.M
P(n) == G.nodes[n]

\* the container the history starts from (built by the mesher for the fractured catalogue, empty otherwise);
\* G.init.ifs = sequence of <<interface, a, b>>, every data dictionary tagged with its object's name
InitSt(g) ==
  LET I == {g.init.ifs[k][1] : k \in 1..Len(g.init.ifs)}
      S == SetOf(g.init.sds)
  IN [sds |-> S,
      ifs |-> [i \in I |-> LET k == CHOOSE j \in 1..Len(g.init.ifs) : g.init.ifs[j][1] = i
                           IN <<g.init.ifs[k][2], g.init.ifs[k][3]>>],
      tag |-> [s \in S |-> s], itag |-> [i \in I |-> i],
      btag |-> [s \in {x \in S : g.pool.D[x] > 0} |-> s]]

\* (IF, not a disjunction: inside a next-state relation TLC explores both disjuncts)
Chk(clause, ok, p) == IF ok THEN TRUE ELSE PrintT(ToJson([g |-> gi, clause |-> clause, path |-> p]))

JudgeState(s, o, p) ==
  /\ Chk("ListingSorted", ListingSorted(D, s, o), p)
  /\ Chk("InterfaceListing", InterfaceListing(M, s, o), p)
  /\ Chk("PairRoundTrip", PairRoundTrip(D, M, s, o), p)
  /\ Chk("OneBoundaryGrid", OneBoundaryGrid(D, s, o), p)
  /\ Chk("DataCarriedOver", DataCarriedOver(D, s, o), p)
  /\ Chk("NoDangling", NoDangling(D, M, s, o), p)

MInit == /\ gi \in 1..Len(Graphs) /\ node = 1 /\ path = <<>>
         /\ st = InitSt(G)
         /\ JudgeState(InitSt(G), P(1), <<>>)

MNext ==
  \E i \in 1..Len(G.edges[node]) :
    LET e == G.edges[node][i]
        r == RefApply(D, st, e)
        p == Append(path, i)
    IN /\ e.fam                 \* calls outside the family (see c24.py) are recorded but not judged
       \* the call is in the family with respect to the reference state as well: once the real container has left the
       \* reference (reported on the edge where that happened) the history is not followed further
       /\ FamCall(D, M, st, e)
       /\ Chk("Accepted", r.ok => e.res = "ok", p)
       /\ IF e.ev = "remove" THEN Chk("RemoveExact", RemoveExact(e.res, e.s, P(node), P(e.dst)), p) ELSE TRUE
       /\ JudgeState(r.st, P(e.dst), p)
       /\ gi' = gi /\ node' = e.dst /\ st' = r.st /\ path' = p

MSpec == MInit /\ [][MNext]_mvars
=============================================================================
