---------------------------- MODULE T_MortarMaps ----------------------------
(***************************************************************************)
(* Conformance for C26: every transition recorded from porepy (a call of    *)
(* replace_subdomains_and_interfaces on a real fractured md-grid, harness/   *)
(* props/c26.py) must be the matching step of ref/MortarMapsRef.tla, and all *)
(* eight projection matrices recorded afterwards (exact rationals, per       *)
(* mortar side, ordered along the fracture) must equal the model's entry by  *)
(* entry.  VERIF_GRAPH holds a sequence of recorded graphs; a node is        *)
(* [ifs |-> observations of the 1-d interfaces, ...], the model follows      *)
(* interface number 1 (the one the calls act on).                            *)
(* Every recorded edge that is a step of the model is printed as             *)
(* <<graph, node, edge>>; edges never printed were rejected (DRIFT).         *)
(***************************************************************************)
EXTENDS MortarMapsRef, Json, IOUtils, TLC

Graphs == JsonDeserialize(IOEnv.VERIF_GRAPH)

VARIABLES gi, node, m
tvars == <<gi, node, m>>
TView == <<gi, node>>

G == Graphs[gi]
P(n) == G.nodes[n]

TInit == /\ gi \in 1..Len(Graphs) /\ node = 1
         /\ m = InitModel(P(1).ifs[1].prim, P(1).ifs[1].mort, P(1).ifs[1].sec)
         /\ SameMaps(ModelObs(m), P(1).ifs[1])

Step(e, dup) == CASE e.ev = "um" -> StepUM(m, e.parts)
                  [] e.ev = "us" -> StepUS(m, e.part)
                  [] e.ev = "up" -> StepUP(m, <<e.part, e.part>>, dup)

TNext ==
  \E i \in 1..Len(G.edges[node]) :
    LET e == G.edges[node][i]
        nm == Step(e, FALSE)
    IN /\ e.res = "ok" /\ P(e.dst).err = ""
       /\ SameMaps(ModelObs(nm), P(e.dst).ifs[1])
       /\ gi' = gi /\ node' = e.dst /\ m' = nm
       /\ PrintT(ToJson(<<gi, node, i>>))

TSpec == TInit /\ [][TNext]_tvars
=============================================================================
