---------------------------- MODULE J_Conservation ----------------------------
(***************************************************************************)
(* C04 judge: TLC evaluates the clauses on what was recorded from the real *)
(* porepy models (pp.SinglePhaseFlow, pp.MassAndEnergyBalance) on real     *)
(* mixed-dimensional grids with closed boundaries and no sources.          *)
(*                                                                         *)
(* Case kind "structure" (one per model; BINDING A):                       *)
(*   out.net    the incidence data the balance equations use, in the       *)
(*              format of Conservation.tla PART 1: the real divergence     *)
(*              pp.ad.Divergence (rows / cols; an entry that is not an     *)
(*              integer is recorded as 0), the real mortar_to_primary_int  *)
(*              (prow / pcol) and mortar_to_secondary_int (srow / scol) of *)
(*              pp.ad.MortarProjections with integer weights over the      *)
(*              common denominator W.  W = 0: the weights are not small    *)
(*              rationals (non-matching simplex grids); then out.pfx[m] /  *)
(*              out.sfx[m] hold the weights of mortar cell m as limbs      *)
(*              (exponent 2) and the partition clause is judged in fixed   *)
(*              point, the exact ledger clause does not apply.             *)
(*   out.maps   columns of the REAL linear map "unit interface flux on one *)
(*              mortar cell -> change of the cell residuals of a balance   *)
(*              equation", measured by evaluating the equation of the      *)
(*              model with that variable value set to 1 resp. 0:           *)
(*              [eq, var, intf, m, e, ent = <<<<cell, limbs>>, ...>>]      *)
(* Case kind "state" (one per model and random state; BINDING B):          *)
(*   out.eqs    per balance equation [name, e, R, A, M]: per cell the      *)
(*              residual of the equation, the accumulation rate term       *)
(*              dt(accumulation) and the magnitude of the individual flux  *)
(*              contributions (|div| |flux| + |source|), as limbs          *)
(*   out.dj     per equation and interface [eq, intf, e, D]: per cell the  *)
(*              change of the residual caused by that interface's fluxes   *)
(*                                                                         *)
(* Clauses (one invariant, Judgement, evaluates all of them):              *)
(*   Computes            the model could be built and evaluated            *)
(*   DivIncidence        "inter-cell fluxes cancel": every face column of  *)
(*                       the divergence is {+1, -1} (inner face) or a      *)
(*                       single +-1                                        *)
(*   MortarPartition     "interface fluxes cancel": every mortar cell      *)
(*                       hands its flux to one-sided faces of the higher-  *)
(*                       dimensional subdomain with weights summing to 1   *)
(*                       and to cells of the lower-dimensional subdomain   *)
(*                       with weights summing to 1                         *)
(*   LedgerBalanced      the real incidence data form a well-formed ledger *)
(*                       network and TotalResidual = TotalAccumulationRate *)
(*                       holds on it for integer test fluxes (exact)       *)
(*   InterfaceMapCancels every measured column sums to 0 over all cells:   *)
(*                       sum over the higher-dimensional subdomain = minus *)
(*                       sum over the lower-dimensional one, 0 elsewhere   *)
(*   MassConserved       sum of the mass balance residuals over all cells  *)
(*                       of all subdomains = sum of the accumulation rates *)
(*   EnergyConserved     the same for the energy balance                   *)
(*   InterfaceCancels    per interface: the residual change caused by its  *)
(*                       fluxes sums to 0 (hi = - lo, 0 elsewhere)         *)
(* Fixed point clauses follow the tolerance policy of Conservation.tla     *)
(* PART 2 relative to the scale stated there; a verdict in the band is     *)
(* reported with Tell("inconclusive"), a unit / scale that does not fit    *)
(* with Tell("machinery") (the harness raises: exit 2, never a verdict).   *)
(* Cases are read one file per case (see J_OrthoMaps.tla).                 *)
(***************************************************************************)
EXTENDS Judge, Conservation

CONSTANTS CaseDir, NumCases
FBlocks == 32
Case == JsonDeserialize(CaseDir \o "/" \o ToString(ci) \o ".json")
FInit == blk \in 0..(FBlocks - 1) /\ ci = 0
FNext == /\ ci = 0
         /\ ci' \in {i \in 1..NumCases : i % FBlocks = blk}
         /\ blk' = blk
FSpec == FInit /\ [][FNext]_jvars

AllClauses == {"Computes", "DivIncidence", "MortarPartition", "LedgerBalanced", "InterfaceMapCancels",
               "MassConserved", "EnergyConserved", "InterfaceCancels"}
Applies(X, name) ==
  CASE name = "Computes" -> TRUE
    [] name \in {"DivIncidence", "MortarPartition", "LedgerBalanced", "InterfaceMapCancels"} -> X.in.kind = "structure"
    [] name = "MassConserved" -> X.in.kind = "state"
    [] name = "EnergyConserved" -> X.in.kind = "state" /\ X.in.energy
    [] name = "InterfaceCancels" -> X.in.kind = "state"

\* ---- sparse columns <<<<cell, limbs>>, ...>> split by subdomain
PartSum(ent, sdof, S) == LSum(LAMBDA i : IF sdof[ent[i][1]] \in S THEN ent[i][2] ELSE LZ, 1, Len(ent))
RestSum(ent, sdof, S) == LSum(LAMBDA i : IF sdof[ent[i][1]] \in S THEN LZ ELSE ent[i][2], 1, Len(ent))
EntScale(ent) == SumR(LAMBDA i : HiAbs(ent[i][2]), 1, Len(ent))
\* verdicts of one column for the interface [hi, lo]: exchanged between hi and lo, nothing elsewhere
ColumnV(ent, sdof, J) ==
  IF Len(ent) = 0 THEN {0}
  ELSE LET sc == EntScale(ent)  n == Len(ent) IN
       {Verdict(Coarse(PartSum(ent, sdof, {J.hi, J.lo})), sc, n), Verdict(Coarse(RestSum(ent, sdof, {J.hi, J.lo})), sc, n)}
ColumnScaleOK(ent) == Len(ent) = 0 \/ ScaleOK(EntScale(ent))

\* ---- structure cases
FxColSumV(col) ==      \* weights of one mortar cell as limbs with exponent 2: 1.0 = <<8192, 0, 0, 0>> = 2^28 hi units
  IF Len(col) = 0 THEN 2
  ELSE Verdict(Coarse(LSub(LSum(LAMBDA i : col[i][2], 1, Len(col)), <<8192, 0, 0, 0>>)), 268435456, Len(col))
FxPartitionV(X) ==
  LET N == X.out.net IN
  {FxColSumV(X.out.pfx[m]) : m \in 1..NMort(N)} \cup {FxColSumV(X.out.sfx[m]) : m \in 1..NMort(N)}
  \cup {IF \A i \in 1..Len(N.pcol[m]) : Len(N.cols[N.pcol[m][i][1]]) = 1 /\ N.sdof[N.cols[N.pcol[m][i][1]][1][1]] = N.intf[N.mintf[m]].hi
        THEN 0 ELSE 2 : m \in 1..NMort(N)}
  \cup {IF \A i \in 1..Len(N.scol[m]) : N.sdof[N.scol[m][i][1]] = N.intf[N.mintf[m]].lo THEN 0 ELSE 2 : m \in 1..NMort(N)}
MapsV(X) == UNION {ColumnV(X.out.maps[k].ent, X.out.net.sdof, X.out.net.intf[X.out.maps[k].intf]) : k \in 1..Len(X.out.maps)}

JudgeStructure(X) ==
  LET N == X.out.net
      exact == N.W > 0
      forms == FormsConsistent(N)
      vp == IF exact THEN {IF MortarPartitionOK(N) THEN 0 ELSE 2} ELSE FxPartitionV(X)
      vm == MapsV(X)
      mach == forms /\ \A k \in 1..Len(X.out.maps) : ColumnScaleOK(X.out.maps[k].ent)
  IN /\ Check("DivIncidence", DivIncidenceOK(N))
     /\ Check("MortarPartition", 2 \notin vp)
     /\ Check("LedgerBalanced", exact => (WellFormed(N) /\ \A k \in 1..2 : Conserved(N, TestFlux(N, k), "ok")))
     /\ Check("InterfaceMapCancels", 2 \notin vm)
     /\ ((1 \in (vp \cup vm) /\ 2 \notin (vp \cup vm)) => Tell("inconclusive", 1))
     /\ ((~exact) => Tell("ledger_skipped", 1))
     /\ ((~mach) => Tell("machinery", 1))

\* ---- state cases
EqScale(Q, n) == SumR(LAMBDA c : HiAbs(Q.M[c]), 1, n)
EqNet(Q, n) == SumR(LAMBDA c : HiAbs(LSub(Q.R[c], Q.A[c])), 1, n)      \* sum over cells of |net flux of the cell|
EqV(Q, n) == Verdict(Coarse(LSub(LSum(LAMBDA c : Q.R[c], 1, n), LSum(LAMBDA c : Q.A[c], 1, n))), EqScale(Q, n), 3 * n)
\* the unit fits and the scale is not inflated (at most 64 times the net fluxes it is made of)
EqMachOK(Q, n) == Len(Q.R) = n /\ Len(Q.A) = n /\ Len(Q.M) = n /\ ScaleOK(EqScale(Q, n)) /\ EqScale(Q, n) \div 64 <= EqNet(Q, n)
DjV(X) == UNION {ColumnV(X.out.dj[k].D, X.out.sdof, X.out.intf[X.out.dj[k].intf]) : k \in 1..Len(X.out.dj)}

JudgeState(X) ==
  LET n == X.out.ncell
      ve == [k \in 1..Len(X.out.eqs) |-> EqV(X.out.eqs[k], n)]
      vd == DjV(X)
      vmass == {ve[k] : k \in {kk \in 1..Len(X.out.eqs) : X.out.eqs[kk].name = "mass"}}
      venergy == {ve[k] : k \in {kk \in 1..Len(X.out.eqs) : X.out.eqs[kk].name = "energy"}}
      all == vmass \cup venergy \cup vd
      mach == /\ \A k \in 1..Len(X.out.eqs) : EqMachOK(X.out.eqs[k], n)
              /\ \A k \in 1..Len(X.out.dj) : ColumnScaleOK(X.out.dj[k].D)
  IN /\ Check("MassConserved", vmass # {} /\ 2 \notin vmass)
     /\ Check("EnergyConserved", X.in.energy => (venergy # {} /\ 2 \notin venergy))
     /\ Check("InterfaceCancels", 2 \notin vd)
     /\ ((1 \in all /\ 2 \notin all) => Tell("inconclusive", 1))
     /\ ((~mach) => Tell("machinery", 1))

JudgeCase(X) ==
  IF ~X.out.ok
  THEN \A name \in AllClauses : Check(name, name # "Computes" /\ ~Applies(X, name))
  ELSE IF X.in.kind = "structure" THEN JudgeStructure(X) ELSE JudgeState(X)
Judgement == (~Judging) \/ LET X == Case IN JudgeCase(X)
=============================================================================
