---------------------------- MODULE T_HistoryStore ----------------------------
(***************************************************************************)
(* Conformance: every edge of the graph recorded from the real storage     *)
(* helpers must be a step of HistoryStore.  The projection logs contents   *)
(* and the sharing pattern (np.shares_memory) of all stored and client     *)
(* arrays; reference ids and the ghosts are inferred by the specification. *)
(***************************************************************************)
EXTENDS HistoryStore, Json, IOUtils, TLC

Graph == JsonDeserialize(IOEnv.VERIF_GRAPH)
VARIABLES node, via
tvars == <<vars, node, via>>
P(n) == Graph.nodes[n]

\* the successor state projects to the logged record p (primes only on the specification's own
\* expressions: priming p would also prime `node` inside it)
SameNext(p) ==
  /\ Len(slot["ts"])' = p.nts /\ Len(slot["it"])' = p.nit /\ Len(client)' = p.ncl
  /\ Contents' = p.contents /\ FirstSharing' = p.first
  /\ last'.ev = p.last.ev /\ last'.res = p.last.res /\ last'.val = p.last.val

TInit == Init /\ node = 1 /\ via = <<0, 0>>

Step(e) ==
  CASE e.ev = "set"   -> Set(e.loc, e.v, e.add)
    [] e.ev = "get"   -> Get(e.loc, e.i)
    [] e.ev = "shift" -> Shift(e.loc)
    [] e.ev = "mut"   -> ClientMutate(e.k)
    [] e.ev \in {"oset", "oshift"} -> OtherOp

TNext ==
  \E i \in 1..Len(Graph.edges[node]) :
    LET e == Graph.edges[node][i] IN
      /\ node' = e.dst /\ via' = <<node, i>>
      /\ Step(e)
      /\ SameNext(P(e.dst))

TSpec == TInit /\ [][TNext]_tvars
EmitVia == PrintT(ToJson(via))
TView == <<node, via>>
==============================================================================
