------------------------------- MODULE J_Clip -------------------------------
(***************************************************************************)
(* C44 judge.  C = [fn, in, ok, out].                                      *)
(* lines_by_polygon: in = [poly, pts, edges (columns <<i, j, tag>>,        *)
(*   0-based point ids)], out.pieces = sequence of [p, mp, q, mq, edge,   *)
(*   tag] (end points p/mp, q/mq; edge = 0-based index of the input segment the   *)
(*   code attributes the piece to; tag = the tag row of the piece).        *)
(*   LineClipInside  every piece lies on its input segment, has positive   *)
(*                   length and lies inside the polygon                    *)
(*   LineClipUnion   the pieces of a segment cover all its inside parts    *)
(*   LineClipTags    every piece carries the tag of its input segment      *)
(*   Family: simple lattice polygons; segments that run along the boundary *)
(*   somewhere are outside the family (both clauses skip them).            *)
(* polygons_by_polyhedron (weaker; convex polygons): in = [poly, cells], out.pieces =       *)
(*   sequence of [cell (1-based), orig, verts (integer vectors over the    *)
(*   common denominator out.m)].                                           *)
(*   PolyClipInside  vertices and edge mid points of every piece lie in    *)
(*                   the plane, in the closed polygon and in the closed    *)
(*                   cell; orig = 0                                        *)
(*   PolyClipArea    the areas of all pieces over the tiling add up to the *)
(*                   area of the polygon                                   *)
(*   ...EdgeInPlane  the same two clauses for the degenerate placements    *)
(*                   where an edge of a cell lies in the polygon's plane   *)
(*   ...VertexTouch  the same two clauses for polygons lying in one closed *)
(*                   cell with exactly one vertex on its boundary          *)
(***************************************************************************)
EXTENDS Judge, Clip

Is(f) == Judging /\ C.fn = f
I == C.in
O == C.out
EdgeOf(k) == I.edges[k + 1]
SegA(k) == I.pts[EdgeOf(k)[1] + 1]
SegB(k) == I.pts[EdgeOf(k)[2] + 1]
LineFamily == SimplePoly(I.poly) /\ \A k \in 1..Len(I.edges) : SegA(k - 1) # SegB(k - 1)
InFamilySeg(k) == ~OverlapsBoundary(I.poly, SegA(k), SegB(k))
PiecesOf(k) == SelectSeq(O.pieces, LAMBDA pc : pc.edge = k)

LineClipInside == Check("LineClipInside",
  Is("lines_by_polygon") /\ LineFamily =>
     C.ok /\ O.x /\ \A i \in 1..Len(O.pieces) :
        LET pc == O.pieces[i] IN
          /\ pc.edge \in 0..(Len(I.edges) - 1)
          /\ InFamilySeg(pc.edge) => ValidLineClipInside(I.poly, SegA(pc.edge), SegB(pc.edge), <<pc>>))
LineClipUnion == Check("LineClipUnion",
  Is("lines_by_polygon") /\ LineFamily =>
     C.ok /\ O.x /\ \A k \in 0..(Len(I.edges) - 1) :
        InFamilySeg(k) => ValidLineClipUnion(I.poly, SegA(k), SegB(k), PiecesOf(k)))
LineClipTags == Check("LineClipTags",
  Is("lines_by_polygon") /\ LineFamily /\ C.ok =>
     \A i \in 1..Len(O.pieces) : O.pieces[i].edge \in 0..(Len(I.edges) - 1) /\ O.pieces[i].tag = EdgeOf(O.pieces[i].edge)[3])

\* ---- polygons by polyhedron over a tiling ----
AbsV(x) == IF x < 0 THEN -x ELSE x
RECURSIVE SumAreas(_, _, _)
SumAreas(nrm, pcs, i) == IF i > Len(pcs) THEN 0 ELSE AbsV(AreaN(nrm, pcs[i].verts)) + SumAreas(nrm, pcs, i + 1)
Mid2(u, v) == <<u[1] + v[1], u[2] + v[2], u[3] + v[3]>>                 \* mid point times 2
InAll(poly, cell, x, m) == Height(poly, x, m) = 0 /\ InClosedPoly(poly, x, m) /\ InCellS(cell, x, m)
PolyFamily == PlanarPoly(I.poly) /\ Convex3(I.poly) /\ Covers(I.cells, I.poly) /\ \A c \in 1..Len(I.cells) : \A f \in 1..Len(I.cells[c]) :
                 ~(\A i \in 1..Len(I.cells[c][f]) : Height(I.poly, I.cells[c][f][i], 1) = 0)
\* class split: some edge of some cell lies in the plane of the polygon (degenerate placement)
EdgeInPlane == \E c \in 1..Len(I.cells) : \E f \in 1..Len(I.cells[c]) : \E i \in 1..Len(I.cells[c][f]) :
                  LET face == I.cells[c][f] IN Height(I.poly, face[i], 1) = 0 /\ Height(I.poly, face[NextI(i, Len(face))], 1) = 0
PiecesInside ==
  C.ok /\ O.x /\ \A i \in 1..Len(O.pieces) :
        LET pc == O.pieces[i]  vs == pc.verts  cell == I.cells[pc.cell] IN
          /\ pc.orig = 0 /\ Len(vs) >= 3
          /\ \A j \in 1..Len(vs) : InAll(I.poly, cell, vs[j], O.m)
          /\ \A j \in 1..Len(vs) : InAll(I.poly, cell, Mid2(vs[j], vs[NextI(j, Len(vs))]), 2 * O.m)
AreaConserved == C.ok /\ O.x /\ SumAreas(PrimN(I.poly), O.pieces, 1) = O.m * O.m * AbsV(AreaN(PrimN(I.poly), I.poly))
\* class split: the polygon lies in one closed cell and touches its boundary with exactly one vertex
OnCellBoundary(cell, x) == InCellS(cell, x, 1) /\ \E f \in 1..Len(cell) : SideOf(cell[f], x, 1) = 0
SingleVertexTouch == \E c \in 1..Len(I.cells) :
                        /\ \A i \in 1..Len(I.poly) : InCellS(I.cells[c], I.poly[i], 1)
                        /\ Cardinality({i \in 1..Len(I.poly) : OnCellBoundary(I.cells[c], I.poly[i])}) = 1
Regular == ~EdgeInPlane /\ ~SingleVertexTouch
PolyClipInside == Check("PolyClipInside", Is("polygons_by_polyhedron") /\ PolyFamily /\ Regular => PiecesInside)
PolyClipArea == Check("PolyClipArea", Is("polygons_by_polyhedron") /\ PolyFamily /\ Regular => AreaConserved)
PolyClipInsideEdgeInPlane == Check("PolyClipInsideEdgeInPlane", Is("polygons_by_polyhedron") /\ PolyFamily /\ EdgeInPlane => PiecesInside)
PolyClipAreaEdgeInPlane == Check("PolyClipAreaEdgeInPlane", Is("polygons_by_polyhedron") /\ PolyFamily /\ EdgeInPlane => AreaConserved)
PolyClipInsideVertexTouch == Check("PolyClipInsideVertexTouch",
  Is("polygons_by_polyhedron") /\ PolyFamily /\ ~EdgeInPlane /\ SingleVertexTouch => PiecesInside)
PolyClipAreaVertexTouch == Check("PolyClipAreaVertexTouch",
  Is("polygons_by_polyhedron") /\ PolyFamily /\ ~EdgeInPlane /\ SingleVertexTouch => AreaConserved)
=============================================================================
