----------------------------- MODULE T_SparseNd -----------------------------
(***************************************************************************)
(* Conformance for C46: every edge of the transition graph recorded from   *)
(* the real SparseNdArray must be a step of SparseNd's actions (mechanism   *)
(* model of add / get).  The logged projection binds the storage in        *)
(* append order; the observed outcome of the call binds last / ret; the    *)
(* dictionary `ref` is inferred by the specification.                      *)
(* Every recorded edge that is a step of the specification is printed;     *)
(* edges never printed were rejected (reported as DRIFT).  Nodes are        *)
(* expanded once (view = node), from the first specification state that    *)
(* reaches them.                                                           *)
(***************************************************************************)
EXTENDS SparseNd, Json, IOUtils, TLC

\* the file holds a sequence of recorded graphs (one per configuration); gi selects one
Graphs == JsonDeserialize(IOEnv.VERIF_GRAPH)

VARIABLES gi, node
tvars == <<vars, gi, node>>
TView == <<gi, node>>

Graph == Graphs[gi]
P(n) == Graph.nodes[n]

TInit == /\ Init /\ gi \in 1..Len(Graphs) /\ node = 1
         /\ coords = P(1).coords /\ vals = P(1).vals /\ nadd = P(1).nadd

SameNext(e) ==
  /\ coords' = P(e.dst).coords /\ vals' = P(e.dst).vals /\ nadd' = P(e.dst).nadd
  /\ last'.res = e.res
  /\ IF e.ev = "add" THEN ret' = e.out ELSE last'.out = e.out

TNext ==
  /\ \E i \in 1..Len(Graph.edges[node]) :
       LET e == Graph.edges[node][i] IN
         /\ gi' = gi /\ node' = e.dst
         /\ IF e.ev = "add" THEN Add(e.batch, e.vals, e.additive) ELSE Get(e.batch)
         /\ SameNext(e)
         /\ PrintT(ToJson(<<gi, node, i>>))

TSpec == TInit /\ [][TNext]_tvars
=============================================================================
