------------------------------- MODULE J_Units -------------------------------
(***************************************************************************)
(* C43 judge: TLC evaluates the unit-algebra clauses on what the real      *)
(* code returned.  A number x returned by the code arrives as              *)
(* <<m, a, b, c>> meaning x = m 2^a 5^b G^c up to 1e-12 relative (the      *)
(* harness only extracts the exponents); m = 0 marks a number that is not  *)
(* of this form (or an exception) - it can equal no reference value.       *)
(* Every conversion is executed on a Python float ("s") and on a float     *)
(* ndarray ("a").                                                          *)
(*                                                                         *)
(* Cases                                                                   *)
(*  conv: in = [t, U, v, items: seq of [t1, t2]]                           *)
(*        out[path][i] = <<x1, b1, joint, jb, seq>> with                   *)
(*          x1 = convert(v, t1), b1 = convert(x1, t1, to_si),              *)
(*          joint = convert(v, "t1 * t2"), jb = convert(joint, .., to_si), *)
(*          seq = convert(x1, t2)                                          *)
(*  dim:  in = [t, U, v, texts], out[path][i] = convert(v, texts[i])       *)
(*  der:  in = [t, U, v, items: seq of derived names, names: attribute     *)
(*        names], out.attr[j] = attribute names[j] of the Units object,    *)
(*        out[path][i] = <<convert(v, d), convert(v, base expression)>>    *)
(*  mat:  in = [t, U, U2, fields: seq of [name, toks], vals]               *)
(*        out = [c1, c2, back, si, c3]: constants of Cls(units=U),         *)
(*        of c1.to_units(U2), those converted back with U2 (to_si),        *)
(*        c2.constants_in_SI, and of c2.to_units(SI)                       *)
(*                                                                         *)
(* Clauses (property text in quotes)                                       *)
(*  SimValue     convert(v, t) = v / Scale(U, t)  (reference semantics)    *)
(*  RoundTrip    "converting any value to simulation units and back        *)
(*               returns it"                                               *)
(*  Compose      "converting with a composed unit string equals composing  *)
(*               the conversions"                                          *)
(*  Dimensionless the spellings "", "1", "-" leave the value unchanged     *)
(*  DerivedAttr / DerivedConv  "derived units agree with their base-unit   *)
(*               expressions"                                              *)
(*  MatConverted constants are stored as v / Scale(U, declared SI unit)    *)
(*  MatBack      "material constants converted to any unit system convert  *)
(*               back to their SI values"                                  *)
(***************************************************************************)
EXTENDS Judge, Units, FiniteSets

Report(clause, bad) == bad = {} \/ PrintT(ToJson([case |-> ci, clause |-> clause, bad |-> bad]))
CheckAll(clause, S, Ok(_)) == (~Judging) \/ Report(clause, {x \in S : ~Ok(x)})

Kind(k) == Judging /\ C.in.t = k
Paths == {"s", "a"}
Val(o) == [m |-> o[1], e |-> <<o[2], o[3], o[4]>>]
Valid(o) == o[1] # 0
Is(o, v) == Valid(o) /\ Val(o) = v
Same(o, p) == Valid(o) /\ Valid(p) /\ o = p
Idx(S) == {<<p, i>> : p \in Paths, i \in 1..Len(S)}

\* ---- conv
CIdx == IF Kind("conv") THEN Idx(C.in.items) ELSE {}
T1(x) == C.in.items[x[2]][1]
T2(x) == C.in.items[x[2]][2]
O(x) == C.out[x[1]][x[2]]
SimValue  == CheckAll("SimValue", CIdx, LAMBDA x : /\ Is(O(x)[1], ToSim(C.in.v, C.in.U, T1(x)))
                                                    /\ Is(O(x)[3], ToSim(C.in.v, C.in.U, T1(x) \o T2(x))))
RoundTrip == CheckAll("RoundTrip", CIdx, LAMBDA x : Is(O(x)[2], C.in.v) /\ Is(O(x)[4], C.in.v))
Compose   == CheckAll("Compose", CIdx, LAMBDA x : Same(O(x)[3], O(x)[5]))

\* ---- dim
Dimensionless == CheckAll("Dimensionless", IF Kind("dim") THEN Idx(C.in.texts) ELSE {},
                          LAMBDA x : Is(O(x), C.in.v))

\* ---- der
AttrRef(nm) == [m |-> 1, e |-> IF nm \in Derived THEN Scale(C.in.U, Def(nm)) ELSE ScaleOf(C.in.U, nm)]
DerivedAttr == CheckAll("DerivedAttr", IF Kind("der") THEN 1..Len(C.in.names) ELSE {},
                        LAMBDA j : Is(C.out.attr[j], AttrRef(C.in.names[j])))
DerivedConv == CheckAll("DerivedConv", IF Kind("der") THEN Idx(C.in.items) ELSE {},
                        LAMBDA x : /\ Same(O(x)[1], O(x)[2])
                                   /\ Is(O(x)[1], ToSim(C.in.v, C.in.U, Def(C.in.items[x[2]]))))

\* ---- mat
MIdx == IF Kind("mat") THEN 1..Len(C.in.fields) ELSE {}
FToks(i) == C.in.fields[i][2]
FVal(i) == C.in.vals[i]
MatConverted == CheckAll("MatConverted", MIdx,
                         LAMBDA i : /\ Is(C.out.c1[i], ToSim(FVal(i), C.in.U, FToks(i)))
                                    /\ Is(C.out.c2[i], ToSim(FVal(i), C.in.U2, FToks(i))))
MatBack == CheckAll("MatBack", MIdx,
                    LAMBDA i : Is(C.out.back[i], FVal(i)) /\ Is(C.out.si[i], FVal(i)) /\ Is(C.out.c3[i], FVal(i)))
=============================================================================
