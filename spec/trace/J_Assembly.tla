------------------------------ MODULE J_Assembly ------------------------------
(***************************************************************************)
(* Verdict for C06.  A case records one call of EquationSystem.assemble    *)
(* on a labelled system (every Jacobian entry is a unique integer code of  *)
(* its row label and column label, every residual entry the code of its    *)
(* row label), after a history of set / remove / update_equation calls:    *)
(*   vreg  variables [vid, name, g, d];  hist  equation history;           *)
(*   sel   selection as written by the caller; vsel variable subset (vids) *)
(*   rows / cols   labels decoded from the assembled Jacobian              *)
(*   rhs           row labels decoded from the assembled residual          *)
(*   idx           assembled_equation_indices in dictionary order          *)
(*   resonly       row labels decoded from residual-only assembly          *)
(***************************************************************************)
EXTENDS Judge, AssemblyRef

CONSTANTS VarGroups   \* sequence of vid sets: the variable arguments offered to the caller (by name, md-variable, atomic)

VR == [k \in 1..Len(C.vreg) |-> [vid |-> C.vreg[k].vid, name |-> C.vreg[k].name, g |-> C.vreg[k].g,
                                  ndof |-> NumDofs(C.vreg[k].g, DofTypes[C.vreg[k].d])]]
Reg == RegistryAfter(<<>>, C.hist)
Sel == IF C.selall THEN FullSel(Reg) ELSE C.sel
VS == IF C.vselall THEN {VR[k].vid : k \in 1..Len(VR)} ELSE UNION {VarGroups[C.vsel[k]] : k \in 1..Len(C.vsel)}

Assembles    == Check("Assembles", C.error = "")
RowsAreSlice == Check("RowsAreSlice", C.error = "" => C.rows = RowsInOrder(Reg, Sel))
ColsAreSlice == Check("ColsAreSlice", C.error = "" => C.cols = ColsOf(VR, VS))
RhsIsSlice   == Check("RhsIsSlice", C.error = "" => C.rhs = RowsInOrder(Reg, Sel))
IndicesPerEquation == Check("IndicesPerEquation", C.error = "" =>
                        C.idx = IndicesInOrder(Reg, Sel, 0))
ResidualOnly == Check("ResidualOnly", C.error = "" => C.resonly = RowsInOrder(Reg, Sel))
\* expected column labels, told to the harness for assemblies without rows (labels cannot be read off an empty matrix)
TellCols == Tell("cols", ColsOf(VR, VS))
==============================================================================
