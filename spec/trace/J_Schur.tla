-------------------------------- MODULE J_Schur --------------------------------
(***************************************************************************)
(* Verdict for C07.  A case is a sequence of splits assembled on one real  *)
(* EquationSystem; per split the harness records                           *)
(*   full      the full linearised system's solution (integers)            *)
(*   expanded  reduced solve + expand_schur_complement_solution, default   *)
(*             inverter                                                    *)
(*   expandedc the same with a custom inverter (scipy inv)                 *)
(*   dxstar    the manufactured exact increment                            *)
(*   prows/pcols, srows/scols   labels of the primary block (S with a zero *)
(*             inverter) and of the secondary block handed to the inverter *)
(*             on a labelled copy of the system                            *)
(***************************************************************************)
EXTENDS Judge, SchurRef

VR == [k \in 1..Len(C.vreg) |-> [vid |-> C.vreg[k].vid, name |-> C.vreg[k].name, g |-> C.vreg[k].g,
                                  ndof |-> NumDofs(C.vreg[k].g, DofTypes[C.vreg[k].d])]]
Reg == [k \in 1..Len(EqCat) |-> k]
N == Len(C.splits)

Assembles == Check("Assembles", \A k \in 1..N : C.res[k].error = "")
FullSolves == Check("FullSolves", \A k \in 1..N : C.res[k].error = "" => C.res[k].full = C.dxstar)
ReducedReproducesFull == Check("ReducedReproducesFull",
                               \A k \in 1..N : C.res[k].error = "" => C.res[k].expanded = C.res[k].full)
CustomInverterReproducesFull == Check("CustomInverterReproducesFull",
                               \A k \in 1..N : C.res[k].error = "" => C.res[k].expandedc = C.res[k].full)
PrimaryBlock == Check("PrimaryBlock", \A k \in 1..N : C.res[k].error = "" =>
                        /\ C.res[k].prows = PrimRows(Reg, C.splits[k])
                        /\ C.res[k].pcols = PrimCols(VR, C.splits[k]))
SecondaryBlock == Check("SecondaryBlock", \A k \in 1..N : C.res[k].error = "" =>
                        /\ C.res[k].srows = SecRows(Reg, C.splits[k])
                        /\ C.res[k].scols = SecCols(VR, C.splits[k]))
==============================================================================
