---------------------------- MODULE M_TimeStepper ----------------------------
(***************************************************************************)
(* Monitor: TLC model-checks the C09 property clauses on the transition    *)
(* system RECORDED FROM THE REAL CODE.  Transitions are exactly the        *)
(* recorded edges (nothing of the mechanism model is used); the ghosts     *)
(* lastAcc / hit are computed from the observed clock at converged solves. *)
(***************************************************************************)
EXTENDS Integers, Sequences, FiniteSets, Json, IOUtils, TLC

CONSTANTS Schedule, DtMin, DtMax, RecompMax,
          Eps   \* 0 for dyadic runs (exact arithmetic); > 0 for runs with arbitrary float parameters, whose values are
                \* rounded to integers: equalities are then read as 'within Eps'

Graph == JsonDeserialize(IOEnv.VERIF_GRAPH)
P(n) == Graph.nodes[n]
N == Len(Schedule)
Final == Schedule[N]

VARIABLES node, lastAcc, hit, lastEv
mvars == <<node, lastAcc, hit, lastEv>>

Near(a, b) == a - b <= Eps /\ b - a <= Eps
MInit == /\ node = 1 /\ lastAcc = P(1).time /\ lastEv = "init"
         /\ hit = {k \in 1..N : Near(Schedule[k], P(1).time)}

MNext ==
  /\ P(node).exact
  /\ \E i \in 1..Len(Graph.edges[node]) :
      LET e == Graph.edges[node][i] IN
        /\ node' = e.dst /\ lastEv' = e.ev
        /\ IF e.ev = "conv"
           THEN /\ lastAcc' = P(node).time
                /\ hit' = hit \cup {k \in 1..N : Near(Schedule[k], P(node).time)}
           ELSE UNCHANGED <<lastAcc, hit>>

MSpec == MInit /\ [][MNext]_mvars /\ WF_mvars(MNext)

Here == P(node)
Ex == Here.exact

Mono == [][lastAcc' # lastAcc => lastAcc' > lastAcc]_mvars
MonoStrict == [][lastEv' = "conv" => P(node).time > lastAcc]_mvars
NoOvershoot == lastAcc <= Final + Eps
NoSkippedSchedule == \A k \in 1..N : Schedule[k] + Eps < lastAcc => k \in hit
HitsAll == Here.phase = "done" => (hit = 1..N /\ Near(lastAcc, Final))
DtBounds == (Ex /\ Here.phase = "ready") =>
              /\ Here.dt > 0
              /\ \/ (DtMin - Eps <= Here.dt /\ Here.dt <= DtMax + Eps)
                 \/ \E k \in 1..N : Near(Here.time + Here.dt, Schedule[k])
FailureRewinds == (Ex /\ Here.phase = "ready") => Near(Here.time, lastAcc)
RaiseOnlyWhenExhausted == (Ex /\ Here.phase = "raised") => (Here.recomp >= RecompMax \/ Near(Here.dt, DtMin))
NoCrash == Here.phase # "crashed"
\* (nodes left unexpanded by the explorer's node budget are marked cut)
Termination == <>(Here.phase \in {"done", "raised", "crashed"} \/ ~Ex \/ Graph.cut[node])
==============================================================================
