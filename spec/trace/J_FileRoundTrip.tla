--------------------------- MODULE J_FileRoundTrip ---------------------------
(***************************************************************************)
(* C47 judge: TLC evaluates the clauses on what the real writers and       *)
(* readers did.  One case = one file round trip.                           *)
(*  in  = the record emitted by FileRoundTripEnum                          *)
(*  out = [ok     FALSE: the code raised (err = message, stage = "build",  *)
(*                "write" or "read": where)                                *)
(*         net2d: wrote   the fractures of the network object that was     *)
(*                        written: seq of <<p, q>>, p = <<x, y>> of        *)
(*                        rationals <<n, d>>                               *)
(*                read    the fractures of the network read back           *)
(*                ids     the returned fracture ids (return_frac_id)       *)
(*         net3d: wrote / read   seq of polygons (seq of <<x, y, z>>)      *)
(*                boxw / boxr    the domain box handed to to_csv / of the  *)
(*                        network read back: <<xmin, ymin, zmin, xmax,     *)
(*                        ymax, zmax>> (<<>>: none)                        *)
(*         txt:   names, vals    keys of the dictionary read back and the  *)
(*                        values (flattened) per key]                      *)
(* Clauses (property text in quotes)                                       *)
(*  SameFractures  "writing a 2D or 3D fracture network to csv and reading *)
(*                 it back yields the same fractures": the bag of          *)
(*                 fractures read back is the bag written (2D: end point   *)
(*                 pairs, the first max_num_fracs of them when that reader *)
(*                 parameter is given; 3D: polygons up to cyclic shift /   *)
(*                 reversal); an exception is a violation                  *)
(*  FractureIds    the FID column round-trips: return_frac_id returns      *)
(*                 0..k-1 for the k fractures read                         *)
(*  SameDomain     3D, domain written: the domain read back is the one     *)
(*                 written                                                 *)
(*  SameArrays     "writing named data arrays to txt and reading them back *)
(*                 yields the same arrays" (1-D arrays: same names, same   *)
(*                 values per name)                                        *)
(*  TwoDimArrays   2-D arrays (the format stores one column per array):    *)
(*                 either the writer refuses, or the values read back are  *)
(*                 the row-major flattening - no silent corruption         *)
(* Cases are read one file per case (see J_OrthoMaps.tla for why).         *)
(***************************************************************************)
EXTENDS Judge, FileRoundTrip

CONSTANTS CaseDir, NumCases
FBlocks == 32
Case == JsonDeserialize(CaseDir \o "/" \o ToString(ci) \o ".json")
FInit == blk \in 0..(FBlocks - 1) /\ ci = 0
FNext == /\ ci = 0
         /\ ci' \in {i \in 1..NumCases : i % FBlocks = blk}
         /\ blk' = blk
FSpec == FInit /\ [][FNext]_jvars

Net(X) == X.in.kind \in {"net2d", "net3d"}
ValidFracs(fs) == \A i \in 1..Len(fs) : \A j \in 1..Len(fs[i]) : AllValid(fs[i][j])
Same2(X) == /\ ValidFracs(X.out.wrote) /\ ValidFracs(X.out.read)
            /\ SameFractures2(X.out.read, Expected2(X.out.wrote, X.in.maxn))
Same3(X) == /\ ValidFracs(X.out.wrote) /\ ValidFracs(X.out.read)
            /\ SameFractures3(X.out.read, X.out.wrote)
DataSame(X) == SameData(X.out.names, X.out.vals, X.in.names, [a \in 1..Len(X.in.arrays) |-> Halves(X.in.arrays[a])])

JudgeCase(X) ==
  /\ Check("SameFractures", Net(X) => (X.out.ok /\ IF X.in.kind = "net2d" THEN Same2(X) ELSE Same3(X)))
  /\ Check("FractureIds", (X.in.kind = "net2d" /\ X.in.ids) =>
                             (X.out.ok /\ X.out.ids = IotaFrom0(Len(Expected2(X.out.wrote, X.in.maxn)))))
  /\ Check("SameDomain", (X.in.kind = "net3d" /\ X.in.dom) =>
                             (X.out.ok /\ Len(X.out.boxw) = 6 /\ AllValid(X.out.boxw) /\ X.out.boxr = X.out.boxw))
  /\ Check("SameArrays", (X.in.kind = "txt" /\ X.in.shape = "1d") => (X.out.ok /\ DataSame(X)))
  /\ Check("TwoDimArrays", (X.in.kind = "txt" /\ X.in.shape # "1d") =>
                             ((~X.out.ok /\ X.out.stage = "write") \/ (X.out.ok /\ DataSame(X))))
Judgement == (~Judging) \/ LET X == Case IN JudgeCase(X)
=============================================================================
