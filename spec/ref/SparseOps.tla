------------------------------ MODULE SparseOps ------------------------------
(***************************************************************************)
(* Reference semantics of porepy's sparse-matrix utilities                 *)
(* (numerics/linalg/matrix_operations.py) and index helpers                *)
(* (utils/array_operations.py) in terms of DENSE INTEGER MATRICES (C35).   *)
(*                                                                         *)
(* What is modelled                                                        *)
(*  - a compressed matrix is the record                                    *)
(*        [fmt, shape, indptr, indices, data]      fmt in {"csr","csc"}    *)
(*    exactly as scipy stores it: indices inside a line may be unsorted,   *)
(*    zeros may be stored.  Two further input formats occur as blocks:     *)
(*        [fmt |-> "coo", shape, row, col, data]                            *)
(*        [fmt |-> "dia", shape, offsets, data]    (data[d][j+1] = A[j-off,j])*)
(*    All index VALUES are 0-based (numpy), sequences are 1-based (TLA+).  *)
(*  - a dense matrix is [shape |-> <<m, n>>, rows |-> <<row_1, .., row_m>>] *)
(*    (the shape is kept because a 0 x n matrix has no rows).              *)
(*  - DenseOf(M) is the matrix a representation denotes (duplicates add),  *)
(*    WF(M) says that a representation is well formed.                     *)
(*  - one reference operator per utility, written with dense operations    *)
(*    only (TakeRows, ZeroRowsD, ReplaceRowsD, VStack, BlockDiagSeq, Kron,  *)
(*    ...) or with plain sequence operations for the index helpers          *)
(*    (RlEncodeRef, RlDecodeRef, ExpandPointersRef, ExpandNdRef,            *)
(*    ExpandIncrRef, BlockDiagIndexRef, BlockDiagIndexSqRef).               *)
(*                                                                         *)
(* The property clauses themselves (one per utility) are in                *)
(* spec/trace/J_SparseOps.tla; the bounded input lattice and the model laws *)
(* (round trips) are in spec/ref/SparseOpsEnum.tla.  This module is pure:  *)
(* no constants, no variables.                                              *)
(***************************************************************************)
EXTENDS Integers, Sequences, FiniteSets

(* ------------------------------ sequences ------------------------------ *)
SMin(a, b) == IF a <= b THEN a ELSE b
SMax(a, b) == IF a >= b THEN a ELSE b

RECURSIVE Flatten(_)
Flatten(ss) == IF Len(ss) = 0 THEN <<>> ELSE Head(ss) \o Flatten(Tail(ss))

RECURSIVE SumSeq(_)
SumSeq(s) == IF Len(s) = 0 THEN 0 ELSE Head(s) + SumSeq(Tail(s))

Rep(x, k) == [i \in 1..k |-> x]                    \* k <= 0 gives <<>>
Zeros(k) == Rep(0, k)
Iota(a, b) == [i \in 1..(b - a + 1) |-> a + i - 1]  \* <<a, a+1, .., b>>, <<>> if b < a
\* prefix sums: Cum(s)[i] = s[1] + .. + s[i-1], length Len(s) + 1
Cum(s) == [i \in 1..(Len(s) + 1) |-> SumSeq(SubSeq(s, 1, i - 1))]
RangeOf(s) == {s[i] : i \in 1..Len(s)}
Count(s, v) == Cardinality({i \in 1..Len(s) : s[i] = v})
IsPermOf(s, t) == /\ Len(s) = Len(t)
                  /\ \A v \in RangeOf(s) \cup RangeOf(t) : Count(s, v) = Count(t, v)
IsInjective(s) == \A a, b \in 1..Len(s) : a # b => s[a] # s[b]

(* --------------------------- dense matrices ---------------------------- *)
NR(D) == D.shape[1]
NC(D) == D.shape[2]
MkDense(m, n, rows) == [shape |-> <<m, n>>, rows |-> rows]
ZeroMat(m, n) == MkDense(m, n, [i \in 1..m |-> Zeros(n)])
Transpose(D) == MkDense(NC(D), NR(D), [j \in 1..NC(D) |-> [i \in 1..NR(D) |-> D.rows[i][j]]])

\* D[ix, :] and D[:, ix] for a sequence ix of 0-based indices (any order, repetitions allowed)
TakeRows(D, ix) == MkDense(Len(ix), NC(D), [k \in 1..Len(ix) |-> D.rows[ix[k] + 1]])
TakeCols(D, ix) == Transpose(TakeRows(Transpose(D), ix))

\* D[S, :] = 0 and D[:, S] = 0
ZeroRowsD(D, S) == MkDense(NR(D), NC(D), [i \in 1..NR(D) |-> IF (i - 1) \in S THEN Zeros(NC(D)) ELSE D.rows[i]])
ZeroColsD(D, S) == Transpose(ZeroRowsD(Transpose(D), S))

\* D[lines, :] = B and D[:, lines] = B for an injective sequence of 0-based lines
ReplaceRowsD(D, B, lines) ==
  MkDense(NR(D), NC(D),
          [i \in 1..NR(D) |-> IF \E k \in 1..Len(lines) : lines[k] = i - 1
                              THEN B.rows[CHOOSE k \in 1..Len(lines) : lines[k] = i - 1]
                              ELSE D.rows[i]])
ReplaceColsD(D, B, lines) == Transpose(ReplaceRowsD(Transpose(D), Transpose(B), lines))

VStack(A, B) == MkDense(NR(A) + NR(B), NC(A), A.rows \o B.rows)
HStack(A, B) == Transpose(VStack(Transpose(A), Transpose(B)))

\* [[A, 0], [0, B]]
BlockDiag2(A, B) ==
  MkDense(NR(A) + NR(B), NC(A) + NC(B),
          [i \in 1..(NR(A) + NR(B)) |-> IF i <= NR(A) THEN A.rows[i] \o Zeros(NC(B))
                                        ELSE Zeros(NC(A)) \o B.rows[i - NR(A)]])
RECURSIVE BlockDiagSeq(_)
BlockDiagSeq(ds) == IF Len(ds) = 0 THEN MkDense(0, 0, <<>>)
                    ELSE BlockDiag2(Head(ds), BlockDiagSeq(Tail(ds)))

\* numpy.kron(D, eye(nd))
Kron(D, nd) ==
  MkDense(NR(D) * nd, NC(D) * nd,
          [i \in 1..(NR(D) * nd) |-> [j \in 1..(NC(D) * nd) |->
              IF (i - 1) % nd = (j - 1) % nd THEN D.rows[((i - 1) \div nd) + 1][((j - 1) \div nd) + 1] ELSE 0]])

\* diag(v)
DiagMat(v) == MkDense(Len(v), Len(v), [i \in 1..Len(v) |-> [j \in 1..Len(v) |-> IF i = j THEN v[i] ELSE 0]])

\* square block of size s filled row-wise / column-wise from position `off` (0-based) of `data`
BlockFrom(data, off, s, rowwise) ==
  MkDense(s, s, [i \in 1..s |-> [j \in 1..s |->
      IF rowwise THEN data[off + (i - 1) * s + j] ELSE data[off + (j - 1) * s + i]]])

(* ---------------------- sparse representations ------------------------- *)
\* sum of data[k], k in a..b, over the positions with key[k] = x
RECURSIVE SumAt(_, _, _, _, _)
SumAt(key, data, x, a, b) ==
  IF a > b THEN 0 ELSE (IF key[a] = x THEN data[a] ELSE 0) + SumAt(key, data, x, a + 1, b)

RECURSIVE SumAt2(_, _, _, _, _, _, _)
SumAt2(k1, k2, data, x1, x2, a, b) ==
  IF a > b THEN 0
  ELSE (IF k1[a] = x1 /\ k2[a] = x2 THEN data[a] ELSE 0) + SumAt2(k1, k2, data, x1, x2, a + 1, b)

IsCompressed(M) == M.fmt \in {"csr", "csc"}
NLines(M) == IF M.fmt = "csr" THEN M.shape[1] ELSE M.shape[2]    \* compressed axis
NCross(M) == IF M.fmt = "csr" THEN M.shape[2] ELSE M.shape[1]
\* entry of (1-based) line l at 0-based cross index x
LineEntry(M, l, x) == SumAt(M.indices, M.data, x, M.indptr[l] + 1, M.indptr[l + 1])
\* stored cross indices / stored positions (0-based) of (1-based) line l
LineIndices(M, l) == SubSeq(M.indices, M.indptr[l] + 1, M.indptr[l + 1])
LinePositions(M, l) == M.indptr[l]..(M.indptr[l + 1] - 1)

RECURSIVE DiaEntry(_, _, _, _)
DiaEntry(M, i, j, d) ==      \* 1-based i, j; sum over diagonals d..Len(offsets)
  IF d > Len(M.offsets) THEN 0
  ELSE (IF M.offsets[d] = j - i /\ j <= Len(M.data[d]) THEN M.data[d][j] ELSE 0) + DiaEntry(M, i, j, d + 1)

DenseOf(M) ==
  LET m == M.shape[1]
      n == M.shape[2]
  IN CASE M.fmt = "csr" -> MkDense(m, n, [i \in 1..m |-> [j \in 1..n |-> LineEntry(M, i, j - 1)]])
       [] M.fmt = "csc" -> MkDense(m, n, [i \in 1..m |-> [j \in 1..n |-> LineEntry(M, j, i - 1)]])
       [] M.fmt = "coo" -> MkDense(m, n, [i \in 1..m |-> [j \in 1..n |->
                               SumAt2(M.row, M.col, M.data, i - 1, j - 1, 1, Len(M.data))]])
       [] M.fmt = "dia" -> MkDense(m, n, [i \in 1..m |-> [j \in 1..n |-> DiaEntry(M, i, j, 1)]])

\* well-formedness of a representation returned by the code (so that DenseOf is meaningful)
WF(M) ==
  /\ Len(M.shape) = 2 /\ M.shape[1] >= 0 /\ M.shape[2] >= 0
  /\ CASE IsCompressed(M) ->
            /\ Len(M.indptr) = NLines(M) + 1
            /\ M.indptr[1] = 0
            /\ \A l \in 1..NLines(M) : M.indptr[l] <= M.indptr[l + 1]
            /\ M.indptr[NLines(M) + 1] <= Len(M.indices)
            /\ M.indptr[NLines(M) + 1] <= Len(M.data)
            /\ \A k \in 1..M.indptr[NLines(M) + 1] : M.indices[k] \in 0..(NCross(M) - 1)
       [] M.fmt = "coo" ->
            /\ Len(M.row) = Len(M.data) /\ Len(M.col) = Len(M.data)
            /\ \A k \in 1..Len(M.data) : M.row[k] \in 0..(M.shape[1] - 1) /\ M.col[k] \in 0..(M.shape[2] - 1)
       [] M.fmt = "dia" -> Len(M.offsets) = Len(M.data)
       [] OTHER -> FALSE

\* the representation M is well formed and denotes the dense matrix D
Denotes(M, D) == WF(M) /\ DenseOf(M) = D

\* the set of stored (row, col, value) triples
Triples(M) ==
  CASE M.fmt = "coo" -> {<<M.row[k], M.col[k], M.data[k]>> : k \in 1..Len(M.data)}
    [] M.fmt = "csr" -> UNION {{<<l - 1, M.indices[k], M.data[k]>> : k \in (M.indptr[l] + 1)..M.indptr[l + 1]} : l \in 1..NLines(M)}
    [] M.fmt = "csc" -> UNION {{<<M.indices[k], l - 1, M.data[k]>> : k \in (M.indptr[l] + 1)..M.indptr[l + 1]} : l \in 1..NLines(M)}

(* ------------------------------ index sets ----------------------------- *)
\* An index argument is [kind, v]: "array" (v = the 0-based indices), "mask" (v = 0/1 flags, one per
\* line), "int" / "npint" (v = <<i>>: a python int / numpy integer).  IndexSeq = the indices it selects.
MaskIdx(v) ==
  LET F[k \in 0..Len(v)] == IF k = 0 THEN <<>> ELSE IF v[k] = 1 THEN Append(F[k - 1], k - 1) ELSE F[k - 1]
  IN F[Len(v)]
IndexSeq(ix) == IF ix.kind = "mask" THEN MaskIdx(ix.v) ELSE ix.v

(* ------------------ reference results of the utilities ----------------- *)
\* zero_rows / zero_columns (in place): A[rows, :] = 0 / A[:, cols] = 0
ZeroLinesRef(A, lines) ==
  IF A.fmt = "csr" THEN ZeroRowsD(DenseOf(A), RangeOf(lines)) ELSE ZeroColsD(DenseOf(A), RangeOf(lines))

\* merge_matrices (in place): csr: A[lines, :] = B, csc: A[:, lines] = B
MergeRef(A, B, lines) ==
  IF A.fmt = "csr" THEN ReplaceRowsD(DenseOf(A), DenseOf(B), lines) ELSE ReplaceColsD(DenseOf(A), DenseOf(B), lines)

\* stack_mat (in place): csr: vstack((A, B)), csc: hstack((A, B))
StackMatRef(A, B) == IF A.fmt = "csr" THEN VStack(DenseOf(A), DenseOf(B)) ELSE HStack(DenseOf(A), DenseOf(B))

\* stack_diag: block_diag((A, B))
StackDiagRef(A, B) == BlockDiag2(DenseOf(A), DenseOf(B))

\* slice_sparse_matrix: csr: A[ind, :], csc: A[:, ind]
SliceRef(A, ixs) == IF A.fmt = "csr" THEN TakeRows(DenseOf(A), ixs) ELSE TakeCols(DenseOf(A), ixs)

\* slice_indices: the result is not unique as a sequence inside one line, so it is judged by a validity
\* predicate: chunk k of `indices` lists exactly the stored cross indices of line ixs[k]; if array_ind is
\* returned, chunk k of it enumerates exactly the storage positions of that line and
\* A.indices[array_ind] = indices.
SliceIndicesValid(A, ixs, indices, hasArr, arr) ==
  LET cnt == [k \in 1..Len(ixs) |-> A.indptr[ixs[k] + 2] - A.indptr[ixs[k] + 1]]
      off == Cum(cnt)
      tot == off[Len(ixs) + 1]
  IN /\ Len(indices) = tot
     /\ \A k \in 1..Len(ixs) : IsPermOf(SubSeq(indices, off[k] + 1, off[k + 1]), LineIndices(A, ixs[k] + 1))
     /\ hasArr => /\ Len(arr) = tot
                  /\ \A t \in 1..tot : arr[t] \in 0..(Len(A.indices) - 1) /\ A.indices[arr[t] + 1] = indices[t]
                  /\ \A k \in 1..Len(ixs) :
                        {arr[t] : t \in (off[k] + 1)..off[k + 1]} = LinePositions(A, ixs[k] + 1)

\* cs{r,c}_matrix_from_sparse_blocks: block_diag(blocks)
FromSparseBlocksRef(blocks) == BlockDiagSeq([k \in 1..Len(blocks) |-> DenseOf(blocks[k])])

\* cs{r,c}_matrix_from_dense_blocks: nb square blocks of size bs, data row-wise (csr) / column-wise (csc)
FromDenseBlocksRef(fmt, data, bs, nb) ==
  BlockDiagSeq([k \in 1..nb |-> BlockFrom(data, (k - 1) * bs * bs, bs, fmt = "csr")])

\* sparse_dia_from_sparse_blocks: blocks = sequence of main diagonals
DiaFromBlocksRef(diags) == DiagMat(Flatten(diags))

\* block_diag_matrix(vals, sz): square blocks of sizes sz, values row-wise per block
BlockDiagMatrixRef(vals, sz) ==
  LET off == Cum([k \in 1..Len(sz) |-> sz[k] * sz[k]])
  IN BlockDiagSeq([k \in 1..Len(sz) |-> BlockFrom(vals, off[k], sz[k], TRUE)])

\* sparse_kronecker_product: kron(A, eye(nd))
KronRef(A, nd) == Kron(DenseOf(A), nd)

\* optimized_compressed_storage: csc iff more rows than columns
OptimalFmt(shape) == IF shape[1] > shape[2] THEN "csc" ELSE "csr"

\* rlencode: A = sequence of rows (all of length n >= 1); runs of identical consecutive COLUMNS.
ColOf(A, j) == [r \in 1..Len(A) |-> A[r][j]]
RunEnds(A) ==     \* ascending 1-based last columns of the runs
  LET n == Len(A[1])
      F[j \in 0..n] == IF j = 0 THEN <<>>
                       ELSE IF j = n \/ ColOf(A, j) # ColOf(A, j + 1) THEN Append(F[j - 1], j) ELSE F[j - 1]
  IN F[n]
RlEncodeRef(A) ==
  LET e == RunEnds(A)
  IN [comp |-> [r \in 1..Len(A) |-> [k \in 1..Len(e) |-> A[r][e[k]]]],
      num |-> [k \in 1..Len(e) |-> IF k = 1 THEN e[1] ELSE e[k] - e[k - 1]]]

\* rldecode = numpy.repeat(a, n), counts n >= 0
RlDecodeRef(a, n) == Flatten([k \in 1..Len(a) |-> Rep(a[k], n[k])])

\* expand_index_pointers = concatenation of arange(lo[i], hi[i]); a length-1 argument is broadcast
ExpandPointersRef(lo, hi) ==
  LET k == SMax(Len(lo), Len(hi))
      L(i) == IF Len(lo) = 1 THEN lo[1] ELSE lo[i]
      H(i) == IF Len(hi) = 1 THEN hi[1] ELSE hi[i]
  IN Flatten([i \in 1..k |-> Iota(L(i), H(i) - 1)])

\* expand_indices_nd: (nd * ind + arange(nd)[:, None]).ravel(order)
ExpandNdRef(ind, nd, order) ==
  IF order = "F" THEN Flatten([k \in 1..Len(ind) |-> [d \in 1..nd |-> nd * ind[k] + d - 1]])
  ELSE Flatten([d \in 1..nd |-> [k \in 1..Len(ind) |-> nd * ind[k] + d - 1]])

\* expand_indices_add_increment: x[k] + r * increment, r = 0..n-1 fastest
ExpandIncrRef(x, n, inc) == Flatten([k \in 1..Len(x) |-> [r \in 1..n |-> x[k] + (r - 1) * inc]])

\* block_diag_index(m, n): row / column indices of the blocks (m[b] x n[b]), column-major inside a block
BlockDiagIndexRef(m, n) ==
  LET ro == Cum(m)
      co == Cum(n)
  IN [i |-> Flatten([b \in 1..Len(m) |-> Flatten([c \in 1..n[b] |-> [r \in 1..m[b] |-> ro[b] + r - 1]])]),
      j |-> Flatten([b \in 1..Len(m) |-> Flatten([c \in 1..n[b] |-> [r \in 1..m[b] |-> co[b] + c - 1]])])]
\* block_diag_index(m): csr column indices of the full square blocks: per block row the block's column range
BlockDiagIndexSqRef(m) ==
  LET o == Cum(m)
  IN Flatten([b \in 1..Len(m) |-> Flatten([r \in 1..m[b] |-> Iota(o[b], o[b] + m[b] - 1)])])
=============================================================================
