---------------------------- MODULE OrthoMapsEnum ----------------------------
(***************************************************************************)
(* C32 enumerator: TLC lists the inputs for harness/props/c32.py (Emit)    *)
(* and checks the model laws behind the family (Laws).                     *)
(*                                                                         *)
(* Directions = signed permutations of a catalogue of Pythagorean          *)
(* quadruples (rational unit vectors: the rotation to an axis is rational, *)
(* see OrthoMaps.RefRot) including the coordinate axes, plus generic small *)
(* integer vectors and "nearly parallel" ones (1, 0, +-100)-like, whose    *)
(* outputs are irrational and are judged in fixed point.                   *)
(*                                                                         *)
(* One state = one (kind, chunk of directions); its batch holds one record *)
(* per call of the real code (emitted as one JSON array):                  *)
(*  kind "plane"     project_plane_matrix(pts, normal = n, reference = ref)*)
(*  kind "line"      project_line_matrix(pts, tangent = n, reference = ref)*)
(*  kind "plane_pts" project_plane_matrix(pts, reference = ref): the       *)
(*                   normal is computed from the planar point set pts      *)
(*  kind "line_pts"  project_line_matrix(pts, reference = ref): the        *)
(*                   tangent is computed from the collinear point set      *)
(*  kind "normal"    compute_normal(pts)                                   *)
(*  kind "rot"       rotation_matrix(angle, w); angle = atan2(s, c) of a   *)
(*                   Pythagorean (c, s) / h, or the rational p / q radians *)
(*  kind "tnp"       TangentialNormalProjection(normals) in 2D / 3D with   *)
(*                   1..3 non-unit normals; all three projection matrices  *)
(*                   with num = None and num = 2                           *)
(*  kinds "tilt_*": the same calls (one normal) for the graded family of    *)
(*                   nearly axis-aligned directions m e_o + sg Big e_ax:   *)
(*                   every axis, both signs, both other components, tilts  *)
(*                   m / Big from 1e-1 down to 1e-7; integers for the code,*)
(*                   big vectors [s, cv, facs] for the judge               *)
(* ref = 0: the default reference (third axis) is used; 1..3: e_ref.       *)
(* Point sets: off + i u + j v for coefficient patterns (i, j) - triangle, *)
(* quadrilateral, three collinear points first, nearly parallel vectors    *)
(* from the centre, five points - in every cyclic order.                   *)
(***************************************************************************)
EXTENDS OrthoMaps, Json

CONSTANTS Bases,      \* set of Pythagorean quadruples <<a, b, c>> (a^2 + b^2 + c^2 a perfect square)
          Gen,        \* generic components: all non-zero vectors over Gen^3
          Near,       \* set of nearly parallel integer directions
          Bases2,     \* 2D: Pythagorean pairs
          Gen2,       \* 2D: generic components
          Kinds,      \* which kinds to enumerate
          SmallNorm,  \* point sets are generated in the planes / along the lines of directions with |n|^2 <= SmallNorm
          ExtraPtDirs,\* ... and of these directions
          MaxShift,   \* cyclic orders 0..MaxShift of every point pattern
          Offsets,    \* translations of the point sets
          PtRefs,     \* reference axes used with point sets
          LineRefs,   \* reference axes used with project_line_matrix(tangent)
          AllScales,  \* tnp: both scalings for every number of normals (otherwise only for a single normal)
          Tilts,      \* nearly axis-aligned directions: set of [m, facs]: tilt = m / product of facs
          TiltSigns   \* signs of the small component

Perms3 == {s \in [1..3 -> 1..3] : \A i, j \in 1..3 : i # j => s[i] # s[j]}
Signs3 == [1..3 -> {-1, 1}]
SignedPermsOf(v) == {[k \in 1..3 |-> sg[k] * v[s[k]]] : s \in Perms3, sg \in Signs3}
ExactDirs == UNION {SignedPermsOf(v) : v \in Bases}
GenDirs == {<<x, y, z>> : x \in Gen, y \in Gen, z \in Gen} \ {<<0, 0, 0>>}
Dirs == ExactDirs \cup GenDirs \cup Near
\* directions small enough for lattice point sets in their plane (coordinates stay below 500)
SmallDirs == {n \in Dirs : Norm2(n) <= SmallNorm} \cup ExtraPtDirs
Dirs2 == UNION {{<<sx * v[1], sy * v[2]>>, <<sx * v[2], sy * v[1]>>} : sx \in {-1, 1}, sy \in {-1, 1}, v \in Bases2}
         \cup ({<<x, y>> : x \in Gen2, y \in Gen2} \ {<<0, 0>>})

Tri == <<<<0, 0>>, <<1, 0>>, <<0, 1>>>>
Quad == <<<<0, 0>>, <<2, 0>>, <<2, 1>>, <<0, 1>>>>
CollinearStart == <<<<0, 0>>, <<1, 0>>, <<2, 0>>, <<3, 0>>, <<1, 1>>>>
NearlyParallel == <<<<0, 0>>, <<4, 0>>, <<8, 1>>>>
Five == <<<<-1, -1>>, <<2, -1>>, <<3, 1>>, <<0, 2>>, <<-2, 1>>>>
Patterns == {Tri, Quad, CollinearStart, NearlyParallel, Five}
LinePatterns == {<<0, 1>>, <<0, 2, 1>>, <<-1, 3, 0, 1>>, <<2, -2, 1>>}

Angles == {[t |-> "pyth", a |-> 3, b |-> 4, h |-> 5], [t |-> "pyth", a |-> -3, b |-> 4, h |-> 5],
           [t |-> "pyth", a |-> 4, b |-> -3, h |-> 5], [t |-> "pyth", a |-> 5, b |-> 12, h |-> 13],
           [t |-> "pyth", a |-> 0, b |-> 1, h |-> 1], [t |-> "pyth", a |-> -1, b |-> 0, h |-> 1],
           [t |-> "pyth", a |-> 1, b |-> 0, h |-> 1],
           [t |-> "rat", a |-> 1, b |-> 2, h |-> 0], [t |-> "rat", a |-> 1, b |-> 1, h |-> 0],
           [t |-> "rat", a |-> 5, b |-> 2, h |-> 0], [t |-> "rat", a |-> -7, b |-> 3, h |-> 0],
           [t |-> "rat", a |-> 3, b |-> 1, h |-> 0]}
RotAxes == {<<0, 0, 0>>, <<0, 0, 1>>, <<1, 2, 2>>, <<-2, 1, 2>>, <<2, 3, 6>>, <<6, -2, 3>>, <<-3, 4, 12>>,
            <<1, 1, 1>>, <<1, -2, 0>>, <<0, 3, -4>>}

Min2(a, b) == IF a <= b THEN a ELSE b
Cyc(d) == <<d[2], d[3], d[1]>>
NegSwap(d) == <<-d[2], d[1], -d[3]>>
Normals3(d, k, s) == IF k = 1 THEN <<VScale(s, d)>> ELSE IF k = 2 THEN <<d, VScale(s, Cyc(d))>>
                     ELSE <<VScale(s, d), Cyc(d), NegSwap(d)>>
Normals2(d, k, s) == IF k = 1 THEN <<VScale(s, d)>> ELSE IF k = 2 THEN <<d, VScale(s, <<-d[2], d[1]>>)>>
                     ELSE <<VScale(s, d), <<-d[1], -d[2]>>, <<d[2], d[1]>>>>

\* ---- the records of one kind whose leading direction falls into chunk c (PrintT is slow: one line per chunk)
NChunks == 8
ChunkOf(v) == ((SumF(LAMBDA k : (2 * k + 1) * v[k], Len(v)) % NChunks) + NChunks) % NChunks
InChunk(S, c) == {v \in S : ChunkOf(v) = c}
Shifts(p) == 0..Min2(MaxShift, Len(p) - 1)
RecordsOf(k, c) ==
  CASE k \in {"plane", "line"} ->
         {[kind |-> k, n |-> n, ref |-> r,
           pts |-> IF k = "plane" THEN PlanePts(n, <<0, 0, 0>>, Tri) ELSE LinePts(n, <<0, 0, 0>>, <<0, 1>>)] :
            n \in InChunk(Dirs, c), r \in (IF k = "plane" THEN 0..3 ELSE LineRefs)}
    [] k \in {"plane_pts", "normal"} ->
         UNION {{[kind |-> k, n |-> x[1], ref |-> x[2], pts |-> PlanePts(x[1], x[4], Rotate(x[3], sh))] : sh \in Shifts(x[3])} :
                  x \in InChunk(SmallDirs, c) \X (IF k = "normal" THEN {0} ELSE PtRefs) \X Patterns \X Offsets}
    [] k = "line_pts" ->
         {[kind |-> k, n |-> n, ref |-> r, pts |-> LinePts(n, off, p)] :
            n \in InChunk(SmallDirs, c), r \in PtRefs, p \in LinePatterns, off \in Offsets}
    [] k = "rot" ->
         {[kind |-> k, w |-> w, ang |-> a] : w \in InChunk(RotAxes, c), a \in Angles}
    [] k = "tnp3" ->
         {[kind |-> "tnp", dim |-> 3, normals |-> Normals3(x[1], x[2], x[3])] :
            x \in {y \in InChunk(Dirs, c) \X (1..3) \X {1, 3} : (y[2] > 1 /\ ~AllScales) => y[3] = 3}}
    [] k = "tnp2" ->
         {[kind |-> "tnp", dim |-> 2, normals |-> Normals2(x[1], x[2], x[3])] :
            x \in {y \in InChunk(Dirs2, c) \X (1..3) \X {1, 2} : (y[2] > 1 /\ ~AllScales) => y[3] = 2}}

\* ---- graded family of nearly axis-aligned directions  m e_o + sg Big e_ax  (tilt |m| / Big from the axis +-e_ax)
\* for every axis, both signs, each of the two other components and every tilt; as integers and as big vectors
TiltDirs3 == UNION {{[m |-> t.m * sm, facs |-> t.facs, ax |-> ax, o |-> o, sg |-> sg] :
                       t \in Tilts, sm \in TiltSigns, o \in (1..3) \ {ax}, sg \in {-1, 1}} : ax \in 1..3}
TiltDirs2 == {[m |-> t.m * sm, facs |-> t.facs, ax |-> ax, o |-> 3 - ax, sg |-> sg] :
                t \in Tilts, sm \in TiltSigns, ax \in 1..2, sg \in {-1, 1}}
TiltChunk(d) == (d.ax + 3 * d.o + d.sg + d.m + Len(d.facs) + 16) % NChunks
TiltBig(d, dim) == [s |-> [k \in 1..dim |-> IF k = d.o THEN d.m ELSE 0], cv |-> VScale(d.sg, Axis(d.ax, dim)), facs |-> d.facs]
\* in-plane vectors of the plane orthogonal to the tilted direction (both of length ~ Big, so that the point sets are
\* not needles): U = Big e_p (p the third axis), V = Big e_o - sg m e_ax;  the point / difference with coefficients (ci, cj)
TiltVBig(d, ci, cj) == [s |-> VScale(-(cj * d.sg * d.m), Axis(d.ax, 3)),
                        cv |-> VAdd(VScale(ci, Axis(6 - d.ax - d.o, 3)), VScale(cj, Axis(d.o, 3))), facs |-> d.facs]
TiltPts(d, off, cs) == [i \in 1..Len(cs) |-> VAdd(off, BigInts(TiltVBig(d, cs[i][1], cs[i][2])))]
TiltDiffs(d, cs) == [i \in 1..(Len(cs) - 1) |-> TiltVBig(d, cs[i + 1][1] - cs[1][1], cs[i + 1][2] - cs[1][2])]
TiltPatterns == {Tri, Quad, CollinearStart}
TiltRecordsOf(k, c) ==
  CASE k = "tilt_tnp3" ->
         {[kind |-> "tilt_tnp", dim |-> 3, nb |-> TiltBig(d, 3), normals |-> <<BigInts(TiltBig(d, 3))>>] :
            d \in {e \in TiltDirs3 : TiltChunk(e) = c}}
    [] k = "tilt_tnp2" ->
         {[kind |-> "tilt_tnp", dim |-> 2, nb |-> TiltBig(d, 2), normals |-> <<BigInts(TiltBig(d, 2))>>] :
            d \in {e \in TiltDirs2 : TiltChunk(e) = c}}
    [] k = "tilt_plane" ->
         {[kind |-> k, nb |-> TiltBig(x[1], 3), n |-> BigInts(TiltBig(x[1], 3)), ref |-> x[2],
           pts |-> TiltPts(x[1], <<0, 0, 0>>, Tri)] :
            x \in {e \in TiltDirs3 : TiltChunk(e) = c} \X PtRefs}
    [] k \in {"tilt_normal", "tilt_plane_pts"} ->
         UNION {{[kind |-> k, nb |-> TiltBig(x[1], 3), n |-> BigInts(TiltBig(x[1], 3)), ref |-> 0,
                  pts |-> TiltPts(x[1], x[3], Rotate(x[2], sh)), dv |-> TiltDiffs(x[1], Rotate(x[2], sh))] : sh \in Shifts(x[2])} :
                  x \in {e \in TiltDirs3 : TiltChunk(e) = c} \X TiltPatterns \X Offsets}

VARIABLES st, kind, batch
vars == <<st, kind, batch>>
Init == st = 0 /\ kind \in Kinds /\ batch = {}
Pick == /\ st = 0 /\ st' = 1 /\ kind' = kind
        /\ \E c \in 0..(NChunks - 1) :
             batch' = IF kind \in {"tilt_tnp3", "tilt_tnp2", "tilt_plane", "tilt_normal", "tilt_plane_pts"}
                      THEN TiltRecordsOf(kind, c) ELSE RecordsOf(kind, c)
Next == Pick
Spec == Init /\ [][Next]_vars

Emit == (st = 1 /\ batch # {}) => PrintT(ToJson(batch))

\* ---- model laws of the family
LawsOf(rec) ==
  /\ (rec.kind \in {"plane", "plane_pts", "normal"}) =>
        /\ \A i \in 1..(Len(rec.pts) - 1) : Dot(rec.n, Diffs(rec.pts)[i]) = 0          \* planar, orthogonal to n
        /\ \E i, j \in 1..(Len(rec.pts) - 1) : Cross(Diffs(rec.pts)[i], Diffs(rec.pts)[j]) # <<0, 0, 0>>
        /\ rec.kind # "plane" => \A i \in 1..(Len(rec.pts) - 1) : MaxAbs(Diffs(rec.pts)[i]) <= 500
  /\ rec.kind = "line_pts" =>
        /\ \A i \in 1..(Len(rec.pts) - 1) : Cross(rec.n, Diffs(rec.pts)[i]) = <<0, 0, 0>>
        /\ \A i \in 1..(Len(rec.pts) - 1) : MaxAbs(Diffs(rec.pts)[i]) <= 500
  /\ (rec.kind \in {"plane", "line"}) => rec.n # <<0, 0, 0>> /\ MaxAbs(rec.n) <= 500
  \* tilted family: the integer points lie in the plane orthogonal to n (big vector form: n . (s + c Big e_ax) = 0 is
  \* m c Big - sg Big c sg m = 0, checked without the big products), the big vectors are the integer vectors
  /\ (rec.kind \in {"tilt_normal", "tilt_plane_pts"}) =>
        /\ \A i \in 1..Len(rec.dv) : BigInts(rec.dv[i]) = Diffs(rec.pts)[i]
        /\ \A i \in 1..Len(rec.dv) : LET w == rec.dv[i] IN
              /\ Dot(rec.nb.cv, w.cv) = 0 /\ Dot(rec.nb.s, w.s) = 0                \* the Big^2 and the small terms vanish
              /\ Dot(rec.nb.s, w.cv) + Dot(rec.nb.cv, w.s) = 0                      \* the two Big terms cancel
              /\ MaxAbs(w.s) <= 30 /\ MaxAbs(w.cv) <= 5
        /\ \E i, j \in 1..Len(rec.dv) : Cross(rec.dv[i].cv, rec.dv[j].cv) # <<0, 0, 0>>   \* not collinear
  /\ (rec.kind \in {"tilt_tnp", "tilt_plane", "tilt_normal", "tilt_plane_pts"}) =>
        /\ MaxAbs(rec.nb.s) <= 5 /\ MaxAbs(rec.nb.cv) = 1 /\ \A i \in 1..Len(rec.nb.facs) : rec.nb.facs[i] \in 2..1000
        /\ rec.kind # "tilt_tnp" => BigInts(rec.nb) = rec.n
  /\ rec.kind = "tnp" => \A i \in 1..Len(rec.normals) : Norm2(rec.normals[i]) > 0 /\ MaxAbs(rec.normals[i]) <= 500
Laws == st = 1 => \A rec \in batch : LawsOf(rec)
\* the exact family is not empty: the Rodrigues rotation of a rational unit vector onto e3 is the rational RefRot
LawRefRotation == (st = 1 /\ kind = "plane") => \A rec \in batch :
  LET m == LenOf(rec.n) IN
  (m > 0 /\ ~AntiParallel(rec.n, 3)) =>
     LET q == RefRotDen(rec.n, m)
         N == RefRot(rec.n, m)
     IN /\ IsOrthoInt(N, q, 3) /\ IsProperInt(N, q, 3)
        /\ [i \in 1..3 |-> Dot(N[i], rec.n)] = <<0, 0, q * m>>
=============================================================================
