--------------------------- MODULE InterpTableEnum ---------------------------
(***************************************************************************)
(* C41 enumerator: TLC lists tables (box, resolution, multilinear          *)
(* coefficient tensor) with the full query lattice for                     *)
(* harness/props/c41.py (Emit) and checks on the model that piecewise      *)
(* multilinear interpolation reproduces f at every lattice point (Laws).   *)
(* Every axis takes a configuration <<low, w, npt>> from Ax; coefficient   *)
(* tensors: constant term from ConstVals, first-order coefficients from     *)
(* CoefLin, at most MaxHi (0 or 1) non-zero higher-order coefficients from CoefHi.  The way the      *)
(* adaptive table is driven (mode) and - for the modes that query point by *)
(* point - the order of the queries vary deterministically with the table. *)
(***************************************************************************)
EXTENDS InterpTable, Json

CONSTANTS P, Ax, ConstVals, CoefLin, CoefHi, MaxHi,
          D,        \* lattice denominator, a multiple of npt - 1 for every configuration
          QKs,      \* sequence of the lattice coordinates k queried per axis (subset of 0..D incl. 0 and D)
          Stride,   \* coprime to Len(QKs)^P: queries are visited in the order i -> (i - 1) * Stride mod n
          SeqLen    \* number of queries of the point-by-point modes (a prefix of that order)

NM == Pow(2, P)
\* coefficient tensors built directly (MaxHi in {0, 1}): constant term, one coefficient per axis, and at most one
\* higher-order coefficient <<mask, value>> (<<0, 0>> = none)
HiOpts == {<<0, 0>>} \cup (IF MaxHi = 0 THEN {} ELSE {<<m, v>> : m \in {k \in 0..(NM - 1) : PopCount(k) >= 2}, v \in CoefHi})
AxisOf(m) == CHOOSE ax \in 1..P : Pow(2, ax - 1) = m
MkCoef(c0, l, h) == [i \in 1..NM |-> IF i = 1 THEN c0
                                     ELSE IF PopCount(i - 1) = 1 THEN l[AxisOf(i - 1)]
                                     ELSE IF i - 1 = h[1] THEN h[2] ELSE 0]
Coefs == {MkCoef(c0, l, h) : c0 \in ConstVals, l \in [1..P -> CoefLin], h \in HiOpts}
Q == Len(QKs)
NQ == Pow(Q, P)
KVec(i) == [a \in 1..P |-> QKs[(((i - 1) \div Pow(Q, a - 1)) % Q) + 1]]
Order(i) == (((i - 1) * Stride) % NQ) + 1

VARIABLES st, box, coef
vars == <<st, box, coef>>
Low == [i \in 1..P |-> box[i][1]]
W == [i \in 1..P |-> box[i][2]]
Npt == [i \in 1..P |-> box[i][3]]
RECURSIVE SumSeq(_)
SumSeq(s) == IF s = <<>> THEN 0 ELSE Head(s) + SumSeq(Tail(s))
Mode == <<"batch", "seq", "assign">>[((SumSeq(Low) + SumSeq(Npt) + SumSeq(coef) + 300) % 3) + 1]
\* the standard table is queried on the whole lattice Qs; the adaptive table on the queries AQ (indices into Qs)
Qs == [i \in 1..NQ |-> KVec(i)]
AQ == [i \in 1..(IF Mode = "batch" THEN NQ ELSE MinI(NQ, SeqLen)) |-> IF Mode = "batch" THEN i ELSE Order(i)]

Init == st = 0 /\ box \in [1..P -> Ax] /\ coef = <<>>
Pick == st = 0 /\ st' = 1 /\ box' = box /\ coef' \in Coefs
Eval == st = 1 /\ st' = 2 /\ UNCHANGED <<box, coef>>
Next == Pick \/ Eval
Spec == Init /\ [][Next]_vars

Emit == st = 2 =>
  PrintT(ToJson([P |-> P, low |-> Low, w |-> W, npt |-> Npt, coef |-> coef, D |-> D, mode |-> Mode,
                 linear |-> IsLinear(coef), qs |-> Qs, aq |-> AQ]))
Laws == st = 2 =>
  /\ \A i \in 1..P : D % (Npt[i] - 1) = 0 /\ Npt[i] >= 2 /\ W[i] >= 1
  /\ Cardinality({Order(i) : i \in 1..NQ}) = NQ
  /\ \A i \in 1..NQ : LawInterpExactOf(Low, W, Npt, coef, KVec(i), D)
=============================================================================
