------------------------------ MODULE FvOracle ------------------------------
(***************************************************************************)
(* Exact oracle for flux discretisations of  q = -K grad p  on grids with  *)
(* INTEGER node coordinates (C11 MPFA, C12 TPFA, C18 RT0 / MVEM).          *)
(* Pure operators on top of GridGeom (exact geometry); no variables.       *)
(*                                                                         *)
(* Inputs                                                                  *)
(*   G     grid in the GridGeom format (dim 1: on the x-axis; dim 2: in a  *)
(*         plane z = const; dim 3)                                         *)
(*   k     permeability as 6 integers <<kxx, kyy, kzz, kxy, kxz, kyz>>     *)
(*         (kc: one such tuple per cell)                                   *)
(*   F     linear pressure field [g |-> <<gx, gy, gz>>, p0 |-> integer]:   *)
(*         p(x) = p0 + g . x                                               *)
(*   bc    one of "dir" "neu" "int" per face ("int" = not on the boundary) *)
(*                                                                         *)
(* Oracle (what every consistent discretisation has to return)             *)
(*   ExactFlux(f)          = -(n_f . K g)   n_f the area-weighted normal   *)
(*                           in the orientation fixed by cell_faces        *)
(*   ExactBoundPressure(f) = p(x_f)         x_f the face centroid          *)
(*   ExactCellPressure(c)  = p(x_c)         x_c the cell centroid          *)
(*   BcValue(f)            = p(x_f) on Dirichlet faces, the flux OUT of    *)
(*                           the domain on Neumann faces                   *)
(*   a constant field (g = 0) has zero flux                                *)
(* Model laws of the oracle (checked by TLC on every grid it is used on):  *)
(*   OracleLaws: per cell the signed normals sum to zero and the signed    *)
(*   exact fluxes sum to zero (discrete divergence theorem, K constant).   *)
(*                                                                         *)
(* TpfaRef (C12): the two-point flux approximation transcribed from        *)
(* tpfa.py as rational matrices:                                           *)
(*   half transmissibility  t(c, f) = (s n_f . K_c (x_f - x_c)) / |x_f - x_c|^2  *)
(*   face transmissibility  T(f) = 1 / sum_{c of f} 1 / t(c, f)            *)
(*   flux[f][c] = s(c, f) T(f)  (0 on Neumann faces)                       *)
(*   bound_flux[f][f] = -s T(f) (Dirichlet),  s (Neumann)                  *)
(*   bound_pressure_cell[f][c] = 1 (Neumann face f of cell c)              *)
(*   bound_pressure_face[f][f] = 1 (Dirichlet), -1 / T(f) (Neumann)        *)
(* T(f) is undefined where the reciprocal halves sum to zero (Singular);   *)
(* SmallGeom / HalfOK / TSmall are guards that keep TLC's 32-bit integer   *)
(* arithmetic from overflowing - outside them the reference is not         *)
(* evaluated (the judge module counts these configurations).               *)
(* and its model laws TpfaLaws (symmetry of Div Flux, zero flux for        *)
(* constants; M-matrix signs and exactness for linear fields with constant *)
(* K on Cartesian / tensor grids with diagonal K, which are K-orthogonal). *)
(***************************************************************************)
EXTENDS GridGeom

\* ---- tensors -----------------------------------------------------------------------------------------
KMat(k) == << <<k[1], k[4], k[5]>>, <<k[4], k[2], k[6]>>, <<k[5], k[6], k[3]>> >>
MatVecI(M, v) == <<VDot(M[1], v), VDot(M[2], v), VDot(M[3], v)>>
RMatVec(M, v) == <<RVDot(RV(M[1]), v), RVDot(RV(M[2]), v), RVDot(RV(M[3]), v)>>   \* integer matrix, rational vector
KSPD(k) == /\ k[1] > 0
           /\ k[1] * k[2] - k[4] * k[4] > 0
           /\ Det3(KMat(k)[1], KMat(k)[2], KMat(k)[3]) > 0
KDiag(k) == k[4] = 0 /\ k[5] = 0 /\ k[6] = 0
\* a tensor of a grid of dimension < 3 acts in the grid's plane / line only
KBlock(dim, k) == /\ dim <= 2 => (k[5] = 0 /\ k[6] = 0)
                  /\ dim = 1 => k[4] = 0

\* ---- geometry: GridGeom.Exact, completed for dim 1 (grid on the x-axis) ------------------------------------
OnXAxis(G) == \A n \in 1..NNodes(G) : G.nodes[n][2] = 0 /\ G.nodes[n][3] = 0
Geom(G) ==
  IF G.dim # 1 THEN Exact(G)
  ELSE
    LET X == Exact(G)
        x(n) == G.nodes[n][1]
        len(c) == Abs(x(Seg(G, c)[2]) - x(Seg(G, c)[1]))
        \* sign of x_f - x_c (times 2)
        out(c, f) == Sgn(2 * x(G.fn[f][1]) - x(Seg(G, c)[1]) - x(Seg(G, c)[2]))
        nrm(c, f) == SignIn(G, c, f) * out(c, f)
        first(f) == CHOOSE c \in X.f2c[f] : \A d \in X.f2c[f] : c <= d
    IN TLCEval([vol |-> [c \in 1..NCells(G) |-> R(len(c))],
                planar |-> X.planar /\ OnXAxis(G), convex |-> TRUE, star |-> TRUE,
                sides |-> \A f \in 1..NFaces(G) : \A c, d \in X.f2c[f] : nrm(c, f) = nrm(d, f),
                closed |-> X.closed, f2c |-> X.f2c, cc |-> X.cc, fc |-> X.fc,
                fn |-> [f \in 1..NFaces(G) |-> <<R(nrm(first(f), f)), RZero, RZero>>],
                fa2 |-> X.fa2])

RECURSIVE SetToSeq2(_)
SetToSeq2(S) == IF S = {} THEN <<>>
                ELSE LET m == CHOOSE m \in S : \A x \in S : m <= x IN <<m>> \o SetToSeq2(S \ {m})

Boundary(E, f) == Cardinality(E.f2c[f]) = 1
CellOf(E, f) == CHOOSE c \in E.f2c[f] : \A d \in E.f2c[f] : c <= d
BoundaryFaces(G, E) == {f \in 1..NFaces(G) : Boundary(E, f)}

\* ---- the oracle ----------------------------------------------------------------------------------------
PAt(F, x) == RAdd(R(F.p0), RVDot(RV(F.g), x))
ExactFlux(E, k, F, f) == RNeg(RVDot(E.fn[f], RV(MatVecI(KMat(k), F.g))))
ExactBoundPressure(E, F, f) == PAt(F, E.fc[f])
ExactCellPressure(E, F, c) == PAt(F, E.cc[c])
\* flux out of the domain over the boundary face f
OutFlux(G, E, k, F, f) == RMul(R(SignIn(G, CellOf(E, f), f)), ExactFlux(E, k, F, f))
BcValue(G, E, k, F, bc, f) ==
  IF bc[f] = "dir" THEN ExactBoundPressure(E, F, f)
  ELSE IF bc[f] = "neu" THEN OutFlux(G, E, k, F, f)
  ELSE RZero

\* the boundary-type assignment fits the grid and makes the problem well posed
BcOK(G, E, bc) == /\ Len(bc) = NFaces(G)
                  /\ \A f \in 1..NFaces(G) : IF Boundary(E, f) THEN bc[f] \in {"dir", "neu"} ELSE bc[f] = "int"
                  /\ \E f \in 1..NFaces(G) : bc[f] = "dir"

\* model laws of the oracle on the grid G with constant tensor k
OracleLaws(G, E, k, F) ==
  \A c \in 1..NCells(G) :
     /\ RVSum([i \in 1..Len(G.cf[c]) |-> RVSgn(G.cf[c][i][2], E.fn[G.cf[c][i][1]])]) = RVZero
     /\ RSum([i \in 1..Len(G.cf[c]) |-> RMul(R(G.cf[c][i][2]), ExactFlux(E, k, F, G.cf[c][i][1]))]) = RZero
ConstantLaw(E, k, p0, f) == ExactFlux(E, k, [g |-> <<0, 0, 0>>, p0 |-> p0], f) = RZero

\* ---- degenerate corners (MPFA) ------------------------------------------------------------------------------
\* A corner is a node that belongs to exactly one cell c and in which dim boundary faces of c meet.  Its interaction
\* region consists of one sub-cell; the local system of the O-method for the sub-cell gradient has one row per face:
\* K n_f on a Neumann face (flux condition), x_f - x_c on a Dirichlet face (pressure at the continuity point, which
\* is the face centre on the boundary).  If these rows are linearly dependent the local system is singular and the
\* method itself is undefined (all-Neumann rows are independent for SPD K).
NodesOfFace(G, f) == {G.fn[f][i] : i \in 1..Len(G.fn[f])}
Corners(G, E) ==
  LET n2c == [n \in 1..NNodes(G) |-> {c \in 1..NCells(G) : n \in NodesOfCell(G, c)}]
  IN {<<n, c>> \in (1..NNodes(G)) \X (1..NCells(G)) :
        /\ n2c[n] = {c}
        /\ LET fs == {f \in FacesOf(G, c) : n \in NodesOfFace(G, f)} IN
             Cardinality(fs) = G.dim /\ \A f \in fs : Boundary(E, f)}
CornerRow(E, k, bc, c, f) == IF bc[f] = "neu" THEN RMatVec(KMat(k), E.fn[f]) ELSE RVSub(E.fc[f], E.cc[c])
\* a rational vector scaled to an integer vector (linear dependence is not affected; keeps the test within 32 bits)
Lcm2(a, b) == (a \div GCD(a, b)) * b
IntRow(r) == LET L == Lcm2(Lcm2(r[1][2], r[2][2]), r[3][2])
             IN <<r[1][1] * (L \div r[1][2]), r[2][1] * (L \div r[2][2]), r[3][1] * (L \div r[3][2])>>
DegenerateCorner(G, E, k, bc, n, c) ==
  LET fs == SetToSeq2({f \in FacesOf(G, c) : n \in NodesOfFace(G, f)})
      r(i) == IntRow(CornerRow(E, k, bc, c, fs[i]))
  IN IF G.dim = 2 THEN VCross(r(1), r(2)) = VZero
     ELSE IF G.dim = 3 THEN Det3(r(1), r(2), r(3)) = 0
     ELSE FALSE
DegenerateCorners(G, E, k, bc, corners) == {x \in corners : DegenerateCorner(G, E, k, bc, x[1], x[2])}

\* ---- K-orthogonality -------------------------------------------------------------------------------------
\* every half face: K_c n_f is parallel to x_f - x_c
KOrthogonal(G, E, kc) == \A c \in 1..NCells(G) : \A i \in 1..Len(G.cf[c]) :
   LET f == G.cf[c][i][1] IN
     RVCross(RMatVec(KMat(kc[c]), E.fn[f]), RVSub(E.fc[f], E.cc[c])) = RVZero
\* Cartesian / tensor grid: every cell has 2 dim faces and every face normal is parallel to a coordinate axis
AxisNormal(n) == Cardinality({i \in 1..3 : n[i] # RZero}) = 1
AxisAligned(G, E) == /\ \A c \in 1..NCells(G) : Len(G.cf[c]) = 2 * G.dim
                     /\ \A f \in 1..NFaces(G) : AxisNormal(E.fn[f])
AxisDiag(G, E, kc) == AxisAligned(G, E) /\ \A c \in 1..NCells(G) : KDiag(kc[c])
ConstantK(kc) == \A c \in 1..Len(kc) : kc[c] = kc[1]

\* ---- TpfaRef -----------------------------------------------------------------------------------------------
\* guard 1: the geometry has small denominators, so that the half transmissibilities fit in 32 bits
SmallGeom(G, E) == /\ \A n \in 1..NNodes(G) : \A i \in 1..3 : Abs(G.nodes[n][i]) <= 16
                   /\ \A c \in 1..NCells(G) : \A i \in 1..3 : E.cc[c][i][2] <= 12
                   /\ \A f \in 1..NFaces(G) : \A i \in 1..3 : E.fc[f][i][2] <= 6
HalfT(G, E, kc, c, f) ==
  LET d == RVSub(E.fc[f], E.cc[c])
  IN RDiv(RMul(R(SignIn(G, c, f)), RVDot(RMatVec(KMat(kc[c]), E.fn[f]), d)), RVDot(d, d))
\* half[f] = sequence of <<cell, t(cell, f)>>
Halves(G, E, kc) == TLCEval([f \in 1..NFaces(G) |->
                       LET cs == SetToSeq2(E.f2c[f]) IN [i \in 1..Len(cs) |-> <<cs[i], HalfT(G, E, kc, cs[i], f)>>]])
\* guard 2: heights of the halves (HalfSmall); the reference is evaluated when moreover no half vanishes (HalfOK)
HalfSmall(H) == \A f \in 1..Len(H) : \A i \in 1..Len(H[f]) : Abs(H[f][i][2][1]) <= 20000 /\ H[f][i][2][2] <= 20000
HalfOK(H) == HalfSmall(H) /\ \A f \in 1..Len(H) : \A i \in 1..Len(H[f]) : H[f][i][2][1] # 0
\* faces on which the two-point transmissibility is undefined: no half vanishes and the reciprocal halves sum to zero
\* (t1 = -t2 on an interior face).  Evaluate under HalfSmall.
Singular(H) == {f \in 1..Len(H) : /\ (\A i \in 1..Len(H[f]) : H[f][i][2][1] # 0)
                                   /\ RSum([j \in 1..Len(H[f]) |-> RDiv(ROne, H[f][j][2])]) = RZero}
FaceT(H, f) == RDiv(ROne, RSum([i \in 1..Len(H[f]) |-> RDiv(ROne, H[f][i][2])]))
\* the four matrices as functions (face, column) -> rational; T = [f |-> FaceT]
TpfaT(H) == TLCEval([f \in 1..Len(H) |-> FaceT(H, f)])
RefFlux(G, E, bc, T, f, c) ==
  IF c \in E.f2c[f] /\ bc[f] # "neu" THEN RMul(R(SignIn(G, c, f)), T[f]) ELSE RZero
RefBoundFlux(G, E, bc, T, f, h) ==
  IF f # h \/ bc[f] = "int" THEN RZero
  ELSE IF bc[f] = "dir" THEN RNeg(RMul(R(SignIn(G, CellOf(E, f), f)), T[f]))
  ELSE R(SignIn(G, CellOf(E, f), f))
RefBoundPressureCell(E, bc, f, c) == IF bc[f] = "neu" /\ c \in E.f2c[f] THEN ROne ELSE RZero
RefBoundPressureFace(bc, T, f, h) ==
  IF f # h \/ bc[f] = "int" THEN RZero
  ELSE IF bc[f] = "dir" THEN ROne ELSE RNeg(RDiv(ROne, T[f]))

\* model laws of TpfaRef (A = Div Flux, Div = cell_faces^T)
RefA(G, E, bc, T, c, d) == RSum([i \in 1..Len(G.cf[c]) |->
                              RMul(R(G.cf[c][i][2]), RefFlux(G, E, bc, T, G.cf[c][i][1], d))])
RefFluxOf(G, E, k, bc, T, F, f) ==
  RAdd(RSum([i \in 1..Len(SetToSeq2(E.f2c[f])) |->
               LET c == SetToSeq2(E.f2c[f])[i] IN RMul(RefFlux(G, E, bc, T, f, c), ExactCellPressure(E, F, c))]),
       RMul(RefBoundFlux(G, E, bc, T, f, f), BcValue(G, E, k, F, bc, f)))
RefBoundPressureOf(G, E, k, bc, T, F, f) ==
  RAdd(RSum([i \in 1..Len(SetToSeq2(E.f2c[f])) |->
               LET c == SetToSeq2(E.f2c[f])[i] IN RMul(RefBoundPressureCell(E, bc, f, c), ExactCellPressure(E, F, c))]),
       RMul(RefBoundPressureFace(bc, T, f, f), BcValue(G, E, k, F, bc, f)))
\* (off-diagonal entries only: at most two faces are shared by two cells, so the sums stay small)
TpfaSymmetric(G, E, bc, T) == \A c, d \in 1..NCells(G) : c < d => RefA(G, E, bc, T, c, d) = RefA(G, E, bc, T, d, c)
TpfaMMatrix(G, E, bc, T) == \A c, d \in 1..NCells(G) :
   IF c = d THEN RSgn(RefA(G, E, bc, T, c, c)) > 0 ELSE RSgn(RefA(G, E, bc, T, c, d)) <= 0
TpfaExact(G, E, k, bc, T, F) == \A f \in 1..NFaces(G) :
   /\ RefFluxOf(G, E, k, bc, T, F, f) = ExactFlux(E, k, F, f)
   /\ Boundary(E, f) => RefBoundPressureOf(G, E, k, bc, T, F, f) = ExactBoundPressure(E, F, f)
\* all laws for one configuration (fields: a sequence of linear fields, the first one constant).  Arithmetic on the
\* transmissibilities is only done where it provably fits in 32 bits: symmetry and the constant field when all
\* T are small rationals; M-matrix signs and linear exactness on Cartesian / tensor grids with diagonal tensors
\* (axis = AxisDiag; such a configuration is K-orthogonal - asserted by the caller - and its T are tiny).
TSmall(T) == \A f \in 1..Len(T) : Abs(T[f][1]) <= 1000 /\ T[f][2] <= 1000
TpfaLaws(G, E, kc, bc, T, fields, axis) ==
  /\ TSmall(T) =>
       /\ TpfaSymmetric(G, E, bc, T)
       /\ TpfaExact(G, E, kc[1], bc, T, fields[1])
  /\ axis =>
       /\ TSmall(T)
       /\ TpfaMMatrix(G, E, bc, T)
       /\ ConstantK(kc) => \A j \in 1..Len(fields) : TpfaExact(G, E, kc[1], bc, T, fields[j])
=============================================================================
