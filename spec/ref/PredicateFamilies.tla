------------------------- MODULE PredicateFamilies -------------------------
(***************************************************************************)
(* C31 input families as a small state machine: Init is a single start     *)
(* state, Next fans out to one state per call of a real porepy function,   *)
(* invariant Emit prints the call as JSON for the harness (spec -> code).  *)
(* Points on boundaries (the tolerance band of the property) are removed   *)
(* HERE by the exact predicates OnBoundary2 / OnSurface / HsBand, and      *)
(* again by the guards of the judge clauses.                               *)
(* Model laws (checked on the enumerated family, design level):            *)
(*   LawConvex2  for convex polygons crossing number = all-left test       *)
(*   LawConvex3  for convex polyhedra segment parity = strict half spaces  *)
(*               of the outward face planes                                *)
(***************************************************************************)
EXTENDS Predicates, Json

CONSTANTS Fns,      \* set of function names whose families are enumerated
          Big       \* TRUE: thorough-tier lattices

----------------------------------------------------------------------------
\* catalogues and families
Scale2(poly, k) == [i \in 1..Len(poly) |-> <<k * poly[i][1], k * poly[i][2]>>]
Shift2(poly, d) == [i \in 1..Len(poly) |-> <<poly[i][1] + d[1], poly[i][2] + d[2]>>]
Swap2(poly) == [i \in 1..Len(poly) |-> <<poly[i][2], poly[i][1]>>]
Scale3f(faces, k) == [f \in 1..Len(faces) |-> [i \in 1..Len(faces[f]) |->
                        <<k * faces[f][i][1], k * faces[f][i][2], k * faces[f][i][3]>>]]

BasePolys == <<
  << <<0,0>>, <<4,0>>, <<0,4>> >>,                                                 \* triangle
  << <<0,0>>, <<4,0>>, <<4,4>>, <<0,4>> >>,                                        \* square
  << <<0,0>>, <<3,0>>, <<4,2>>, <<2,4>>, <<0,3>> >>,                               \* convex pentagon
  << <<0,0>>, <<4,0>>, <<4,2>>, <<2,2>>, <<2,4>>, <<0,4>> >>,                      \* L
  << <<0,0>>, <<4,0>>, <<4,4>>, <<0,4>>, <<2,2>> >>,                               \* dart
  << <<0,0>>, <<6,0>>, <<6,6>>, <<4,6>>, <<4,2>>, <<2,2>>, <<2,6>>, <<0,6>> >>,    \* U
  << <<0,0>>, <<5,1>>, <<2,2>>, <<1,5>> >>,                                        \* arrow head (non-convex)
  << <<1,0>>, <<3,0>>, <<3,1>>, <<4,1>>, <<4,3>>, <<2,4>>, <<0,3>>, <<0,1>>, <<1,1>> >> \* notched
>>
Variants(poly) == {poly, Rev(poly), Shift2(Swap2(poly), <<-3, -1>>), Rev(Shift2(Swap2(poly), <<-2, -5>>))}
                  \cup (IF Big THEN {Swap2(poly), Rev(Swap2(poly)), Shift2(poly, <<-3, -1>>), Shift2(Rev(poly), <<1, -7>>)} ELSE {})
Polys == UNION {Variants(BasePolys[i]) : i \in 1..Len(BasePolys)}
Xs(poly) == {poly[i][1] : i \in 1..Len(poly)}
Ys(poly) == {poly[i][2] : i \in 1..Len(poly)}
Lo(S) == CHOOSE x \in S : \A y \in S : x <= y
Hi(S) == CHOOSE x \in S : \A y \in S : x >= y
\* all half-lattice points (doubled coordinates) of the bounding box grown by one unit, boundary points removed
TestPts2(poly2) == {p \in ((Lo(Xs(poly2)) - 2)..(Hi(Xs(poly2)) + 2)) \X ((Lo(Ys(poly2)) - 2)..(Hi(Ys(poly2)) + 2)) :
                       ~OnBoundary2(poly2, p)}

\* polyhedra: sequences of convex faces
Quad(a, b, c, d) == <<a, b, c, d>>
Box(x0, y0, z0, x1, y1, z1) == <<
  Quad(<<x0,y0,z0>>, <<x1,y0,z0>>, <<x1,y1,z0>>, <<x0,y1,z0>>), Quad(<<x0,y0,z1>>, <<x1,y0,z1>>, <<x1,y1,z1>>, <<x0,y1,z1>>),
  Quad(<<x0,y0,z0>>, <<x1,y0,z0>>, <<x1,y0,z1>>, <<x0,y0,z1>>), Quad(<<x0,y1,z0>>, <<x1,y1,z0>>, <<x1,y1,z1>>, <<x0,y1,z1>>),
  Quad(<<x0,y0,z0>>, <<x0,y1,z0>>, <<x0,y1,z1>>, <<x0,y0,z1>>), Quad(<<x1,y0,z0>>, <<x1,y1,z0>>, <<x1,y1,z1>>, <<x1,y0,z1>>) >>
Tetra(a, b, c, d) == << <<a, b, c>>, <<a, b, d>>, <<a, c, d>>, <<b, c, d>> >>
Octa == LET px == <<4,2,2>> mx == <<0,2,2>> py == <<2,4,2>> my == <<2,0,2>> pz == <<2,2,4>> mz == <<2,2,0>>
        IN << <<px,py,pz>>, <<py,mx,pz>>, <<mx,my,pz>>, <<my,px,pz>>, <<px,py,mz>>, <<py,mx,mz>>, <<mx,my,mz>>, <<my,px,mz>> >>
\* L-prism: L-shaped base split into three unit squares (conforming surface mesh), height h
LRing == << <<0,0>>, <<2,0>>, <<4,0>>, <<4,2>>, <<2,2>>, <<2,4>>, <<0,4>>, <<0,2>> >>
LSquares == << << <<0,0>>, <<2,0>>, <<2,2>>, <<0,2>> >>, << <<2,0>>, <<4,0>>, <<4,2>>, <<2,2>> >>, << <<0,2>>, <<2,2>>, <<2,4>>, <<0,4>> >> >>
Lift(q, z) == [i \in 1..Len(q) |-> <<q[i][1], q[i][2], z>>]
LPrism(h) ==
  [i \in 1..8 |-> LET a == LRing[i] b == LRing[NextI(i, 8)]
                  IN << <<a[1], a[2], 0>>, <<b[1], b[2], 0>>, <<b[1], b[2], h>>, <<a[1], a[2], h>> >>]
  \o [i \in 1..3 |-> Lift(LSquares[i], 0)] \o [i \in 1..3 |-> Lift(LSquares[i], h)]
Polyhedra == IF Big
  THEN << Box(0,0,0, 2,2,2), Box(0,1,-1, 3,2,1), Tetra(<<0,0,0>>, <<3,0,0>>, <<0,3,0>>, <<0,0,3>>),
          Tetra(<<0,0,0>>, <<4,1,0>>, <<1,3,0>>, <<2,2,3>>), Octa, LPrism(2) >>
  ELSE << Box(0,0,0, 2,2,2), Tetra(<<0,0,0>>, <<3,0,0>>, <<0,3,0>>, <<0,0,3>>), LPrism(2) >>
ConvexPolyhedra == IF Big THEN {1, 2, 3, 4, 5} ELSE {1, 2}
Coords(faces, k) == UNION {{faces[f][i][k] : i \in 1..Len(faces[f])} : f \in 1..Len(faces)}
BoxAround(faces, m) == ((Lo(Coords(faces, 1)) - m)..(Hi(Coords(faces, 1)) + m))
                       \X ((Lo(Coords(faces, 2)) - m)..(Hi(Coords(faces, 2)) + m))
                       \X ((Lo(Coords(faces, 3)) - m)..(Hi(Coords(faces, 3)) + m))
\* outward face planes of a convex polyhedron (normal oriented away from the vertex centroid)
VertSet(faces) == UNION {{faces[f][i] : i \in 1..Len(faces[f])} : f \in 1..Len(faces)}
RECURSIVE SumPts(_)
SumPts(S) == IF S = {} THEN <<0, 0, 0>>
             ELSE LET x == CHOOSE x \in S : TRUE  r == SumPts(S \ {x}) IN <<x[1] + r[1], x[2] + r[2], x[3] + r[3]>>
FaceNormal(face) == Cross3(Sub3(face[2], face[1]), Sub3(face[3], face[1]))
PlanesOf(faces2) ==
  LET V == VertSet(faces2)  S == SumPts(V)  nv == Cardinality(V)
      Out(face) == IF Dot3(FaceNormal(face), <<S[1] - nv * face[1][1], S[2] - nv * face[1][2], S[3] - nv * face[1][3]>>) < 0
                   THEN FaceNormal(face) ELSE Neg3(FaceNormal(face))
  IN [n |-> [f \in 1..Len(faces2) |-> Out(faces2[f])], x0 |-> [f \in 1..Len(faces2) |-> faces2[f][1]]]

Lat2(k) == (0..k) \X (0..k)
Lat3(k) == (0..k) \X (0..k) \X (0..k)
HsNormals == << <<1,0,0>>, <<0,-1,0>>, <<1,1,0>>, <<1,-1,1>>, <<0,0,-1>>, <<-1,2,0>>, <<0,1,1>> >>
HsX0 == << <<0,0,0>>, <<1,1,1>>, <<2,0,1>> >>
HsPts == IF Big THEN (-1..3) \X (-1..3) \X (-1..3) ELSE (-1..2) \X (-1..2) \X (-1..2)

\* chains for the pair sorters: a cycle / path on scrambled labels, columns permuted and flipped
Labels == <<7, 3, 11, 5, 2, 9>>
CycleCols(n) == [i \in 1..n |-> <<Labels[i], Labels[NextI(i, n)], 100 + i>>]
PathCols(n) == [i \in 1..n |-> <<Labels[i], Labels[i + 1], 100 + i>>]
Perms(n) == {f \in [1..n -> 1..n] : Range(f) = 1..n}
Flip3(c, b) == IF b THEN <<c[2], c[1], c[3]>> ELSE c
Scramble(cols, f, fl) == [i \in 1..Len(cols) |-> Flip3(cols[f[i]], fl[i])]
ChainLens == IF Big THEN {2, 3, 4, 5} ELSE {2, 3, 4}

\* lattice lines and planar configurations for the geometric sorters
LineDirs == {<<1,0,0>>, <<0,-1,0>>, <<1,1,0>>, <<1,-2,1>>, <<0,2,-1>>, <<-1,1,1>>}
LineBase == {<<0,0,0>>, <<1,-2,3>>}
LineParams == IF Big THEN {s \in [1..4 -> -2..3] : \A i, j \in 1..4 : i # j => s[i] # s[j]}
                          \cup {s \in [1..3 -> -2..3] : \A i, j \in 1..3 : i # j => s[i] # s[j]}
              ELSE {s \in [1..3 -> -2..2] : \A i, j \in 1..3 : i # j => s[i] # s[j]}
                   \cup {s \in [1..4 -> -1..2] : \A i, j \in 1..4 : i # j => s[i] # s[j]}
OnLine(o, d, t) == <<o[1] + t * d[1], o[2] + t * d[2], o[3] + t * d[3]>>
\* planar frames: (u, v) -> o + u e1 + v e2
Frames == << [o |-> <<0,0,0>>, e1 |-> <<1,0,0>>, e2 |-> <<0,1,0>>], [o |-> <<1,0,2>>, e1 |-> <<0,1,0>>, e2 |-> <<0,0,1>>],
             [o |-> <<0,1,0>>, e1 |-> <<1,0,0>>, e2 |-> <<0,1,1>>], [o |-> <<0,0,1>>, e1 |-> <<1,0,1>>, e2 |-> <<0,1,1>>],
             [o |-> <<2,0,0>>, e1 |-> <<-1,1,0>>, e2 |-> <<0,0,1>>] >>
Embed(fr, q) == <<fr.o[1] + q[1] * fr.e1[1] + q[2] * fr.e2[1], fr.o[2] + q[1] * fr.e1[2] + q[2] * fr.e2[2],
                  fr.o[3] + q[1] * fr.e1[3] + q[2] * fr.e2[3]>>
FrameNormal(fr) == Cross3(fr.e1, fr.e2)
StarPolys == << BasePolys[1], BasePolys[2], BasePolys[3], BasePolys[5], << <<0,0>>, <<2,1>>, <<4,0>>, <<3,2>>, <<4,4>>, <<2,3>>, <<0,4>>, <<1,2>> >> >>
\* strictly interior lattice centres from which the whole polygon is visible with pairwise different rays
Centres(poly) == {c \in (Lo(Xs(poly))..Hi(Xs(poly))) \X (Lo(Ys(poly))..Hi(Ys(poly))) :
                    /\ ~OnBoundary2(poly, c) /\ InPolygon(poly, c)
                    /\ \A i \in Edges(poly) : Cross2(c, EdgeA(poly, i), EdgeB(poly, i)) * SgnI(Area2(poly)) > 0}
\* all orders for small n, else the affine orders i -> a i + b mod n (rotations, reversal, star orders)
CoprimeTo(n) == {a \in 1..(n - 1) : \A d \in 2..n : ~(a % d = 0 /\ n % d = 0)}
PlanePerms(n) == IF n <= 4 \/ (Big /\ n <= 5) THEN Perms(n)
                 ELSE {[i \in 1..n |-> ((a * i + b) % n) + 1] : <<a, b>> \in CoprimeTo(n) \X (0..(n - 1))}
CKey(c) == c[1] + 3 * c[2]
CentresFor(poly) == IF Big THEN Centres(poly)
                    ELSE {c \in Centres(poly) : (\A d \in Centres(poly) : CKey(c) <= CKey(d)) \/ (\A d \in Centres(poly) : CKey(c) >= CKey(d))}

\* closed / open triangulated surfaces for sort_triangle_edges (vertex ids), triangles re-ordered
TetT == << <<0,1,2>>, <<0,1,3>>, <<0,2,3>>, <<1,2,3>> >>
StripT == << <<0,1,2>>, <<1,2,3>>, <<2,3,4>>, <<3,4,5>> >>
FanT == << <<0,1,2>>, <<0,2,3>>, <<0,3,4>>, <<0,4,1>> >>
TriOrders == {<<1,2,3>>, <<2,3,1>>, <<3,1,2>>, <<1,3,2>>, <<3,2,1>>, <<2,1,3>>}
Reorder(t, o) == <<t[o[1]], t[o[2]], t[o[3]]>>
TriFamilies == <<TetT, StripT, FanT>>

----------------------------------------------------------------------------
VARIABLE inp
Start == [fn |-> "start"]
Init == inp = Start

Inputs(fn) ==
  CASE fn = "is_ccw_polygon" ->
         {[fn |-> fn, den |-> 1, poly |-> p] : p \in {q \in Polys : Area2(q) # 0}}
         \cup {[fn |-> fn, den |-> 1, poly |-> p] :
                 p \in {q \in [1..3 -> Lat2(2)] \cup (IF Big THEN [1..4 -> Lat2(2)] ELSE [1..4 -> Lat2(1)]) : Area2(q) # 0}}
    [] fn = "is_ccw_polyline" ->
         {[fn |-> fn, den |-> 1, p1 |-> a, p2 |-> b,
           pts |-> {c \in (-1..4) \X (-1..4) : ~OnLine2(a, b, c)}] :
             <<a, b>> \in {ab \in Lat2(3) \X Lat2(3) : ab[1] # ab[2] /\ (Big \/ ab[1][1] <= 1)}}
    [] fn = "point_in_polygon" ->
         {LET P == Scale2(p, 2) IN [fn |-> fn, den |-> 2, poly |-> P, pts |-> TestPts2(P)] : p \in Polys}
    [] fn = "point_in_cell" ->
         {LET P == Scale2(p, 2) IN [fn |-> fn, den |-> 2, poly |-> P, pts |-> TestPts2(P), planar |-> b] :
             <<p, b>> \in (UNION {{BasePolys[i], Rev(BasePolys[i])} \cup (IF Big THEN Variants(BasePolys[i]) ELSE {}) : i \in 1..Len(BasePolys)}) \X BOOLEAN}
    [] fn = "point_in_polyhedron" ->
         {LET F == Scale3f(Polyhedra[k], 2)
          IN [fn |-> fn, den |-> 2, faces |-> F, pts |-> {p \in BoxAround(F, 2) : ~OnSurface(F, p)}] :
             k \in 1..Len(Polyhedra)}
    [] fn = "half_space" ->
         {LET F == Scale3f(Polyhedra[k], 2)
              P == PlanesOf(F)
          IN [fn |-> fn, den |-> 2, n |-> P.n, x0 |-> P.x0, pts |-> {p \in BoxAround(F, 2) : ~HsBand(P.n, P.x0, p)}] :
             k \in ConvexPolyhedra}
         \cup {LET N == <<HsNormals[w[1]], HsNormals[w[2]]>>
                   X == <<HsX0[w[3]], HsX0[w[4]]>>
               IN [fn |-> fn, den |-> 1, n |-> N, x0 |-> X, pts |-> {p \in HsPts : ~HsBand(N, X, p)}] :
                 w \in {v \in (1..Len(HsNormals)) \X (1..Len(HsNormals)) \X (1..Len(HsX0)) \X (1..Len(HsX0)) :
                           v[1] <= v[2] /\ (Big \/ (v[3] = 1 /\ (v[1] + v[2] + v[4]) % 2 = 0))}}
    [] fn = "points_are_planar" ->
         {[fn |-> fn, den |-> 1, pts |-> <<a, b, c, d>>] :
             <<a, b, c, d>> \in {w \in {<<0,0,0>>}
                                          \X (IF Big THEN Lat3(2) ELSE {<<1,0,0>>, <<1,1,0>>, <<0,1,2>>, <<2,1,1>>})
                                          \X Lat3(2) \X Lat3(2) : ~Collinear(w)}}
    [] fn = "points_are_planar_normal" ->
         {[fn |-> fn, den |-> 1, pts |-> <<a, b, c>>, normal |-> nn] :
             <<a, b, c, nn>> \in (IF Big THEN {<<0,0,0>>, <<1,2,0>>} ELSE {<<1,2,0>>}) \X Lat3(2) \X Lat3(2) \X
                                      (IF Big THEN {<<0,0,1>>, <<1,0,0>>, <<1,-1,0>>, <<1,1,-1>>, <<2,0,1>>} ELSE {<<0,0,1>>, <<1,-1,0>>, <<1,1,-1>>})}
    [] fn = "points_are_collinear" ->
         {[fn |-> fn, den |-> 1, pts |-> w] : w \in (IF Big THEN Lat3(1) ELSE {<<0,0,0>>, <<1,2,0>>}) \X Lat3(2) \X Lat3(2)}
         \cup {[fn |-> fn, den |-> 1, pts |-> w] :
                 w \in (IF Big THEN {<<0,0,0>>, <<2,1,0>>} ELSE {<<0,0,0>>})
                          \X (IF Big THEN Lat3(2) ELSE {<<0,0,0>>, <<1,0,0>>, <<1,1,2>>, <<0,2,1>>})
                          \X Lat3(1) \X Lat3(2)}
    [] fn = "sort_point_pairs" ->
         {[fn |-> fn, circular |-> TRUE, lines |-> Scramble(CycleCols(n), f, fl)] :
             <<n, f, fl>> \in UNION {{n} \X Perms(n) \X [1..n -> BOOLEAN] : n \in ChainLens \ {2}}}
         \cup {[fn |-> fn, circular |-> FALSE, lines |-> Scramble(PathCols(n), f, fl)] :
             <<n, f, fl>> \in UNION {{n} \X Perms(n) \X [1..n -> BOOLEAN] : n \in ChainLens}}
    [] fn = "sort_multiple_point_pairs" ->
         {[fn |-> fn, chains |-> <<[i \in 1..n |-> <<Scramble(CycleCols(n), f, fl)[i][1], Scramble(CycleCols(n), f, fl)[i][2]>>],
                                   [i \in 1..n |-> <<Scramble(CycleCols(n), g, fl)[i][2] + 20, Scramble(CycleCols(n), g, fl)[i][1] + 20>>]>>] :
             <<n, f, g, fl>> \in UNION {{n} \X {h \in Perms(n) : Big \/ h[1] # 2} \X {h \in Perms(n) : h[1] = n \/ (Big /\ h[2] = 1)}
                                             \X {b \in [1..n -> BOOLEAN] : b[n]} : n \in IF Big THEN {3, 4} ELSE {3}}
                                \cup (IF Big THEN {} ELSE {<<4, h, h, [i \in 1..4 |-> i % 2 = 0]>> : h \in {g \in Perms(4) : g[1] = 1}})}
    [] fn = "sort_points_on_line" ->
         {[fn |-> fn, den |-> 1, pts |-> [i \in 1..Len(s) |-> OnLine(o, d, s[i])]] :
             <<o, d, s>> \in LineBase \X LineDirs \X LineParams}
    [] fn = "sort_point_plane" ->
         {[fn |-> fn, den |-> 1, pts |-> [i \in 1..Len(f) |-> Embed(Frames[k], StarPolys[j][f[i]])],
           centre |-> Embed(Frames[k], c), normal |-> FrameNormal(Frames[k]), give_normal |-> gn] :
             <<k, j, c, f, gn>> \in UNION {{k} \X {j} \X CentresFor(StarPolys[j]) \X PlanePerms(Len(StarPolys[j])) \X BOOLEAN :
                                             <<k, j>> \in {kj \in (1..Len(Frames)) \X (1..Len(StarPolys)) :
                                                              Big \/ (kj[1] + kj[2]) % 2 = 0}}}
    [] fn = "sort_triangle_edges" ->
         {[fn |-> fn, tris |-> [i \in 1..Len(TriFamilies[k]) |-> Reorder(TriFamilies[k][p[i]], o[i])]] :
             <<k, p, o>> \in UNION {{k} \X {q \in Perms(Len(TriFamilies[k])) : IF Big THEN q[1] = 1 ELSE q = [i \in 1..Len(TriFamilies[k]) |-> i]}
                                      \X {o \in [1..Len(TriFamilies[k]) -> TriOrders] : Big \/ o[1] \in {<<1,2,3>>, <<1,3,2>>}} :
                                      k \in 1..Len(TriFamilies)}}
    [] OTHER -> {}

Next == inp = Start /\ \E fn \in Fns : inp' \in Inputs(fn)
Spec == Init /\ [][Next]_inp

Emit == inp = Start \/ PrintT(ToJson(inp))

\* model laws on the enumerated families
LawConvex2 == inp # Start /\ inp.fn = "point_in_polygon" /\ ConvexCcw(inp.poly) =>
                 \A p \in inp.pts : InPolygon(inp.poly, p) = AllLeft(inp.poly, p)
LawConvex3 == inp # Start /\ inp.fn = "half_space" /\ inp.den = 2 =>
                 \E k \in ConvexPolyhedra :
                    LET F == Scale3f(Polyhedra[k], 2) IN
                    /\ PlanesOf(F).n = inp.n /\ PlanesOf(F).x0 = inp.x0
                    /\ \A p \in inp.pts : ~OnSurface(F, p) => InPolyhedron(F, p) = HsIn(inp.n, inp.x0, p)
=============================================================================
