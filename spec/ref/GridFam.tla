------------------------------- MODULE GridFam -------------------------------
(***************************************************************************)
(* Input lattice for C19 / C20 / C23: all tensor-product grids with        *)
(* integer coordinates in a small box.  A grid of dimension d is given by  *)
(* d strictly increasing integer coordinate sequences (non-uniform         *)
(* spacings included) drawn from 0..MaxCoord[d], with at most MaxCells     *)
(* cells.  TLC enumerates the lattice exhaustively and emits one JSON      *)
(* record per grid; the harness instantiates each record as                *)
(* pp.TensorGrid / pp.CartGrid and (dim 2, 3) as the structured simplex    *)
(* grid on the same nodes, and derives the perturbed / re-oriented /       *)
(* moved variants from them.                                               *)
(* Law checked here: the emitted sequences are strictly increasing, and    *)
(* the number of cells and the measure of the box are what the record      *)
(* says (the measure is the reference value of "sum of cell volumes").     *)
(***************************************************************************)
EXTENDS Integers, Sequences, FiniteSets, Json, TLC

CONSTANTS MaxCoord,   \* <<m1, m2, m3>>: coordinates of a d-dimensional grid are in 0..MaxCoord[d]
          MaxCells    \* <<c1, c2, c3>>: bound on the number of cells per dimension

VARIABLES dim, axes
vars == <<dim, axes>>

RECURSIVE Sorted(_)
Sorted(S) == IF S = {} THEN <<>>
             ELSE LET m == CHOOSE m \in S : \A x \in S : m <= x IN <<m>> \o Sorted(S \ {m})
Axes(d) == {Sorted(S) : S \in {T \in SUBSET (0..MaxCoord[d]) : Cardinality(T) >= 2}}
RECURSIVE Prod(_)
Prod(s) == IF s = <<>> THEN 1 ELSE Head(s) * Prod(Tail(s))
NumCells(a) == Prod([i \in 1..Len(a) |-> Len(a[i]) - 1])
Measure(a) == Prod([i \in 1..Len(a) |-> a[i][Len(a[i])] - a[i][1]])

Init == dim \in 1..3 /\ axes = <<>>
Next == /\ Len(axes) < dim
        /\ \E x \in Axes(dim) : axes' = Append(axes, x)
        /\ NumCells(axes') <= MaxCells[dim]
        /\ dim' = dim
Spec == Init /\ [][Next]_vars

Complete == Len(axes) = dim
Emit == Complete => PrintT(ToJson([dim |-> dim, axes |-> axes, cells |-> NumCells(axes), meas |-> Measure(axes)]))
Increasing == \A i \in 1..Len(axes) : \A k \in 1..(Len(axes[i]) - 1) : axes[i][k] < axes[i][k + 1]
MeasurePositive == Complete => Measure(axes) > 0 /\ NumCells(axes) >= 1
=============================================================================
