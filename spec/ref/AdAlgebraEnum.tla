---------------------------- MODULE AdAlgebraEnum ----------------------------
(***************************************************************************)
(* C01 enumerator.  TLC lists the AD programs that harness/props/c01.py    *)
(* executes on real AdArrays, and checks the laws of AdAlgebra.tla on the  *)
(* operands it meets.                                                      *)
(*                                                                         *)
(* Mode "tree" (exhaustive when MaxLevel = 2, -simulate when MaxLevel = 3) *)
(*   level 1 programs  D1: a variable, or ONE operation on operands of     *)
(*     every kind and in both orders: AdArray op AdArray, AdArray op        *)
(*     float/int, float/int op AdArray, AdArray op ndarray, ndarray op      *)
(*     AdArray (reflected call), -AdArray, sparse @ AdArray, AdArray[rows],*)
(*     f(AdArray) for every function instance.                             *)
(*   level 2 programs: one operation whose operands are level <= 1         *)
(*     programs or constants (every program of depth <= 2 exactly once).   *)
(*   level 3 programs: op(L, R) with L, R of level <= 2 (random walks).    *)
(*   Only well-typed programs (AdAlgebra.TType: the operations Python      *)
(*   supports, matching sizes) are listed, each at every point of its      *)
(*   configuration; Emit prints the program, the point and the symbolic    *)
(*   (non-rational) entries of the required value and Jacobian, or the     *)
(*   reason why the point is not in the smooth domain of the program.      *)
(*   Several configurations (operand subsets of the catalogue x points x   *)
(*   operations) are enumerated in one run.                                *)
(* Mode "table": for every function instance and sample abscissa the table *)
(*   value at u, u +- h, u +- h/2 and the table derivative at u (the       *)
(*   harness cross-validates the calculus table by Richardson-extrapolated *)
(*   central differences, numpy only).                                     *)
(* Invariants: Emit (enumerate-and-emit) and Laws (design level: the       *)
(* closed forms of AdAlgebra against the ring axioms; a failure is a       *)
(* machinery failure, never a verdict on porepy).  The property clauses    *)
(* themselves are in spec/trace/J_AdAlgebra.tla.                           *)
(***************************************************************************)
EXTENDS AdAlgebra, Json

CONSTANTS Mode,       \* "tree" | "table"
          Cfgs,       \* tree mode: sequence of enumeration configurations
                      \*   [pts, F, A, M, S, Fn |-> sets of indices into Points, FCat, ACat, MCat, SCat, FnCat;
                      \*    bin |-> subset of BinaryOps; un |-> subset of {"neg", "matmul", "slice", "fn"};
                      \*    law |-> root operations at which the algebra laws are evaluated]
          MaxLevel,   \* 2 (exhaustive) or 3 (simulation)
          Samples     \* table mode: sequence of abscissae <<n, d>>

VARIABLES st, cf, pt, t, u
vars == <<st, cf, pt, t, u>>

None1 == <<"none", "none", 0, "none", 0>>
Cf == Cfgs[cf]
Pt == Points[pt]
AdOps == {<<"var", i>> : i \in 1..Len(Pt)}
CstOps == {<<"f", i>> : i \in Cf.F} \cup {<<"arr", i>> : i \in Cf.A}
BinPairs == {<<x, y>> : x \in AdOps, y \in AdOps \cup CstOps} \cup {<<x, y>> : x \in CstOps, y \in AdOps}
Un(o) == o \in Cf.un

D1 == {<<"leaf", v[1], v[2], "none", 0>> : v \in AdOps}
      \cup {<<op, p[1][1], p[1][2], p[2][1], p[2][2]>> : op \in Cf.bin, p \in BinPairs}
      \cup (IF Un("neg") THEN {<<"neg", v[1], v[2], "none", 0>> : v \in AdOps} ELSE {})
      \cup (IF Un("matmul") THEN {<<"matmul", "mat", m, v[1], v[2]>> : m \in Cf.M, v \in AdOps} ELSE {})
      \cup (IF Un("slice") THEN {<<"slice", v[1], v[2], "sl", s>> : s \in Cf.S, v \in AdOps} ELSE {})
      \cup (IF Un("fn") THEN {<<"fn", v[1], v[2], "fn", f>> : f \in Cf.Fn, v \in AdOps} ELSE {})
Cst1 == {<<"const", c[1], c[2], "none", 0>> : c \in CstOps}
Leafish(d) == d[1] \in {"leaf", "const"}
K1(k, i) == <<"const", k, i, "none", 0>>

\* all operations with the program x as the (first) AdArray operand; RR, CC = candidates for the other operand
Grow(x, RR, CC) ==
  {<<op, x, r>> : op \in Cf.bin, r \in RR \cup CC} \cup {<<op, c, x>> : op \in Cf.bin, c \in CC}
  \cup (IF Un("neg") THEN {<<"neg", x, None1>>} ELSE {})
  \cup (IF Un("matmul") THEN {<<"matmul", K1("mat", m), x>> : m \in Cf.M} ELSE {})
  \cup (IF Un("slice") THEN {<<"slice", x, K1("sl", s)>> : s \in Cf.S} ELSE {})
  \cup (IF Un("fn") THEN {<<"fn", x, K1("fn", f)>> : f \in Cf.Fn} ELSE {})
\* level 2 programs that are not level 1 programs written differently
Grow2(x) == {y \in Grow(x, D1, Cst1) : ~(Leafish(y[2]) /\ (y[3] = None1 \/ Leafish(y[3])))}
Lift(d) == <<"id", d, None1>>
None2 == Lift(None1)
WT(x) == WellTyped(x, Pt)

(* ---- mode "tree" ---- *)
\* st 0 -> 1: a level 1 program;  1 -> 2: grown to level 2.  Only for MaxLevel = 3:  2 -> 3: second subtree, level 1
\* (or a constant); 3 -> 4: grown to level <= 2; 4 -> 5: the level 3 program.
Final == IF MaxLevel = 2 THEN 2 ELSE 5
TreeInit == st = 0 /\ cf \in 1..Len(Cfgs) /\ pt \in Cfgs[cf].pts /\ t = None1 /\ u = None1
Same == cf' = cf /\ pt' = pt
Pick1 == st = 0 /\ st' = 1 /\ t' \in {d \in D1 : WT(d)} /\ u' = u /\ Same
Grow1 == /\ st = 1 /\ st' = 2 /\ u' = u /\ Same
         /\ IF MaxLevel = 2 THEN t' \in {y \in Grow2(t) : WT(y)}
            ELSE t' \in {y \in Grow2(t) \cup {Lift(t)} : WT(y)}
Pick2 == st = 2 /\ MaxLevel = 3 /\ st' = 3 /\ t' = t /\ Same /\ u' \in {d \in D1 : WT(d)} \cup Cst1
Grow3 == /\ st = 3 /\ st' = 4 /\ t' = t /\ Same
         /\ u' \in IF Leafish(u) /\ u[1] = "const" THEN {Lift(u)}
                   ELSE {y \in Grow2(u) \cup {Lift(u)} : WT(y)}
IsCst2(x) == x[1] = "id" /\ x[2][1] = "const"
Un3(x) == (IF Un("neg") THEN {<<"neg", x, None2>>} ELSE {})
  \cup (IF Un("matmul") THEN {<<"matmul", Lift(K1("mat", m)), x>> : m \in Cf.M} ELSE {})
  \cup (IF Un("slice") THEN {<<"slice", x, Lift(K1("sl", s))>> : s \in Cf.S} ELSE {})
  \cup (IF Un("fn") THEN {<<"fn", x, Lift(K1("fn", f))>> : f \in Cf.Fn} ELSE {})
Join  == /\ st = 4 /\ st' = 5 /\ Same /\ u' = u
         /\ t' \in {y \in {<<op, t, u>> : op \in Cf.bin}
                           \cup (IF IsCst2(u) THEN {<<op, u, t>> : op \in Cf.bin} ELSE {}) \cup Un3(t) : WT(y)}
TreeNext == Pick1 \/ Grow1 \/ Pick2 \/ Grow3 \/ Join

(* ---- mode "table" ---- *)
\* pt = index of the function instance, t = <<sample index>>
TabInit == st = 0 /\ cf = 0 /\ pt \in 1..Len(FnCat) /\ t = None1 /\ u = None1
TabNext == st = 0 /\ st' = 1 /\ Same /\ u' = u /\ t' \in {<<i>> : i \in 1..Len(Samples)}
Hh == <<1, 64>>
TabRec ==
  LET f == FnCat[pt]
      x == Samples[t[1]]
      at(r) == FnEval(f.name, f.p, Q(r))
      xs == <<x, RSub(x, Hh), RAdd(x, Hh), RSub(x, RDiv(Hh, R(2))), RAdd(x, RDiv(Hh, R(2)))>>
  IN IF \E i \in 1..5 : at(xs[i]).bad # "" THEN [fn |-> pt, x |-> x, skip |-> TRUE]
     ELSE [fn |-> pt, x |-> x, skip |-> FALSE, h |-> Hh, der |-> at(x).der, vals |-> [i \in 1..5 |-> at(xs[i]).val]]

Init == IF Mode = "tree" THEN TreeInit ELSE TabInit
Next == IF Mode = "tree" THEN TreeNext ELSE TabNext
Spec == Init /\ [][Next]_vars

\* programs are emitted at st = 1 (level 1) and at the final stage: the program, the point, and the required entries
\* that are terms (the harness evaluates them with numpy), or the reason why the point is outside the smooth domain
Emitting == Mode = "tree" /\ (st = Final \/ (st = 1 /\ MaxLevel = 2))
EmitRec == LET E == Eval(t, Pt)
           IN IF E.k = "ad" THEN [t |-> t, pt |-> pt, cf |-> cf, sym |-> SymEntries(E.v, NNP(Pt))]
              ELSE [skip |-> IF E.k = "bad" THEN E.why ELSE "type", cf |-> cf]
Emit == /\ Emitting => PrintT(ToJson(EmitRec))
        /\ (Mode = "table" /\ st = 1) => PrintT(ToJson(TabRec))

\* design-level laws (allow_violation = False in the driver) on the operands a, b of the root operation of the level 2
\* programs  a op b  with b a variable or a constant: a ranges over the values of ALL level <= 1 programs
Laws == (Emitting /\ st = Final /\ MaxLevel = 2 /\ t[1] \in Cf.law /\ Leafish(t[3])) =>
          LET A == Eval(t[2], Pt)
              B == Eval(t[3], Pt)
              nn == NNP(Pt)
          IN (A.k # "bad" /\ B.k # "bad" /\ BinOK(A, B)) =>
               LET n == Max2(SizeV(A), SizeV(B))
                   a == AsDuals(A, n)
                   b == AsDuals(B, n)
               IN /\ \A i \in 1..n : LawsOf(a[i], b[i], nn)
                  /\ \A m \in Cf.M : LawLinearOf(MCat[m].m, a, b, nn)
=============================================================================
