---------------------------- MODULE AdAlgebraEnum ----------------------------
(***************************************************************************)
(* C01 enumerator.  TLC lists the AD programs that harness/props/c01.py    *)
(* executes on real AdArrays, and checks the laws of AdAlgebra.tla on the  *)
(* operands it meets.                                                      *)
(*                                                                         *)
(* Mode "tree" (exhaustive when MaxLevel = 2, -simulate when MaxLevel = 3) *)
(*   level 1 programs  D1: a variable, or ONE operation on operands of     *)
(*     every kind and in both orders: AdArray op AdArray, AdArray op        *)
(*     float/int, float/int op AdArray, AdArray op ndarray, ndarray op      *)
(*     AdArray (reflected call), -AdArray, sparse @ AdArray, AdArray[rows],*)
(*     f(AdArray) for every function instance.                             *)
(*   level 2 programs: one operation whose operands are level <= 1         *)
(*     programs or constants (every program of depth <= 2 exactly once).   *)
(*   level 3 programs: op(L, R) with L, R of level <= 2 (random walks).    *)
(*   Every program is evaluated at every point of Points; Emit prints the  *)
(*   program, the point and the symbolic (non-rational) entries of the     *)
(*   required value and Jacobian, or the reason why the program is not in  *)
(*   the family at that point.                                             *)
(* Mode "table": for every function instance and sample abscissa the table *)
(*   value at u, u +- h, u +- h/2 and the table derivative at u (the       *)
(*   harness cross-validates the calculus table by Richardson-extrapolated *)
(*   central differences, numpy only).                                     *)
(***************************************************************************)
EXTENDS AdAlgebra, Json

CONSTANTS Mode,       \* "tree" | "table"
          BinOps,     \* subset of BinaryOps used by the enumeration
          UnOps,      \* subset of {"neg", "matmul", "slice", "fn"}
          MaxLevel,   \* 2 (exhaustive) or 3 (simulation)
          LawOps,     \* root operations at which the algebra laws are evaluated (subset of BinOps)
          Samples     \* table mode: sequence of abscissae <<n, d>>

VARIABLES st, pt, t, u
vars == <<st, pt, t, u>>

None1 == <<"none", "none", 0, "none", 0>>
AdOps == {<<"var", i>> : i \in 1..NV}
CstOps == {<<"f", i>> : i \in 1..Len(FCat)} \cup {<<"arr", i>> : i \in 1..Len(ACat)}
BinPairs == {<<x, y>> : x \in AdOps, y \in AdOps \cup CstOps} \cup {<<x, y>> : x \in CstOps, y \in AdOps}

D1 == {<<"leaf", v[1], v[2], "none", 0>> : v \in AdOps}
      \cup {<<op, p[1][1], p[1][2], p[2][1], p[2][2]>> : op \in BinOps, p \in BinPairs}
      \cup (IF "neg" \in UnOps THEN {<<"neg", v[1], v[2], "none", 0>> : v \in AdOps} ELSE {})
      \cup (IF "matmul" \in UnOps THEN {<<"matmul", "mat", m, v[1], v[2]>> : m \in 1..Len(MCat), v \in AdOps} ELSE {})
      \cup (IF "slice" \in UnOps THEN {<<"slice", v[1], v[2], "sl", s>> : s \in 1..Len(SCat), v \in AdOps} ELSE {})
      \cup (IF "fn" \in UnOps THEN {<<"fn", v[1], v[2], "fn", f>> : f \in 1..Len(FnCat), v \in AdOps} ELSE {})
Cst1 == {<<"const", c[1], c[2], "none", 0>> : c \in CstOps}
Leafish(d) == d[1] \in {"leaf", "const"}

\* all operations with the level-n program x as the (first) AdArray operand; R = candidates for the other operand
Grow(x, R, C) ==
  {<<op, x, r>> : op \in BinOps, r \in R \cup C} \cup {<<op, c, x>> : op \in BinOps, c \in C}
  \cup (IF "neg" \in UnOps THEN {<<"neg", x, None1>>} ELSE {})
  \cup (IF "matmul" \in UnOps THEN {<<"matmul", <<"const", "mat", m, "none", 0>>, x>> : m \in 1..Len(MCat)} ELSE {})
  \cup (IF "slice" \in UnOps THEN {<<"slice", x, <<"const", "sl", s, "none", 0>>>> : s \in 1..Len(SCat)} ELSE {})
  \cup (IF "fn" \in UnOps THEN {<<"fn", x, <<"const", "fn", f, "none", 0>>>> : f \in 1..Len(FnCat)} ELSE {})
\* level 2 programs that are not level 1 programs written differently
Grow2(x) == {y \in Grow(x, D1, Cst1) : ~(Leafish(y[2]) /\ (y[3] = None1 \/ Leafish(y[3])))}
Lift(d) == <<"id", d, None1>>
None2 == Lift(None1)
IsAd(x) == Eval(x, Points[pt]).k = "ad"

(* ---- mode "tree" ---- *)
\* st 0 -> 1: a level 1 program;  1 -> 2: grown to level 2.  Only for MaxLevel = 3:  2 -> 3: second subtree, level 1
\* (or a constant); 3 -> 4: grown to level <= 2; 4 -> 5: the level 3 program.
Final == IF MaxLevel = 2 THEN 2 ELSE 5
TreeInit == st = 0 /\ pt \in 1..Len(Points) /\ t = None1 /\ u = None1
Pick1 == st = 0 /\ st' = 1 /\ t' \in D1 /\ u' = u /\ pt' = pt /\ Eval(t', Points[pt]).k = "ad"
Grow1 == /\ st = 1 /\ st' = 2 /\ u' = u /\ pt' = pt
         /\ IF MaxLevel = 2 THEN t' \in Grow2(t)
            ELSE t' \in {y \in Grow2(t) \cup {Lift(t)} : Eval(y, Points[pt]).k = "ad"}
Pick2 == st = 2 /\ MaxLevel = 3 /\ st' = 3 /\ t' = t /\ pt' = pt /\ u' \in {d \in D1 : IsAd(d)} \cup Cst1
Grow3 == /\ st = 3 /\ st' = 4 /\ t' = t /\ pt' = pt
         /\ u' \in IF Leafish(u) /\ u[1] = "const" THEN {Lift(u)}
                   ELSE {y \in Grow2(u) \cup {Lift(u)} : Eval(y, Points[pt]).k = "ad"}
IsCst2(x) == x[1] = "id" /\ x[2][1] = "const"
Un3(x) == (IF "neg" \in UnOps THEN {<<"neg", x, None2>>} ELSE {})
  \cup (IF "matmul" \in UnOps THEN {<<"matmul", Lift(<<"const", "mat", m, "none", 0>>), x>> : m \in 1..Len(MCat)} ELSE {})
  \cup (IF "slice" \in UnOps THEN {<<"slice", x, Lift(<<"const", "sl", s, "none", 0>>)>> : s \in 1..Len(SCat)} ELSE {})
  \cup (IF "fn" \in UnOps THEN {<<"fn", x, Lift(<<"const", "fn", f, "none", 0>>)>> : f \in 1..Len(FnCat)} ELSE {})
Join  == /\ st = 4 /\ st' = 5 /\ pt' = pt /\ u' = u
         /\ t' \in {<<op, t, u>> : op \in BinOps}
                   \cup (IF IsCst2(u) THEN {<<op, u, t>> : op \in BinOps} ELSE {}) \cup Un3(t)
TreeNext == Pick1 \/ Grow1 \/ Pick2 \/ Grow3 \/ Join

(* ---- mode "table" ---- *)
\* pt = index of the function instance, t = <<sample index>>
TabInit == st = 0 /\ pt \in 1..Len(FnCat) /\ t = None1 /\ u = None1
TabNext == st = 0 /\ st' = 1 /\ pt' = pt /\ u' = u /\ t' \in {<<i>> : i \in 1..Len(Samples)}
Hh == <<1, 64>>
TabRec ==
  LET f == FnCat[pt]
      x == Samples[t[1]]
      at(r) == FnEval(f.name, f.p, Q(r))
      xs == <<x, RSub(x, Hh), RAdd(x, Hh), RSub(x, RDiv(Hh, R(2))), RAdd(x, RDiv(Hh, R(2)))>>
  IN IF \E i \in 1..5 : at(xs[i]).bad # "" THEN [fn |-> pt, x |-> x, skip |-> TRUE]
     ELSE [fn |-> pt, x |-> x, skip |-> FALSE, h |-> Hh, der |-> at(x).der, vals |-> [i \in 1..5 |-> at(xs[i]).val]]

Init == IF Mode = "tree" THEN TreeInit ELSE TabInit
Next == IF Mode = "tree" THEN TreeNext ELSE TabNext
Spec == Init /\ [][Next]_vars

\* programs are emitted at st = 1 (level 1) and at the final stage
Emitting == Mode = "tree" /\ (st = Final \/ (st = 1 /\ MaxLevel = 2))
EmitRec == LET E == Eval(t, Points[pt])
           IN IF E.k = "ad" THEN [t |-> t, pt |-> pt, n |-> Len(E.v), sym |-> SymEntries(E.v)]
              ELSE [skip |-> IF E.k = "bad" THEN E.why ELSE "type"]
Emit == /\ Emitting => PrintT(ToJson(EmitRec))
        /\ (Mode = "table" /\ st = 1) => PrintT(ToJson(TabRec))

\* design-level laws on the operands of the root operation (allow_violation = False in the driver)
Laws == (Emitting /\ st = Final /\ t[1] \in LawOps) =>
          LET A == Eval(t[2], Points[pt])
              B == Eval(t[3], Points[pt])
          IN (BinOK(A, B) /\ A.k # "bad" /\ B.k # "bad") =>
               LET n == Max2(SizeV(A), SizeV(B))
                   a == AsDuals(A, n)
                   b == AsDuals(B, n)
               IN /\ \A i \in 1..n : LawsOf(a[i], b[i])
                  /\ \A m \in 1..Len(MCat) : LawLinearOf(MCat[m].m, a, b)
=============================================================================
