------------------------------ MODULE CoordDict ------------------------------
(***************************************************************************)
(* Reference semantics of property C46: a plain dictionary keyed by        *)
(* integer coordinate tuples.  `d` is a TLA+ function whose domain is the  *)
(* set of inserted coordinates.  A batch (sequence of coordinates, with    *)
(* duplicates allowed) is inserted element by element in the order given:  *)
(*   overwrite:  d[c] = v                                                  *)
(*   additive:   d[c] = d.get(c, 0) + v                                    *)
(* A read of a batch returns the values in the order asked for, or raises  *)
(* when one of the coordinates was never inserted.                         *)
(* Used by spec/sys/SparseNd.tla (Ref layer) and by the monitor            *)
(* spec/trace/M_SparseNd.tla (ghost dictionary fed with the recorded call  *)
(* arguments of the real object).                                          *)
(***************************************************************************)
EXTENDS Integers, Sequences, FiniteSets

EmptyDict == [x \in {} |-> 0]

DictPut(d, c, v, additive) ==
  LET nv == IF additive /\ c \in DOMAIN d THEN d[c] + v ELSE v
  IN [x \in (DOMAIN d) \cup {c} |-> IF x = c THEN nv ELSE d[x]]

RECURSIVE DictAdd(_, _, _, _)
DictAdd(d, batch, bv, additive) ==
  IF batch = <<>> THEN d
  ELSE DictAdd(DictPut(d, Head(batch), Head(bv), additive), Tail(batch), Tail(bv), additive)

DictHasAll(d, batch) == \A j \in 1..Len(batch) : batch[j] \in DOMAIN d
\* what a read must deliver: [res, out]
DictGet(d, batch) ==
  IF DictHasAll(d, batch) THEN [res |-> "ok", out |-> [j \in 1..Len(batch) |-> d[batch[j]]]]
  ELSE [res |-> "error", out |-> <<>>]
=============================================================================
