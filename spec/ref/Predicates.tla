----------------------------- MODULE Predicates -----------------------------
(***************************************************************************)
(* C31  Geometric predicates and point orderings agree with exact oracles. *)
(*                                                                         *)
(* Part 1 - exact reference predicates over integer (lattice) coordinates:*)
(*   Area2 / IsCcwPolygon      shoelace sign            is_ccw_polygon     *)
(*   Cross2 / Left             orientation of a triple  is_ccw_polyline    *)
(*   OnBoundary2 / InPolygon   crossing number          point_in_polygon,  *)
(*   SimplePoly (family guard)                          point_in_cell      *)
(*   OnSurface / InPolyhedron  segment-to-far-point parity with signed     *)
(*                             volumes over the fan triangulation of the   *)
(*                             faces                    point_in_polyhedron*)
(*   HsIn / HsOut              strict half spaces  point_inside_half_space_*)
(*                                                      intersection       *)
(*   Planar / PlanarN          4-point determinants     points_are_planar  *)
(*   Collinear                 cross products           points_are_collinear*)
(* Points are tuples of integers; half-lattice points are handled by the   *)
(* harness doubling all coordinates (field den of an emitted record).      *)
(*                                                                         *)
(* Part 2 - validity predicates for the (non-unique) results of the point  *)
(* sorting helpers: ValidPairSort (sort_point_pairs), ValidMultiPairSort   *)
(* (sort_multiple_point_pairs), ValidLineSort (sort_points_on_line),       *)
(* ValidPlaneSort (sort_point_plane), ValidTriSort (sort_triangle_edges).  *)
(*                                                                         *)
(* The input families (TLC-enumerated) are in PredicateFamilies.tla, the    *)
(* property clauses in trace/J_Predicates.tla.  This module is pure        *)
(* (no variables, no constants).                                           *)
(***************************************************************************)
EXTENDS Integers, Sequences, FiniteSets, TLC

----------------------------------------------------------------------------
\* generic helpers
AbsI(x) == IF x < 0 THEN -x ELSE x
SgnI(x) == IF x > 0 THEN 1 ELSE IF x < 0 THEN -1 ELSE 0
NextI(i, n) == IF i = n THEN 1 ELSE i + 1
Range(s) == {s[i] : i \in 1..Len(s)}
IsPerm(s, n) == Len(s) = n /\ Range(s) = 1..n
Rev(s) == [i \in 1..Len(s) |-> s[Len(s) + 1 - i]]

----------------------------------------------------------------------------
\* 2D
Cross2(o, a, b) == (a[1] - o[1]) * (b[2] - o[2]) - (a[2] - o[2]) * (b[1] - o[1])
Left(p1, p2, p3) == Cross2(p1, p2, p3) > 0           \* p3 strictly left of p1 -> p2
OnLine2(p1, p2, p3) == Cross2(p1, p2, p3) = 0

RECURSIVE Shoelace(_, _)
Shoelace(poly, i) == IF i > Len(poly) THEN 0
                     ELSE LET a == poly[i]  b == poly[NextI(i, Len(poly))]
                          IN (a[1] * b[2] - b[1] * a[2]) + Shoelace(poly, i + 1)
Area2(poly) == Shoelace(poly, 1)                     \* twice the signed area
IsCcwPolygon(poly) == Area2(poly) > 0

Between(x, a, b) == (x - a) * (x - b) <= 0
OnSeg2(p, a, b) == Cross2(a, b, p) = 0 /\ Between(p[1], a[1], b[1]) /\ Between(p[2], a[2], b[2])
Edges(poly) == 1..Len(poly)
EdgeA(poly, i) == poly[i]
EdgeB(poly, i) == poly[NextI(i, Len(poly))]
OnBoundary2(poly, p) == \E i \in Edges(poly) : OnSeg2(p, EdgeA(poly, i), EdgeB(poly, i))
\* does the edge a -> b cross the open horizontal ray from p towards +x ?
CrossesRay(p, a, b) == /\ (a[2] > p[2]) # (b[2] > p[2])
                       /\ IF b[2] > a[2] THEN Cross2(a, b, p) > 0 ELSE Cross2(a, b, p) < 0
InPolygon(poly, p) ==
  Cardinality({i \in Edges(poly) : CrossesRay(p, EdgeA(poly, i), EdgeB(poly, i))}) % 2 = 1
\* the class of points behind fix 75ebf06b9: on the supporting line of an edge but not on the boundary
OnSupportLine2(poly, p) == \E i \in Edges(poly) : OnLine2(EdgeA(poly, i), EdgeB(poly, i), p)
ConvexCcw(poly) == \A i \in Edges(poly) : \A k \in Edges(poly) :
                      Cross2(EdgeA(poly, i), EdgeB(poly, i), poly[k]) >= 0
AllLeft(poly, p) == \A i \in Edges(poly) : Cross2(EdgeA(poly, i), EdgeB(poly, i), p) > 0

\* simple polygon: non-adjacent edges are disjoint, adjacent edges share only their common vertex
SegsMeet(a, b, c, d) ==
  \/ SgnI(Cross2(a, b, c)) * SgnI(Cross2(a, b, d)) < 0 /\ SgnI(Cross2(c, d, a)) * SgnI(Cross2(c, d, b)) < 0
  \/ OnSeg2(c, a, b) \/ OnSeg2(d, a, b) \/ OnSeg2(a, c, d) \/ OnSeg2(b, c, d)
SimplePoly(poly) ==
  /\ Len(poly) >= 3
  /\ \A i \in Edges(poly) : EdgeA(poly, i) # EdgeB(poly, i)
  /\ \A i \in Edges(poly) : \A j \in Edges(poly) :
       i < j => IF NextI(i, Len(poly)) = j
                  THEN ~OnSeg2(EdgeB(poly, j), EdgeA(poly, i), EdgeB(poly, i)) /\ ~OnSeg2(EdgeA(poly, i), EdgeA(poly, j), EdgeB(poly, j))
                ELSE IF NextI(j, Len(poly)) = i
                  THEN ~OnSeg2(EdgeA(poly, j), EdgeA(poly, i), EdgeB(poly, i)) /\ ~OnSeg2(EdgeB(poly, i), EdgeA(poly, j), EdgeB(poly, j))
                ELSE ~SegsMeet(EdgeA(poly, i), EdgeB(poly, i), EdgeA(poly, j), EdgeB(poly, j))

----------------------------------------------------------------------------
\* 3D
Sub3(a, b) == <<a[1] - b[1], a[2] - b[2], a[3] - b[3]>>
Dot3(a, b) == a[1] * b[1] + a[2] * b[2] + a[3] * b[3]
Cross3(a, b) == <<a[2] * b[3] - a[3] * b[2], a[3] * b[1] - a[1] * b[3], a[1] * b[2] - a[2] * b[1]>>
Det3(u, v, w) == Dot3(u, Cross3(v, w))
Vol(p, a, b, c) == Det3(Sub3(a, p), Sub3(b, p), Sub3(c, p))      \* 6 x signed volume of (p,a,b,c)
Zero3(v) == v[1] = 0 /\ v[2] = 0 /\ v[3] = 0

\* fan triangulation of the (convex) faces: <<face index, k>> is the triangle face[1], face[k], face[k+1]
TriIds(faces) == {<<f, k>> \in (1..Len(faces)) \X (2..8) : k < Len(faces[f])}
TA(faces, t) == faces[t[1]][1]
TB(faces, t) == faces[t[1]][t[2]]
TC(faces, t) == faces[t[1]][t[2] + 1]
OnTri(p, a, b, c) ==
  LET n == Cross3(Sub3(b, a), Sub3(c, a))
      s(u, v) == Dot3(n, Cross3(Sub3(u, p), Sub3(v, p)))
  IN Vol(p, a, b, c) = 0 /\ s(a, b) >= 0 /\ s(b, c) >= 0 /\ s(c, a) >= 0
OnSurface(faces, p) == \E t \in TriIds(faces) : OnTri(p, TA(faces, t), TB(faces, t), TC(faces, t))
\* p lies in the supporting plane of some face (the class behind the point_in_polyhedron finding)
OnSupportPlane(faces, p) == \E t \in TriIds(faces) : Vol(p, TA(faces, t), TB(faces, t), TC(faces, t)) = 0

\* segment p -> q against triangle (a,b,c): proper crossing / degenerate position
EdgeVol(p, q, a, b) == Det3(Sub3(q, p), Sub3(a, p), Sub3(b, p))
Straddles(p, q, a, b, c) == SgnI(Vol(p, a, b, c)) * SgnI(Vol(q, a, b, c)) < 0
ProperCross(p, q, a, b, c) ==
  /\ Straddles(p, q, a, b, c)
  /\ LET e1 == SgnI(EdgeVol(p, q, a, b))  e2 == SgnI(EdgeVol(p, q, b, c))  e3 == SgnI(EdgeVol(p, q, c, a))
     IN e1 # 0 /\ e1 = e2 /\ e2 = e3
GenericFor(p, q, a, b, c) ==
  /\ Vol(q, a, b, c) # 0
  /\ Straddles(p, q, a, b, c) =>
        /\ EdgeVol(p, q, a, b) # 0 /\ EdgeVol(p, q, b, c) # 0 /\ EdgeVol(p, q, c, a) # 0
FarPoints == <<  <<101, 57, 23>>, <<-89, 61, 37>>, <<53, -97, 41>>, <<67, 43, -103>>, <<-71, -59, 109>> >>
Generic(faces, p, q) == \A t \in TriIds(faces) : GenericFor(p, q, TA(faces, t), TB(faces, t), TC(faces, t))
\* p not on the surface.  A far point in generic position exists for every lattice point of the families
\* below (TLC stops with an error otherwise: machinery failure, never a verdict).
InPolyhedron(faces, p) ==
  LET k == CHOOSE k \in 1..Len(FarPoints) : Generic(faces, p, FarPoints[k])
      q == FarPoints[k]
  IN Cardinality({t \in TriIds(faces) : ProperCross(p, q, TA(faces, t), TB(faces, t), TC(faces, t))}) % 2 = 1

\* half spaces  (x - x0[i]) . n[i] < 0
HsVal(n, x0, i, p) == Dot3(Sub3(p, x0[i]), n[i])
HsIn(n, x0, p)  == \A i \in 1..Len(n) : HsVal(n, x0, i, p) < 0
HsOut(n, x0, p) == \E i \in 1..Len(n) : HsVal(n, x0, i, p) > 0
HsBand(n, x0, p) == ~HsIn(n, x0, p) /\ ~HsOut(n, x0, p)       \* on the boundary of the intersection

Collinear(pts) == \A i \in 1..Len(pts) : \A j \in 1..Len(pts) : \A k \in 1..Len(pts) :
                     Zero3(Cross3(Sub3(pts[j], pts[i]), Sub3(pts[k], pts[i])))
Planar(pts) == \A i \in 1..Len(pts) : \A j \in 1..Len(pts) : \A k \in 1..Len(pts) : \A l \in 1..Len(pts) :
                  Det3(Sub3(pts[j], pts[i]), Sub3(pts[k], pts[i]), Sub3(pts[l], pts[i])) = 0
PlanarN(pts, nrm) == \A i \in 1..Len(pts) : Dot3(nrm, Sub3(pts[i], pts[1])) = 0
Distinct(pts) == \A i \in 1..Len(pts) : \A j \in 1..Len(pts) : i # j => pts[i] # pts[j]

----------------------------------------------------------------------------
\* Part 2: validity of orderings
\* sort_point_pairs: lines = sequence of columns <<a, b, tag>>, out = sorted columns, ind = 0-based indices
SameUpToFlip(c, d) == (c = d) \/ (c[1] = d[2] /\ c[2] = d[1] /\ c[3] = d[3])
Chain(cols) == \A i \in 1..(Len(cols) - 1) : cols[i][2] = cols[i + 1][1]
ValidPairSort(lines, circular, cols, ind) ==
  /\ Len(cols) = Len(lines) /\ Len(ind) = Len(lines)
  /\ Range(ind) = 0..(Len(lines) - 1)
  /\ \A i \in 1..Len(cols) : SameUpToFlip(cols[i], lines[ind[i] + 1])
  /\ Chain(cols)
  /\ circular => cols[Len(cols)][2] = cols[1][1]
\* sort_multiple_point_pairs: chains = sequence of chains (each a sequence of columns <<a, b>>); circular
SameUpToFlip2(c, d) == (c = d) \/ (c[1] = d[2] /\ c[2] = d[1])
ValidChainSort(inc, outc) ==
  /\ Len(outc) = Len(inc)
  /\ \E f \in [1..Len(inc) -> 1..Len(inc)] :
        /\ Range(f) = 1..Len(inc)
        /\ \A i \in 1..Len(inc) : SameUpToFlip2(outc[i], inc[f[i]])
  /\ Chain(outc) /\ outc[Len(outc)][2] = outc[1][1]
ValidMultiPairSort(chains, outs) ==
  Len(outs) = Len(chains) /\ \A c \in 1..Len(chains) : ValidChainSort(chains[c], outs[c])

\* sort_points_on_line: idx 0-based; points (collinear) must come in monotone order along the line
ValidLineSort(pts, idx) ==
  /\ Len(idx) = Len(pts) /\ Range(idx) = 0..(Len(pts) - 1)
  /\ LET q(i) == pts[idx[i] + 1]
         dir == Sub3(q(Len(pts)), q(1))
     IN \A i \in 1..(Len(pts) - 1) : Dot3(Sub3(q(i + 1), q(i)), dir) > 0

\* sort_point_plane: idx 0-based; around the centre c in the plane with normal nrm the points must come in
\* angular order (either sense of rotation, any starting point).  Angles are compared exactly: with reference
\* direction u, Half(v) = 0 for angles in [0, pi), 1 for [pi, 2 pi);  v before w iff lower half or same half
\* and nrm . (v x w) > 0.
PCross(nrm, v, w) == Dot3(nrm, Cross3(v, w))
Half(nrm, u, v) == IF PCross(nrm, u, v) > 0 \/ (PCross(nrm, u, v) = 0 /\ Dot3(u, v) > 0) THEN 0 ELSE 1
AngBefore(nrm, u, v, w) == \/ Half(nrm, u, v) < Half(nrm, u, w)
                           \/ Half(nrm, u, v) = Half(nrm, u, w) /\ PCross(nrm, v, w) > 0
AngSorted(nrm, vs) == \A i \in 1..(Len(vs) - 1) : AngBefore(nrm, vs[1], vs[i], vs[i + 1])
Neg3(v) == <<-v[1], -v[2], -v[3]>>
\* the rays from c through the points are pairwise different (no ties in the angular order)
DistinctRays(nrm, c, pts) ==
  \A i \in 1..Len(pts) : \A j \in 1..Len(pts) :
     i # j => ~(PCross(nrm, Sub3(pts[i], c), Sub3(pts[j], c)) = 0 /\ Dot3(Sub3(pts[i], c), Sub3(pts[j], c)) > 0)
ValidPlaneSort(pts, c, nrm, idx) ==
  /\ Len(idx) = Len(pts) /\ Range(idx) = 0..(Len(pts) - 1)
  /\ LET vs == [i \in 1..Len(pts) |-> Sub3(pts[idx[i] + 1], c)]
     IN AngSorted(nrm, vs) \/ AngSorted(Neg3(nrm), vs)

\* sort_triangle_edges: tin / tout = sequences of triangles <<a, b, c>> (columns of t)
DirEdges(t) == {<<t[1], t[2]>>, <<t[2], t[3]>>, <<t[3], t[1]>>}
ValidTriSort(tin, tout) ==
  /\ Len(tout) = Len(tin)
  /\ \A i \in 1..Len(tin) : Len(tout[i]) = 3 /\ Range(tout[i]) = Range(tin[i])
  /\ \A i \in 1..Len(tin) : \A j \in 1..Len(tin) : i # j => DirEdges(tout[i]) \cap DirEdges(tout[j]) = {}
\* the input family: every undirected edge in at most two triangles, edge-connected
UEdges(t) == {{t[1], t[2]}, {t[2], t[3]}, {t[3], t[1]}}
EdgeManifold(tin) == \A e \in UNION {UEdges(tin[i]) : i \in 1..Len(tin)} :
                        Cardinality({i \in 1..Len(tin) : e \in UEdges(tin[i])}) <= 2

=============================================================================
