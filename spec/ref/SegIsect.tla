------------------------------ MODULE SegIsect ------------------------------
(***************************************************************************)
(* C28  Segment intersection agrees with exact arithmetic.                 *)
(*                                                                         *)
(* Reference semantics of pp.intersections.segments_2d / segments_3d for   *)
(* two non-degenerate segments [a,b], [c,d] with INTEGER end points        *)
(* (sequences of length 2 or 3):  Isect2 / Isect3 return                   *)
(*     [kind |-> "none",    pts |-> << >>]                                 *)
(*     [kind |-> "point",   pts |-> <<p>>]                                 *)
(*     [kind |-> "segment", pts |-> <<p, q>>]   (p # q)                    *)
(* with p, q vectors of exact rationals (Rat.tla pairs <<n, d>>).          *)
(*   not parallel : solve a + t u = c + s v by cross products; the lines   *)
(*                  meet iff they are coplanar, the segments iff           *)
(*                  0 <= t, s <= 1;                                        *)
(*   parallel     : empty unless collinear; then the overlap of the        *)
(*                  parameter intervals along [a,b].                       *)
(*                                                                         *)
(* Integer-only classification Touch (used by SegSplit on scaled points,   *)
(* where rational points would overflow 32 bit):                           *)
(*   "none" | "endpoints" (one common point, an end point of both) |       *)
(*   "interior" (one common point, interior to at least one) | "overlap".  *)
(*                                                                         *)
(* Model laws (checked by TLC on every enumerated pair; they are NOT       *)
(* property clauses, they validate the reference):                         *)
(*   LawKind      kind and number of points agree, segment points differ   *)
(*   LawOnBoth    every returned point lies on both segments (OnSeg is     *)
(*                defined independently of the solver)                     *)
(*   LawSym       same result for swapped segments / reversed end points   *)
(*   LawOrient2   2D: "some intersection" <=> classical orientation test   *)
(*   LawLift      2D result = 3D result of the segments lifted to z = 1    *)
(*   LawPerm3     3D result commutes with a cyclic coordinate permutation  *)
(*   LawTouch     Touch agrees with the rational classification            *)
(*                                                                         *)
(* The property clauses themselves are in spec/trace/J_SegIsect.tla.       *)
(*                                                                         *)
(* The enumerator (state machine that lets TLC list the input box and      *)
(* check the laws) is SegIsectEnum.tla: a judge module cannot EXTEND a     *)
(* module that declares variables of its own.                              *)
(***************************************************************************)
EXTENDS Integers, Sequences, FiniteSets, Rat, Json, TLC

(* ----- integer vectors ---------------------------------------------------------------------- *)
VSub(p, q) == [i \in 1..Len(p) |-> p[i] - q[i]]
VDot(u, v) == IF Len(u) = 2 THEN u[1] * v[1] + u[2] * v[2]
                            ELSE u[1] * v[1] + u[2] * v[2] + u[3] * v[3]
Cross2(u, v) == u[1] * v[2] - u[2] * v[1]
Cross3(u, v) == <<u[2] * v[3] - u[3] * v[2], u[3] * v[1] - u[1] * v[3], u[1] * v[2] - u[2] * v[1]>>
IsZero(u) == \A i \in 1..Len(u) : u[i] = 0
\* u, v parallel (dimension 2 or 3)
Par(u, v) == IF Len(u) = 2 THEN Cross2(u, v) = 0 ELSE IsZero(Cross3(u, v))

(* ----- results ------------------------------------------------------------------------------- *)
NoneR == [kind |-> "none", pts |-> <<>>]
PointR(p) == [kind |-> "point", pts |-> <<p>>]
SegR(p, q) == [kind |-> "segment", pts |-> <<p, q>>]
\* the point a + t u, t a rational
At(a, u, t) == [i \in 1..Len(a) |-> RAdd(R(a[i]), RMul(t, R(u[i])))]
RPt(p) == [i \in 1..Len(p) |-> R(p[i])]
SamePt(p, q) == RVecEq(p, q)
\* equality of two sequences of rational points AS SETS
SamePts(P, Q) == /\ \A i \in 1..Len(P) : \E j \in 1..Len(Q) : SamePt(P[i], Q[j])
                 /\ \A j \in 1..Len(Q) : \E i \in 1..Len(P) : SamePt(P[i], Q[j])
NDistinct(P) == Cardinality({[i \in 1..Len(p) |-> RNorm(p[i][1], p[i][2])] : p \in {P[k] : k \in 1..Len(P)}})
KindOfCount(n) == CASE n = 0 -> "none" [] n = 1 -> "point" [] n = 2 -> "segment" [] OTHER -> "invalid"

(* ----- collinear segments: overlap of parameter intervals along [a,b] ------------------------ *)
Overlap(a, b, c, d) ==
  LET u  == VSub(b, a)
      uu == VDot(u, u)
      tc == VDot(VSub(c, a), u)          \* parameter of c is tc / uu
      td == VDot(VSub(d, a), u)
      lo == Max2(0, Min2(tc, td))
      hi == Min2(uu, Max2(tc, td))
  IN IF lo > hi THEN NoneR
     ELSE IF lo = hi THEN PointR(At(a, u, RNorm(lo, uu)))
     ELSE SegR(At(a, u, RNorm(lo, uu)), At(a, u, RNorm(hi, uu)))

InUnit(num, den) == LET s == Sgn(den) IN 0 <= s * num /\ s * num <= s * den

(* ----- 2D ------------------------------------------------------------------------------------- *)
Isect2(a, b, c, d) ==
  LET u == VSub(b, a)  v == VSub(d, c)  w == VSub(c, a)
      den == Cross2(u, v)
  IN IF den # 0
     THEN LET tn == Cross2(w, v)  sn == Cross2(w, u)          \* t = tn / den, s = sn / den
          IN IF InUnit(tn, den) /\ InUnit(sn, den) THEN PointR(At(a, u, RNorm(tn, den))) ELSE NoneR
     ELSE IF Cross2(w, u) # 0 THEN NoneR ELSE Overlap(a, b, c, d)

(* ----- 3D ------------------------------------------------------------------------------------- *)
Isect3(a, b, c, d) ==
  LET u == VSub(b, a)  v == VSub(d, c)  w == VSub(c, a)
      n == Cross3(u, v)
      nn == VDot(n, n)
  IN IF ~IsZero(n)
     THEN IF VDot(w, n) # 0 THEN NoneR                         \* skew lines
          ELSE LET tn == VDot(Cross3(w, v), n)  sn == VDot(Cross3(w, u), n)
               IN IF InUnit(tn, nn) /\ InUnit(sn, nn) THEN PointR(At(a, u, RNorm(tn, nn))) ELSE NoneR
     ELSE IF ~IsZero(Cross3(w, u)) THEN NoneR ELSE Overlap(a, b, c, d)

Isect(a, b, c, d) == IF Len(a) = 2 THEN Isect2(a, b, c, d) ELSE Isect3(a, b, c, d)

(* ----- integer-only contact classification (any dimension) ------------------------------------ *)
\* integer point p on the closed segment [a,b]
OnSegI(p, a, b) == LET u == VSub(b, a)  q == VSub(p, a)
                   IN Par(q, u) /\ 0 <= VDot(q, u) /\ VDot(q, u) <= VDot(u, u)
Touch(a, b, c, d) ==
  LET u == VSub(b, a)  v == VSub(d, c)  w == VSub(c, a)
      \* t = tn / den, s = sn / den as in Isect2 / Isect3 (2D keeps the numbers small: no squares)
      den == IF Len(a) = 2 THEN Cross2(u, v) ELSE VDot(Cross3(u, v), Cross3(u, v))
      tn  == IF Len(a) = 2 THEN Cross2(w, v) ELSE VDot(Cross3(w, v), Cross3(u, v))
      sn  == IF Len(a) = 2 THEN Cross2(w, u) ELSE VDot(Cross3(w, u), Cross3(u, v))
      coplanar == Len(a) = 2 \/ VDot(w, Cross3(u, v)) = 0
  IN IF ~Par(u, v)
     THEN IF ~coplanar \/ ~InUnit(tn, den) \/ ~InUnit(sn, den) THEN "none"
          ELSE IF tn \in {0, den} /\ sn \in {0, den} THEN "endpoints" ELSE "interior"
     ELSE IF ~Par(w, u) THEN "none"
          ELSE LET uu == VDot(u, u)
                   tc == VDot(VSub(c, a), u)  td == VDot(VSub(d, a), u)
                   lo == Max2(0, Min2(tc, td))  hi == Min2(uu, Max2(tc, td))
               IN IF lo > hi THEN "none" ELSE IF lo = hi THEN "endpoints" ELSE "overlap"

(* ----- model laws -------------------------------------------------------------------------------- *)
\* rational point p on the closed segment [a,b] (a, b integer): independent of the solver
OnSeg(p, a, b) ==
  LET u == VSub(b, a)
      q == [i \in 1..Len(a) |-> RSub(p[i], R(a[i]))]
      qu == RSum([i \in 1..Len(a) |-> RMul(q[i], R(u[i]))])
  IN /\ \A i, j \in 1..Len(a) : REq(RMul(q[i], R(u[j])), RMul(q[j], R(u[i])))
     /\ RLe(RZero, qu) /\ RLe(qu, R(VDot(u, u)))

Ccw(p, q, r) == Sgn(Cross2(VSub(q, p), VSub(r, p)))
\* classical orientation test for closed segments in the plane
Intersects2(a, b, c, d) ==
  LET o1 == Ccw(a, b, c)  o2 == Ccw(a, b, d)  o3 == Ccw(c, d, a)  o4 == Ccw(c, d, b)
  IN \/ (o1 * o2 < 0 /\ o3 * o4 < 0)
     \/ (o1 = 0 /\ OnSegI(c, a, b)) \/ (o2 = 0 /\ OnSegI(d, a, b))
     \/ (o3 = 0 /\ OnSegI(a, c, d)) \/ (o4 = 0 /\ OnSegI(b, c, d))

SameR(x, y) == x.kind = y.kind /\ SamePts(x.pts, y.pts)
Lift(p) == <<p[1], p[2], 1>>
LiftR(r) == [kind |-> r.kind, pts |-> [k \in 1..Len(r.pts) |-> <<r.pts[k][1], r.pts[k][2], ROne>>]]
Cyc(p) == <<p[2], p[3], p[1]>>
CycR(r) == [kind |-> r.kind, pts |-> [k \in 1..Len(r.pts) |-> Cyc(r.pts[k])]]

LawKindOf(a, b, c, d) ==
  LET r == Isect(a, b, c, d)
  IN /\ r.kind = KindOfCount(Len(r.pts))
     /\ NDistinct(r.pts) = Len(r.pts)
LawOnBothOf(a, b, c, d) ==
  LET r == Isect(a, b, c, d) IN \A k \in 1..Len(r.pts) : OnSeg(r.pts[k], a, b) /\ OnSeg(r.pts[k], c, d)
LawSymOf(a, b, c, d) ==
  LET r == Isect(a, b, c, d)
  IN SameR(r, Isect(c, d, a, b)) /\ SameR(r, Isect(b, a, c, d)) /\ SameR(r, Isect(a, b, d, c))
LawOrient2Of(a, b, c, d) == Len(a) = 2 => ((Isect2(a, b, c, d).kind # "none") <=> Intersects2(a, b, c, d))
LawLiftOf(a, b, c, d) ==
  Len(a) = 2 => SameR(LiftR(Isect2(a, b, c, d)), Isect3(Lift(a), Lift(b), Lift(c), Lift(d)))
LawPerm3Of(a, b, c, d) ==
  Len(a) = 3 => SameR(CycR(Isect3(a, b, c, d)), Isect3(Cyc(a), Cyc(b), Cyc(c), Cyc(d)))
LawTouchOf(a, b, c, d) ==
  LET r == Isect(a, b, c, d)  t == Touch(a, b, c, d)
      isEnd(p, x, y) == SamePt(p, RPt(x)) \/ SamePt(p, RPt(y))
  IN CASE r.kind = "none"    -> t = "none"
       [] r.kind = "segment" -> t = "overlap"
       [] r.kind = "point"   -> IF isEnd(r.pts[1], a, b) /\ isEnd(r.pts[1], c, d)
                                THEN t = "endpoints" ELSE t = "interior"
=============================================================================
