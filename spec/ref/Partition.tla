------------------------------ MODULE Partition ------------------------------
(***************************************************************************)
(* Reference semantics for C22 (porepy.grids.partition): structured        *)
(* partitioning, coordinate partitioning, overlap layers, subgrid          *)
(* extraction.  Grids are the incidence records G of GridTopology          *)
(* (0-based entity indices, entity e at sequence position e + 1).          *)
(*                                                                         *)
(* partition_structured(CartGrid(fine), coarse_dims = coarse)              *)
(*   family: 1 <= coarse[d] <= fine[d] in every direction.                 *)
(*   StructuredValid(fine, coarse, p): p has one id per cell, every id is  *)
(*   in 0 .. prod(coarse) - 1 (StructRange), and the cells of every part   *)
(*   form a box of the Cartesian cell lattice (StructBoxes).  Several      *)
(*   partitions are valid; RefStructured is one of them (law StructLaw:    *)
(*   it is valid for every (fine, coarse) of the family, uses every id).   *)
(*                                                                         *)
(* partition_coordinates: PartitionVector(G, p): one non-negative id per   *)
(*   cell (the function chooses the number of parts itself, so no upper    *)
(*   bound is part of the contract).                                       *)
(*                                                                         *)
(* overlap(g, S, k, criterion): OverlapRef = k-fold closed neighbourhood   *)
(*   of S under face adjacency (two cells share a face) or node adjacency  *)
(*   (share a node).  Laws: OverlapMonotone (layers only grow),            *)
(*   OverlapNeighbours (layer j contains every neighbour of layer j - 1).  *)
(*                                                                         *)
(* extract_subgrid(g, S): ValidExtract(G, S, H, fmap, nmap, pci): the      *)
(*   child H has the cells S (in increasing order, pci = parent cell       *)
(*   index), fmap / nmap are injective, their images are exactly the       *)
(*   faces of the cells in S / the nodes of those faces, and through the   *)
(*   maps every child face has the parent's nodes and the parent's signed  *)
(*   incidence restricted to S (induced incidence).  ExtractRef builds one *)
(*   such child (law ExtractLaw).  GeomAgrees compares the geometry        *)
(*   recomputed on the child with the parent's geometry at the mapped      *)
(*   entities (exact rationals <<n, d>> in lowest terms).                  *)
(***************************************************************************)
EXTENDS GridTopology, SequencesExt, FiniteSetsExt

(* --------------------------- structured ---------------------------------- *)
RECURSIVE Prod(_)
Prod(s) == IF s = <<>> THEN 1 ELSE Head(s) * Prod(Tail(s))

\* coordinate d of cell c of a Cartesian grid (x runs fastest)
CartCoord(fine, c, d) == (c \div Prod(SubSeq(fine, 1, d - 1))) % fine[d]

StructFamily(fine, coarse) ==
  /\ Len(fine) = Len(coarse) /\ Len(fine) \in {2, 3}
  /\ \A d \in 1..Len(fine) : 1 <= coarse[d] /\ coarse[d] <= fine[d]

StructRange(fine, coarse, p) ==
  /\ Len(p) = Prod(fine)
  /\ \A i \in 1..Len(p) : p[i] \in 0..(Prod(coarse) - 1)

PartCells(p, id) == {c \in 0..(Len(p) - 1) : p[c + 1] = id}
IsBox(fine, S) ==
  LET proj(d) == {CartCoord(fine, c, d) : c \in S} IN
    /\ \A d \in 1..Len(fine) : proj(d) = Min(proj(d))..Max(proj(d))
    /\ Cardinality(S) = Prod([d \in 1..Len(fine) |-> Cardinality(proj(d))])
StructBoxes(fine, p) == \A id \in Range(p) : IsBox(fine, PartCells(p, id))

StructuredValid(fine, coarse, p) == StructRange(fine, coarse, p) /\ StructBoxes(fine, p)

\* one valid partition: blocks of floor(fine / coarse) cells, the last block takes the remainder
Block(n, m, i) == IF i \div (n \div m) < m - 1 THEN i \div (n \div m) ELSE m - 1
RefStructured(fine, coarse) ==
  [i \in 1..Prod(fine) |->
     LET id[d \in 0..Len(fine)] ==
           IF d = 0 THEN 0
           ELSE id[d - 1] + Block(fine[d], coarse[d], CartCoord(fine, i - 1, d)) * Prod(SubSeq(coarse, 1, d - 1))
     IN id[Len(fine)]]
StructLaw(fine, coarse) ==
  LET p == RefStructured(fine, coarse) IN
    StructuredValid(fine, coarse, p) /\ Range(p) = 0..(Prod(coarse) - 1)

(* --------------------------- coordinates --------------------------------- *)
PartitionVector(G, p) == Len(p) = G.nc /\ \A i \in 1..Len(p) : p[i] >= 0

(* ----------------------------- overlap ----------------------------------- *)
FaceAdj(G) == ConnectionMap(G)
NodeAdj(G) ==
  LET CN == CellNodes(G)
      cellsAt(n) == {c \in CellIx(G) : <<n, c>> \in CN}
  IN UNION { {<<a, b>> : a \in cellsAt(n), b \in cellsAt(n)} : n \in NodeIx(G) }
Adj(G, crit) == IF crit = "face" THEN FaceAdj(G) ELSE NodeAdj(G)

\* closed neighbourhood of a cell set under an adjacency relation (set of ordered pairs)
Nbrs(adj, S) == S \cup {p[2] : p \in {q \in adj : q[1] \in S}}
RECURSIVE OverlapRef(_, _, _)
OverlapRef(adj, S, k) == IF k = 0 THEN S ELSE Nbrs(adj, OverlapRef(adj, S, k - 1))

OverlapLayers(adj, S, k) ==
  LET L[j \in 0..k] == IF j = 0 THEN S ELSE Nbrs(adj, L[j - 1]) IN L
OverlapMonotone(adj, S, k) ==
  LET L == OverlapLayers(adj, S, k) IN \A j \in 1..k : L[j - 1] \subseteq L[j]
OverlapNeighbours(adj, S, k) ==
  LET L == OverlapLayers(adj, S, k) IN
    \A j \in 1..k : \A p \in adj : p[1] \in L[j - 1] => p[2] \in L[j]
\* the two definitions of the layers agree
OverlapLayersLaw(adj, S, k) ==
  LET L == OverlapLayers(adj, S, k) IN \A j \in 0..k : L[j] = OverlapRef(adj, S, j)

(* ---------------------------- extraction --------------------------------- *)
Injective(s) == Cardinality(Range(s)) = Len(s)
\* position (0-based) of value v in the injective sequence s
PosOf(s, v) == (CHOOSE i \in 1..Len(s) : s[i] = v) - 1

FacesOfCells(G, S) == {f \in FaceIx(G) : FaceCells(G, f) \cap S # {}}
NodesOfFaces(G, F) == UNION {FaceNodes(G, f) : f \in F}

MapsValid(G, S, H, fmap, nmap, pci) ==
  /\ H.nc = Cardinality(S) /\ pci = SetToSortSeq(S, <)
  /\ Len(fmap) = H.nf /\ Injective(fmap) /\ Range(fmap) = FacesOfCells(G, S)
  /\ Len(nmap) = H.nn /\ Injective(nmap) /\ Range(nmap) = NodesOfFaces(G, FacesOfCells(G, S))
  /\ H.dim = G.dim /\ Len(H.cf) = H.nf /\ Len(H.fn) = H.nf

InducedIncidence(G, S, H, fmap, nmap, pci) ==
  \A i \in 1..H.nf :
    /\ {nmap[n + 1] : n \in Range(H.fn[i])} = FaceNodes(G, fmap[i])
    /\ Len(H.fn[i]) = Cardinality(FaceNodes(G, fmap[i]))
    /\ {<<pci[p[1] + 1], p[2]>> : p \in Range(H.cf[i])} = {q \in Range(Inc(G, fmap[i])) : q[1] \in S}
    /\ Len(H.cf[i]) = Cardinality({q \in Range(Inc(G, fmap[i])) : q[1] \in S})

ValidExtract(G, S, H, fmap, nmap, pci) ==
  MapsValid(G, S, H, fmap, nmap, pci) /\ InducedIncidence(G, S, H, fmap, nmap, pci)

ExtractRef(G, S) ==
  LET pci  == SetToSortSeq(S, <)
      fmap == SetToSortSeq(FacesOfCells(G, S), <)
      nmap == SetToSortSeq(NodesOfFaces(G, FacesOfCells(G, S)), <)
      cf   == [i \in 1..Len(fmap) |->
                 LET r == SelectSeq(Inc(G, fmap[i]), LAMBDA q : q[1] \in S)
                 IN [k \in 1..Len(r) |-> <<PosOf(pci, r[k][1]), r[k][2]>>]]
      fn   == [i \in 1..Len(fmap) |->
                 [k \in 1..Len(G.fn[fmap[i] + 1]) |-> PosOf(nmap, G.fn[fmap[i] + 1][k])]]
  IN [H |-> [dim |-> G.dim, nc |-> Len(pci), nf |-> Len(fmap), nn |-> Len(nmap), cf |-> cf, fn |-> fn],
      fmap |-> fmap, nmap |-> nmap, pci |-> pci]

ExtractLaw(G, S) ==
  LET e == ExtractRef(G, S) IN
    /\ ValidExtract(G, S, e.H, e.fmap, e.nmap, e.pci)
    /\ WellFormed(e.H)
    \* a face of the child is a boundary face iff it was one in the parent or lost a neighbour
    /\ \A i \in 1..e.H.nf : (i - 1 \in BoundaryFaces(e.H)) <=> Cardinality(FaceCells(G, e.fmap[i]) \cap S) = 1

\* geometry records: cc, fc, fnrm sequences of rational 3-vectors, cv, fa2 (squared face area) sequences
\* of rationals, nodes sequence of rational 3-vectors; all rationals <<n, d>> in lowest terms
GeomAgrees(gp, gh, fmap, nmap, pci) ==
  /\ \A i \in 1..Len(pci)  : gh.cc[i] = gp.cc[pci[i] + 1] /\ gh.cv[i] = gp.cv[pci[i] + 1]
  /\ \A i \in 1..Len(fmap) : /\ gh.fc[i] = gp.fc[fmap[i] + 1]
                             /\ gh.fnrm[i] = gp.fnrm[fmap[i] + 1]
                             /\ gh.fa2[i] = gp.fa2[fmap[i] + 1]
  /\ \A i \in 1..Len(nmap) : gh.nodes[i] = gp.nodes[nmap[i] + 1]
=============================================================================
