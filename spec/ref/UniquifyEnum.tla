---------------------------- MODULE UniquifyEnum ----------------------------
(***************************************************************************)
(* Enumerator and design check for C34 (uniquify_point_set): all sequences *)
(* of at most MaxLen points drawn (with repetition) from Pool, a sequence   *)
(* of lattice points forming well-separated clusters whose norms are close  *)
(* to each other.  Every sequence is emitted (as pool indices, with the     *)
(* flags tie / straddle) for the harness to run the real function on.       *)
(* Design invariants (must hold):                                          *)
(*   FamilyOK          every emitted input is in the property's family      *)
(*   RefLaws           the index maps of Ref are mutually consistent        *)
(*   ImplIffNoStraddle the algorithm as coded returns Ref exactly on the    *)
(*                     inputs where no cluster straddles a norm-cluster     *)
(*                     boundary (characterises the known defect)            *)
(***************************************************************************)
EXTENDS Uniquify, TLC, Json

CONSTANTS Pool, Tol, MaxLen
VARIABLES ix
Pts == [k \in 1..Len(ix) |-> Pool[ix[k]]]

Init == ix = <<>>
Next == Len(ix) < MaxLen /\ \E k \in 1..Len(Pool) : ix' = Append(ix, k)
Spec == Init /\ [][Next]_ix

FamilyOK == WellSeparated(Pts, Tol)
RefLaws ==
  LET r == RefOut(Pts, Tol) IN
    /\ \A k \in 1..Len(r.n2o) : r.o2n[r.n2o[k]] = k
    /\ \A i \in 1..Len(ix) : Close(Pts[i], r.pts[r.o2n[i]], Tol) /\ r.n2o[r.o2n[i]] <= i
    /\ \A k \in 1..(Len(r.n2o) - 1) : r.n2o[k] < r.n2o[k + 1]
ImplIffNoStraddle == (ImplOut(Pts, Tol) = RefOut(Pts, Tol)) <=> ~Straddle(Pts, Tol)
Emit == PrintT(ToJson([ix |-> ix, tie |-> HasNormTie(Pts, Tol), straddle |-> Straddle(Pts, Tol)]))
=============================================================================
