--------------------------- MODULE SaturationEnum ---------------------------
(***************************************************************************)
(* C42 enumerator: TLC lists the input lattices for harness/props/c42.py   *)
(* (Emit) and checks the model laws of Saturation.tla on the reference for *)
(* every lattice point (LawSat, LawChain, LawNorm).                        *)
(***************************************************************************)
EXTENDS Saturation

CONSTANTS Part,      \* "sat" | "chain" | "norm": which lattice this run enumerates
          NPh,       \* set of vector lengths (phases / components / columns)
          NTot,      \* sat: N (fractions are k/N); chain: set of denominators N; norm: unused
          RhoVals,   \* sat: densities; chain: gradient entries; norm: unused
          KMax,      \* chain, norm: entries k in 0..KMax
          Extra      \* chain: set of numbers of leading (non-fraction) derivatives

VARIABLES st, n, a, b
vars == <<st, n, a, b>>
\* sat:   a = rho tuple,            b = unused            emits all compositions k of NTot
\* chain: a = k tuple (K >= 1),     b = <<N, e>>          emits all gradients df
\* norm:  a = unused,               b = unused            emits all rows with positive sum
Init == st = 0 /\ n \in NPh /\ a = <<>> /\ b = <<>>
\* two steps: the invariants of a state are evaluated by the worker that generated it, so the (costly) Emit and
\* law evaluation is attached to the st = 2 copies, whose st = 1 parents are spread over all workers
Pick == /\ st = 0 /\ st' = 1 /\ n' = n
        /\ CASE Part = "sat"   -> a' \in Tuples(n, RhoVals) /\ b' = <<>>
             [] Part = "chain" -> /\ a' \in {k \in Tuples(n, 0..KMax) : SumSeq(k) >= 1}
                                  /\ b' \in {<<N, e>> : N \in NTot, e \in Extra}
             [] Part = "norm"  -> a' = <<>> /\ b' = <<>>
Eval == st = 1 /\ st' = 2 /\ UNCHANGED <<n, a, b>>
Next == Pick \/ Eval
Spec == Init /\ [][Next]_vars

\* leading (non-fraction) derivatives: any integers, they must pass through unchanged
Lead(g, e) == [i \in 1..e |-> 3 * i + g[1]]
Dfs(e) == {Lead(g, e) \o g : g \in Tuples(n, RhoVals)}
Rows == {r \in Tuples(n, 0..KMax) : SumSeq(r) >= 1}

Emit == st = 2 =>
  PrintT(ToJson(
    CASE Part = "sat"   -> [t |-> "sat", n |-> n, N |-> NTot, rho |-> a, ks |-> Comps(n, NTot)]
      [] Part = "chain" -> [t |-> "chain", n |-> n, N |-> b[1], e |-> b[2], k |-> a, dfs |-> Dfs(b[2])]
      [] Part = "norm"  -> [t |-> "norm", n |-> n, rows |-> Rows]))

\* design-level laws on the reference (allow_violation = False in the driver)
LawSat == (st = 2 /\ Part = "sat") =>
  \A k \in Comps(n, NTot) : /\ LawNonNegOf(k, a) /\ LawSumOneOf(k, a) /\ LawReproduceOf(k, NTot, a)
                            /\ LawDenOf(SatRef(k, a))
LawChain == (st = 2 /\ Part = "chain") =>
  /\ \A t \in {<<1, 1>>, <<1, 2>>, <<1, 8>>} : LawJacIsDerivativeOf(a, b[1], t)
  /\ \A df \in Dfs(b[2]) : LawDenOf(ChainRef(df, a, b[1]))
LawNorm == (st = 2 /\ Part = "norm") =>
  \A r \in Rows : LawRowSumOneOf(r) /\ LawDenOf(NormRef(r))
=============================================================================
