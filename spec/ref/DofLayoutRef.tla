---------------------------- MODULE DofLayoutRef ----------------------------
(***************************************************************************)
(* Reference layer of C05 (pure operators, no variables): given the        *)
(* md-grid (constant Grids) and the registry of variables in creation      *)
(* order, the required degree-of-freedom layout.  Used by sys/DofLayout    *)
(* (design: the mechanism realises it) and by trace/J_DofLayout (verdict   *)
(* on states recorded from the real EquationSystem).                       *)
(***************************************************************************)
EXTENDS Integers, Sequences, FiniteSets

CONSTANTS Grids,     \* sequence of [kind |-> "sd" | "intf", nc, nf, nn]: mdg.subdomains() then mdg.interfaces()
          DofTypes   \* sequence of dof-type records [cells, faces, nodes]

NumDofs(gi, d) ==
  LET g == Grids[gi] IN
    IF g.kind = "sd" THEN g.nc * d.cells + g.nf * d.faces + g.nn * d.nodes
                     ELSE g.nc * d.cells              \* mortar grids only carry cell dofs

RECURSIVE SeqSum(_)
SeqSum(s) == IF s = <<>> THEN 0 ELSE Head(s) + SeqSum(Tail(s))

\* order of _cluster_dofs_gridwise = the order the property demands: grids in md-grid order (subdomains,
\* then interfaces), within a grid the creation order.  reg: sequence of records with fields vid, g.
RECURSIVE ClusterFrom(_, _)
ClusterFrom(gi, reg) ==
  IF gi > Len(Grids) THEN <<>>
  ELSE LET here == SelectSeq(reg, LAMBDA v : v.g = gi)
       IN [k \in 1..Len(here) |-> here[k].vid] \o ClusterFrom(gi + 1, reg)

\* reg: sequence of [vid, name, g, ndof] in creation order
RefOrder(reg) == ClusterFrom(1, reg)
RefNdof(reg, vid) == LET i == CHOOSE j \in 1..Len(reg) : reg[j].vid = vid IN reg[i].ndof
RefStart(reg, p) == SeqSum([q \in 1..(p - 1) |-> RefNdof(reg, RefOrder(reg)[q])])
RefTotal(reg) == SeqSum([q \in 1..Len(reg) |-> reg[q].ndof])
\* half-open range [lo, hi) of variable vid
RefRange(reg, vid) ==
  LET p == CHOOSE q \in 1..Len(reg) : RefOrder(reg)[q] = vid
  IN [lo |-> RefStart(reg, p), hi |-> RefStart(reg, p) + RefNdof(reg, vid)]
RefOwner(reg, i) == CHOOSE vid \in {reg[j].vid : j \in 1..Len(reg)} :
                      RefRange(reg, vid).lo <= i /\ i < RefRange(reg, vid).hi
Range(lo, hi) == [k \in 1..(hi - lo) |-> lo + k - 1]          \* the sequence lo, .., hi-1
\* global indices selected by the variables in S (set of vids), ascending
RefSelect(reg, S) ==
  LET ord == SelectSeq(RefOrder(reg), LAMBDA v : v \in S)
      RECURSIVE Cat(_)
      Cat(k) == IF k > Len(ord) THEN <<>> ELSE Range(RefRange(reg, ord[k]).lo, RefRange(reg, ord[k]).hi) \o Cat(k + 1)
  IN Cat(1)
\* dissection of a value vector written for the variables in S in global order: slice received by vid
RefSlice(reg, S, vid, values) ==
  LET ord == SelectSeq(RefOrder(reg), LAMBDA v : v \in S)
      p   == CHOOSE q \in 1..Len(ord) : ord[q] = vid
      off == SeqSum([q \in 1..(p - 1) |-> RefNdof(reg, ord[q])])
  IN SubSeq(values, off + 1, off + RefNdof(reg, vid))
=============================================================================
