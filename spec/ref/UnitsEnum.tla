------------------------------ MODULE UnitsEnum ------------------------------
(***************************************************************************)
(* C43 enumerator: TLC lists unit systems x unit strings x values for      *)
(* harness/props/c43.py (Emit) and checks the laws of Units.tla on the     *)
(* model for every enumerated point (Laws).                                *)
(*   Part = "conv": state (U, t1); emits the one-token string t1 and, for  *)
(*                  every token t2, the strings "t2" and "t1 * t2"         *)
(*   Part = "long": state (U, toks) with Len(toks) = LongLen over LToks;   *)
(*                  emits the string and every split toks = t1 \o t2       *)
(*   Part = "dim":  state (U); the dimensionless spellings                 *)
(*   Part = "der":  state (U); derived units and their base expressions    *)
(*   Part = "mat":  state (class, U1, U2); one value per declared constant *)
(***************************************************************************)
EXTENDS Units, Json, FiniteSets

CONSTANTS Part,
          SM, SKG,      \* sets of exponent vectors for the length and mass units
          STh,          \* set of triples of exponent vectors for (K, mol, rad)
          Names, Exps,  \* conv: token names; exponents (0 = written without "^")
          LToks, LongLen, \* long: token set and string length
          Vals,         \* values [m |-> mantissa, e |-> exponent vector]
          Classes       \* mat: sequence of [name |-> class name, fields |-> sequence of <<field name, toks>>]

Systems == {[m |-> a, kg |-> b, K |-> t[1], mol |-> t[2], rad |-> t[3]] : a \in SM, b \in SKG, t \in STh}
Toks == {<<nm, IF e = 0 THEN 1 ELSE e, e # 0>> : nm \in Names, e \in Exps}
\* the writing style (blanks) varies deterministically with the tokens
StyleOf(toks) == (Len(toks[1][1]) + toks[1][2] + Len(toks) + 6) % 3
Text(toks) == Render(toks, StyleOf(toks))
DimTexts == {"", "1", "-", " ", " - ", " 1"}

\* values of the material constants: mantissa and exponents vary with the position of the field
MantCycle == <<1, 3, 7, 9, 11, 13>>
FieldVal(i, salt) == [m |-> MantCycle[((i + salt) % 6) + 1], e |-> <<((i + salt) % 5) - 2, ((3 * i + salt) % 7) - 3, 0>>]

VARIABLES st, U, x, y
vars == <<st, U, x, y>>
Init == st = 0 /\ U \in Systems /\ x = <<>> /\ y = <<>>
Pick == /\ st = 0 /\ st' = 1 /\ U' = U
        /\ CASE Part = "conv" -> x' \in Toks /\ y' = <<>>
             [] Part = "long" -> x' \in [1..LongLen -> LToks] /\ y' = <<>>
             [] Part = "dim"  -> x' = <<>> /\ y' = <<>>
             [] Part = "der"  -> x' = <<>> /\ y' = <<>>
             [] Part = "mat"  -> x' \in 1..Len(Classes) /\ y' \in Systems
Eval == st = 1 /\ st' = 2 /\ UNCHANGED <<U, x, y>>
Next == Pick \/ Eval
Spec == Init /\ [][Next]_vars

Splits == {i \in 1..(LongLen - 1) : TRUE}
Emit == st = 2 =>
  PrintT(ToJson(
    CASE Part = "conv" -> [t |-> "conv", U |-> U, vals |-> Vals, t1 |-> <<x>>, s1 |-> Text(<<x>>),
                           items |-> {[t2 |-> <<t2>>, s2 |-> Text(<<t2>>), s12 |-> Text(<<x, t2>>)] : t2 \in Toks}]
      [] Part = "long" -> [t |-> "conv", U |-> U, vals |-> Vals, t1 |-> <<>>, s1 |-> "",
                           items |-> {[t1 |-> SubSeq(x, 1, i), s1 |-> Text(SubSeq(x, 1, i)),
                                       t2 |-> SubSeq(x, i + 1, LongLen), s2 |-> Text(SubSeq(x, i + 1, LongLen)),
                                       s12 |-> Text(x)] : i \in Splits}]
      [] Part = "dim"  -> [t |-> "dim", U |-> U, vals |-> Vals, texts |-> DimTexts]
      [] Part = "der"  -> [t |-> "der", U |-> U, vals |-> Vals,
                           items |-> {[d |-> d, sbase |-> Render(Def(d), 1)] : d \in Derived}]
      [] Part = "mat"  -> [t |-> "mat", U |-> U, U2 |-> y, cls |-> Classes[x].name,
                           vals |-> [i \in 1..Len(Classes[x].fields) |-> FieldVal(i, x)]]))

Laws == st = 2 =>
  CASE Part = "conv" -> \A v \in Vals, t2 \in Toks :
                          /\ TokOK(x) /\ TokOK(t2)
                          /\ LawRoundTripOf(v, U, <<x>>) /\ LawRoundTripOf(v, U, <<x, t2>>)
                          /\ LawComposeOf(v, U, <<x>>, <<t2>>)
    [] Part = "long" -> \A v \in Vals, i \in Splits :
                          /\ \A j \in 1..LongLen : TokOK(x[j])
                          /\ LawRoundTripOf(v, U, x)
                          /\ LawComposeOf(v, U, SubSeq(x, 1, i), SubSeq(x, i + 1, LongLen))
    [] Part = "dim"  -> \A v \in Vals : ToSim(v, U, <<>>) = v
    [] Part = "der"  -> \A d \in Derived : LawDerivedOf(U, d)
    [] Part = "mat"  -> \A i \in 1..Len(Classes[x].fields) :
                          LET f == Classes[x].fields[i] IN
                            /\ \A j \in 1..Len(f[2]) : TokOK(f[2][j])
                            /\ LawRoundTripOf(FieldVal(i, x), y, f[2])
=============================================================================
