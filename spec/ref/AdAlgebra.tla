------------------------------ MODULE AdAlgebra ------------------------------
(***************************************************************************)
(* C01 reference: forward-mode AD values and Jacobians.                    *)
(*                                                                         *)
(* WHAT IS MODELLED.  An AdArray of size n over NN independent scalars is  *)
(* a sequence of n DUAL NUMBERS  [val, jac]  with jac a sequence of at     *)
(* most NN numbers (missing trailing entries are 0; a constant has the     *)
(* empty row): an element  val + sum_j jac[j] eps_j  of the ring           *)
(* Q[eps_1..eps_NN] / (eps_i eps_j).  Evaluating an expression in that     *)
(* ring yields its value and its exact gradient.  The ring operations      *)
(* (DAdd DSub DNeg DMul DInv DDiv DPowInt) are written in closed form      *)
(* (Leibniz, quotient and power rule) and VALIDATED against the ring       *)
(* axioms by the laws at the end of this module (PolyMul is the bilinear   *)
(* extension of the basis products 1*1 = 1, 1*eps_j = eps_j,               *)
(* eps_i*eps_j = 0; TLC checks DMul = PolyMul, x * DInv(x) = 1,            *)
(* DDiv = DMul o DInv, DPowInt = iterated PolyMul, linearity of the matrix  *)
(* product ... on every enumerated operand pair, see AdAlgebraEnum).       *)
(*                                                                         *)
(* NUMBERS.  TLC has no reals.  A number (Num) is either an exact rational *)
(* <<"q", n, d>> or a closed symbolic TERM                                  *)
(*   <<"add",a,b>> <<"sub",a,b>> <<"mul",a,b>> <<"div",a,b>> <<"pow",a,b>> *)
(*   <<"neg",a>> <<"fn",name,a>> <<"pi">>                                   *)
(* The smart constructors NAdd NMul ... fold rationals exactly (as long as *)
(* numerator and denominator stay <= H, so that 32-bit arithmetic cannot   *)
(* overflow) and build a term otherwise.  Hence the algebraic fragment     *)
(* (+ - * / integer powers, sparse @, slicing, abs, heaviside, maximum,    *)
(* l2_norm at Pythagorean points, safe_power with integer powers ...) is   *)
(* evaluated EXACTLY and the transcendental functions yield terms built by *)
(* the chain rule from the calculus table FnEval (f, f').  The harness     *)
(* evaluates a term with a small numpy interpreter that does not import    *)
(* porepy.                                                                 *)
(*                                                                         *)
(* SMOOTH DOMAIN.  The property quantifies over points "inside the         *)
(* functions' smooth domains ... wherever the expression is                *)
(* differentiable".  Facts(u) is a sound static analysis of a number       *)
(* (exact for rationals, range facts for terms); an operation whose domain *)
(* condition is not established yields a "bad" value with a reason         *)
(* (type / domain / kink / undecidable / illcond) and the program is not   *)
(* part of the family.                                                     *)
(*                                                                         *)
(* PROGRAMS are nested tuples, see Eval:                                   *)
(*   level 1   <<op, kx, ix, ky, iy>>   operands (kind, catalogue index)   *)
(*   level n+1 <<op, l, r>>             l, r programs of level n           *)
(***************************************************************************)
EXTENDS Rat, TLC

CONSTANTS Points,     \* sequence of points; a point = <<values of var 1, .., values of var V>> (values <<n, d>>): the
                      \* independent variables (initAdArrays) of the point, their number and sizes
          FCat,       \* scalars: sequence of [v |-> <<n, d>>, t |-> "float" | "int"]   (t is for the harness)
          ACat,       \* numpy arrays: sequence of sequences of <<n, d>>
          MCat,       \* left sparse matrices: sequence of [m |-> rows of integers, fmt |-> "csr" | "csc"]
          SCat,       \* row selections: sequence of [py |-> "slice" | "int" | "array", a |-> integers]
          FnCat,      \* function instances: sequence of [name |-> STRING, p |-> parameters <<n, d>>]
          H           \* rationals are folded while |numerator|, denominator <= H  (H * H * 2 < 2^31)

\* P is a point: number of variables, offset of variable i, number of independent scalars (= Jacobian columns)
RECURSIVE OffP(_, _)
OffP(P, i) == IF i <= 1 THEN 0 ELSE Len(P[i - 1]) + OffP(P, i - 1)
NNP(P) == OffP(P, Len(P) + 1)
\* TLC evaluates function constructors lazily (the body is re-evaluated at every application): every sequence built
\* here is forced into a concrete tuple, otherwise the cost of Eval is exponential in the depth of the program
Tup(f) == f \o <<>>

(***************************************************************************)
(* Numbers                                                                 *)
(***************************************************************************)
Q(r) == <<"q", r[1], r[2]>>
IsQ(a) == a[1] = "q"
Rt(a) == <<a[2], a[3]>>
QZero == <<"q", 0, 1>>
QOne == <<"q", 1, 1>>
QInt(n) == <<"q", n, 1>>
IsZero(a) == IsQ(a) /\ a[2] = 0
IsOne(a) == IsQ(a) /\ a[2] = 1 /\ a[3] = 1
SmallR(r) == Abs(r[1]) <= H /\ r[2] <= H
Fold(r, alt) == IF SmallR(r) THEN Q(r) ELSE alt

\* fast paths first (most Jacobian entries are 0, most values integers); the general path normalises by the gcd
FoldI(n, alt) == IF n <= H /\ -n <= H THEN <<"q", n, 1>> ELSE alt
BothQ(a, b) == a[1] = "q" /\ b[1] = "q"
BothInt(a, b) == a[3] = 1 /\ b[3] = 1
NNeg(a) == IF IsQ(a) THEN <<"q", -a[2], a[3]>> ELSE <<"neg", a>>
NAdd(a, b) == IF IsZero(a) THEN b ELSE IF IsZero(b) THEN a
              ELSE IF BothQ(a, b)
                   THEN (IF BothInt(a, b) THEN FoldI(a[2] + b[2], <<"add", a, b>>)
                         ELSE Fold(RAdd(Rt(a), Rt(b)), <<"add", a, b>>))
                   ELSE <<"add", a, b>>
NSub(a, b) == IF IsZero(b) THEN a ELSE IF IsZero(a) THEN NNeg(b)
              ELSE IF BothQ(a, b)
                   THEN (IF BothInt(a, b) THEN FoldI(a[2] - b[2], <<"sub", a, b>>)
                         ELSE Fold(RSub(Rt(a), Rt(b)), <<"sub", a, b>>))
                   ELSE <<"sub", a, b>>
NMul(a, b) == IF IsZero(a) \/ IsZero(b) THEN QZero
              ELSE IF IsOne(a) THEN b ELSE IF IsOne(b) THEN a
              ELSE IF BothQ(a, b)
                   THEN (IF BothInt(a, b) THEN FoldI(a[2] * b[2], <<"mul", a, b>>)
                         ELSE Fold(RMul(Rt(a), Rt(b)), <<"mul", a, b>>))
                   ELSE <<"mul", a, b>>
\* b is known to be non-zero
NDiv(a, b) == IF IsZero(a) THEN QZero ELSE IF IsOne(b) THEN a
              ELSE IF BothQ(a, b) THEN Fold(RDiv(Rt(a), Rt(b)), <<"div", a, b>>)
              ELSE <<"div", a, b>>
RECURSIVE NSum(_)
NSum(s) == IF s = <<>> THEN QZero ELSE NAdd(Head(s), NSum(Tail(s)))

\* integer powers: iterated multiplication on rationals (base non-zero if n < 0)
RECURSIVE NPowNat(_, _)
NPowNat(a, n) == IF n = 0 THEN QOne ELSE NMul(a, NPowNat(a, n - 1))
NPowI(a, n) == IF n = 0 THEN QOne
               ELSE IF n = 1 THEN a
               ELSE IF IsQ(a) /\ Abs(n) <= 16
                    THEN (IF n > 0 THEN NPowNat(a, n) ELSE NDiv(QOne, NPowNat(a, -n)))
                    ELSE <<"pow", a, QInt(n)>>
\* exact square roots of perfect squares (l2_norm at Pythagorean points)
ISqrt(n) == IF \E k \in 0..181 : k * k = n THEN CHOOSE k \in 0..181 : k * k = n ELSE -1
NSqrt(a) == IF IsQ(a) /\ a[2] >= 0 /\ ISqrt(a[2]) >= 0 /\ ISqrt(a[3]) >= 0
            THEN <<"q", ISqrt(a[2]), ISqrt(a[3])>> ELSE <<"pow", a, <<"q", 1, 2>>>>
\* real power a^e (a > 0 unless e is an integer)
NPow(a, e) == IF IsQ(e) /\ e[3] = 1 THEN NPowI(a, e[2])
              ELSE IF IsOne(a) THEN QOne ELSE <<"pow", a, e>>
NLog(a) == IF IsOne(a) THEN QZero ELSE <<"fn", "log", a>>
NFn(name, a) == <<"fn", name, a>>
NPi == <<"pi">>

(***************************************************************************)
(* Facts: what is known about the real number a Num denotes.               *)
(*  "pos" > 0, "neg" < 0, "unit" |.| < 1, "gt1" > 1, "small" |.| <= 3/2,   *)
(*  "le3" |.| <= 3, "exact" a rational, and with a safety margin (so that  *)
(*  the functions with singular derivatives stay well conditioned in       *)
(*  double arithmetic): "mid" |.| <= 0.92, "gt1s" >= 9/8, "big" |.| >= 1/2.*)
(*  Sound, not complete.                                                   *)
(***************************************************************************)
If(c, S) == IF c THEN S ELSE {}
QFacts(r) == {"exact"} \cup If(r[1] > 0, {"pos"}) \cup If(r[1] < 0, {"neg"})
             \cup If(Abs(r[1]) < r[2], {"unit"}) \cup If(r[1] > r[2], {"gt1"})
             \cup If(2 * Abs(r[1]) <= 3 * r[2], {"small"}) \cup If(Abs(r[1]) <= 3 * r[2], {"le3"})
             \cup If(10 * Abs(r[1]) <= 9 * r[2], {"mid"}) \cup If(8 * r[1] >= 9 * r[2], {"gt1s"})
             \cup If(2 * Abs(r[1]) >= r[2], {"big"})
SignOf(F) == F \cap {"pos", "neg"}
FlipF(F) == If("pos" \in F, {"neg"}) \cup If("neg" \in F, {"pos"}) \cup (F \cap {"unit", "small", "le3", "mid", "big"})
NzF(F) == "pos" \in F \/ "neg" \in F
SmallF(F) == "small" \in F \/ "unit" \in F
Le3F(F) == "le3" \in F \/ SmallF(F)

\* range of the table functions, given facts on the argument (rationals r != 0 have sin r, cos r not in {0, 1, -1})
FnRange(name, F) ==
  CASE name = "exp"     -> {"pos"} \cup If("pos" \in F, {"gt1"}) \cup If("neg" \in F, {"unit"})
                           \cup If("pos" \in F /\ "big" \in F, {"gt1s"}) \cup If("neg" \in F /\ "big" \in F, {"mid"})
    [] name = "log"     -> If("gt1" \in F, {"pos"}) \cup If("pos" \in F /\ "unit" \in F, {"neg"})
    [] name = "sin"     -> If(Le3F(F), SignOf(F)) \cup If("exact" \in F \/ "unit" \in F, {"unit"}) \cup {"small", "le3"}
                           \cup If("unit" \in F, {"mid"})
    [] name = "cos"     -> If(SmallF(F), {"pos"}) \cup If(NzF(F) /\ ("exact" \in F \/ "unit" \in F), {"unit"})
                           \cup {"small", "le3"}
    [] name = "tan"     -> If(SmallF(F), SignOf(F))
    [] name = "arcsin"  -> SignOf(F) \cup {"le3"}
    [] name = "arccos"  -> {"pos"} \cup If("neg" \in F, {"gt1"})
    [] name = "arctan"  -> SignOf(F) \cup (F \cap {"unit", "small", "mid"}) \cup {"le3"} \cup If("unit" \in F, {"mid"})
    [] name = "sinh"    -> SignOf(F) \cup (F \cap {"gt1"})
    [] name = "cosh"    -> {"pos"} \cup If(NzF(F), {"gt1"}) \cup If("big" \in F, {"gt1s"})
    [] name = "tanh"    -> SignOf(F) \cup {"unit", "small", "le3"} \cup If(SmallF(F), {"mid"})
    [] name = "arcsinh" -> SignOf(F) \cup (F \cap {"unit", "small", "le3", "mid"})
    [] name = "arccosh" -> {"pos"}
    [] name = "arctanh" -> SignOf(F)
    [] name = "abs"     -> If(NzF(F), {"pos"}) \cup (F \cap {"unit", "small", "le3", "mid", "big"})
    [] OTHER            -> {}

RECURSIVE Facts(_)
Facts(a) ==
  IF IsQ(a) THEN QFacts(Rt(a))
  ELSE CASE a[1] = "fn"  -> FnRange(a[2], Facts(a[3]))
         [] a[1] = "neg" -> FlipF(Facts(a[2]))
         [] a[1] = "add" -> LET F == Facts(a[2]) G == Facts(a[3])
                            IN If("pos" \in F /\ "pos" \in G, {"pos"}) \cup If("neg" \in F /\ "neg" \in G, {"neg"})
                               \cup If(("gt1" \in F /\ "pos" \in G) \/ ("pos" \in F /\ "gt1" \in G), {"gt1"})
         [] a[1] = "mul" -> LET F == Facts(a[2]) G == Facts(a[3])
                            IN If(("pos" \in F /\ "pos" \in G) \/ ("neg" \in F /\ "neg" \in G), {"pos"})
                               \cup If(("pos" \in F /\ "neg" \in G) \/ ("neg" \in F /\ "pos" \in G), {"neg"})
                               \cup If("unit" \in F /\ "unit" \in G, {"unit", "small", "le3"})
                               \cup If("gt1" \in F /\ "gt1" \in G, {"gt1"})
         [] a[1] = "div" -> LET F == Facts(a[2]) G == Facts(a[3])
                            IN If(("pos" \in F /\ "pos" \in G) \/ ("neg" \in F /\ "neg" \in G), {"pos"})
                               \cup If(("pos" \in F /\ "neg" \in G) \/ ("neg" \in F /\ "pos" \in G), {"neg"})
         [] a[1] = "pow" -> If("pos" \in Facts(a[2]), {"pos"})
         [] a[1] = "pi"  -> {"pos", "gt1"}
         [] OTHER        -> {}

\* "pos" | "neg" | "zero" | "unk"
Sign3(u) == IF IsQ(u) THEN (IF u[2] > 0 THEN "pos" ELSE IF u[2] < 0 THEN "neg" ELSE "zero")
            ELSE LET F == Facts(u) IN IF "pos" \in F THEN "pos" ELSE IF "neg" \in F THEN "neg" ELSE "unk"

(***************************************************************************)
(* Dual numbers                                                            *)
(***************************************************************************)
\* A Jacobian row is a sequence of numbers; entries beyond its length are 0 (a constant has the empty row <<>>).
JGet(J, j) == IF j <= Len(J) THEN J[j] ELSE QZero
UnitJ(n, k) == Tup([j \in 1..n |-> IF j = k THEN QOne ELSE QZero])
DConst(c) == [val |-> c, jac |-> <<>>]
DOne == DConst(QOne)
DZero == DConst(QZero)
JScale(c, J) == IF J = <<>> \/ IsZero(c) THEN <<>> ELSE Tup([j \in 1..Len(J) |-> NMul(c, J[j])])
JAdd(J, K) == IF J = <<>> THEN K ELSE IF K = <<>> THEN J
              ELSE Tup([j \in 1..Max2(Len(J), Len(K)) |-> NAdd(JGet(J, j), JGet(K, j))])
JNeg(J) == Tup([j \in 1..Len(J) |-> NNeg(J[j])])
JSub(J, K) == JAdd(J, JNeg(K))

DAdd(a, b) == [val |-> NAdd(a.val, b.val), jac |-> JAdd(a.jac, b.jac)]
DSub(a, b) == [val |-> NSub(a.val, b.val), jac |-> JSub(a.jac, b.jac)]
DNeg(a) == [val |-> NNeg(a.val), jac |-> JNeg(a.jac)]
DScale(c, a) == [val |-> NMul(c, a.val), jac |-> JScale(c, a.jac)]
\* product (Leibniz) rule
DMul(a, b) == [val |-> NMul(a.val, b.val), jac |-> JAdd(JScale(b.val, a.jac), JScale(a.val, b.jac))]
\* reciprocal: the unique z with a * z = 1  (a.val # 0)
DInv(a) == [val |-> NDiv(QOne, a.val), jac |-> JScale(NNeg(NDiv(QOne, NMul(a.val, a.val))), a.jac)]
\* quotient rule  (b.val # 0)
DDiv(a, b) == [val |-> NDiv(a.val, b.val),
               jac |-> LET bb == NMul(b.val, b.val)
                       IN Tup([j \in 1..Max2(Len(a.jac), Len(b.jac)) |->
                                 NDiv(NSub(NMul(JGet(a.jac, j), b.val), NMul(a.val, JGet(b.jac, j))), bb)])]
\* power rule, integer exponent  (a.val # 0 if n <= 0)
DPowInt(a, n) == IF n = 0 THEN DOne
                 ELSE [val |-> NPowI(a.val, n), jac |-> JScale(NMul(QInt(n), NPowI(a.val, n - 1)), a.jac)]
\* general power b^e, b.val > 0:  d(b^e) = e b^(e-1) db + b^e log(b) de
DPowGen(b, e) == LET v == NPow(b.val, e.val)
                 IN [val |-> v,
                     jac |-> JAdd(JScale(NMul(e.val, NPow(b.val, NSub(e.val, QOne))), b.jac),
                                  JScale(NMul(v, NLog(b.val)), e.jac))]
RECURSIVE JSum(_)
JSum(q) == IF q = <<>> THEN <<>> ELSE JAdd(Head(q), JSum(Tail(q)))
RECURSIVE DSum(_)
DSum(s) == IF s = <<>> THEN DZero ELSE DAdd(Head(s), DSum(Tail(s)))
\* left multiplication of a vector of duals by an integer matrix (rows of integers)
MatApply(M, v) == Tup([r \in 1..Len(M) |-> DSum(Tup([c \in 1..Len(v) |-> DScale(QInt(M[r][c]), v[c])]))])

(***************************************************************************)
(* The calculus table.  FnEval(name, p, u) = [bad, val, der]: value and    *)
(* derivative of the scalar function at the number u (p = parameters of    *)
(* the function instance), or bad # "" if u is not established to be in    *)
(* the smooth domain.                                                      *)
(***************************************************************************)
FR(v, d) == [bad |-> "", val |-> v, der |-> d]
FB(w) == [bad |-> w, val |-> QZero, der |-> QZero]
Need(c, u, r) == IF c THEN r ELSE FB(IF IsQ(u) THEN "domain" ELSE "undecidable")
\* c: inside the domain, m: with the safety margin that keeps double arithmetic well conditioned
Need2(c, m, u, r) == IF c /\ m THEN r ELSE FB(IF ~IsQ(u) THEN "undecidable" ELSE IF c THEN "illcond" ELSE "domain")
Cond(m, u, r) == IF m THEN r ELSE FB(IF IsQ(u) THEN "illcond" ELSE "undecidable")
Half == <<"q", 1, 2>>
MHalf == <<"q", -1, 2>>
Sq(u) == NMul(u, u)

FnEval(name, p, u) ==
  LET F == Facts(u)
      s == Sign3(u)
  IN CASE name = "exp"     -> FR(NFn("exp", u), NFn("exp", u))
       [] name = "log"     -> Need("pos" \in F, u, FR(NLog(u), NDiv(QOne, u)))
       [] name = "sin"     -> Cond(Le3F(F), u, FR(NFn("sin", u), NFn("cos", u)))
       [] name = "cos"     -> Cond(Le3F(F), u, FR(NFn("cos", u), NNeg(NFn("sin", u))))
       [] name = "tan"     -> Cond(SmallF(F), u, FR(NFn("tan", u), NDiv(QOne, Sq(NFn("cos", u)))))
       [] name = "arcsin"  -> Need2("unit" \in F, "mid" \in F, u, FR(NFn("arcsin", u), NPow(NSub(QOne, Sq(u)), MHalf)))
       [] name = "arccos"  -> Need2("unit" \in F, "mid" \in F, u, FR(NFn("arccos", u), NNeg(NPow(NSub(QOne, Sq(u)), MHalf))))
       [] name = "arctan"  -> FR(NFn("arctan", u), NDiv(QOne, NAdd(QOne, Sq(u))))
       [] name = "sinh"    -> FR(NFn("sinh", u), NFn("cosh", u))
       [] name = "cosh"    -> FR(NFn("cosh", u), NFn("sinh", u))
       [] name = "tanh"    -> FR(NFn("tanh", u), NDiv(QOne, Sq(NFn("cosh", u))))
       [] name = "arcsinh" -> FR(NFn("arcsinh", u), NPow(NAdd(Sq(u), QOne), MHalf))
       [] name = "arccosh" -> Need2("gt1" \in F, "gt1s" \in F, u, FR(NFn("arccosh", u), NPow(NSub(Sq(u), QOne), MHalf)))
       [] name = "arctanh" -> Need2("unit" \in F, "mid" \in F, u, FR(NFn("arctanh", u), NDiv(QOne, NSub(QOne, Sq(u)))))
       \* |u|, kink at 0
       [] name = "abs"     -> IF s = "zero" THEN FB("kink") ELSE IF s = "unk" THEN FB("undecidable")
                              ELSE FR(IF IsQ(u) THEN Q(RAbs(Rt(u))) ELSE NFn("abs", u),
                                      IF s = "pos" THEN QOne ELSE QInt(-1))
       \* heaviside(zerovalue, .): step at 0 (excluded), derivative 0 elsewhere
       [] name = "heaviside" -> IF s = "zero" THEN FB("kink") ELSE IF s = "unk" THEN FB("undecidable")
                                ELSE FR(IF s = "pos" THEN QOne ELSE QZero, QZero)
       \* heaviside_smooth(., eps) = 1/2 (1 + 2/pi arctan(u/eps)),  derivative (1/pi) eps / (eps^2 + u^2)
       [] name = "heaviside_smooth" ->
            LET eps == Q(p[1])
            IN FR(NMul(Half, NAdd(QOne, NMul(NDiv(QInt(2), NPi), NFn("arctan", NDiv(u, eps))))),
                  NDiv(eps, NMul(NPi, NAdd(Sq(eps), Sq(u)))))
       \* characteristic_function(tol, .): 1 on |u| < tol, 0 on |u| > tol (|u| = tol is the jump), derivative 0
       [] name = "characteristic_function" ->
            IF ~IsQ(u) THEN FB("undecidable")
            ELSE IF REq(RAbs(Rt(u)), p[1]) THEN FB("kink")
            ELSE FR(IF RLt(RAbs(Rt(u)), p[1]) THEN QOne ELSE QZero, QZero)
       \* safe_power(power, zero_val, tol, .): u^power on |u| > tol, the constant zero_val on |u| < tol
       [] name = "safe_power" ->
            IF ~IsQ(u) THEN FB("undecidable")
            ELSE IF REq(RAbs(Rt(u)), p[3]) THEN FB("kink")
            ELSE IF RLt(RAbs(Rt(u)), p[3]) THEN FR(Q(p[2]), QZero)
            ELSE IF p[1][2] = 1 THEN FR(NPowI(u, p[1][1]),
                                        IF p[1][1] = 0 THEN QZero ELSE NMul(QInt(p[1][1]), NPowI(u, p[1][1] - 1)))
            ELSE Need(s = "pos", u, FR(NPow(u, Q(p[1])), NMul(Q(p[1]), NPow(u, NSub(Q(p[1]), QOne)))))
       [] OTHER -> FB("type")

(***************************************************************************)
(* Values of programs                                                      *)
(***************************************************************************)
Bad(w) == [k |-> "bad", why |-> w]
AD(v) == [k |-> "ad", v |-> v]
OkD(d) == [bad |-> "", d |-> d]
BadD(w) == [bad |-> w, d |-> DZero]
Collect(s) == IF \E i \in 1..Len(s) : s[i].bad # ""
              THEN Bad(s[CHOOSE i \in 1..Len(s) : s[i].bad # "" /\ \A j \in 1..(i - 1) : s[j].bad = ""].bad)
              ELSE AD(Tup([i \in 1..Len(s) |-> s[i].d]))

BinaryOps == {"add", "sub", "mul", "div", "pow", "max"}
IsNumV(X) == X.k \in {"ad", "f", "arr"}
SizeV(X) == IF X.k = "f" THEN 0 ELSE Len(X.v)
AsDuals(X, n) == CASE X.k = "ad"  -> X.v
                   [] X.k = "f"   -> Tup([i \in 1..n |-> DConst(X.v)])
                   [] X.k = "arr" -> Tup([i \in 1..n |-> DConst(X.v[i])])
\* Python supports the operation: an AdArray on at least one side, equal sizes
BinOK(A, B) == /\ IsNumV(A) /\ IsNumV(B) /\ (A.k = "ad" \/ B.k = "ad")
               /\ (SizeV(A) = 0 \/ SizeV(B) = 0 \/ SizeV(A) = SizeV(B))

\* a ** b.  kb = kind of the exponent operand.  Constant integer exponents: polynomial / reciprocal power rule
\* (base non-zero for exponents <= 0; 0 ** 0 is excluded as convention dependent).  Otherwise x^y = exp(y log x)
\* on x > 0.
PowElem(a, b, kb) ==
  LET sa == Sign3(a.val)
  IN IF kb # "ad" /\ b.val[3] = 1
     THEN (IF b.val[2] <= 0 /\ sa = "zero" THEN BadD("domain")
           ELSE IF b.val[2] <= 0 /\ sa = "unk" THEN BadD("undecidable")
           ELSE OkD(DPowInt(a, b.val[2])))
     ELSE IF sa = "pos" THEN OkD(DPowGen(a, b))
     ELSE IF sa = "unk" THEN BadD("undecidable") ELSE BadD("domain")

\* maximum(a, b): the larger operand, ties are kinks
MaxElem(a, b) == IF ~(IsQ(a.val) /\ IsQ(b.val)) THEN BadD("undecidable")
                 ELSE IF REq(Rt(a.val), Rt(b.val)) THEN BadD("kink")
                 ELSE IF RLt(Rt(a.val), Rt(b.val)) THEN OkD(b) ELSE OkD(a)

Elem(op, a, b, kb) ==
  CASE op = "add" -> OkD(DAdd(a, b))
    [] op = "sub" -> OkD(DSub(a, b))
    [] op = "mul" -> OkD(DMul(a, b))
    [] op = "div" -> LET s == Sign3(b.val)
                     IN IF s = "zero" THEN BadD("domain") ELSE IF s = "unk" THEN BadD("undecidable")
                        ELSE OkD(DDiv(a, b))
    [] op = "pow" -> PowElem(a, b, kb)
    [] op = "max" -> MaxElem(a, b)

\* chain rule: f(a) = [f(a.val), f'(a.val) * a.jac]
FnElem(fn, a) == LET r == FnEval(fn.name, fn.p, a.val)
                 IN IF r.bad # "" THEN BadD(r.bad) ELSE OkD([val |-> r.val, jac |-> JScale(r.der, a.jac)])

\* l2_norm(dim, .): Euclidean norm of consecutive blocks of dim components; kink where a block vanishes
L2Block(v, dim, b) ==
  LET idx == Tup([i \in 1..dim |-> (b - 1) * dim + i])
      ss == NSum(Tup([i \in 1..dim |-> Sq(v[idx[i]].val)]))
      nrm == NSqrt(ss)
      known == \E i \in 1..dim : Sign3(v[idx[i]].val) \in {"pos", "neg"}
  IN IF IsZero(ss) THEN BadD("kink")
     ELSE IF ~IsQ(ss) /\ ~known THEN BadD("undecidable")
     ELSE OkD([val |-> nrm,
               jac |-> JSum(Tup([i \in 1..dim |-> JScale(NDiv(v[idx[i]].val, nrm), v[idx[i]].jac)]))])
L2(v, dim) == IF dim < 1 \/ Len(v) % dim # 0 THEN Bad("type")
              ELSE Collect(Tup([b \in 1..(Len(v) \div dim) |-> L2Block(v, dim, b)]))

FnNode(A, fn) == IF fn.name = "l2_norm" THEN L2(A.v, fn.p[1][1])
                 ELSE Collect(Tup([i \in 1..Len(A.v) |-> FnElem(fn, A.v[i])]))

\* rows (1-based) selected by a Python row key on an array of size n; <<>> if the key is not applicable
SliceRows(s, n) ==
  CASE s.py = "int"   -> IF s.a[1] < n THEN <<s.a[1] + 1>> ELSE <<>>
    [] s.py = "array" -> IF \A i \in 1..Len(s.a) : s.a[i] < n THEN Tup([i \in 1..Len(s.a) |-> s.a[i] + 1]) ELSE <<>>
    [] s.py = "slice" -> LET stop == Min2(s.a[2], n)
                             cnt == IF stop <= s.a[1] THEN 0 ELSE ((stop - s.a[1] - 1) \div s.a[3]) + 1
                         IN Tup([i \in 1..cnt |-> s.a[1] + (i - 1) * s.a[3] + 1])
    [] OTHER -> <<>>

Operand(k, i, P) ==
  CASE k = "var" -> AD(Tup([c \in 1..Len(P[i]) |-> [val |-> Q(P[i][c]), jac |-> UnitJ(NNP(P), OffP(P, i) + c)]]))
    [] k = "f"   -> [k |-> "f", v |-> Q(FCat[i].v)]
    [] k = "arr" -> [k |-> "arr", v |-> Tup([c \in 1..Len(ACat[i]) |-> Q(ACat[i][c])])]
    [] k = "mat" -> [k |-> "mat", v |-> MCat[i].m]
    [] k = "sl"  -> [k |-> "sl", v |-> SCat[i]]
    [] k = "fn"  -> [k |-> "fn", v |-> FnCat[i]]
    [] OTHER     -> [k |-> "none"]

Comb(op, A, B) ==
  IF A.k = "bad" THEN A ELSE IF B.k = "bad" THEN B ELSE
  CASE op \in {"leaf", "const", "id"} -> A
    [] op \in BinaryOps ->
         IF ~BinOK(A, B) THEN Bad("type")
         ELSE LET n == Max2(SizeV(A), SizeV(B))
                  a == AsDuals(A, n)
                  b == AsDuals(B, n)
              IN Collect(Tup([i \in 1..n |-> Elem(op, a[i], b[i], B.k)]))
    [] op = "neg"    -> IF A.k = "ad" THEN AD(Tup([i \in 1..Len(A.v) |-> DNeg(A.v[i])])) ELSE Bad("type")
    [] op = "matmul" -> IF A.k = "mat" /\ B.k = "ad" /\ Len(A.v[1]) = Len(B.v) THEN AD(MatApply(A.v, B.v))
                        ELSE Bad("type")
    [] op = "slice"  -> IF A.k = "ad" /\ B.k = "sl"
                        THEN LET rows == SliceRows(B.v, Len(A.v))
                             IN IF rows = <<>> THEN Bad("type") ELSE AD(Tup([r \in 1..Len(rows) |-> A.v[rows[r]]]))
                        ELSE Bad("type")
    [] op = "fn"     -> IF A.k = "ad" /\ B.k = "fn" THEN FnNode(A, B.v) ELSE Bad("type")
    [] OTHER         -> [k |-> "none"]

\* value of a program at the point P
RECURSIVE Eval(_, _)
Eval(t, P) == IF Len(t) = 5 THEN Comb(t[1], Operand(t[2], t[3], P), Operand(t[4], t[5], P))
              ELSE Comb(t[1], Eval(t[2], P), Eval(t[3], P))

(***************************************************************************)
(* Static typing of programs (cheap: no arithmetic): kind and size of the  *)
(* value, "bad" where Python does not support the operation.  TType agrees *)
(* with Eval on the "type" failures; the enumerator uses it to list only   *)
(* well-typed programs.                                                    *)
(***************************************************************************)
TT(k, n) == [k |-> k, n |-> n]
TBad == TT("bad", 0)
TOperand(k, i, P) ==
  CASE k = "var" -> TT("ad", Len(P[i]))
    [] k = "f"   -> TT("f", 0)
    [] k = "arr" -> TT("arr", Len(ACat[i]))
    [] k \in {"mat", "sl", "fn"} -> TT(k, i)
    [] OTHER     -> TT("none", 0)
TComb(op, A, B) ==
  IF A.k = "bad" \/ B.k = "bad" THEN TBad ELSE
  CASE op \in {"leaf", "const", "id"} -> A
    [] op \in BinaryOps ->
         IF /\ A.k \in {"ad", "f", "arr"} /\ B.k \in {"ad", "f", "arr"} /\ (A.k = "ad" \/ B.k = "ad")
            /\ (A.k = "f" \/ B.k = "f" \/ A.n = B.n)
         THEN TT("ad", Max2(A.n, B.n)) ELSE TBad
    [] op = "neg"    -> IF A.k = "ad" THEN A ELSE TBad
    [] op = "matmul" -> IF A.k = "mat" /\ B.k = "ad" /\ Len(MCat[A.n].m[1]) = B.n
                        THEN TT("ad", Len(MCat[A.n].m)) ELSE TBad
    [] op = "slice"  -> IF A.k = "ad" /\ B.k = "sl"
                        THEN LET r == SliceRows(SCat[B.n], A.n) IN IF r = <<>> THEN TBad ELSE TT("ad", Len(r))
                        ELSE TBad
    [] op = "fn"     -> IF A.k = "ad" /\ B.k = "fn"
                        THEN (IF FnCat[B.n].name = "l2_norm"
                              THEN (LET d == FnCat[B.n].p[1][1]
                                    IN IF d >= 1 /\ A.n % d = 0 THEN TT("ad", A.n \div d) ELSE TBad)
                              ELSE A)
                        ELSE TBad
    [] OTHER         -> TT("none", 0)
RECURSIVE TType(_, _)
TType(t, P) == IF Len(t) = 5 THEN TComb(t[1], TOperand(t[2], t[3], P), TOperand(t[4], t[5], P))
               ELSE TComb(t[1], TType(t[2], P), TType(t[3], P))
WellTyped(t, P) == TType(t, P).k = "ad"

AllQDual(d) == IsQ(d.val) /\ \A j \in 1..Len(d.jac) : IsQ(d.jac[j])
\* the entries of an AdArray value that are terms: <<row, column (0 = val), term>>
SymEntries(v, nn) ==
  LET all == Tup([k \in 1..(Len(v) * (nn + 1)) |->
                LET i == ((k - 1) \div (nn + 1)) + 1
                    j == (k - 1) % (nn + 1)
                IN <<i, j, IF j = 0 THEN v[i].val ELSE JGet(v[i].jac, j)>>])
  IN SelectSeq(all, LAMBDA e : ~IsQ(e[3]))

(***************************************************************************)
(* Laws: the closed forms above against the ring axioms.  PolyMul is the   *)
(* product of Q[eps]/(eps_i eps_j) written as the bilinear extension of    *)
(* the products of the basis 1, eps_1, .., eps_NN.                         *)
(***************************************************************************)
Coef(a, m) == IF m = 0 THEN a.val ELSE JGet(a.jac, m)
MonoMul(m1, m2) == IF m1 = 0 THEN m2 ELSE IF m2 = 0 THEN m1 ELSE -1       \* -1: the product vanishes
PolyCoef(a, b, m, nn) == NSum(Tup([k \in 1..((nn + 1) * (nn + 1)) |->
                                 LET m1 == (k - 1) \div (nn + 1)
                                     m2 == (k - 1) % (nn + 1)
                                 IN IF MonoMul(m1, m2) = m THEN NMul(Coef(a, m1), Coef(b, m2)) ELSE QZero]))
PolyMul(a, b, nn) == [val |-> PolyCoef(a, b, 0, nn), jac |-> Tup([j \in 1..nn |-> PolyCoef(a, b, j, nn)])]
\* equality of dual numbers (rows are compared up to trailing zeros), demanded only if everything folded to rationals
DEq(x, y, nn) == x.val = y.val /\ \A j \in 1..nn : JGet(x.jac, j) = JGet(y.jac, j)
SameIfQ(x, y, nn) == (AllQDual(x) /\ AllQDual(y)) => DEq(x, y, nn)

LawsOf(a, b, nn) ==
  (AllQDual(a) /\ AllQDual(b)) =>
    LET c == DAdd(a, DScale(QInt(2), b))
        ab == DMul(a, b)
        a2 == PolyMul(a, a, nn)
        a3 == PolyMul(a, a2, nn)
        S(x, y) == SameIfQ(x, y, nn)
    IN /\ S(ab, PolyMul(a, b, nn))                                       \* Leibniz = ring product
       /\ S(ab, DMul(b, a))
       /\ S(DMul(a, DMul(b, c)), DMul(ab, c))
       /\ S(DMul(a, DAdd(b, c)), DAdd(ab, DMul(a, c)))                    \* distributivity
       /\ S(DAdd(a, DNeg(a)), DZero)
       /\ S(DSub(a, b), DAdd(a, DNeg(b)))
       /\ (~IsZero(b.val) => /\ S(DMul(b, DInv(b)), DOne)                 \* x * (1/x) = 1
                             /\ S(DDiv(a, b), DMul(a, DInv(b))))          \* quotient rule
       /\ S(DPowInt(a, 0), DOne) /\ S(DPowInt(a, 1), a)                   \* power rule = iterated product
       /\ S(DPowInt(a, 2), a2) /\ S(DPowInt(a, 3), a3)
       /\ (~IsZero(a.val) => /\ S(DPowInt(a, -1), DInv(a))
                             /\ S(DPowInt(a, -2), DInv(a2))
                             /\ S(DPowInt(a, -3), DInv(a3))
                             /\ S(DMul(DPowInt(a, 2), DPowInt(a, -3)), DPowInt(a, -1)))
\* the matrix product is linear
AllQVec(u) == \A i \in 1..Len(u) : AllQDual(u[i])
VAdd(u, v) == Tup([i \in 1..Len(u) |-> DAdd(u[i], v[i])])
VEq(x, y, nn) == Len(x) = Len(y) /\ \A i \in 1..Len(x) : DEq(x[i], y[i], nn)
LawLinearOf(M, u, v, nn) ==
  (Len(u) = Len(v) /\ Len(M[1]) = Len(u) /\ AllQVec(u) /\ AllQVec(v)) =>
    LET x == MatApply(M, VAdd(u, v))
        y == VAdd(MatApply(M, u), MatApply(M, v))
        z == MatApply(M, Tup([i \in 1..Len(u) |-> DScale(QInt(3), u[i])]))
        mu == MatApply(M, u)
        w == Tup([i \in 1..Len(M) |-> DScale(QInt(3), mu[i])])
    IN (AllQVec(x) /\ AllQVec(y) /\ AllQVec(z) /\ AllQVec(w)) => (VEq(x, y, nn) /\ VEq(z, w, nn))
=============================================================================
