---------------------------- MODULE BlockDiagEnum ----------------------------
(***************************************************************************)
(* Bounded input lattice for C37 (TLC enumerates, invariant Emit prints     *)
(* each input as JSON; the harness assembles the scipy matrix and calls the *)
(* real inverters; J_BlockDiag judges the results).                          *)
(*                                                                         *)
(* Family "blocks" (invert_diagonal_blocks, numba and python paths):         *)
(*   every sequence of 1..MaxBlocks block sizes from SizeSet, one FOCUS      *)
(*   block that runs through every unimodular matrix reachable from the      *)
(*   identity by at most DB[number of blocks] elementary row operations      *)
(*   (entries bounded by Bound, its exact inverse `inv` is built side by     *)
(*   side), the other blocks are TriBlock; storage format csr / csc and       *)
(*   layout "pruned" (nonzeros, ascending), "full" (zeros of the blocks       *)
(*   stored), "reversed" (nonzeros, descending inside a line).                *)
(*   `numba` marks the sub-lattice that is also run through the numba path   *)
(*   (a call costs ~50 ms): depth <= NbDB[number of blocks], all layouts at   *)
(*   depth 0, layout "pruned" below, three blocks only with focus 1.          *)
(* Family "perm" (generate_permutation_to_block_diag_matrix,                  *)
(*   invert_permuted_block_diag_matrix): every size sequence with total       *)
(*   order <= PermN, EVERY row permutation and EVERY column permutation,      *)
(*   blocks TriBlock ("tri"); and with the identity column permutation the    *)
(*   variants "id" (identity blocks: reducible pattern) and "upper" (unit     *)
(*   upper triangular blocks of ones).                                         *)
(*                                                                         *)
(* Model laws (must hold, a failure is a design error):                      *)
(*   LawInverse        the focus block and the inverse built side by side     *)
(*                     satisfy blk * inv = inv * blk = I, entries <= Bound;    *)
(*   LawDefault        the default blocks are unimodular: TriBlock * TriInv   *)
(*                     = I and UpperBlock * (its bidiagonal inverse) = I;      *)
(*   LawPermRoundTrip  permuting A back with the inverse maps restores the     *)
(*                     block-diagonal matrix, ValidPerm accepts that           *)
(*                     permutation, and the number of connected components is  *)
(*                     invariant under the permutation (= number of blocks for *)
(*                     irreducible blocks, = order for identity blocks).        *)
(***************************************************************************)
EXTENDS BlockDiag, TLC, Json

CONSTANTS SizeSet, MaxBlocks,
          DB,        \* DB[m]: max number of elementary operations on the focus block, m blocks
          NbDB,      \* NbDB[m]: the same for the sub-lattice run through numba
          Bound,     \* max |entry| of a block and of its inverse
          PermN      \* max total order in the permutation family

VARIABLES fam, sizes, focus, blk, inv, depth, fmt, layout, rowmap, colmap, variant
vars == <<fam, sizes, focus, blk, inv, depth, fmt, layout, rowmap, colmap, variant>>

SizeSeqs == UNION {[1..m -> SizeSet] : m \in 1..MaxBlocks}
Ident(n) == [i \in 1..n |-> i - 1]
Perms(n) == {p \in [1..n -> 0..(n - 1)] : IsInjective(p)}
\* inverse of TriBlock(s) = L^-T L^-1:  entry (i, j) = (-1)^(i+j) * (s - max(i, j) + 1)
TriInv(s) == [i \in 1..s |-> [j \in 1..s |->
                (IF (i + j) % 2 = 0 THEN 1 ELSE -1) * (s - (IF i >= j THEN i ELSE j) + 1)]]
UpperBlock(s) == [i \in 1..s |-> [j \in 1..s |-> IF j >= i THEN 1 ELSE 0]]
VariantBlock(v, s) == IF v = "tri" THEN TriBlock(s) ELSE IF v = "id" THEN IdRows(s) ELSE UpperBlock(s)

InitBlocks ==
  /\ fam = "blocks"
  /\ sizes \in SizeSeqs
  /\ focus \in 1..Len(sizes)
  /\ blk = IdRows(sizes[focus]) /\ inv = IdRows(sizes[focus]) /\ depth = 0
  /\ fmt \in {"csr", "csc"} /\ layout \in {"pruned", "full", "reversed"}
  /\ rowmap = Ident(SumSeq(sizes)) /\ colmap = Ident(SumSeq(sizes)) /\ variant = "tri"
InitPerm ==
  /\ fam = "perm"
  /\ sizes \in {s \in SizeSeqs : SumSeq(s) <= PermN}
  /\ focus = 0 /\ blk = <<>> /\ inv = <<>> /\ depth = 0
  /\ fmt = "csr" /\ layout = "pruned"
  /\ rowmap \in Perms(SumSeq(sizes))
  /\ \/ variant = "tri" /\ colmap \in Perms(SumSeq(sizes))
     \/ variant \in {"id", "upper"} /\ colmap = Ident(SumSeq(sizes))
Init == InitBlocks \/ InitPerm

Mutate ==
  /\ fam = "blocks" /\ depth < DB[Len(sizes)]
  /\ \E e \in ElemOps(sizes[focus]) :
        /\ blk' = ApplyRow(blk, e)
        /\ inv' = ApplyColInv(inv, e)
        /\ MaxAbs(ApplyRow(blk, e)) <= Bound /\ MaxAbs(ApplyColInv(inv, e)) <= Bound
  /\ depth' = depth + 1
  /\ UNCHANGED <<fam, sizes, focus, fmt, layout, rowmap, colmap, variant>>
Next == Mutate
Spec == Init /\ [][Next]_vars

Blocks == [k \in 1..Len(sizes) |-> IF fam = "blocks" /\ k = focus THEN blk
                                   ELSE VariantBlock(variant, sizes[k])]
Numba == \/ fam = "perm"
         \/ /\ depth <= NbDB[Len(sizes)]
            /\ Len(sizes) < 3 \/ focus = 1
            /\ layout = "pruned" \/ depth = 0

Emit == PrintT(ToJson([fam |-> fam, sizes |-> sizes, blocks |-> Blocks, fmt |-> fmt, layout |-> layout,
                       rowmap |-> rowmap, colmap |-> colmap, numba |-> Numba, variant |-> variant,
                       depth |-> depth]))

LawInverse == fam = "blocks" => /\ MatMulRows(blk, inv) = IdRows(sizes[focus])
                                /\ MatMulRows(inv, blk) = IdRows(sizes[focus])
                                /\ MaxAbs(blk) <= Bound /\ MaxAbs(inv) <= Bound
LawDefault == \A k \in 1..Len(sizes) :
                 /\ MatMulRows(TriBlock(sizes[k]), TriInv(sizes[k])) = IdRows(sizes[k])
                 /\ MatMulRows(UpperBlock(sizes[k]),
                               [i \in 1..sizes[k] |-> [j \in 1..sizes[k] |->
                                   IF j = i THEN 1 ELSE IF j = i + 1 THEN -1 ELSE 0]]) = IdRows(sizes[k])
LawPermRoundTrip ==
  fam = "perm" =>
     LET D == BlockDiagOfBlocks(Blocks)
         A == Assemble(Blocks, rowmap, colmap)
     IN /\ Permute(A, InversePerm(rowmap), InversePerm(colmap)) = D
        /\ ValidPerm(A, InversePerm(rowmap), InversePerm(colmap), sizes)
        /\ ValidPerm(D, Ident(SumSeq(sizes)), Ident(SumSeq(sizes)), sizes)
        /\ NumComponents(A) = NumComponents(D)
        /\ variant # "id" => NumComponents(A) = Len(sizes)
        /\ variant = "id" => NumComponents(A) = SumSeq(sizes)
=============================================================================
