---------------------------- MODULE PartitionEnum ----------------------------
(***************************************************************************)
(* Input enumeration for C22 and model laws of the reference (Partition).  *)
(*   kind "struct": every (fine, coarse) with 1 <= coarse[d] <= fine[d],   *)
(*                  fine[d] <= MaxFine2 in 2D, <= MaxFine3 in 3D           *)
(*   kind "sub":    every non-empty cell subset S of every grid in Grids   *)
(*                  (incidence records exported from real porepy grids     *)
(*                  with at most 9 cells); used for overlap and for        *)
(*                  extract_subgrid                                        *)
(* Laws (invariant on every enumerated input): StructLaw; for both         *)
(* adjacency criteria OverlapMonotone and OverlapNeighbours up to          *)
(* MaxLayers; ExtractLaw.                                                  *)
(***************************************************************************)
EXTENDS Partition, Json, TLC

CONSTANTS MaxFine2, MaxFine3, Grids, MaxLayers

VARIABLES phase, kind, fine, coarse, gi, S
pvars == <<phase, kind, fine, coarse, gi, S>>

Fines == {<<a, b>> : a \in 1..MaxFine2, b \in 1..MaxFine2}
         \cup {<<a, b, c>> : a \in 1..MaxFine3, b \in 1..MaxFine3, c \in 1..MaxFine3}
Coarses(f) == {c \in [1..Len(f) -> 1..(IF Len(f) = 2 THEN MaxFine2 ELSE MaxFine3)] :
                 \A d \in 1..Len(f) : c[d] <= f[d]}

\* adjacency relations of the constant grids (constant level: evaluated once)
AdjOf == [g \in 1..Len(Grids) |-> [face |-> FaceAdj(Grids[g]), node |-> NodeAdj(Grids[g])]]

LowCells(g) == {c \in CellIx(Grids[g]) : c < 4}
HighCells(g) == {c \in CellIx(Grids[g]) : c >= 4}

Init == phase = 0 /\ kind = "none" /\ fine = <<>> /\ coarse = <<>> /\ gi = 0 /\ S = {}
Next ==
  \/ /\ phase = 0 /\ phase' = 1 /\ kind' = "struct" /\ fine' \in Fines /\ UNCHANGED <<coarse, gi, S>>
  \/ /\ phase = 1 /\ kind = "struct" /\ phase' = 2 /\ coarse' \in Coarses(fine) /\ UNCHANGED <<kind, fine, gi, S>>
  \/ /\ phase = 0 /\ phase' = 1 /\ kind' = "sub" /\ gi' \in 1..Len(Grids) /\ S' \in SUBSET LowCells(gi')
     /\ UNCHANGED <<fine, coarse>>
  \/ /\ phase = 1 /\ kind = "sub" /\ phase' = 2
     /\ S' \in {S \cup h : h \in SUBSET HighCells(gi)} \ {{}}
     /\ UNCHANGED <<kind, fine, coarse, gi>>
Spec == Init /\ [][Next]_pvars

Laws == phase = 2 =>
  IF kind = "struct" THEN StructFamily(fine, coarse) /\ StructLaw(fine, coarse)
  ELSE /\ \A crit \in {"face", "node"} :
            /\ OverlapMonotone(AdjOf[gi][crit], S, MaxLayers)
            /\ OverlapNeighbours(AdjOf[gi][crit], S, MaxLayers)
            /\ OverlapLayersLaw(AdjOf[gi][crit], S, MaxLayers)
       /\ ExtractLaw(Grids[gi], S)

Emit == phase = 2 =>
  IF kind = "struct" THEN PrintT(ToJson([kind |-> "struct", fine |-> fine, coarse |-> coarse]))
  ELSE PrintT(ToJson([kind |-> "sub", gi |-> gi, S |-> SetToSortSeq(S, <)]))
=============================================================================
