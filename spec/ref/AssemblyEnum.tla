----------------------------- MODULE AssemblyEnum -----------------------------
(***************************************************************************)
(* Enumeration of C06 / C07 cases: an equation history (set / remove /     *)
(* update_equation), a selection of equations as the caller writes it      *)
(* (names in any order, or a restriction of each to a subset of its grids) *)
(* and a subset of variables.  TLC enumerates the family; the harness      *)
(* executes every emitted case on a real EquationSystem and J_Assembly /   *)
(* J_Schur judge what it returned.  Model laws checked here:               *)
(*   the rows of any selection are a sub-sequence of the full system's     *)
(*   rows; index ranges are contiguous and follow the registry order.      *)
(***************************************************************************)
EXTENDS AssemblyRef, FiniteSetsExt, SequencesExt, TLC, Json

CONSTANTS EqIds,      \* set of equation ids (domain of EqCat)
          VarGroups,  \* sequence of vid sets: the variable arguments offered (by name, md-variable, atomic)
          GridChoices, \* for restrictions: set of "all" "none" "first" "last" "ends"
          MaxVarGroups \* bound on the number of variable arguments in one selection (quick tier: 2)

VARIABLES stage, cs
evars == <<stage, cs>>

Perms(S) == {s \in [1..Cardinality(S) -> S] : \A i, j \in 1..Cardinality(S) : i # j => s[i] # s[j]}
SubPerms(S) == UNION {Perms(T) : T \in SUBSET S \ {{}}}

\* histories: set a non-empty subset in any order; optionally one more operation afterwards
BaseHist == {[k \in 1..Len(p) |-> <<"set", p[k]>>] : p \in SubPerms(EqIds)}
Histories == BaseHist \cup {Append(h, <<op, e>>) : h \in {x \in BaseHist : Len(x) = Cardinality(EqIds)},
                                                     op \in {"remove", "update", "set"}, e \in EqIds}

Pick(e, ch) ==
  LET gs == EqCat[e].grids IN
    CASE ch = "all"   -> gs
      [] ch = "none"  -> <<>>
      [] ch = "first" -> <<gs[1]>>
      [] ch = "last"  -> <<gs[Len(gs)]>>
      [] ch = "ends"  -> IF Len(gs) > 1 THEN <<gs[Len(gs)], gs[1]>> ELSE gs

NameSels(reg) == {[k \in 1..Len(p) |-> <<p[k], FALSE, <<>> >>] : p \in SubPerms(SeqToSet(reg))}
RestrSels(reg) ==
  UNION {{[k \in 1..Len(p) |-> <<p[k], TRUE, Pick(p[k], f[p[k]])>>] : f \in [SeqToSet(p) -> GridChoices]}
         : p \in {q \in SubPerms(SeqToSet(reg)) : Len(q) <= 2}}

\* variable arguments: any set of pairwise disjoint groups (a variable named twice is not a subset), written in
\* ascending and in descending order; <<>> stands for "all variables"
Disjoint(T) == \A g1, g2 \in T : g1 # g2 => VarGroups[g1] \cap VarGroups[g2] = {}
Asc(T) == SetToSortSeq(T, <)
VarSels == {<<>>} \cup UNION {{Asc(T), Reverse(Asc(T))} : T \in {X \in SUBSET (1..Len(VarGroups)) : X # {} /\ Cardinality(X) <= MaxVarGroups /\ Disjoint(X)}}

Init == stage = "hist" /\ cs = [hist |-> <<>>, sel |-> <<>>, selall |-> TRUE, vsel |-> <<>>, vselall |-> TRUE]
PickHist == /\ stage = "hist" /\ stage' = "sel"
            /\ \E h \in Histories : cs' = [cs EXCEPT !.hist = h]
PickSel == /\ stage = "sel" /\ stage' = "done"
           /\ LET reg == RegistryAfter(<<>>, cs.hist) IN
                \/ /\ reg # <<>>
                   /\ \E s \in NameSels(reg) \cup RestrSels(reg), v \in VarSels :
                        cs' = [cs EXCEPT !.sel = s, !.selall = FALSE, !.vsel = v, !.vselall = (v = <<>>)]
                \/ \E v \in VarSels : cs' = [cs EXCEPT !.selall = TRUE, !.vsel = v, !.vselall = (v = <<>>)]
Next == PickHist \/ PickSel
Spec == Init /\ [][Next]_evars

Emit == stage = "done" => PrintT(ToJson(cs))

\* ---- model laws
IsSubSeq(a, b) == \E f \in [1..Len(a) -> 1..Len(b)] : (\A i \in 1..Len(a) : a[i] = b[f[i]]) /\ \A i, j \in 1..Len(a) : i < j => f[i] < f[j]
LawRowsUnique == stage = "done" =>
  LET reg == RegistryAfter(<<>>, cs.hist)
      s == IF cs.selall THEN FullSel(reg) ELSE cs.sel
      r == RowsInOrder(reg, s)
  IN \A i, j \in 1..Len(r) : i # j => r[i] # r[j]
LawRowsFromFull == stage = "done" =>
  LET reg == RegistryAfter(<<>>, cs.hist)
      s == IF cs.selall THEN FullSel(reg) ELSE cs.sel
  IN SeqToSet(RowsInOrder(reg, s)) \subseteq SeqToSet(RowsInOrder(reg, FullSel(reg)))
LawIndicesContiguous == stage = "done" =>
  LET reg == RegistryAfter(<<>>, cs.hist)
      s == IF cs.selall THEN FullSel(reg) ELSE cs.sel
      ix == IndicesInOrder(reg, s, 0)
      RECURSIVE Cat(_)
      Cat(k) == IF k > Len(ix) THEN <<>> ELSE ix[k].idx \o Cat(k + 1)
  IN Cat(1) = Range(0, Len(RowsInOrder(reg, s)))
==============================================================================
