-------------------------------- MODULE Clip --------------------------------
(***************************************************************************)
(* C44  Geometric clipping keeps exactly the parts inside the domain -     *)
(* exact reference for lattice input.                                      *)
(*                                                                         *)
(* Lines by polygon.  For a segment a b and a simple lattice polygon the   *)
(* critical parameters are 0, 1 and the parameters where the segment meets *)
(* an edge (crossing, touching, end points of collinear overlaps).  On the *)
(* open interval between two consecutive critical parameters x < y the     *)
(* status (inside / outside / running along the boundary) is constant and  *)
(* is read off at the mediant parameter (x.n + y.n)/(x.d + y.d), whose     *)
(* point has integer coordinates after scaling by x.d + y.d.               *)
(*   ValidLineClip: every returned piece lies on its segment, has positive *)
(*     length and meets only inside intervals; every inside interval is    *)
(*     covered by the chain of returned pieces (union = intersection;      *)
(*     isolated touching points carry no piece).                           *)
(*   OverlapsBoundary: the segment runs along an edge somewhere - outside  *)
(*     the family (the code drops such parts on purpose).                  *)
(* Pieces are given by end points p/mp, q/mq (integer vectors over a       *)
(* denominator each).                                                      *)
(*                                                                         *)
(* Polygons by convex polyhedra (weaker, see J_Clip): the polygon is       *)
(* clipped by every cell of a convex tiling of a region that contains it;  *)
(* pieces must lie in the plane, in the closed cell and in the closed      *)
(* polygon, and the (projected, exact) areas of all pieces must add up to  *)
(* the area of the polygon.  Since the cells have disjoint interiors this  *)
(* forces the pieces of each cell to be the intersection up to null sets.  *)
(***************************************************************************)
EXTENDS Distance

\* ---- lines by polygon ----
V2Sub(a, b) == <<a[1] - b[1], a[2] - b[2]>>
X2(u, v) == u[1] * v[2] - u[2] * v[1]
D2(u, v) == u[1] * v[1] + u[2] * v[2]
In01(n, d) == IF d > 0 THEN 0 <= n /\ n <= d ELSE d <= n /\ n <= 0        \* 0 <= n/d <= 1

\* parameters (normalised rationals) where segment a b meets the closed edge c d
EdgeParams(a, b, c, d) ==
  LET r == V2Sub(b, a)  e == V2Sub(d, c)  w == V2Sub(c, a)  den == X2(r, e)
  IN IF den # 0
       THEN IF In01(X2(w, e), den) /\ In01(X2(w, r), den) THEN {RNorm(X2(w, e), den)} ELSE {}
     ELSE IF X2(w, r) # 0 THEN {}
     ELSE {RNorm(D2(V2Sub(x, a), r), D2(r, r)) : x \in {y \in {c, d} : In01(D2(V2Sub(y, a), r), D2(r, r))}}
CritParams(poly, a, b) == {RZero, ROne} \cup UNION {EdgeParams(a, b, EdgeA(poly, i), EdgeB(poly, i)) : i \in Edges(poly)}
Consec(S) == {xy \in S \X S : RLt(xy[1], xy[2]) /\ ~\E z \in S : RLt(xy[1], z) /\ RLt(z, xy[2])}
\* status of the open interval (x, y) between consecutive critical parameters
Status(poly, a, b, x, y) ==
  LET s == x[2] + y[2]
      P == <<s * a[1] + (x[1] + y[1]) * (b[1] - a[1]), s * a[2] + (x[1] + y[1]) * (b[2] - a[2])>>
      Q == [i \in 1..Len(poly) |-> <<s * poly[i][1], s * poly[i][2]>>]
  IN IF OnBoundary2(Q, P) THEN "edge" ELSE IF InPolygon(Q, P) THEN "in" ELSE "out"
Intervals(poly, a, b) == Consec(CritParams(poly, a, b))
OverlapsBoundary(poly, a, b) == \E xy \in Intervals(poly, a, b) : Status(poly, a, b, xy[1], xy[2]) = "edge"
InsideIntervals(poly, a, b) == {xy \in Intervals(poly, a, b) : Status(poly, a, b, xy[1], xy[2]) = "in"}

\* parameter of the point n/m on the line a b, and membership in the segment
ParamOf(n, m, a, b) == LET r == V2Sub(b, a)  w == <<n[1] - m * a[1], n[2] - m * a[2]>> IN RNorm(D2(w, r), m * D2(r, r))
OnSeg2S(n, m, a, b) == LET r == V2Sub(b, a)  w == <<n[1] - m * a[1], n[2] - m * a[2]>>
                       IN X2(w, r) = 0 /\ D2(w, r) >= 0 /\ D2(w, r) <= m * D2(r, r)
\* a piece as parameter interval <<lo, hi>> of its segment
PieceIv(pc, a, b) == LET s == ParamOf(pc.p, pc.mp, a, b)  t == ParamOf(pc.q, pc.mq, a, b) IN <<RMin(s, t), RMax(s, t)>>
PieceOK(pc, a, b) == OnSeg2S(pc.p, pc.mp, a, b) /\ OnSeg2S(pc.q, pc.mq, a, b) /\ ParamOf(pc.p, pc.mp, a, b) # ParamOf(pc.q, pc.mq, a, b)
\* the piece meets only inside intervals
PieceInside(poly, a, b, iv) ==
  \A xy \in Intervals(poly, a, b) :
     RLt(RMax(iv[1], xy[1]), RMin(iv[2], xy[2])) => Status(poly, a, b, xy[1], xy[2]) = "in"
\* the open interval (lo, hi) is covered by the closed intervals ivs
RECURSIVE Covered(_, _, _)
Covered(lo, hi, ivs) == \/ RLe(hi, lo)
                        \/ \E iv \in ivs : RLe(iv[1], lo) /\ RLt(lo, iv[2]) /\ Covered(iv[2], hi, ivs)
ValidLineClipInside(poly, a, b, pcs) ==
  \A k \in 1..Len(pcs) : PieceOK(pcs[k], a, b) /\ PieceInside(poly, a, b, PieceIv(pcs[k], a, b))
ValidLineClipUnion(poly, a, b, pcs) ==
  LET ivs == {PieceIv(pcs[k], a, b) : k \in {j \in 1..Len(pcs) : PieceOK(pcs[j], a, b)}}
  IN \A xy \in InsideIntervals(poly, a, b) : Covered(xy[1], xy[2], ivs)

\* ---- polygons by the cells of a convex tiling ----
\* outward orientation of a face of a convex cell: all cell vertices are on the non-positive side
CellVerts(cell) == UNION {Range(cell[f]) : f \in 1..Len(cell)}
FaceN(face) == NewellSum(face, 1)
SideOf(face, x, m) == Dot3(FaceN(face), Sub3(x, VScale(m, face[1])))       \* x = point times m
FaceSign(cell, f) == IF \E v \in CellVerts(cell) : SideOf(cell[f], v, 1) > 0 THEN -1 ELSE 1
InCellS(cell, x, m) == \A f \in 1..Len(cell) : FaceSign(cell, f) * SideOf(cell[f], x, m) <= 0
\* every vertex of the polygon lies in some (closed) cell; the unions of the tilings used are convex boxes, so the
\* polygon is then contained in the tiled region
Covers(cells, poly) == \A i \in 1..Len(poly) : \E c \in 1..Len(cells) : InCellS(cells[c], poly[i], 1)
\* strictly convex planar polygon (the documented domain of polygons_by_polyhedron / polygons_3d)
Turn(poly, i) == LET n == Len(poly)  a == poly[i]  b == poly[NextI(i, n)]  c == poly[NextI(NextI(i, n), n)]
                 IN Dot3(PrimN(poly), Cross3(Sub3(b, a), Sub3(c, b)))
Convex3(poly) == (\A i \in 1..Len(poly) : Turn(poly, i) > 0) \/ (\A i \in 1..Len(poly) : Turn(poly, i) < 0)
\* n . (sum of cross products) of a polygon given by integer vertices (times m): 2 m^2 |n| x signed area
AreaN(nrm, verts) == Dot3(nrm, NewellSum(verts, 1))
=============================================================================
