------------------------------- MODULE BCFlags -------------------------------
(***************************************************************************)
(* Flag algebra of pp.BoundaryCondition / pp.BoundaryConditionVectorial    *)
(* (C39).  The three boolean arrays is_dir / is_neu / is_rob are read, per *)
(* (component, face), as one code  dir = 1, neu = 2, rob = 4  (sum of the  *)
(* flags that are set).  Pure operators, shared by the state machine       *)
(* spec/sys/BoundaryCond.tla and the judge spec/trace/J_BoundaryCond.tla.  *)
(*                                                                         *)
(* A program is a sequence of calls                                         *)
(*    [op |-> "ctor" | "set_bc", form |-> "index" | "mask",                 *)
(*     items |-> << [f |-> face, c |-> "dir" | "neu" | "rob"], ... >>]      *)
(*    [op |-> "i2d", form |-> "none", items |-> <<>>]  (internal_to_dirichlet)*)
(* Each call processes its items in order as Assign steps.                 *)
(***************************************************************************)
EXTENDS Integers, Sequences, FiniteSets

DIR == 1
NEU == 2
ROB == 4
HasRob(code) == (code \div 4) % 2 = 1

\* flags of a face right after construction of the arrays
DefaultCode(isBoundary) == IF isBoundary THEN NEU ELSE 0

\* one step of the loop over (faces, cond) in __init__ / set_bc.
\*   robDirFix = FALSE models BoundaryConditionVectorial before fix 9a25a228d ('dir' left is_rob as it was)
AssignCode(code, c, robDirFix) ==
  CASE c = "neu" -> code                         \* "Neumann is already default": nothing is written
    [] c = "dir" -> IF robDirFix THEN DIR ELSE DIR + (IF HasRob(code) THEN ROB ELSE 0)
    [] c = "rob" -> ROB

\* internal_to_dirichlet on one fracture face: is_neu = False, is_dir = True, is_rob = False
\*   i2dFix = FALSE models the code before fix 188b3d06c (is_rob left as it was)
I2DCode(code, i2dFix) == DIR + (IF HasRob(code) /\ ~i2dFix THEN ROB ELSE 0)

(* ------------------------- the property, on codes ------------------------- *)
ExactlyOne(code) == code \in {DIR, NEU, ROB}
NoFlag(code) == code = 0

\* faces named by a program (frac = the fracture faces, touched by an "i2d" call)
RECURSIVE CallFaces(_)
CallFaces(items) == IF items = <<>> THEN {} ELSE {Head(items).f} \cup CallFaces(Tail(items))
RECURSIVE ProgFaces(_, _)
ProgFaces(prog, frac) ==
  IF prog = <<>> THEN {}
  ELSE (IF Head(prog).op = "i2d" THEN frac ELSE CallFaces(Head(prog).items)) \cup ProgFaces(Tail(prog), frac)

(* ------------------------- running a program on one face ------------------ *)
RECURSIVE RunItems(_, _, _, _)
RunItems(code, items, f, robDirFix) ==
  IF items = <<>> THEN code
  ELSE RunItems(IF Head(items).f = f THEN AssignCode(code, Head(items).c, robDirFix) ELSE code,
                Tail(items), f, robDirFix)
RECURSIVE RunProg(_, _, _, _, _, _)
RunProg(code, prog, f, isFrac, robDirFix, i2dFix) ==
  IF prog = <<>> THEN code
  ELSE LET c == Head(prog)
           c2 == IF c.op = "i2d" THEN (IF isFrac THEN I2DCode(code, i2dFix) ELSE code)
                 ELSE RunItems(code, c.items, f, robDirFix)
       IN RunProg(c2, Tail(prog), f, isFrac, robDirFix, i2dFix)
=============================================================================
