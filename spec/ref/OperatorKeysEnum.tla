--------------------------- MODULE OperatorKeysEnum ---------------------------
(***************************************************************************)
(* C45: TLC enumerates pairs of operator trees (t1, t2): t1 ranges over    *)
(* all leaves of the catalogue, all depth-1 trees over the core leaves     *)
(* (every operation, function calls with one and two arguments,            *)
(* projection lists) and depth-2 trees over a smaller leaf set (both       *)
(* association shapes, nested function calls, a projection list applied    *)
(* to a leaf, a function call inside an operation); t2 is t1 itself (built *)
(* a second time from scratch by the harness) or one single-site mutation  *)
(* of t1 (OperatorKeys!Muts), built by every route of OperatorKeys!Routes  *)
(* (leaf-wise chains of single shifts, whole-tree shifts of hashed trees). *)
(* Every emitted pair is built with the real                               *)
(* porepy classes; J_OperatorKeys judges key / hash equality.              *)
(* Model laws: a pair is never both structurally equal and different;      *)
(* every proper mutant is not structurally equal to its origin.            *)
(***************************************************************************)
EXTENDS OperatorKeys, TLC, Json

CONSTANTS NGrids,      \* <<#subdomains, #interfaces, #boundary grids>> of the harness' grid catalogue
          AllLeaves,   \* leaf catalogue (depth 0, and mutation targets)
          CoreLeaves,  \* leaves used in depth-1 trees
          Core2,       \* leaves used in depth-2 trees
          Tags1, Tags2 \* operations used at depth 1 / depth 2

VARIABLES stage, t1, t2, route      \* route: how the harness builds t2 (OperatorKeys!Routes)
evars == <<stage, t1, t2, route>>

Projs(S) == {l \in S : l.k = "proj"}
Depth1 ==
     {Op(g, l, r) : g \in Tags1, l \in CoreLeaves, r \in CoreLeaves}
  \cup {Fn(f, <<l>>) : f \in FnNames, l \in CoreLeaves}
  \cup {Fn("exp", <<l, r>>) : l \in Core2, r \in Core2}
  \cup {PList(<<p, q>>) : p \in Projs(AllLeaves), q \in Projs(AllLeaves)}
  \* trees all of whose time-dependent leaves are pushed back already (whole-tree routes of depth 1 and 2)
  \cup {Op(g, l, r) : g \in Tags2, l \in {x \in AllLeaves : x.ts + x.it > 0}, r \in {x \in Core2 : x.k \notin TimeKinds}}
  \cup {Op(g, r, l) : g \in Tags2, l \in {x \in AllLeaves : x.ts + x.it > 0}, r \in {x \in Core2 : x.k \notin TimeKinds}}
Depth2 ==
     {Op(g, Op(h, x, y), z) : g \in Tags2, h \in Tags2, x \in Core2, y \in Core2, z \in Core2}
  \cup {Op(g, x, Op(h, y, z)) : g \in Tags2, h \in Tags2, x \in Core2, y \in Core2, z \in Core2}
  \cup {Fn(f, <<Fn(h, <<x>>), y>>) : f \in FnNames, h \in FnNames, x \in Core2, y \in Core2}
  \cup {Fn(f, <<Fn(h, <<x, y>>)>>) : f \in FnNames, h \in FnNames, x \in Core2, y \in Core2}
  \cup {Op(g, Fn(f, <<x>>), y) : g \in Tags2, f \in FnNames, x \in Core2, y \in Core2}
  \cup {Op("matmul", PList(<<p, q>>), x) : p \in Projs(CoreLeaves), q \in Projs(AllLeaves), x \in Core2}
Trees == AllLeaves \cup Depth1 \cup Depth2

Init == stage = "tree" /\ t1 \in {t \in Trees : Buildable(t)} /\ t2 = t1 /\ route = RouteRec("direct", 0, t1)
Next == /\ stage = "tree" /\ stage' = "pair" /\ t1' = t1
        /\ \E m \in {t \in {t1} \cup Muts(t1, NGrids) : Buildable(t)} : \E r \in Routes(m) : t2' = m /\ route' = r
Spec == Init /\ [][Next]_evars

Emit == stage = "pair" => PrintT(ToJson([t1 |-> Pack(t1), t2 |-> Pack(t2), route |-> <<route.r, route.s, Pack(route.base)>>]))

LawExclusive == stage = "pair" => ~(StructEq(t1, t2) /\ Differ(t1, t2))
LawMutantsNotEqual == stage = "pair" => (StructEq(t1, t2) <=> t1 = t2)
\* pushing the start tree of a whole-tree route back s steps gives t2 (leaf by leaf)
LawRouteReachesTree == stage = "pair" =>
  (route.r \in {"treeT", "treeI"} =>
     /\ route.s > 0 /\ Unshift(t2, route.r, route.s) = route.base
     /\ \A l \in LeavesOf(route.base) : l.ts >= 0 /\ l.it >= 0)
LawPackRoundTrip == stage = "pair" => Unpack(Pack(t2)) = t2
==============================================================================
