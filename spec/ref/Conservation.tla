----------------------------- MODULE Conservation -----------------------------
(***************************************************************************)
(* C04  Flow and energy models conserve mass and energy discretely.        *)
(*                                                                         *)
(* Pure operators (no variables).  Used by ConservationEnum.tla (TLC       *)
(* enumerates small flux networks and proves the design law) and by        *)
(* J_Conservation.tla (TLC judges what was recorded from the real porepy   *)
(* models).                                                                *)
(*                                                                         *)
(* PART 1 - THE LEDGER (exact, integers).  A mixed-dimensional flux        *)
(* network N is a record                                                   *)
(*   ncell             number of cells, numbered 1..ncell over all         *)
(*                     subdomains                                          *)
(*   sdof[c]           subdomain of cell c;  dimof[s] its dimension        *)
(*   rows[c]           the signed cell-face incidence (the divergence),    *)
(*                     row form: sequence of <<face, sign>>                *)
(*   cols[f]           the same matrix in column form: <<cell, sign>>      *)
(*   W                 common denominator of all mortar weights            *)
(*   pcol[m], scol[m]  mortar cell m hands its flux to primary FACES       *)
(*                     <<face, w>> and to secondary CELLS <<cell, w>>      *)
(*                     (mortar_to_primary_int / mortar_to_secondary_int,   *)
(*                     column form; weight = w / W)                        *)
(*   prow[f], srow[c]  the same two matrices in row form: <<mortar, w>>    *)
(*   mintf[m]          interface of mortar cell m                          *)
(*   intf[j]           [hi, lo]: the higher / lower dimensional subdomain  *)
(* A flux assignment Fl = [acc, face, lam]: accumulation rate per cell,    *)
(* flux per face (only read for internal faces; a closed boundary face     *)
(* carries 0), interface flux per mortar cell.  The balance of cell c is   *)
(*   Residual(c) = acc(c) + SUM_f inc(c,f) * FaceFlux(f) - Source(c)       *)
(* where a face fed by mortar cells carries their flux as Neumann data     *)
(* oriented OUT of its cell (BSign), and Source(c) is what the mortar      *)
(* cells hand to c.  Everything is kept in units of 1 / W.                 *)
(* The mode argument selects the model ("ok") or one of the realistic      *)
(* corruptions of the coupling, used to show that the law is not vacuous:  *)
(*   same_sign      an inter-cell flux enters both balances with one sign  *)
(*   src_sign       the interface flux enters the lower-dimensional cell   *)
(*                  with the wrong sign                                    *)
(*   drop_src       ... is not added to the lower-dimensional cell at all  *)
(*   sec_avg        ... is averaged instead of summed (equal shares)       *)
(*   prim_avg       the interface flux is averaged on the primary face     *)
(*   no_bsign       ... enters the face without orientation correction     *)
(*   open_boundary  a boundary face is not closed                          *)
(*                                                                         *)
(* PART 2 - FIXED POINT.  A real number recorded from the code reaches TLC *)
(* as four signed limbs <<a, b, c, d>> to base 2^15:                       *)
(*   round(x * 2^(60 - e)) = a 2^45 + b 2^30 + c 2^15 + d                  *)
(* (all limbs carry the sign of x; e is chosen by the harness so that the  *)
(* scale of the case is about 2^(e-1); the conversion is exact up to half  *)
(* a unit of 2^(e-60)).  Sums are formed limb-wise (|limb sum| < 2^31 for  *)
(* up to 2^15 summands), a deviation is then expressed in COARSE units     *)
(* 2^(e-45) and compared with a scale measured in HI units 2^(e-30):       *)
(*   verdict 0 = pass  |dev| <= 1e-9 * scale                               *)
(*           1 = band  (inconclusive, never alarms)                        *)
(*           2 = viol  |dev| >  1e-6 * scale                               *)
(* with the truncation uncertainty taken off the pass bound and added to   *)
(* the viol bound (DESIGN section 8).                                      *)
(***************************************************************************)
EXTENDS Integers, Sequences, FiniteSets, TLC

Abs(x) == IF x < 0 THEN -x ELSE x
Max2(a, b) == IF a >= b THEN a ELSE b
\* balanced recursion: depth log2(n)
RECURSIVE SumR(_, _, _)
SumR(f(_), lo, hi) ==
  IF lo > hi THEN 0
  ELSE IF lo = hi THEN f(lo)
  ELSE LET mid == (lo + hi) \div 2 IN SumR(f, lo, mid) + SumR(f, mid + 1, hi)
\* sum of g(entry) over the entries of a sequence
SumOver(s, g(_)) == SumR(LAMBDA i : g(s[i]), 1, Len(s))

\* ------------------------------------------------------------------ PART 1: the ledger
Modes == {"same_sign", "src_sign", "drop_src", "sec_avg", "prim_avg", "no_bsign", "open_boundary"}

NFace(N) == Len(N.cols)
NMort(N) == Len(N.pcol)
IsInternal(N, f) == Len(N.cols[f]) = 2
IsFed(N, f) == Len(N.prow[f]) > 0                       \* receives interface flux
\* orientation of a one-sided face relative to its cell
BSign(N, f) == N.cols[f][1][2]
\* number of mortar cells sharing a face / a cell (the "averaging" corruptions divide by it)
PrimW(N, f, e, mode) == IF mode = "prim_avg" THEN e[2] \div Len(N.prow[f]) ELSE e[2]
SecW(N, c, e, mode) == IF mode = "sec_avg" THEN e[2] \div Len(N.srow[c]) ELSE e[2]
\* interface flux arriving at face f, units 1 / W
MortarInto(N, Fl, f, mode) == SumOver(N.prow[f], LAMBDA e : PrimW(N, f, e, mode) * Fl.lam[e[1]])
\* flux through face f in the direction of its normal, units 1 / W
FaceFluxW(N, Fl, f, mode) ==
  IF IsInternal(N, f) THEN N.W * Fl.face[f]
  ELSE IF IsFed(N, f) THEN (IF mode = "no_bsign" THEN 1 ELSE BSign(N, f)) * MortarInto(N, Fl, f, mode)
  ELSE IF mode = "open_boundary" THEN N.W * Fl.face[f]
  ELSE 0                                                   \* closed boundary
IncSign(N, f, s, mode) == IF mode = "same_sign" /\ IsInternal(N, f) THEN 1 ELSE s
SourceW(N, Fl, c, mode) ==
  IF mode = "drop_src" THEN 0
  ELSE (IF mode = "src_sign" THEN -1 ELSE 1) * SumOver(N.srow[c], LAMBDA e : SecW(N, c, e, mode) * Fl.lam[e[1]])
DivFluxW(N, Fl, c, mode) == SumOver(N.rows[c], LAMBDA e : IncSign(N, e[1], e[2], mode) * FaceFluxW(N, Fl, e[1], mode))
ResidualW(N, Fl, c, mode) == N.W * Fl.acc[c] + DivFluxW(N, Fl, c, mode) - SourceW(N, Fl, c, mode)
TotalResidualW(N, Fl, mode) == SumR(LAMBDA c : ResidualW(N, Fl, c, mode), 1, N.ncell)
TotalAccW(N, Fl) == N.W * SumR(LAMBDA c : Fl.acc[c], 1, N.ncell)
\* the statement of C04 on the ledger
Conserved(N, Fl, mode) == TotalResidualW(N, Fl, mode) = TotalAccW(N, Fl)

\* the flux assignment in which only the mortar cells of interface j carry their flux, nothing accumulates
OnlyIntf(N, Fl, j) ==
  [acc |-> [c \in 1..N.ncell |-> 0], face |-> [f \in 1..NFace(N) |-> 0],
   lam |-> [m \in 1..NMort(N) |-> IF N.mintf[m] = j THEN Fl.lam[m] ELSE 0]]
SdSumW(N, Fl, s, mode) == SumR(LAMBDA c : IF N.sdof[c] = s THEN ResidualW(N, Fl, c, mode) ELSE 0, 1, N.ncell)
\* what interface j takes out of the higher-dimensional subdomain arrives in the lower-dimensional one
IntfCancels(N, Fl, j, mode) ==
  LET G == OnlyIntf(N, Fl, j) IN
  /\ SdSumW(N, G, N.intf[j].hi, mode) + SdSumW(N, G, N.intf[j].lo, mode) = 0
  /\ \A s \in 1..Len(N.dimof) : s \notin {N.intf[j].hi, N.intf[j].lo} => SdSumW(N, G, s, mode) = 0
\* ... and the interface flux really is exchanged (total outflow of hi = W * sum of the fluxes)
IntfExchanged(N, Fl, j) ==
  SdSumW(N, OnlyIntf(N, Fl, j), N.intf[j].hi, "ok") = N.W * SumR(LAMBDA m : IF N.mintf[m] = j THEN Fl.lam[m] ELSE 0, 1, NMort(N))

\* ---- well-formedness: what the real incidence data must satisfy for the design law to apply
InSeq(x, s) == \E i \in 1..Len(s) : s[i] = x
\* row form and column form describe the same matrix (rows index 1..Len(rowf), columns 1..Len(colf))
SameMatrix(rowf, colf) ==
  /\ \A r \in 1..Len(rowf) : \A i \in 1..Len(rowf[r]) :
        LET e == rowf[r][i] IN e[1] \in 1..Len(colf) /\ InSeq(<<r, e[2]>>, colf[e[1]])
  /\ SumR(LAMBDA r : Len(rowf[r]), 1, Len(rowf)) = SumR(LAMBDA k : Len(colf[k]), 1, Len(colf))
  /\ \A k \in 1..Len(colf) : \A i, j \in 1..Len(colf[k]) : i # j => colf[k][i][1] # colf[k][j][1]
FormsConsistent(N) ==
  /\ Len(N.rows) = N.ncell /\ Len(N.srow) = N.ncell /\ Len(N.sdof) = N.ncell
  /\ Len(N.prow) = NFace(N) /\ Len(N.scol) = NMort(N) /\ Len(N.mintf) = NMort(N)
  /\ SameMatrix(N.rows, N.cols) /\ SameMatrix(N.prow, N.pcol) /\ SameMatrix(N.srow, N.scol)
\* "every internal face column of div has entries {+1, -1}", a boundary face one entry +-1
FaceOK(N, f) ==
  LET k == N.cols[f] IN
  \/ Len(k) = 2 /\ {k[1][2], k[2][2]} = {1, -1} /\ k[1][1] # k[2][1] /\ N.sdof[k[1][1]] = N.sdof[k[2][1]]
  \/ Len(k) = 1 /\ k[1][2] \in {1, -1}
DivIncidenceOK(N) == \A f \in 1..NFace(N) : FaceOK(N, f)
\* "each mortar cell's flux is distributed to primary faces with weights summing to 1 and to secondary cells
\* with weights summing to 1": one-sided faces of the higher-dimensional, cells of the lower-dimensional subdomain
MortarOK(N, m) ==
  LET j == N.mintf[m] IN
  /\ j \in 1..Len(N.intf)
  /\ N.dimof[N.intf[j].hi] = N.dimof[N.intf[j].lo] + 1
  /\ SumOver(N.pcol[m], LAMBDA e : e[2]) = N.W
  /\ SumOver(N.scol[m], LAMBDA e : e[2]) = N.W
  /\ \A i \in 1..Len(N.pcol[m]) :
        LET e == N.pcol[m][i] IN e[2] > 0 /\ Len(N.cols[e[1]]) = 1 /\ N.sdof[N.cols[e[1]][1][1]] = N.intf[j].hi
  /\ \A i \in 1..Len(N.scol[m]) : LET e == N.scol[m][i] IN e[2] > 0 /\ N.sdof[e[1]] = N.intf[j].lo
MortarPartitionOK(N) == N.W > 0 /\ \A m \in 1..NMort(N) : MortarOK(N, m)
WellFormed(N) == FormsConsistent(N) /\ DivIncidenceOK(N) /\ MortarPartitionOK(N)

\* deterministic small integer test fluxes for a network taken from the real code (k = 1, 2, ...)
TestFlux(N, k) ==
  [acc |-> [c \in 1..N.ncell |-> ((c * (k + 2)) % 5) - 2],
   face |-> [f \in 1..NFace(N) |-> ((f * (2 * k + 5)) % 11) - 5],
   lam |-> [m \in 1..NMort(N) |-> ((m * (k + 4)) % 7) - 3]]

\* ------------------------------------------------------------------ PART 2: fixed point
LB == 32768                      \* 2^15
HUGE == 1073741823
LZ == <<0, 0, 0, 0>>
\* limb-wise sum of g(i) (a 4-limb value) over lo..hi
LSum(g(_), lo, hi) == <<SumR(LAMBDA i : g(i)[1], lo, hi), SumR(LAMBDA i : g(i)[2], lo, hi),
                        SumR(LAMBDA i : g(i)[3], lo, hi), SumR(LAMBDA i : g(i)[4], lo, hi)>>
LSub(x, y) == <<x[1] - y[1], x[2] - y[2], x[3] - y[3], x[4] - y[4]>>
LAdd(x, y) == <<x[1] + y[1], x[2] + y[2], x[3] + y[3], x[4] + y[4]>>
\* value of (not normalised) limbs in COARSE units 2^(e-45), error < 2; HUGE: |value| >= 2^(e-15), far beyond any viol bound
Coarse(x) ==
  IF Abs(x[1]) >= 32768 THEN HUGE
  ELSE LET E == x[1] * LB + x[2] IN
       IF Abs(E) >= 16384 THEN HUGE ELSE E * LB + x[3] + (x[4] \div LB)
\* |value| of NORMALISED limbs (as recorded) in HI units 2^(e-30), error <= 1
HiAbs(x) == Abs(x[1] * LB + x[2])
\* thresholds: 1e-9 * (HI unit) = 2^15 * 1e-9 = 1 / 30517.6 coarse units;  1e-6 -> 1 / 30.5
\* n = number of summed values (each contributes < 1 coarse unit of truncation, each HiAbs <= 1 hi unit)
Verdict(dev, scaleHi, n) ==
  LET slo == Max2(scaleHi - n, 0)
      shi == scaleHi + n
  IN IF dev # HUGE /\ Abs(dev) <= (slo \div 30600) - (n \div 16384) - 4 THEN 0
     ELSE IF dev = HUGE \/ Abs(dev) > (shi \div 30) + (n \div 16384) + 4 THEN 2
     ELSE 1
Worst(S) == IF 2 \in S THEN 2 ELSE IF 1 \in S THEN 1 ELSE 0
\* the scale must be representable (the harness chooses e accordingly): 2^23 <= scale < 2^30 hi units, so that the
\* pass bound (>= 274 coarse units) stays far above the truncation uncertainty
ScaleOK(scaleHi) == scaleHi >= 8388608 /\ scaleHi <= 1073741823
=============================================================================
