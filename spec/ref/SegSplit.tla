------------------------------ MODULE SegSplit ------------------------------
(***************************************************************************)
(* C29  Segment splitting yields a non-crossing covering subdivision.      *)
(*                                                                         *)
(* pp.intersections.split_intersecting_segments_2d(p, e, return_argsort)   *)
(* has no unique output (numbering of points and edges is free), so the    *)
(* reference is the validity predicate ValidSplit, one operator per clause *)
(* of the property.  All operators work on INTEGER points: the judge       *)
(* (J_SegSplit) multiplies the input points and porepy's rational output   *)
(* points by the least common multiple of the output denominators, which   *)
(* changes none of the predicates and keeps TLC inside 32 bit.             *)
(*                                                                         *)
(*   IP  sequence of input points <<x, y>>                                 *)
(*   IS  sequence of input segments [s, e, tags]  (1-based indices in IP)  *)
(*   OP  sequence of output points <<x, y>>                                *)
(*   OE  sequence of output edges  [s, e, tags]   (1-based indices in OP)  *)
(*   M   sequence: M[k] = input segment the output edge k is mapped to     *)
(*                                                                         *)
(* Clauses (statement of C29):                                             *)
(*   Structure     indices in range, one map entry per edge, no edge of    *)
(*                 zero length (needed for the other clauses to make       *)
(*                 sense)                                                  *)
(*   NonCrossing   two edges have no common point, or exactly one which    *)
(*                 is an end point of both AND the same point index        *)
(*                 ("meet only at shared endpoints")                       *)
(*   InsideParent  both end points of edge k lie on segment M[k]           *)
(*   Tags          edge k carries the tags of segment M[k]                 *)
(*   Covers        every input segment is covered by the edges lying on    *)
(*                 it (with InsideParent: union of edges = union of        *)
(*                 segments).  Breakpoint criterion: [0,1] is covered by   *)
(*                 closed intervals [lo_k, hi_k] iff every t in            *)
(*                 {0} u {hi_k < 1} lies in some [lo_k, hi_k).             *)
(*   NoDuplicates  no two edges with the same pair of end points, no two   *)
(*                 output points with the same coordinates                 *)
(* The contact classification Touch comes from SegIsect.tla (integer only).*)
(***************************************************************************)
EXTENDS SegIsect

PA(P, E, k) == P[E[k].s]
PB(P, E, k) == P[E[k].e]

Structure(IP, IS, OP, OE, M) ==
  /\ Len(M) = Len(OE)
  /\ \A k \in 1..Len(OE) :
       /\ OE[k].s \in 1..Len(OP) /\ OE[k].e \in 1..Len(OP)
       /\ M[k] \in 1..Len(IS)
       /\ OP[OE[k].s] # OP[OE[k].e]

NonCrossing(OP, OE) ==
  \A i, j \in 1..Len(OE) :
    i < j =>
      LET t == Touch(PA(OP, OE, i), PB(OP, OE, i), PA(OP, OE, j), PB(OP, OE, j))
      IN \/ t = "none"
         \/ t = "endpoints" /\ {OE[i].s, OE[i].e} \cap {OE[j].s, OE[j].e} # {}

InsideParent(IP, IS, OP, OE, M) ==
  \A k \in 1..Len(OE) :
    /\ OnSegI(PA(OP, OE, k), PA(IP, IS, M[k]), PB(IP, IS, M[k]))
    /\ OnSegI(PB(OP, OE, k), PA(IP, IS, M[k]), PB(IP, IS, M[k]))

Tags(IS, OE, M) == \A k \in 1..Len(OE) : OE[k].tags = IS[M[k]].tags

\* parameter numerator of point p along [a,b] (denominator |b - a|^2)
Param(p, a, b) == VDot(VSub(p, a), VSub(b, a))
CoversSeg(a, b, OP, OE) ==
  LET uu == VDot(VSub(b, a), VSub(b, a))
      on == {k \in 1..Len(OE) : OnSegI(PA(OP, OE, k), a, b) /\ OnSegI(PB(OP, OE, k), a, b)}
      lo(k) == Min2(Param(PA(OP, OE, k), a, b), Param(PB(OP, OE, k), a, b))
      hi(k) == Max2(Param(PA(OP, OE, k), a, b), Param(PB(OP, OE, k), a, b))
      brk == {0} \cup {hi(k) : k \in on}
  IN \A t \in brk : t < uu => \E k \in on : lo(k) <= t /\ t < hi(k)
Covers(IP, IS, OP, OE) == \A m \in 1..Len(IS) : CoversSeg(PA(IP, IS, m), PB(IP, IS, m), OP, OE)

NoDuplicates(OP, OE) ==
  /\ \A i, j \in 1..Len(OE) : i < j => {PA(OP, OE, i), PB(OP, OE, i)} # {PA(OP, OE, j), PB(OP, OE, j)}
  /\ \A i, j \in 1..Len(OP) : i < j => OP[i] # OP[j]

ValidSplit(IP, IS, OP, OE, M) ==
  /\ Structure(IP, IS, OP, OE, M)
  /\ NonCrossing(OP, OE) /\ InsideParent(IP, IS, OP, OE, M) /\ Tags(IS, OE, M)
  /\ Covers(IP, IS, OP, OE) /\ NoDuplicates(OP, OE)

\* kinds of contact present in an input set (coverage classes; also used by the laws)
Contacts(IP, IS) == {Touch(PA(IP, IS, i), PB(IP, IS, i), PA(IP, IS, j), PB(IP, IS, j)) :
                       <<i, j>> \in {q \in (1..Len(IS)) \X (1..Len(IS)) : q[1] < q[2]}} \ {"none"}
=============================================================================
