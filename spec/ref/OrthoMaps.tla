------------------------------ MODULE OrthoMaps ------------------------------
(***************************************************************************)
(* C32  Coordinate maps and tangential-normal bases are orthonormal.       *)
(*                                                                         *)
(* Pure operators (no variables) used by OrthoMapsEnum.tla (enumeration +  *)
(* model laws) and J_OrthoMaps.tla (judgement of what the real code        *)
(* returned).  Real code:                                                  *)
(*   porepy.geometry.map_geometry: project_plane_matrix,                   *)
(*     project_line_matrix, rotation_matrix, compute_normal                *)
(*   porepy.utils.tangential_normal_projection.TangentialNormalProjection  *)
(*                                                                         *)
(* A real-valued output (matrix or vector) reaches TLC in TWO encodings,   *)
(* produced by the harness by number conversion only:                      *)
(*   exact : q > 0 and an integer array n, meaning n / q  - present when   *)
(*           every entry is within 1e-9 of a rational and the common       *)
(*           denominator is q <= 1200 (q = 0, n = <<>> otherwise).         *)
(*   fx    : every entry x as three signed base-2^13 limbs <<A, B, C>>,    *)
(*           round(x * 2^39) = A * 2^26 + B * 2^13 + C  (all limbs carry   *)
(*           the sign of x; |x| > 4 or non-finite is sent as A = 2^15).    *)
(* Every clause has an exact form (integer algebra: q > 0) and a fixed     *)
(* point form (limb arithmetic that stays inside TLC's 32 bit integers).   *)
(* The fixed point form yields a VERDICT following DESIGN section 8:       *)
(*   0 = pass   |deviation| <= 1e-9 * scale                                *)
(*   1 = band   between (counted as inconclusive, never alarms)            *)
(*   2 = viol   |deviation| > 1e-6 * scale                                 *)
(* with the conversion / truncation uncertainty (<= 16 units of 2^-39 per  *)
(* unit of scale) taken off the pass bound and added to the viol bound.    *)
(*                                                                         *)
(* Why an exact family exists (checked as model law LawRefRotation in      *)
(* OrthoMapsEnum): for a rational unit vector (a, b, c) / m, a^2 + b^2 +   *)
(* c^2 = m^2, c # -m, Rodrigues' rotation about (a,b,c) x e3 by the angle  *)
(* between them is the RATIONAL matrix RefRot / (m (m + c)).               *)
(***************************************************************************)
EXTENDS Integers, Sequences, FiniteSets, TLC

Abs(x) == IF x < 0 THEN -x ELSE x
Max2(a, b) == IF a >= b THEN a ELSE b
D(i, j) == IF i = j THEN 1 ELSE 0
RECURSIVE SumF(_, _)
SumF(f(_), n) == IF n = 0 THEN 0 ELSE f(n) + SumF(f, n - 1)
RECURSIVE MaxF(_, _)
MaxF(f(_), n) == IF n = 0 THEN 0 ELSE Max2(f(n), MaxF(f, n - 1))      \* max of non-negative values
RECURSIVE ISqrtUp(_, _)
ISqrtUp(x, r) == IF r * r >= x THEN r ELSE ISqrtUp(x, r + 1)
\* integer square root of a perfect square, 0 if x is not one
LenOfSq(x) == LET r == ISqrtUp(x, 0) IN IF r * r = x THEN r ELSE 0
Dot(u, v) == SumF(LAMBDA k : u[k] * v[k], Len(u))
Norm2(u) == Dot(u, u)
LenOf(u) == LenOfSq(Norm2(u))
MaxAbs(u) == MaxF(LAMBDA k : Abs(u[k]), Len(u))
Cross(u, v) == <<u[2] * v[3] - u[3] * v[2], u[3] * v[1] - u[1] * v[3], u[1] * v[2] - u[2] * v[1]>>
VSub(u, v) == [k \in 1..Len(u) |-> u[k] - v[k]]
VAdd(u, v) == [k \in 1..Len(u) |-> u[k] + v[k]]
VScale(s, u) == [k \in 1..Len(u) |-> s * u[k]]
Axis(r, d) == [k \in 1..d |-> D(k, r)]
\* n is a negative multiple of the r-th axis: the rotation axis n x e_r is undetermined
AntiParallel(n, r) == n[r] < 0 /\ \A k \in 1..Len(n) : k # r => n[k] = 0

\* ------------------------------------------------------------------ integer matrices (exact form)
Row(M, i) == M[i]
Col(M, j) == [i \in 1..Len(M) |-> M[i][j]]
\* Gram matrix of the rows (cols = FALSE: N N^T = q^2 I) or of the columns (cols = TRUE: N^T N = q^2 I, i.e.
\* |N x|^2 = q^2 |x|^2 for every x: distances are preserved)
IsGramInt(N, q, d, cols) == \A i \in 1..d, j \in 1..d :
   (IF cols THEN Dot(Col(N, i), Col(N, j)) ELSE Dot(Row(N, i), Row(N, j))) = D(i, j) * q * q
IsOrthoInt(N, q, d) == IsGramInt(N, q, d, FALSE) /\ IsGramInt(N, q, d, TRUE)
Det2(N) == N[1][1] * N[2][2] - N[1][2] * N[2][1]
\* for an orthogonal N / q (d = 3):  det = +1  <=>  third row = first x second  (no cubic products needed)
IsProperInt(N, q, d) == IF d = 3 THEN Cross(N[1], N[2]) = VScale(q, N[3]) ELSE Det2(N) = q * q
IsReflectInt(N, q, d) == IF d = 3 THEN Cross(N[1], N[2]) = VScale(-q, N[3]) ELSE Det2(N) = -(q * q)

\* the rational reference rotation for the unit vector (a, b, c) / m (c # -m), denominator m (m + c):
\*   I + sin(t) W + (1 - cos t) W^2,  W = cross-product matrix of (b, -a, 0) / k,  k^2 = a^2 + b^2 = (m-c)(m+c)
RefRotDen(n, m) == m * (m + n[3])
RefRot(n, m) ==
  LET a == n[1]  b == n[2]  c == n[3]  q == m * (m + c)  s == m + c
  IN <<<<q - a * a, -(a * b), -(s * a)>>,
       <<-(a * b), q - b * b, -(s * b)>>,
       <<s * a, s * b, q - (a * a + b * b)>>>>

\* ------------------------------------------------------------------ fixed point form (limbs)
LB == 8192                       \* 2^13
HUGE == 1073741823
FxOk(x) == Abs(x[1]) <= LB + 16 /\ Abs(x[2]) < LB /\ Abs(x[3]) < LB      \* |x| <= 1.002: any entry of an orthogonal matrix
FxVecOk(u) == \A k \in 1..Len(u) : FxOk(u[k])
\* (u . v - delta) in units of 2^-39 for vectors of <= 3 bounded entries; HUGE: certainly beyond 2e-4
FxDot(u, v, delta) ==
  LET S4 == SumF(LAMBDA k : u[k][1] * v[k][1], Len(u))
      S3 == SumF(LAMBDA k : u[k][1] * v[k][2] + u[k][2] * v[k][1], Len(u))
      S2 == SumF(LAMBDA k : u[k][1] * v[k][3] + u[k][2] * v[k][2] + u[k][3] * v[k][1], Len(u))
      E4 == S4 - delta * LB * LB
  IN IF Abs(E4) > 65536 THEN HUGE ELSE E4 * LB + S3 + (S2 \div LB)
\* (w . u) in units of 2^-39 for an integer vector w (|w_k| <= 500); HUGE: certainly beyond 1.9e-3
FxIntDot(w, u) ==
  LET SA == SumF(LAMBDA k : w[k] * u[k][1], Len(u))
      SB == SumF(LAMBDA k : w[k] * u[k][2], Len(u))
      SC == SumF(LAMBDA k : w[k] * u[k][3], Len(u))
  IN IF Abs(SA) >= 131072 THEN HUGE
     ELSE LET M == SA * LB + SB IN IF Abs(M) >= 131072 THEN HUGE ELSE M * LB + SC
\* leading limbs only: (w . u) in units of 2^-13, error < sum |w_k|
FxIntDotCoarse(w, u) == SumF(LAMBDA k : w[k] * u[k][1], Len(u))
\* x - y in units of 2^-39
FxDiff(x, y) == IF Abs(x[1] - y[1]) > 2 THEN HUGE ELSE (x[1] - y[1]) * LB * LB + (x[2] - y[2]) * LB + (x[3] - y[3])
\* 1e-9 * 2^39 = 549.76, 1e-6 * 2^39 = 549755.8; uncertainty 16 units per unit of scale; scale <= 1000
Verdict(dev, scale) == IF Abs(dev) <= 533 * scale THEN 0 ELSE IF Abs(dev) > 549772 * scale THEN 2 ELSE 1
Worst(S) == IF 2 \in S THEN 2 ELSE IF 1 \in S THEN 1 ELSE 0
ScaleOf(w) == Max2(1, 2 * MaxAbs(w))        \* >= |w| for a 3-vector
\* sign of the determinant of a 3x3 limb matrix from 9-bit leading digits (error < 0.04 for bounded entries)
FxDetCoarse(F) ==
  LET c(i, j) == F[i][j][1] \div 16
  IN c(1, 1) * (c(2, 2) * c(3, 3) - c(2, 3) * c(3, 2))
     - c(1, 2) * (c(2, 1) * c(3, 3) - c(2, 3) * c(3, 1))
     + c(1, 3) * (c(2, 1) * c(3, 2) - c(2, 2) * c(3, 1))
FxDet2Coarse(F) == LET c(i, j) == F[i][j][1] \div 16 IN c(1, 1) * c(2, 2) - c(1, 2) * c(2, 1)
FxRow(F, i) == F[i]
FxCol(F, j) == [i \in 1..Len(F) |-> F[i][j]]
FxGramV(F, d, cols) ==
  IF ~(\A i \in 1..d : FxVecOk(F[i])) THEN 2
  ELSE Worst({Verdict(FxDot(IF cols THEN FxCol(F, p[1]) ELSE FxRow(F, p[1]),
                            IF cols THEN FxCol(F, p[2]) ELSE FxRow(F, p[2]), D(p[1], p[2])), 1) : p \in (1..d) \X (1..d)})

\* ------------------------------------------------------------------ clauses on an encoded value
\* M = [q, n, fx]: a d x d matrix;  verdict 0 / 1 / 2
GramV(M, d, cols) == IF M.q > 0 THEN (IF IsGramInt(M.n, M.q, d, cols) THEN 0 ELSE 2) ELSE FxGramV(M.fx, d, cols)
OrthoV(M, d) == Worst({GramV(M, d, FALSE), GramV(M, d, TRUE)})
\* orthogonal with determinant +1
ProperV(M, d) ==
  LET o == OrthoV(M, d) IN
  IF o = 2 THEN 2
  ELSE IF M.q > 0 THEN (IF IsProperInt(M.n, M.q, d) THEN 0 ELSE 2)
  ELSE IF (IF d = 3 THEN FxDetCoarse(M.fx) > 67108864 ELSE FxDet2Coarse(M.fx) > 131072) THEN o ELSE 2
\* determinant +1 of a matrix already known to be orthogonal
ProperGivenV(M, d) ==
  IF M.q > 0 THEN (IF IsProperInt(M.n, M.q, d) THEN 0 ELSE 2)
  ELSE IF ~(\A i \in 1..d : FxVecOk(M.fx[i])) THEN 2
  ELSE IF (IF d = 3 THEN FxDetCoarse(M.fx) > 67108864 ELSE FxDet2Coarse(M.fx) > 131072) THEN 0 ELSE 2
\* (M w)_i vanishes for every i in Zero; for i = r it is positive (any sign if anysign) and, in exact form when
\* |w| is an integer, equal to |w|: "w is mapped to the r-th axis, its component there is its length"
MapsToAxisV(M, d, w, r, anysign) ==
  IF M.q > 0
  THEN LET t == Dot(Row(M.n, r), w) IN
       IF /\ \A i \in 1..d : i # r => Dot(Row(M.n, i), w) = 0
          /\ (IF anysign THEN t # 0 ELSE t > 0)
          /\ LenOf(w) > 0 => Abs(t) = M.q * LenOf(w)
       THEN 0 ELSE 2
  ELSE IF ~(\A i \in 1..d : FxVecOk(M.fx[i])) THEN 2
  ELSE LET s == ScaleOf(w)
           t == FxIntDotCoarse(w, M.fx[r])
       IN Worst({Verdict(FxIntDot(w, M.fx[i]), s) : i \in (1..d) \ {r}}
                \cup {IF (IF anysign THEN Abs(t) > 2 * s ELSE t > 2 * s) THEN 0 ELSE 2})
\* the r-th component of M w vanishes (zero = TRUE) resp. all the others vanish (zero = FALSE)
ComponentsVanishV(M, d, w, r, zero) ==
  LET I == IF zero THEN {r} ELSE (1..d) \ {r} IN
  IF M.q > 0 THEN (IF \A i \in I : Dot(Row(M.n, i), w) = 0 THEN 0 ELSE 2)
  ELSE IF ~(\A i \in 1..d : FxVecOk(M.fx[i])) THEN 2
  ELSE Worst({Verdict(FxIntDot(w, M.fx[i]), ScaleOf(w)) : i \in I})
\* V = [q, n, fx]: a vector
UnitV(V) == IF V.q > 0 THEN (IF Norm2(V.n) = V.q * V.q THEN 0 ELSE 2)
            ELSE IF ~FxVecOk(V.fx) THEN 2 ELSE Verdict(FxDot(V.fx, V.fx, 1), 1)
PerpV(V, w) == IF V.q > 0 THEN (IF Dot(V.n, w) = 0 THEN 0 ELSE 2)
               ELSE IF ~FxVecOk(V.fx) THEN 2 ELSE Verdict(FxIntDot(w, V.fx), ScaleOf(w))
\* two encoded real numbers agree (always judged on the limbs)
CloseV(x, y) == Verdict(FxDiff(x, y), 1)
FxIsZero(x) == CloseV(x, <<0, 0, 0>>)

\* ------------------------------------------------------------------ nearly axis-aligned ("tilted") directions
\* A big vector  w = [s, cv, facs]  stands for  s + Big * cv  with small integer vectors s, cv (|s_k| <= 30, |cv_k| <= 5)
\* and Big = the product of facs (each factor <= 1000): e.g. the direction (1, 0, 10^7) = (1,0,0) + 10^7 (0,0,1).
\* Products with Big do not fit into 32 bits, so (w . u) / Big = (s . u) / Big + cv . u is evaluated on the limbs: the
\* limbs of s . u are divided by the factors one after the other (schoolbook division, floor; error < 1 unit per factor).
RECURSIVE Prod(_)
Prod(f) == IF f = <<>> THEN 1 ELSE Head(f) * Prod(Tail(f))
BigInts(w) == [k \in 1..Len(w.s) |-> w.s[k] + w.cv[k] * Prod(w.facs)]
IsSmall(w) == \A k \in 1..Len(w.cv) : w.cv[k] = 0
FxLimbDot(s, u) == <<SumF(LAMBDA k : s[k] * u[k][1], Len(u)), SumF(LAMBDA k : s[k] * u[k][2], Len(u)),
                     SumF(LAMBDA k : s[k] * u[k][3], Len(u))>>
DivLimbs(L, d) == LET t2 == (L[1] % d) * LB + L[2]
                      t3 == (t2 % d) * LB + L[3]
                  IN <<L[1] \div d, t2 \div d, t3 \div d>>
RECURSIVE DivAll(_, _)
DivAll(L, facs) == IF facs = <<>> THEN L ELSE DivAll(DivLimbs(L, Head(facs)), Tail(facs))
\* value of (not necessarily normalised) limbs in units of 2^-39; HUGE: certainly beyond 1.9e-3
FxCombine(L) == IF Abs(L[1]) >= 131072 THEN HUGE
                ELSE LET M == L[1] * LB + L[2] IN IF Abs(M) >= 131072 THEN HUGE ELSE M * LB + L[3]
\* (w . u) / Big in units of 2^-39 (cv = 0: w = s is a small vector, plain w . u)
FxBigDotRel(w, u) ==
  IF IsSmall(w) THEN FxIntDot(w.s, u)
  ELSE LET q == DivAll(FxLimbDot(w.s, u), w.facs)
           x == FxLimbDot(w.cv, u)
       IN FxCombine(<<q[1] + x[1], q[2] + x[2], q[3] + x[3]>>)
BigScale(w) == IF IsSmall(w) THEN ScaleOf(w.s) ELSE ScaleOf(w.cv)          \* >= |w| / Big
BigPerpV(w, u) == IF ~FxVecOk(u) THEN 2 ELSE Verdict(FxBigDotRel(w, u), BigScale(w))
\* leading limbs of (w . u) / Big, units of 2^-13 (the s part is below one unit)
BigDotCoarse(w, u) == SumF(LAMBDA k : w.cv[k] * u[k][1], Len(u))

\* diagonal block b (1-based) of a (d*k) x (d*k) encoded matrix
SubSq(A, b, d) == [i \in 1..d |-> [j \in 1..d |-> A[(b - 1) * d + i][(b - 1) * d + j]]]
Block(M, b, d) == [q |-> M.q, n |-> IF M.q > 0 THEN SubSq(M.n, b, d) ELSE <<>>, fx |-> SubSq(M.fx, b, d)]

\* ------------------------------------------------------------------ planar / collinear lattice point sets
\* two integer vectors spanning the plane orthogonal to n
PlaneU(n) == IF n[1] = 0 /\ n[2] = 0 THEN <<1, 0, 0>> ELSE <<n[2], -n[1], 0>>
RECURSIVE GCD(_, _)
GCD(a, b) == IF b = 0 THEN Abs(a) ELSE GCD(b, a % b)
Primitive(v) == LET g == GCD(GCD(Abs(v[1]), Abs(v[2])), Abs(v[3])) IN [k \in 1..3 |-> v[k] \div g]
PlaneV(n) == Primitive(Cross(n, PlaneU(n)))
PlanePoint(n, off, c) == VAdd(off, VAdd(VScale(c[1], PlaneU(n)), VScale(c[2], PlaneV(n))))
PlanePts(n, off, cs) == [i \in 1..Len(cs) |-> PlanePoint(n, off, cs[i])]
LinePts(t, off, ks) == [i \in 1..Len(ks) |-> VAdd(off, VScale(ks[i], t))]
Diffs(P) == [i \in 1..(Len(P) - 1) |-> VSub(P[i + 1], P[1])]
NotCollinear2(cs) == \E i, j, k \in 1..Len(cs) :
   (cs[j][1] - cs[i][1]) * (cs[k][2] - cs[i][2]) - (cs[j][2] - cs[i][2]) * (cs[k][1] - cs[i][1]) # 0
Rotate(s, k) == [i \in 1..Len(s) |-> s[((i - 1 + k) % Len(s)) + 1]]
=============================================================================
