------------------------------ MODULE Distance ------------------------------
(***************************************************************************)
(* C30  Distance computations are exact - the exact reference.             *)
(*                                                                         *)
(* All inputs are integer (lattice) points of dimension 2 or 3, segments   *)
(* have distinct end points, polygons are simple planar lattice polygons   *)
(* in 3D (convex or not).  Squared distances are exact rationals <<n, d>>  *)
(* normalised by Rat!RNorm, so two of them are equal iff the tuples are    *)
(* equal (no cross multiplication is needed for comparisons with values    *)
(* recorded from the code).                                                *)
(*   PtPtD2      |p - q|^2                                                 *)
(*   PtSegD2     clamped projection                                        *)
(*   SegSegD2    minimum over the finite candidate set: the four           *)
(*               end-point / segment distances and, when the lines are not *)
(*               parallel and the critical point of the two lines lies     *)
(*               strictly inside both segments, Gram(d1,d2,w)/Gram(d1,d2)  *)
(*   PtPolyD2    plane distance if the projection falls into the polygon   *)
(*               (crossing number on the projected, scaled coordinates),   *)
(*               else the minimum over the edges                           *)
(*   SegPolyD2   0 if the segment pierces the polygon, else the minimum of *)
(*               the end-point / polygon and segment / edge distances      *)
(* Closest points returned by the code are rational: the harness passes    *)
(* them as an integer vector p over a common denominator m (point = p/m).  *)
(*   OnSegS / InPolyS             membership of p/m in a segment / polygon *)
(*   PtSegD2S / AtDistFromPoly    distance of p/m to a segment / polygon   *)
(* Because the reference distance is the minimum over the whole objects, a *)
(* returned point x of one object is "at that distance" iff SOME point of  *)
(* the other object is at exactly the reference distance from x.           *)
(***************************************************************************)
EXTENDS Predicates, Rat

VSub(a, b) == [i \in 1..Len(a) |-> a[i] - b[i]]
VScale(k, a) == [i \in 1..Len(a) |-> k * a[i]]
VDot(a, b) == IF Len(a) = 2 THEN a[1] * b[1] + a[2] * b[2] ELSE a[1] * b[1] + a[2] * b[2] + a[3] * b[3]
VZero(a) == \A i \in 1..Len(a) : a[i] = 0
RMinSet(S) == CHOOSE x \in S : \A y \in S : RLe(x, y)

PtPtD2(p, q) == <<VDot(VSub(p, q), VSub(p, q)), 1>>

\* point p/m against the segment a b (m = 1: a lattice point)
PtSegD2S(p, m, a, b) ==
  LET d == VSub(b, a)  w == VSub(p, VScale(m, a))  L == VDot(d, d)  t == VDot(w, d)
  IN IF t <= 0 THEN RNorm(VDot(w, w), m * m)
     ELSE IF t >= m * L THEN RNorm(VDot(VSub(p, VScale(m, b)), VSub(p, VScale(m, b))), m * m)
     ELSE RNorm(VDot(w, w) * L - t * t, L * m * m)
PtSegD2(p, a, b) == PtSegD2S(p, 1, a, b)
\* p/m lies on the closed segment a b
Parallel(u, v) == IF Len(u) = 2 THEN u[1] * v[2] - u[2] * v[1] = 0 ELSE Zero3(Cross3(u, v))
OnSegS(p, m, a, b) ==
  LET d == VSub(b, a)  w == VSub(p, VScale(m, a))
  IN Parallel(w, d) /\ VDot(w, d) >= 0 /\ VDot(w, d) <= m * VDot(d, d)

SegSegD2(a, b, c, d) ==
  LET d1 == VSub(b, a)  d2 == VSub(d, c)  w == VSub(a, c)
      A == VDot(d1, d1)  B == VDot(d1, d2)  CC == VDot(d2, d2)
      dd == VDot(d1, w)  e == VDot(d2, w)  F == VDot(w, w)
      D == A * CC - B * B
      sN == B * e - CC * dd
      tN == A * e - B * dd
      G == A * (CC * F - e * e) - B * (B * F - e * dd) + dd * (B * e - CC * dd)
      ends == RMinSet({PtSegD2(a, c, d), PtSegD2(b, c, d), PtSegD2(c, a, b), PtSegD2(d, a, b)})
  IN IF D > 0 /\ 0 < sN /\ sN < D /\ 0 < tN /\ tN < D THEN RMin(ends, RNorm(G, D)) ELSE ends

\* ---- planar polygons in 3D ----
RECURSIVE NewellSum(_, _)
NewellSum(poly, i) ==
  IF i > Len(poly) THEN <<0, 0, 0>>
  ELSE LET c == Cross3(Sub3(poly[i], poly[1]), Sub3(poly[NextI(i, Len(poly))], poly[1]))
           r == NewellSum(poly, i + 1)
       IN <<c[1] + r[1], c[2] + r[2], c[3] + r[3]>>
PrimN(poly) == LET n == NewellSum(poly, 1)
                   g == GCD(GCD(Abs(n[1]), Abs(n[2])), Abs(n[3]))
               IN <<n[1] \div g, n[2] \div g, n[3] \div g>>           \* primitive normal (area vector / gcd)
PlanarPoly(poly) == ~Zero3(NewellSum(poly, 1)) /\ \A i \in 1..Len(poly) : Dot3(PrimN(poly), Sub3(poly[i], poly[1])) = 0
DropAxis(n) == IF n[3] # 0 THEN 3 ELSE IF n[2] # 0 THEN 2 ELSE 1
Drop(v, k) == IF k = 3 THEN <<v[1], v[2]>> ELSE IF k = 2 THEN <<v[1], v[3]>> ELSE <<v[2], v[3]>>
Poly2(poly, s) == [i \in 1..Len(poly) |-> Drop(VScale(s, poly[i]), DropAxis(PrimN(poly)))]
\* X (integer) is a point of the plane of s * poly: is it in the closed polygon s * poly ?
InClosedPoly(poly, X, s) ==
  LET P2 == Poly2(poly, s)  x2 == Drop(X, DropAxis(PrimN(poly)))
  IN OnBoundary2(P2, x2) \/ InPolygon(P2, x2)
\* signed height of p/m over the plane, times m |n| ;  p/m in the closed polygon ;  projection in the closed polygon
Height(poly, p, m) == Dot3(PrimN(poly), Sub3(p, VScale(m, poly[1])))
InPolyS(poly, p, m) == Height(poly, p, m) = 0 /\ InClosedPoly(poly, p, m)
ProjInside(poly, p, m) ==
  LET n == PrimN(poly)  N2 == Dot3(n, n)  h == Height(poly, p, m)
  IN InClosedPoly(poly, Sub3(VScale(N2, p), VScale(h, n)), m * N2)
PlaneD2S(poly, p, m) == LET n == PrimN(poly) IN RNorm(Height(poly, p, m) * Height(poly, p, m), Dot3(n, n) * m * m)
EdgeD2Set(poly, p) == {PtSegD2(p, EdgeA(poly, i), EdgeB(poly, i)) : i \in Edges(poly)}
PtPolyD2(poly, p) ==
  IF ProjInside(poly, p, 1) THEN RMin(PlaneD2S(poly, p, 1), RMinSet(EdgeD2Set(poly, p))) ELSE RMinSet(EdgeD2Set(poly, p))
\* some point of the polygon is at squared distance ref from p/m
AtDistFromPoly(poly, p, m, ref) ==
  \/ ProjInside(poly, p, m) /\ PlaneD2S(poly, p, m) = ref
  \/ \E i \in Edges(poly) : PtSegD2S(p, m, EdgeA(poly, i), EdgeB(poly, i)) = ref

\* the segment s e pierces the polygon: end points strictly on different sides, crossing point in the closed polygon
Pierces(poly, s, e) ==
  LET hs == Height(poly, s, 1)  he == Height(poly, e, 1)  q == hs - he
  IN hs * he < 0 /\ InClosedPoly(poly, VSub(VScale(q, s), VScale(-hs, VSub(e, s))), q)
SegPolyD2(poly, s, e) ==
  IF Pierces(poly, s, e) THEN RZero
  ELSE RMinSet({PtPolyD2(poly, s), PtPolyD2(poly, e)}
               \cup {SegSegD2(s, e, EdgeA(poly, i), EdgeB(poly, i)) : i \in Edges(poly)})
\* classes used to name the known weak spot of segments_polygon (segment in the plane of the polygon)
SegInPlane(poly, s, e) == Height(poly, s, 1) = 0 /\ Height(poly, e, 1) = 0
StrictlyIn(poly, x) == Height(poly, x, 1) = 0 /\ ~OnBoundary2(Poly2(poly, 1), Drop(x, DropAxis(PrimN(poly))))
                          /\ InPolygon(Poly2(poly, 1), Drop(x, DropAxis(PrimN(poly))))
=============================================================================
