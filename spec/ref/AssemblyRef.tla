----------------------------- MODULE AssemblyRef -----------------------------
(***************************************************************************)
(* Reference layer of C06 / C07: which rows and columns of the fully       *)
(* assembled system a (restricted) assembly must return.                   *)
(*                                                                         *)
(* Equations come from a constant catalogue EqCat: eq id e has             *)
(*   EqCat[e] = [grids |-> sequence of grid indices (md-grid order),       *)
(*               per   |-> [cells, faces, nodes] rows per grid entity]     *)
(* A row of the full system is identified by a label <<e, g, k>> (k-th row *)
(* of equation e on grid g); a column by <<vid, j>> (j-th local dof of     *)
(* variable vid).  The registry is the sequence of equation ids in the     *)
(* order they were set (remove deletes, update = remove + set at the end). *)
(***************************************************************************)
EXTENDS DofLayoutRef

CONSTANTS EqCat

SeqToSet(s) == {s[k] : k \in 1..Len(s)}

\* ---- registry after a history of operations <<"set"|"remove"|"update", e>>
RECURSIVE RegistryAfter(_, _)
RegistryAfter(reg, hist) ==
  IF hist = <<>> THEN reg
  ELSE LET op == Head(hist)[1]
           e  == Head(hist)[2]
           without == SelectSeq(reg, LAMBDA x : x # e)
           reg2 == CASE op = "set"    -> IF e \in SeqToSet(reg) THEN reg ELSE Append(reg, e)   \* duplicate name rejected
                     [] op = "remove" -> without
                     [] op = "update" -> IF e \in SeqToSet(reg) THEN Append(without, e) ELSE reg
       IN RegistryAfter(reg2, Tail(hist))

\* ---- rows of equation e (optionally restricted to the grid set G), in md-grid order
RowsOn(e, g) == [k \in 1..NumDofs(g, EqCat[e].per) |-> <<e, g, k - 1>>]
RECURSIVE RowsFrom(_, _, _)
RowsFrom(e, gs, G) ==
  IF gs = <<>> THEN <<>>
  ELSE (IF Head(gs) \in G THEN RowsOn(e, Head(gs)) ELSE <<>>) \o RowsFrom(e, Tail(gs), G)
EqRows(e) == RowsFrom(e, EqCat[e].grids, SeqToSet(EqCat[e].grids))
EqRowsRestricted(e, G) == RowsFrom(e, EqCat[e].grids, G)

\* ---- a selection is a sequence of <<e, restricted?, grid sequence>> in the order the caller wrote it;
\*      the assembled row blocks follow the REGISTRY order, not the caller's order
SelIds(sel) == {sel[k][1] : k \in 1..Len(sel)}
SelEntry(sel, e) == sel[CHOOSE k \in 1..Len(sel) : sel[k][1] = e /\ \A k2 \in (k + 1)..Len(sel) : sel[k2][1] # e]
BlockRows(sel, e) == LET x == SelEntry(sel, e) IN
                       IF x[2] THEN EqRowsRestricted(e, SeqToSet(x[3])) ELSE EqRows(e)
RECURSIVE RowsInOrder(_, _)
RowsInOrder(reg, sel) ==
  IF reg = <<>> THEN <<>>
  ELSE (IF Head(reg) \in SelIds(sel) THEN BlockRows(sel, Head(reg)) ELSE <<>>) \o RowsInOrder(Tail(reg), sel)
\* per equation (registry order): the index range it occupies in the assembled system
RECURSIVE IndicesInOrder(_, _, _)
IndicesInOrder(reg, sel, start) ==
  IF reg = <<>> THEN <<>>
  ELSE IF Head(reg) \in SelIds(sel)
       THEN LET n == Len(BlockRows(sel, Head(reg)))
            IN <<[e |-> Head(reg), idx |-> Range(start, start + n)]>> \o IndicesInOrder(Tail(reg), sel, start + n)
       ELSE IndicesInOrder(Tail(reg), sel, start)
FullSel(reg) == [k \in 1..Len(reg) |-> <<reg[k], FALSE, <<>> >>]

\* ---- columns: global dof index -> <<vid, local j>>
ColLabel(vreg, i) == LET v == RefOwner(vreg, i) IN <<v, i - RefRange(vreg, v).lo>>
ColsOf(vreg, S) == LET idx == RefSelect(vreg, S) IN [k \in 1..Len(idx) |-> ColLabel(vreg, idx[k])]
==============================================================================
