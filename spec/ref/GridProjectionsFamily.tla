------------------------- MODULE GridProjectionsFamily -------------------------
(***************************************************************************)
(* C27: enumeration of the input family of the projection operators and    *)
(* the laws of the reference model (spec/ref/GridProjections.tla).         *)
(*                                                                         *)
(* For every md-grid description MDGs[m], every nd of NDs[m], every kind:   *)
(*   "sub"    list = ordered sublist of the grids, second = ordered        *)
(*            sublist of POSITIONS of list (the grids projected from / to) *)
(*   "mortar" list = ordered sublist of the grids, second = ordered        *)
(*            sublist of the interfaces, order = which variant of each     *)
(*            projection pair is requested first from the one              *)
(*            MortarProjections object ("int_first" / "avg_first": the     *)
(*            object caches its matrices; what it returns must not depend  *)
(*            on the order of the requests)                                *)
(*   "bnd"    list = ordered sublist of the grids                          *)
(* with Len(list) + Len(second) <= MaxTotal[m]; for kind "sub" the whole list *)
(* in list order and in reverse order is offered whatever the bound.       *)
(* Emit prints every input; the Law* invariants must hold (design level).  *)
(***************************************************************************)
EXTENDS GridProjections, TLC, Json

CONSTANTS MDGs,        \* sequence of md-grid descriptions
          NDs,         \* per md-grid: set of nd values
          MaxTotal,    \* per md-grid: bound on Len(list) + Len(second)
          Kinds        \* subset of {"sub", "mortar", "bnd"}

(* ----- enumeration of the family ---------------------------------------------------------------- *)
VARIABLES kind, m, nd, list, second, stage, order
vars == <<kind, m, nd, list, second, stage, order>>
Orders == {"int_first", "avg_first"}
\* kind "sub":    list = ordered sublist of the grids, second = ordered sublist of positions of list
\* kind "mortar": list = ordered sublist of the grids, second = ordered sublist of the interfaces
\* kind "bnd":    list = ordered sublist of the grids
M0 == MDGs[m]
NG == Len(M0.grids)
NI == Len(M0.intfs)
Reverse(s) == [i \in DOMAIN s |-> s[Len(s) + 1 - i]]
IsPrefix(a, b) == Len(a) <= Len(b) /\ \A i \in DOMAIN a : a[i] = b[i]

Init == /\ kind \in Kinds /\ m \in DOMAIN MDGs /\ nd \in NDs[m]
        /\ list = <<>> /\ second = <<>> /\ stage = "list"
        /\ order \in (IF kind = "mortar" THEN Orders ELSE {"none"})
ExtendList == /\ stage = "list" /\ Len(list) < MaxTotal[m]
              /\ \E g \in 1..NG : g \notin Range(list) /\ list' = Append(list, g)
              /\ UNCHANGED <<kind, m, nd, second, stage, order>>
ToSecond == /\ stage = "list" /\ stage' = "second"
            /\ UNCHANGED <<kind, m, nd, list, second, order>>
\* the whole list in list order and in reverse order is always offered (permutation law), otherwise the bound
Room == Len(list) + Len(second) < MaxTotal[m]
ExtendSecond ==
  /\ stage = "second"
  /\ \/ /\ kind = "sub"
        /\ \E p \in DOMAIN list :
             /\ p \notin Range(second)
             /\ second' = Append(second, p)
             /\ Room \/ IsPrefix(second', Ident(Len(list))) \/ IsPrefix(second', Reverse(Ident(Len(list))))
     \/ /\ kind = "mortar" /\ Room
        /\ \E i \in 1..NI : i \notin Range(second) /\ second' = Append(second, i)
  /\ UNCHANGED <<kind, m, nd, list, stage, order>>
Next == ExtendList \/ ToSecond \/ ExtendSecond
Spec == Init /\ [][Next]_vars

Ready == stage = "second"
Emit == Ready => PrintT(ToJson([kind |-> kind, m |-> m, nd |-> nd, list |-> list, second |-> second,
                                order |-> order]))

Whats == {"cells", "faces"}
LawRestrictProlong ==
  (Ready /\ kind = "sub") =>
    \A w \in Whats :
      LET P == Prol(M0, list, second, nd, w)
      IN /\ UniqueContribution(Transpose(P), P)
         /\ Compose(Transpose(P), P) = Identity(P.shape[2])
LawPermutation ==
  (Ready /\ kind = "sub" /\ Len(second) = Len(list)) =>
    \A w \in Whats :
      LET P == Prol(M0, list, second, nd, w)
      IN /\ IsPermutation(P)
         /\ Compose(P, Transpose(P)) = Identity(P.shape[1])
         /\ (second = Ident(Len(list)) => P = Identity(P.shape[1]))
LawBlocks ==
  (Ready /\ kind = "sub") =>
    \A w \in Whats : \A q \in DOMAIN second :
      LET P == Prol(M0, list, second, nd, w)
          sg == SubGrids(list, second)
          cols == (nd * Off(M0, sg, q, w))..(nd * Off(M0, sg, q, w) + nd * Num(M0, sg[q], w) - 1)
          rows == (nd * Off(M0, list, second[q], w))..(nd * Off(M0, list, second[q], w) + nd * Num(M0, sg[q], w) - 1)
      IN {e[1] : e \in {x \in P.ent : x[2] \in cols}} = rows
LawBoundary ==
  (Ready /\ kind = "bnd") =>
    LET B == Boundary(M0, list, nd)
    IN /\ UniqueContribution(B, Transpose(B))
       /\ Compose(B, Transpose(B)) = Identity(B.shape[1])
       /\ \A e \in B.ent : e[1] < B.shape[1] /\ e[2] < B.shape[2]
\* a mortar projection touches only rows / columns of neighbours that are in the list and of listed interfaces
LawMortarShape ==
  (Ready /\ kind = "mortar" /\ order = "int_first") =>
    \A w \in {"m2p_int", "p2m_avg", "m2s_avg", "s2m_int"} :
      LET A == Mortar(M0, list, second, nd, w)
      IN \A e \in A.ent : e[1] < A.shape[1] /\ e[2] < A.shape[2]
=============================================================================
