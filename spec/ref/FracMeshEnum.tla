---------------------------- MODULE FracMeshEnum ----------------------------
(***************************************************************************)
(* C25 enumerator.  TLC lists every admissible lattice network (module     *)
(* FracMesh, PART 1) of 1..maxf fractures for every configuration          *)
(*   <<dim, <<nx, ny, nz>>, maxf, ordered>>  in Boxes                       *)
(* (ordered = TRUE: all ORDERED sequences of fractures - the order is the   *)
(* order in which porepy splits the host grid; FALSE: one canonical order   *)
(* per set), checks the model laws on each and emits it with the           *)
(* statistics of its expected structure.  The driver meshes every emitted   *)
(* network with the real code; J_FracMesh recomputes the expected           *)
(* structure from the network and compares.                                 *)
(***************************************************************************)
EXTENDS FracMesh, Json

CONSTANTS Boxes
VARIABLES cfg, fr
vars == <<cfg, fr>>

Pts(box) == {<<x, y, z>> : x \in 0..box[1], y \in 0..box[2], z \in 0..box[3]}
Cands(dim, box) == {f \in Pts(box) \X Pts(box) : FracOK(dim, box, f)}
Code(f) == ((((f[1][1] * 8 + f[1][2]) * 8 + f[1][3]) * 8 + f[2][1]) * 8 + f[2][2]) * 8 + f[2][3]
Net == [dim |-> cfg[1], box |-> cfg[2], fracs |-> fr]

Init == cfg \in Boxes /\ fr = <<>>
Next == /\ Len(fr) < cfg[3]
        /\ \E f \in Cands(cfg[1], cfg[2]) :
             /\ IF cfg[4] \/ fr = <<>> THEN TRUE ELSE Code(fr[Len(fr)]) < Code(f)
             /\ \A k \in 1..Len(fr) :
                  CellsIn(fr[k][1], fr[k][2], cfg[1] - 1) \cap CellsIn(f[1], f[2], cfg[1] - 1) = {}
             /\ fr' = Append(fr, f)
        /\ UNCHANGED cfg
Spec == Init /\ [][Next]_vars

Emit == fr # <<>> => PrintT(ToJson([dim |-> cfg[1], box |-> cfg[2], fracs |-> fr, ordered |-> cfg[4],
                                     stats |-> Stats(Net)]))
Laws == fr # <<>> => /\ Admissible(Net)
                     /\ LawFractureTwoSided(Net) /\ LawIntersections(Net) /\ LawLevelsDisjoint(Net)
=============================================================================
