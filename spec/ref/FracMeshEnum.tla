---------------------------- MODULE FracMeshEnum ----------------------------
(***************************************************************************)
(* C25 enumerator.  TLC lists every admissible lattice network (module     *)
(* FracMesh, PART 1) of 1..maxf fractures for every configuration          *)
(*   <<dim, <<nx, ny, nz>>, maxf, ordered, t1, t2, t3, tag>>  in Boxes      *)
(* (ordered = TRUE: all ORDERED sequences of fractures - the order is the   *)
(* order in which porepy splits the host grid; FALSE: one canonical order   *)
(* per set; t1, t2, t3: thinning of the 1st / 2nd / 3rd fracture - one in   *)
(* t of the extensions is kept, chosen by a hash salted with Salt; 1 = all: *)
(* the configuration is then enumerated exhaustively),                      *)
(* checks the model laws on each and emits it with the                      *)
(* statistics of its expected structure.  The driver meshes every emitted   *)
(* network with the real code; J_FracMesh recomputes the expected           *)
(* structure from the network and compares.                                 *)
(***************************************************************************)
EXTENDS FracMesh, Json

CONSTANTS Boxes, Salt
VARIABLES cfg, fr
vars == <<cfg, fr>>

\* all fractures of a box, built directly (flat direction i at an interior position c, proper intervals in the
\* other in-manifold directions); computed once per configuration
Ivs(n) == {iv \in (0..n) \X (0..n) : iv[1] < iv[2]}
Mk(i, c, j, ij, k, ik) == <<[m \in 1..3 |-> IF m = i THEN c ELSE IF m = j THEN ij[1] ELSE ik[1]],
                           [m \in 1..3 |-> IF m = i THEN c ELSE IF m = j THEN ij[2] ELSE ik[2]]>>
Cands(dim, box) ==
  IF dim = 2
  THEN UNION {{Mk(i, c, 3 - i, iv, 3, <<0, 0>>) : c \in 1..(box[i] - 1), iv \in Ivs(box[3 - i])} : i \in 1..2}
  ELSE UNION {LET j == IF i = 1 THEN 2 ELSE 1
                  k == IF i = 3 THEN 2 ELSE 3
              IN {Mk(i, c, j, ij, k, ik) : c \in 1..(box[i] - 1), ij \in Ivs(box[j]), ik \in Ivs(box[k])}
              : i \in 1..3}
CandsOf == [b \in Boxes |-> Cands(b[1], b[2])]
Code(f) == ((((f[1][1] * 8 + f[1][2]) * 8 + f[1][3]) * 8 + f[2][1]) * 8 + f[2][2]) * 8 + f[2][3]
Net == [dim |-> cfg[1], box |-> cfg[2], fracs |-> fr]
\* deterministic pseudo-random thinning of the extensions of fr by f
Hash(f) == (Code(f) % 9973) * 31 + (Code(f) % 127) * 7
Keep(f) == LET t == IF Len(fr) = 0 THEN cfg[5] ELSE IF Len(fr) = 1 THEN cfg[6] ELSE IF Len(fr) = 2 THEN cfg[7] ELSE 1 IN
           IF t = 1 THEN TRUE
           ELSE IF fr = <<>> THEN (Hash(f) + Salt) % t = 0
           ELSE (Hash(f) + 13 * Hash(fr[Len(fr)]) + 5 * Hash(fr[1]) + Salt) % t = 0

Init == cfg \in Boxes /\ fr = <<>>
Next == /\ Len(fr) < cfg[3]
        /\ \E f \in CandsOf[cfg] :
             /\ IF cfg[4] \/ fr = <<>> THEN TRUE ELSE Code(fr[Len(fr)]) < Code(f)
             /\ Keep(f)
             /\ \A k \in 1..Len(fr) :
                  CellsIn(fr[k][1], fr[k][2], cfg[1] - 1) \cap CellsIn(f[1], f[2], cfg[1] - 1) = {}
             /\ fr' = Append(fr, f)
        /\ UNCHANGED cfg
Spec == Init /\ [][Next]_vars

Emit == fr # <<>> => PrintT(ToJson([dim |-> cfg[1], box |-> cfg[2], fracs |-> fr, ordered |-> cfg[4], tag |-> cfg[8],
                                     stats |-> Stats(Net)]))
Laws == fr # <<>> => /\ Admissible(Net)
                     /\ \A k \in 1..Len(fr) : FracOK(cfg[1], cfg[2], fr[k])
                     /\ LawFractureTwoSided(Net) /\ LawIntersections(Net) /\ LawLevelsDisjoint(Net)
=============================================================================
