----------------------------- MODULE UpwindEnum -----------------------------
(***************************************************************************)
(* Input enumeration for C17 and model laws of the reference (Upwind).     *)
(*  src "complex": abstract complexes of GridComplexes (full boxes: 1D     *)
(*                 chains, quad / triangle patches, with reversed normals  *)
(*                 (orientation masks Masks) and split faces) -             *)
(*                 instantiated with pp.Grid                               *)
(*  src "real":    incidence records SelGrids exported from real porepy    *)
(*                 grids (Cartesian, fractured)                            *)
(*    on both: flux signs s[f] = base-3 digit ((f mod P)) of `code`        *)
(*    (P = number of faces in 1D, so ALL sign assignments on chains;       *)
(*    P = SignPeriod in 2D/3D), boundary conditions = bit (rank of the     *)
(*    boundary face mod BcPeriod) of `bcm`, components n = 1 + (code+bcm)%3*)
(*  src "tr":      transport: grids TGrids[i] = [G, orient, vol]; stream   *)
(*                 function psi with values PsiVals on the interior nodes, *)
(*                 0 on boundary nodes; flux over face (a, b) =            *)
(*                 orient * (psi[b] - psi[a]); initial values and steps    *)
(*                 dt = (1/2, 1) * CFL limit                               *)
(* Magnitude: the property speaks of faces with NONZERO flux, however      *)
(* small.  Every emitted input carries exps = ScaleExps; the harness       *)
(* realises the signs / the stream-function flux multiplied by 2^e for     *)
(* every e (2^-40 ~ 1e-12, 1, 2^30 ~ 1e9; powers of two keep doubles and   *)
(* the rational step exact).  The reference is scale free: the selection   *)
(* depends on the sign only, and the explicit step is invariant under      *)
(* (flux, dt) -> (flux * 2^e, dt / 2^e), so the spec works in units of the *)
(* scale and only carries the exponent.                                    *)
(* Laws: ImplAgrees on every (grid, s, bc, n); DivFree, NoFlow and          *)
(* TransportLaw on every transport input.                                  *)
(***************************************************************************)
EXTENDS GridComplexes, Upwind

CONSTANTS SelGrids, TGrids, Masks, SignPeriod, BcPeriod, PsiVals, MaxChainFaces,
          ScaleExps    \* flux magnitudes: every input is realised with the flux multiplied by 2^e, e \in ScaleExps

VARIABLES src, gi, code, bcm, psi,
          cur      \* the grid chosen in the first step (kept in the state so that it is built once)
uvars == <<phase, box, sel, mask, split, src, gi, code, bcm, psi, cur>>

Pow3(k) == <<1, 3, 9, 27, 81, 243, 729>>[k + 1]
CurG == cur

Period(G) == IF G.dim = 1 THEN Min({G.nf, MaxChainFaces}) ELSE Min({G.nf, SignPeriod})
SignsAt(G, cd) == [f \in 1..G.nf |-> ((cd \div Pow3((f - 1) % Period(G))) % 3) - 1]
BcPer(G) == Min({Cardinality(BoundaryFaces(G)), BcPeriod})
BcAt(G, m) ==
  LET B   == BoundaryFaces(G)                  \* computed once per grid
      per == Min({Cardinality(B), BcPeriod})
      rank(f) == Cardinality({g \in B : g < f})
  IN [f \in 1..G.nf |->
        IF (f - 1) \notin B THEN "int"
        ELSE IF (m \div Pow2(rank(f - 1) % per)) % 2 = 1 THEN "dir" ELSE "neu"]
NComp == 1 + ((code + bcm) % 3)

\* transport inputs
InteriorNodes(G) == NodeIx(G) \ UNION {FaceNodes(G, f) : f \in BoundaryFaces(G)}
ISeq(G) == SetToSortSeq(InteriorNodes(G), <)
PosIn(q, v) == CHOOSE i \in 1..Len(q) : q[i] = v
PsiOf(G, vals) == [n \in 1..G.nn |-> IF (n - 1) \in InteriorNodes(G) THEN vals[PosIn(ISeq(G), n - 1)] ELSE 0]
FluxOf(T, ps) == [f \in 1..T.G.nf |-> T.orient[f] * (ps[T.G.fn[f][2] + 1] - ps[T.G.fn[f][1] + 1])]
Inits(G, ps) ==
  LET h == (ISum([n \in 1..G.nn |-> ps[n] + 2])) % G.nc
  IN << [i \in 1..G.nc |-> IF i - 1 = h THEN 1 ELSE 0],
        [i \in 1..G.nc |-> (i * 2) % 5],
        [i \in 1..G.nc |-> IF (i % 2) = 0 THEN 3 ELSE -1] >>
Steps(T, fl) == LET lim == CFLLimit(T.G, fl, T.vol) IN <<RMul(<<1, 2>>, lim), lim>>

UInit == /\ phase = 0 /\ box = <<"none", 0, 0>> /\ sel = {} /\ mask = 0 /\ split = -1
         /\ src = "none" /\ gi = 0 /\ code = 0 /\ bcm = 0 /\ psi = <<>> /\ cur = <<>>
UNext ==
  \/ /\ phase = 0 /\ phase' = 1 /\ src' = "complex"
     /\ box' \in Boxes /\ sel' = Positions(box') /\ mask' \in Masks /\ split' \in SplitChoices
     /\ cur' = Complex(box', sel', mask', split')
     /\ UNCHANGED <<gi, code, bcm, psi>>
  \/ /\ phase = 0 /\ phase' = 1 /\ src' = "real" /\ gi' \in 1..Len(SelGrids) /\ cur' = SelGrids[gi']
     /\ UNCHANGED <<box, sel, mask, split, code, bcm, psi>>
  \/ /\ phase = 1 /\ src \in {"complex", "real"} /\ phase' = 2
     /\ code' \in 0..(Pow3(Period(CurG)) - 1) /\ bcm' \in 0..(Pow2(BcPer(CurG)) - 1)
     /\ UNCHANGED <<box, sel, mask, split, src, gi, psi, cur>>
  \/ /\ phase = 0 /\ phase' = 1 /\ src' = "tr" /\ gi' \in 1..Len(TGrids)
     /\ psi' \in [1..1 -> PsiVals] /\ cur' = TGrids[gi'].G
     /\ UNCHANGED <<box, sel, mask, split, code, bcm>>
  \/ /\ phase = 1 /\ src = "tr" /\ phase' = 2
     /\ psi' \in {psi \o r : r \in [1..(Len(ISeq(CurG)) - 1) -> PsiVals]}
     /\ UNCHANGED <<box, sel, mask, split, src, gi, code, bcm, cur>>
USpec == UInit /\ [][UNext]_uvars

ULaws == phase = 2 =>
  IF src = "tr"
  THEN LET T == TGrids[gi]
           ps == PsiOf(T.G, psi)
           fl == FluxOf(T, ps)
           dts == Steps(T, fl)
       IN /\ DivFree(T.G, fl) /\ NoFlow(T.G, fl)
          /\ \A j \in 1..2 : CFL(T.G, fl, T.vol, dts[j])
          /\ TransportLawAll(T.G, fl, T.vol, Inits(T.G, ps), dts)
  ELSE LET G == CurG
           sg == SignsAt(G, code)      \* bound once: operator arguments are re-evaluated at every use
           bc == BcAt(G, bcm)
       IN /\ UpwindFamily(G, sg, bc, NComp)
          /\ ImplAgrees(G, sg, bc, NComp)

UEmit == phase = 2 =>
  IF src = "tr"
  THEN LET T == TGrids[gi]
           ps == PsiOf(T.G, psi)
           fl == FluxOf(T, ps)
       IN PrintT(ToJson([src |-> "tr", gi |-> gi, psi |-> ps, flux |-> fl, inits |-> Inits(T.G, ps),
                         dts |-> Steps(T, fl), exps |-> SetToSortSeq(ScaleExps, <)]))
  ELSE LET G == CurG IN
       IF src = "complex"
       THEN PrintT(ToJson([src |-> "complex", g |-> G, xy |-> [n \in 1..G.nn |-> Coord(box, n - 1)],
                           tag |-> <<box, mask, split, code, bcm>>,
                           s |-> SignsAt(G, code), bc |-> BcAt(G, bcm), n |-> NComp,
                           exps |-> SetToSortSeq(ScaleExps, <)]))
       ELSE PrintT(ToJson([src |-> "real", gi |-> gi, tag |-> <<gi, code, bcm>>,
                           s |-> SignsAt(G, code), bc |-> BcAt(G, bcm), n |-> NComp,
                           exps |-> SetToSortSeq(ScaleExps, <)]))
=============================================================================
