---------------------------- MODULE GridTopology ----------------------------
(***************************************************************************)
(* Reference semantics of the connectivity queries of pp.Grid (C21),       *)
(* defined from the SIGNED CELL-FACE INCIDENCE alone.                      *)
(*                                                                         *)
(* A grid is a record G (all entity indices are 0-based as in porepy;      *)
(* TLA+ sequences are 1-based, so entity e sits at position e + 1):        *)
(*   G.dim, G.nc, G.nf, G.nn    dimension, number of cells / faces / nodes *)
(*   G.cf   sequence over faces of sequences of pairs <<cell, sign>>       *)
(*          (the nonzero entries of row f of cell_faces, sign in {-1, 1})  *)
(*   G.fn   sequence over faces of sequences of node indices               *)
(*                                                                         *)
(* Reference functions:                                                    *)
(*   DenseFaceCells     Grid.cell_faces_as_dense                           *)
(*   ConnectionMap      Grid.cell_connection_map (off-diagonal part; the   *)
(*                      property does not say whether a cell is connected  *)
(*                      to itself)                                         *)
(*   BoundaryFaces      faces with exactly one adjacent cell               *)
(*                      (Grid.update_boundary_face_tag / the face tags)    *)
(*   SignsAndCells      Grid.signs_and_cells_of_boundary_faces             *)
(*   CellNodes          Grid.cell_nodes                                    *)
(*   VectorDivergence   Grid.divergence(d) = Div (x) I_d                   *)
(* Model laws (checked by TLC on every enumerated complex, module          *)
(* GridComplexes): SymmetryLaw, KroneckerLaw, DenseLaw.                    *)
(***************************************************************************)
EXTENDS Integers, Sequences, FiniteSets

Range(s) == {s[i] : i \in 1..Len(s)}
FaceIx(G) == 0..(G.nf - 1)
CellIx(G) == 0..(G.nc - 1)
NodeIx(G) == 0..(G.nn - 1)
Inc(G, f) == G.cf[f + 1]
FaceCells(G, f) == {p[1] : p \in Range(Inc(G, f))}
FaceNodes(G, f) == Range(G.fn[f + 1])

\* the family the property quantifies over: every face has one or two adjacent cells, two cells see
\* the face with opposite signs (pp.Grid rejects anything else), indices are in range
WellFormed(G) ==
  /\ G.nc >= 1 /\ G.nf >= 0 /\ G.nn >= 0 /\ Len(G.cf) = G.nf /\ Len(G.fn) = G.nf
  /\ \A f \in FaceIx(G) :
       /\ Len(Inc(G, f)) \in {1, 2}
       /\ \A p \in Range(Inc(G, f)) : p[1] \in CellIx(G) /\ p[2] \in {-1, 1}
       /\ Len(Inc(G, f)) = 2 => /\ Inc(G, f)[1][1] # Inc(G, f)[2][1]
                                /\ Inc(G, f)[1][2] = -Inc(G, f)[2][2]
       /\ FaceNodes(G, f) \subseteq NodeIx(G)

(* ------------------------------ reference ------------------------------ *)

\* the cell that sees face f with sign s, -1 if there is none
SideCell(G, f, s) ==
  IF \E p \in Range(Inc(G, f)) : p[2] = s
  THEN (CHOOSE p \in Range(Inc(G, f)) : p[2] = s)[1]
  ELSE -1

\* 2 x nf: first row the cell with sign +1 (normal points out of it), second row the cell with sign -1
DenseFaceCells(G) == << [i \in 1..G.nf |-> SideCell(G, i - 1, 1)],
                        [i \in 1..G.nf |-> SideCell(G, i - 1, -1)] >>

\* ordered pairs of distinct cells sharing a face
ConnectionMap(G) ==
  UNION { {<<a, b>> : a \in FaceCells(G, f), b \in FaceCells(G, f)} \ {<<a, a>> : a \in FaceCells(G, f)}
          : f \in FaceIx(G) }

BoundaryFaces(G) == {f \in FaceIx(G) : Cardinality(FaceCells(G, f)) = 1}

\* for a list of boundary faces (any order): the sign with which the only neighbour sees each face, and
\* that neighbour
SignsOf(G, fl) == [k \in 1..Len(fl) |-> Inc(G, fl[k])[1][2]]
CellsOf(G, fl) == [k \in 1..Len(fl) |-> Inc(G, fl[k])[1][1]]

\* pairs <<node, cell>>: the node belongs to a face of the cell
CellNodes(G) == UNION { {<<n, c>> : n \in FaceNodes(G, f), c \in FaceCells(G, f)} : f \in FaceIx(G) }

\* scalar divergence as triples <<row = cell, column = face, value = sign>>
Div(G) == UNION { {<<p[1], f, p[2]>> : p \in Range(Inc(G, f))} : f \in FaceIx(G) }
\* vector divergence for d components, component k of entity e has index e * d + k
VectorDivergence(G, d) ==
  UNION { {<<p[1] * d + k, f * d + k, p[2]>> : p \in Range(Inc(G, f)), k \in 0..(d - 1)} : f \in FaceIx(G) }
DivShape(G, d) == <<G.nc * d, G.nf * d>>

(* -------------------------------- laws --------------------------------- *)

SymmetryLaw(G) == LET M == ConnectionMap(G) IN \A p \in M : <<p[2], p[1]>> \in M

\* Div (x) I_d, entry by entry: (r, q) is nonzero iff both indices address the same component and the
\* scalar operator is nonzero at (r div d, q div d)
KroneckerLaw(G, d) ==
  LET D == Div(G) IN
  VectorDivergence(G, d) =
    {t \in (0..(G.nc * d - 1)) \X (0..(G.nf * d - 1)) \X {-1, 1} :
        t[1] % d = t[2] % d /\ <<t[1] \div d, t[2] \div d, t[3]>> \in D}

\* the dense array carries the same information as the incidence
DenseLaw(G) ==
  LET D == DenseFaceCells(G) IN
    \A f \in FaceIx(G) :
      Range(Inc(G, f)) = (IF D[1][f + 1] >= 0 THEN {<<D[1][f + 1], 1>>} ELSE {})
                         \cup (IF D[2][f + 1] >= 0 THEN {<<D[2][f + 1], -1>>} ELSE {})
=============================================================================
