---------------------------- MODULE SegIsectEnum ----------------------------
(***************************************************************************)
(* C28 enumerator: TLC lists all canonical pairs (a < b, c < d             *)
(* lexicographically, (a,b) <= (c,d)) of non-degenerate segments with end  *)
(* points in {0..box}^dim for every <<dim, box>> in Boxes, emits each as a JSON record (with the exact     *)
(* classification, used by the driver only for coverage statistics) and    *)
(* checks the model laws of SegIsect.tla on each.  The driver calls the    *)
(* real functions with all 8 argument orders of every emitted pair, so     *)
(* every ORDERED pair of ordered segments of the box is executed.          *)
(***************************************************************************)
EXTENDS SegIsect

CONSTANTS Boxes          \* set of <<dim, box>>: all segments with end points in {0..box}^dim
VARIABLES st, bx, a, b, c, d
vars == <<st, bx, a, b, c, d>>

Pts(dim, box) == IF dim = 2 THEN {<<x, y>> : x \in 0..box, y \in 0..box}
                            ELSE {<<x, y, z>> : x \in 0..box, y \in 0..box, z \in 0..box}
RECURSIVE LexLt(_, _)
LexLt(p, q) == IF p = <<>> THEN FALSE
               ELSE IF Head(p) # Head(q) THEN Head(p) < Head(q) ELSE LexLt(Tail(p), Tail(q))
SegLe(p, q, r, s) == (p = r /\ (q = s \/ LexLt(q, s))) \/ LexLt(p, r)

Init == /\ st = 0 /\ bx \in Boxes
        /\ a \in Pts(bx[1], bx[2]) /\ b \in Pts(bx[1], bx[2]) /\ LexLt(a, b) /\ c = a /\ d = b
Next == /\ st = 0 /\ st' = 1
        /\ c' \in Pts(bx[1], bx[2]) /\ d' \in Pts(bx[1], bx[2]) /\ LexLt(c', d') /\ SegLe(a, b, c', d')
        /\ UNCHANGED <<bx, a, b>>
Spec == Init /\ [][Next]_vars

Emit == st = 1 => PrintT(ToJson([dim |-> bx[1], box |-> bx[2], a |-> a, b |-> b, c |-> c, d |-> d,
                                  kind |-> Isect(a, b, c, d).kind,
                                  par |-> Par(VSub(b, a), VSub(d, c))]))
LawKind    == st = 1 => LawKindOf(a, b, c, d)
LawOnBoth  == st = 1 => LawOnBothOf(a, b, c, d)
LawSym     == st = 1 => LawSymOf(a, b, c, d)
LawOrient2 == st = 1 => LawOrient2Of(a, b, c, d)
LawLift    == st = 1 => LawLiftOf(a, b, c, d)
LawPerm3   == st = 1 => LawPerm3Of(a, b, c, d)
LawTouch   == st = 1 => LawTouchOf(a, b, c, d)
=============================================================================
