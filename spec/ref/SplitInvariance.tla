--------------------------- MODULE SplitInvariance ---------------------------
(***************************************************************************)
(* C14 "FV discretizations do not depend on how the grid is split"         *)
(* (porepy.numerics.fv.mpfa / mpsa / biot / _fvutils, grids.partition).    *)
(* Pure operators; the enumerating state machine is SplitInvarianceEnum,   *)
(* the judge J_SplitInvariance.  Level: exploration - a metamorphic,       *)
(* black-box check: the local systems of MPFA / MPSA / Biot are NOT        *)
(* modelled.  What this module states exactly, on the signed incidence G   *)
(* of GridTopology (0-based entities):                                     *)
(*                                                                         *)
(* 1. FOOTPRINT of a partial discretisation (docstrings / comments of      *)
(*    _fvutils.cell_ind_for_partial_update, find_active_indices):          *)
(*      specified_cells S -> the faces that share at least one vertex with *)
(*                           a cell of S                     (FootCells)   *)
(*      specified_faces F -> the faces that share a vertex with a face of  *)
(*                           F                               (FootFaces)   *)
(*      specified_nodes N -> the faces ALL of whose vertices are in N      *)
(*                                                           (FootNodes)   *)
(*    Footprint = "the rows those updates target" for the matrices whose   *)
(*    rows are faces.  For the Biot matrices whose rows are cells the      *)
(*    targeted rows are CellRows(F): the cells all of whose faces are in   *)
(*    the footprint (the code notes that its own choice of cell rows is a  *)
(*    'best guess'; CellRows is the part that is determined: every         *)
(*    interaction region of such a cell is rediscretised).                 *)
(*    NeededCells(F) = the cells of all interaction regions (vertices) of  *)
(*    the footprint faces: what the documented 'sufficiently large         *)
(*    subgrid' has to contain.  Laws: LawFootprint.                        *)
(* 2. SUBPROBLEMS (_fvutils.subproblems): for a partition vector p, part   *)
(*    P discretises the faces all of whose vertices are vertices of P on   *)
(*    the subgrid of the cells that touch a vertex of P.  LawCover: every  *)
(*    face is discretised by at least one part (so the division by the     *)
(*    number of repetitions is defined), and every interaction region of   *)
(*    a discretised face is complete in the part's subgrid.                *)
(* 3. NUMBER OF SUBPROBLEMS requested through max_memory:                  *)
(*    NumParts(peak, m) = ceil(peak / m) with the peak-memory estimates    *)
(*    PeakMpfa / PeakMpsa of the code (mechanism: only used to CHOOSE      *)
(*    max_memory values that force a wanted count, MaxMemFor; LawMem).     *)
(* 4. The catalogue of discretisation matrices (MatTable: key, row entity, *)
(*    column entity, documented shapes) and of the parameter families      *)
(*    (tensor / Lame / coupling catalogues, boundary-type assignments).    *)
(* 5. The JUDGEMENT of doubles in fixed point: an entry is handed over as  *)
(*    three 13-bit limbs of round(x / s * 2^39), s = the power of two with *)
(*    max|A| <= s < 2 max|A| of the one-piece matrix A; two entries agree  *)
(*    (verdict 0) within 1e-9 s, differ (verdict 2) beyond 1e-6 s, in      *)
(*    between the comparison is inconclusive (verdict 1) - DESIGN sect. 8. *)
(***************************************************************************)
EXTENDS Partition

AbsI(x) == IF x < 0 THEN -x ELSE x

(* ------------------------------ footprints ------------------------------ *)
NodesOfCells(G, S) == NodesOfFaces(G, FacesOfCells(G, S))
FacesTouching(G, N) == {f \in FaceIx(G) : FaceNodes(G, f) \cap N # {}}
FacesWithin(G, N) == {f \in FaceIx(G) : FaceNodes(G, f) \subseteq N}
\* cells with a vertex in N
CellsTouching(G, N) == UNION {FaceCells(G, f) : f \in FacesTouching(G, N)}

FootCells(G, S) == FacesTouching(G, NodesOfCells(G, S))
FootFaces(G, F) == FacesTouching(G, NodesOfFaces(G, F))
FootNodes(G, N) == FacesWithin(G, N)

Modes == {"cells", "faces", "nodes"}
EntitiesOf(G, mode) == CASE mode = "cells" -> CellIx(G) [] mode = "faces" -> FaceIx(G) [] mode = "nodes" -> NodeIx(G)
Footprint(G, mode, X) ==
  CASE mode = "cells" -> FootCells(G, X)
    [] mode = "faces" -> FootFaces(G, X)
    [] mode = "nodes" -> FootNodes(G, X)
    [] OTHER -> FaceIx(G)                       \* no partial request: every face is targeted

CellRows(G, F) == {c \in CellIx(G) : \A f \in FaceIx(G) : c \in FaceCells(G, f) => f \in F}
NeededCells(G, F) == CellsTouching(G, NodesOfFaces(G, F))

\* the request is inside the family: a non-empty set of existing entities
RequestOK(G, mode, X) == mode \in Modes /\ X # {} /\ X \subseteq EntitiesOf(G, mode)

LawFootprint(G, mode, X) ==
  LET F == Footprint(G, mode, X) IN
    /\ F \subseteq FaceIx(G)
    \* the faces of specified cells / the specified faces themselves are targeted
    /\ mode = "cells" => FacesOfCells(G, X) \subseteq F
    /\ mode = "faces" => X \subseteq F
    \* nodes: the cells of the interaction regions of the targeted faces touch a specified node
    /\ mode = "nodes" => NeededCells(G, F) \subseteq CellsTouching(G, X)
    \* monotone in the request (checked against every one-element reduction)
    /\ \A x \in X : Footprint(G, mode, X \ {x}) \subseteq F
    \* the vertices of a cell request give the faces of those cells when handed over as nodes
    /\ mode = "cells" => FacesOfCells(G, X) \subseteq FootNodes(G, NodesOfCells(G, X))
    /\ CellRows(G, F) \subseteq CellIx(G)
    /\ mode = "cells" => X \subseteq CellRows(G, F)

(* ----------------------------- subproblems ------------------------------ *)
SubNodes(G, P) == NodesOfCells(G, P)
SubCells(G, P) == CellsTouching(G, SubNodes(G, P))
SubFaces(G, P) == FacesWithin(G, SubNodes(G, P))
Repetitions(G, p, f) == Cardinality({id \in Range(p) : f \in SubFaces(G, PartCells(p, id))})
LawCover(G, p) ==
  LET SF == [id \in Range(p) |-> SubFaces(G, PartCells(p, id))] IN
  /\ UNION {SF[id] : id \in Range(p)} = FaceIx(G)
  /\ \A id \in Range(p) :
       LET P == PartCells(p, id)
           SC == SubCells(G, P)
       IN /\ P \subseteq SC
          /\ FacesOfCells(G, P) \subseteq SF[id]
          /\ NeededCells(G, SF[id]) \subseteq SC

(* ------------------------- number of subproblems ------------------------ *)
CeilDiv(a, b) == (a + b - 1) \div b
SumOver(S, F(_)) == MapThenSumSet(F, S)
SubFaceCount(G) == SumOver(FaceIx(G), LAMBDA f : Len(G.fn[f + 1]))          \* nnz(face_nodes)
CellsAtNode(G, n) == Cardinality(CellsTouching(G, {n}))
CellNodeCount(G) == SumOver(NodeIx(G), LAMBDA n : CellsAtNode(G, n))        \* nnz(cell_nodes)
PeakMpfa(G) == LET d == G.dim  sf == SubFaceCount(G)
               IN d * CellNodeCount(G) + d * sf + 2 * d * sf + 2 * (d + 1) * sf
PeakMpsa(G) == LET d == G.dim  sf == SubFaceCount(G)
                   ig == 2 * SumOver(NodeIx(G), LAMBDA n : (d * d * CellsAtNode(G, n)) * (d * d * CellsAtNode(G, n)))
               IN ig + d * sf * d * d + 2 * d * sf * d * d + 2 * (d * d + 1) * sf * d
PeakOf(G, scheme) == IF scheme = "mpfa" THEN PeakMpfa(G) ELSE PeakMpsa(G)
NumParts(peak, maxmem) == CeilDiv(peak, maxmem)
MaxMemFor(peak, k) == CeilDiv(peak, k)
LawMem(peak, k) == k >= 1 /\ k <= peak /\ NumParts(peak, MaxMemFor(peak, k)) = k

(* ------------------------------ catalogues ------------------------------ *)
Schemes == {"mpfa", "mpsa", "biot"}
\* [key, row entity, rows per entity ("d": grid dimension, "1"), column entity, columns per entity, coupling (one
\* matrix per coupling keyword)]
MatTable(scheme) ==
  LET M(k, re, rm, ce, cm, cp) == [key |-> k, re |-> re, rm |-> rm, ce |-> ce, cm |-> cm, coupled |-> cp]
      mech == << M("stress", "face", "d", "cell", "d", FALSE), M("bound_stress", "face", "d", "face", "d", FALSE),
                 M("bound_displacement_cell", "face", "d", "cell", "d", FALSE),
                 M("bound_displacement_face", "face", "d", "face", "d", FALSE) >>
  IN CASE scheme = "mpfa" ->
            << M("flux", "face", "1", "cell", "1", FALSE), M("bound_flux", "face", "1", "face", "1", FALSE),
               M("bound_pressure_cell", "face", "1", "cell", "1", FALSE),
               M("bound_pressure_face", "face", "1", "face", "1", FALSE),
               M("vector_source", "face", "1", "cell", "d", FALSE),
               M("bound_pressure_vector_source", "face", "1", "cell", "d", FALSE) >>
       [] scheme = "mpsa" -> mech
       [] scheme = "biot" ->
            mech \o << M("displacement_divergence", "cell", "1", "cell", "d", TRUE),
                       M("boundary_displacement_divergence", "cell", "1", "face", "d", TRUE),
                       M("scalar_gradient", "face", "d", "cell", "1", TRUE),
                       M("mpsa_consistency", "cell", "1", "cell", "1", TRUE),
                       M("bound_displacement_pressure", "face", "d", "cell", "1", TRUE) >>
Mult(G, m) == IF m = "d" THEN G.dim ELSE 1
Count(G, e) == IF e = "face" THEN G.nf ELSE G.nc
DocShape(G, info) == << Count(G, info.re) * Mult(G, info.rm), Count(G, info.ce) * Mult(G, info.cm) >>
InfoOf(scheme, key) == LET T == MatTable(scheme) IN T[CHOOSE i \in 1..Len(T) : T[i].key = key]
KnownKey(scheme, key) == \E i \in 1..Len(MatTable(scheme)) : MatTable(scheme)[i].key = key
CouplingKeys == <<"s", "t">>       \* scalar_vector_mappings of the Biot runs: a scalar and a tensor coefficient

\* parameter catalogues: per cell integer values in units of 1/2 (so every double handed to the code is dyadic).
\* second order tensors are listed <<xx, yy, zz, xy, xz, yz>>
NPar == 3
KVal(cat, c) ==
  CASE cat = 1 -> <<2, 2, 2, 0, 0, 0>>                                             \* homogeneous, isotropic
    [] cat = 2 -> LET k == 2 + 2 * (c % 3) IN <<k, k, k, 0, 0, 0>>                 \* heterogeneous, isotropic
    [] cat = 3 -> <<4 + 2 * (c % 3), 4, 6, 1 + (c % 2), 0, 1>>                     \* heterogeneous, full tensor
LVal(cat, c) ==                                                                    \* <<mu, lambda>>
  CASE cat = 1 -> <<2, 2>>
    [] cat = 2 -> <<2 + 2 * (c % 2), 2 * (c % 3)>>
    [] cat = 3 -> <<1 + (c % 3), 3 + 2 * (c % 2)>>
AScalar(cat) == cat + 1                                                            \* coupling "s": 1, 3/2, 2
AVal(cat, c) ==                                                                    \* coupling "t"
  CASE cat = 1 -> <<2, 2, 2, 0, 0, 0>>
    [] cat = 2 -> <<2, 4, 6, 0, 0, 0>>
    [] cat = 3 -> <<2 + 2 * (c % 2), 4, 6, 1, 0, 1>>
\* the "old" state of an update: "flag": every tensor multiplied by OldScale; "method" with modified cells: OldAdd
\* (units of 1/2) added to the diagonal entries / Lame parameters of the modified cells
OldScale == 2
OldAdd == 2
\* leading principal minors of the symmetric tensor (in units 1/2, 1/4, 1/8): positive definite
SPD(t) == /\ t[1] > 0 /\ t[1] * t[2] - t[4] * t[4] > 0
          /\ t[1] * (t[2] * t[3] - t[6] * t[6]) - t[4] * (t[4] * t[3] - t[6] * t[5]) + t[5] * (t[4] * t[6] - t[2] * t[5]) > 0
LawCatalogue(nc) == \A cat \in 1..NPar : \A c \in 0..(nc - 1) :
  /\ SPD(KVal(cat, c)) /\ SPD(AVal(cat, c)) /\ LVal(cat, c)[1] > 0 /\ LVal(cat, c)[2] >= 0
  \* the modifications used for the "old" state of an update keep the family: doubled / identity added
  /\ SPD([i \in 1..6 |-> OldScale * KVal(cat, c)[i]]) /\ SPD([i \in 1..6 |-> KVal(cat, c)[i] + (IF i <= 3 THEN OldAdd ELSE 0)])
  /\ SPD([i \in 1..6 |-> OldScale * AVal(cat, c)[i]]) /\ SPD([i \in 1..6 |-> AVal(cat, c)[i] + (IF i <= 3 THEN OldAdd ELSE 0)])

\* boundary types by rank of the boundary face (ascending face index); "rol": first component Dirichlet, the
\* others Neumann (vector problems only)
BcModesOf(scheme) == IF scheme = "mpfa" THEN {"dir", "neu", "mix", "mix3"} ELSE {"dir", "neu", "mix", "mix3", "roll"}
BFaces(G) == SetToSortSeq(BoundaryFaces(G), <)
BcTypes(G, mode) ==
  [i \in 1..Len(BFaces(G)) |->
     CASE mode = "dir" -> "dir"
       [] mode = "neu" -> "neu"
       [] mode = "mix" -> IF i % 2 = 1 THEN "dir" ELSE "neu"
       [] mode = "mix3" -> <<"neu", "dir", "rob">>[(i % 3) + 1]
       [] mode = "roll" -> <<"neu", "dir", "rol", "dir">>[(i % 4) + 1]]
\* the "old" state of an update through the method update_discretization: the type of a modified boundary face
FlipBc(t) == IF t = "dir" THEN "neu" ELSE "dir"

(* ----------------------------- fixed point ------------------------------ *)
LB == 8192                        \* 2^13
HUGE == 1073741823
Far(x) == AbsI(x[1]) >= 16777216  \* |x| >= 2^10 s, or not a finite number: close to nothing
\* x - y in units of 2^-39 s
FxDiff(x, y) == IF Far(x) \/ Far(y) \/ AbsI(x[1] - y[1]) > 2 THEN HUGE
                ELSE (x[1] - y[1]) * LB * LB + (x[2] - y[2]) * LB + (x[3] - y[3])
\* 1e-9 * 2^39 = 549.76, 1e-6 * 2^39 = 549755.8; the two roundings to integers contribute at most one unit
Verdict(dev) == IF AbsI(dev) <= 548 THEN 0 ELSE IF AbsI(dev) > 549757 THEN 2 ELSE 1
CloseV(x, y) == Verdict(FxDiff(x, y))
Worst(S) == IF 2 \in S THEN 2 ELSE IF 1 \in S THEN 1 ELSE 0
LawFixedPoint ==
  /\ CloseV(<<8192, 0, 0>>, <<8192, 0, 548>>) = 0 /\ CloseV(<<8192, 0, 0>>, <<8192, 0, 549>>) = 1
  /\ CloseV(<<8191, 8191, 8191>>, <<8192, 0, 0>>) = 0
  /\ CloseV(<<0, 0, 0>>, <<0, 67, 893>>) = 1 /\ CloseV(<<0, 0, 0>>, <<0, 67, 894>>) = 2     \* 67 * 8192 + 893 = 549757
  /\ CloseV(<<-3, 0, 0>>, <<3, 0, 0>>) = 2 /\ CloseV(<<33554432, 0, 0>>, <<33554432, 0, 0>>) = 2
=============================================================================
