--------------------------- MODULE MortarMapsRef ---------------------------
(***************************************************************************)
(* Reference layer of C26 (pure operators): the projections between a      *)
(* 1-d mortar grid and its two neighbours as exact rational matrices.      *)
(*                                                                         *)
(* Geometry.  A fracture is the segment [0, L] of a lattice line.  A grid   *)
(* along it is a partition b = <<0 = b[1] < b[2] < ... < b[n+1] = L>> of    *)
(* integer breakpoints (cell k = [b[k], b[k+1]]).  Per mortar side s:       *)
(*    prim[s]  faces of the higher-dimensional grid on that side            *)
(*    mort[s]  cells of the side grid of the mortar grid                    *)
(*    sec      cells of the lower-dimensional grid (shared by the sides)    *)
(* Matrices are sequences of rows of rationals <<n, d>> (lib/Rat.tla),      *)
(* stored per side: p2mI[s], p2mA[s] (mortar cells x primary faces of the   *)
(* side), s2mI[s], s2mA[s] (mortar cells of the side x secondary cells).    *)
(*                                                                         *)
(* Mechanism (src/porepy/grids/mortar_grid.py, match_grids.py):             *)
(*    MatchAvg / MatchInt      match_1d(target, source, "averaged" /        *)
(*                             "integrated") = overlap length / target      *)
(*                             (source) cell length                         *)
(*    StepUM   update_mortar:    X2m := match_1d(new mortar, old mortar) * X2m *)
(*    StepUS   update_secondary: s2m := match_1d(mortar, new secondary)     *)
(*    StepUP   update_primary:   p2m := p2m * match_1d(old faces, new faces) *)
(*             (dup = TRUE: a primary face that feeds k mortar cells is     *)
(*             listed k times and its weights are multiplied by k - what    *)
(*             match_grids_along_1d_mortar did before fix d70d13e66 in the  *)
(*             simplest cases; only used to show that the clauses can fail) *)
(*    mortar_to_X_int = transpose(X_to_mortar_avg), mortar_to_X_avg =       *)
(*    transpose(X_to_mortar_int)                           (_set_projections) *)
(*                                                                         *)
(* Property clauses (C26), PER MORTAR SIDE, on an observation o (the model's *)
(* own matrices or the ones recorded from porepy):                          *)
(*    IntPreservesTotals     every *_int block has column sums 1 on the     *)
(*                           covered sources, nothing is sent from or to     *)
(*                           entities outside the side's blocks (o.stray)   *)
(*    AvgPreservesConstants  every *_avg block has row sums 1 on the         *)
(*                           covered targets                                *)
(*    Transposes             mortar_to_X_int = (X_to_mortar_avg)^T and       *)
(*                           mortar_to_X_avg = (X_to_mortar_int)^T           *)
(***************************************************************************)
EXTENDS Rat, FiniteSets

NC(b) == Len(b) - 1
CLen(b, k) == b[k + 1] - b[k]
Ov(a, i, b, j) == LET lo == Max2(a[i], b[j])
                      hi == Min2(a[i + 1], b[j + 1])
                  IN IF hi > lo THEN hi - lo ELSE 0
IsPartition(b, L) == Len(b) >= 2 /\ b[1] = 0 /\ b[Len(b)] = L /\ \A k \in 1..NC(b) : b[k] < b[k + 1]

\* rows = target cells, columns = source cells
MatchAvg(tgt, src) == [i \in 1..NC(tgt) |-> [j \in 1..NC(src) |-> RNorm(Ov(tgt, i, src, j), CLen(tgt, i))]]
MatchInt(tgt, src) == [i \in 1..NC(tgt) |-> [j \in 1..NC(src) |-> RNorm(Ov(tgt, i, src, j), CLen(src, j))]]

MatMul(A, B) == [i \in 1..Len(A) |-> [j \in 1..Len(B[1]) |-> RSum([k \in 1..Len(B) |-> RMul(A[i][k], B[k][j])])]]
Tr(A) == [j \in 1..Len(A[1]) |-> [i \in 1..Len(A) |-> A[i][j]]]
RowSum(A, i) == RSum(A[i])
ColSum(A, j) == RSum([i \in 1..Len(A) |-> A[i][j]])
MatEq(A, B) == /\ Len(A) = Len(B)
               /\ \A i \in 1..Len(A) : Len(A[i]) = Len(B[i]) /\ \A j \in 1..Len(A[i]) : REq(A[i][j], B[i][j])
\* column j of A multiplied by the integer mu[j]
ScaleCols(A, mu) == [i \in 1..Len(A) |-> [j \in 1..Len(A[i]) |-> RMul(A[i][j], R(mu[j]))]]
NonZerosInCol(A, j) == Cardinality({i \in 1..Len(A) : A[i][j][1] # 0})

(* ------------------------------ the model ------------------------------------------------------ *)
Sides(m) == 1..Len(m.mort)

\* a state in which every map is the plain overlap map (what meshing produces for matching grids: identities)
InitModel(prim, mort, sec) ==
  [prim |-> prim, mort |-> mort, sec |-> sec,
   p2mI |-> [s \in 1..Len(mort) |-> MatchInt(mort[s], prim[s])],
   p2mA |-> [s \in 1..Len(mort) |-> MatchAvg(mort[s], prim[s])],
   s2mI |-> [s \in 1..Len(mort) |-> MatchInt(mort[s], sec)],
   s2mA |-> [s \in 1..Len(mort) |-> MatchAvg(mort[s], sec)]]

StepUM(m, new) ==
  [m EXCEPT !.mort = new,
            !.p2mI = [s \in Sides(m) |-> MatMul(MatchInt(new[s], m.mort[s]), m.p2mI[s])],
            !.p2mA = [s \in Sides(m) |-> MatMul(MatchAvg(new[s], m.mort[s]), m.p2mA[s])],
            !.s2mI = [s \in Sides(m) |-> MatMul(MatchInt(new[s], m.mort[s]), m.s2mI[s])],
            !.s2mA = [s \in Sides(m) |-> MatMul(MatchAvg(new[s], m.mort[s]), m.s2mA[s])]]

StepUS(m, b) ==
  [m EXCEPT !.sec = b,
            !.s2mI = [s \in Sides(m) |-> MatchInt(m.mort[s], b)],
            !.s2mA = [s \in Sides(m) |-> MatchAvg(m.mort[s], b)]]

StepUP(m, new, dup) ==
  LET mu(s) == [j \in 1..NC(m.prim[s]) |-> IF dup THEN NonZerosInCol(m.p2mI[s], j) ELSE 1]
  IN [m EXCEPT !.prim = new,
               !.p2mI = [s \in Sides(m) |-> MatMul(ScaleCols(m.p2mI[s], mu(s)), MatchInt(m.prim[s], new[s]))],
               !.p2mA = [s \in Sides(m) |-> MatMul(ScaleCols(m.p2mA[s], mu(s)), MatchAvg(m.prim[s], new[s]))]]

\* all eight projections of the model, per side, in the shape of a recorded observation
ModelObs(m) ==
  [prim |-> m.prim, mort |-> m.mort, sec |-> m.sec,
   p2mI |-> m.p2mI, p2mA |-> m.p2mA, s2mI |-> m.s2mI, s2mA |-> m.s2mA,
   m2pI |-> [s \in Sides(m) |-> Tr(m.p2mA[s])], m2pA |-> [s \in Sides(m) |-> Tr(m.p2mI[s])],
   m2sI |-> [s \in Sides(m) |-> Tr(m.s2mA[s])], m2sA |-> [s \in Sides(m) |-> Tr(m.s2mI[s])],
   stray |-> FALSE]

(* ------------------------------ the clauses of C26 --------------------------------------------- *)
ColsOne(A) == \A j \in 1..Len(A[1]) : REq(ColSum(A, j), ROne)
RowsOne(A) == \A i \in 1..Len(A) : REq(RowSum(A, i), ROne)
OSides(o) == 1..Len(o.p2mI)

IntPreservesTotals(o) ==
  /\ ~o.stray
  /\ \A s \in OSides(o) : ColsOne(o.p2mI[s]) /\ ColsOne(o.s2mI[s]) /\ ColsOne(o.m2pI[s]) /\ ColsOne(o.m2sI[s])
AvgPreservesConstants(o) ==
  \A s \in OSides(o) : RowsOne(o.p2mA[s]) /\ RowsOne(o.s2mA[s]) /\ RowsOne(o.m2pA[s]) /\ RowsOne(o.m2sA[s])
Transposes(o) ==
  \A s \in OSides(o) : /\ MatEq(o.m2pI[s], Tr(o.p2mA[s])) /\ MatEq(o.m2pA[s], Tr(o.p2mI[s]))
                       /\ MatEq(o.m2sI[s], Tr(o.s2mA[s])) /\ MatEq(o.m2sA[s], Tr(o.s2mI[s]))

\* entrywise agreement of a recorded observation with the model (conformance, not a clause of the property)
SameMaps(mo, o) ==
  /\ o.shape_ok
  /\ mo.prim = o.prim /\ mo.mort = o.mort /\ mo.sec = o.sec /\ ~o.stray
  /\ \A s \in OSides(mo) :
       /\ MatEq(mo.p2mI[s], o.p2mI[s]) /\ MatEq(mo.p2mA[s], o.p2mA[s])
       /\ MatEq(mo.s2mI[s], o.s2mI[s]) /\ MatEq(mo.s2mA[s], o.s2mA[s])
       /\ MatEq(mo.m2pI[s], o.m2pI[s]) /\ MatEq(mo.m2pA[s], o.m2pA[s])
       /\ MatEq(mo.m2sI[s], o.m2sI[s]) /\ MatEq(mo.m2sA[s], o.m2sA[s])

\* every entry stays far below TLC's 32-bit integers
HeightOK(o) == \A s \in OSides(o) : \A A \in {o.p2mI[s], o.p2mA[s], o.s2mI[s], o.s2mA[s]} :
                 \A i \in 1..Len(A) : \A j \in 1..Len(A[i]) : Abs(A[i][j][1]) < 1000000 /\ A[i][j][2] < 1000000
=============================================================================
