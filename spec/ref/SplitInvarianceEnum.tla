------------------------- MODULE SplitInvarianceEnum -------------------------
(***************************************************************************)
(* Input enumeration for C14 and the model laws of SplitInvariance.        *)
(* Grids = incidence records (GridTopology) exported from real porepy      *)
(* grids (Cartesian / simplex, 2D and small 3D, plain and lattice          *)
(* perturbed).  TLC enumerates, per grid g,                                *)
(*   t = "grid"  one record with everything that is derived from the       *)
(*               incidence: the peak-memory estimates, for every wanted    *)
(*               number of subproblems k in {1, 2, 3, n_cells} the         *)
(*               max_memory value that forces it (MaxMemFor), the sorted   *)
(*               boundary faces with their types for every boundary mode,  *)
(*               the per-cell tensor / Lame / coupling values of every     *)
(*               catalogue entry (units of 1/2);                           *)
(*   t = "phys"  every (scheme, catalogue entry, boundary mode) and        *)
(*   t = "var"   every variant - a configuration is a pair (phys, var);    *)
(*               variants: the other local inverter; a split (wanted       *)
(*               count, requested by num_subproblems or by max_memory,     *)
(*               inverter); a partial discretisation (mode cells / faces / *)
(*               nodes; how: "fresh" = specified_* on empty matrices,      *)
(*               "flag" = parameter update_discretization = True on an     *)
(*               existing discretisation, "method" = the method            *)
(*               update_discretization with modified_cells /               *)
(*               modified_faces); a combination partial + split;           *)
(*   t = "req"   every request set of a partial discretisation: cell       *)
(*               subsets and face subsets up to MaxCells / MaxFaces        *)
(*               elements, node sets = the vertices of those cell subsets  *)
(*               and arbitrary node subsets up to MaxNodes elements, with  *)
(*               the sizes of the footprint and of its cell rows (they are *)
(*               generated from NB "bucket" states per (grid, mode) so     *)
(*               that all TLC workers take part);                          *)
(*   t = "part"  (grids with at most LawCells cells) every partition       *)
(*               vector into at most MaxParts parts, for LawCover only.    *)
(* The harness executes a (seeded) selection of phys x var x req on the    *)
(* real code and hands the matrices to J_SplitInvariance.                  *)
(* Laws (invariant Laws, must hold: a failure is a design error):          *)
(* WellFormed, LawCatalogue, LawMem, LawFixedPoint, the boundary           *)
(* assignment only types boundary faces; LawFootprint on every request;    *)
(* LawCover on every partition vector.                                     *)
(***************************************************************************)
EXTENDS SplitInvariance, Json, TLC

CONSTANTS Grids,        \* sequence of incidence records
          Inverters,    \* local inverters offered for the split variants
          Hows,         \* subset of {"fresh", "flag", "method"}
          MaxCells, MaxFaces, MaxNodes,   \* largest enumerated request sets (2D grids)
          MaxNodes3,                      \* largest arbitrary node subset on 3D grids
          LawCells, MaxParts,
          WithCombo     \* BOOLEAN: enumerate partial + split combinations

VARIABLE st
GR(g) == Grids[g]

\* n_cells \div 2: on simplex grids a split into about half as many parts as cells is where single faces lie in the
\* overlap of three sub-problems (the split into n_cells parts visits no face more than twice)
CountsOf(G) == {1, 2, 3, G.nc \div 2, G.nc} \ {0}
AllBcModes == {"dir", "neu", "mix", "mix3", "roll"}

Variants(G) ==
  LET V(k, i, r, b, m, h) == [kind |-> k, inv |-> i, req |-> r, by |-> b, mode |-> m, how |-> h] IN
    {V("inverter", "python", 0, "", "", "")}
    \cup {V("split", i, k, b, "", "") : i \in Inverters, k \in CountsOf(G), b \in {"num", "mem"}}
    \cup {V("partial", "python", 0, "", ph[1], ph[2]) : ph \in {q \in Modes \X Hows : q[2] = "method" => q[1] # "nodes"}}
    \cup (IF WithCombo THEN {V("combo", "python", k, "num", m, "fresh") : m \in Modes, k \in {2, G.nc}} ELSE {})

\* the configurations of grid g are the product Phys(g) x Vars(g); TLC emits the two factors
Phys(g) == UNION {{[t |-> "phys", g |-> g, scheme |-> s, par |-> p, bc |-> b] : p \in 1..NPar, b \in BcModesOf(s)} : s \in Schemes}
Vars(g) == {[t |-> "var", g |-> g, var |-> v] : v \in Variants(GR(g))}

UpTo(k, S) == UNION {kSubset(j, S) : j \in 1..k}
ReqSets(G, mode) ==
  CASE mode = "cells" -> UpTo(MaxCells, CellIx(G))
    [] mode = "faces" -> UpTo(MaxFaces, FaceIx(G))
    [] mode = "nodes" -> {NodesOfCells(G, S) : S \in UpTo(MaxCells, CellIx(G))} \cup UpTo(IF G.dim = 3 THEN MaxNodes3 ELSE MaxNodes, NodeIx(G))
\* requests are generated from NB bucket states per (grid, mode) so that all workers take part
NB == 8
BucketOf(X) == (SumSet(X) + Cardinality(X)) % NB
AllReqSets(G, mode) ==
  ReqSets(G, mode) \cup (CASE mode = "nodes" -> {NodeIx(G)}        \* the whole set of nodes / cells is a
                           [] mode = "cells" -> {CellIx(G)}        \* legitimate request too
                           [] OTHER -> {})
Buckets(g) == {[t |-> "bucket", g |-> g, mode |-> m, b |-> b] : m \in Modes, b \in 0..(NB - 1)}
Reqs(g, mode, b) == {[t |-> "req", g |-> g, mode |-> mode, set |-> X] :
                       X \in {Y \in AllReqSets(GR(g), mode) : BucketOf(Y) = b}}

Parts(g) == IF GR(g).nc > LawCells THEN {}
            ELSE {[t |-> "part", g |-> g, p |-> p] : p \in [1..GR(g).nc -> 0..(MaxParts - 1)]}

Init == st \in {[t |-> "grid", g |-> g] : g \in 1..Len(Grids)}
Next == \/ st.t = "grid" /\ st' \in Phys(st.g) \cup Vars(st.g) \cup Buckets(st.g) \cup Parts(st.g)
        \/ st.t = "bucket" /\ st' \in Reqs(st.g, st.mode, st.b)
Spec == Init /\ [][Next]_st

(* ------------------------------- emission ------------------------------- *)
GridRecord(g) ==
  LET G == GR(g)
      ks == SetToSortSeq(CountsOf(G), <)
  IN [t |-> "grid", g |-> g, dim |-> G.dim, nc |-> G.nc, nf |-> G.nf, nn |-> G.nn,
      peak |-> [mpfa |-> PeakMpfa(G), mpsa |-> PeakMpsa(G)],
      mem |-> [i \in 1..Len(ks) |-> [k |-> ks[i], mpfa |-> MaxMemFor(PeakMpfa(G), ks[i]),
                                     mpsa |-> MaxMemFor(PeakMpsa(G), ks[i])]],
      bfaces |-> BFaces(G),
      bc |-> [m \in AllBcModes |-> BcTypes(G, m)],
      kval |-> [cat \in 1..NPar |-> [c \in 1..G.nc |-> KVal(cat, c - 1)]],
      lval |-> [cat \in 1..NPar |-> [c \in 1..G.nc |-> LVal(cat, c - 1)]],
      aval |-> [cat \in 1..NPar |-> [c \in 1..G.nc |-> AVal(cat, c - 1)]],
      ascalar |-> [cat \in 1..NPar |-> AScalar(cat)],
      old |-> [scale |-> OldScale, add |-> OldAdd, flip |-> [b \in {"dir", "neu", "rob", "rol"} |-> FlipBc(b)]],
      keys |-> [s \in Schemes |-> [i \in 1..Len(MatTable(s)) |-> MatTable(s)[i].key]], coupling |-> CouplingKeys]

ReqRecord(r) ==
  LET G == GR(r.g)
      F == Footprint(G, r.mode, r.set)
  IN [t |-> "req", g |-> r.g, mode |-> r.mode, set |-> SetToSortSeq(r.set, <),
      foot |-> Cardinality(F), crows |-> Cardinality(CellRows(G, F)), nf |-> G.nf]

Emit == CASE st.t = "grid" -> PrintT(ToJson(GridRecord(st.g)))
          [] st.t \in {"phys", "var"} -> PrintT(ToJson(st))
          [] st.t = "req" -> PrintT(ToJson(ReqRecord(st)))
          [] OTHER -> TRUE

(* --------------------------------- laws --------------------------------- *)
LawBc(G) == \A m \in AllBcModes :
  /\ Len(BcTypes(G, m)) = Cardinality(BoundaryFaces(G))
  /\ \A i \in 1..Len(BcTypes(G, m)) : BcTypes(G, m)[i] \in {"dir", "neu", "rob", "rol"}
  /\ Range(BFaces(G)) = BoundaryFaces(G)

Laws == CASE st.t = "grid" ->
               LET G == GR(st.g) IN
                 /\ WellFormed(G) /\ LawCatalogue(G.nc) /\ LawFixedPoint /\ LawBc(G)
                 /\ \A s \in Schemes : \A k \in CountsOf(G) : LawMem(PeakOf(G, s), k)
          [] st.t = "req" -> RequestOK(GR(st.g), st.mode, st.set) /\ LawFootprint(GR(st.g), st.mode, st.set)
          [] st.t = "part" -> LawCover(GR(st.g), st.p)
          [] OTHER -> TRUE
=============================================================================
