-------------------------- MODULE FileRoundTripEnum --------------------------
(***************************************************************************)
(* C47 enumerator: TLC lists the file round trips for                      *)
(* harness/props/c47.py (Emit: one JSON array of records per state) and    *)
(* checks the laws of the family (Laws).  Coordinates / values are DOUBLED *)
(* integers (h means h / 2).                                               *)
(*                                                                         *)
(* kind "net2d": every sequence of 1..MaxLen2 distinct line fractures of a *)
(*   catalogue (shared end points, a reversed duplicate, crossing lines,   *)
(*   negative and half-integer coordinates) x with_header (the reader gets *)
(*   skip_header = 0 when no header is written) x max_num_fracs in {not    *)
(*   given, 0..n} x a tag column appended to the written file and declared *)
(*   with tagcols x (domain given to network and reader, return_frac_id)   *)
(* kind "net3d": every sequence of 1..MaxLen3 distinct planar convex       *)
(*   polygons (3-5 vertices) of a catalogue x domain written / has_domain  *)
(* kind "txt":   1..3 named arrays of common length 0..4, values from      *)
(*   Vals by position (offsets per array), written as 1-D arrays, as       *)
(*   (1, L) rows, (L, 1) columns or a (2, 2) square, with the default      *)
(*   format or "%.6f"                                                      *)
(***************************************************************************)
EXTENDS FileRoundTrip, Json

CONSTANTS Kinds, NCat2, MaxLen2, NCat3, MaxLen3, MaxArrays, MaxLenTxt, Offs

\* <<x0, y0, x1, y1>> doubled
Cat2 == <<<<0, 0, 3, -4>>, <<-2, 1, 6, 1>>, <<3, -4, 0, 0>>, <<-3, -3, -3, 5>>, <<0, 0, 4, 4>>, <<1, 2, 5, -7>>,
          <<6, 1, -3, 5>>, <<-8, -1, -1, -8>>>>
\* polygons: vertex sequences, doubled
Cat3 == << <<<<0, 0, 1>>, <<4, 0, 1>>, <<4, 4, 1>>, <<0, 4, 1>>>>,                         \* square in z = 1/2
           <<<<0, -2, 0>>, <<4, 0, 2>>, <<0, 6, 2>>>>,                                      \* triangle
           <<<<2, 0, 0>>, <<2, 4, 0>>, <<2, 6, 2>>, <<2, 4, 6>>, <<2, 0, 4>>>>,             \* pentagon in x = 1
           <<<<-4, -2, -4>>, <<0, -2, 0>>, <<0, 2, 0>>, <<-4, 2, -4>>>>,                    \* rectangle in z = x
           <<<<-1, -1, -3>>, <<3, -1, 1>>, <<-1, 5, 1>>>>,                                  \* triangle, half-integers
           <<<<0, 0, 0>>, <<2, 0, 0>>, <<3, 2, 0>>, <<1, 4, 0>>, <<-1, 2, 0>>>> >>          \* pentagon in z = 0
Dom2 == <<-10, 10, -10, 10>>                \* xmin, xmax, ymin, ymax  (doubled)
Dom3 == <<-11, -10, -9, 12, 11, 13>>        \* xmin, ymin, zmin, xmax, ymax, zmax  (doubled)
Vals == <<0, 1, -1, 4, -6, 25, 250, -3>>    \* doubled: 0, 1/2, -1/2, 2, -3, 12.5, 125, -3/2
Names == <<"p", "flux_x", "a_b_c">>

DistinctSeqs(n, maxlen) == {s \in UNION {[1..l -> 1..n] : l \in 1..maxlen} : \A i, j \in 1..Len(s) : i # j => s[i] # s[j]}
Array(L, off, step) == [i \in 1..L |-> Vals[((off + (i - 1) * step) % Len(Vals)) + 1]]
Shapes(L) == {"1d"} \cup (IF L >= 1 THEN {"row", "col"} ELSE {}) \cup (IF L = 4 THEN {"sq"} ELSE {})

BatchOf(k, x) ==
  CASE k = "net2d" ->
         {[kind |-> k, fr |-> [i \in 1..Len(x) |-> Cat2[x[i]]], hdr |-> o[1], maxn |-> o[2], tag |-> o[3], dom |-> o[4],
           ids |-> o[4], box |-> Dom2] :
            o \in BOOLEAN \X (-1..Len(x)) \X BOOLEAN \X BOOLEAN}
    [] k = "net3d" ->
         {[kind |-> k, fr |-> [i \in 1..Len(x) |-> Cat3[x[i]]], dom |-> d, box |-> Dom3] : d \in BOOLEAN}
    [] k = "txt" ->
         {[kind |-> k, names |-> SubSeq(Names, 1, x[1]), shape |-> o[2], fmt |-> o[3],
           arrays |-> [a \in 1..x[1] |-> Array(x[2], o[1][a], a)]] :
            o \in [1..x[1] -> Offs] \X Shapes(x[2]) \X {"default", "%.6f"}}
StatesOf(k) == CASE k = "net2d" -> DistinctSeqs(NCat2, MaxLen2)
                 [] k = "net3d" -> DistinctSeqs(NCat3, MaxLen3)
                 [] k = "txt" -> (1..MaxArrays) \X (0..MaxLenTxt)

VARIABLES st, kind, batch
vars == <<st, kind, batch>>
Init == st = 0 /\ kind \in Kinds /\ batch = {}
Pick == /\ st = 0 /\ st' = 1 /\ kind' = kind
        /\ \E x \in StatesOf(kind) : batch' = BatchOf(kind, x)
Next == Pick
Spec == Init /\ [][Next]_vars

Emit == (st = 1 /\ batch # {}) => PrintT(ToJson(batch))

\* ---- laws of the family
Sub3(u, v) == <<u[1] - v[1], u[2] - v[2], u[3] - v[3]>>
Cross3(u, v) == <<u[2] * v[3] - u[3] * v[2], u[3] * v[1] - u[1] * v[3], u[1] * v[2] - u[2] * v[1]>>
Dot3(u, v) == u[1] * v[1] + u[2] * v[2] + u[3] * v[3]
Planar(P) == LET nrm == Cross3(Sub3(P[2], P[1]), Sub3(P[3], P[1])) IN
             nrm # <<0, 0, 0>> /\ \A i \in 1..Len(P) : Dot3(nrm, Sub3(P[i], P[1])) = 0
\* convex with a consistent orientation: consecutive edge cross products all point along the same normal
Convex(P) == LET n == Len(P)
                 V(i) == P[((i - 1) % n) + 1]
                 nrm == Cross3(Sub3(P[2], P[1]), Sub3(P[3], P[1]))
             IN \A i \in 1..n : Dot3(nrm, Cross3(Sub3(V(i + 1), V(i)), Sub3(V(i + 2), V(i + 1)))) > 0
InBox3(p) == p[1] > Dom3[1] /\ p[2] > Dom3[2] /\ p[3] > Dom3[3] /\ p[1] < Dom3[4] /\ p[2] < Dom3[5] /\ p[3] < Dom3[6]
LawsOf(r) ==
  CASE r.kind = "net2d" ->
         \A i \in 1..Len(r.fr) : LET f == r.fr[i] IN
            /\ <<f[1], f[2]>> # <<f[3], f[4]>>                                            \* no zero-length fracture
            /\ f[1] > Dom2[1] /\ f[3] > Dom2[1] /\ f[1] < Dom2[2] /\ f[3] < Dom2[2]
            /\ f[2] > Dom2[3] /\ f[4] > Dom2[3] /\ f[2] < Dom2[4] /\ f[4] < Dom2[4]
    [] r.kind = "net3d" ->
         \A i \in 1..Len(r.fr) : LET P == r.fr[i] IN
            Len(P) \in 3..5 /\ Planar(P) /\ Convex(P) /\ \A j \in 1..Len(P) : InBox3(P[j])
    [] r.kind = "txt" ->
         /\ \A i, j \in 1..Len(r.names) : i # j => r.names[i] # r.names[j]
         /\ \A a \in 1..Len(r.arrays) : Len(r.arrays[a]) = Len(r.arrays[1])               \* the writer's precondition
         /\ \A a \in 1..Len(r.arrays) : \A i \in 1..Len(r.arrays[a]) : ThreeDigits(r.arrays[a][i])
Laws == st = 1 => \A r \in batch : LawsOf(r)
=============================================================================
