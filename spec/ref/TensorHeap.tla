----------------------------- MODULE TensorHeap -----------------------------
(***************************************************************************)
(* C40, clause "copies are independent of the original": a two-object heap. *)
(* An object maps its array-valued fields to heap cells; the heap maps a   *)
(* cell to its contents (one integer stands for the whole array).  copy()  *)
(* either allocates fresh cells for every field (Deep = TRUE, what         *)
(* Tensor.copy must do) or shares them.  The ghost `val` holds the         *)
(* contents each (object, field) should have under value semantics: a      *)
(* write through one object must not be visible through the other.         *)
(*   Independent == what is read through any object equals the ghost.      *)
(* TLC checks Independent for Deep = TRUE; with Deep = FALSE it is         *)
(* violated after copy; write - the driver runs both to show that the law  *)
(* discriminates.  J_Tensor applies the same criterion to the mutation     *)
(* trials recorded from the real objects.                                  *)
(***************************************************************************)
EXTENDS Integers, FiniteSets

CONSTANTS Fields,   \* e.g. {"values", "mu", "lmbda"}
          Deep,     \* BOOLEAN
          MaxWrites

Objs == {"orig", "new"}
VARIABLES heap,     \* cell id -> content
          ref,      \* object -> field -> cell id   (0 = object does not exist yet)
          val,      \* ghost: object -> field -> content
          nw
hvars == <<heap, ref, val, nw>>

\* a fixed numbering of the fields
Num == CHOOSE n \in [Fields -> 1..Cardinality(Fields)] : \A f, g \in Fields : f # g => n[f] # n[g]
K == Cardinality(Fields)

HInit == /\ heap = [i \in 1..(2 * K) |-> IF i <= K THEN i ELSE 0]
         /\ ref = [o \in Objs |-> [f \in Fields |-> IF o = "orig" THEN Num[f] ELSE 0]]
         /\ val = [o \in Objs |-> [f \in Fields |-> IF o = "orig" THEN Num[f] ELSE 0]]
         /\ nw = 0
Exists(o) == \A f \in Fields : ref[o][f] # 0
Copy == /\ ~Exists("new")
        /\ ref' = [ref EXCEPT !["new"] = [f \in Fields |-> IF Deep THEN K + Num[f] ELSE ref["orig"][f]]]
        /\ heap' = [i \in 1..(2 * K) |-> IF Deep /\ i > K THEN heap[i - K] ELSE heap[i]]
        /\ val' = [val EXCEPT !["new"] = val["orig"]]
        /\ nw' = nw
Write(o, f) == /\ Exists(o) /\ nw < MaxWrites
               /\ heap' = [heap EXCEPT ![ref[o][f]] = @ + 10]
               /\ val' = [val EXCEPT ![o][f] = @ + 10]
               /\ UNCHANGED ref /\ nw' = nw + 1
HNext == Copy \/ \E o \in Objs, f \in Fields : Write(o, f)
HSpec == HInit /\ [][HNext]_hvars

Independent == \A o \in Objs : Exists(o) => \A f \in Fields : heap[ref[o][f]] = val[o][f]
=============================================================================
