--------------------------- MODULE OperatorTreeEnum ---------------------------
(***************************************************************************)
(* C02 enumerator.  TLC grows well-typed expressions of OperatorTree.tla   *)
(* breadth first: a state is one expression e; a step combines e with an   *)
(* operand on either side by one of the six operations, wraps it in a      *)
(* pp.ad.Function, or shifts it to the previous time step / iterate.       *)
(* Operands of a leaf are ALL leaf expressions (every leaf in every stored *)
(* time state; if ~PairAll at least one of the two is a core leaf), so     *)
(* depth 1 is complete over the leaf table; beyond depth 1                 *)
(* only expressions over the core leaves grow, with the core leaves (and,  *)
(* if TwoSided, all depth-1 core expressions) as operands.                 *)
(* Every root expression (Operator-valued, float / vector / AdArray        *)
(* result) is emitted with the program of its direct evaluation and its    *)
(* previous-time sub-expressions; the design-level laws of OperatorTree    *)
(* are invariants over the whole reachable space.                          *)
(***************************************************************************)
EXTENDS OperatorTree, Json

CONSTANTS MaxDepth,     \* depth bound of the enumeration
          TwoSided,     \* TRUE: operands beyond depth 1 include the depth-1 core expressions
          EmitFrom,     \* emit only expressions of at least this depth (0 = all)
          CoreStart,    \* TRUE: start from the core leaves only (random walks into depth 2 and 3)
          PairAll,      \* TRUE: depth 1 pairs every leaf with every leaf; FALSE: every leaf with every core leaf
          SampleMod,    \* composites are combined further only if Code(e) % SampleMod = SampleRes (1, 0: all of them):
          SampleRes     \* a deterministic pseudo-random subset of the deeper space (the others are only shifted)

VARIABLES e
evars == <<e>>

LeafExprs(coreOnly) ==      \* cstates: the time states in which a leaf belongs to the core (<<>>: not a core leaf)
  UNION {LET st == IF coreOnly THEN LV[i].cstates ELSE LV[i].states
         IN {Leaf(LV[i].name, st[j][1], st[j][2]) : j \in 1..Len(st)} : i \in 1..Len(LV)}
AllLeafExprs == LeafExprs(FALSE)
CoreLeafExprs == LeafExprs(TRUE)

RECURSIVE OverCore(_)
OverCore(x) == CASE x[1] = "leaf" -> x \in CoreLeafExprs
                 [] x[1] = "bin" -> OverCore(x[3]) /\ OverCore(x[4])
                 [] x[1] = "fn" -> \A j \in 1..Len(x[3]) : OverCore(x[3][j])
                 [] OTHER -> OverCore(x[3])

\* An operand with what the typing rules need to know about it (computed once: these sets are constants)
Info(y) == [e |-> y, k |-> Direct(y, 0, 0, "deriv").k, h |-> Hot(y), raw |-> IsRaw(y)]
InfoSet(S) == {Info(y) : y \in S}
Max2(a, b) == IF a >= b THEN a ELSE b

\* all well-typed one-step extensions of x (typing is compositional outside shifts: the kind of  x op y  follows
\* from the kinds of x and y; TypeOK re-derives the full typing of every reached expression)
Grow(x, ops) ==
  LET kx == Direct(x, 0, 0, "deriv").k
      hx == Hot(x)
      rx == IsRaw(x)
  IN {Bin(op, x, y.e) : <<op, y>> \in {z \in Ops \X ops : ~(rx /\ z[2].raw) /\ DirectK(z[1], kx, z[2].k) # KE
                                                          /\ Max2(hx, z[2].h) + (IF z[1] = "**" THEN 1 ELSE 0) <= 2}}
     \cup {Bin(op, y.e, x) : <<op, y>> \in {z \in Ops \X ops : ~(rx /\ z[2].raw) /\ DirectK(z[1], z[2].k, kx) # KE
                                                             /\ Max2(hx, z[2].h) + (IF z[1] = "**" THEN 1 ELSE 0) <= 2}}
     \cup (IF rx THEN {} ELSE
           {Fn(f, <<x>>) : f \in {g \in UnaryFns : FnK(g, <<kx>>) # KE /\ hx + (IF g = "exp" THEN 1 ELSE 0) <= 2}}
           \cup {Fn("max", <<x, y.e>>) : y \in {z \in ops : ~z.raw /\ FnK("max", <<kx, z.k>>) # KE}}
           \cup {Fn("max", <<y.e, x>>) : y \in {z \in ops : ~z.raw /\ FnK("max", <<z.k, kx>>) # KE}}
           \cup {c \in {Shift(m, x) : m \in ShiftModes} : WellTyped(c)})

AllOperands == InfoSet(AllLeafExprs)
CoreOperands == InfoSet(CoreLeafExprs)
D1Core == IF TwoSided THEN UNION {Grow(x, CoreOperands) : x \in CoreLeafExprs} ELSE {}
DeepOperands == CoreOperands \cup InfoSet(D1Core)

Operands(x) == IF Depth(x) > 0 THEN DeepOperands
               ELSE IF CoreStart THEN CoreOperands
               ELSE IF PairAll \/ x \in CoreLeafExprs THEN AllOperands ELSE CoreOperands

Init == e \in (IF CoreStart THEN CoreLeafExprs ELSE AllLeafExprs)
\* a structural hash, only used to thin out the expansion of composites
LeafIdx(nm) == CHOOSE i \in 1..Len(LV) : LV[i].name = nm
OpCode(op) == CASE op = "+" -> 1 [] op = "-" -> 2 [] op = "*" -> 3 [] op = "/" -> 4 [] op = "**" -> 5 [] OTHER -> 6
RECURSIVE Code(_)
Code(x) == CASE x[1] = "leaf" -> LeafIdx(x[2]) + 37 * (x[3] + 1) + 41 * (x[4] + 1)
             [] x[1] = "bin" -> (OpCode(x[2]) + 31 * Code(x[3]) + 17 * Code(x[4])) % 9973
             [] x[1] = "fn" -> (7 * Len(x[2]) + 5 * Len(x[3]) + 29 * Code(x[3][1]) + (IF Len(x[3]) = 2 THEN 23 * Code(x[3][2]) ELSE 0)) % 9973
             [] OTHER -> (11 + Len(x[2]) + 3 * Code(x[3])) % 9973

\* composites outside the sample are still shifted 1 and 2 steps to previous time steps / iterates (cheap)
ShiftsOf(x) == {c \in {Shift(m, x) : m \in ShiftModes} : WellTyped(c)}
Next == /\ Depth(e) < MaxDepth
        /\ IF Depth(e) = 0 THEN e' \in Grow(e, Operands(e))
           ELSE /\ OverCore(e)
                /\ IF Code(e) % SampleMod = SampleRes THEN e' \in Grow(e, Operands(e)) ELSE e' \in ShiftsOf(e)
Spec == Init /\ [][Next]_evars

Emit == (IsRoot(e) /\ Depth(e) >= EmitFrom /\ Depth(e) <= MaxDepth) =>
          PrintT(ToJson([expr |-> e,
                         prog |-> DirectProg(e, 0, 0),
                         kind |-> RootKind(e, "deriv"),
                         prev |-> LET s == PrevSubs(e, 0, 0) IN [j \in 1..Len(s) |-> [expr |-> s[j], prog |-> DirectProg(s[j], 0, 0)]]]))

\* design-level laws on every reachable expression (one invariant each; DesignLaws = all of them, cheaper to check)
TypeOK == WellTyped(e)
BuildDefined == IsRaw(e) \/ LawBuildDefined(e)
ParseAgreesDirect == IsRaw(e) \/ (LawParseAgreesDirect(e, "deriv") /\ LawParseAgreesDirect(e, "value"))
ValueModeConsistent == IsRaw(e) \/ LawValueModeConsistent(e)
PrevNoDerivative == IsRaw(e) \/ LawPrevNoDerivative(e)
NoNumpyCapture == IsRaw(e) \/ LawNoNumpyCapture(e)
DesignLaws == /\ TypeOK
              /\ IsRaw(e) \/ LawsOf(e)
==============================================================================
