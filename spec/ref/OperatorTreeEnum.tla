--------------------------- MODULE OperatorTreeEnum ---------------------------
(***************************************************************************)
(* C02 enumerator.  TLC grows well-typed expressions of OperatorTree.tla   *)
(* breadth first: a state is one expression e; a step combines e with an   *)
(* operand on either side by one of the six operations, wraps it in a      *)
(* pp.ad.Function, or shifts it to the previous time step / iterate.       *)
(* Operands of a leaf are ALL leaf expressions (every leaf in every stored *)
(* time state), so depth 1 is complete over the leaf table; beyond depth 1 *)
(* only expressions over the core leaves grow, with the core leaves (and,  *)
(* if TwoSided, all depth-1 core expressions) as operands.                 *)
(* Every root expression (Operator-valued, float / vector / AdArray        *)
(* result) is emitted with the program of its direct evaluation and its    *)
(* previous-time sub-expressions; the design-level laws of OperatorTree    *)
(* are invariants over the whole reachable space.                          *)
(***************************************************************************)
EXTENDS OperatorTree, Json

CONSTANTS MaxDepth,     \* depth bound of the enumeration
          TwoSided,     \* TRUE: operands beyond depth 1 include the depth-1 core expressions
          EmitFrom      \* emit only expressions of at least this depth (0 = all)

VARIABLES e
evars == <<e>>

LeafExprs(coreOnly) ==      \* cstates: the time states in which a leaf belongs to the core (<<>>: not a core leaf)
  UNION {LET st == IF coreOnly THEN Leaves[i].cstates ELSE Leaves[i].states
         IN {Leaf(Leaves[i].name, st[j][1], st[j][2]) : j \in 1..Len(st)} : i \in 1..Len(Leaves)}
AllLeafExprs == LeafExprs(FALSE)
CoreLeafExprs == LeafExprs(TRUE)

RECURSIVE OverCore(_)
OverCore(x) == CASE x[1] = "leaf" -> x \in CoreLeafExprs
                 [] x[1] = "bin" -> OverCore(x[3]) /\ OverCore(x[4])
                 [] x[1] = "fn" -> \A j \in 1..Len(x[3]) : OverCore(x[3][j])
                 [] OTHER -> OverCore(x[3])

Candidates(x, operands) ==
  {Bin(op, x, y) : op \in Ops, y \in operands} \cup {Bin(op, y, x) : op \in Ops, y \in operands}
  \cup {Fn(f, <<x>>) : f \in UnaryFns}
  \cup {Fn("max", <<x, y>>) : y \in operands} \cup {Fn("max", <<y, x>>) : y \in operands}
  \cup {Shift("time", x), Shift("iter", x)}
Grow(x, operands) == {c \in Candidates(x, operands) : WellTyped(c)}

D1Core == UNION {Grow(x, CoreLeafExprs) : x \in CoreLeafExprs}

Operands(x) == IF Depth(x) = 0 THEN AllLeafExprs
               ELSE IF TwoSided THEN CoreLeafExprs \cup D1Core ELSE CoreLeafExprs

Init == e \in AllLeafExprs
Next == /\ Depth(e) < MaxDepth
        /\ Depth(e) = 0 \/ OverCore(e)
        /\ e' \in Grow(e, Operands(e))
Spec == Init /\ [][Next]_evars

Emit == (IsRoot(e) /\ Depth(e) >= EmitFrom /\ Depth(e) <= MaxDepth) =>
          PrintT(ToJson([expr |-> e,
                         prog |-> DirectProg(e, 0, 0),
                         kind |-> RootKind(e, "deriv"),
                         prev |-> LET s == PrevSubs(e, 0, 0) IN [j \in 1..Len(s) |-> [expr |-> s[j], prog |-> DirectProg(s[j], 0, 0)]]]))

\* design-level laws on every reachable (well-typed) expression
TypeOK == WellTyped(e)
BuildDefined == IsRaw(e) \/ LawBuildDefined(e)
ParseAgreesDirect == IsRaw(e) \/ (LawParseAgreesDirect(e, "deriv") /\ LawParseAgreesDirect(e, "value"))
ValueModeConsistent == IsRaw(e) \/ LawValueModeConsistent(e)
PrevNoDerivative == IsRaw(e) \/ LawPrevNoDerivative(e)
NoNumpyCapture == IsRaw(e) \/ LawNoNumpyCapture(e)
==============================================================================
