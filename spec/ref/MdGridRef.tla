----------------------------- MODULE MdGridRef -----------------------------
(***************************************************************************)
(* Reference layer of C24 (pure operators, no variables, no constants):    *)
(* what a mixed-dimensional grid container (pp.MixedDimensionalGrid) must   *)
(* hold and answer after a history of add_subdomains / add_interface /      *)
(* remove_subdomain / replace_subdomains_and_interfaces calls.              *)
(*                                                                         *)
(* Objects.  Subdomain grids and mortar grids come from two pools; an       *)
(* object is named by its rank in the pool's creation order (= order of     *)
(* the library's creation ids).  D is the sequence of subdomain             *)
(* dimensions (D[s] in 0..3), M the sequence of mortar-grid dimensions.     *)
(*                                                                         *)
(* Abstract container state `st`:                                          *)
(*    sds   set of present subdomains                                      *)
(*    ifs   function: present interface |-> <<a, b>>, its two subdomains    *)
(*    tag   function: present subdomain |-> content of its data dictionary  *)
(*    itag  function: present interface |-> content of its data dictionary  *)
(*    btag  function: present subdomain of dim > 0 |-> content of the data  *)
(*          dictionary of its boundary grid                                 *)
(* (the harness writes the object's own name into a data dictionary when    *)
(* the object is added, so "replacement keeps the data dictionaries" reads   *)
(* tag[new] = tag[old]).                                                    *)
(*                                                                         *)
(* RefApply gives the state after one recorded call.  The clauses of C24    *)
(* are predicates over (st, o) where `o` is what the public API of the      *)
(* real container answered (all listings and lookups, see harness/props/    *)
(* c24.py:observe):                                                         *)
(*    ListingSorted       subdomains(), subdomains(dim=d): each present     *)
(*                        subdomain once, by decreasing dim then id         *)
(*    InterfaceListing    interfaces(), interfaces(dim=d): the same         *)
(*    PairRoundTrip       interface_to_subdomain_pair (higher dim first),   *)
(*                        subdomain_pair_to_interface (both orders),        *)
(*                        subdomain_to_interfaces, neighboring_subdomains   *)
(*    OneBoundaryGrid     every present subdomain of dim > 0 has exactly    *)
(*                        one boundary grid (its own), 0-d and absent ones   *)
(*                        none; boundaries() lists them sorted              *)
(*    DataCarriedOver     data dictionaries follow their object through      *)
(*                        replacements                                      *)
(*    NoDangling          membership tests, counts; no lookup raised        *)
(* and on transitions                                                       *)
(*    Accepted            a call of the family does not raise               *)
(*    RemoveExact         removal deletes exactly the subdomain, its        *)
(*                        interfaces and its boundary grid                  *)
(***************************************************************************)
EXTENDS Integers, Sequences, FiniteSets, TLC

SetOf(s) == {s[k] : k \in 1..Len(s)}
AbsV(x) == IF x < 0 THEN -x ELSE x
Restrict(f, S) == [x \in S |-> f[x]]

\* the order of every listing: decreasing dimension, then increasing creation id
Before(K, x, y) == K[x] > K[y] \/ (K[x] = K[y] /\ x < y)
RECURSIVE SortedSeq(_, _)
SortedSeq(K, S) ==
  IF S = {} THEN <<>>
  ELSE LET m == CHOOSE x \in S : \A y \in S \ {x} : Before(K, x, y)
       IN <<m>> \o SortedSeq(K, S \ {m})

EmptySt == [sds |-> {}, ifs |-> <<>>, tag |-> <<>>, itag |-> <<>>, btag |-> <<>>]

Touches(st, s) == {i \in DOMAIN st.ifs : st.ifs[i][1] = s \/ st.ifs[i][2] = s}
Other(p, s) == IF p[1] = s THEN p[2] ELSE p[1]
Neigh(st, s) == {Other(st.ifs[i], s) : i \in Touches(st, s)}
Pos(D, st) == {s \in st.sds : D[s] > 0}
HiLo(D, a, b) == IF Before(D, a, b) THEN <<a, b>> ELSE <<b, a>>

(* ----------------------------- the family of calls ----------------------------------------- *)
\* add_subdomains(L): L a duplicate-free list of pool grids
FamAdd(D, st, L) == Len(L) > 0 /\ Cardinality(SetOf(L)) = Len(L) /\ SetOf(L) \subseteq 1..Len(D)
\* add_interface(i, (a, b)): both subdomains present and distinct, at most one interface per pair, the mortar
\* grid has the dimension of the lower-dimensional side
FamAddIntf(D, M, st, i, a, b) ==
  /\ i \in 1..Len(M) /\ a # b /\ {a, b} \subseteq st.sds
  /\ M[i] = (IF D[a] < D[b] THEN D[a] ELSE D[b])
  /\ \A j \in DOMAIN st.ifs \ {i} : {st.ifs[j][1], st.ifs[j][2]} # {a, b}
FamRemove(st, s) == s \in st.sds
\* replace one subdomain by a grid of the same dimension that is not in the container
FamReplaceOne(D, st, old, new) == old \in st.sds /\ new \in (1..Len(D)) \ st.sds /\ D[old] = D[new]
FamReplaceIntf(st, i) == i \in DOMAIN st.ifs
\* sd_map = sequence of <<old, new>>: applying the entries in order, each one is in the family
\* (IF, not a disjunction: inside an action TLC explores both disjuncts)
RECURSIVE FamReplaceSeq(_, _, _)
FamReplaceSeq(D, st, map) ==
  IF map = <<>> THEN TRUE
  ELSE /\ FamReplaceOne(D, st, map[1][1], map[1][2])
       /\ FamReplaceSeq(D, [st EXCEPT !.sds = (@ \ {map[1][1]}) \cup {map[1][2]}], Tail(map))
\* recorded call e (JSON object with field ev)
FamCall(D, M, st, e) ==
  CASE e.ev = "add" -> FamAdd(D, st, e.L)
    [] e.ev = "addintf" -> FamAddIntf(D, M, st, e.i, e.a, e.b)
    [] e.ev = "remove" -> FamRemove(st, e.s)
    [] e.ev = "replace" -> e.map # <<>> /\ FamReplaceSeq(D, st, e.map)
    [] e.ev = "replaceintf" -> FamReplaceIntf(st, e.i)

(* ----------------------------- reference semantics ----------------------------------------- *)
\* every operation returns [st |-> state after the call, ok |-> must the call be accepted?]
\* a rejected call (documented ValueError) leaves the container as it was
RefAdd(D, st, L) ==
  IF SetOf(L) \cap st.sds # {} THEN [st |-> st, ok |-> FALSE]
  ELSE LET S == SetOf(L)
           P == {s \in S : D[s] > 0}
       IN [st |-> [st EXCEPT !.sds = @ \cup S,
                             !.tag = [s \in S |-> s] @@ @,
                             !.btag = [s \in P |-> s] @@ @],
           ok |-> TRUE]

RefAddIntf(D, st, i, a, b) ==
  IF i \in DOMAIN st.ifs \/ AbsV(D[a] - D[b]) >= 3 THEN [st |-> st, ok |-> FALSE]
  ELSE [st |-> [st EXCEPT !.ifs = (i :> HiLo(D, a, b)) @@ @, !.itag = (i :> i) @@ @], ok |-> TRUE]

RefRemove(D, st, s) ==
  LET keep == DOMAIN st.ifs \ Touches(st, s)
      S == st.sds \ {s}
      B == DOMAIN st.btag \ {s}
  IN [st |-> [sds |-> S, ifs |-> Restrict(st.ifs, keep), tag |-> Restrict(st.tag, S),
              itag |-> Restrict(st.itag, keep), btag |-> Restrict(st.btag, B)],
      ok |-> TRUE]

RefReplaceOne(D, st, old, new) ==
  LET S == (st.sds \ {old}) \cup {new}
      sub(x) == IF x = old THEN new ELSE x
      B == IF old \in DOMAIN st.btag THEN (DOMAIN st.btag \ {old}) \cup {new} ELSE DOMAIN st.btag
  IN [sds |-> S,
      ifs |-> [i \in DOMAIN st.ifs |-> <<sub(st.ifs[i][1]), sub(st.ifs[i][2])>>],
      tag |-> [s \in S |-> IF s = new THEN st.tag[old] ELSE st.tag[s]],
      itag |-> st.itag,
      btag |-> [s \in B |-> IF s = new THEN st.btag[old] ELSE st.btag[s]]]

\* sd_map as a sequence of <<old, new>>, applied in order
RECURSIVE RefReplaceSeq(_, _, _)
RefReplaceSeq(D, st, map) ==
  IF map = <<>> THEN st ELSE RefReplaceSeq(D, RefReplaceOne(D, st, map[1][1], map[1][2]), Tail(map))
RefReplace(D, st, map) == [st |-> RefReplaceSeq(D, st, map), ok |-> TRUE]

\* recorded call e (JSON object with field ev)
RefApply(D, st, e) ==
  CASE e.ev = "add" -> RefAdd(D, st, e.L)
    [] e.ev = "addintf" -> RefAddIntf(D, st, e.i, e.a, e.b)
    [] e.ev = "remove" -> RefRemove(D, st, e.s)
    [] e.ev = "replace" -> RefReplace(D, st, e.map)
    [] e.ev = "replaceintf" -> [st |-> st, ok |-> TRUE]    \* the mortar grid is updated in place

(* ----------------------------- clauses on an observed state -------------------------------- *)
IsSd(D, x) == x \in 1..Len(D)

ListingSorted(D, st, o) ==
  /\ o.sds = SortedSeq(D, st.sds)
  /\ \A d \in 0..3 : o.by_dim[d + 1] = SortedSeq(D, {s \in st.sds : D[s] = d})

InterfaceListing(M, st, o) ==
  /\ o.ifs = SortedSeq(M, DOMAIN st.ifs)
  /\ \A d \in 0..2 : o.if_by_dim[d + 1] = SortedSeq(M, {i \in DOMAIN st.ifs : M[i] = d})

PairRoundTrip(D, M, st, o) ==
  /\ Len(o.pair) = Len(o.ifs) /\ Len(o.back) = Len(o.ifs) /\ Len(o.back_rev) = Len(o.ifs)
  /\ \A k \in 1..Len(o.ifs) : o.ifs[k] \in DOMAIN st.ifs =>
       LET p == o.pair[k]
           want == st.ifs[o.ifs[k]]
       IN /\ {p[1], p[2]} = {want[1], want[2]}
          /\ D[p[1]] >= D[p[2]]                           \* higher-dimensional subdomain first
          /\ o.back[k] = o.ifs[k] /\ o.back_rev[k] = o.ifs[k]
  /\ Len(o.sd_ifs) = Len(o.sds) /\ Len(o.neigh) = Len(o.sds)
  /\ \A k \in 1..Len(o.sds) : o.sds[k] \in st.sds =>
       LET s == o.sds[k]
           N == Neigh(st, s)
       IN /\ o.sd_ifs[k] = SortedSeq(M, Touches(st, s))
          /\ o.neigh[k] = SortedSeq(D, N)
          /\ o.neigh_hi[k] = SortedSeq(D, {x \in N : D[x] > D[s]})
          /\ o.neigh_lo[k] = SortedSeq(D, {x \in N : D[x] < D[s]})

\* boundaries() answers [kind |-> "list", ...] or refuses with its documented guard ("subdomains but no boundary
\* grids") - accepted exactly when no present subdomain has positive dimension.  bnd_rank = rank of the real creation id.
OneBoundaryGrid(D, st, o) ==
  /\ Len(o.sd_bg) = Len(o.sds)
  /\ \A k \in 1..Len(o.sds) : IsSd(D, o.sds[k]) =>
        o.sd_bg[k] = IF D[o.sds[k]] > 0 THEN o.sds[k] ELSE -1
  /\ o.absent_bg_none
  /\ CASE o.bnd_kind = "list" ->
            /\ SetOf(o.bnd_parent) = Pos(D, st) /\ Len(o.bnd_parent) = Cardinality(Pos(D, st))
            /\ \A k \in 1..Len(o.bnd_parent) : o.bnd_dim[k] = D[o.bnd_parent[k]] - 1
            /\ \A j, k \in 1..Len(o.bnd_parent) : j < k =>
                 \/ o.bnd_dim[j] > o.bnd_dim[k]
                 \/ (o.bnd_dim[j] = o.bnd_dim[k] /\ o.bnd_rank[j] < o.bnd_rank[k])
            /\ \A k \in 1..Len(o.sds) : (IsSd(D, o.sds[k]) /\ D[o.sds[k]] > 0) =>
                 (o.sd_bg_pos[k] \in 1..Len(o.bnd_parent) /\ o.bnd_parent[o.sd_bg_pos[k]] = o.sds[k])
       [] o.bnd_kind = "guard" -> st.sds # {} /\ Pos(D, st) = {}
       [] OTHER -> FALSE

DataCarriedOver(D, st, o) ==
  /\ Len(o.sd_tag) = Len(o.sds)
  /\ \A k \in 1..Len(o.sds) : o.sds[k] \in st.sds => o.sd_tag[k] = st.tag[o.sds[k]]
  /\ Len(o.if_tag) = Len(o.ifs)
  /\ \A k \in 1..Len(o.ifs) : o.ifs[k] \in DOMAIN st.ifs => o.if_tag[k] = st.itag[o.ifs[k]]
  /\ o.bnd_kind = "list" =>
       \A k \in 1..Len(o.bnd_parent) : o.bnd_parent[k] \in DOMAIN st.btag => o.bnd_tag[k] = st.btag[o.bnd_parent[k]]

NoDangling(D, M, st, o) ==
  /\ o.has_sd = [g \in 1..Len(D) |-> g \in st.sds]
  /\ o.has_if = [i \in 1..Len(M) |-> i \in DOMAIN st.ifs]
  /\ o.nsd = Cardinality(st.sds) /\ o.nif = Cardinality(DOMAIN st.ifs)
  /\ o.errors = <<>>

(* ----------------------------- clauses on an observed transition --------------------------- *)
\* src, dst: observations before / after remove_subdomain(s); res: outcome of the call
RemoveExact(res, s, src, dst) ==
  /\ res = "ok"
  /\ SetOf(dst.sds) = SetOf(src.sds) \ {s}
  /\ SetOf(dst.ifs) = SetOf(src.ifs) \ {src.ifs[k] : k \in {j \in 1..Len(src.ifs) : s \in SetOf(src.pair[j])}}
  /\ SetOf(dst.bnd_parent) = SetOf(src.bnd_parent) \ {s}
=============================================================================
