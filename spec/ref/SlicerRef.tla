------------------------------ MODULE SlicerRef ------------------------------
(***************************************************************************)
(* C36  Array slicers act exactly like their projection matrices.          *)
(*                                                                         *)
(* Pure module (no variables): reference semantics, the mechanism model of *)
(* pp.matrix_operations.ArraySlicer, and the interpreter of slicer         *)
(* PROGRAMS that both the enumerating state machine (spec/sys/Slicer.tla)  *)
(* and the judge (spec/trace/J_Slicer.tla) use.                            *)
(*                                                                         *)
(* Slicer data  s = [dom, rng, ds, rs]: index pairs (dom[k], rng[k])       *)
(* (0-based, a partial injection: dom and rng without repetitions), domain *)
(* size ds and range size rs.  Its projection matrix ProjMat(s) is the     *)
(* rs x ds integer matrix with a 1 at (rng[k], dom[k]) for every k.        *)
(*                                                                         *)
(* Values  v = [kind, val, jac, fmt]: kind "vec" (n x 1), "mat" (dense     *)
(* 2-D), "sp" (sparse matrix, given densely), "ad" (forward-mode AdArray:  *)
(* val n x 1 and Jacobian jac n x k), "sc" (scalar, val = <<<<c>>>>).      *)
(* All matrices are sequences of rows of integers with >= 1 row, >= 1 col. *)
(* fmt only tells the harness which concrete Python type to build.         *)
(*                                                                         *)
(* REFERENCE (the property): a slicer expression denotes a sequence of     *)
(* layers, innermost first: a layer is a projection matrix or a pending    *)
(* left operation "x op ( . )".  Its value on y is the value of THE        *)
(* EXPRESSION AS WRITTEN computed with explicit matrices:                  *)
(*    S @ y = ProjMat(S) y,   S.T @ y = ProjMat(S)^T y,                    *)
(*    (Si @ Sj) @ y = Si @ (Sj @ y),    (x op S) @ y = x op (S @ y).       *)
(* Property clause (J_Slicer!ApplyEqualsRef): every `S @ y` executed by a  *)
(* program on real ArraySlicer objects returns RefEval(Den(S), y).         *)
(*                                                                         *)
(* MECHANISM (drift only): objects in a heap with ONE pending slot         *)
(* (operation + operand); Si @ Sj returns a copy of Sj whose pending       *)
(* operand is Si (CopyOnMatmul = FALSE: the pre-71a4f5582 code, which      *)
(* wrote into Sj itself and returned it); x op S returns a copy of S with  *)
(* pending (op, x); .T builds a fresh object with swapped index sets.      *)
(***************************************************************************)
EXTENDS Integers, Sequences, FiniteSets

(* ------------------------------ matrices --------------------------------- *)
Rows(M) == Len(M)
Cols(M) == Len(M[1])
RECURSIVE DotK(_, _, _, _, _)
DotK(A, B, i, j, k) == IF k = 0 THEN 0 ELSE A[i][k] * B[k][j] + DotK(A, B, i, j, k - 1)
MatMul(A, B) == [i \in 1..Rows(A) |-> [j \in 1..Cols(B) |-> DotK(A, B, i, j, Cols(A))]]
Map(M, F(_)) == [i \in 1..Rows(M) |-> [j \in 1..Cols(M) |-> F(M[i][j])]]
AllEntries(M, Pred(_)) == \A i \in 1..Rows(M) : \A j \in 1..Cols(M) : Pred(M[i][j])
Const(n, c) == [i \in 1..n |-> <<c>>]
RECURSIVE IPow(_, _)
IPow(b, e) == IF e = 0 THEN 1 ELSE b * IPow(b, e - 1)

(* ------------------------------ slicer data ------------------------------ *)
NoRep(q) == \A i, j \in 1..Len(q) : i # j => q[i] # q[j]
InRange(q, n) == \A i \in 1..Len(q) : q[i] >= 0 /\ q[i] < n
\* the family of the property: partial injections between index ranges of positive size
IsSlicer(s) == /\ Len(s.dom) = Len(s.rng) /\ s.ds >= 1 /\ s.rs >= 1
               /\ NoRep(s.dom) /\ NoRep(s.rng) /\ InRange(s.dom, s.ds) /\ InRange(s.rng, s.rs)
ProjMat(s) == [r \in 1..s.rs |-> [c \in 1..s.ds |->
                 IF \E k \in 1..Len(s.dom) : s.rng[k] = r - 1 /\ s.dom[k] = c - 1 THEN 1 ELSE 0]]
TransposeOf(s) == [dom |-> s.rng, rng |-> s.dom, ds |-> s.rs, rs |-> s.ds]
Iota(n) == [k \in 1..n |-> k - 1]
MaxOf(q) == CHOOSE m \in {q[k] : k \in 1..Len(q)} : \A k \in 1..Len(q) : q[k] <= m

\* which constructor calls produce s (the harness builds the object the way `mode` says):
\*   full    ArraySlicer(dom, rng, range_size, domain_size)
\*   dom     ArraySlicer(domain_indices=dom, domain_size=ds)          (the `onto` fast path)
\*   dominf  ArraySlicer(domain_indices=dom)                          (domain size inferred)
\*   domrs   ArraySlicer(domain_indices=dom, range_size, domain_size)
\*   rng     ArraySlicer(range_indices=rng, range_size, domain_size)
\*   rnginf  ArraySlicer(range_indices=rng)                           (both sizes inferred)
\*   infer   ArraySlicer(dom, rng)                                    (both sizes inferred)
Modes(s) ==
  LET n == Len(s.dom) IN
    {"full"}
    \cup (IF n >= 1 /\ s.rng = Iota(n) /\ s.rs = n THEN {"dom"} ELSE {})
    \cup (IF n >= 1 /\ s.rng = Iota(n) /\ s.rs = n /\ s.ds = MaxOf(s.dom) + 1 THEN {"dominf"} ELSE {})
    \cup (IF n >= 1 /\ s.rng = Iota(n) THEN {"domrs"} ELSE {})
    \cup (IF n >= 1 /\ s.dom = Iota(n) THEN {"rng"} ELSE {})
    \cup (IF n >= 1 /\ s.dom = Iota(n) /\ s.ds = n /\ s.rs = MaxOf(s.rng) + 1 THEN {"rnginf"} ELSE {})
    \cup (IF n >= 1 /\ s.ds = MaxOf(s.dom) + 1 /\ s.rs = MaxOf(s.rng) + 1 THEN {"infer"} ELSE {})

(* -------------------------------- values --------------------------------- *)
Val(kind, val, jac, fmt) == [kind |-> kind, val |-> val, jac |-> jac, fmt |-> fmt]
Undef == Val("undef", <<>>, <<>>, "")
NoVal == Val("none", <<>>, <<>>, "")

\* P y with the explicit matrix (a scalar is broadcast to the domain space first)
PApply(s, v) ==
  IF v.kind = "undef" THEN Undef
  ELSE IF v.kind = "sc" THEN Val("vec", MatMul(ProjMat(s), Const(s.ds, v.val[1][1])), <<>>, "")
  ELSE IF Rows(v.val) # s.ds THEN Undef
  ELSE IF v.kind = "ad" THEN Val("ad", MatMul(ProjMat(s), v.val), MatMul(ProjMat(s), v.jac), "")
  ELSE Val(v.kind, MatMul(ProjMat(s), v.val), <<>>, "")

\* x op v for the left operands the class documents: Python scalars with * / + - ** and sparse matrices with @
\* (for scipy's spmatrix classes * is the matrix product as well).  Undef = outside the family:
\* division by an entry that is zero or does not divide x, negative exponents, scalar +,-,/,** on sparse
\* results, / and ** on AdArrays (non-integer derivatives), sparse * AdArray (rejected by AdArray itself).
LeftOp(op, x, v) ==
  IF v.kind = "undef" THEN Undef
  ELSE IF x.kind = "sp" /\ op \in {"@", "*"} THEN
    IF Cols(x.val) # Rows(v.val) \/ (op = "*" /\ v.kind = "ad") THEN Undef   \* AdArray rejects sparse * AdArray
    ELSE IF v.kind = "ad" THEN Val("ad", MatMul(x.val, v.val), MatMul(x.val, v.jac), "")
    ELSE Val(v.kind, MatMul(x.val, v.val), <<>>, "")
  ELSE IF x.kind = "sc" THEN
    LET c == x.val[1][1]
        Mul(e) == c * e
        Add(e) == c + e
        Sub(e) == c - e
        Neg(e) == 0 - e
        Div(e) == c \div e
        Pow(e) == IPow(c, e)
        DivOK(e) == e > 0 /\ c > 0 /\ c % e = 0
        PowOK(e) == e >= 0
    IN CASE op = "*" -> Val(v.kind, Map(v.val, Mul), IF v.kind = "ad" THEN Map(v.jac, Mul) ELSE <<>>, "")
         [] op = "+" /\ v.kind \in {"vec", "mat", "ad"} -> Val(v.kind, Map(v.val, Add), v.jac, "")
         [] op = "-" /\ v.kind \in {"vec", "mat", "ad"} ->
              Val(v.kind, Map(v.val, Sub), IF v.kind = "ad" THEN Map(v.jac, Neg) ELSE <<>>, "")
         [] op = "/" /\ v.kind \in {"vec", "mat"} /\ AllEntries(v.val, DivOK) -> Val(v.kind, Map(v.val, Div), <<>>, "")
         [] op = "**" /\ v.kind \in {"vec", "mat"} /\ AllEntries(v.val, PowOK) -> Val(v.kind, Map(v.val, Pow), <<>>, "")
         [] OTHER -> Undef
  ELSE Undef

(* ------------------------ denotations (reference) ------------------------ *)
PLayer(s) == [t |-> "P", s |-> s, op |-> "", x |-> NoVal]
LLayer(op, x) == [t |-> "L", s |-> [dom |-> <<>>, rng |-> <<>>, ds |-> 0, rs |-> 0], op |-> op, x |-> x]
RECURSIVE RefEvalFrom(_, _, _)
RefEvalFrom(den, k, v) ==
  IF k > Len(den) THEN v
  ELSE RefEvalFrom(den, k + 1, IF den[k].t = "P" THEN PApply(den[k].s, v) ELSE LeftOp(den[k].op, den[k].x, v))
RefEval(den, y) == RefEvalFrom(den, 1, y)
\* rows the expression consumes / produces (first layer is always a projection)
InRows(den) == den[1].s.ds
RECURSIVE OutRowsTo(_, _)
OutRowsTo(den, k) == IF den[k].t = "P" THEN den[k].s.rs
                     ELSE IF den[k].x.kind = "sp" THEN Rows(den[k].x.val) ELSE OutRowsTo(den, k - 1)
OutRows(den) == OutRowsTo(den, Len(den))

(* ----------------------------- mechanism --------------------------------- *)
\* the two slicing code paths: `onto` picks rows, otherwise rows are scattered into a zero array in index order
SliceRows(s, onto, M) ==
  LET zero == [j \in 1..Cols(M) |-> 0] IN
  IF onto THEN [k \in 1..Len(s.dom) |-> M[s.dom[k] + 1]]
  ELSE [r \in 1..s.rs |->
          LET ks == {k \in 1..Len(s.rng) : s.rng[k] = r - 1} IN
            IF ks = {} THEN zero ELSE M[s.dom[CHOOSE k \in ks : \A k2 \in ks : k2 <= k] + 1]]
ImplSlice(o, v) ==
  IF v.kind = "undef" THEN Undef
  ELSE IF v.kind = "sc" THEN Val("vec", SliceRows(o.s, o.onto, Const(o.s.ds, v.val[1][1])), <<>>, "")
  ELSE IF Rows(v.val) # o.s.ds THEN Undef
  ELSE IF v.kind = "ad" THEN Val("ad", SliceRows(o.s, o.onto, v.val), SliceRows(o.s, o.onto, v.jac), "")
  ELSE Val(v.kind, SliceRows(o.s, o.onto, v.val), <<>>, "")

Obj(s, onto, tr, pk, pop, pref, pval) ==
  [s |-> s, onto |-> onto, tr |-> tr, pk |-> pk, pop |-> pop, pref |-> pref, pval |-> pval]
RECURSIVE ImplApply(_, _, _)
ImplApply(heap, a, v) ==
  LET o == heap[a]
      sliced == ImplSlice(o, v)
  IN IF o.pk = "none" THEN sliced
     ELSE IF o.pk = "ref" THEN ImplApply(heap, o.pref, sliced)
     ELSE LeftOp(o.pop, o.pval, sliced)

(* ------------------------------- programs -------------------------------- *)
\* statements (uniform records); every statement except "app" binds the next name (1, 2, 3, ... in program order)
\*   new  s mode        Sk = ArraySlicer(...)
\*   T    i             Sk = Si.T
\*   mm   i j           Sk = Si @ Sj
\*   rop  op v i        Sk = v op Si
\*   app  i v           result = Si @ v          (results are collected in program order)
DummyS == [dom |-> <<>>, rng |-> <<>>, ds |-> 0, rs |-> 0]
Stmt(st, i, j, op, s, mode, v) == [st |-> st, i |-> i, j |-> j, op |-> op, s |-> s, mode |-> mode, v |-> v]
SNew(s, mode) == Stmt("new", 0, 0, "", s, mode, NoVal)
ST(i) == Stmt("T", i, 0, "", DummyS, "", NoVal)
SMM(i, j) == Stmt("mm", i, j, "", DummyS, "", NoVal)
SROp(op, x, i) == Stmt("rop", i, 0, op, DummyS, "", x)
SApp(i, y) == Stmt("app", i, 0, "", DummyS, "", y)

\* compact (positional) form of a program, used when programs travel as JSON between TLC and the harness
Pack(q) ==
  CASE q.st = "new" -> <<"new", q.s.dom, q.s.rng, q.s.ds, q.s.rs, q.mode>>
    [] q.st = "T"   -> <<"T", q.i>>
    [] q.st = "mm"  -> <<"mm", q.i, q.j>>
    [] q.st = "rop" -> <<"rop", q.op, q.i, q.v.kind, q.v.fmt, q.v.val>>
    [] q.st = "app" -> <<"app", q.i, q.v.kind, q.v.fmt, q.v.val, q.v.jac>>
Unpack(c) ==
  CASE c[1] = "new" -> SNew([dom |-> c[2], rng |-> c[3], ds |-> c[4], rs |-> c[5]], c[6])
    [] c[1] = "T"   -> ST(c[2])
    [] c[1] = "mm"  -> SMM(c[2], c[3])
    [] c[1] = "rop" -> SROp(c[2], Val(c[4], c[6], <<>>, c[5]), c[3])
    [] c[1] = "app" -> SApp(c[2], Val(c[3], c[5], c[6], c[4]))
PackProg(p) == [k \in 1..Len(p) |-> Pack(p[k])]
UnpackProg(p) == [k \in 1..Len(p) |-> Unpack(p[k])]

\* run state: heap of mechanism objects, addr[name] = heap address, den[name] = denotation, taint[name] = the
\* expression of this name attached a pending operand to an object that already carried one (the single pending
\* slot of the mechanism then forgets the older operand); outI / outR = mechanism / reference result of every
\* "app" so far, outT = whether the applied name was tainted
RS0 == [heap |-> <<>>, addr |-> <<>>, den |-> <<>>, taint |-> <<>>, outI |-> <<>>, outR |-> <<>>, outT |-> <<>>]
Bind(rs, heap, a, den, taint) ==
  [rs EXCEPT !.heap = heap, !.addr = Append(rs.addr, a), !.den = Append(rs.den, den), !.taint = Append(rs.taint, taint)]
HasPending(rs, i) == rs.heap[rs.addr[i]].pk # "none"

Step(rs, q, copyOnMatmul) ==
  CASE q.st = "new" ->
         Bind(rs, Append(rs.heap, Obj(q.s, q.mode \in {"dom", "dominf"}, FALSE, "none", "", 0, NoVal)),
              Len(rs.heap) + 1, <<PLayer(q.s)>>, FALSE)
    [] q.st = "T" ->
         LET o == rs.heap[rs.addr[q.i]] IN
         Bind(rs, Append(rs.heap, Obj(TransposeOf(o.s), FALSE, TRUE, "none", "", 0, NoVal)),
              Len(rs.heap) + 1, <<PLayer(TransposeOf(rs.den[q.i][1].s))>>, FALSE)
    [] q.st = "mm" ->
         LET aj == rs.addr[q.j]
             oj == rs.heap[aj]
             o2 == [oj EXCEPT !.pk = "ref", !.pop = "@", !.pref = rs.addr[q.i], !.pval = NoVal]
             den == rs.den[q.j] \o rs.den[q.i]
             taint == rs.taint[q.i] \/ rs.taint[q.j] \/ oj.pk # "none"
         IN IF copyOnMatmul THEN Bind(rs, Append(rs.heap, o2), Len(rs.heap) + 1, den, taint)
            ELSE Bind(rs, [rs.heap EXCEPT ![aj] = o2], aj, den, taint)
    [] q.st = "rop" ->
         LET oi == rs.heap[rs.addr[q.i]]
             o2 == [oi EXCEPT !.pk = "val", !.pop = q.op, !.pref = 0, !.pval = q.v]
         IN Bind(rs, Append(rs.heap, o2), Len(rs.heap) + 1, Append(rs.den[q.i], LLayer(q.op, q.v)),
                 rs.taint[q.i] \/ oi.pk # "none")
    [] q.st = "app" ->
         [rs EXCEPT !.outI = Append(@, ImplApply(rs.heap, rs.addr[q.i], q.v)),
                    !.outR = Append(@, RefEval(rs.den[q.i], q.v)),
                    !.outT = Append(@, rs.taint[q.i])]

RECURSIVE RunFrom(_, _, _, _)
RunFrom(rs, prog, k, copyOnMatmul) ==
  IF k > Len(prog) THEN rs ELSE RunFrom(Step(rs, prog[k], copyOnMatmul), prog, k + 1, copyOnMatmul)
Run(prog, copyOnMatmul) == RunFrom(RS0, prog, 1, copyOnMatmul)

\* comparison of a result with a model value (values only; the container type is compared separately)
SameNumbers(a, b) == a.kind # "undef" /\ b.kind # "undef" /\ a.val = b.val /\ a.jac = b.jac
SameKind(a, b) == a.kind = b.kind
==============================================================================
