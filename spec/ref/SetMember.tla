------------------------------ MODULE SetMember ------------------------------
(***************************************************************************)
(* Brute-force reference for the membership / set-intersection helpers of  *)
(* pp.array_operations (C34).  A column set is a sequence of columns, a    *)
(* column a tuple of integers; indices are 1-based (the harness adds 1).   *)
(*                                                                         *)
(* ismember_columns(a, b, sort): ismem[i] <=> column i of a equals some    *)
(*   column of b (with sort: as multisets of entries, i.e. after sorting   *)
(*   each column); ia = for every member of a, in order, the index of a    *)
(*   twin column of b (any twin: the code's choice among duplicate columns  *)
(*   of b depends on an unstable sort, so validity is demanded).           *)
(* intersect_sets(a, b, tol): columns are points; Near = distance <= tol   *)
(*   (tol = tn / td, exact; tn = 0 is equality).  ia / ib = sorted indices *)
(*   of the columns of a / b that have a near column in the other set,      *)
(*   a_in_b the flags, intersection[i] = the near columns of b (as a set). *)
(*   BandFree: no pair at distance exactly tol (excluded from the family).  *)
(***************************************************************************)
EXTENDS Integers, Sequences, FiniteSets

SMin(S) == CHOOSE x \in S : \A y \in S : x <= y
RECURSIVE SSort(_)
SSort(S) == IF S = {} THEN <<>> ELSE LET m == SMin(S) IN <<m>> \o SSort(S \ {m})
\* a column with its entries sorted ascending (insertion sort)
RECURSIVE Insert(_, _)
Insert(s, x) == IF s = <<>> THEN <<x>> ELSE IF x <= Head(s) THEN <<x>> \o s ELSE <<Head(s)>> \o Insert(Tail(s), x)
RECURSIVE SortCol(_)
SortCol(c) == IF c = <<>> THEN <<>> ELSE Insert(SortCol(Tail(c)), Head(c))
Key(c, sort) == IF sort THEN SortCol(c) ELSE c

IsMemRef(a, b, sort) == [i \in 1..Len(a) |-> \E j \in 1..Len(b) : Key(a[i], sort) = Key(b[j], sort)]
Members(a, b, sort) == SSort({i \in 1..Len(a) : IsMemRef(a, b, sort)[i]})
WitnessOK(a, b, sort, ia) ==
  LET mem == Members(a, b, sort) IN
    /\ Len(ia) = Len(mem)
    /\ \A k \in 1..Len(ia) : ia[k] \in 1..Len(b) /\ Key(b[ia[k]], sort) = Key(a[mem[k]], sort)

RECURSIVE SD2(_, _)
SD2(p, q) == IF p = <<>> THEN 0 ELSE (Head(p) - Head(q)) * (Head(p) - Head(q)) + SD2(Tail(p), Tail(q))
Near(p, q, tn, td) == SD2(p, q) * td * td <= tn * tn
BandFree(a, b, tn, td) == tn = 0 \/ \A i \in 1..Len(a), j \in 1..Len(b) : SD2(a[i], b[j]) * td * td # tn * tn
InterRef(a, b, tn, td) == [i \in 1..Len(a) |-> {j \in 1..Len(b) : Near(a[i], b[j], tn, td)}]
IaRef(a, b, tn, td) == SSort({i \in 1..Len(a) : InterRef(a, b, tn, td)[i] # {}})
IbRef(a, b, tn, td) == SSort(UNION {InterRef(a, b, tn, td)[i] : i \in 1..Len(a)})
AinBRef(a, b, tn, td) == [i \in 1..Len(a) |-> InterRef(a, b, tn, td)[i] # {}]
SeqSet(s) == {s[k] : k \in 1..Len(s)}
=============================================================================
