------------------------------ MODULE TessEnum ------------------------------
(***************************************************************************)
(* C33 enumerator.                                                         *)
(*  kind "line": for every N in Ns, every pair of partitions of [0, N]     *)
(*     with integer breakpoints (all subsets of the interior points);      *)
(*     emitted with the reference overlap matrix; laws LawRows, LawCols,   *)
(*     LawAveraged of Tessellation.tla are checked on each pair.           *)
(*  kind "tri": for every rectangle <<a, b>> in Rects, every ordered pair  *)
(*     of members of TriFamily(a, b); emitted as two sequences of          *)
(*     triangles; law LawTri on each member.                               *)
(***************************************************************************)
EXTENDS Tessellation, Json, TLC

CONSTANTS Ns, Rects
VARIABLES st, kind, dom, A, B
vars == <<st, kind, dom, A, B>>

\* the breakpoint sequence 0 < (elements of S in increasing order) < n
RECURSIVE SortedSeq(_)
SortedSeq(S) == IF S = {} THEN <<>>
                ELSE LET m == CHOOSE x \in S : \A y \in S : x <= y IN <<m>> \o SortedSeq(S \ {m})
Breaks(n, S) == <<0>> \o SortedSeq(S) \o <<n>>

Init == /\ st = 0 /\ B = <<>>
        /\ \/ /\ kind = "line" /\ dom \in {<<n, 0>> : n \in Ns}
              /\ A \in {Breaks(dom[1], S) : S \in SUBSET (1..(dom[1] - 1))}
           \/ /\ kind = "tri" /\ dom \in Rects
              /\ A \in {TrisOf(dom[1], dom[2], m) : m \in TriFamily(dom[1], dom[2])}
Next == /\ st = 0 /\ st' = 1 /\ UNCHANGED <<kind, dom, A>>
        /\ IF kind = "line"
           THEN B' \in {Breaks(dom[1], S) : S \in SUBSET (1..(dom[1] - 1))}
           ELSE B' \in {TrisOf(dom[1], dom[2], m) : m \in TriFamily(dom[1], dom[2])}
Spec == Init /\ [][Next]_vars

RefMatrix == [i \in 1..NCells(A) |-> [j \in 1..NCells(B) |-> LineOverlapRef(Cell(A, i), Cell(B, j))]]
Emit == st = 1 =>
          IF kind = "line"
          THEN PrintT(ToJson([kind |-> kind, n |-> dom[1], X |-> A, Y |-> B, ref |-> RefMatrix]))
          ELSE PrintT(ToJson([kind |-> kind, a |-> dom[1], b |-> dom[2], t1 |-> A, t2 |-> B]))
Laws == st = 1 =>
          IF kind = "line"
          THEN /\ IsBreaks(A, dom[1]) /\ IsBreaks(B, dom[1])
               /\ LawRows(A, B) /\ LawCols(A, B) /\ LawAveraged(A, B)
          ELSE LawTriOf(dom[1], dom[2], A) /\ LawTriOf(dom[1], dom[2], B)
=============================================================================
