---------------------------- MODULE FileRoundTrip ----------------------------
(***************************************************************************)
(* C47  Fracture network and data files round-trip.                        *)
(*                                                                         *)
(* Pure operators used by FileRoundTripEnum.tla (enumeration of networks / *)
(* array sets / reader and writer options) and J_FileRoundTrip.tla (the    *)
(* judgement of what the real writers and readers did).  Real code:        *)
(*   FractureNetwork2d.to_csv(file, with_header)                           *)
(*     -> fracture_importer.network_2d_from_csv(file, tagcols,             *)
(*          max_num_fracs, return_frac_id, domain, skip_header)            *)
(*   FractureNetwork3d.to_csv(file, domain)                                *)
(*     -> fracture_importer.network_3d_from_csv(file, has_domain)          *)
(*   txt_io.export_data_to_txt(list of TxtData, file)                      *)
(*     -> txt_io.read_data_from_txt(file)                                  *)
(*                                                                         *)
(* Numbers: the enumerator works with DOUBLED coordinates (integers h that *)
(* mean h / 2: integers and half-integers, negative ones included).  What  *)
(* the code holds / reads back reaches TLC as normalised rationals         *)
(* <<n, d>>, d > 0  (<<0, 0>>: not a rational with a small denominator).   *)
(* The reference model of a file round trip is the identity on the         *)
(* abstract content:                                                       *)
(*   2D network  = bag of line fractures, a fracture = unordered pair of   *)
(*                 end points; max_num_fracs = k keeps the first k written *)
(*   3D network  = bag of polygons, a polygon = cyclic vertex sequence up  *)
(*                 to rotation and reversal; optional domain box           *)
(*   txt data    = function name -> sequence of values                     *)
(***************************************************************************)
EXTENDS Integers, Sequences, FiniteSets, TLC

Abs(x) == IF x < 0 THEN -x ELSE x
Min2(a, b) == IF a <= b THEN a ELSE b
\* the normalised rational of h / 2
Half(h) == IF h % 2 = 0 THEN <<h \div 2, 1>> ELSE <<h, 2>>
Halves(s) == [i \in 1..Len(s) |-> Half(s[i])]
Valid(v) == v[2] > 0
Range(s) == {s[i] : i \in 1..Len(s)}
Count(s, x) == Cardinality({i \in 1..Len(s) : s[i] = x})
SameBag(s, t) == Len(s) = Len(t) /\ \A x \in Range(s) \cup Range(t) : Count(s, x) = Count(t, x)
Prefix(s, k) == SubSeq(s, 1, Min2(k, Len(s)))
AllValid(pt) == \A k \in 1..Len(pt) : Valid(pt[k])

\* ---- 2D: a fracture is <<p, q>>, its geometric content the set {p, q}
SegSet(f) == {f[1], f[2]}
SegSets(fs) == [i \in 1..Len(fs) |-> SegSet(fs[i])]
\* what must be read back when max_num_fracs = k (k = -1: parameter not given)
Expected2(wrote, k) == IF k < 0 THEN wrote ELSE Prefix(wrote, k)
SameFractures2(read, expected) == SameBag(SegSets(read), SegSets(expected))
IotaFrom0(n) == [i \in 1..n |-> i - 1]

\* ---- 3D: polygons as cyclic sequences
SamePolygon(P, Q) ==
  /\ Len(P) = Len(Q)
  /\ \E sh \in 0..(Len(P) - 1) :
       \/ \A i \in 1..Len(P) : Q[i] = P[((i - 1 + sh) % Len(P)) + 1]
       \/ \A i \in 1..Len(P) : Q[i] = P[((sh - i + 1 + 2 * Len(P)) % Len(P)) + 1]
Bijections(n) == {f \in [1..n -> 1..n] : \A i, j \in 1..n : i # j => f[i] # f[j]}
SameFractures3(read, wrote) ==
  /\ Len(read) = Len(wrote)
  /\ \E f \in Bijections(Len(wrote)) : \A i \in 1..Len(wrote) : SamePolygon(wrote[i], read[f[i]])

\* ---- txt: names (sequence of distinct strings) and one value sequence per name
SameData(rnames, rvals, names, vals) ==
  /\ Len(rnames) = Len(rvals)
  /\ Range(rnames) = Range(names) /\ Len(rnames) = Len(names)
  /\ \A i \in 1..Len(names) : \A j \in 1..Len(rnames) : rnames[j] = names[i] => rvals[j] = vals[i]

\* a value h / 2 is written without loss by a format keeping three significant digits ("%2.2e")
RECURSIVE StripZeros(_)
StripZeros(x) == IF x # 0 /\ x % 10 = 0 THEN StripZeros(x \div 10) ELSE x
ThreeDigits(h) == StripZeros(5 * Abs(h)) < 1000
=============================================================================
