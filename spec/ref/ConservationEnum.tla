--------------------------- MODULE ConservationEnum ---------------------------
(***************************************************************************)
(* C04  design level: TLC enumerates small mixed-dimensional flux networks *)
(* (Conservation.tla, PART 1) and checks on every one of them              *)
(*   LawWellFormed   the enumerated network is well-formed                 *)
(*   LawConserved    TotalResidual = TotalAccumulationRate for every       *)
(*                   assignment of accumulation rates, inter-cell fluxes   *)
(*                   and interface fluxes from the value sets              *)
(*   LawIntfCancels  what an interface takes out of the higher-dimensional *)
(*                   subdomain arrives in the lower-dimensional one, and   *)
(*                   nothing arrives anywhere else                         *)
(* and, so that the law is not vacuous,                                    *)
(*   Sensitive       for EVERY corruption mode of the ledger there is an   *)
(*                   enumerated network and flux assignment on which the   *)
(*                   corrupted ledger does not conserve; the witness is    *)
(*                   printed (CHOOSE fails, i.e. TLC errors, if none)      *)
(*                                                                         *)
(* Shapes (cells are numbered over all subdomains; a face is <<a, b>>,     *)
(* b = 0 for a one-sided face; every face takes both orientations):        *)
(*   single1   one cell, two closed faces                                  *)
(*   chain3    one subdomain, three cells in a row                         *)
(*   frac      matrix (3 cells) cut by a one-cell fracture: 1 interface    *)
(*             with one mortar cell on either side                         *)
(*   nonmatch  matrix (2 cells), fracture (2 cells, one inner face), a     *)
(*             non-matching mortar grid: two mortar cells on one matrix    *)
(*             face, mortar cells split between two fracture cells and     *)
(*             between two matrix faces (weights 1/2)                      *)
(*   twofrac   matrix (3 cells), two parallel fractures: 3 subdomains,     *)
(*             2 interfaces                                                *)
(*   cross     matrix (2 cells), fracture (2 cells) with an intersection   *)
(*             point (0-d cell): 3 subdomains of dimension 2, 1, 0 and     *)
(*             2 interfaces (the fracture is lower-dimensional for one     *)
(*             and higher-dimensional for the other)                       *)
(* One-sided faces that are neither fed by a mortar cell nor needed for    *)
(* the orientation argument ("tips" and outer boundary) flip together      *)
(* for the shapes in TiedShapes.  State machine: Init picks the shape,      *)
(* PickOrient the orientation of every face (the network is built once     *)
(* and kept in the state), PickLam the interface flux vector (all vectors  *)
(* over LamVals for at most MaxFree mortar cells, otherwise all vectors    *)
(* that are constant up to one entry); the laws quantify over the inter-   *)
(* cell fluxes (all assignments over FluxVals) and accumulation patterns.  *)
(***************************************************************************)
EXTENDS Conservation, Json

CONSTANTS Shapes,      \* subset of the shape names
          FluxVals,    \* values of inter-cell fluxes and accumulation rates
          LamVals,     \* values of interface fluxes
          TiedShapes,  \* shapes whose outer one-sided faces (tips, outer boundary) flip together
          MaxFree      \* shapes with more mortar cells take a sparse family of interface flux vectors

\* ---- templates: [sdof, dimof, faces, outer (indices of faces that may be tied), W, mort, intf]
Tmpl(shape) ==
  CASE shape = "single1" ->
         [sdof |-> <<1>>, dimof |-> <<1>>, faces |-> <<<<1, 0>>, <<1, 0>>>>, outer |-> {1, 2}, W |-> 1,
          mort |-> <<>>, intf |-> <<>>]
    [] shape = "chain3" ->
         [sdof |-> <<1, 1, 1>>, dimof |-> <<2>>, faces |-> <<<<1, 0>>, <<1, 2>>, <<2, 3>>, <<3, 0>>>>, outer |-> {1, 4},
          W |-> 1, mort |-> <<>>, intf |-> <<>>]
    [] shape = "frac" ->
         [sdof |-> <<1, 1, 1, 2>>, dimof |-> <<2, 1>>,
          faces |-> <<<<1, 0>>, <<1, 2>>, <<2, 0>>, <<3, 0>>, <<3, 0>>, <<4, 0>>, <<4, 0>>>>, outer |-> {1, 5, 6, 7}, W |-> 1,
          mort |-> <<[intf |-> 1, prim |-> <<<<3, 1>>>>, sec |-> <<<<4, 1>>>>],
                     [intf |-> 1, prim |-> <<<<4, 1>>>>, sec |-> <<<<4, 1>>>>]>>,
          intf |-> <<[hi |-> 1, lo |-> 2]>>]
    [] shape = "nonmatch" ->
         [sdof |-> <<1, 1, 2, 2>>, dimof |-> <<2, 1>>,
          faces |-> <<<<1, 0>>, <<2, 0>>, <<1, 0>>, <<2, 0>>, <<3, 0>>, <<3, 4>>, <<4, 0>>, <<2, 0>>>>, outer |-> {1, 2, 5, 7},
          W |-> 2,
          mort |-> <<[intf |-> 1, prim |-> <<<<3, 2>>>>, sec |-> <<<<3, 2>>>>],
                     [intf |-> 1, prim |-> <<<<3, 2>>>>, sec |-> <<<<3, 1>>, <<4, 1>>>>],
                     [intf |-> 1, prim |-> <<<<4, 1>>, <<8, 1>>>>, sec |-> <<<<3, 1>>, <<4, 1>>>>],
                     [intf |-> 1, prim |-> <<<<8, 2>>>>, sec |-> <<<<4, 2>>>>]>>,
          intf |-> <<[hi |-> 1, lo |-> 2]>>]
    [] shape = "twofrac" ->
         [sdof |-> <<1, 1, 1, 2, 3>>, dimof |-> <<2, 1, 1>>,
          faces |-> <<<<1, 0>>, <<1, 0>>, <<2, 0>>, <<2, 0>>, <<3, 0>>, <<3, 0>>, <<4, 0>>, <<4, 0>>, <<5, 0>>, <<5, 0>>>>,
          outer |-> {1, 6, 7, 8, 9, 10}, W |-> 1,
          mort |-> <<[intf |-> 1, prim |-> <<<<2, 1>>>>, sec |-> <<<<4, 1>>>>],
                     [intf |-> 1, prim |-> <<<<3, 1>>>>, sec |-> <<<<4, 1>>>>],
                     [intf |-> 2, prim |-> <<<<4, 1>>>>, sec |-> <<<<5, 1>>>>],
                     [intf |-> 2, prim |-> <<<<5, 1>>>>, sec |-> <<<<5, 1>>>>]>>,
          intf |-> <<[hi |-> 1, lo |-> 2], [hi |-> 1, lo |-> 3]>>]
    [] shape = "cross" ->
         [sdof |-> <<1, 1, 2, 2, 3>>, dimof |-> <<2, 1, 0>>,
          faces |-> <<<<1, 0>>, <<1, 2>>, <<2, 0>>, <<1, 0>>, <<1, 0>>, <<2, 0>>, <<2, 0>>,
                      <<3, 0>>, <<3, 0>>, <<4, 0>>, <<4, 0>>>>,
          outer |-> {1, 3, 8, 11}, W |-> 1,
          mort |-> <<[intf |-> 1, prim |-> <<<<4, 1>>>>, sec |-> <<<<3, 1>>>>],
                     [intf |-> 1, prim |-> <<<<5, 1>>>>, sec |-> <<<<4, 1>>>>],
                     [intf |-> 1, prim |-> <<<<6, 1>>>>, sec |-> <<<<3, 1>>>>],
                     [intf |-> 1, prim |-> <<<<7, 1>>>>, sec |-> <<<<4, 1>>>>],
                     [intf |-> 2, prim |-> <<<<9, 1>>>>, sec |-> <<<<5, 1>>>>],
                     [intf |-> 2, prim |-> <<<<10, 1>>>>, sec |-> <<<<5, 1>>>>]>>,
          intf |-> <<[hi |-> 1, lo |-> 2], [hi |-> 2, lo |-> 3]>>]

\* ---- set -> sequence (tiny sets only)
RECURSIVE SeqOf(_)
SeqOf(S) == IF S = {} THEN <<>> ELSE LET x == CHOOSE y \in S : TRUE IN <<x>> \o SeqOf(S \ {x})
\* row form of a matrix given in column form (entries <<row, value>>), nrows rows
Entries(colf) == UNION {{<<k, i>> : i \in 1..Len(colf[k])} : k \in 1..Len(colf)}
RowForm(colf, nrows) ==
  [r \in 1..nrows |-> SeqOf({<<p[1], colf[p[1]][p[2]][2]>> : p \in {q \in Entries(colf) : colf[q[1]][q[2]][1] = r}})]

\* the network of a shape for an orientation vector o (o[f] \in {1, -1})
Net(shape, o) ==
  LET T == Tmpl(shape)
      nc == Len(T.sdof)
      cols == [f \in 1..Len(T.faces) |->
                 IF T.faces[f][2] = 0 THEN <<<<T.faces[f][1], o[f]>>>>
                 ELSE <<<<T.faces[f][1], o[f]>>, <<T.faces[f][2], -o[f]>>>>]
      pcol == [m \in 1..Len(T.mort) |-> T.mort[m].prim]
      scol == [m \in 1..Len(T.mort) |-> T.mort[m].sec]
  IN [ncell |-> nc, sdof |-> T.sdof, dimof |-> T.dimof, cols |-> cols, rows |-> RowForm(cols, nc), W |-> T.W,
      pcol |-> pcol, prow |-> RowForm(pcol, Len(T.faces)), scol |-> scol, srow |-> RowForm(scol, nc),
      mintf |-> [m \in 1..Len(T.mort) |-> T.mort[m].intf], intf |-> T.intf]

NF(shape) == Len(Tmpl(shape).faces)
NM(shape) == Len(Tmpl(shape).mort)
NC(shape) == Len(Tmpl(shape).sdof)
Orients(shape) ==
  LET T == Tmpl(shape) IN
  {o \in [1..Len(T.faces) -> {1, -1}] : shape \in TiedShapes => \A f, g \in T.outer : o[f] = o[g]}
InnerFaces(shape) == {f \in 1..NF(shape) : Tmpl(shape).faces[f][2] # 0}
\* flux per face: free on inner faces; one-sided faces carry a fixed non-zero value that only the open_boundary mode reads
FaceFluxes(shape) == {[f \in 1..NF(shape) |-> IF f \in InnerFaces(shape) THEN g[f] ELSE 1] : g \in [InnerFaces(shape) -> FluxVals]}
\* accumulation rates: a few patterns are enough (they cancel term by term)
AccPatterns(shape) == {[c \in 1..NC(shape) |-> 2], [c \in 1..NC(shape) |-> (c % 3) - 1]}
\* interface flux vectors: all of them, or (many mortar cells) all vectors that are constant up to one entry
LamVectors(shape) ==
  LET n == NM(shape) IN
  IF n <= MaxFree THEN [1..n -> LamVals]
  ELSE {[m \in 1..n |-> IF m = k THEN a ELSE b] : k \in 1..n, a \in LamVals, b \in LamVals}

VARIABLES stage, shape, net, lam        \* net: the network of the chosen shape and orientation (built once per orientation)
vars == <<stage, shape, net, lam>>

Init == stage = 0 /\ shape \in Shapes /\ net = <<>> /\ lam = <<>>
PickOrient == stage = 0 /\ stage' = 1 /\ (\E o \in Orients(shape) : net' = Net(shape, o)) /\ UNCHANGED <<shape, lam>>
PickLam == stage = 1 /\ stage' = 2 /\ lam' \in LamVectors(shape) /\ UNCHANGED <<shape, net>>
Next == PickOrient \/ PickLam
Spec == Init /\ [][Next]_vars

Ready == stage = 2
Fluxes == {[acc |-> a, face |-> ff, lam |-> lam] : a \in AccPatterns(shape), ff \in FaceFluxes(shape)}

LawWellFormed == stage = 1 => WellFormed(net)
LawConserved == Ready => \A Fl \in Fluxes : Conserved(net, Fl, "ok")
LawIntfCancels ==
  Ready => LET Fl == [acc |-> [c \in 1..net.ncell |-> 0], face |-> [f \in 1..NFace(net) |-> 0], lam |-> lam]
           IN \A j \in 1..Len(net.intf) : IntfCancels(net, Fl, j, "ok") /\ IntfExchanged(net, Fl, j)

\* ---- non-vacuity: every corruption is exposed by some enumerated network
WitnessSpace ==
  {[shape |-> s, o |-> o, lamv |-> l, fv |-> v] :
     s \in Shapes, o \in {[f \in 1..12 |-> 1], [f \in 1..12 |-> -1], [f \in 1..12 |-> IF f % 2 = 0 THEN 1 ELSE -1]},
     l \in LamVals \ {0}, v \in FluxVals \ {0}}
WFlux(w) == [acc |-> [c \in 1..NC(w.shape) |-> 0],
             face |-> [f \in 1..NF(w.shape) |-> w.fv],
             lam |-> [m \in 1..NM(w.shape) |-> IF m % 2 = 0 THEN w.lamv ELSE 2 * w.lamv]]
WNet(w) == Net(w.shape, [f \in 1..NF(w.shape) |-> w.o[f]])
Witness(mode) == CHOOSE w \in WitnessSpace : ~Conserved(WNet(w), WFlux(w), mode)
Sensitive ==
  (stage = 0 /\ shape = CHOOSE s \in Shapes : TRUE) =>
     \A mode \in Modes :
        LET w == Witness(mode) IN
        PrintT(ToJson([mode |-> mode, shape |-> w.shape, orient |-> [f \in 1..NF(w.shape) |-> w.o[f]],
                       flux |-> WFlux(w), residual |-> TotalResidualW(WNet(w), WFlux(w), mode),
                       accumulation |-> TotalAccW(WNet(w), WFlux(w)),
                       sound |-> Conserved(WNet(w), WFlux(w), "ok")]))
=============================================================================
