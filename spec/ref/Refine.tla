------------------------------- MODULE Refine -------------------------------
(***************************************************************************)
(* Reference predicates for C23 - refinement and extrusion preserve        *)
(* measure and nesting.  Grids are in the GridGeom format with integer     *)
(* node coordinates (the harness scales parent and child by the same       *)
(* integer so that refined nodes are integers as well).                    *)
(*                                                                         *)
(*  Measures      exact (GridGeom): dim 3 volumes, dim 2 areas (grid in an *)
(*                axis-aligned plane: Flat permutes coordinates so that    *)
(*                the constant one is z), dim 1 lengths in units of the    *)
(*                length of a given direction vector d (Len1: exact        *)
(*                rational although the length itself may be irrational),  *)
(*                dim 0: 1 (porepy's convention for point cells).          *)
(*  Contains      exact closed point-in-cell tests for segments, convex    *)
(*                polygons (orientation tests along the node loop) and     *)
(*                tetrahedra (orientation determinants).                   *)
(*  Refine1dRef   reference result of refining a 1D grid with ratio r:     *)
(*                the set of child segments.                               *)
(*  ValidRefinement, ValidExtrusion, UniqueCoarse: the clauses of C23 as    *)
(*                predicates over (parent, child, map); J_Refine evaluates *)
(*                them on what porepy returned.                            *)
(***************************************************************************)
EXTENDS GridGeom

\* ---- grids in axis-aligned planes -----------------------------------------------------------------------
ConstAxes(G) == {k \in 1..3 : \A n \in 1..NNodes(G) : G.nodes[n][k] = G.nodes[1][k]}
\* the same grid with the coordinates permuted so that a constant coordinate comes last
Flat(G) ==
  IF G.dim # 2 \/ 3 \in ConstAxes(G) \/ ConstAxes(G) = {} THEN G
  ELSE LET k == CHOOSE k \in ConstAxes(G) : TRUE IN
       [G EXCEPT !.nodes = [n \in 1..NNodes(G) |->
          LET p == G.nodes[n] IN IF k = 2 THEN <<p[1], p[3], p[2]>> ELSE <<p[2], p[3], p[1]>>]]

\* ---- measures -------------------------------------------------------------------------------------------
\* length of the 1D cell c in units of |d| (d: direction vector of the line)
Len1(G, c, d) == RNorm(Abs(VDot(VSub(P(G, Seg(G, c)[2]), P(G, Seg(G, c)[1])), d)), VDot(d, d))
\* E = Basic(Flat(G)) for dim >= 2 (unused otherwise)
CellMeasure(G, E, d, c) == IF G.dim = 0 THEN ROne ELSE IF G.dim = 1 THEN Len1(G, c, d) ELSE E.vol[c]
SumMeasure(G, E, d, cells) == RSum([i \in 1..Len(cells) |-> CellMeasure(G, E, d, cells[i])])
AllCells(G) == [c \in 1..NCells(G) |-> c]
\* direction of a 1D grid as a primitive integer vector (lengths are measured in units of its length)
Prim(v) == LET g == GCD(GCD(Abs(v[1]), Abs(v[2])), Abs(v[3])) IN <<v[1] \div g, v[2] \div g, v[3] \div g>>
DirOf(G) == IF G.dim = 1 THEN Prim(Dir1(G)) ELSE <<0, 0, 1>>
Total(G, E, d) == SumMeasure(G, E, d, AllCells(G))
\* a valid grid: GridGeom's laws (closed, planar, positive, identities), star-shaped faces in 3D; 1D: collinear,
\* cells of positive length that do not overlap
Overlap1(G, a, b, d) ==
  LET t(n) == VDot(P(G, n), d)
      lo(c) == Min2(t(Seg(G, c)[1]), t(Seg(G, c)[2]))
      hi(c) == Max2(t(Seg(G, c)[1]), t(Seg(G, c)[2]))
  IN Max2(lo(a), lo(b)) < Min2(hi(a), hi(b))
ValidGrid(G, E) ==
  IF G.dim = 1 THEN /\ WellFormed(G) /\ Collinear1(G)
                    /\ \A c \in 1..NCells(G) : Len2(G, c) > 0
                    /\ \A a, b \in 1..NCells(G) : a < b => ~Overlap1(G, a, b, Dir1(G))
  ELSE ValidE(Flat(G), E) /\ E.star

\* ---- closed point-in-cell tests (integer points) -----------------------------------------------------------
InSeg(a, b, p) == /\ VCross(VSub(p, a), VSub(b, a)) = VZero
                  /\ VDot(VSub(p, a), VSub(b, a)) >= 0
                  /\ VDot(VSub(p, a), VSub(b, a)) <= VDot(VSub(b, a), VSub(b, a))
\* convex polygon of a flat grid (z = const), given by its node loop; p is tested in the x-y plane
InPolygon(G, lp, p) ==
  LET o == Sgn(Area2Signed(G, lp)) IN
  \A i \in 1..Len(lp) :
     LET a == P(G, lp[i][2])  b == P(G, lp[i][3]) IN
       o * ((b[1] - a[1]) * (p[2] - a[2]) - (b[2] - a[2]) * (p[1] - a[1])) >= 0
\* tetrahedron: p is on the same side of every face as the opposite vertex (or on the face)
InTet(G, c, p) ==
  LET ns == NodesOfCell(G, c) IN
  /\ Cardinality(ns) = 4
  /\ \A v \in ns :
       LET f == ns \ {v}
           a == CHOOSE x \in f : \A y \in f : x <= y
           b == CHOOSE x \in f \ {a} : \A y \in f \ {a} : x <= y
           e == CHOOSE x \in f \ {a, b} : TRUE
           D(q) == Det3(VSub(P(G, b), P(G, a)), VSub(P(G, e), P(G, a)), VSub(q, P(G, a)))
       IN D(P(G, v)) # 0 /\ D(p) * Sgn(D(P(G, v))) >= 0
\* cell c of grid G (dim 0..3; dim 2 flat in z = const and convex) contains the point p
Contains(G, c, p) ==
  IF G.dim = 0 THEN p = G.nodes[c]
  ELSE IF G.dim = 1 THEN InSeg(P(G, Seg(G, c)[1]), P(G, Seg(G, c)[2]), p)
  ELSE IF G.dim = 2 THEN p[3] = G.nodes[1][3] /\ InPolygon(G, CellLoop(G, c), p)
  ELSE InTet(G, c, p)
CellInside(Pg, c, Cg, k) == \A n \in NodesOfCell(Cg, k) : Contains(Pg, c, P(Cg, n))

\* ---- refinement of a 1D grid with ratio r: the child segments as sets of two points ---------------------------
Divisible(G, r) == \A c \in 1..NCells(G) : \A i \in 1..3 :
                      (P(G, Seg(G, c)[2])[i] - P(G, Seg(G, c)[1])[i]) % r = 0
SubPoint(a, b, k, r) == <<a[1] + (k * (b[1] - a[1])) \div r, a[2] + (k * (b[2] - a[2])) \div r,
                          a[3] + (k * (b[3] - a[3])) \div r>>
Refine1dRef(G, r) == UNION {{{SubPoint(P(G, Seg(G, c)[1]), P(G, Seg(G, c)[2]), k - 1, r),
                              SubPoint(P(G, Seg(G, c)[1]), P(G, Seg(G, c)[2]), k, r)} : k \in 1..r}
                            : c \in 1..NCells(G)}
Segments(G) == {{P(G, Seg(G, c)[1]), P(G, Seg(G, c)[2])} : c \in 1..NCells(G)}

\* ---- refinement: parent Pg, child Cg, map: child -> parent --------------------------------------------------
MeasureEqual(Pg, PE, Cg, CE, d) == Total(Cg, CE, d) = Total(Pg, PE, d)
ChildrenOf(map, c) == SelectSeq([k \in 1..Len(map) |-> k], LAMBDA k : map[k] = c)
MeasurePerParent(Pg, PE, Cg, CE, d, map) ==
  \A c \in 1..NCells(Pg) : SumMeasure(Cg, CE, d, ChildrenOf(map, c)) = CellMeasure(Pg, PE, d, c)
Nested(Pg, Cg, map) == \A k \in 1..NCells(Cg) : map[k] \in 1..NCells(Pg) /\ CellInside(Pg, map[k], Cg, k)
\* without a returned map (1D): every child lies in exactly one parent cell
ParentsOf(Pg, Cg, k) == {c \in 1..NCells(Pg) : CellInside(Pg, c, Cg, k)}
NestedUnique(Pg, Cg) == \A k \in 1..NCells(Cg) : Cardinality(ParentsOf(Pg, Cg, k)) = 1
ValidRefinement(Pg, PE, Cg, CE, d, map) ==
  /\ ValidGrid(Cg, CE) /\ Len(map) = NCells(Cg)
  /\ MeasureEqual(Pg, PE, Cg, CE, d) /\ MeasurePerParent(Pg, PE, Cg, CE, d, map) /\ Nested(Pg, Cg, map)

\* ---- extrusion: parent Pg (dim 0..2, in the plane z = 0), z: node layers, child Cg (dim + 1), cellmap: parent ->
\*      sequence of child cells -----------------------------------------------------------------------------
Height(z) == Abs(z[Len(z)] - z[1])
ZMonotone(z) == /\ Len(z) >= 2
                /\ (\A i \in 1..Len(z) : z[i] >= 0) \/ (\A i \in 1..Len(z) : z[i] <= 0)
                /\ \A i \in 1..(Len(z) - 1) : Abs(z[i]) < Abs(z[i + 1])
ZRange(z) == Min2(z[1], z[Len(z)])..Max2(z[1], z[Len(z)])
Ground(p) == <<p[1], p[2], 0>>
\* the child cell k lies over the parent cell c, within the extrusion range
Over(Pg, c, Cg, k, z) == \A n \in NodesOfCell(Cg, k) : P(Cg, n)[3] \in ZRange(z) /\ Contains(Pg, c, Ground(P(Cg, n)))
OneParent(cellmap, nchild) ==
  \A k \in 1..nchild : Cardinality({<<c, i>> \in UNION {{<<c, i>> : i \in 1..Len(cellmap[c])} : c \in 1..Len(cellmap)} :
                                       cellmap[c][i] = k}) = 1
ExtrudedMeasure(Pg, PE, Cg, CE, z, cellmap) ==
  /\ Total(Cg, CE, <<0, 0, 1>>) = RMul(R(Height(z)), Total(Pg, PE, DirOf(Pg)))
  /\ \A c \in 1..NCells(Pg) :
       SumMeasure(Cg, CE, <<0, 0, 1>>, cellmap[c]) = RMul(R(Height(z)), CellMeasure(Pg, PE, DirOf(Pg), c))
ExtrudedNested(Pg, Cg, z, cellmap) ==
  \A c \in 1..NCells(Pg) : \A i \in 1..Len(cellmap[c]) :
     cellmap[c][i] \in 1..NCells(Cg) /\ Over(Pg, c, Cg, cellmap[c][i], z)
ValidExtrusion(Pg, PE, Cg, CE, z, cellmap) ==
  /\ Cg.dim = Pg.dim + 1 /\ ValidGrid(Cg, CE) /\ Len(cellmap) = NCells(Pg)
  /\ OneParent(cellmap, NCells(Cg)) /\ ExtrudedMeasure(Pg, PE, Cg, CE, z, cellmap) /\ ExtrudedNested(Pg, Cg, z, cellmap)

\* ---- structured refinement: rows[k] = the coarse cells the returned matrix assigns to the fine cell k ---------------
Coarse(Pg, Cg, k) == ParentsOf(Pg, Cg, k)
IsNestedPair(Pg, Cg) == \A k \in 1..NCells(Cg) : Cardinality(Coarse(Pg, Cg, k)) = 1
UniqueCoarse(Pg, Cg, rows) ==
  /\ Len(rows) = NCells(Cg)
  /\ \A k \in 1..NCells(Cg) : Len(rows[k]) = 1 /\ rows[k][1] \in Coarse(Pg, Cg, k)
=============================================================================
