---------------------------- MODULE GridComplexes ----------------------------
(***************************************************************************)
(* Enumeration of small abstract cell complexes for C21 (and reused by     *)
(* C17 for its flux / boundary-condition enumeration).                     *)
(*                                                                         *)
(* A complex is cut out of a lattice box <<family, nx, ny>>:               *)
(*   "chain"  1D, nx segments, nodes 0..nx                (ny = 1)         *)
(*   "quad"   2D, nx x ny squares on the (nx+1) x (ny+1) node lattice      *)
(*   "tri"    2D, every square split into two triangles by one diagonal    *)
(* by choosing a non-empty SUBSET `sel` of the lattice positions           *)
(* (connected or not, with holes: what subgrid extraction produces), an    *)
(* orientation `mask` (which faces have their normal reversed) and a       *)
(* `split` class (interior faces that are duplicated, one copy per side,   *)
(* sharing their nodes: what fracture splitting produces).  Faces are the  *)
(* distinct facets of the cells, numbered by their sorted node tuples;     *)
(* unused lattice nodes stay in the node list.                             *)
(*                                                                         *)
(* TLC enumerates every (box, sel, mask, split) in the bounds, checks the  *)
(* model laws of GridTopology on each complex and emits it (Emit).         *)
(***************************************************************************)
EXTENDS GridTopology, SequencesExt, FiniteSetsExt, Json, TLC

CONSTANTS Boxes,          \* set of <<family, nx, ny>>
          MaskBits,       \* orientation masks 0 .. 2^MaskBits - 1, bit (f mod MaskBits) reverses face f
          SplitChoices,   \* subset of {-1, 0, 1, 2}: -1 no split, r: interior faces f with f mod 3 = r
          MaxCells

VARIABLES phase, box, sel, mask, split
cvars == <<phase, box, sel, mask, split>>

Pow2(n) == <<1, 2, 4, 8, 16, 32, 64>>[n + 1]
Fam(b) == b[1]
NX(b) == b[2]
NY(b) == b[3]
CDim(b) == IF Fam(b) = "chain" THEN 1 ELSE 2
Positions(b) == 0..(NX(b) * NY(b) - 1)
CellsPerPos(b) == IF Fam(b) = "tri" THEN 2 ELSE 1
NNodes(b) == IF Fam(b) = "chain" THEN NX(b) + 1 ELSE (NX(b) + 1) * (NY(b) + 1)
Nd(b, i, j) == i + j * (NX(b) + 1)
\* integer coordinates of lattice node n
Coord(b, n) == IF Fam(b) = "chain" THEN <<n, 0>> ELSE <<n % (NX(b) + 1), n \div (NX(b) + 1)>>

\* node tuples of the cells at position p (counter-clockwise polygons)
PolysAt(b, p) ==
  LET i == p % NX(b)
      j == p \div NX(b)
  IN CASE Fam(b) = "chain" -> << <<p, p + 1>> >>
       [] Fam(b) = "quad"  -> << <<Nd(b, i, j), Nd(b, i + 1, j), Nd(b, i + 1, j + 1), Nd(b, i, j + 1)>> >>
       [] Fam(b) = "tri"   -> << <<Nd(b, i, j), Nd(b, i + 1, j), Nd(b, i + 1, j + 1)>>,
                                 <<Nd(b, i, j), Nd(b, i + 1, j + 1), Nd(b, i, j + 1)>> >>

Polys(b, s) == FlattenSeq([k \in 1..Cardinality(s) |-> PolysAt(b, SetToSortSeq(s, <)[k])])

\* facets of a cell: its end points (1D) or its edges (2D), as node sets
Facets(d, poly) ==
  IF d = 1 THEN {{poly[1]}, {poly[2]}}
  ELSE {{poly[k], poly[(k % Len(poly)) + 1]} : k \in 1..Len(poly)}
Key(fc) == Min(fc) * 64 + Max(fc)

Complex(b, s, m, sp) ==
  LET d     == CDim(b)
      polys == Polys(b, s)
      nc    == Len(polys)
      fseq  == SetToSortSeq(UNION {Facets(d, polys[c]) : c \in 1..nc}, LAMBDA x, y : Key(x) < Key(y))
      nf0   == Len(fseq)
      own(f) == SetToSortSeq({c \in 1..nc : fseq[f] \in Facets(d, polys[c])}, <)
      sgn(f) == IF (m \div Pow2((f - 1) % MaskBits)) % 2 = 1 THEN -1 ELSE 1
      cf0   == [f \in 1..nf0 |->
                  [k \in 1..Len(own(f)) |-> <<own(f)[k] - 1, IF k = 1 THEN sgn(f) ELSE -sgn(f)>>]]
      fn0   == [f \in 1..nf0 |-> SetToSortSeq(fseq[f], <)]
      spl   == IF sp < 0 THEN <<>>
               ELSE SetToSortSeq({f \in 1..nf0 : Len(cf0[f]) = 2 /\ (f - 1) % 3 = sp}, <)
      cf    == [f \in 1..nf0 |-> IF f \in Range(spl) THEN <<cf0[f][1]>> ELSE cf0[f]]
               \o [k \in 1..Len(spl) |-> <<cf0[spl[k]][2]>>]
      fn    == fn0 \o [k \in 1..Len(spl) |-> fn0[spl[k]]]
  IN [dim |-> d, nc |-> nc, nf |-> Len(cf), nn |-> NNodes(b), cf |-> cf, fn |-> fn]

\* face lists (boundary faces in scrambled orders) for signs_and_cells_of_boundary_faces
Odd(s)  == [k \in 1..((Len(s) + 1) \div 2) |-> s[2 * k - 1]]
Even(s) == [k \in 1..(Len(s) \div 2) |-> s[2 * k]]
Queries(G) ==
  LET B == SetToSortSeq(BoundaryFaces(G), <)
  IN SelectSeq(<<Reverse(B), Even(B) \o Odd(B), Reverse(Odd(B)), Even(B)>>, LAMBDA q : q # <<>>)

NCellsOf(b, s) == Cardinality(s) * CellsPerPos(b)

Init == phase = 0 /\ box = <<"none", 0, 0>> /\ sel = {} /\ mask = 0 /\ split = -1
Next ==
  \/ /\ phase = 0 /\ phase' = 1 /\ box' \in Boxes /\ UNCHANGED <<sel, mask, split>>
  \/ /\ phase = 1 /\ phase' = 2
     /\ sel' \in {s \in SUBSET Positions(box) : s # {} /\ NCellsOf(box, s) <= MaxCells}
     /\ UNCHANGED <<box, mask, split>>
  \/ /\ phase = 2 /\ phase' = 3
     /\ mask' \in 0..(Pow2(MaskBits) - 1) /\ split' \in SplitChoices
     /\ UNCHANGED <<box, sel>>
Spec == Init /\ [][Next]_cvars

Cur == Complex(box, sel, mask, split)

Laws == phase = 3 =>
  LET G == Cur IN
    /\ WellFormed(G) /\ SymmetryLaw(G) /\ DenseLaw(G)
    /\ \A d \in 1..3 : KroneckerLaw(G, d)

Emit == phase = 3 =>
  LET G == Cur IN
    PrintT(ToJson([in |-> G, xy |-> [n \in 1..G.nn |-> Coord(box, n - 1)], qs |-> Queries(G),
                   tag |-> <<box, SetToSortSeq(sel, <), mask, split>>]))
=============================================================================
