------------------------------ MODULE BlockDiag ------------------------------
(***************************************************************************)
(* Reference notions for C37: block-diagonal inversion returns the true    *)
(* inverse (invert_diagonal_blocks numba / python,                          *)
(* generate_permutation_to_block_diag_matrix,                               *)
(* invert_permuted_block_diag_matrix in numerics/linalg/matrix_operations). *)
(*                                                                         *)
(* All matrices are integer matrices: the blocks are UNIMODULAR (products   *)
(* of elementary integer matrices, det = +-1), so the true inverse is an    *)
(* integer matrix and "X is the inverse of A" is the exact statement        *)
(* A * X = I over the integers (IsInverse).  Dense matrices are the records *)
(* [shape, rows] of SparseOps; sparse storage is read with DenseOf / WF.    *)
(*                                                                         *)
(*  - elementary row operations and the matching column operations on the   *)
(*    inverse (ApplyRow / ApplyColInv): a block and its exact integer        *)
(*    inverse are built side by side (BlockDiagEnum checks b * inv = I),     *)
(*  - TriBlock(s): the default well-conditioned unimodular block L * L^T,    *)
(*  - Assemble(blocks, rowmap, colmap) = D[rowmap, :][:, colmap] for the      *)
(*    block-diagonal D of the blocks,                                         *)
(*  - ValidPerm(A, rp, cp, sz): rp, cp are permutations, the sizes are        *)
(*    positive and sum to n, and A[rp, :][:, cp] vanishes outside the square  *)
(*    diagonal blocks of sizes sz  ("the permutation exposes square blocks"), *)
(*  - NumComponents(A): number of connected components of the bipartite       *)
(*    row/column pattern graph (reference for the FINEST decomposition; used  *)
(*    for a drift report only, the property does not demand it).              *)
(* The clauses are in spec/trace/J_BlockDiag.tla.                            *)
(***************************************************************************)
EXTENDS SparseOps

(* ------------------------------- matrices ------------------------------ *)
IdRows(n) == [i \in 1..n |-> [j \in 1..n |-> IF i = j THEN 1 ELSE 0]]
RECURSIVE DotFrom(_, _, _, _, _)
DotFrom(A, B, i, j, k) ==        \* sum over t = k..Len(B) of A[i][t] * B[t][j]
  IF k > Len(B) THEN 0 ELSE A[i][k] * B[k][j] + DotFrom(A, B, i, j, k + 1)
MatMulRows(A, B) ==              \* A: m x p, B: p x n (sequences of rows), p >= 1
  [i \in 1..Len(A) |-> [j \in 1..Len(B[1]) |-> DotFrom(A, B, i, j, 1)]]

\* X is the inverse of the square matrix A (dense records of the same order n >= 1)
IsInverse(A, X) ==
  /\ A.shape = X.shape /\ A.shape[1] = A.shape[2]
  /\ MatMulRows(A.rows, X.rows) = IdRows(A.shape[1])

(* ---------------- unimodular blocks by elementary operations ----------- *)
\* e = <<kind, i, j, c>>:  "add": row j += c * row i (i # j);  "neg": row i = -row i;  "swap": rows i, j
ElemOps(s) ==
  LET Pairs == (1..s) \X (1..s) IN
  ({<<"add", p[1], p[2], c>> : p \in {q \in Pairs : q[1] # q[2]}, c \in {-1, 1}}
   \cup {<<"neg", i, i, 0>> : i \in 1..s})
  \cup {<<"swap", p[1], p[2], 0>> : p \in {q \in Pairs : q[1] < q[2]}}
\* E * B
ApplyRow(B, e) ==
  CASE e[1] = "add" -> [B EXCEPT ![e[3]] = [t \in 1..Len(B) |-> B[e[3]][t] + e[4] * B[e[2]][t]]]
    [] e[1] = "neg" -> [B EXCEPT ![e[2]] = [t \in 1..Len(B) |-> -B[e[2]][t]]]
    [] e[1] = "swap" -> [B EXCEPT ![e[2]] = B[e[3]], ![e[3]] = B[e[2]]]
\* X * E^-1   ("add": column i -= c * column j)
ApplyColInv(X, e) ==
  CASE e[1] = "add" -> [r \in 1..Len(X) |-> [X[r] EXCEPT ![e[2]] = X[r][e[2]] - e[4] * X[r][e[3]]]]
    [] e[1] = "neg" -> [r \in 1..Len(X) |-> [X[r] EXCEPT ![e[2]] = -X[r][e[2]]]]
    [] e[1] = "swap" -> [r \in 1..Len(X) |-> [X[r] EXCEPT ![e[2]] = X[r][e[3]], ![e[3]] = X[r][e[2]]]]
MaxAbs(B) == LET A(x) == IF x < 0 THEN -x ELSE x
             IN CHOOSE v \in {A(B[i][j]) : i \in 1..Len(B), j \in 1..Len(B)} :
                   \A w \in {A(B[i][j]) : i \in 1..Len(B), j \in 1..Len(B)} : w <= v

\* default block: L * L^T for the unit lower bidiagonal L  (diag 1,2,2,.., off-diagonals 1; det = 1)
TriBlock(s) == [i \in 1..s |-> [j \in 1..s |->
                  IF i = j THEN (IF i = 1 THEN 1 ELSE 2) ELSE IF i = j + 1 \/ j = i + 1 THEN 1 ELSE 0]]

(* ------------------------- assembly, permutations ---------------------- *)
AsDense(B) == MkDense(Len(B), Len(B), B)
BlockDiagOfBlocks(blocks) == BlockDiagSeq([k \in 1..Len(blocks) |-> AsDense(blocks[k])])
\* D[rowmap, :][:, colmap]  (0-based maps)
Permute(D, rowmap, colmap) == TakeCols(TakeRows(D, rowmap), colmap)
Assemble(blocks, rowmap, colmap) == Permute(BlockDiagOfBlocks(blocks), rowmap, colmap)

IsPermutation(p, n) == Len(p) = n /\ RangeOf(p) = 0..(n - 1)
InversePerm(p) == [i \in 1..Len(p) |-> (CHOOSE k \in 1..Len(p) : p[k] = i - 1) - 1]

\* 1-based block number of the 1-based position i for block sizes sz
BlockNo(sz, i) == LET c == Cum(sz) IN CHOOSE b \in 1..Len(sz) : c[b] < i /\ i <= c[b + 1]
ValidPerm(A, rp, cp, sz) ==
  LET n == A.shape[1] IN
  /\ A.shape[2] = n
  /\ IsPermutation(rp, n) /\ IsPermutation(cp, n)
  /\ \A b \in 1..Len(sz) : sz[b] >= 1
  /\ SumSeq(sz) = n
  /\ LET P == Permute(A, rp, cp)
         blk == [i \in 1..n |-> BlockNo(sz, i)]
     IN \A i \in 1..n, j \in 1..n : blk[i] # blk[j] => P.rows[i][j] = 0

\* connected components of the bipartite pattern graph, counted on the rows: rows are adjacent when
\* they share a nonzero column (every column of a nonsingular matrix has a nonzero)
RECURSIVE Closure(_, _)
Closure(S, adj) == LET T == S \cup {j \in DOMAIN adj : \E i \in S : adj[i][j]}
                   IN IF T = S THEN S ELSE Closure(T, adj)
RECURSIVE CountComp(_, _)
CountComp(rest, adj) == IF rest = {} THEN 0
                        ELSE LET i == CHOOSE x \in rest : TRUE
                             IN 1 + CountComp(rest \ Closure({i}, adj), adj)
NumComponents(A) ==
  LET n == A.shape[1]
      adj == [i \in 1..n |-> [j \in 1..n |-> \E c \in 1..A.shape[2] : A.rows[i][c] # 0 /\ A.rows[j][c] # 0]]
  IN CountComp(1..n, adj)
=============================================================================
