------------------------------- MODULE Upwind -------------------------------
(***************************************************************************)
(* Reference semantics for C17 (porepy.numerics.fv.upwind.Upwind).         *)
(*                                                                         *)
(* Input: a grid G (signed incidence record of GridTopology, 0-based       *)
(* indices), per face the SIGN s[f+1] of the flux (-1, 0, 1; positive =    *)
(* along the face normal, i.e. from the cell that sees the face with +1 to *)
(* the cell that sees it with -1), per face the boundary condition         *)
(* bc[f+1] in {"dir", "neu", "int"} ("int" exactly on faces with two       *)
(* cells; split / fracture faces have one cell and carry a condition), and *)
(* the number of components n (component k of entity e has index e*n + k). *)
(*                                                                         *)
(* Selection clause (faces with NONZERO flux only - the statement does not *)
(* fix what a zero-flux face selects):                                     *)
(*   Upstream(G, s, bc, f) = the cell the flux leaves; none (-1) on        *)
(*   Neumann faces and on Dirichlet inflow faces.                          *)
(*   UpwindRef      entries <<row, col, 1>> of the upwind matrix           *)
(*   BoundDirRef    entries of the Dirichlet boundary matrix: <<r, r, 1>>  *)
(*                  on Dirichlet inflow faces                              *)
(*   BoundNeuRef    positions <<r, r>> of the Neumann boundary matrix      *)
(* Impl* transcribe Upwind.discretize (sign >= 0 counts as positive,       *)
(* deletion list); law ImplAgrees: Impl = Ref on nonzero-flux faces.       *)
(*                                                                         *)
(* Transport clause: ValidStep for one explicit step                       *)
(*   c' = c - dt * (A c) / V     (A = div * diag(flux) * upwind)           *)
(* with a divergence-free flux (DivFree), no-flow boundaries (NoFlow) and  *)
(* dt under the CFL limit (CFL): the total sum(V c) is unchanged and       *)
(* min c <= c' <= max c.  Law TransportLaw: the reference discretisation   *)
(* satisfies it.  Rationals are pairs <<n, d>> (module Rat).               *)
(***************************************************************************)
EXTENDS GridTopology, Rat, SequencesExt, FiniteSetsExt

NZ(G, s) == {f \in FaceIx(G) : s[f + 1] # 0}

UpwindFamily(G, s, bc, n) ==
  LET B == BoundaryFaces(G) IN
  /\ WellFormed(G) /\ Len(s) = G.nf /\ Len(bc) = G.nf /\ n >= 1
  /\ \A f \in FaceIx(G) : /\ s[f + 1] \in {-1, 0, 1}
                          /\ bc[f + 1] \in {"dir", "neu", "int"}
                          /\ (bc[f + 1] = "int") <=> (f \notin B)

(* ------------------------------ reference ------------------------------ *)
\* flux with sign +1 leaves the cell that sees the face with +1, flux with sign -1 the one that sees it with -1
Upstream(G, s, bc, f) == IF bc[f + 1] = "neu" THEN -1 ELSE SideCell(G, f, s[f + 1])
DirInflow(G, s, bc, f) == bc[f + 1] = "dir" /\ s[f + 1] # 0 /\ SideCell(G, f, s[f + 1]) = -1

UpwindRef(G, s, bc, n) ==
  {<<f * n + k, Upstream(G, s, bc, f) * n + k, 1>> :
      f \in {g \in NZ(G, s) : Upstream(G, s, bc, g) >= 0}, k \in 0..(n - 1)}
BoundDirRef(G, s, bc, n) ==
  {<<f * n + k, f * n + k, 1>> : f \in {g \in NZ(G, s) : DirInflow(G, s, bc, g)}, k \in 0..(n - 1)}
BoundNeuRef(G, s, bc, n) ==
  {<<f * n + k, f * n + k>> : f \in {g \in NZ(G, s) : bc[g + 1] = "neu"}, k \in 0..(n - 1)}

\* rows of a matrix (set of entries) that belong to faces with nonzero flux
OnNZ(M, G, s, n) == LET nz == NZ(G, s) IN {e \in M : (e[1] \div n) \in nz}

(* --------------------- transcription of discretize --------------------- *)
ImplUpwind(G, s, bc, n) ==
  LET D == DenseFaceCells(G)
      pos(f) == s[f + 1] >= 0
      up(f) == IF pos(f) THEN D[1][f + 1] ELSE D[2][f + 1]
      inflow(f) == bc[f + 1] = "dir" /\ ((pos(f) /\ D[1][f + 1] < 0) \/ (~pos(f) /\ D[2][f + 1] < 0))
      keep == {f \in FaceIx(G) : bc[f + 1] # "neu" /\ ~inflow(f)}
  IN {<<f * n + k, up(f) * n + k, 1>> : f \in keep, k \in 0..(n - 1)}
ImplBoundDir(G, s, bc, n) ==
  LET D == DenseFaceCells(G)
      pos(f) == s[f + 1] >= 0
      inflow(f) == bc[f + 1] = "dir" /\ ((pos(f) /\ D[1][f + 1] < 0) \/ (~pos(f) /\ D[2][f + 1] < 0))
  IN {<<f * n + k, f * n + k, 1>> : f \in {g \in FaceIx(G) : inflow(g)}, k \in 0..(n - 1)}
ImplBoundNeu(G, s, bc, n) ==
  {<<f * n + k, f * n + k>> : f \in {g \in FaceIx(G) : bc[g + 1] = "neu"}, k \in 0..(n - 1)}

ImplAgrees(G, s, bc, n) ==
  /\ OnNZ(ImplUpwind(G, s, bc, n), G, s, n) = UpwindRef(G, s, bc, n)
  /\ OnNZ(ImplBoundDir(G, s, bc, n), G, s, n) = BoundDirRef(G, s, bc, n)
  /\ OnNZ(ImplBoundNeu(G, s, bc, n), G, s, n) = BoundNeuRef(G, s, bc, n)
  \* every selected column is a real cell
  /\ \A e \in ImplUpwind(G, s, bc, n) : e[2] >= 0

(* ------------------------------ transport ------------------------------ *)
RECURSIVE ISum(_)
ISum(q) == IF q = <<>> THEN 0 ELSE Head(q) + ISum(Tail(q))
SumOver(S, val(_)) == LET q == SetToSeq(S) IN ISum([i \in 1..Len(q) |-> val(q[i])])

\* net outflow of every cell is zero / the flux vanishes on faces with one cell
DivFree(G, flux) ==
  \A c \in CellIx(G) : SumOver({t \in Div(G) : t[1] = c}, LAMBDA t : t[3] * flux[t[2] + 1]) = 0
NoFlow(G, flux) == \A f \in BoundaryFaces(G) : flux[f + 1] = 0

Outflow(G, flux, c) ==
  SumOver({t \in Div(G) : t[1] = c /\ t[3] * flux[t[2] + 1] > 0}, LAMBDA t : t[3] * flux[t[2] + 1])
CFL(G, flux, V, dt) == \A c \in CellIx(G) : RLe(RMul(dt, R(Outflow(G, flux, c))), V[c + 1])
\* the largest admissible step (1 if nothing flows)
CFLLimit(G, flux, V) ==
  LET cs == {c \in CellIx(G) : Outflow(G, flux, c) > 0}
      lim(c) == RDiv(V[c + 1], R(Outflow(G, flux, c)))
  IN IF cs = {} THEN ROne
     ELSE lim(CHOOSE c \in cs : \A d \in cs : RLe(lim(c), lim(d)))

\* c' = c - dt * (A c) / V for an integer matrix given as a set of entries <<row, col, value>> and an
\* integer vector c
MatVec(A, c, nc) == [i \in 1..nc |-> SumOver({e \in A : e[1] = i - 1}, LAMBDA e : e[3] * c[e[2] + 1])]
Step(A, c, V, dt) ==
  LET Ac == MatVec(A, c, Len(c)) IN [i \in 1..Len(c) |-> RSub(R(c[i]), RDiv(RMul(dt, R(Ac[i])), V[i]))]

RTotal(V, x) == RSum([i \in 1..Len(x) |-> RMul(V[i], x[i])])
ValidStep(c, c2, V) ==
  /\ REq(RTotal(V, c2), RTotal(V, [i \in 1..Len(c) |-> R(c[i])]))
  /\ \A i \in 1..Len(c) : RLe(R(Min(Range(c))), c2[i]) /\ RLe(c2[i], R(Max(Range(c))))

\* the reference discretisation: A = div * diag(flux) * UpwindRef with Neumann conditions everywhere
ARef(G, flux) ==
  LET s == [f \in 1..G.nf |-> Sgn(flux[f])]
      bc == [f \in 1..G.nf |-> IF (f - 1) \in BoundaryFaces(G) THEN "neu" ELSE "int"]
      U == UpwindRef(G, s, bc, 1)
      pairs == {<<t, u>> \in Div(G) \X U : t[2] = u[1]}          \* (cell, face, sign) x (face, upstream cell, 1)
      keys == {<<p[1][1], p[2][2]>> : p \in pairs}
  IN {<<k[1], k[2], SumOver({p \in pairs : p[1][1] = k[1] /\ p[2][2] = k[2]},
                            LAMBDA p : p[1][3] * flux[p[1][2] + 1])>> : k \in keys}

TransportLaw(G, flux, V, c, dt) ==
  (DivFree(G, flux) /\ NoFlow(G, flux) /\ CFL(G, flux, V, dt)) => ValidStep(c, Step(ARef(G, flux), c, V, dt), V)
\* the same for several initial states and steps (the matrix is built once)
TransportLawAll(G, flux, V, cs, dts) ==
  (DivFree(G, flux) /\ NoFlow(G, flux)) =>
    LET A == ARef(G, flux) IN
      \A i \in 1..Len(cs) : \A j \in 1..Len(dts) :
        CFL(G, flux, V, dts[j]) => ValidStep(cs[i], Step(A, cs[i], V, dts[j]), V)
=============================================================================
