-------------------------- MODULE DistanceFamilies --------------------------
(***************************************************************************)
(* C30 input families (spec -> code): Init is one start state, Next fans   *)
(* out to one state per CALL of a real porepy distance function, invariant *)
(* Emit prints the call as JSON.  All coordinates are small integers so    *)
(* that every squared distance is an exact rational of small height.       *)
(* Families: lattice points against lattice segments (both vectorisation   *)
(* branches of points_segments), all pairs of lattice segments in 2D and   *)
(* 3D (crossing, touching, collinear-overlapping, parallel, skew), lattice *)
(* points and segments against planar lattice polygons (convex and not)    *)
(* embedded in 3D by integer frames.                                       *)
(* Model laws (design level): LawSym  SegSegD2 is symmetric in its two     *)
(* segments and in the orientation of each;  LawPtSeg  SegSegD2 with a     *)
(* common end point is 0;  LawPoly  an in-plane point strictly inside has  *)
(* distance 0.                                                             *)
(***************************************************************************)
EXTENDS Distance, Json

CONSTANTS Fns, Big

Lat2(k) == (0..k) \X (0..k)
Lat3(k) == (0..k) \X (0..k) \X (0..k)
Segs(S) == {ab \in S \X S : ab[1] # ab[2]}

Frames == << [o |-> <<0,0,1>>, e1 |-> <<1,0,0>>, e2 |-> <<0,1,0>>],      \* z = 1
             [o |-> <<0,0,0>>, e1 |-> <<1,0,0>>, e2 |-> <<0,1,1>>],      \* y = z
             [o |-> <<0,0,0>>, e1 |-> <<1,0,1>>, e2 |-> <<0,1,1>>],      \* z = x + y
             [o |-> <<2,0,0>>, e1 |-> <<0,1,0>>, e2 |-> <<0,0,1>>] >>    \* x = 2
Embed(fr, q) == <<fr.o[1] + q[1] * fr.e1[1] + q[2] * fr.e2[1], fr.o[2] + q[1] * fr.e1[2] + q[2] * fr.e2[2],
                  fr.o[3] + q[1] * fr.e1[3] + q[2] * fr.e2[3]>>
EmbedPoly(fr, poly) == [i \in 1..Len(poly) |-> Embed(fr, poly[i])]
Flat == << << <<0,0>>, <<3,0>>, <<0,3>> >>,                                         \* triangle
           << <<0,0>>, <<2,0>>, <<2,2>>, <<0,2>> >>,                                \* square
           << <<0,0>>, <<3,0>>, <<3,1>>, <<1,1>>, <<1,3>>, <<0,3>> >>,              \* L
           << <<0,0>>, <<3,0>>, <<3,3>>, <<0,3>>, <<1,1>> >>,                       \* dart
           << <<1,0>>, <<3,1>>, <<2,3>>, <<0,2>> >> >>                              \* tilted square
\* (frame, polygon) pairs: all embedded coordinates stay in 0..3
PolyIds == IF Big THEN {<<1,1>>, <<1,2>>, <<1,3>>, <<1,4>>, <<1,5>>, <<2,1>>, <<2,2>>, <<2,3>>, <<2,4>>, <<3,1>>, <<4,2>>, <<4,4>>}
           ELSE {<<1,2>>, <<1,4>>, <<2,3>>, <<3,1>>}
Poly3(id) == EmbedPoly(Frames[id[1]], Flat[id[2]])
SegEnds == IF Big THEN Lat3(3) ELSE {0, 1, 3} \X {1, 2} \X {0, 1, 2}

ShortMains2 == { << <<0,0>>, <<1,0>> >>, << <<0,0>>, <<0,1>> >>, << <<0,0>>, <<1,1>> >>, << <<1,1>>, <<0,0>> >>,
                 << <<3,1>>, <<2,1>> >>, << <<1,0>>, <<2,1>> >>, << <<2,3>>, <<1,2>> >> }
Long3 == (0..3) \X {0, 1} \X {0, 1}
ShortMains3 == { << <<0,0,0>>, <<1,0,0>> >>, << <<0,0,0>>, <<1,1,0>> >>, << <<3,1,1>>, <<2,1,1>> >>,
                 << <<0,1,0>>, <<1,0,1>> >>, << <<1,0,0>>, <<0,0,0>> >> }

VARIABLE inp
Start == [fn |-> "start"]
Init == inp = Start

Inputs(fn) ==
  CASE fn = "point_pointset" ->
         {[fn |-> fn, p |-> p, pts |-> Lat2(2)] : p \in {<<0,0>>, <<2,1>>, <<-1,3>>}}
         \cup {[fn |-> fn, p |-> p, pts |-> Lat3(IF Big THEN 2 ELSE 1)] : p \in {<<0,0,0>>, <<2,1,-1>>}}
    [] fn = "pointset" ->
         {[fn |-> fn, pts |-> s] : s \in [1..3 -> Lat2(IF Big THEN 2 ELSE 1)] \cup [1..2 -> Lat3(1)]}
    [] fn = "points_segments" ->
         \* one segment, many points (loop over segments) / one or two points, many segments (loop over points)
         {[fn |-> fn, pts |-> ((-1..4) \X (-1..4)), segs |-> {ab}] :
             ab \in {s \in Segs(Lat2(3)) : Big \/ s[1] \in {<<0,0>>, <<1,2>>}}}
         \cup {[fn |-> fn, pts |-> {p}, segs |-> (Segs(Lat2(2)))] :
             p \in (IF Big THEN (-1..3) \X (-1..3) ELSE {<<0,0>>, <<1,1>>, <<-1,2>>, <<3,1>>, <<2,-1>>, <<1,3>>})}
         \cup {[fn |-> fn, pts |-> (Lat3(2)), segs |-> {ab}] :
             ab \in {s \in Segs(Lat3(2)) : s[1] \in (IF Big THEN {<<0,0,0>>, <<1,2,0>>, <<2,1,1>>} ELSE {<<0,0,0>>})}}
         \cup {[fn |-> fn, pts |-> {p, q}, segs |-> (Segs(Lat3(1)))] :
             <<p, q>> \in {<<0,0,0>>, <<1,2,1>>, <<-1,0,2>>} \X {<<2,2,2>>, <<0,1,-1>>}}
    [] fn = "segment_segment_set" ->
         {[fn |-> fn, a |-> ab[1], b |-> ab[2], segs |-> (Segs(Lat2(2)))] :
             ab \in {s \in Segs(Lat2(IF Big THEN 3 ELSE 2)) : Big \/ s[1] \in {<<0,0>>, <<1,1>>, <<2,1>>}}}
         \cup (IF Big THEN {[fn |-> fn, a |-> ab[1], b |-> ab[2], segs |-> (Segs(Lat2(3)))] :
                              ab \in {s \in Segs(Lat2(3)) : s[1] \in {<<0,0>>, <<1,2>>, <<3,1>>}}} ELSE {})
         \cup {[fn |-> fn, a |-> ab[1], b |-> ab[2], segs |-> (Segs(Lat3(1)))] :
             ab \in {s \in Segs(Lat3(1)) : Big \/ s[1] \in {<<0,0,0>>, <<1,0,1>>}}}
         \cup (IF Big THEN {[fn |-> fn, a |-> ab[1], b |-> ab[2], segs |-> (Segs(Lat3(2)))] :
                              ab \in {s \in Segs(Lat3(2)) : s[1] = <<0,0,0>>}} ELSE {})
         \* short main segments against every segment of a longer lattice: parallel and collinear segments that lie
         \* entirely beyond either end of the main segment, in both orientations (the clamping branches for parallel pairs)
         \cup {[fn |-> fn, a |-> ab[1], b |-> ab[2], segs |-> (Segs(Lat2(3)))] : ab \in ShortMains2}
         \cup {[fn |-> fn, a |-> ab[1], b |-> ab[2], segs |-> (Segs(Long3))] : ab \in ShortMains3}
    [] fn = "segment_set" ->
         {[fn |-> fn, segs |-> <<ab, cd>>] : <<ab, cd>> \in {<< <<0,0>>, <<2,0>> >>, << <<1,1>>, <<0,2>> >>} \X Segs(Lat2(1))}
    [] fn = "points_polygon" ->
         {[fn |-> fn, poly |-> Poly3(id), pts |-> {p}] :
             <<id, p>> \in PolyIds \X ((-1..4) \X (-1..4) \X (-1..4))}
    [] fn = "segments_polygon" ->
         {[fn |-> fn, poly |-> Poly3(id), segs |-> {se}] : <<id, se>> \in PolyIds \X Segs(SegEnds)}
    [] OTHER -> {}

Next == inp = Start /\ \E fn \in Fns : inp' \in Inputs(fn)
Spec == Init /\ [][Next]_inp
Emit == inp = Start \/ PrintT(ToJson(inp))

\* model laws on the enumerated segment pairs / polygons
LawSym == inp # Start /\ inp.fn = "segment_segment_set" =>
             \A sg \in inp.segs :
                LET c == sg[1]  d == sg[2]  r == SegSegD2(inp.a, inp.b, c, d)
                IN /\ r = SegSegD2(c, d, inp.a, inp.b) /\ r = SegSegD2(inp.b, inp.a, c, d) /\ r = SegSegD2(inp.a, inp.b, d, c)
                   /\ (inp.a = c \/ inp.a = d \/ inp.b = c \/ inp.b = d) => r = RZero
                   /\ RLe(RZero, r)
LawPoly == inp # Start /\ inp.fn = "points_polygon" =>
             /\ PlanarPoly(inp.poly)
             /\ \A p \in inp.pts : StrictlyIn(inp.poly, p) => PtPolyD2(inp.poly, p) = RZero
             /\ \A p \in inp.pts : PtPolyD2(inp.poly, p) = SegPolyD2(inp.poly, p, p)
=============================================================================
