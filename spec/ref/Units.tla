-------------------------------- MODULE Units --------------------------------
(***************************************************************************)
(* C43  Unit conversion is consistent (unit algebra only; the sentence of  *)
(* the property about a scaled flow simulation is NOT modelled).           *)
(*                                                                         *)
(* Reference semantics of porepy.models.units.Units.convert_units and of   *)
(* the derived-unit properties Pa, J, N, W, degree.                        *)
(*                                                                         *)
(* Numbers.  Every scaling is a number 2^a 5^b G^c with G = 180/pi (G only *)
(* through the unit "degree"); it is represented by its exponent vector    *)
(* <<a, b, c>>, so TLC does exact exponent arithmetic and never overflows  *)
(* (10^k = <<k, k, 0>>).  A value is a record [m |-> mantissa, e |->       *)
(* exponent vector] with an odd mantissa not divisible by 5; conversion    *)
(* only moves the exponent vector.                                         *)
(*                                                                         *)
(* A unit system U gives the exponent vector of the base units m, kg, K,   *)
(* mol, rad (s is always 1: the code rejects other time scalings).  A unit *)
(* string is a sequence of tokens <<name, exponent, explicit>> (explicit = *)
(* FALSE: written without "^", exponent 1); Render gives the text the code *)
(* parses ("*" between tokens, "^" before an exponent, blanks anywhere).   *)
(*   Scale(U, toks) = sum_i exponent_i * ScaleOf(U, name_i)                *)
(*   ToSim(v, U, toks) = v / 2^Scale,   ToSI(v, U, toks) = v * 2^Scale     *)
(* Derived units by their definitions (Def): Pa = kg m^-1 s^-2,            *)
(* J = kg m^2 s^-2, N = kg m s^-2, W = kg m^2 s^-3, degree = rad * G.      *)
(*                                                                         *)
(* Laws (property clauses; on the model they are checked in UnitsEnum, on  *)
(* the real code in J_Units):                                              *)
(*   round trip:   ToSI(ToSim(v, U, t), U, t) = v                          *)
(*   composition:  ToSim(v, U, t1 \o t2) = ToSim(ToSim(v, U, t1), U, t2)   *)
(*   derived:      ScaleOf(U, d) = Scale(U, Def(d))                        *)
(***************************************************************************)
EXTENDS Integers, Sequences, TLC

Base == {"m", "s", "kg", "K", "mol", "rad"}
Derived == {"Pa", "J", "N", "W"}
Zero3 == <<0, 0, 0>>
VAdd(u, v) == <<u[1] + v[1], u[2] + v[2], u[3] + v[3]>>
VScale(k, u) == <<k * u[1], k * u[2], k * u[3]>>
VNeg(u) == VScale(-1, u)

Tok(name, e) == <<name, e, TRUE>>
Def(d) == CASE d = "Pa" -> <<Tok("kg", 1), Tok("m", -1), Tok("s", -2)>>
            [] d = "J"  -> <<Tok("kg", 1), Tok("m", 2), Tok("s", -2)>>
            [] d = "N"  -> <<Tok("kg", 1), Tok("m", 1), Tok("s", -2)>>
            [] d = "W"  -> <<Tok("kg", 1), Tok("m", 2), Tok("s", -3)>>

\* U: record with fields m, kg, K, mol, rad (exponent vectors); s = 1
BaseScale(U, name) == IF name = "s" THEN Zero3 ELSE U[name]
RECURSIVE BaseStrScale(_, _)
BaseStrScale(U, toks) == IF toks = <<>> THEN Zero3
                         ELSE VAdd(VScale(Head(toks)[2], BaseScale(U, Head(toks)[1])), BaseStrScale(U, Tail(toks)))
ScaleOf(U, name) == IF name \in Base THEN BaseScale(U, name)
                    ELSE IF name = "degree" THEN VAdd(U.rad, <<0, 0, 1>>)
                    ELSE BaseStrScale(U, Def(name))
RECURSIVE Scale(_, _)
Scale(U, toks) == IF toks = <<>> THEN Zero3
                  ELSE VAdd(VScale(Head(toks)[2], ScaleOf(U, Head(toks)[1])), Scale(U, Tail(toks)))

ToSim(v, U, toks) == [m |-> v.m, e |-> VAdd(v.e, VNeg(Scale(U, toks)))]
ToSI(v, U, toks) == [m |-> v.m, e |-> VAdd(v.e, Scale(U, toks))]

\* ---- text of a unit string
Sep(style) == CASE style = 0 -> "*" [] style = 1 -> " * " [] style = 2 -> "  *"
Hat(style) == CASE style = 0 -> "^" [] style = 1 -> "^" [] style = 2 -> " ^ "
TokStr(t, style) == IF t[3] THEN t[1] \o Hat(style) \o ToString(t[2]) ELSE t[1]
RECURSIVE Render(_, _)
Render(toks, style) == IF Len(toks) = 1 THEN TokStr(toks[1], style)
                       ELSE TokStr(Head(toks), style) \o Sep(style) \o Render(Tail(toks), style)
\* a well-formed token: known name, explicit or exponent 1
TokOK(t) == t[1] \in Base \cup Derived \cup {"degree"} /\ (t[3] \/ t[2] = 1)

\* ---- laws on the model
LawRoundTripOf(v, U, toks) == ToSI(ToSim(v, U, toks), U, toks) = v
LawComposeOf(v, U, t1, t2) == ToSim(v, U, t1 \o t2) = ToSim(ToSim(v, U, t1), U, t2)
LawDerivedOf(U, d) == ScaleOf(U, d) = Scale(U, Def(d))
=============================================================================
