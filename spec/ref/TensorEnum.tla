----------------------------- MODULE TensorEnum -----------------------------
(***************************************************************************)
(* C40 enumerator: TLC lists the scenarios for harness/props/c40.py (Emit) *)
(* and checks the model laws of Tensor.tla on every enumerated point       *)
(* (Laws).  One emitted record = one tensor object of the real code whose  *)
(* cells are ALL parameter tuples of the lattice (the classes are          *)
(* cell-wise vectorised), except for restrict / copy, which use a fixed    *)
(* catalogue of pairwise different cells so that a selection is visible.   *)
(*   scen = "build":    a = which optional arguments are passed            *)
(*   scen = "rotate":   a = rotation [n, q] (second order only)            *)
(*   scen = "rothom":   a = rotation; HOMOGENEOUS tensors (1 cell and 3    *)
(*                      identical cells), one real tensor per entry of     *)
(*                      HomSpecs: every diagonal tuple (isotropic,         *)
(*                      kxx = kyy # kzz, kxx = kzz # kyy, ...), some full  *)
(*                      tuples, and the argument patterns "kxx only" and   *)
(*                      "kxx and kzz" (kyy defaulting to kxx) - whole-     *)
(*                      array shortcuts of the code only fire on these     *)
(*   scen = "restrict": a = sequence of distinct 0-based cell indices      *)
(*   scen = "copy":     a = rotation applied before copying (signed        *)
(*                      permutation: exact in floating point)              *)
(* b = TRUE: the fourth-order tensor carries an additional constitutive    *)
(* parameter phi with basis matrix ExtraMat.                               *)
(***************************************************************************)
EXTENDS Tensor, Json

CONSTANTS Kind,      \* "second" | "fourth"
          Diag, Off, \* second: values of the diagonal / off-diagonal parameters
          PermMode,  \* "few" | "all": signed permutations composed with the base rotations
          MuVals, LaVals, PhiVals   \* fourth: Lame parameters and the additional parameter

AllGiven == <<TRUE, TRUE, TRUE, TRUE, TRUE, TRUE>>
GivPatterns == {AllGiven,
                <<TRUE, FALSE, FALSE, FALSE, FALSE, FALSE>>,     \* isotropic: kxx only
                <<TRUE, TRUE, FALSE, FALSE, FALSE, FALSE>>,      \* kxx, kyy
                <<TRUE, TRUE, TRUE, FALSE, FALSE, FALSE>>,       \* diagonal
                <<TRUE, TRUE, FALSE, TRUE, FALSE, FALSE>>,       \* 2d full tensor
                <<TRUE, FALSE, FALSE, TRUE, TRUE, TRUE>>}        \* cross terms with default diagonal
\* parameter tuples <<kxx, kyy, kzz, kxy, kxz, kyz>>; arguments that are not passed are listed as 0
Vals(giv, i) == IF giv[i] THEN (IF i <= 3 THEN Diag ELSE Off) ELSE {0}
Cells2(giv) == {p \in {<<xx, yy, zz, xy, xz, yz>> : xx \in Vals(giv, 1), yy \in Vals(giv, 2), zz \in Vals(giv, 3),
                                                     xy \in Vals(giv, 4), xz \in Vals(giv, 5), yz \in Vals(giv, 6)} :
                  Admissible(p, giv)}
CellsAll == Cells2(AllGiven)     \* constant: evaluated once
Cat2 == <<<<1, 1, 1, 0, 0, 0>>, <<2, 3, 1, 1, 0, 0>>, <<3, 2, 2, 1, -1, 0>>, <<2, 2, 3, 0, 1, 1>>>>
Cells4 == {<<mu, la, phi>> : mu \in MuVals, la \in LaVals, phi \in PhiVals}
Cat4 == <<<<1, 0, 2>>, <<2, 1, 0>>, <<1, 3, 1>>, <<3, 2, 3>>>>
NCat == 4
\* homogeneous tensors: <<parameter tuple, argument pattern, number of identical cells>>
KxxOnly == <<TRUE, FALSE, FALSE, FALSE, FALSE, FALSE>>
KxxKzz == <<TRUE, FALSE, TRUE, FALSE, FALSE, FALSE>>
HomTuples == {<<p, AllGiven>> : p \in {<<xx, yy, zz, 0, 0, 0>> : xx \in Diag, yy \in Diag, zz \in Diag}}
             \cup {<<Cat2[i], AllGiven>> : i \in 2..NCat}
             \cup {<<<<xx, 0, 0, 0, 0, 0>>, KxxOnly>> : xx \in Diag}
             \cup {<<<<xx, 0, zz, 0, 0, 0>>, KxxKzz>> : xx \in Diag, zz \in Diag}
HomSpecs == {<<t[1], t[2], nc>> : t \in {u \in HomTuples : Admissible(u[1], u[2])}, nc \in {1, 3}}

PermSub == IF PermMode = "all" THEN SignedPerms
           ELSE {P \in SignedPerms : P[1][1] = 1 \/ (P[1][2] = 1 /\ P[2][3] = 1) \/ (P[1][3] = -1 /\ P[2][2] = -1)}
Rots == {[n |-> MMul(P, B.n), q |-> B.q] : P \in PermSub, B \in BaseRots}
NoRot == [n |-> Ident(1), q |-> 1]
\* rotations applied (to the many-cell and to the homogeneous tensors): the base rotations (about every axis, the /3 and /7 rotations move all axes)
\* and the signed permutations alone; with PermMode = "all" every composition
HomRots == IF PermMode = "all" THEN Rots ELSE BaseRots \cup {[n |-> P, q |-> 1] : P \in PermSub}
CellSeqs == {s \in UNION {[1..l -> 0..(NCat - 1)] : l \in 1..NCat} : \A i, j \in 1..Len(s) : i # j => s[i] # s[j]}
Scens == IF Kind = "second" THEN {"build", "rotate", "rothom", "restrict", "copy"} ELSE {"build", "restrict", "copy"}

VARIABLES st, scen, a, b
vars == <<st, scen, a, b>>
Init == st = 0 /\ scen \in Scens /\ a = <<>> /\ b = FALSE
Pick == /\ st = 0 /\ st' = 1 /\ scen' = scen
        /\ b' \in (IF Kind = "fourth" THEN BOOLEAN ELSE {FALSE})
        /\ CASE scen = "build"    -> a' \in (IF Kind = "second" THEN GivPatterns ELSE {<<>>})
             [] scen = "rotate"   -> a' \in HomRots
             [] scen = "rothom"   -> a' \in HomRots
             [] scen = "restrict" -> a' \in CellSeqs
             [] scen = "copy"     -> a' \in (IF Kind = "second" THEN {[n |-> P, q |-> 1] : P \in PermSub} ELSE {NoRot})
Eval == st = 1 /\ st' = 2 /\ UNCHANGED <<scen, a, b>>
Next == Pick \/ Eval
Spec == Init /\ [][Next]_vars

Cells == IF Kind = "second"
         THEN (IF scen = "build" THEN (IF a = AllGiven THEN CellsAll ELSE Cells2(a))
               ELSE IF scen = "rotate" THEN CellsAll ELSE IF scen = "rothom" THEN {} ELSE Cat2)
         ELSE (IF scen = "build" THEN {c \in Cells4 : b \/ c[3] = 0} ELSE Cat4)
Emit == st = 2 =>
  PrintT(ToJson([kind |-> Kind, scen |-> scen, cells |-> Cells, extra |-> b,
                 giv |-> IF Kind = "second" /\ scen = "build" THEN a ELSE AllGiven,
                 homs |-> IF scen = "rothom" THEN HomSpecs ELSE {},
                 rot |-> IF scen \in {"rotate", "rothom", "copy"} THEN a ELSE NoRot,
                 sel |-> IF scen = "restrict" THEN a ELSE <<>>]))

CellSet == IF scen \in {"restrict", "copy"} THEN {Cells[i] : i \in 1..NCat} ELSE Cells
Laws == st = 2 =>
  IF scen = "rothom"
  THEN IsRotation(a.n, a.q) /\ \A h \in HomSpecs : LawInvariantsOf(Second(h[1], h[2]), a.n, a.q)
  ELSE IF Kind = "second"
  THEN LET giv == IF scen = "build" THEN a ELSE AllGiven IN
       /\ \A p \in CellSet : Admissible(p, giv) /\ Sym3(Second(p, giv))
       /\ scen \in {"rotate", "copy"} =>
            /\ IsRotation(a.n, a.q)
            /\ \A p \in CellSet : LawInvariantsOf(Second(p, giv), a.n, a.q)
  ELSE \A c \in CellSet : LET M == Fourth(c[1], c[2], IF b THEN c[3] ELSE 0) IN Sym9(M) /\ MinorSym(M)
=============================================================================
