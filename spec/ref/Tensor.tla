------------------------------- MODULE Tensor -------------------------------
(***************************************************************************)
(* C40  Material tensors are symmetric and transform as tensors.           *)
(*                                                                         *)
(* Reference semantics (integers / exact rationals) of                     *)
(*   porepy.params.tensor.SecondOrderTensor(kxx, kyy, kzz, kxy, kxz, kyz)  *)
(*   porepy.params.tensor.FourthOrderTensor(mu, lmbda, other_fields)       *)
(*   .rotate(R), .restrict_to_cells(cells), .copy()                        *)
(*                                                                         *)
(* Second(p, giv): the 3x3 matrix of one cell from the six parameters      *)
(*   p = <<kxx, kyy, kzz, kxy, kxz, kyz>>; giv[i] = FALSE means "argument  *)
(*   not passed" (kyy, kzz default to kxx, cross terms to 0).              *)
(*   Admissible = the constructor's positive-(semi)definiteness checks.    *)
(* Fourth(mu, la, phi): the 9x9 matrix of one cell with the code's index   *)
(*   convention, row 3i+j, column 3k+l (i, j, k, l in 0..2):               *)
(*   c_ijkl = la d_ij d_kl + mu (d_ik d_jl + d_il d_jk)  (+ phi * Extra).  *)
(* Symmetry laws: Sym (second order, and major symmetry of the 9x9 form),  *)
(*   MinorSym (c_ijkl = c_jikl = c_ijlk).                                  *)
(* Rotation: R = Rn / rq with an integer matrix Rn (IsRotation: Rn Rn^T =  *)
(*   rq^2 I, det Rn = rq^3).  RotNum(K, Rn) = Rn K Rn^T, so the rotated    *)
(*   tensor is RotNum / rq^2.  "Eigenvalues preserved" in rational form:   *)
(*   the coefficients of the characteristic polynomial - trace, second     *)
(*   invariant, determinant - are preserved (LawInvariants).               *)
(* Restrict(seq, cells): selects the listed cells (0-based indices).       *)
(* Copy independence: a two-object heap (TensorHeap.tla) shows the law on  *)
(*   the model; J_Tensor judges the recorded mutation trials.              *)
(***************************************************************************)
EXTENDS Integers, Sequences, FiniteSets, TLC

I3 == 1..3
I9 == 1..9
D(i, j) == IF i = j THEN 1 ELSE 0
Mat3(f(_, _)) == [i \in I3 |-> [j \in I3 |-> f(i, j)]]
Mat9(f(_, _)) == [a \in I9 |-> [b \in I9 |-> f(a, b)]]

\* ---------------------------------------------------------------- second order
Par(p, giv, i) == IF giv[i] THEN p[i] ELSE IF i <= 3 THEN p[1] ELSE 0
Second(p, giv) ==
  LET xx == p[1]  yy == Par(p, giv, 2)  zz == Par(p, giv, 3)
      xy == Par(p, giv, 4)  xz == Par(p, giv, 5)  yz == Par(p, giv, 6)
  IN <<<<xx, xy, xz>>, <<xy, yy, yz>>, <<xz, yz, zz>>>>
Tr(M) == M[1][1] + M[2][2] + M[3][3]
Minor(M, i, j) == M[i][i] * M[j][j] - M[i][j] * M[j][i]
I2(M) == Minor(M, 1, 2) + Minor(M, 1, 3) + Minor(M, 2, 3)
Det(M) == M[1][1] * (M[2][2] * M[3][3] - M[2][3] * M[3][2])
        - M[1][2] * (M[2][1] * M[3][3] - M[2][3] * M[3][1])
        + M[1][3] * (M[2][1] * M[3][2] - M[2][2] * M[3][1])
\* the checks of SecondOrderTensor.__init__
Admissible(p, giv) == LET M == Second(p, giv) IN M[1][1] >= 0 /\ Minor(M, 1, 2) >= 0 /\ Det(M) >= 0
Sym3(M) == \A i \in I3, j \in I3 : M[i][j] = M[j][i]

\* ---------------------------------------------------------------- fourth order
\* 0-based pair (i, j) of the 1-based flat index a
Hi(a) == (a - 1) \div 3
Lo(a) == (a - 1) % 3
Flat(i, j) == 3 * i + j + 1
MuMat == Mat9(LAMBDA a, b : D(Hi(a), Hi(b)) * D(Lo(a), Lo(b)) + D(Hi(a), Lo(b)) * D(Lo(a), Hi(b)))
LaMat == Mat9(LAMBDA a, b : D(Hi(a), Lo(a)) * D(Hi(b), Lo(b)))
\* basis matrix of the additional constitutive parameter used by the harness (symmetric, with minor symmetries):
\* coupling of the 11 and 22 normal components
ExtraMat == Mat9(LAMBDA a, b : IF (a = 1 /\ b = 5) \/ (a = 5 /\ b = 1) THEN 1 ELSE 0)
\* (entry formulas written out: MuMat, LaMat, ExtraMat above are the same matrices, as the code stores them)
Fourth(mu, la, phi) ==
  Mat9(LAMBDA a, b : mu * (D(Hi(a), Hi(b)) * D(Lo(a), Lo(b)) + D(Hi(a), Lo(b)) * D(Lo(a), Hi(b)))
                     + la * (D(Hi(a), Lo(a)) * D(Hi(b), Lo(b)))
                     + phi * (IF (a = 1 /\ b = 5) \/ (a = 5 /\ b = 1) THEN 1 ELSE 0))
Sym9(M) == \A a \in I9, b \in I9 : M[a][b] = M[b][a]
MinorSym(M) == \A i \in 0..2, j \in 0..2, b \in I9 :
                 M[Flat(i, j)][b] = M[Flat(j, i)][b] /\ M[b][Flat(i, j)] = M[b][Flat(j, i)]

\* ---------------------------------------------------------------- rotation
MMul(A, B) == Mat3(LAMBDA i, j : A[i][1] * B[1][j] + A[i][2] * B[2][j] + A[i][3] * B[3][j])
Transp(A) == Mat3(LAMBDA i, j : A[j][i])
Ident(s) == Mat3(LAMBDA i, j : s * D(i, j))
IsRotation(Rn, rq) == MMul(Rn, Transp(Rn)) = Ident(rq * rq) /\ Det(Rn) = rq * rq * rq
RotNum(K, Rn) == MMul(Rn, MMul(K, Transp(Rn)))
LawInvariantsOf(K, Rn, rq) ==
  LET N == RotNum(K, Rn)
      q2 == rq * rq
  IN Tr(N) = q2 * Tr(K) /\ I2(N) = q2 * q2 * I2(K) /\ Det(N) = q2 * q2 * q2 * Det(K) /\ Sym3(N)

\* rotation catalogue: signed permutations (exact in floating point) and genuinely rational rotations
SignedPermOf(sigma, sg) == Mat3(LAMBDA i, j : IF j = sigma[i] THEN sg[i] ELSE 0)
SignedPerms == {Rn \in {SignedPermOf(sigma, sg) : sigma \in {f \in [I3 -> I3] : \A i, j \in I3 : i # j => f[i] # f[j]},
                                                   sg \in [I3 -> {-1, 1}]} : IsRotation(Rn, 1)}
AxisRot(ax, c, s, q) ==
  CASE ax = 1 -> <<<<q, 0, 0>>, <<0, c, -s>>, <<0, s, c>>>>
    [] ax = 2 -> <<<<c, 0, s>>, <<0, q, 0>>, <<-s, 0, c>>>>
    [] ax = 3 -> <<<<c, -s, 0>>, <<s, c, 0>>, <<0, 0, q>>>>
Rot3 == <<<<2, -1, 2>>, <<2, 2, -1>>, <<-1, 2, 2>>>>            \* / 3
Rot7 == <<<<-6, -2, -3>>, <<-2, -3, 6>>, <<-3, 6, 2>>>>         \* / 7
BaseRots == {[n |-> AxisRot(ax, cs[1], cs[2], 5), q |-> 5] : ax \in I3, cs \in {<<3, 4>>, <<4, 3>>, <<-3, 4>>}}
            \cup {[n |-> Rot3, q |-> 3], [n |-> Rot7, q |-> 7], [n |-> Ident(1), q |-> 1]}

\* ---------------------------------------------------------------- restriction
Restrict(s, cells) == [i \in 1..Len(cells) |-> s[cells[i] + 1]]
=============================================================================
