------------------------------ MODULE Uniquify ------------------------------
(***************************************************************************)
(* pp.array_operations.uniquify_point_set(points, tol) (C34), on lattice   *)
(* points: a point is a tuple of integers (units), tol an integer number   *)
(* of units; the harness realises them in floats by scaling.  Indices are  *)
(* 1-based here (the harness adds 1 to the code's index maps).             *)
(*                                                                         *)
(* Family of the property (WellSeparated): any two points are either in    *)
(* the same cluster (distance <= tol/5) or far apart (distance >= 10 tol). *)
(*                                                                         *)
(* Ref  = what the docstring promises: one representative per cluster, the *)
(*        first-occurring member, in order of first occurrence;            *)
(*        new_2_old (index of the representative of every unique point),   *)
(*        old_2_new (for every input point the unique point of its         *)
(*        cluster), unique points = the representatives' coordinates.      *)
(* Impl = the algorithm as coded, as sequential sub-steps: sort by norm;   *)
(*        sweep into norm-clusters (a new one starts when the norm exceeds *)
(*        the FIRST norm of the running norm-cluster by more than tol);    *)
(*        per norm-cluster a scan that compares every point with the kept  *)
(*        points (strictly closer than tol), keeps new ones and replaces a *)
(*        kept point by an earlier-occurring twin; concatenation; final    *)
(*        reorder by first occurrence.                                     *)
(* Straddle = some cluster has members in two different norm-clusters of   *)
(*        the sweep, i.e. its norms lie on both sides of (first norm of    *)
(*        the running norm-cluster) + tol.  TLC shows (UniquifyEnum) that  *)
(*        on well-separated inputs  Impl = Ref  <=>  ~Straddle.            *)
(* Norms are compared exactly through squared norms (NormGapGt).           *)
(***************************************************************************)
EXTENDS Integers, Sequences, FiniteSets

Sq(x) == x * x
RECURSIVE SumSq(_)
SumSq(p) == IF p = <<>> THEN 0 ELSE Sq(Head(p)) + SumSq(Tail(p))
RECURSIVE D2(_, _)
D2(p, q) == IF p = <<>> THEN 0 ELSE Sq(Head(p) - Head(q)) + D2(Tail(p), Tail(q))

MinOf(S) == CHOOSE x \in S : \A y \in S : x <= y
RECURSIVE SortInts(_)
SortInts(S) == IF S = {} THEN <<>> ELSE LET m == MinOf(S) IN <<m>> \o SortInts(S \ {m})
PosIn(s, x) == CHOOSE k \in 1..Len(s) : s[k] = x

(* ------------------------------- family ----------------------------------- *)
Close(p, q, tol) == 25 * D2(p, q) <= Sq(tol)          \* distance <= tol / 5
Far(p, q, tol) == D2(p, q) >= 100 * Sq(tol)            \* distance >= 10 tol
WellSeparated(pts, tol) ==
  \A i, j \in 1..Len(pts) : Close(pts[i], pts[j], tol) \/ Far(pts[i], pts[j], tol)

(* ------------------------------- Ref -------------------------------------- *)
ClusterOf(pts, tol, i) == {j \in 1..Len(pts) : Close(pts[i], pts[j], tol)}
FirstOf(pts, tol, i) == MinOf(ClusterOf(pts, tol, i))
RefN2O(pts, tol) == SortInts({FirstOf(pts, tol, i) : i \in 1..Len(pts)})
RefO2N(pts, tol) == LET n2o == RefN2O(pts, tol) IN [i \in 1..Len(pts) |-> PosIn(n2o, FirstOf(pts, tol, i))]
RefPts(pts, tol) == LET n2o == RefN2O(pts, tol) IN [k \in 1..Len(n2o) |-> pts[n2o[k]]]
RefOut(pts, tol) == [pts |-> RefPts(pts, tol), n2o |-> RefN2O(pts, tol), o2n |-> RefO2N(pts, tol)]

(* ------------------------------- Impl ------------------------------------- *)
\* sqrt(N1) - sqrt(N2) > t  for squared norms N1 >= N2 >= 0, t >= 0 (exact)
NormGapGt(N1, N2, t) == LET L == N1 - N2 - Sq(t) IN L > 0 /\ Sq(L) > 4 * Sq(t) * N2
\* exact tie sqrt(N1) - sqrt(N2) = t: the only place where rounding of the float norms could decide
NormGapEq(N1, N2, t) == LET L == N1 - N2 - Sq(t) IN L >= 0 /\ Sq(L) = 4 * Sq(t) * N2
HasNormTie(pts, tol) ==
  \E i, j \in 1..Len(pts) : SumSq(pts[i]) >= SumSq(pts[j]) /\ NormGapEq(SumSq(pts[i]), SumSq(pts[j]), tol)

\* step 1: argsort of the norms (ties by index; the result does not depend on the tie order on this family)
RECURSIVE SortByNorm(_, _)
SortByNorm(pts, S) ==
  IF S = {} THEN <<>>
  ELSE LET m == CHOOSE i \in S : \A j \in S : SumSq(pts[i]) < SumSq(pts[j]) \/ (SumSq(pts[i]) = SumSq(pts[j]) /\ i <= j)
       IN <<m>> \o SortByNorm(pts, S \ {m})

\* step 2: the sweep; returns for every sorted position the id of its norm-cluster
RECURSIVE Sweep(_, _, _, _, _, _)
Sweep(pts, tol, srt, k, first, cid) ==   \* first = squared norm that opened the running norm-cluster
  IF k > Len(srt) THEN <<>>
  ELSE LET N == SumSq(pts[srt[k]])
           new == NormGapGt(N, first, tol)
       IN <<IF new THEN cid + 1 ELSE cid>> \o
          Sweep(pts, tol, srt, k + 1, IF new THEN N ELSE first, IF new THEN cid + 1 ELSE cid)
NormClusters(pts, tol, srt) == Sweep(pts, tol, srt, 1, SumSq(pts[srt[1]]), 1)

\* step 3: _unique_points_in_cluster over the sorted positions `ks` (ascending) of one norm-cluster.
\*   kept = sequence of [idx (original index of the kept point), p (its coordinates)]
\*   loc  = for each scanned position the (1-based) slot in kept it was mapped to
RECURSIVE Scan(_, _, _, _, _, _)
Scan(pts, tol, srt, ks, kept, loc) ==
  IF ks = <<>> THEN [kept |-> kept, loc |-> loc]
  ELSE LET i == srt[Head(ks)]
           near == {s \in 1..Len(kept) : D2(pts[i], kept[s].p) < Sq(tol)}
       IN IF near = {}
          THEN Scan(pts, tol, srt, Tail(ks), Append(kept, [idx |-> i, p |-> pts[i]]), Append(loc, Len(kept) + 1))
          ELSE LET s == MinOf(near)                                     \* np.argmax(within_tol)
                   kept2 == IF i < kept[s].idx THEN [kept EXCEPT ![s] = [idx |-> i, p |-> pts[i]]] ELSE kept
               IN Scan(pts, tol, srt, Tail(ks), kept2, Append(loc, s))

\* steps 3-4 over all norm-clusters: concatenated kept points and, per original index, its slot
RECURSIVE PerCluster(_, _, _, _, _, _, _)
PerCluster(pts, tol, srt, ncl, c, keptAll, slotOf) ==
  IF c > ncl[Len(ncl)] THEN [kept |-> keptAll, slot |-> slotOf]
  ELSE LET ks == SortInts({k \in 1..Len(srt) : ncl[k] = c})
           r  == Scan(pts, tol, srt, ks, <<>>, <<>>)
           off == Len(keptAll)
           slot2 == [i \in 1..Len(pts) |->
                       IF \E q \in 1..Len(ks) : srt[ks[q]] = i
                       THEN off + r.loc[CHOOSE q \in 1..Len(ks) : srt[ks[q]] = i]
                       ELSE slotOf[i]]
       IN PerCluster(pts, tol, srt, ncl, c + 1, keptAll \o r.kept, slot2)

\* step 5: reorder by first occurrence (argsort of new_2_old) and remap old_2_new
ImplOut(pts, tol) ==
  IF pts = <<>> THEN [pts |-> <<>>, n2o |-> <<>>, o2n |-> <<>>]
  ELSE LET srt == SortByNorm(pts, 1..Len(pts))
           ncl == NormClusters(pts, tol, srt)
           r   == PerCluster(pts, tol, srt, ncl, 1, <<>>, [i \in 1..Len(pts) |-> 0])
           idxs == {r.kept[s].idx : s \in 1..Len(r.kept)}
           ord  == SortInts(idxs)                                     \* new_2_old, ascending
           slotAt(k) == CHOOSE s \in 1..Len(r.kept) : r.kept[s].idx = ord[k]
           rank(s) == CHOOSE k \in 1..Len(ord) : ord[k] = r.kept[s].idx
       IN [pts |-> [k \in 1..Len(ord) |-> r.kept[slotAt(k)].p],
           n2o |-> ord,
           o2n |-> [i \in 1..Len(pts) |-> rank(r.slot[i])]]

(* ------------------------------- the known split --------------------------- *)
NormClusterOfPoint(pts, tol) ==
  LET srt == SortByNorm(pts, 1..Len(pts))
      ncl == NormClusters(pts, tol, srt)
  IN [i \in 1..Len(pts) |-> ncl[PosIn(srt, i)]]
Straddle(pts, tol) ==
  pts # <<>> /\
  LET nc == NormClusterOfPoint(pts, tol)
  IN \E i, j \in 1..Len(pts) : Close(pts[i], pts[j], tol) /\ nc[i] # nc[j]

(* ------------------------------- fracs.utils.uniquify_points ---------------- *)
\* edges: sequence of columns <<start, end, tag...>> (1-based point indices); o2n from uniquification
MapEdge(e, o2n) == <<o2n[e[1]], o2n[e[2]]>> \o SubSeq(e, 3, Len(e))
RECURSIVE DropPointEdges(_, _)
DropPointEdges(edges, o2n) ==
  IF edges = <<>> THEN <<>>
  ELSE LET m == MapEdge(Head(edges), o2n)
       IN (IF m[1] = m[2] THEN <<>> ELSE <<m>>) \o DropPointEdges(Tail(edges), o2n)
PointEdges(edges, o2n) == SortInts({k \in 1..Len(edges) : o2n[edges[k][1]] = o2n[edges[k][2]]})
=============================================================================
