---------------------------- MODULE SegSplitEnum ----------------------------
(***************************************************************************)
(* C29 enumerator: for every plan <<NSeg, Box, OnlyContacts>> in Plans TLC *)
(* lists every SET of NSeg distinct non-degenerate segments with end       *)
(* points in {0..Box}^2 (as a strictly increasing sequence of canonical    *)
(* segments <<a, b>>, a < b) and emits those with at least one contact     *)
(* (crossing, T-junction, overlap, shared end point) - or all of them if   *)
(* OnlyContacts = FALSE - together with the kinds of contact present       *)
(* (coverage classes for the driver).                                      *)
(*                                                                         *)
(* Model law LawIdentity (non-vacuity of ValidSplit): if every segment     *)
(* gets its own two points, returning the input unchanged is a valid split *)
(* exactly when the set has no contact at all.                             *)
(***************************************************************************)
EXTENDS SegSplit

CONSTANTS Plans
VARIABLES plan, segs
vars == <<plan, segs>>
NSeg == plan[1]
Box == plan[2]
OnlyContacts == plan[3]

Pts(box) == {<<x, y>> : x \in 0..box, y \in 0..box}
RECURSIVE LexLt(_, _)
LexLt(p, q) == IF p = <<>> THEN FALSE
               ELSE IF Head(p) # Head(q) THEN Head(p) < Head(q) ELSE LexLt(Tail(p), Tail(q))
Key(s) == s[1] \o s[2]
Segs(box) == {s \in Pts(box) \X Pts(box) : LexLt(s[1], s[2])}

Init == /\ plan \in Plans
        /\ \E s \in Segs(plan[2]) : segs = <<s>>
Next == /\ Len(segs) < NSeg
        /\ \E s \in Segs(Box) : LexLt(Key(segs[Len(segs)]), Key(s)) /\ segs' = Append(segs, s)
        /\ UNCHANGED plan
Spec == Init /\ [][Next]_vars

\* every segment with its own two points, tags = <<index>>
OwnP == [k \in 1..(2 * Len(segs)) |-> segs[(k + 1) \div 2][2 - (k % 2)]]
OwnS == [k \in 1..Len(segs) |-> [s |-> 2 * k - 1, e |-> 2 * k, tags |-> <<k>>]]

\* finer coverage classes: an "interior" contact is a T-junction if an end point of one segment lies on the other
Fine(a, b, c, d) ==
  LET t == Touch(a, b, c, d)
  IN IF t # "interior" THEN t
     ELSE IF OnSegI(c, a, b) \/ OnSegI(d, a, b) \/ OnSegI(a, c, d) \/ OnSegI(b, c, d) THEN "tjunction" ELSE "crossing"
Kinds == {Fine(segs[i][1], segs[i][2], segs[j][1], segs[j][2]) :
            <<i, j>> \in {q \in (1..Len(segs)) \X (1..Len(segs)) : q[1] < q[2]}} \ {"none"}

Done == Len(segs) = NSeg
Emit == (Done /\ (~OnlyContacts \/ Kinds # {})) => PrintT(ToJson([nseg |-> NSeg, box |-> Box, segs |-> segs, kinds |-> Kinds]))
LawIdentity == Done => ((Contacts(OwnP, OwnS) = {}) <=> ValidSplit(OwnP, OwnS, OwnP, OwnS, [k \in 1..Len(segs) |-> k]))
=============================================================================
