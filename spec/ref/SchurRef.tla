------------------------------- MODULE SchurRef -------------------------------
(***************************************************************************)
(* Reference layer of C07: the block composition of                        *)
(* assemble_schur_complement_system for a primary/secondary split.         *)
(* A split is a selection (as in AssemblyRef) of primary equations; its    *)
(* primary variables are the counterparts of the selected rows:            *)
(* VarOf[e][g] is the variable id whose dofs correspond to the rows of     *)
(* equation e on grid g (0 = none).                                        *)
(*   primary rows   = RowsInOrder(registry, split)                         *)
(*   secondary rows = excluded rows of restricted primary equations        *)
(*                    (registry order), then all rows of the secondary     *)
(*                    equations (registry order)                           *)
(*   primary / secondary columns = dofs of the primary variables / of all  *)
(*                    other variables, in global order                     *)
(* Schur reduction is exact iff the secondary block the inverter works on  *)
(* is the current one; the property demands that the expanded reduced      *)
(* solution equals the full solution for every admissible split, whatever  *)
(* splits were assembled before on the same system.                        *)
(***************************************************************************)
EXTENDS AssemblyRef

CONSTANTS VarOf

GridsOfEntry(x) == IF x[2] THEN SeqToSet(x[3]) ELSE SeqToSet(EqCat[x[1]].grids)
PrimRows(reg, split) == RowsInOrder(reg, split)
Excluded(split, e) == LET x == SelEntry(split, e) IN
                        IF x[2] THEN EqRowsRestricted(e, SeqToSet(EqCat[e].grids) \ SeqToSet(x[3])) ELSE <<>>
RECURSIVE ExclInOrder(_, _)
ExclInOrder(reg, split) ==
  IF reg = <<>> THEN <<>>
  ELSE (IF Head(reg) \in SelIds(split) THEN Excluded(split, Head(reg)) ELSE <<>>) \o ExclInOrder(Tail(reg), split)
RECURSIVE SecEqRows(_, _)
SecEqRows(reg, split) ==
  IF reg = <<>> THEN <<>>
  ELSE (IF Head(reg) \notin SelIds(split) THEN EqRows(Head(reg)) ELSE <<>>) \o SecEqRows(Tail(reg), split)
SecRows(reg, split) == ExclInOrder(reg, split) \o SecEqRows(reg, split)

PrimVids(split) == UNION {{VarOf[split[k][1]][g] : g \in GridsOfEntry(split[k])} : k \in 1..Len(split)} \ {0}
AllVids(vreg) == {vreg[k].vid : k \in 1..Len(vreg)}
PrimCols(vreg, split) == ColsOf(vreg, PrimVids(split))
SecCols(vreg, split) == ColsOf(vreg, AllVids(vreg) \ PrimVids(split))

NdofOfVids(vreg, S) == SeqSum([k \in 1..Len(vreg) |-> IF vreg[k].vid \in S THEN vreg[k].ndof ELSE 0])
Admissible(vreg, reg, split) ==
  /\ Len(PrimRows(reg, split)) > 0 /\ Len(SecRows(reg, split)) > 0
  /\ Len(PrimRows(reg, split)) = NdofOfVids(vreg, PrimVids(split))      \* square blocks
==============================================================================
