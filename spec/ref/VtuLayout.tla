------------------------------ MODULE VtuLayout ------------------------------
(***************************************************************************)
(* C38 - reference semantics of what pp.Exporter writes to one vtu file    *)
(* and of what the import has to give back (pure operators, no variables;  *)
(* used by spec/sys/ExportImport.tla and spec/trace/J_ExportImport.tla).   *)
(*                                                                         *)
(* One vtu file holds all grids ("entities": subdomains, or interfaces     *)
(* with their side grids glued together) of one dimension.  A LAYOUT is    *)
(* the sequence of entities, each entity the sequence of its cells, each   *)
(* cell represented by its TYPE KEY = number of nodes of the cell          *)
(* (1 vertex, 2 line, 3 triangle, 4 quad / tetrahedron, 5.. polygons, 6    *)
(* prism, 8 hexahedron ... ).  Cells are numbered globally 0,1,2,.. in     *)
(* entity order (the offsets of the Exporter._export_grid routines).       *)
(*                                                                         *)
(* Mechanism (Exporter._export_grid_1d/2d/3d, _write):                      *)
(*   - meshio wants one block per cell type.  Going through the entities   *)
(*     in order, the keys present in an entity are visited in ascending    *)
(*     order (np.unique) and a key not seen before opens a new block:      *)
(*     BlockKeys = first appearance over entities, ascending within one.   *)
(*   - the block of key k lists the global ids of the cells of that key,   *)
(*     entity by entity, ascending inside an entity: Ids.                  *)
(*   - _write stores values[ids] block by block: Export.                   *)
(* Import (import_state_from_vtu): concatenate the blocks, put value j of  *)
(* the concatenation back to cell ids[j], chop by entity sizes: Import.    *)
(* NaiveImport (concatenate and chop without undoing the grouping) is the  *)
(* mechanism before commit 5e4e64859; it is kept to state the law that it  *)
(* is right exactly when the concatenated ids are already sorted.          *)
(*                                                                         *)
(* Property side (C38): RoundTrip - Import(Export(vals)) = vals for every  *)
(* layout and all values; Latest - of several exported time steps the one  *)
(* with the largest index is restored; TimeInfo* - the lists of times and  *)
(* time-step sizes written by TimeManager.write_time_information are the   *)
(* lists load_time_information restores.                                   *)
(***************************************************************************)
EXTENDS Integers, Sequences, FiniteSets

RECURSIVE Concat(_)
Concat(ss) == IF ss = <<>> THEN <<>> ELSE Head(ss) \o Concat(Tail(ss))

Range(s) == {s[i] : i \in DOMAIN s}

RECURSIVE SortedSeq(_)
SortedSeq(S) == IF S = {} THEN <<>>
                ELSE LET m == CHOOSE x \in S : \A y \in S : x <= y
                     IN <<m>> \o SortedSeq(S \ {m})

IsSorted(s) == \A i \in 1..(Len(s) - 1) : s[i] <= s[i + 1]

Total(L) == Len(Concat(L))
Off(L, g) == Len(Concat(SubSeq(L, 1, g - 1)))          \* global id of cell 0 of entity g
Split(L, v) == [g \in DOMAIN L |-> SubSeq(v, Off(L, g) + 1, Off(L, g) + Len(L[g]))]

(* ----- export ------------------------------------------------------------------------------- *)
RECURSIVE BlockKeysFrom(_, _)
BlockKeysFrom(L, seen) ==
  IF L = <<>> THEN <<>>
  ELSE SortedSeq(Range(Head(L)) \ seen) \o BlockKeysFrom(Tail(L), seen \cup Range(Head(L)))
BlockKeys(L) == BlockKeysFrom(L, {})

\* entity by entity, ascending inside an entity = ascending global id
Ids(L, k) == LET F == Concat(L) IN SortedSeq({p - 1 : p \in {q \in DOMAIN F : F[q] = k}})

Blocks(L) == LET K == BlockKeys(L) IN [b \in DOMAIN K |-> [key |-> K[b], ids |-> Ids(L, K[b])]]

\* vals: per entity the sequence of cell values (any TLA+ values)
Export(L, vals) ==
  LET V == Concat(vals)
      B == Blocks(L)
  IN [b \in DOMAIN B |->
        [key |-> B[b].key, ids |-> B[b].ids, data |-> [j \in DOMAIN B[b].ids |-> V[B[b].ids[j] + 1]]]]

AllIds(blocks) == Concat([b \in DOMAIN blocks |-> blocks[b].ids])
AllData(blocks) == Concat([b \in DOMAIN blocks |-> blocks[b].data])

(* ----- import ------------------------------------------------------------------------------- *)
Import(L, blocks) ==
  LET ids == AllIds(blocks)
      flat == AllData(blocks)
  IN Split(L, [p \in 1..Len(flat) |-> flat[CHOOSE j \in DOMAIN ids : ids[j] = p - 1]])

NaiveImport(L, blocks) == Split(L, AllData(blocks))

(* ----- laws of the model (checked on every enumerated layout) -------------------------------- *)
IdsArePermutation(L) ==
  LET ids == AllIds(Blocks(L))
  IN Len(ids) = Total(L) /\ Range(ids) = 0..(Total(L) - 1)
RoundTripLaw(L, vals) == Import(L, Export(L, vals)) = vals
\* with pairwise distinct values the naive import is right iff the grouping did not move anything
NaiveLaw(L, vals) == (NaiveImport(L, Export(L, vals)) = vals) <=> IsSorted(AllIds(Blocks(L)))

(* ----- time steps ---------------------------------------------------------------------------- *)
Latest(steps) == CHOOSE s \in Range(steps) : \A t \in Range(steps) : t <= s
PosOf(steps, s) == CHOOSE k \in DOMAIN steps : steps[k] = s

\* vector data: per cell a tuple of components; the restored array is flat, cell by cell
FlatCells(cells) == Concat(cells)

(* ----- time information (TimeManager.write_time_information / load_time_information) --------- *)
\* a history is the sequence of [time, dt] pairs at the moments of the write calls; every call appends
\* the current pair and rewrites the whole file
FileAfter(hist, k) == [time |-> [i \in 1..k |-> hist[i][1]], dt |-> [i \in 1..k |-> hist[i][2]]]
Loaded(file) == [times |-> file.time, dts |-> file.dt]
\* set_time_and_dt_from_exported_steps(idx) (idx = -1: the last entry): the pair at idx becomes the current
\* one and the lists keep what lies before it
Idx(lists, idx) == IF idx < 0 THEN Len(lists.times) + idx + 1 ELSE idx + 1
SetFromExported(lists, idx) ==
  [time |-> lists.times[Idx(lists, idx)], dt |-> lists.dts[Idx(lists, idx)],
   times |-> SubSeq(lists.times, 1, Idx(lists, idx) - 1), dts |-> SubSeq(lists.dts, 1, Idx(lists, idx) - 1)]
=============================================================================
