----------------------------- MODULE OperatorKeys -----------------------------
(***************************************************************************)
(* C45  Operator hash keys identify operator trees.                        *)
(*                                                                         *)
(* Pure module: AD operator trees as records, structural identity, and the *)
(* single-site mutations TLC enumerates.  Nothing here models how porepy   *)
(* builds its key strings: the property only says WHEN two keys must be    *)
(* equal or different.                                                     *)
(*                                                                         *)
(* A tree is a record [k, name, a, b, m, n, ts, it, flag, ch]:             *)
(*   k = "scalar"   m = value                         (pp.ad.Scalar)       *)
(*       "dense"    a = entries                       (pp.ad.DenseArray)   *)
(*       "sparse"   name = format (csr|csc), m x n, a = entries row-major  *)
(*                                                    (pp.ad.SparseArray)  *)
(*       "var"      name, a = <<domain>>, ts, it      (pp.ad.Variable)     *)
(*       "mdvar"    name, a = domains, ts, it (MixedDimensionalVariable)   *)
(*       "tdarray"  name, a = domains, ts     (TimeDependentDenseArray)    *)
(*       "proj"     a = domain indices, b = range indices, m = domain      *)
(*                  size, n = range size, flag = built as Projection(..).T *)
(*       "projlong" a projection on m > 1000 indices: domain indices       *)
(*                  0..m-1, range indices 0..m-1 with the entries at       *)
(*                  positions n, n+1 exchanged (n = 0: not exchanged)      *)
(*       "op"       name = add|sub|mul|div|matmul|pow, ch = <<l, r>>       *)
(*       "fn"       name = function name, ch = arguments   (evaluate node) *)
(*       "plist"    ch = projections                  (pp.ad.ProjectionList) *)
(*   domains are indices into the harness' catalogue of grids of a real    *)
(*   md-grid (subdomains, interfaces, boundary grids): different indices   *)
(*   are different domains.  ts / it = how many time steps / iterations    *)
(*   back the leaf was shifted (0 = current).                              *)
(*                                                                         *)
(* BUILD ROUTES.  The same tree can be reached in several ways; the keys   *)
(* must not depend on the way.  t1 of a pair is always built "direct"      *)
(* (every leaf shifted with one call previous_timestep(steps = ts) /       *)
(* previous_iteration(steps = it), nothing hashed before).  t2 is built by *)
(* every route of Routes(t2):                                              *)
(*   chain   every shifted leaf by single steps, hash() of the operator    *)
(*           taken (its key cached) before every step                      *)
(*   treeT   (composite trees whose time-dependent leaves are all at least *)
(*   treeI   s steps back) the tree Unshift(t2) is built, and s times:     *)
(*           hash(tree); tree = tree.previous_timestep() / for treeI       *)
(*           .previous_iteration()                                         *)
(*                                                                         *)
(* Property clauses (J_OperatorKeys):                                      *)
(*   EqualKeys       StructEq(t1, t2)  =>  equal keys and equal hashes     *)
(*   DistinctKeys    Differ(t1, t2)    =>  different keys                  *)
(*   HashFollowsKey  equal keys        =>  equal hashes                    *)
(* StructEq = the same tree shape, operations in the same places, children *)
(* in the same order, every leaf built from the same data.  Differ = the   *)
(* shapes / operations / child order differ or some leaf has different     *)
(* data.  Two descriptions of a projection that denote the same 0/1 matrix *)
(* in different ways (P versus the transpose of its transpose-data, index  *)
(* pairs listed in another order) are neither: the property does not say   *)
(* whether their keys agree.                                               *)
(***************************************************************************)
EXTENDS Integers, Sequences, FiniteSets

LeafKinds == {"scalar", "dense", "sparse", "var", "mdvar", "tdarray", "proj", "projlong"}
Leaf(k, name, a, b, m, n, ts, it, flag) ==
  [k |-> k, name |-> name, a |-> a, b |-> b, m |-> m, n |-> n, ts |-> ts, it |-> it, flag |-> flag, ch |-> <<>>]
Node(k, name, ch) ==
  [k |-> k, name |-> name, a |-> <<>>, b |-> <<>>, m |-> 0, n |-> 0, ts |-> 0, it |-> 0, flag |-> FALSE, ch |-> ch]
IsLeaf(t) == t.k \in LeafKinds

Scalar(v) == Leaf("scalar", "", <<>>, <<>>, v, 0, 0, 0, FALSE)
Dense(a) == Leaf("dense", "", a, <<>>, 0, 0, 0, 0, FALSE)
Sparse(fmt, m, n, a) == Leaf("sparse", fmt, a, <<>>, m, n, 0, 0, FALSE)
Var(name, d, ts, it) == Leaf("var", name, <<d>>, <<>>, 0, 0, ts, it, FALSE)
MdVar(name, ds, ts, it) == Leaf("mdvar", name, ds, <<>>, 0, 0, ts, it, FALSE)
TdArray(name, ds, ts) == Leaf("tdarray", name, ds, <<>>, 0, 0, ts, 0, FALSE)
Proj(dom, rng, ds, rs, tr) == Leaf("proj", "", dom, rng, ds, rs, 0, 0, tr)
ProjLong(len, swap) == Leaf("projlong", "", <<>>, <<>>, len, swap, 0, 0, FALSE)
Op(tag, l, r) == Node("op", tag, <<l, r>>)
Fn(name, args) == Node("fn", name, args)
PList(ps) == Node("plist", "", ps)

(* --------------------------- structural identity -------------------------- *)
\* the same constructor data
SameLeaf(l1, l2) ==
  /\ l1.k = l2.k /\ l1.name = l2.name /\ l1.a = l2.a /\ l1.b = l2.b /\ l1.m = l2.m /\ l1.n = l2.n
  /\ l1.ts = l2.ts /\ l1.it = l2.it /\ l1.flag = l2.flag
\* a projection as the set of its index pairs (domain index, range index) and its sizes, transposition applied
PairSet(l) == IF l.flag THEN {<<l.b[i], l.a[i]>> : i \in 1..Len(l.a)} ELSE {<<l.a[i], l.b[i]>> : i \in 1..Len(l.a)}
DomSize(l) == IF l.flag THEN l.n ELSE l.m
RngSize(l) == IF l.flag THEN l.m ELSE l.n
LeafDiffer(l1, l2) ==
  IF l1.k # l2.k THEN TRUE
  ELSE IF l1.k = "proj" THEN PairSet(l1) # PairSet(l2) \/ DomSize(l1) # DomSize(l2) \/ RngSize(l1) # RngSize(l2)
  ELSE ~SameLeaf(l1, l2)

RECURSIVE StructEq(_, _)
StructEq(t1, t2) ==
  IF IsLeaf(t1) \/ IsLeaf(t2) THEN IsLeaf(t1) /\ IsLeaf(t2) /\ SameLeaf(t1, t2)
  ELSE /\ t1.k = t2.k /\ t1.name = t2.name /\ Len(t1.ch) = Len(t2.ch)
       /\ \A i \in 1..Len(t1.ch) : StructEq(t1.ch[i], t2.ch[i])
RECURSIVE Differ(_, _)
Differ(t1, t2) ==
  IF IsLeaf(t1) /\ IsLeaf(t2) THEN LeafDiffer(t1, t2)
  ELSE IF IsLeaf(t1) \/ IsLeaf(t2) THEN TRUE
  ELSE \/ t1.k # t2.k \/ t1.name # t2.name \/ Len(t1.ch) # Len(t2.ch)
       \/ \E i \in 1..Len(t1.ch) : Differ(t1.ch[i], t2.ch[i])

\* trees porepy refuses to build (documented: Operator.__pow__ raises for a SparseArray base with a Scalar or
\* DenseArray exponent) are outside the family
RECURSIVE Buildable(_)
Buildable(t) ==
  IF IsLeaf(t) THEN TRUE
  ELSE /\ ~(t.k = "op" /\ t.name = "pow" /\ t.ch[1].k = "sparse" /\ t.ch[2].k \in {"scalar", "dense"})
       /\ \A i \in 1..Len(t.ch) : Buildable(t.ch[i])

(* ------------------------------ build routes ------------------------------ *)
TimeKinds == {"var", "mdvar", "tdarray"}      \* leaves Operator.previous_timestep pushes back
IterKinds == {"var", "mdvar"}                 \* leaves Operator.previous_iteration pushes back
RECURSIVE LeavesOf(_)
LeavesOf(t) == IF IsLeaf(t) THEN {t} ELSE UNION {LeavesOf(t.ch[i]) : i \in 1..Len(t.ch)}
MinOf(S) == CHOOSE x \in S : \A y \in S : x <= y
\* how many steps the whole tree can have been pushed back in time / in iterations (a leaf at a previous
\* iterate cannot be pushed back in time and vice versa: porepy raises)
TimeLift(t) == LET L == {l \in LeavesOf(t) : l.k \in TimeKinds} IN
                 IF L = {} \/ \E l \in L : l.it > 0 THEN 0 ELSE MinOf({l.ts : l \in L})
IterLift(t) == LET L == {l \in LeavesOf(t) : l.k \in IterKinds} IN
                 IF L = {} \/ \E l \in L : l.ts > 0 THEN 0 ELSE MinOf({l.it : l \in L})
RECURSIVE Unshift(_, _, _)
Unshift(t, r, s) ==
  IF IsLeaf(t) THEN
    IF r = "treeT" /\ t.k \in TimeKinds THEN [t EXCEPT !.ts = @ - s]
    ELSE IF r = "treeI" /\ t.k \in IterKinds THEN [t EXCEPT !.it = @ - s]
    ELSE t
  ELSE [t EXCEPT !.ch = [i \in 1..Len(t.ch) |-> Unshift(t.ch[i], r, s)]]
Shifted(t) == \E l \in LeavesOf(t) : l.ts > 0 \/ l.it > 0
\* a route is <<name, steps, tree the route starts from>>
RouteRec(r, s, base) == [r |-> r, s |-> s, base |-> base]
Routes(t) ==
  IF ~Shifted(t) THEN {RouteRec("direct", 0, t)}
  ELSE {RouteRec("chain", 0, t)}
       \cup (IF ~IsLeaf(t) /\ TimeLift(t) > 0 THEN {RouteRec("treeT", TimeLift(t), Unshift(t, "treeT", TimeLift(t)))} ELSE {})
       \cup (IF ~IsLeaf(t) /\ IterLift(t) > 0 THEN {RouteRec("treeI", IterLift(t), Unshift(t, "treeI", IterLift(t)))} ELSE {})

(* ------------------------------- mutations -------------------------------- *)
\* NGrids = <<number of subdomains, interfaces, boundary grids>> of the catalogue (subdomains first, then interfaces,
\* then boundary grids); porepy numbers the grids of each kind from 0, so domain d and d + NGrids[1] carry the same id
SetAt(s, i, v) == [s EXCEPT ![i] = v]
Unused(s, bound) == {x \in 0..(bound - 1) : \A i \in 1..Len(s) : s[i] # x}

LeafMuts(l, NGrids) ==
  LET nsd == NGrids[1]
      nif == NGrids[2]
      nbg == NGrids[3]
      timeShifts == (IF l.it = 0 THEN {[l EXCEPT !.ts = @ + 1]} ELSE {})
      iterShifts == (IF l.ts = 0 THEN {[l EXCEPT !.it = @ + 1]} ELSE {})
      rename == {[l EXCEPT !.name = IF @ = "p" THEN "q" ELSE "p"]}
      \* the same domains in the opposite order: the values are stacked in the order of the domains, so this is another operator
      reversed == IF Len(l.a) > 1 /\ l.a # [i \in 1..Len(l.a) |-> l.a[Len(l.a) + 1 - i]]
                  THEN {[l EXCEPT !.a = [i \in 1..Len(l.a) |-> l.a[Len(l.a) + 1 - i]]]} ELSE {}
  IN
  CASE l.k = "scalar" -> {[l EXCEPT !.m = @ + 1]}
    [] l.k = "dense" -> {[l EXCEPT !.a = SetAt(@, 1, @[1] + 1)], [l EXCEPT !.a = SetAt(@, Len(@), @[Len(@)] + 1)],
                         [l EXCEPT !.a = Append(@, 7)]}
    [] l.k = "sparse" -> {[l EXCEPT !.a = SetAt(@, 1, @[1] + 1)],
                          [l EXCEPT !.a = SetAt(SetAt(@, 1, @[2]), 2, @[1])],
                          [l EXCEPT !.name = IF @ = "csr" THEN "csc" ELSE "csr"]}
                         \cup (IF l.m # l.n THEN {[l EXCEPT !.m = l.n, !.n = l.m]} ELSE {})
    [] l.k = "var" -> rename \cup timeShifts \cup iterShifts
                      \cup {[l EXCEPT !.a = <<(l.a[1] % nsd) + 1>>] : x \in IF l.a[1] <= nsd THEN {1} ELSE {}}       \* another subdomain
                      \cup {[l EXCEPT !.a = <<l.a[1] + nsd>>] : x \in IF l.a[1] <= nsd /\ l.a[1] <= nif THEN {1} ELSE {}}  \* the interface with the same id
    [] l.k = "mdvar" -> rename \cup timeShifts \cup iterShifts \cup reversed
                        \cup (IF Len(l.a) > 1 THEN {[l EXCEPT !.a = SubSeq(@, 1, Len(@) - 1)]} ELSE {})
                        \cup {[l EXCEPT !.a = [i \in 1..Len(l.a) |-> l.a[i] + nsd]] :
                                x \in IF \A i \in 1..Len(l.a) : l.a[i] <= nsd /\ l.a[i] <= nif THEN {1} ELSE {}}
    [] l.k = "tdarray" -> rename \cup {[l EXCEPT !.ts = @ + 1]} \cup reversed
                          \cup {[l EXCEPT !.a = <<(l.a[1] % nsd) + 1>>] : x \in IF Len(l.a) = 1 /\ l.a[1] <= nsd THEN {1} ELSE {}}
                          \cup {[l EXCEPT !.a = <<l.a[1] + nsd>>] : x \in IF Len(l.a) = 1 /\ l.a[1] <= nsd /\ l.a[1] <= nif THEN {1} ELSE {}}
                          \cup {[l EXCEPT !.a = <<l.a[1] + nsd + nif>>] : x \in IF Len(l.a) = 1 /\ l.a[1] <= nsd /\ l.a[1] <= nbg THEN {1} ELSE {}}
    [] l.k = "proj" -> {[l EXCEPT !.m = @ + 1], [l EXCEPT !.n = @ + 1], [l EXCEPT !.flag = ~@]}
                       \cup {[l EXCEPT !.a = SetAt(@, 1, x)] : x \in Unused(l.a, l.m)}
                       \cup {[l EXCEPT !.b = SetAt(@, Len(@), x)] : x \in Unused(l.b, l.n)}
    [] l.k = "projlong" -> {[l EXCEPT !.m = @ + 1], [l EXCEPT !.n = IF @ = 0 THEN l.m \div 2 ELSE @ + 1]}

OpTags == {"add", "sub", "mul", "div", "matmul", "pow"}
FnNames == {"exp", "log"}

RECURSIVE Muts(_, _)
Muts(t, NGrids) ==
  IF IsLeaf(t) THEN LeafMuts(t, NGrids)
  ELSE
    \* another operation / function in the same place
    (IF t.k = "op" THEN {[t EXCEPT !.name = g] : g \in OpTags \ {t.name}} ELSE {})
    \cup (IF t.k = "fn" THEN {[t EXCEPT !.name = g] : g \in FnNames \ {t.name}} ELSE {})
    \* children in the other order
    \cup (IF t.k \in {"op", "fn"} /\ Len(t.ch) = 2 THEN {[t EXCEPT !.ch = <<t.ch[2], t.ch[1]>>]} ELSE {})
    \* the same leaves grouped differently: (x o y) o z  ->  x o (y o z);  f(g(x), y) -> f(g(x, y))
    \cup (IF t.k = "op" /\ t.ch[1].k = "op" THEN {Op(t.name, t.ch[1].ch[1], Op(t.ch[1].name, t.ch[1].ch[2], t.ch[2]))} ELSE {})
    \cup (IF t.k = "fn" /\ Len(t.ch) = 2 /\ t.ch[1].k = "fn" /\ Len(t.ch[1].ch) = 1
          THEN {Fn(t.name, <<Fn(t.ch[1].name, <<t.ch[1].ch[1], t.ch[2]>>)>>)} ELSE {})
    \* one more argument
    \cup (IF t.k = "fn" /\ Len(t.ch) = 1 THEN {Fn(t.name, <<t.ch[1], t.ch[1]>>)} ELSE {})
    \* a mutation inside one child
    \cup UNION {{[t EXCEPT !.ch = SetAt(@, i, c)] : c \in Muts(t.ch[i], NGrids)} : i \in 1..Len(t.ch)}

(* ---------------- mechanism: what the key strings contain (drift only) ---------------- *)
\* Transcription of the `_key` overrides as token sequences (a string concatenation is a sequence concatenation):
\* which data each leaf prints, and the un-parenthesised prefix form " ".join([operation] + child keys) of inner
\* nodes.  Grids are printed by their id, and every kind of grid counts its ids from 0.
GridId(d, NGrids) == IF d <= NGrids[1] THEN d - 1 ELSE IF d <= NGrids[1] + NGrids[2] THEN d - 1 - NGrids[1]
                     ELSE d - 1 - NGrids[1] - NGrids[2]
Ids(a, NGrids) == [i \in 1..Len(a) |-> GridId(a[i], NGrids)]
\* numpy prints arrays of more than 1000 entries as their first and last three entries
EdgeSwap(len, swap) == IF swap = 0 THEN 0 ELSE IF swap <= 2 \/ swap >= len - 4 THEN swap ELSE 0
RECURSIVE KeyModel(_, _)
KeyModel(t, NGrids) ==
  CASE t.k = "scalar"   -> << <<"scalar", t.m>> >>
    [] t.k = "dense"    -> << <<"dense", t.a>> >>
    [] t.k = "sparse"   -> << <<"sparse", t.name, t.m, t.n, t.a>> >>
    [] t.k = "var"      -> << <<"var", t.name, Ids(t.a, NGrids), t.ts, t.it>> >>
    [] t.k = "mdvar"    -> << <<"mdvar", t.name, Ids(t.a, NGrids), t.ts, t.it>> >>
    [] t.k = "tdarray"  -> << <<"tdarray", t.name, Ids(t.a, NGrids), t.ts>> >>
    [] t.k = "proj"     -> IF t.flag THEN << <<"proj", t.b, t.a, t.n, t.m>> >> ELSE << <<"proj", t.a, t.b, t.m, t.n>> >>
    [] t.k = "projlong" -> << <<"projlong", t.m, EdgeSwap(t.m, t.n)>> >>
    [] t.k = "op"       -> << <<t.name>> >> \o KeyModel(t.ch[1], NGrids) \o KeyModel(t.ch[2], NGrids)
    [] t.k = "fn"       -> << <<"evaluate">> >> \o (IF Len(t.ch) = 1 THEN KeyModel(t.ch[1], NGrids)
                                                   ELSE KeyModel(t.ch[1], NGrids) \o KeyModel(t.ch[2], NGrids))
    \* repr of a Projection: name suffix "transpose", domain size, number of range indices, number of domain indices
    [] t.k = "plist"    -> << <<"plist", [i \in 1..Len(t.ch) |->
                                 <<t.ch[i].flag, IF t.ch[i].flag THEN t.ch[i].n ELSE t.ch[i].m, Len(t.ch[i].a)>>]>> >>

\* the tree whose contents the key of a tree built by route (r, s) shows: copies of inner nodes made by
\* Operator.previous_timestep / previous_iteration keep the cached key of the tree they were copied from
\* (TreeShiftKeepsKey), so the key of a composite tree hashed before it was pushed back is that of the unshifted tree
KeyShows(t, r, s, TreeShiftKeepsKey) ==
  IF TreeShiftKeepsKey /\ r \in {"treeT", "treeI"} THEN Unshift(t, r, s) ELSE t

(* ------------------------ packed form (JSON traffic) ----------------------- *)
RECURSIVE Pack(_)
Pack(t) == IF IsLeaf(t) THEN <<t.k, t.name, t.a, t.b, t.m, t.n, t.ts, t.it, t.flag>>
           ELSE <<t.k, t.name, [i \in 1..Len(t.ch) |-> Pack(t.ch[i])]>>
RECURSIVE Unpack(_)
Unpack(c) == IF Len(c) = 9 THEN Leaf(c[1], c[2], c[3], c[4], c[5], c[6], c[7], c[8], c[9])
             ELSE Node(c[1], c[2], [i \in 1..Len(c[3]) |-> Unpack(c[3][i])])
==============================================================================
