------------------------------- MODULE SchurEnum -------------------------------
(***************************************************************************)
(* Enumeration of C07 cases: a sequence of 1..MaxSplits admissible         *)
(* primary/secondary splits assembled one after the other on the SAME      *)
(* EquationSystem (the history matters: the default inverter keeps a       *)
(* permutation between calls).  Laws: primary and secondary rows partition *)
(* the full system's rows; likewise the columns.                           *)
(***************************************************************************)
EXTENDS SchurRef, FiniteSetsExt, SequencesExt, TLC, Json

CONSTANTS EqIds, GridChoices, MaxSplits, VReg

VARIABLES seq, done
evars == <<seq, done>>

Reg == [k \in 1..Cardinality(EqIds) |-> k]      \* equations 1..n set in this order

Perms(S) == {s \in [1..Cardinality(S) -> S] : \A i, j \in 1..Cardinality(S) : i # j => s[i] # s[j]}
Asc(T) == SetToSortSeq(T, <)
Pick(e, ch) ==
  LET gs == EqCat[e].grids IN
    CASE ch = "all"   -> gs
      [] ch = "first" -> <<gs[1]>>
      [] ch = "last"  -> <<gs[Len(gs)]>>
      [] ch = "ends"  -> IF Len(gs) > 1 THEN <<gs[Len(gs)], gs[1]>> ELSE gs
      [] ch = "none"  -> <<>>
NameSplits == {[k \in 1..Len(p) |-> <<p[k], FALSE, <<>> >>] : p \in UNION {{Asc(T), Reverse(Asc(T))} : T \in SUBSET EqIds \ {{}, EqIds}}}
RestrSplits == UNION {{[k \in 1..Len(p) |-> <<p[k], TRUE, Pick(p[k], f[p[k]])>>] : f \in [SeqToSet(p) -> GridChoices]}
                      : p \in UNION {{Asc(T)} : T \in SUBSET EqIds \ {{}}}}
Splits == {s \in NameSplits \cup RestrSplits : Admissible(VReg, Reg, s)}

Init == seq = <<>> /\ done = FALSE
Extend == /\ ~done /\ Len(seq) < MaxSplits
          /\ \E s \in Splits : seq' = Append(seq, s)
          /\ done' = FALSE
Finish == ~done /\ seq # <<>> /\ done' = TRUE /\ seq' = seq
Next == Extend \/ Finish
Spec == Init /\ [][Next]_evars

Emit == done => PrintT(ToJson([splits |-> seq]))

LawRowsPartition == (done /\ Len(seq) = 1) => \A k \in 1..Len(seq) :
  LET p == PrimRows(Reg, seq[k])  s == SecRows(Reg, seq[k])  full == RowsInOrder(Reg, FullSel(Reg)) IN
    /\ SeqToSet(p) \cap SeqToSet(s) = {} /\ SeqToSet(p) \cup SeqToSet(s) = SeqToSet(full)
    /\ Len(p) + Len(s) = Len(full)
LawColsPartition == (done /\ Len(seq) = 1) => \A k \in 1..Len(seq) :
  LET p == PrimCols(VReg, seq[k])  s == SecCols(VReg, seq[k]) IN
    /\ SeqToSet(p) \cap SeqToSet(s) = {} /\ Len(p) + Len(s) = RefTotal(VReg)
LawSquare == (done /\ Len(seq) = 1) => \A k \in 1..Len(seq) : Len(SecRows(Reg, seq[k])) = Len(SecCols(VReg, seq[k]))
==============================================================================
