---------------------------- MODULE SparseOpsEnum ----------------------------
(***************************************************************************)
(* Bounded input lattice for C35 and the model laws of SparseOps.          *)
(*                                                                         *)
(* A behaviour is  Init (pick a utility `op` and a small `seed`: format,   *)
(* number of lines, cross dimension / a size parameter)  ->  Pick (choose   *)
(* one complete input `inp` of that utility: PickInput(op, seed)).          *)
(* TLC enumerates every input of the lattice exactly once; the invariant    *)
(* `Emit` prints it as JSON for the harness, which calls the real porepy    *)
(* function on it.  The verdict on what the code returned is taken by TLC   *)
(* in J_SparseOps.                                                          *)
(*                                                                         *)
(* Matrices of the lattice: every storage STRUCTURE with L lines, cross     *)
(* dimension X and at most K stored entries (each line = an injective       *)
(* sequence of cross indices, so unsorted lines, empty lines and empty      *)
(* columns all occur); the data are position coded (entry k holds base + k, *)
(* so any misplaced entry changes the dense matrix) and, with ZV, every     *)
(* variant with one explicitly stored zero.  The utilities never look at    *)
(* the values, hence coded values discriminate at least as well as all      *)
(* assignments from {0,1,2}.                                                *)
(*                                                                         *)
(* Model laws (invariants Law*, must hold: a failure is a design error):    *)
(* slicing all lines is the identity, replacing lines by themselves is the  *)
(* identity, zeroing = merging a zero block, slice(stack(A,B)) gives back   *)
(* A and B, rldecode(rlencode(A)) = A, kron with 1 is the identity, the     *)
(* csr and csc readings of one structure are transposes, expand pointers    *)
(* has the length of the positive ranges, block_diag_index agrees with the  *)
(* block diagonal pattern.                                                  *)
(***************************************************************************)
EXTENDS SparseOps, TLC, Json

CONSTANTS Ops,     \* utilities to enumerate
          ML, MX,  \* max number of lines, max cross dimension of enumerated matrices
          MX2,     \* max cross dimension for the utilities with two matrix arguments
          K1,      \* max stored entries (utilities with one matrix argument)
          K2,      \* max stored entries of the first matrix (utilities with two matrix arguments)
          KB,      \* max stored entries of the second matrix
          ZV,      \* BOOLEAN: also the variants with one stored zero
          IL,      \* max length of index arrays (repetitions allowed)
          NB,      \* max number of blocks (block constructors)
          RL,      \* <<max rows, max cols, max value>> for rlencode with one row and
          RL2,     \*   ... with two or more rows
          EP,      \* <<max length, max value>> for expand_index_pointers
          EK       \* max length of index vectors of the other helpers

VARIABLES op, seed, inp, done
vars == <<op, seed, inp, done>>

(* ------------------------------ the lattice ---------------------------- *)
LineSeqs(X, K) == UNION {{s \in [1..k -> 0..(X - 1)] : IsInjective(s)} : k \in 0..SMin(X, K)}
Lens(f) == [l \in 1..Len(f) |-> Len(f[l])]
Structs(L, X, K) == {f \in [1..L -> LineSeqs(X, K)] : SumSeq(Lens(f)) <= K}

DataChoices(nnz, base, zv) ==
  {[k \in 1..nnz |-> base + k]} \cup
  (IF zv THEN {[k \in 1..nnz |-> IF k = z THEN 0 ELSE base + k] : z \in 1..nnz} ELSE {})

MkCS(fmt, L, X, f, d) ==
  [fmt |-> fmt, shape |-> IF fmt = "csr" THEN <<L, X>> ELSE <<X, L>>,
   indptr |-> Cum(Lens(f)), indices |-> Flatten(f), data |-> d]

CodedMats(fmt, L, X, K, base, zv) ==
  UNION {{MkCS(fmt, L, X, f, d) : d \in DataChoices(SumSeq(Lens(f)), base, zv)} : f \in Structs(L, X, K)}

\* the same entries in coordinate format, in storage order
LineOfPos(M, k) == CHOOSE l \in 1..NLines(M) : M.indptr[l] < k /\ k <= M.indptr[l + 1]
ToCoo(M) ==
  LET n == Len(M.data)
      ln == [k \in 1..n |-> LineOfPos(M, k) - 1]
      cx == SubSeq(M.indices, 1, n)
  IN [fmt |-> "coo", shape |-> M.shape, row |-> IF M.fmt = "csr" THEN ln ELSE cx,
      col |-> IF M.fmt = "csr" THEN cx ELSE ln, data |-> M.data]

IdxArrays(L, maxlen) == UNION {[1..k -> 0..(L - 1)] : k \in 0..maxlen}
InjIdx(L) == UNION {{s \in [1..k -> 0..(L - 1)] : IsInjective(s)} : k \in 1..L}
IndexSets(L, maxlen, np) ==
  {[kind |-> "array", v |-> s] : s \in IdxArrays(L, maxlen)} \cup
  {[kind |-> "mask", v |-> b] : b \in [1..L -> {0, 1}]} \cup
  {[kind |-> "int", v |-> <<i>>] : i \in 0..(L - 1)} \cup
  (IF np THEN {[kind |-> "npint", v |-> <<i>>] : i \in 0..(L - 1)} ELSE {})

CSFmts == {"csr", "csc"}
MatSeeds(fs) == {<<f, l, x>> : f \in fs, l \in 1..ML, x \in 1..MX}

\* pool of small blocks for the constructors from sparse blocks: formats csr, csc, coo
BlockPool(base, maxcells, k) ==
  UNION {UNION {(LET S == CodedMats(f, lx[1], lx[2], k, base, FALSE)
                 IN IF f = "csr" THEN S \cup {ToCoo(M) : M \in S} ELSE S) : f \in CSFmts}
         : lx \in {p \in (1..2) \X (1..2) : p[1] * p[2] <= maxcells}}
CooOf(S) == {ToCoo(M) : M \in S}

Seeds(o) ==
  CASE o = "zero_rows" -> MatSeeds({"csr"})
    [] o = "zero_columns" -> MatSeeds({"csc"})
    [] o \in {"slice_sparse_matrix", "slice_indices", "kron", "optimized_storage", "copy", "row_col_data"} ->
         MatSeeds(CSFmts)
    [] o \in {"merge_matrices", "stack_mat", "stack_diag"} -> {s \in MatSeeds(CSFmts) : s[3] <= MX2}
    [] o = "from_sparse_blocks" -> {<<f, nb, 0>> : f \in CSFmts, nb \in 1..NB}
    [] o = "from_dense_blocks" -> {<<f, bs, nb>> : f \in CSFmts, bs \in 1..3, nb \in 1..NB}
    [] o = "dia_from_blocks" -> {<<"-", nb, 0>> : nb \in 1..NB}
    [] o = "block_diag_matrix" -> {<<"-", nb, 0>> : nb \in 1..NB}
    [] o \in {"rlencode", "rl_roundtrip"} ->
         {<<"-", 1, c>> : c \in 1..RL[2]} \cup {<<"-", r, c>> : r \in 2..RL2[1], c \in 1..RL2[2]}
    [] o = "rldecode" -> {<<"-", k, 0>> : k \in 0..(EK + 1)}
    [] o = "expand_index_pointers" -> {<<"-", k, mode>> : k \in 1..EP[1], mode \in 0..2} \ {<<"-", 1, 1>>, <<"-", 1, 2>>}
    [] o = "expand_indices_nd" -> {<<ord, nd, 0>> : ord \in {"F", "C"}, nd \in 1..3}
    [] o = "expand_indices_add_increment" -> {<<"-", n, inc>> : n \in 1..3, inc \in {-1, 0, 1, 5}}
    [] o = "block_diag_index" -> {<<"-", k, hasn>> : k \in 1..NB, hasn \in 0..1}

\* Pick: one disjunct per family of utilities; the nested \E let TLC enumerate the product of the
\* argument sets without building it.
PickInput(o, s) ==
  LET f == s[1]
      l == s[2]
      x == s[3]
  IN \/ /\ o \in {"zero_rows", "zero_columns"}
        /\ \E a \in CodedMats(f, l, x, K1, 0, ZV), r \in IdxArrays(l, IL) : inp' = [A |-> a, lines |-> r]
     \/ /\ o = "slice_sparse_matrix"
        /\ \E a \in CodedMats(f, l, x, K1, 0, ZV), i \in IndexSets(l, IL, FALSE) : inp' = [A |-> a, ix |-> i]
     \/ /\ o = "slice_indices"
        /\ \E a \in CodedMats(f, l, x, K1, 0, ZV), i \in IndexSets(l, IL, TRUE), b \in BOOLEAN :
              inp' = [A |-> a, ix |-> i, rai |-> b]
     \/ /\ o = "merge_matrices"
        /\ \E a \in CodedMats(f, l, x, K2, 0, FALSE), ln \in InjIdx(l) :
              \E b \in CodedMats(f, Len(ln), x, KB, 20, FALSE) : inp' = [A |-> a, B |-> b, lines |-> ln]
     \/ /\ o = "stack_mat"
        /\ \E a \in CodedMats(f, l, x, K2, 0, FALSE), lb \in 1..ML :
              \E b \in CodedMats(f, lb, x, KB, 20, FALSE) : inp' = [A |-> a, B |-> b]
     \/ /\ o = "stack_diag"
        /\ \E a \in CodedMats(f, l, x, K2, 0, FALSE), lx \in (1..2) \X (1..2) :
              \E b \in CodedMats(f, lx[1], lx[2], KB, 20, FALSE) : inp' = [A |-> a, B |-> b]
     \/ /\ o = "kron"
        /\ LET S == CodedMats(f, l, x, K2, 0, ZV)
           IN \E a \in S \cup (IF f = "csr" THEN CooOf(S) ELSE {}), nd \in 1..3 : inp' = [A |-> a, nd |-> nd]
     \/ /\ o \in {"optimized_storage", "copy"}
        /\ LET S == CodedMats(f, l, x, K1, 0, ZV)
           IN \E a \in S \cup (IF f = "csr" THEN CooOf(S) ELSE {}) : inp' = [A |-> a]
     \/ /\ o = "row_col_data"
        /\ LET S == CodedMats(f, l, x, K1, 0, TRUE)
           IN \E a \in S \cup (IF f = "csr" THEN CooOf(S) ELSE {}), b \in BOOLEAN :
                 inp' = [A |-> a, remove_nz |-> b]
     \/ /\ o = "from_sparse_blocks"          \* l = number of blocks; longer block lists use smaller blocks
        /\ LET P(k) == BlockPool(10 * k, IF l = 1 THEN 4 ELSE 2, IF l = 1 THEN 2 ELSE 1)
           IN \/ l = 1 /\ \E a \in P(1) : inp' = [fmt |-> f, blocks |-> <<a>>]
              \/ l = 2 /\ \E a \in P(1), b \in P(2) : inp' = [fmt |-> f, blocks |-> <<a, b>>]
              \/ l = 3 /\ \E a \in P(1), b \in P(2), c \in P(3) : inp' = [fmt |-> f, blocks |-> <<a, b, c>>]
     \/ /\ o = "from_dense_blocks"
        /\ \E d \in DataChoices(l * l * x, 0, ZV) : inp' = [fmt |-> f, data |-> d, bs |-> l, nb |-> x]
     \/ /\ o = "dia_from_blocks"
        /\ \E sz \in [1..l -> 1..3] : \E d \in DataChoices(SumSeq(sz), 0, ZV) :
              inp' = [blocks |-> [k \in 1..l |-> SubSeq(d, Cum(sz)[k] + 1, Cum(sz)[k + 1])]]
     \/ /\ o = "block_diag_matrix"
        /\ \E sz \in [1..l -> 1..3] : \E d \in DataChoices(SumSeq([k \in 1..l |-> sz[k] * sz[k]]), 0, ZV) :
              inp' = [vals |-> d, sz |-> sz]
     \/ /\ o \in {"rlencode", "rl_roundtrip"}
        /\ \E a \in [1..l -> [1..x -> 0..(IF l = 1 THEN RL[3] ELSE RL2[3])]] : inp' = [A |-> a]
     \/ /\ o = "rldecode"
        /\ \E n \in [1..l -> 0..2] : inp' = [A |-> [k \in 1..l |-> 10 + k], n |-> n]
     \/ /\ o = "expand_index_pointers"       \* x = 1: lo is broadcast, x = 2: hi is broadcast
        /\ \E lo \in [1..(IF x = 1 THEN 1 ELSE l) -> 0..EP[2]], hi \in [1..(IF x = 2 THEN 1 ELSE l) -> 0..EP[2]] :
              inp' = [lo |-> lo, hi |-> hi]
     \/ /\ o = "expand_indices_nd"
        /\ \E k \in 0..EK : \E i \in [1..k -> 0..3] : inp' = [ind |-> i, nd |-> l, order |-> f]
     \/ /\ o = "expand_indices_add_increment"
        /\ \E k \in 0..EK : \E v \in [1..k -> 0..2] : inp' = [x |-> v, n |-> l, inc |-> x]
     \/ /\ o = "block_diag_index"
        /\ \/ x = 0 /\ \E m \in [1..l -> 1..3] : inp' = [m |-> m, hasn |-> FALSE, n |-> m]
           \/ x = 1 /\ \E m \in [1..l -> 1..3], n \in [1..l -> 1..3] : inp' = [m |-> m, hasn |-> TRUE, n |-> n]

(* ------------------------------ behaviours ----------------------------- *)
Init == /\ op \in Ops
        /\ seed \in Seeds(op)
        /\ inp = <<>>
        /\ done = FALSE
Pick == /\ ~done
        /\ PickInput(op, seed)
        /\ done' = TRUE
        /\ UNCHANGED <<op, seed>>
Next == Pick
Spec == Init /\ [][Next]_vars

Emit == done => PrintT(ToJson([op |-> op, in |-> inp]))

(* ------------------------------ model laws ----------------------------- *)
AllLines(A) == Iota(0, NLines(A) - 1)
AsFmt(A, fmt) == [A EXCEPT !.fmt = fmt, !.shape = <<A.shape[2], A.shape[1]>>]

LawSliceAll ==
  (done /\ op = "slice_sparse_matrix") =>
     /\ SliceRef(inp.A, AllLines(inp.A)) = DenseOf(inp.A)
     /\ DenseOf(AsFmt(inp.A, IF inp.A.fmt = "csr" THEN "csc" ELSE "csr")) = Transpose(DenseOf(inp.A))
LawMergeSelf ==
  (done /\ op = "merge_matrices") =>
     LET D == DenseOf(inp.A)
         own == SliceRef(inp.A, inp.lines)
     IN /\ (IF inp.A.fmt = "csr" THEN ReplaceRowsD(D, own, inp.lines) ELSE ReplaceColsD(D, own, inp.lines)) = D
        /\ LET R == MergeRef(inp.A, inp.B, inp.lines)
           IN (IF inp.A.fmt = "csr" THEN TakeRows(R, inp.lines) ELSE TakeCols(R, inp.lines)) = DenseOf(inp.B)
LawZeroIsMerge ==
  (done /\ op \in {"zero_rows", "zero_columns"} /\ IsInjective(inp.lines) /\ Len(inp.lines) > 0) =>
     LET D == DenseOf(inp.A)
         k == Len(inp.lines)
     IN ZeroLinesRef(inp.A, inp.lines) =
          (IF inp.A.fmt = "csr" THEN ReplaceRowsD(D, ZeroMat(k, NC(D)), inp.lines)
           ELSE ReplaceColsD(D, ZeroMat(NR(D), k), inp.lines))
LawStackSlice ==
  (done /\ op = "stack_mat") =>
     LET S == StackMatRef(inp.A, inp.B)
         la == NLines(inp.A)
         lb == NLines(inp.B)
         Take(D, ix) == IF inp.A.fmt = "csr" THEN TakeRows(D, ix) ELSE TakeCols(D, ix)
     IN /\ Take(S, Iota(0, la - 1)) = DenseOf(inp.A)
        /\ Take(S, Iota(la, la + lb - 1)) = DenseOf(inp.B)
LawStackDiag ==
  (done /\ op = "stack_diag") =>
     LET S == StackDiagRef(inp.A, inp.B)
         A == DenseOf(inp.A)
         B == DenseOf(inp.B)
     IN /\ TakeCols(TakeRows(S, Iota(0, NR(A) - 1)), Iota(0, NC(A) - 1)) = A
        /\ TakeCols(TakeRows(S, Iota(NR(A), NR(A) + NR(B) - 1)), Iota(NC(A), NC(A) + NC(B) - 1)) = B
        /\ TakeCols(TakeRows(S, Iota(0, NR(A) - 1)), Iota(NC(A), NC(A) + NC(B) - 1)) = ZeroMat(NR(A), NC(B))
        /\ S = FromSparseBlocksRef(<<inp.A, inp.B>>)
LawRunLength ==
  (done /\ op \in {"rlencode", "rl_roundtrip"}) =>
     LET e == RlEncodeRef(inp.A)
     IN /\ \A r \in 1..Len(inp.A) : RlDecodeRef(e.comp[r], e.num) = inp.A[r]
        /\ \A k \in 1..Len(e.num) : e.num[k] >= 1
        /\ \A k \in 1..(Len(e.num) - 1) : ColOf(e.comp, k) # ColOf(e.comp, k + 1)
LawDecodeLength ==
  (done /\ op = "rldecode") => Len(RlDecodeRef(inp.A, inp.n)) = SumSeq(inp.n)
LawKronOne ==
  (done /\ op = "kron") =>
     /\ KronRef(inp.A, 1) = DenseOf(inp.A)
     /\ LET Kd == KronRef(inp.A, inp.nd)
        IN TakeCols(TakeRows(Kd, [i \in 1..inp.A.shape[1] |-> (i - 1) * inp.nd]),
                    [j \in 1..inp.A.shape[2] |-> (j - 1) * inp.nd]) = DenseOf(inp.A)
LawCoo ==
  (done /\ op \in {"optimized_storage", "copy"} /\ inp.A.fmt # "coo") =>
     /\ DenseOf(ToCoo(inp.A)) = DenseOf(inp.A)
     /\ Triples(ToCoo(inp.A)) = Triples(inp.A)
LawExpandLength ==
  (done /\ op = "expand_index_pointers") =>
     LET k == SMax(Len(inp.lo), Len(inp.hi))
         L(i) == IF Len(inp.lo) = 1 THEN inp.lo[1] ELSE inp.lo[i]
         H(i) == IF Len(inp.hi) = 1 THEN inp.hi[1] ELSE inp.hi[i]
     IN Len(ExpandPointersRef(inp.lo, inp.hi)) = SumSeq([i \in 1..k |-> SMax(0, H(i) - L(i))])
LawExpandNd ==
  (done /\ op = "expand_indices_nd") =>
     /\ IsPermOf(ExpandNdRef(inp.ind, inp.nd, "F"), ExpandNdRef(inp.ind, inp.nd, "C"))
     /\ ExpandNdRef(inp.ind, inp.nd, "F") = ExpandIncrRef([k \in 1..Len(inp.ind) |-> inp.nd * inp.ind[k]], inp.nd, 1)
LawBlockIndex ==
  (done /\ op = "block_diag_index") =>
     LET r == BlockDiagIndexRef(inp.m, inp.n)
         pattern == BlockDiagSeq([b \in 1..Len(inp.m) |-> MkDense(inp.m[b], inp.n[b], [i \in 1..inp.m[b] |-> Rep(1, inp.n[b])])])
         coo == [fmt |-> "coo", shape |-> pattern.shape, row |-> r.i, col |-> r.j, data |-> Rep(1, Len(r.i))]
     IN /\ DenseOf(coo) = pattern
        /\ ~inp.hasn => LET sq == BlockDiagIndexSqRef(inp.m)
                            n == SumSeq(inp.m)
                            csr == [fmt |-> "csr", shape |-> <<n, n>>,
                                    indptr |-> Cum(RlDecodeRef(inp.m, inp.m)), indices |-> sq,
                                    data |-> Rep(1, Len(sq))]
                        IN WF(csr) /\ DenseOf(csr) = pattern
LawDenseBlocks ==
  (done /\ op = "from_dense_blocks") =>
     FromDenseBlocksRef("csc", inp.data, inp.bs, inp.nb) = Transpose(FromDenseBlocksRef("csr", inp.data, inp.bs, inp.nb))
Laws == /\ LawSliceAll /\ LawMergeSelf /\ LawZeroIsMerge /\ LawStackSlice /\ LawStackDiag /\ LawRunLength
        /\ LawDecodeLength /\ LawKronOne /\ LawCoo /\ LawExpandLength /\ LawExpandNd /\ LawBlockIndex
        /\ LawDenseBlocks
=============================================================================
