------------------------------ MODULE MechOracle ------------------------------
(***************************************************************************)
(* Exact oracle for the finite-volume MECHANICS kernels (MPSA, the Biot    *)
(* coupling terms, TPSA) on grids with INTEGER node coordinates - built on *)
(* the exact geometry of GridGeom (E == Exact(Gr): face normals fn, face   *)
(* centres fc, cell volumes vol as rationals).                             *)
(*                                                                         *)
(* What is modelled.  A linear displacement field u(x) = u0 + G x with an  *)
(* integer displacement gradient G (3 x 3; for 2D grids only the upper     *)
(* left 2 x 2 block is non-zero), constant integer Lame parameters mu,     *)
(* lambda, a constant pressure p and a coupling tensor A (alpha I for a    *)
(* scalar Biot coefficient).  The oracle fixes what ANY consistent         *)
(* discretisation has to return for such data - the local-system mechanism *)
(* of the schemes is not modelled (it is a black box):                     *)
(*   ExactTraction(f)  = (2 mu sym(G) + lambda tr(G) I) n_f                *)
(*                       n_f = area-weighted normal of face f              *)
(*   ExactDivU(c)      = (A : G) |c|        (= alpha tr(G) |c|)            *)
(*   ExactGradP(f)     = - p (A n_f)        (= - alpha p n_f)              *)
(*   ExactBoundDisplacement(f) = u(x_f)                                    *)
(* Sign / ordering conventions of the code (pinned down by reading         *)
(* mpsa.py, biot.py and their tests): vectors on faces / cells are stored  *)
(* interleaved (all components of face 0, then face 1, ...); the traction  *)
(* of a face refers to the stored face normal (cell_faces sign +1 side);   *)
(* a Neumann value is the traction w.r.t. the OUTWARD normal;              *)
(* scalar_gradient * p is the force -p A n_f on the face (it is ADDED to   *)
(* the mechanical traction); displacement_divergence includes the factor A.*)
(*                                                                         *)
(* Admissibility for C13 (copied from the property text): all-Dirichlet    *)
(* always; 2D: any Dirichlet / Neumann mix; 3D: no two Neumann boundary    *)
(* faces share an edge (computed on the incidence fn: a face is a node     *)
(* LOOP of any length, so grids whose faces have different node counts -   *)
(* triangular prisms: triangles and quadrilaterals - are covered; the      *)
(* exact normals / centres of GridGeom are those of planar polygons).      *)
(*                                                                         *)
(* Model laws (checked by TLC in MechOracleEnum on reference grids and in  *)
(* J_MechOracle on every judged grid): the signed exact tractions of a     *)
(* cell sum to zero (equilibrium of a constant stress); translations and   *)
(* rigid rotations (skew G) give zero traction; sum of ExactGradP over a   *)
(* cell vanishes.                                                          *)
(*                                                                         *)
(* Number classification (DESIGN section 8).  The harness encodes a double *)
(* x twice: q = <<n, d>>, the rational with d <= 10^4 within 1e-9 of x      *)
(* (d = 0 if there is none) and m = round(x * 10^6).  Against the exact    *)
(* reference r:  Pass  iff  q = r;  Far (a violation) iff x differs from   *)
(* r by more than 1e-6 max(1, |r|) (decided on m, with 2 units of slack);  *)
(* anything else is inconclusive and never alarms.                         *)
(***************************************************************************)
EXTENDS GridGeom

\* ---- small linear algebra: integer 3 x 3 matrices, rational 3-vectors ----------------------------------
Zero3 == << <<0, 0, 0>>, <<0, 0, 0>>, <<0, 0, 0>> >>
Tr(M) == M[1][1] + M[2][2] + M[3][3]
IsTranslation(G) == G = Zero3
IsSkew(G) == \A i, j \in 1..3 : G[i][j] = -G[j][i]
\* double-dot product A : G
DDot(A, G) == ISum([k \in 1..9 |-> A[((k - 1) \div 3) + 1][((k - 1) % 3) + 1] * G[((k - 1) \div 3) + 1][((k - 1) % 3) + 1]])
\* a rational vector over a common denominator: [num |-> integer vector, den |-> positive integer]
Lcm(a, b) == (a * b) \div GCD(a, b)
Over(v) == LET D == Lcm(Lcm(v[1][2], v[2][2]), v[3][2])
           IN [num |-> <<v[1][1] * (D \div v[1][2]), v[2][1] * (D \div v[2][2]), v[3][1] * (D \div v[3][2])>>, den |-> D]
\* integer matrix times integer vector; integer matrix times rational vector (one normalisation per component)
MatIVec(M, w) == [i \in 1..3 |-> M[i][1] * w[1] + M[i][2] * w[2] + M[i][3] * w[3]]
MatRVec(M, v) == LET w == Over(v)  y == MatIVec(M, w.num) IN [i \in 1..3 |-> RNorm(y[i], w.den)]
ScalarTensor(a) == << <<a, 0, 0>>, <<0, a, 0>>, <<0, 0, a>> >>
\* the part of a tensor acting in the plane of a 2D grid (plane problem: third row and column dropped)
InPlane(A, nd) == IF nd = 3 THEN A ELSE [i \in 1..3 |-> [j \in 1..3 |-> IF i = 3 \/ j = 3 THEN 0 ELSE A[i][j]]]

\* Hooke's law for a constant displacement gradient: sigma = mu (G + G^T) + lambda tr(G) I   (integer matrix)
Sigma(mu, lam, G) == [i \in 1..3 |-> [j \in 1..3 |-> mu * (G[i][j] + G[j][i]) + (IF i = j THEN lam * Tr(G) ELSE 0)]]

\* ---- the oracle ----------------------------------------------------------------------------------------
ExactTraction(E, mu, lam, G, f) == MatRVec(Sigma(mu, lam, G), E.fn[f])
ExactDisp(G, u0, x) == LET w == Over(x)  y == MatIVec(G, w.num) IN [i \in 1..3 |-> RNorm(u0[i] * w.den + y[i], w.den)]
ExactBoundDisplacement(E, G, u0, f) == ExactDisp(G, u0, E.fc[f])
ExactDivU(E, A, G, c) == RMul(R(DDot(A, G)), E.vol[c])
ExactGradP(E, A, p, f) == RVNeg(RVScale(R(p), MatRVec(A, E.fn[f])))

\* ---- the oracle as tables over all faces / cells (what the judge evaluates: one pass, integers over a common
\*      denominator per face, one normalisation per entry).  W = [i |-> Over(x_i)] for the vectors x_i concerned.
OverAll(xs) == [i \in 1..Len(xs) |-> Over(xs[i])]
\* [i |-> M x_i + b]  for an integer matrix M and an integer vector b
AffineTable(W, M, b) == [i \in 1..Len(W) |->
                          LET y == MatIVec(M, W[i].num) IN [k \in 1..3 |-> RNorm(b[k] * W[i].den + y[k], W[i].den)]]
\* Wn = OverAll(E.fn):  ExactTraction of every face;  Wx = OverAll(E.fc) or OverAll(E.cc):  u at face / cell centres
TractionTable(Wn, mu, lam, G) == AffineTable(Wn, Sigma(mu, lam, G), <<0, 0, 0>>)
DispTable(Wx, G, u0) == AffineTable(Wx, G, u0)
GradPTable(Wn, A, p) == AffineTable(Wn, [i \in 1..3 |-> [j \in 1..3 |-> -p * A[i][j]]], <<0, 0, 0>>)
DivUTable(E, A, G) == LET a == R(DDot(A, G)) IN [c \in 1..Len(E.vol) |-> RMul(a, E.vol[c])]
\* signed sum over the faces of every cell of a face table vanishes
CellSumsZero(Gr, tab) == \A c \in 1..NCells(Gr) :
   RVSum([i \in 1..Len(Gr.cf[c]) |-> RVSgn(Gr.cf[c][i][2], tab[Gr.cf[c][i][1]])]) = RVZero

\* ---- boundary faces, admissible boundary-type assignments ------------------------------------------------
BoundaryFaces(Gr, E) == {f \in 1..NFaces(Gr) : Cardinality(E.f2c[f]) = 1}
\* the edges of face f: consecutive nodes of its loop (3D; any number of nodes per face, mixed within one grid)
EdgesOf(Gr, f) == LET k == Len(Gr.fn[f]) IN {{Gr.fn[f][i], Gr.fn[f][(i % k) + 1]} : i \in 1..k}
ShareEdge(Gr, a, b) == EdgesOf(Gr, a) \cap EdgesOf(Gr, b) # {}
\* neu: the set of Neumann faces; every other boundary face is Dirichlet
NoSharedEdge(Gr, neu) == Gr.dim = 3 => \A a, b \in neu : a # b => ~ShareEdge(Gr, a, b)
Admissible(Gr, E, neu) == neu \subseteq BoundaryFaces(Gr, E) /\ NoSharedEdge(Gr, neu)
\* component-wise boundary types ("rolling" conditions).  The dominant component of a face = the coordinate direction
\* in which its normal is largest (lowest index on ties); for axis-aligned faces it is the normal direction.
\* "rollN": the dominant (normal) component is Dirichlet, the others Neumann - the body may roll along the wall;
\* "rollT": the dominant component is Neumann, the others Dirichlet.
FaceNormalI(Gr, f) == IF Gr.dim = 3 THEN FaceN2(Gr, f)
                      ELSE LET d == VSub(P(Gr, Gr.fn[f][2]), P(Gr, Gr.fn[f][1])) IN <<d[2], -d[1], 0>>
DominantComp(Gr, f) == LET n == FaceNormalI(Gr, f)
                       IN CHOOSE k \in 1..Gr.dim : \A j \in 1..Gr.dim : Abs(n[k]) > Abs(n[j]) \/ (Abs(n[k]) = Abs(n[j]) /\ k <= j)
RollComps(Gr, f, mode) == IF mode = "rollN" THEN (1..Gr.dim) \ {DominantComp(Gr, f)} ELSE {DominantComp(Gr, f)}
\* neu: fully Neumann faces, nc: further Neumann components <<f, k>>.  Consistent with a boundary-value problem
\* that fixes the translation: everything on the boundary, and at least one face Dirichlet in every component
CompAdmissible(Gr, bf, neu, nc) ==
  /\ neu \subseteq bf
  /\ \A fk \in nc : fk[1] \in bf /\ fk[2] \in 1..Gr.dim
  /\ \E f \in bf : f \notin neu /\ \A k \in 1..Gr.dim : <<f, k>> \notin nc
\* the displacement gradient of a 2D grid acts in the plane only
FieldFits(Gr, G) == Gr.dim = 2 => \A k \in 1..3 : G[3][k] = 0 /\ G[k][3] = 0

\* ---- model laws ------------------------------------------------------------------------------------------
Equilibrium(Gr, E, mu, lam, G, c) ==
  LET T(f, i) == ExactTraction(E, mu, lam, G, f) IN SignedSum(Gr, c, T) = RVZero
GradPClosed(Gr, E, A, p, c) ==
  LET T(f, i) == ExactGradP(E, A, p, f) IN SignedSum(Gr, c, T) = RVZero
RigidGivesZero(Gr, E, mu, lam, G) ==
  IsSkew(G) => \A f \in 1..NFaces(Gr) : ExactTraction(E, mu, lam, G, f) = RVZero
OracleLaws(Gr, E, mu, lam, G) ==
  /\ \A c \in 1..NCells(Gr) : Equilibrium(Gr, E, mu, lam, G, c)
  /\ RigidGivesZero(Gr, E, mu, lam, G)
  /\ \A c \in 1..NCells(Gr) : GradPClosed(Gr, E, ScalarTensor(mu), lam + 1, c)

\* ---- classification of a recorded double against an exact rational ------------------------------------------
\* floor(r * 10^6) for a rational r = <<n, d>>, d < 2 * 10^6, |r| < 2000, without leaving 32 bits
MicroFloor(r) ==
  LET i == r[1] \div r[2]
      r0 == r[1] % r[2]
      a == (r0 * 1000) \div r[2]
      r1 == (r0 * 1000) % r[2]
      b == (r1 * 1000) \div r[2]
  IN i * 1000000 + a * 1000 + b
\* q = <<n, d>> (d = 0: no rational within 1e-9), m = round(x * 10^6), r = the exact value
Pass(q, r) == q[2] > 0 /\ q[1] = r[1] /\ q[2] = r[2]
Far(m, r) == LET i == Abs(r[1] \div r[2]) + 1 IN Abs(m - MicroFloor(r)) > Max2(1, i) + 2
\* tables: got (recorded rationals, 3-vectors per index) agrees with tab on the index set keep (structural equality
\* of normalised rationals);  some recorded value (micro-units gm, nd components per index) is far from tab
MaskEq(tab, got, keep) == Len(got) = Len(tab) /\ [i \in 1..Len(tab) |-> IF i \in keep THEN tab[i] ELSE got[i]] = got
AnyFar(tab, gm, keep, nd) == \E i \in keep, k \in 1..nd : Far(gm[i][k], tab[i][k])
==============================================================================
