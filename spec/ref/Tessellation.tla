---------------------------- MODULE Tessellation ----------------------------
(***************************************************************************)
(* C33  Tessellation overlaps partition cell measures.                     *)
(*                                                                         *)
(* 1D (pp.intersections.line_tessellation, pp.match_grids.match_1d):       *)
(* two partitions of the lattice segment [0, N], given by strictly         *)
(* increasing integer breakpoint sequences X, Y (X[1] = Y[1] = 0, last =   *)
(* N).  Cell i of X is [X[i], X[i+1]].  The segment is embedded in space   *)
(* as origin + t * dir with an integer vector dir of INTEGER length len,   *)
(* so every measure is an integer multiple of len.  Reference function     *)
(*     LineOverlapRef(c, d) = length of the intersection of the intervals  *)
(* in parameter units; model laws LawRows / LawCols / LawAveraged: the     *)
(* reference overlaps of a cell sum to its length and the reference        *)
(* averaged / integrated matrices have unit row / column sums.             *)
(*                                                                         *)
(* 2D (pp.intersections.triangulations, match_2d): two triangulations of   *)
(* the same lattice rectangle, given as sequences of triangles <<p,q,r>>   *)
(* of integer points.  Only the laws are stated (exact areas as Area2 / 2): *)
(* no reference clipping algorithm.  TriFamily(a, b) is a catalogue of     *)
(* triangulations of [0,a] x [0,b] that TLC enumerates: unit squares cut   *)
(* by either diagonal (all 2^(ab) choices), the rectangle cut by one       *)
(* diagonal, fans from an interior lattice point to all boundary lattice   *)
(* points (general slopes).  LawTri: every member has positive cell areas   *)
(* summing to the area of the rectangle.                                   *)
(*                                                                         *)
(* Operators used by the judge (J_Tessellation): exact sums of rationals    *)
(* over a common denominator (SumEq), interval / triangle measures.        *)
(***************************************************************************)
EXTENDS Integers, Sequences, FiniteSets, Rat

(* ----- 1D --------------------------------------------------------------------------------------- *)
NCells(X) == Len(X) - 1
Cell(X, i) == <<X[i], X[i + 1]>>
Lo(c) == Min2(c[1], c[2])
Hi(c) == Max2(c[1], c[2])
CellLen(c) == Hi(c) - Lo(c)
\* cells may be given with either orientation
LineOverlapRef(c, d) == Max2(0, Min2(Hi(c), Hi(d)) - Max2(Lo(c), Lo(d)))
IsBreaks(X, N) == /\ Len(X) >= 2 /\ X[1] = 0 /\ X[Len(X)] = N
                  /\ \A i \in 1..(Len(X) - 1) : X[i] < X[i + 1]

RECURSIVE ISum(_)
ISum(s) == IF s = <<>> THEN 0 ELSE Head(s) + ISum(Tail(s))

LawRows(X, Y) == \A i \in 1..NCells(X) :
                   ISum([j \in 1..NCells(Y) |-> LineOverlapRef(Cell(X, i), Cell(Y, j))]) = CellLen(Cell(X, i))
LawCols(X, Y) == \A j \in 1..NCells(Y) :
                   ISum([i \in 1..NCells(X) |-> LineOverlapRef(Cell(X, i), Cell(Y, j))]) = CellLen(Cell(Y, j))
LawAveraged(X, Y) ==
  /\ \A i \in 1..NCells(X) :
       REq(RSum([j \in 1..NCells(Y) |-> RNorm(LineOverlapRef(Cell(X, i), Cell(Y, j)), CellLen(Cell(X, i)))]), ROne)
  /\ \A j \in 1..NCells(Y) :
       REq(RSum([i \in 1..NCells(X) |-> RNorm(LineOverlapRef(Cell(X, i), Cell(Y, j)), CellLen(Cell(Y, j)))]), ROne)

(* ----- exact sums of rationals <<n, d>> over a common denominator ------------------------------- *)
\* bounded lcm: stops growing beyond the 32-bit-safe range (the judge then reports the case as unfit)
RECURSIVE LcmB(_, _)
LcmB(s, acc) == IF s = <<>> \/ acc > 2000000 THEN acc
                ELSE LET q == Head(s)[2] \div GCD(Head(s)[2], acc)
                     IN IF q > 2000000 \div acc THEN 2000001 ELSE LcmB(Tail(s), q * acc)
SumFits(s) == LcmB(s, 1) <= 2000000
\* sum of the rationals in s equals the rational t   (needs SumFits(s); values are O(10))
SumEq(s, t) == LET l == LcmB(s, 1)
               IN ISum([k \in 1..Len(s) |-> s[k][1] * (l \div s[k][2])]) * t[2] = t[1] * l
\* the same, vacuously true for a sum that does not fit (one lcm computation)
SumIs(s, t) == LET l == LcmB(s, 1)
               IN l <= 2000000 => ISum([k \in 1..Len(s) |-> s[k][1] * (l \div s[k][2])]) * t[2] = t[1] * l

(* ----- 2D ----------------------------------------------------------------------------------------- *)
Area2(t) == LET u == <<t[2][1] - t[1][1], t[2][2] - t[1][2]>>
                v == <<t[3][1] - t[1][1], t[3][2] - t[1][2]>>
            IN Abs(u[1] * v[2] - u[2] * v[1])
TotalArea2(T) == ISum([k \in 1..Len(T) |-> Area2(T[k])])

\* unit square (i, j) cut by diagonal d: two triangles
SquareTris(i, j, d) ==
  IF d = 0 THEN << << <<i, j>>, <<i + 1, j>>, <<i + 1, j + 1>> >>, << <<i, j>>, <<i + 1, j + 1>>, <<i, j + 1>> >> >>
           ELSE << << <<i, j>>, <<i + 1, j>>, <<i, j + 1>> >>, << <<i + 1, j>>, <<i + 1, j + 1>>, <<i, j + 1>> >> >>
\* D: sequence of a*b diagonal choices, cell k = (i, j) with i = (k-1) % a, j = (k-1) \div a
DiagTris(a, b, D) == [m \in 1..(2 * a * b) |->
                        LET k == (m + 1) \div 2 IN SquareTris((k - 1) % a, (k - 1) \div a, D[k])[2 - (m % 2)]]
CoarseTris(a, b, d) ==
  IF d = 0 THEN << << <<0, 0>>, <<a, 0>>, <<a, b>> >>, << <<0, 0>>, <<a, b>>, <<0, b>> >> >>
           ELSE << << <<0, 0>>, <<a, 0>>, <<0, b>> >>, << <<a, 0>>, <<a, b>>, <<0, b>> >> >>
\* boundary lattice points of the rectangle, counter-clockwise from the origin
Perim(a, b) == [k \in 1..(2 * (a + b)) |->
                  IF k <= a THEN <<k - 1, 0>>
                  ELSE IF k <= a + b THEN <<a, k - 1 - a>>
                  ELSE IF k <= 2 * a + b THEN <<a - (k - 1 - a - b), b>>
                  ELSE <<0, b - (k - 1 - 2 * a - b)>>]
FanTris(a, b, c) == LET P == Perim(a, b)  n == Len(P)
                    IN [k \in 1..n |-> <<c, P[k], P[(k % n) + 1]>>]

\* catalogue members are tuples <<family, parameters>>
Bits(n) == [1..n -> {0, 1}]
TriFamily(a, b) == {<<"diag", D>> : D \in Bits(a * b)} \cup {<<"coarse", <<d>>>> : d \in {0, 1}}
                   \cup {<<"fan", <<x, y>>>> : x \in 1..(a - 1), y \in 1..(b - 1)}
TrisOf(a, b, m) == CASE m[1] = "diag"   -> DiagTris(a, b, m[2])
                     [] m[1] = "coarse" -> CoarseTris(a, b, m[2][1])
                     [] m[1] = "fan"    -> FanTris(a, b, m[2])
LawTriOf(a, b, T) == (\A k \in 1..Len(T) : Area2(T[k]) > 0) /\ TotalArea2(T) = 2 * a * b
=============================================================================
