---------------------------- MODULE SetMemberEnum ----------------------------
(***************************************************************************)
(* Enumerator for the membership / intersection helpers (C34): all pairs   *)
(* (a, b) of column sequences of length <= MaxA / MaxB over the column set *)
(* Cols (repetitions included, so b has duplicate columns).  Every pair is  *)
(* emitted; the harness runs ismember_columns (sorted / unsorted / 1-d) and *)
(* intersect_sets (exact / tolerance) on it.  Model laws: a column of a is  *)
(* a member iff it has a witness; membership is symmetric in the sense      *)
(* that ia of (a,b) and ib of (b,a) coincide.                               *)
(***************************************************************************)
EXTENDS SetMember, TLC, Json

CONSTANTS Cols, MaxA, MaxB, TolN, TolD
VARIABLES a, b
vars == <<a, b>>
Init == a = <<>> /\ b = <<>>
Next == \/ b = <<>> /\ Len(a) < MaxA /\ \E c \in Cols : a' = Append(a, c) /\ b' = b
        \/ Len(b) < MaxB /\ \E c \in Cols : b' = Append(b, c) /\ a' = a
Spec == Init /\ [][Next]_vars

Laws ==
  /\ \A s \in BOOLEAN : \A i \in 1..Len(a) : IsMemRef(a, b, s)[i] <=> \E j \in 1..Len(b) : WitnessOK(<<a[i]>>, b, s, <<j>>)
  /\ IaRef(a, b, TolN, TolD) = IbRef(b, a, TolN, TolD)
  /\ BandFree(a, b, TolN, TolD)
Emit == PrintT(ToJson([a |-> a, b |-> b]))
=============================================================================
