---------------------------- MODULE MechOracleEnum ----------------------------
(***************************************************************************)
(* Enumeration for C13 / C15 / C16 (spec -> code direction) and the model  *)
(* laws of the oracle MechOracle.  Two small state machines (run together  *)
(* as Spec, or separately):                                                *)
(*                                                                         *)
(* SpecCfg: the configuration family.  A configuration is                  *)
(*   [kind, n, variant, mu, lam, bc, coef]: kind "cart" | "simplex" |      *)
(*   "prism", n = cells per direction (an element of Sizes; kind "prism":  *)
(*   an element of PrismSizes, <<nx, ny, layers>> = the structured         *)
(*   triangle grid nx x ny extruded over `layers` layers - 2 nx ny layers  *)
(*   triangular prisms, i.e. cells whose faces have DIFFERENT node counts: *)
(*   triangles at bottom / top, quadrilaterals on the sides), variant      *)
(*   "plain" | "perturbed"                                                 *)
(*   (lattice perturbation / integer shear keeping faces planar; prisms:   *)
(*   lattice-perturbed base and non-uniform layer heights - made by        *)
(*   the harness), integer Lame parameters, boundary mode "dir" (all       *)
(*   Dirichlet) | "mix" (Dirichlet / Neumann mix, see SpecBc).  TLC emits  *)
(*   every configuration; the harness builds the porepy grid and           *)
(*   discretises.  At the stage where (mu, lam) are fixed the model laws   *)
(*   are checked on four reference grids (quad + triangle, two tetrahedra  *)
(*   sharing a face, a box, two triangular prisms sharing a quadrilateral  *)
(*   face) for every displacement field of the family:                     *)
(*   equilibrium of the exact tractions per cell, zero traction for        *)
(*   translations and rigid rotations, closedness of the pressure force.   *)
(*                                                                         *)
(* SpecBc: the admissible boundary-type assignments of REAL grids.  The    *)
(*   harness passes the exported grids (GridGeom records) as Grids; TLC    *)
(*   emits, per grid, every set of Neumann boundary faces with at most     *)
(*   MaxNeu elements (2D also: all boundary faces but at most one) that    *)
(*   satisfies MechOracle!Admissible - in 3D no two Neumann faces share an *)
(*   edge; and, for every mode in RollModes, the component-wise (rolling)  *)
(*   assignment on each such set (MechOracle!RollComps; the rest of the    *)
(*   boundary fully Dirichlet).  The harness samples from the emitted      *)
(*   assignments.  Grids must be a                                         *)
(*   genuine constant (written into the MC module, not read with IOEnv):   *)
(*   TLC then evaluates the tables GridBF / AdmSets once.                  *)
(***************************************************************************)
EXTENDS MechOracle, SequencesExt, Json, IOUtils

CONSTANTS Kinds,      \* subset of {"cart", "simplex", "prism"}
          Sizes,      \* set of tuples: cells per direction, <<nx, ny>> or <<nx, ny, nz>> (kinds "cart", "simplex")
          PrismSizes, \* set of tuples <<nx, ny, layers>> (kind "prism"; {} if the kind is not enumerated)
          Variants,   \* subset of {"plain", "perturbed"}
          Mus, Lams,  \* sets of integers
          BcModes,    \* subset of {"dir", "mix"}
          Coefs,      \* set of records [alpha, p]: further coefficients of a configuration (C15: alpha = index into
                      \* AlphaCat, p = pressure; C16: p = index of the translation vector; C13: {[alpha |-> 0, p |-> 0]})
          AlphaCat,   \* sequence of coupling tensors (integer 3 x 3 matrices; <<>> if unused)
          Fields,     \* sequence of displacement gradients (integer 3 x 3 matrices)
          Grids,      \* SpecBc: sequence of grid records
          MaxNeu,     \* SpecBc: largest enumerated Neumann set
          RollModes   \* SpecBc: subset of {"rollN", "rollT"}: component-wise (rolling) assignments on the enumerated sets

VARIABLES stage, cs
evars == <<stage, cs>>

\* ---- reference grids for the model laws -----------------------------------------------------------------
RefQuadTri == [dim |-> 2,
               nodes |-> << <<0, 0, 0>>, <<3, 0, 0>>, <<4, 2, 0>>, <<1, 3, 0>>, <<6, 1, 0>> >>,
               fn |-> << <<1, 2>>, <<2, 3>>, <<3, 4>>, <<4, 1>>, <<2, 5>>, <<5, 3>> >>,
               cf |-> << << <<1, 1>>, <<2, 1>>, <<3, 1>>, <<4, 1>> >>, << <<5, 1>>, <<6, 1>>, <<2, -1>> >> >>]
RefTets == [dim |-> 3,
            nodes |-> << <<0, 0, 0>>, <<2, 0, 0>>, <<0, 3, 0>>, <<1, 1, 2>>, <<3, 3, 2>> >>,
            fn |-> << <<1, 3, 2>>, <<1, 2, 4>>, <<1, 4, 3>>, <<2, 3, 4>>, <<2, 3, 5>>, <<2, 5, 4>>, <<3, 4, 5>> >>,
            cf |-> << << <<1, 1>>, <<2, 1>>, <<3, 1>>, <<4, 1>> >>, << <<4, -1>>, <<5, 1>>, <<6, 1>>, <<7, 1>> >> >>]
RefBox == [dim |-> 3,
           nodes |-> << <<0, 0, 0>>, <<2, 0, 0>>, <<0, 1, 0>>, <<2, 1, 0>>, <<0, 0, 3>>, <<2, 0, 3>>, <<0, 1, 3>>, <<2, 1, 3>> >>,
           fn |-> << <<1, 5, 7, 3>>, <<2, 4, 8, 6>>, <<1, 2, 6, 5>>, <<3, 7, 8, 4>>, <<1, 3, 4, 2>>, <<5, 6, 8, 7>> >>,
           cf |-> << << <<1, 1>>, <<2, 1>>, <<3, 1>>, <<4, 1>>, <<5, 1>>, <<6, 1>> >> >>]
\* two triangular prisms (base triangles (0,0) (3,0) (1,2) and (3,0) (4,3) (1,2), z = 0..2) sharing the quadrilateral
\* face 4: triangular and quadrilateral faces in one grid
RefPrisms == [dim |-> 3,
              nodes |-> << <<0, 0, 0>>, <<3, 0, 0>>, <<1, 2, 0>>, <<4, 3, 0>>, <<0, 0, 2>>, <<3, 0, 2>>, <<1, 2, 2>>, <<4, 3, 2>> >>,
              fn |-> << <<3, 2, 1>>, <<5, 6, 7>>, <<1, 2, 6, 5>>, <<2, 3, 7, 6>>, <<3, 1, 5, 7>>,
                        <<3, 4, 2>>, <<6, 8, 7>>, <<2, 4, 8, 6>>, <<4, 3, 7, 8>> >>,
              cf |-> << << <<1, 1>>, <<2, 1>>, <<3, 1>>, <<4, 1>>, <<5, 1>> >>,
                        << <<6, 1>>, <<7, 1>>, <<8, 1>>, <<9, 1>>, <<4, -1>> >> >>]
RefGrids == <<RefQuadTri, RefTets, RefBox, RefPrisms>>

\* ---- SpecCfg ---------------------------------------------------------------------------------------------
InitCfg == stage = "lame" /\ cs = [mu |-> 0, lam |-> 0]
PickLame == /\ stage = "lame" /\ stage' = "grid"
            /\ \E m \in Mus, l \in Lams : cs' = [mu |-> m, lam |-> l]
SizesOf(k) == IF k = "prism" THEN PrismSizes ELSE Sizes
PickGrid == /\ stage = "grid" /\ stage' = "done"
            /\ \E k \in Kinds : \E n \in SizesOf(k), v \in Variants, b \in BcModes, co \in Coefs :
                 cs' = [kind |-> k, n |-> n, variant |-> v, mu |-> cs.mu, lam |-> cs.lam, bc |-> b, coef |-> co]
NextCfg == PickLame \/ PickGrid
SpecCfg == InitCfg /\ [][NextCfg]_evars
EmitCfg == stage = "done" => PrintT(ToJson(cs))

\* model laws of the oracle, for the Lame parameters of the state and every field of the family
LawsCfg == stage = "grid" =>
  \A i \in 1..Len(RefGrids) :
    LET Gr == RefGrids[i]
        E == Exact(Gr)
        Wn == OverAll(E.fn)
    IN /\ ValidE(Gr, E)
       /\ \A k \in 1..Len(Fields) : FieldFits(Gr, Fields[k]) =>
            /\ OracleLaws(Gr, E, cs.mu, cs.lam, Fields[k])
            \* the table form used by the judge is the pointwise oracle
            /\ TractionTable(Wn, cs.mu, cs.lam, Fields[k]) = [f \in 1..NFaces(Gr) |-> ExactTraction(E, cs.mu, cs.lam, Fields[k], f)]
            /\ DispTable(OverAll(E.fc), Fields[k], <<1, -2, 3>>)
                 = [f \in 1..NFaces(Gr) |-> ExactBoundDisplacement(E, Fields[k], <<1, -2, 3>>, f)]
            /\ \A a \in 1..Len(AlphaCat) :
                 DivUTable(E, AlphaCat[a], Fields[k]) = [c \in 1..NCells(Gr) |-> ExactDivU(E, AlphaCat[a], Fields[k], c)]
       /\ \A f \in 1..NFaces(Gr) : ExactTraction(E, cs.mu, cs.lam, Zero3, f) = RVZero
       \* the pressure force of a constant pressure on a closed cell surface vanishes, for every coupling tensor
       /\ \A a \in 1..Len(AlphaCat) :
            /\ \A c \in 1..NCells(Gr) : GradPClosed(Gr, E, AlphaCat[a], 3, c)
            /\ GradPTable(Wn, AlphaCat[a], 3) = [f \in 1..NFaces(Gr) |-> ExactGradP(E, AlphaCat[a], 3, f)]
\* the family contains translations, rotations and strains; the prism reference grid really has faces with different
\* node counts, both kinds on the boundary
LawFamily == stage = "grid" =>
  /\ {Len(RefPrisms.fn[f]) : f \in BoundaryFaces(RefPrisms, [f2c |-> FaceCells(RefPrisms)])} = {3, 4}
  /\ \E k \in 1..Len(Fields) : IsTranslation(Fields[k])
  /\ \E k \in 1..Len(Fields) : IsSkew(Fields[k]) /\ ~IsTranslation(Fields[k])
  /\ \E k \in 1..Len(Fields) : Tr(Fields[k]) # 0

\* ---- SpecBc ----------------------------------------------------------------------------------------------
\* subsets of S with at most k elements (k <= 3)
UpTo(S, k) == {{}} \cup (IF k >= 1 THEN {{a} : a \in S} ELSE {})
                   \cup (IF k >= 2 THEN {{a, b} : a \in S, b \in S} ELSE {})
                   \cup (IF k >= 3 THEN {{a, b, c} : a \in S, b \in S, c \in S} ELSE {})
\* constant-level tables (evaluated once by TLC): boundary faces and admissible Neumann sets per grid
GridBF == [i \in 1..Len(Grids) |-> BoundaryFaces(Grids[i], [f2c |-> FaceCells(Grids[i])])]
AdmSets == [i \in 1..Len(Grids) |->
             LET Gr == Grids[i]
                 bf == GridBF[i]
                 few == UpTo(bf, MaxNeu)
                 cand == IF Gr.dim = 2 THEN few \cup {bf \ t : t \in UpTo(bf, 1)} ELSE few
             IN {t \in cand : NoSharedEdge(Gr, t)}]
\* component-wise assignments: the faces of an enumerated set (not the whole boundary) get the rolling condition
\* `mode`, every other boundary face is Dirichlet in all components.  nc = the Neumann components <<f, k>>.
\* (3D: single faces only - the number of pairs is large and adds nothing for a per-face condition)
RollSets == [i \in 1..Len(Grids) |-> {t \in AdmSets[i] : t # {} /\ t # GridBF[i] /\ (Grids[i].dim = 3 => Cardinality(t) = 1)}]
PairLess(a, b) == a[1] < b[1] \/ (a[1] = b[1] /\ a[2] < b[2])
RollPairs(Gr, N, mode) == UNION {{<<f, k>> : k \in RollComps(Gr, f, mode)} : f \in N}
InitBc == stage = "pick" /\ cs \in {[g |-> i, neu |-> <<>>] : i \in 1..Len(Grids)}
PickBc == /\ stage = "pick" /\ stage' = "done"
          /\ \/ \E N \in AdmSets[cs.g] : cs' = [g |-> cs.g, neu |-> SetToSortSeq(N, <), nc |-> <<>>, mode |-> "face"]
             \/ \E N \in RollSets[cs.g], m \in RollModes :
                  LET pairs == RollPairs(Grids[cs.g], N, m) IN
                  /\ Assert(CompAdmissible(Grids[cs.g], GridBF[cs.g], {}, pairs), "enumerated assignment not admissible")
                  /\ cs' = [g |-> cs.g, neu |-> <<>>, nc |-> SetToSortSeq(pairs, PairLess), mode |-> m]
NextBc == PickBc
SpecBc == InitBc /\ [][NextBc]_evars
EmitBc == stage = "done" => PrintT(ToJson(cs))

\* both enumerations in one run (the two machines do not share states: different stages)
Spec == (InitCfg \/ InitBc) /\ [][NextCfg \/ NextBc]_evars
Emit == stage = "done" => PrintT(ToJson(cs))
==============================================================================
