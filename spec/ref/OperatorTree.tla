----------------------------- MODULE OperatorTree -----------------------------
(***************************************************************************)
(* C02  Operator-tree evaluation matches direct forward-mode evaluation.   *)
(*                                                                         *)
(* A typed expression language over porepy AD operands and its semantics   *)
(* in four layers (pure operators, no variables):                          *)
(*                                                                         *)
(*  (i)   PyDispatch(lc, op, rc)  Python's binary operator protocol for    *)
(*        "left op right" on the CLASSES of the operands: left.__op__      *)
(*        first; NotImplemented (or no such slot) -> right.__rop__;        *)
(*        numpy's ufunc capture when the left operand is an ndarray /      *)
(*        numpy scalar and the right operand does not set                  *)
(*        __array_ufunc__ = None; scipy.sparse on the left.                *)
(*  (ii)  Build(e)   the operator tree the real overloads produce          *)
(*        (operators.py: Operator.__add__ .. __rmatmul__, _parse_other,    *)
(*        AbstractFunction.__call__, _get_previous_time_or_iterate):       *)
(*        operation tag, ORDERED children, wrapper classes of raw values.  *)
(*  (iii) Parse(b, mode)  transcription of AdParser._evaluate_single as a  *)
(*        case analysis on operation x value kinds, for                    *)
(*        mode \in {"deriv", "value"}; result = [k |-> kind, t |-> term]    *)
(*        where the term records which method of which value class does    *)
(*        the work (AdArray.__rsub__, ArraySlicer.__matmul__, numpy, ...). *)
(*  (iv)  Direct(e, dt, di, mode)  the reference semantics: the same       *)
(*        expression on forward-mode arrays (current variables are         *)
(*        AdArrays, previous time step / iterate leaves are plain arrays   *)
(*        with no derivative); DirectProg(e) is the program the harness    *)
(*        executes on AdArrays from initAdArrays([state]) (the property's  *)
(*        own oracle), without Operator / AdParser.                        *)
(*                                                                         *)
(* Expressions (tuples):                                                   *)
(*   <<"leaf", name, tsi, iti>>   a leaf of the table Leaves taken at the  *)
(*                    private time-step index tsi / iterate index iti      *)
(*                    (-1 = current; k >= 0 = k+1 steps back, stored at    *)
(*                    index k)                                             *)
(*   <<"bin", op, l, r>>          l op r,  op \in Ops                      *)
(*   <<"fn", f, <<args>>>>        pp.ad.Function(f)(args)                  *)
(*   <<"shift", mode, e>>         e.previous_timestep(steps = k)  for mode *)
(*                                "time" (k = 1), "time2" (k = 2), or      *)
(*                                e.previous_iteration(steps = k)  for     *)
(*                                "iter" (k = 1), "iter2" (k = 2)          *)
(* Value kinds <<tag, p, q>>:  F float | V n  1-d ndarray | A n  AdArray | *)
(*   M m n sparse matrix | S r d ArraySlicer (d -> r) | L r d list of      *)
(*   slicers | O erratic numpy object array | E error.                     *)
(*                                                                         *)
(* Property clauses (judged in J_OperatorTree on recorded executions):     *)
(*   Evaluates, ValueAgrees, JacobianAgrees, ValueOnlyAgrees,              *)
(*   PrevTimeNoDerivative; TreeConforms is conformance (mechanism).        *)
(* Design-level invariants (checked in OperatorTreeEnum on the whole       *)
(*   enumerated space): ParseAgreesDirect, ValueModeConsistent,            *)
(*   PrevNoDerivative, NoNumpyCapture, BuildDefined (LawsOf = all of them).*)
(* With ReflectedStyle = "rtag" or UfuncOptOut = FALSE (the code before    *)
(* 1a3b69b2e) TLC refutes ParseAgreesDirect at  2.0 / v  and BuildDefined   *)
(* at  ndarray / v.                                                        *)
(***************************************************************************)
EXTENDS Integers, Sequences, FiniteSets, TLC

CONSTANTS Leaves,          \* sequence of [name, cls, n, m, states, cstates]; states = sequence of <<tsi, iti>>
          LeafTab,         \* the same table as a record  name |-> leaf record  (fast lookup)
          ReflectedStyle,  \* "swap": reverse overloads swap the children and use the forward tag (HEAD, 1a3b69b2e)
                           \* "rtag": they keep [self, other] and tag rmul / rdiv / rpow / rmatmul (before)
          UfuncOptOut,     \* TRUE: Operator.__array_ufunc__ = None
          MaxIndex         \* largest stored time-step / iterate index

Ops == {"+", "-", "*", "/", "**", "@"}
UnaryFns == {"exp", "abs", "l2"}
BinaryFns == {"max"}

OperatorClasses == {"Variable", "MixedDimensionalVariable", "Scalar", "DenseArray", "SparseArray", "Projection",
                    "ProjectionList", "TimeDependentDenseArray", "Operator"}
ScalarRaw == {"float", "int", "npfloat"}
SparseRaw == {"spmatrix", "sparray"}
RawClasses == ScalarRaw \cup {"ndarray"} \cup SparseRaw
VarClasses == {"Variable", "MixedDimensionalVariable"}
TimeDep(c) == c \in VarClasses \cup {"TimeDependentDenseArray"}      \* isinstance(op, TimeDependentOperator)
Iterative(c) == c \in VarClasses                                       \* isinstance(op, IterativeOperator)

\* TLC re-evaluates the definition substituted for a CONSTANT at every reference; these two zero-arity
\* definitions are evaluated once
LV == Leaves
LT == LeafTab
LeafNames == {LV[i].name : i \in 1..Len(LV)}
LeafTabOK == DOMAIN LT = LeafNames /\ \A i \in 1..Len(LV) : LT[LV[i].name] = LV[i]

\* ---------------------------------------------------------------- kinds
KF == <<"F", 0, 0>>
KV(n) == <<"V", n, 0>>
KA(n) == <<"A", n, 0>>
KM(m, n) == <<"M", m, n>>
KS(r, d) == <<"S", r, d>>
KL(r, d) == <<"L", r, d>>
KE == <<"E", 0, 0>>
KO == <<"O", 0, 0>>
Vecish(k) == k[1] \in {"F", "V", "A"}
ValKind(k) == IF k[1] = "A" THEN KV(k[2]) ELSE k          \* kind of the value part

\* Kind of the value of a leaf of class c (Operator classes: what op.parse / ad_base[dofs] returns)
LeafKind(c, n, m, tsi, iti, mode) ==
  CASE c \in VarClasses -> IF tsi >= 0 \/ iti >= 0 THEN KV(n) ELSE IF mode = "deriv" THEN KA(n) ELSE KV(n)
    [] c = "Scalar" -> KF
    [] c \in {"DenseArray", "TimeDependentDenseArray"} -> KV(n)
    [] c = "SparseArray" -> KM(n, m)
    [] c = "Projection" -> KS(n, m)
    [] c = "ProjectionList" -> KL(n, m)
    [] c \in ScalarRaw -> KF
    [] c = "ndarray" -> KV(n)
    [] c \in SparseRaw -> KM(n, m)
    [] OTHER -> KE

\* ---------------------------------------------------------------- typing rules of the reference semantics
\* Elementwise arithmetic of floats, 1-d arrays and AdArrays (forward_mode.AdArray docstring: scalars and
\* equally sized 1-d arrays / AdArrays combine with every operation except @).
ElemK(k0, k1) ==
  IF ~(Vecish(k0) /\ Vecish(k1)) THEN KE
  ELSE IF k0[1] = "F" THEN k1
  ELSE IF k1[1] = "F" THEN k0
  ELSE IF k0[2] # k1[2] THEN KE
  ELSE IF k0[1] = "A" \/ k1[1] = "A" THEN KA(k0[2]) ELSE KV(k0[2])

MatmulK(k0, k1) ==
  CASE k0[1] = "M" /\ k1[1] \in {"V", "A"} /\ k0[3] = k1[2] -> <<k1[1], k0[2], 0>>
    [] k0[1] = "M" /\ k1[1] = "M" /\ k0[3] = k1[2] -> KM(k0[2], k1[3])
    [] k0[1] \in {"S", "L"} /\ k1[1] \in {"V", "A"} /\ k0[3] = k1[2] -> <<k1[1], k0[2], 0>>
    [] k0[1] \in {"S", "L"} /\ k1[1] = "F" -> KV(k0[2])                      \* ArraySlicer broadcasts a scalar
    [] k0[1] \in {"S", "L"} /\ k1[1] = "M" /\ k0[3] = k1[2] -> KM(k0[2], k1[3])
    [] k0[1] = "S" /\ k1[1] = "S" /\ k0[3] = k1[2] -> KS(k0[2], k1[3])      \* product of two projections
    [] OTHER -> KE

DirectK(op, k0, k1) ==
  CASE op \in {"+", "-"} -> IF k0[1] = "M" /\ k1 = k0 THEN k0 ELSE ElemK(k0, k1)
    [] op = "*" -> IF k0[1] = "M" /\ k1[1] = "F" THEN k0 ELSE IF k0[1] = "F" /\ k1[1] = "M" THEN k1 ELSE ElemK(k0, k1)
    [] op = "/" -> IF k0[1] = "M" /\ k1[1] = "F" THEN k0 ELSE ElemK(k0, k1)
    [] op = "**" -> ElemK(k0, k1)
    [] op = "@" -> MatmulK(k0, k1)
    [] OTHER -> KE

FnK(f, ks) ==
  CASE f \in {"exp", "abs"} /\ Len(ks) = 1 -> IF Vecish(ks[1]) THEN ks[1] ELSE KE
    [] f = "l2" /\ Len(ks) = 1 -> IF ks[1][1] \in {"V", "A"} /\ ks[1][2] % 2 = 0 THEN <<ks[1][1], ks[1][2] \div 2, 0>> ELSE KE
    [] f = "max" /\ Len(ks) = 2 -> ElemK(ks[1], ks[2])
    [] OTHER -> KE

\* ---------------------------------------------------------------- expressions
Leaf(nm, tsi, iti) == <<"leaf", nm, tsi, iti>>
Bin(op, l, r) == <<"bin", op, l, r>>
Fn(f, args) == <<"fn", f, args>>
Shift(mode, e) == <<"shift", mode, e>>
ShiftModes == {"time", "time2", "iter", "iter2"}
DT(mode) == CASE mode = "time" -> 1 [] mode = "time2" -> 2 [] OTHER -> 0      \* steps back in time
DI(mode) == CASE mode = "iter" -> 1 [] mode = "iter2" -> 2 [] OTHER -> 0      \* steps back in the iteration

RECURSIVE Depth(_)
Depth(e) == CASE e[1] = "leaf" -> 0
              [] e[1] = "bin" -> 1 + (IF Depth(e[3]) >= Depth(e[4]) THEN Depth(e[3]) ELSE Depth(e[4]))
              [] e[1] = "fn" -> 1 + (IF Len(e[3]) = 1 \/ Depth(e[3][1]) >= Depth(e[3][2]) THEN Depth(e[3][1]) ELSE Depth(e[3][2]))
              [] OTHER -> 1 + Depth(e[3])

RECURSIVE PyClass(_)
PyClass(e) == CASE e[1] = "leaf" -> LT[e[2]].cls
                [] e[1] = "shift" -> PyClass(e[3])        \* copy.copy keeps the class
                [] OTHER -> "Operator"
IsRaw(e) == PyClass(e) \in RawClasses

\* time state of a leaf under dt time shifts and di iterate shifts (TimeDependentOperator.previous_timestep,
\* IterativeOperator.previous_iteration, _get_previous_time_or_iterate): <<ok, tsi, iti>>
LeafState(c, tsi, iti, dt, di) ==
  LET t == IF TimeDep(c) THEN tsi + dt ELSE tsi
      i == IF Iterative(c) THEN iti + di ELSE iti
  IN <<~(t >= 0 /\ i >= 0) /\ t <= MaxIndex /\ i <= MaxIndex, t, i>>

\* ---------------------------------------------------------------- (iv) reference semantics
\* Direct(e, dt, di, mode) = [k |-> kind, t |-> math term]; terms: <<"leaf", name, tsi, iti>>,
\* <<"op", sym, t0, t1>>, <<"call", f, <<ts>>>>
RECURSIVE Direct(_, _, _, _)
Direct(e, dt, di, mode) ==
  CASE e[1] = "leaf" ->
         LET L == LT[e[2]]
             s == LeafState(L.cls, e[3], e[4], dt, di)
         IN IF s[1] THEN [k |-> LeafKind(L.cls, L.n, L.m, s[2], s[3], mode), t |-> <<"leaf", e[2], s[2], s[3]>>]
            ELSE [k |-> KE, t |-> <<"leaf", e[2], s[2], s[3]>>]
    [] e[1] = "bin" ->
         LET a == Direct(e[3], dt, di, mode)
             b == Direct(e[4], dt, di, mode)
         IN [k |-> IF a.k = KE \/ b.k = KE \/ (IsRaw(e[3]) /\ IsRaw(e[4])) THEN KE ELSE DirectK(e[2], a.k, b.k),
             t |-> <<"op", e[2], a.t, b.t>>]
    [] e[1] = "fn" ->
         LET as == [j \in 1..Len(e[3]) |-> Direct(e[3][j], dt, di, mode)]
         IN [k |-> IF \E j \in 1..Len(e[3]) : as[j].k = KE \/ IsRaw(e[3][j]) THEN KE
                   ELSE FnK(e[2], [j \in 1..Len(e[3]) |-> as[j].k]),
             t |-> <<"call", e[2], [j \in 1..Len(e[3]) |-> as[j].t]>>]
    [] OTHER ->   \* shift
         IF IsRaw(e[3]) THEN [k |-> KE, t |-> <<"leaf", "?", 0, 0>>]
         ELSE Direct(e[3], dt + DT(e[2]), di + DI(e[2]), mode)

\* numerical range guard: at most two of {exp, **} on any root-to-leaf path (keeps doubles finite)
RECURSIVE Hot(_)
Hot(e) == CASE e[1] = "leaf" -> 0
            [] e[1] = "bin" -> (IF e[2] = "**" THEN 1 ELSE 0) + (IF Hot(e[3]) >= Hot(e[4]) THEN Hot(e[3]) ELSE Hot(e[4]))
            [] e[1] = "fn" -> (IF e[2] = "exp" THEN 1 ELSE 0)
                              + (IF Len(e[3]) = 1 \/ Hot(e[3][1]) >= Hot(e[3][2]) THEN Hot(e[3][1]) ELSE Hot(e[3][2]))
            [] OTHER -> Hot(e[3])

WellTyped(e) == Direct(e, 0, 0, "deriv").k # KE /\ Hot(e) <= 2
RootKind(e, mode) == Direct(e, 0, 0, mode).k
\* expressions the property quantifies over: Operator-valued, with a float / vector / AdArray value
IsRoot(e) == WellTyped(e) /\ ~IsRaw(e) /\ Vecish(RootKind(e, "deriv"))

\* the program of the direct evaluation on forward-mode arrays.  how = "reflected": a numpy array on the left of an
\* AdArray must be combined through the AdArray's reflected method (AdArray docstring: DO NOT write array + AdArray);
\* "sumlist": a ProjectionList stands for the sum of its projections.
RECURSIVE DirectProg(_, _, _)
DirectProg(e, dt, di) ==
  CASE e[1] = "leaf" -> LET s == LeafState(LT[e[2]].cls, e[3], e[4], dt, di) IN <<"leaf", e[2], s[2], s[3]>>
    [] e[1] = "bin" ->
         LET k0 == Direct(e[3], dt, di, "deriv").k
             k1 == Direct(e[4], dt, di, "deriv").k
             how == IF k0[1] = "V" /\ k1[1] = "A" THEN "reflected" ELSE IF k0[1] = "L" THEN "sumlist" ELSE "infix"
         IN <<"bin", e[2], how, DirectProg(e[3], dt, di), DirectProg(e[4], dt, di)>>
    [] e[1] = "fn" -> <<"call", e[2], [j \in 1..Len(e[3]) |-> DirectProg(e[3][j], dt, di)]>>
    [] OTHER -> DirectProg(e[3], dt + DT(e[2]), di + DI(e[2]))

\* time-dependent leaves of e with their resolved state: set of <<name, tsi, iti>>
RECURSIVE TDLeaves(_, _, _)
TDLeaves(e, dt, di) ==
  CASE e[1] = "leaf" -> LET c == LT[e[2]].cls
                            s == LeafState(c, e[3], e[4], dt, di)
                        IN IF TimeDep(c) THEN {<<e[2], s[2], s[3]>>} ELSE {}
    [] e[1] = "bin" -> TDLeaves(e[3], dt, di) \cup TDLeaves(e[4], dt, di)
    [] e[1] = "fn" -> UNION {TDLeaves(e[3][j], dt, di) : j \in 1..Len(e[3])}
    [] OTHER -> TDLeaves(e[3], dt + DT(e[2]), di + DI(e[2]))
\* current variables (the unknowns the derivative is taken with respect to)
CurVars(e, dt, di) == {x \in TDLeaves(e, dt, di) : LT[x[1]].cls \in VarClasses /\ x[2] < 0 /\ x[3] < 0}
IsPrev(e, dt, di) == TDLeaves(e, dt, di) # {} /\ \A x \in TDLeaves(e, dt, di) : x[2] >= 0 \/ x[3] >= 0

\* the same expression with all shifts pushed into the leaves
RECURSIVE Resolve(_, _, _)
Resolve(e, dt, di) ==
  CASE e[1] = "leaf" -> LET s == LeafState(LT[e[2]].cls, e[3], e[4], dt, di) IN Leaf(e[2], s[2], s[3])
    [] e[1] = "bin" -> Bin(e[2], Resolve(e[3], dt, di), Resolve(e[4], dt, di))
    [] e[1] = "fn" -> Fn(e[2], [j \in 1..Len(e[3]) |-> Resolve(e[3][j], dt, di)])
    [] OTHER -> Resolve(e[3], dt + DT(e[2]), di + DI(e[2]))

\* maximal Operator-valued sub-expressions taken at a previous time step / iterate (resolved), in left-to-right order
RECURSIVE PrevSubs(_, _, _)
PrevSubs(e, dt, di) ==
  IF IsRaw(e) THEN <<>>
  ELSE IF IsPrev(e, dt, di) THEN <<Resolve(e, dt, di)>>
  ELSE CASE e[1] = "leaf" -> <<>>
         [] e[1] = "bin" -> PrevSubs(e[3], dt, di) \o PrevSubs(e[4], dt, di)
         [] e[1] = "fn" -> IF Len(e[3]) = 1 THEN PrevSubs(e[3][1], dt, di)
                           ELSE PrevSubs(e[3][1], dt, di) \o PrevSubs(e[3][2], dt, di)
         [] OTHER -> PrevSubs(e[3], dt + DT(e[2]), di + DI(e[2]))

\* ---------------------------------------------------------------- (i) Python's binary operator protocol
FwdName(op) == CASE op = "+" -> "__add__" [] op = "-" -> "__sub__" [] op = "*" -> "__mul__"
                 [] op = "/" -> "__truediv__" [] op = "**" -> "__pow__" [] OTHER -> "__matmul__"
ReflName(op) == CASE op = "+" -> "__radd__" [] op = "-" -> "__rsub__" [] op = "*" -> "__rmul__"
                  [] op = "/" -> "__rtruediv__" [] op = "**" -> "__rpow__" [] OTHER -> "__rmatmul__"

\* Python tries right.__rop__ first when type(right) is a proper subclass of type(left) that OVERRIDES the reflected
\* method.  Scalar, DenseArray, ... inherit Operator's reflected methods unchanged, so this never applies here
\* (AbstractFunction overrides them, but functions are not operands of this language).
SubclassPriority(lc, rc) == FALSE

\* what type(left).__op__(left, right) does
LeftSlot(lc, op, rc) ==
  CASE lc \in OperatorClasses -> "builds"           \* Operator.__op__ builds a node or raises, never NotImplemented
    [] lc \in {"float", "int"} -> IF op = "@" THEN "noslot" ELSE IF rc \in {"float", "int"} THEN "value" ELSE "NotImplemented"
    [] lc \in {"npfloat", "ndarray"} ->              \* every numpy operator is a ufunc call
         IF rc \in OperatorClasses THEN (IF UfuncOptOut THEN "NotImplemented" ELSE "ufunc") ELSE "value"
    [] lc \in SparseRaw ->                            \* scipy.sparse: ** insists on a scalar exponent; everything else
         IF rc \in OperatorClasses THEN (IF op = "**" THEN "raises" ELSE "NotImplemented") ELSE "value"
    [] OTHER -> "value"

PyDispatch(lc, op, rc) ==
  LET s == LeftSlot(lc, op, rc) IN
  CASE s = "builds" -> [via |-> "forward", cls |-> "Operator", method |-> FwdName(op)]
    [] s \in {"NotImplemented", "noslot"} ->
         IF rc \in OperatorClasses THEN [via |-> "reflected", cls |-> "Operator", method |-> ReflName(op)]
         ELSE [via |-> "TypeError", cls |-> "", method |-> ""]
    [] s = "ufunc" -> [via |-> "objarray", cls |-> "ndarray", method |-> FwdName(op)]   \* object array, no Operator
    [] s = "raises" -> [via |-> "raises", cls |-> lc, method |-> FwdName(op)]
    [] OTHER -> [via |-> "value", cls |-> lc, method |-> FwdName(op)]                  \* plain numerics, no Operator

\* ---------------------------------------------------------------- (ii) the tree the overloads build
\* built nodes: <<"leaf", cls, name, tsi, iti>> | <<"node", tag, c0, c1>> | <<"eval", f, <<cs>>>> | <<"raw", cls, name>>
\*              | <<"error", why>>
FwdTag(op) == CASE op = "+" -> "add" [] op = "-" -> "sub" [] op = "*" -> "mul" [] op = "/" -> "div"
                [] op = "**" -> "pow" [] OTHER -> "matmul"
RevTag(op) == CASE op = "*" -> "rmul" [] op = "/" -> "rdiv" [] op = "**" -> "rpow" [] OTHER -> "rmatmul"
BErr(why) == <<"error", why>>
IsErr(b) == b[1] = "error"

\* Operator._parse_other: the second child
WrapOther(b) ==
  IF b[1] # "raw" THEN b
  ELSE CASE b[2] \in ScalarRaw -> <<"leaf", "Scalar", b[3], -1, -1>>
         [] b[2] = "ndarray" -> <<"leaf", "DenseArray", b[3], -1, -1>>
         [] b[2] \in SparseRaw -> <<"leaf", "SparseArray", b[3], -1, -1>>
         [] OTHER -> BErr("ValueError: cannot parse as an AD operator")

\* _get_previous_time_or_iterate on a built tree
RECURSIVE ShiftT(_, _)
ShiftT(b, mode) ==
  CASE b[1] = "leaf" ->
         IF DT(mode) > 0 /\ TimeDep(b[2]) THEN
            (IF Iterative(b[2]) /\ b[5] >= 0 THEN BErr("ValueError: previous time step of a previous iterate")
             ELSE <<"leaf", b[2], b[3], b[4] + DT(mode), b[5]>>)
         ELSE IF DI(mode) > 0 /\ Iterative(b[2]) THEN
            (IF b[4] >= 0 THEN BErr("ValueError: previous iterate of a previous time step")
             ELSE <<"leaf", b[2], b[3], b[4], b[5] + DI(mode)>>)
         ELSE b
    [] b[1] = "node" -> LET c0 == ShiftT(b[3], mode)
                            c1 == ShiftT(b[4], mode)
                        IN IF IsErr(c0) THEN c0 ELSE IF IsErr(c1) THEN c1 ELSE <<"node", b[2], c0, c1>>
    [] b[1] = "eval" -> LET cs == [j \in 1..Len(b[3]) |-> ShiftT(b[3][j], mode)]
                        IN IF \E j \in 1..Len(cs) : IsErr(cs[j]) THEN cs[CHOOSE j \in 1..Len(cs) : IsErr(cs[j])]
                           ELSE <<"eval", b[2], cs>>
    [] OTHER -> BErr("AttributeError: not an Operator")

RECURSIVE Build(_)
Build(e) ==
  CASE e[1] = "leaf" -> LET c == LT[e[2]].cls
                        IN IF c \in RawClasses THEN <<"raw", c, e[2]>> ELSE <<"leaf", c, e[2], e[3], e[4]>>
    [] e[1] = "bin" ->
         LET bl == Build(e[3])
             br == Build(e[4])
             op == e[2]
             d == PyDispatch(PyClass(e[3]), op, PyClass(e[4]))
         IN IF IsErr(bl) THEN bl ELSE IF IsErr(br) THEN br
            ELSE IF d.via = "forward" THEN
               (IF op = "**" /\ bl[1] = "leaf" /\ bl[2] = "SparseArray" /\ br[1] = "leaf" /\ br[2] \in {"Scalar", "DenseArray"}
                THEN BErr("ValueError: SparseArray to the power of a Scalar / DenseArray")
                ELSE LET w == WrapOther(br) IN IF IsErr(w) THEN w ELSE <<"node", FwdTag(op), bl, w>>)
            ELSE IF d.via = "reflected" THEN      \* self = br, other = the left operand
               (LET w == WrapOther(bl) IN
                IF IsErr(w) THEN w
                ELSE IF op = "+" THEN <<"node", "add", br, w>>           \* __radd__ delegates to __add__
                ELSE IF op = "-" THEN <<"node", "sub", w, br>>           \* __rsub__ swaps the children
                ELSE IF ReflectedStyle = "swap" THEN <<"node", FwdTag(op), w, br>>
                ELSE <<"node", RevTag(op), br, w>>)
            ELSE BErr(d.via)
    [] e[1] = "fn" ->       \* AbstractFunction.__call__: children = the arguments, func = the wrapped callable
         LET cs == [j \in 1..Len(e[3]) |-> Build(e[3][j])]
         IN IF \E j \in 1..Len(cs) : IsErr(cs[j]) THEN cs[CHOOSE j \in 1..Len(cs) : IsErr(cs[j])]
            ELSE IF \E j \in 1..Len(cs) : cs[j][1] = "raw" THEN BErr("AttributeError: argument has no name")
            ELSE <<"eval", e[2], cs>>
    [] OTHER -> LET b == Build(e[3]) IN IF IsErr(b) THEN b ELSE ShiftT(b, e[2])

\* ---------------------------------------------------------------- (iii) AdParser._evaluate_single
\* terms: <<"leaf", name, tsi, iti>> | <<"py", sym, t0, t1>> builtin float / numpy / scipy arithmetic t0 sym t1 |
\*        <<"ad", method, recv, arg>> AdArray method | <<"sl", recv, arg>> ArraySlicer.__matmul__ | <<"neg", t>> |
\*        <<"sum", lst, arg>> sum([c @ arg for c in lst]) | <<"call", f, <<ts>>>> | <<"error", why>>
PV(k, t) == [k |-> k, t |-> t]
PErr(why) == PV(KE, <<"error", why>>)

\* result kind of AdArray.<method>(arg) (forward_mode.py)
AdMethodK(method, rk, ak) ==
  IF method = "__matmul__" THEN KE                                       \* AdArray @ anything is disallowed
  ELSE IF method = "__rmatmul__" THEN (IF ak[1] = "M" /\ ak[3] = rk[2] THEN KA(ak[2]) ELSE KE)
  ELSE CASE ak[1] = "F" -> rk
         [] ak[1] \in {"V", "A"} -> IF ak[2] = rk[2] THEN rk ELSE KE
         [] OTHER -> KE                                                   \* sparse matrices, slicers: ValueError / delayed
AdCall(method, recv, arg) ==
  LET k == AdMethodK(method, recv.k, arg.k)
  IN IF arg.k = KO \/ recv.k = KO THEN PErr("numpy capture")
     ELSE IF k = KE THEN PErr("ValueError in AdArray method") ELSE PV(k, <<"ad", method, recv.t, arg.t>>)

\* float / numpy / scipy arithmetic among F, V, M (no AdArray, no slicer involved)
PyK(sym, k0, k1) ==
  CASE sym = "@" -> IF k0[1] = "M" /\ k1[1] \in {"V", "M"} THEN MatmulK(k0, k1) ELSE KE
    [] k0[1] = "M" \/ k1[1] = "M" ->
         IF sym \in {"+", "-"} /\ k0 = k1 THEN k0
         ELSE IF sym = "*" /\ k0[1] = "M" /\ k1[1] = "F" THEN k0
         ELSE IF sym = "*" /\ k0[1] = "F" /\ k1[1] = "M" THEN k1
         ELSE IF sym = "/" /\ k0[1] = "M" /\ k1[1] = "F" THEN k0
         ELSE KE
    [] OTHER -> ElemK(k0, k1)

\* eval("c0 sym c1") on parsed values: Python's protocol once more, now on the value classes
Infix(sym, x0, x1) ==
  LET k0 == x0.k
      k1 == x1.k
  IN CASE k0 = KE -> x0                                                        \* the first error propagates
       [] k1 = KE -> x1
       [] k0 = KO \/ k1 = KO -> PErr("numpy capture")                           \* an object array went on
       [] k0[1] = "A" -> AdCall(FwdName(sym), x0, x1)
       [] k0[1] = "F" /\ k1[1] = "A" -> AdCall(ReflName(sym), x1, x0)          \* float.__op__ -> NotImplemented
       [] k0[1] = "V" /\ k1[1] = "A" -> PV(KO, <<"py", sym, x0.t, x1.t>>)      \* numpy broadcasts over the AdArray object
       [] k0[1] = "M" /\ k1[1] = "A" -> AdCall(ReflName(sym), x1, x0)          \* scipy -> NotImplemented -> AdArray.__rop__
       [] k0[1] = "S" -> IF sym = "@" /\ MatmulK(k0, k1) # KE THEN PV(MatmulK(k0, k1), <<"sl", x0.t, x1.t>>)
                         ELSE PErr("ArraySlicer supports only @")
       [] k0[1] = "L" \/ k1[1] \in {"S", "L"} -> PErr("unsupported operand")
       [] OTHER -> LET k == PyK(sym, k0, k1) IN IF k = KE THEN PErr("numpy / scipy error") ELSE PV(k, <<"py", sym, x0.t, x1.t>>)

Sym(tag) == CASE tag = "add" -> "+" [] tag = "sub" -> "-" [] tag = "mul" -> "*" [] tag = "div" -> "/"
              [] tag = "pow" -> "**" [] OTHER -> "@"

ParseBin(tag, c0, c1) ==
  IF tag \in {"add", "sub"} THEN
     LET flipped == c0.k[1] = "V"                     \* isinstance(child_values[0], np.ndarray): switch the operands
         x0 == IF flipped THEN c1 ELSE c0
         x1 == IF flipped THEN c0 ELSE c1
         r == Infix(Sym(tag), x0, x1)
     IN IF tag = "sub" /\ flipped /\ r.k # KE THEN PV(r.k, <<"neg", r.t>>) ELSE r
  ELSE IF tag \in {"mul", "div", "pow", "matmul"} THEN
     IF tag = "matmul" /\ c0.k[1] = "L" THEN          \* ProjectionList: sum([c @ child_values[1] for c in list])
        (LET k == MatmulK(c0.k, c1.k) IN IF k = KE THEN PErr("slicer error") ELSE PV(k, <<"sum", c0.t, c1.t>>))
     ELSE IF c0.k[1] = "V" /\ c1.k[1] = "A" THEN      \* ndarray op AdArray: enforce the AdArray's right-operation
        (CASE tag = "mul" -> Infix("*", c1, c0)
           [] tag = "div" -> AdCall("__rtruediv__", c1, c0)
           [] tag = "pow" -> AdCall("__rpow__", c1, c0)
           [] OTHER -> AdCall("__rmatmul__", c1, c0))
     ELSE Infix(Sym(tag), c0, c1)
  ELSE PErr("ValueError: unknown operation")

RECURSIVE Parse(_, _)
Parse(b, mode) ==
  CASE b[1] = "leaf" -> LET L == LT[b[3]] IN PV(LeafKind(b[2], L.n, L.m, b[4], b[5], mode), <<"leaf", b[3], b[4], b[5]>>)
    [] b[1] = "node" -> ParseBin(b[2], Parse(b[3], mode), Parse(b[4], mode))
    [] b[1] = "eval" -> LET cs == [j \in 1..Len(b[3]) |-> Parse(b[3][j], mode)]
                            k == IF \E j \in 1..Len(cs) : cs[j].k = KE THEN KE ELSE FnK(b[2], [j \in 1..Len(cs) |-> cs[j].k])
                        IN IF \E j \in 1..Len(cs) : cs[j].k = KO \/ (cs[j].t[1] = "error" /\ cs[j].t[2] = "numpy capture") THEN PErr("numpy capture")
                           ELSE IF k = KE THEN PErr("error in operator function")
                           ELSE PV(k, <<"call", b[2], [j \in 1..Len(cs) |-> cs[j].t]>>)
    [] OTHER -> PErr("not a tree")

\* ---------------------------------------------------------------- comparing terms
SymOfMethod(m) == CASE m \in {"__add__", "__radd__"} -> "+" [] m \in {"__sub__", "__rsub__"} -> "-"
                    [] m \in {"__mul__", "__rmul__"} -> "*" [] m \in {"__truediv__", "__rtruediv__"} -> "/"
                    [] m \in {"__pow__", "__rpow__"} -> "**" [] OTHER -> "@"
IsReflected(m) == m \in {"__radd__", "__rsub__", "__rmul__", "__rtruediv__", "__rpow__", "__rmatmul__"}

\* method-level term -> the mathematical expression it computes
RECURSIVE Norm(_)
Norm(t) ==
  CASE t[1] = "leaf" -> t
    [] t[1] = "py" -> <<"op", t[2], Norm(t[3]), Norm(t[4])>>
    [] t[1] = "ad" -> IF IsReflected(t[2]) THEN <<"op", SymOfMethod(t[2]), Norm(t[4]), Norm(t[3])>>
                      ELSE <<"op", SymOfMethod(t[2]), Norm(t[3]), Norm(t[4])>>
    [] t[1] = "sl" -> <<"op", "@", Norm(t[2]), Norm(t[3])>>
    [] t[1] = "sum" -> <<"op", "@", Norm(t[2]), Norm(t[3])>>
    [] t[1] = "neg" -> LET n == Norm(t[2]) IN IF n[1] = "op" /\ n[2] = "-" THEN <<"op", "-", n[4], n[3]>> ELSE <<"neg", n>>
    [] t[1] = "call" -> <<"call", t[2], [j \in 1..Len(t[3]) |-> Norm(t[3][j])]>>
    [] OTHER -> t

\* equality of mathematical terms up to commutativity of + and *
RECURSIVE Equiv(_, _)
Equiv(t, u) ==
  IF t[1] # u[1] THEN FALSE
  ELSE CASE t[1] = "leaf" -> t = u
         [] t[1] = "op" -> t[2] = u[2] /\ (\/ (Equiv(t[3], u[3]) /\ Equiv(t[4], u[4]))
                                           \/ (t[2] \in {"+", "*"} /\ Equiv(t[3], u[4]) /\ Equiv(t[4], u[3])))
         [] t[1] = "call" -> t[2] = u[2] /\ Len(t[3]) = Len(u[3]) /\ \A j \in 1..Len(t[3]) : Equiv(t[3][j], u[3][j])
         [] t[1] = "neg" -> Equiv(t[2], u[2])
         [] OTHER -> FALSE

RECURSIVE TreeEq(_, _)
TreeEq(x, y) ==      \* structural equality of built trees (x from JSON, y from Build), safe for TLC's strict equality
  IF x[1] # y[1] \/ Len(x) # Len(y) THEN FALSE
  ELSE CASE x[1] = "leaf" -> x[2] = y[2] /\ x[3] = y[3] /\ x[4] = y[4] /\ x[5] = y[5]
         [] x[1] = "node" -> x[2] = y[2] /\ TreeEq(x[3], y[3]) /\ TreeEq(x[4], y[4])
         [] x[1] = "eval" -> x[2] = y[2] /\ Len(x[3]) = Len(y[3]) /\ \A j \in 1..Len(x[3]) : TreeEq(x[3][j], y[3][j])
         [] OTHER -> FALSE

\* ---------------------------------------------------------------- design-level laws (for a well-typed e)
LawBuildDefined(e) == ~IsErr(Build(e)) /\ Build(e)[1] # "raw"
LawParseAgreesDirect(e, mode) ==
  LET p == Parse(Build(e), mode)
      d == Direct(e, 0, 0, mode)
  IN p.k = d.k /\ Equiv(Norm(p.t), d.t)
LawValueModeConsistent(e) ==
  LET pd == Parse(Build(e), "deriv")
      pv == Parse(Build(e), "value")
  IN pv.k = ValKind(pd.k) /\ Equiv(Norm(pd.t), Norm(pv.t))
RECURSIVE TermLeaves(_)
TermLeaves(t) == CASE t[1] = "leaf" -> {<<t[2], t[3], t[4]>>}
                   [] t[1] = "op" -> TermLeaves(t[3]) \cup TermLeaves(t[4])
                   [] t[1] = "call" -> UNION {TermLeaves(t[3][j]) : j \in 1..Len(t[3])}
                   [] t[1] = "neg" -> TermLeaves(t[2])
                   [] OTHER -> {}
LawPrevNoDerivative(e) ==
  LET p == Parse(Build(e), "deriv")
      cur == CurVars(e, 0, 0)
      subs == PrevSubs(e, 0, 0)
  IN /\ (p.k[1] = "A") = (cur # {})                           \* a derivative exists iff a current variable occurs
     /\ {x \in TermLeaves(Norm(p.t)) : LT[x[1]].cls \in VarClasses /\ x[2] < 0 /\ x[3] < 0} = cur
     /\ \A j \in 1..Len(subs) : Parse(Build(subs[j]), "deriv").k[1] # "A"
\* numpy must never get to broadcast over an AdArray ("ndarray op AdArray" evaluated by numpy gives an object array):
\* such a result is kind O, and every consumer of it reports the error "numpy capture"
Captured(p) == p.k = KO \/ (p.t[1] = "error" /\ p.t[2] = "numpy capture")
LawNoNumpyCapture(e) == ~Captured(Parse(Build(e), "deriv")) /\ ~Captured(Parse(Build(e), "value"))

\* all laws at once, sharing the tree and its two parses
LawsOf(e) ==
  LET b == Build(e)
      pd == Parse(b, "deriv")
      pv == Parse(b, "value")
      dd == Direct(e, 0, 0, "deriv")
      dv == Direct(e, 0, 0, "value")
      nd == Norm(pd.t)
      cur == CurVars(e, 0, 0)
      subs == PrevSubs(e, 0, 0)
  IN /\ ~IsErr(b) /\ b[1] # "raw"
     /\ pd.k = dd.k /\ Equiv(nd, dd.t)
     /\ pv.k = dv.k /\ Equiv(Norm(pv.t), dv.t)
     /\ pv.k = ValKind(pd.k)
     /\ (pd.k[1] = "A") = (cur # {})
     /\ {x \in TermLeaves(nd) : LT[x[1]].cls \in VarClasses /\ x[2] < 0 /\ x[3] < 0} = cur
     /\ \A j \in 1..Len(subs) : Parse(Build(subs[j]), "deriv").k[1] # "A"
     /\ ~Captured(pd) /\ ~Captured(pv)
=============================================================================
