---------------------------- MODULE GridProjections ----------------------------
(***************************************************************************)
(* C27 "Global projection operators are consistent permutations":          *)
(* reference semantics of pp.ad.SubdomainProjections, MortarProjections    *)
(* and BoundaryProjection (numerics/ad/grid_operators.py) as index maps    *)
(* and the laws of that model (pure operators; the input family is         *)
(* enumerated by spec/ref/GridProjectionsFamily.tla, real matrices are     *)
(* judged by spec/trace/J_GridProjections.tla).                            *)
(*                                                                         *)
(* A mixed-dimensional grid M is described abstractly (taken from a real   *)
(* md-grid by the harness):                                                *)
(*   grids[g] = [cells, faces, dim, bnd]   bnd = the boundary faces        *)
(*              (0-based, ascending) = the cells of its boundary grid      *)
(*   intfs[i] = [cells, primary, secondary, sign, m2p_int, m2p_avg,        *)
(*               p2m_int, p2m_avg, m2s_int, m2s_avg, s2m_int, s2m_avg]     *)
(*              the per-interface (scalar) projections of the MortarGrid   *)
(*              as sequences of entries <<row, col, n, d>> (value n/d),    *)
(*              sign[c] = sign of mortar cell c (sign_of_mortar_sides)     *)
(* A matrix is [shape |-> <<rows, cols>>, ent |-> set of <<r, c, n, d>>]   *)
(* (0-based, n/d # 0 in lowest terms).                                     *)
(*                                                                         *)
(* Ordering: a quantity with nd components per cell (face) of a list of    *)
(* grids is stored grid by grid in list order, inside a grid entity by     *)
(* entity, the nd components of one entity next to each other              *)
(* (expand_indices_nd, Fortran order): index = nd * (entities of the       *)
(* grids before) + nd * i + k.  0-d grids have no faces.                   *)
(*                                                                         *)
(* Reference operators                                                     *)
(*   Prol(list, sub, nd, what)   prolongation from the grids `sub` (a list *)
(*        of positions of `list`, any order) to the global vector on       *)
(*        `list`; restriction = Transpose                                  *)
(*   Mortar(list, ilist, nd, which)  block row / column of the             *)
(*        per-interface projections at the offsets of the neighbour in     *)
(*        `list` and of the interface in `ilist`; a neighbour that is not  *)
(*        in `list` gives a zero block                                     *)
(*   Sign(ilist, nd), Boundary(list, nd)                                   *)
(* Laws of the model, checked by TLC for every enumerated input            *)
(* (GridProjectionsFamily): restriction o prolongation = identity; with    *)
(* all grids of the list P is a permutation matrix (the identity in list   *)
(* order); the columns of grid q of sub hit exactly the rows of that       *)
(* grid's block; Boundary o Transpose(Boundary) = identity.                *)
(***************************************************************************)
EXTENDS Integers, Sequences, FiniteSets

Range(s) == {s[i] : i \in DOMAIN s}
RECURSIVE SumSeq(_)
SumSeq(s) == IF s = <<>> THEN 0 ELSE Head(s) + SumSeq(Tail(s))

(* ----- sizes and offsets ------------------------------------------------------------------------ *)
\* number of entities ("cells" / "faces") of grid g of md-grid M
Num(M, g, what) == IF what = "cells" THEN M.grids[g].cells ELSE M.grids[g].faces
Tot(M, list, what) == SumSeq([p \in DOMAIN list |-> Num(M, list[p], what)])
Off(M, list, p, what) == SumSeq([q \in 1..(p - 1) |-> Num(M, list[q], what)])
PosIn(list, g) == CHOOSE p \in DOMAIN list : list[p] = g

MTot(M, ilist) == SumSeq([q \in DOMAIN ilist |-> M.intfs[ilist[q]].cells])
MOff(M, ilist, q) == SumSeq([r \in 1..(q - 1) |-> M.intfs[ilist[r]].cells])

BTot(M, list) == SumSeq([p \in DOMAIN list |-> Len(M.grids[list[p]].bnd)])
BOff(M, list, p) == SumSeq([q \in 1..(p - 1) |-> Len(M.grids[list[q]].bnd)])

(* ----- matrices --------------------------------------------------------------------------------- *)
Mat(r, c, e) == [shape |-> <<r, c>>, ent |-> e]
Transpose(A) == Mat(A.shape[2], A.shape[1], {<<e[2], e[1], e[3], e[4]>> : e \in A.ent})
Identity(n) == Mat(n, n, {<<i, i, 1, 1>> : i \in 0..(n - 1)})
\* product of matrices in which every (row, column) pair receives at most one contribution (true when A has at
\* most one entry per row or B at most one per column, as for partial permutation matrices); entries are +-1 here
\* so the products of numerators / denominators stay in lowest terms; Compose is only applied under this guard
RowUnique(A) == Cardinality({e[1] : e \in A.ent}) = Cardinality(A.ent)
ColUnique(A) == Cardinality({e[2] : e \in A.ent}) = Cardinality(A.ent)
UniqueContribution(A, B) == RowUnique(A) \/ ColUnique(B)
Compose(A, B) ==
  Mat(A.shape[1], B.shape[2],
      {<<a[1], b[2], a[3] * b[3], a[4] * b[4]>> : <<a, b>> \in {p \in A.ent \X B.ent : p[1][2] = p[2][1]}})
IsPermutation(A) ==
  /\ A.shape[1] = A.shape[2]
  /\ \A e \in A.ent : e[3] = 1 /\ e[4] = 1
  /\ Cardinality(A.ent) = A.shape[1]
  /\ {e[1] : e \in A.ent} = 0..(A.shape[1] - 1)
  /\ {e[2] : e \in A.ent} = 0..(A.shape[2] - 1)

(* ----- subdomain projections -------------------------------------------------------------------- *)
\* list: sequence of grid indices (no repetition); sub: sequence of POSITIONS in list (no repetition)
SubGrids(list, sub) == [q \in DOMAIN sub |-> list[sub[q]]]
Prol(M, list, sub, nd, what) ==
  LET sg == SubGrids(list, sub)
  IN Mat(nd * Tot(M, list, what), nd * Tot(M, sg, what),
         UNION {{<<nd * Off(M, list, sub[q], what) + nd * i + k, nd * Off(M, sg, q, what) + nd * i + k, 1, 1>> :
                    i \in 0..(Num(M, sg[q], what) - 1), k \in 0..(nd - 1)} : q \in DOMAIN sub})
Restr(M, list, sub, nd, what) == Transpose(Prol(M, list, sub, nd, what))

(* ----- mortar projections ----------------------------------------------------------------------- *)
\* which in {"m2p_int", "m2p_avg", "p2m_int", "p2m_avg", "m2s_int", "m2s_avg", "s2m_int", "s2m_avg"}
IsPrimary(which) == which \in {"m2p_int", "m2p_avg", "p2m_int", "p2m_avg"}
ToMortar(which) == which \in {"p2m_int", "p2m_avg", "s2m_int", "s2m_avg"}
Local(I, which) ==
  CASE which = "m2p_int" -> I.m2p_int [] which = "m2p_avg" -> I.m2p_avg
    [] which = "p2m_int" -> I.p2m_int [] which = "p2m_avg" -> I.p2m_avg
    [] which = "m2s_int" -> I.m2s_int [] which = "m2s_avg" -> I.m2s_avg
    [] which = "s2m_int" -> I.s2m_int [] which = "s2m_avg" -> I.s2m_avg
Mortar(M, list, ilist, nd, which) ==
  LET what == IF IsPrimary(which) THEN "faces" ELSE "cells"
      nm == nd * Tot(M, list, what)
      mm == nd * MTot(M, ilist)
      Nb(q) == IF IsPrimary(which) THEN M.intfs[ilist[q]].primary ELSE M.intfs[ilist[q]].secondary
      Block(q) ==
        IF Nb(q) \notin Range(list) THEN {}
        ELSE LET go == nd * Off(M, list, PosIn(list, Nb(q)), what)
                 mo == nd * MOff(M, ilist, q)
             IN {IF ToMortar(which)
                 THEN <<mo + nd * e[1] + k, go + nd * e[2] + k, e[3], e[4]>>
                 ELSE <<go + nd * e[1] + k, mo + nd * e[2] + k, e[3], e[4]>> :
                   e \in Range(Local(M.intfs[ilist[q]], which)), k \in 0..(nd - 1)}
  IN IF ilist = <<>> THEN (IF ToMortar(which) THEN Mat(0, nm, {}) ELSE Mat(nm, 0, {}))
     ELSE IF ToMortar(which) THEN Mat(mm, nm, UNION {Block(q) : q \in DOMAIN ilist})
                              ELSE Mat(nm, mm, UNION {Block(q) : q \in DOMAIN ilist})
Sign(M, ilist, nd) ==
  Mat(nd * MTot(M, ilist), nd * MTot(M, ilist),
      UNION {{<<nd * MOff(M, ilist, q) + nd * c + k, nd * MOff(M, ilist, q) + nd * c + k,
                M.intfs[ilist[q]].sign[c + 1], 1>> :
                 c \in 0..(M.intfs[ilist[q]].cells - 1), k \in 0..(nd - 1)} : q \in DOMAIN ilist})

(* ----- boundary projection ---------------------------------------------------------------------- *)
\* from the faces of the grids of list to the cells of their boundary grids, stacked in list order
Boundary(M, list, nd) ==
  IF list = <<>> THEN Mat(0, 0, {})
  ELSE Mat(nd * BTot(M, list), nd * Tot(M, list, "faces"),
           UNION {{<<nd * BOff(M, list, p) + nd * (b - 1) + k,
                     nd * Off(M, list, p, "faces") + nd * M.grids[list[p]].bnd[b] + k, 1, 1>> :
                      b \in DOMAIN M.grids[list[p]].bnd, k \in 0..(nd - 1)} : p \in DOMAIN list})


Ident(n) == [i \in 1..n |-> i]
=============================================================================
