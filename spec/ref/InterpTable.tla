----------------------------- MODULE InterpTable -----------------------------
(***************************************************************************)
(* C41  Interpolation tables are exact for multilinear functions.          *)
(*                                                                         *)
(* Reference semantics for porepy.utils.interpolation_tables               *)
(*   InterpolationTable(low, high, npt, function).interpolate / .gradient  *)
(*   AdaptiveInterpolationTable(dx, base_point, function) (same methods,   *)
(*   values computed on demand or assigned with assign_values).            *)
(*                                                                         *)
(* A table lives on a box with integer corners low_i, low_i + w_i and      *)
(* npt_i >= 2 points per axis (P = number of parameters, 1..3).  The       *)
(* tabulated function is multilinear:                                      *)
(*     f(x) = sum over subsets m of the axes of coef[m] * prod_{i in m} x_i*)
(* (m as a bit mask, coef[m + 1] in the sequence).  Query points lie on    *)
(* the lattice x_i = low_i + w_i k_i / D, k_i in 0..D (D a multiple of     *)
(* every npt_i - 1, so that all table nodes, all cell interiors and the    *)
(* whole boundary of the box are queried).                                 *)
(*   FNum(coef, X) / D^P = f(x) for the numerators X_i = low_i D + w_i k_i.*)
(*   GradRef(coef, axis) = coef[{axis}] for a linear f (IsLinear).         *)
(* LawInterpExact is the theorem behind the property, checked on the       *)
(* model: piecewise multilinear interpolation of f on the table nodes      *)
(* (GridInterpNum: weights r, 1 - r per axis in the cell containing x)     *)
(* reproduces f at every lattice point.                                    *)
(***************************************************************************)
EXTENDS Integers, Sequences, FiniteSets, TLC

RECURSIVE Pow(_, _)
Pow(b, e) == IF e = 0 THEN 1 ELSE b * Pow(b, e - 1)
Bit(m, i) == (m \div Pow(2, i - 1)) % 2
RECURSIVE PopCount(_)
PopCount(m) == IF m = 0 THEN 0 ELSE (m % 2) + PopCount(m \div 2)
RECURSIVE ProdFrom(_, _, _, _)
\* prod over axes i..P of (X_i if axis i is in the mask m, else D)
ProdFrom(m, X, D, i) == IF i > Len(X) THEN 1
                        ELSE (IF Bit(m, i) = 1 THEN X[i] ELSE D) * ProdFrom(m, X, D, i + 1)
RECURSIVE SumMasks(_, _, _, _)
SumMasks(coef, X, D, m) == IF m < 0 THEN 0
                           ELSE coef[m + 1] * ProdFrom(m, X, D, 1) + SumMasks(coef, X, D, m - 1)
\* numerator of f(x) over D^P
FNum(coef, X, D) == SumMasks(coef, X, D, Len(coef) - 1)
XNum(low, w, k, D) == [i \in 1..Len(low) |-> low[i] * D + w[i] * k[i]]
FAt(low, w, coef, k, D) == FNum(coef, XNum(low, w, k, D), D)
IsLinear(coef) == \A m \in 0..(Len(coef) - 1) : PopCount(m) >= 2 => coef[m + 1] = 0
GradRef(coef, axis) == coef[Pow(2, axis - 1) + 1]
OnUpper(k, D) == \E i \in 1..Len(k) : k[i] = D

\* ---- piecewise multilinear interpolation on the table nodes (mechanism model for the law)
MinI(a, b) == IF a <= b THEN a ELSE b
\* cell index along axis i of lattice coordinate k_i: t = k_i (npt_i - 1) / D, clipped to the last cell
CellOf(k, npt, D, i) == MinI((k[i] * (npt[i] - 1)) \div D, npt[i] - 2)
\* weight numerator (over D) of the right node
RNum(k, npt, D, i) == k[i] * (npt[i] - 1) - CellOf(k, npt, D, i) * D
\* lattice coordinates of the cell vertex with increments given by the mask b
Vertex(k, npt, D, b) == [i \in 1..Len(k) |-> (CellOf(k, npt, D, i) + Bit(b, i)) * (D \div (npt[i] - 1))]
RECURSIVE WProd(_, _, _, _, _)
WProd(k, npt, D, b, i) == IF i > Len(k) THEN 1
                          ELSE (IF Bit(b, i) = 1 THEN RNum(k, npt, D, i) ELSE D - RNum(k, npt, D, i))
                               * WProd(k, npt, D, b, i + 1)
RECURSIVE GridSum(_, _, _, _, _, _, _)
GridSum(low, w, npt, coef, k, D, b) ==
  IF b < 0 THEN 0
  ELSE WProd(k, npt, D, b, 1) * FAt(low, w, coef, Vertex(k, npt, D, b), D)
       + GridSum(low, w, npt, coef, k, D, b - 1)
\* numerator of the interpolated value over D^P * D^P
GridInterpNum(low, w, npt, coef, k, D) == GridSum(low, w, npt, coef, k, D, Pow(2, Len(k)) - 1)
LawInterpExactOf(low, w, npt, coef, k, D) ==
  GridInterpNum(low, w, npt, coef, k, D) = Pow(D, Len(k)) * FAt(low, w, coef, k, D)
=============================================================================
