---------------------------- MODULE FvOracleEnum ----------------------------
(***************************************************************************)
(* Input families of C11 (MPFA), C12 (TPFA) and C18 (RT0 / MVEM): TLC      *)
(* enumerates configurations                                               *)
(*     grid recipe  x  permeability  x  boundary-type assignment           *)
(* and emits each as a JSON record; every configuration carries the list   *)
(* of linear pressure fields (one of them constant) it is exercised with.  *)
(*                                                                         *)
(* grid recipe: kind "tensor" (Cartesian / tensor-product, dim 1..3) or    *)
(*   "simplex" (structured triangles / Kuhn tetrahedra on the same nodes), *)
(*   sizes n <= 3 per direction from the tier constant Sizes, and one      *)
(*   modification:                                                         *)
(*     none    unit spacing                                                *)
(*     tensor  non-uniform integer spacings 1..3 per direction             *)
(*     pert    nodes of the grid scaled by 3 (dim 2) / 6 (dim 3) moved by  *)
(*             lattice vectors in {-1,0,1}^dim (not for hexahedra: their   *)
(*             faces would not stay planar); validity of the perturbed     *)
(*             cells is decided by TLC in J_FvOracle on the real topology  *)
(*     shear   image under an integer shear (faces stay planar)            *)
(* permeability: a catalogue of integer SPD tensors (diagonal incl.        *)
(*   transversely isotropic ones in all three axis positions, and full);   *)
(*   constant, or (C12) chosen per cell (any / diagonal / transversely     *)
(*   isotropic with the equal pair equal in every cell).                   *)
(* boundary types: a 0/1 mask over the boundary faces in ascending face    *)
(*   order (1 = Dirichlet): ALL masks with at least one Dirichlet face on  *)
(*   grids with at most ExhNB boundary faces, otherwise all-Dirichlet plus *)
(*   NMask seeded masks of density 1/4, 2/4, 3/4.  C18: all-Dirichlet.     *)
(* C18, dim < 3: the grid is embedded in 3D by a rational rigid motion     *)
(*   x -> M x / n + t from a catalogue; the record carries the rotated     *)
(*   tensor M K M^T / n^2 and fields (M g / n, p0 - (M g / n) . t).        *)
(*   Fluxes and pressures are invariant, so the oracle is evaluated on the *)
(*   pre-image.                                                            *)
(* Seeded choices (spacings, perturbations, tensors per cell, masks,       *)
(* motions) are the hash H of (recipe id, position, Seed): deterministic.  *)
(* Laws checked here: the catalogue tensors are SPD (and act in the plane  *)
(* for dim < 3), the motions are proper rotations scaled by n, the rotated *)
(* tensor / gradient reproduce n . K g, sizes of the emitted sequences.    *)
(***************************************************************************)
EXTENDS FvOracle, Json

CONSTANTS Prop,    \* "C11" | "C12" | "C18"
          Seed,    \* 0..996
          Sizes,   \* set of size tuples <<n1>>, <<n1, n2>>, <<n1, n2, n3>> with n_i in 1..3
          Mods,    \* subset of {"none", "tensor", "pert", "shear"}
          NVar,    \* number of seeded variants per (size, modification)
          NK,      \* number of constant tensors per grid
          NMask,   \* number of seeded masks per grid on grids with more than ExhNB boundary faces
          ExhNB,   \* all masks are enumerated up to this number of boundary faces
          NTI      \* dim 3: number (1..3) of axis positions of the transversely isotropic tensors used per grid

VARIABLES st, gd, cfg
vars == <<st, gd, cfg>>

\* ---- seeded choice -----------------------------------------------------------------------------------------
H(a, b) == LET h0 == (a * 7919 + b * 10007 + Seed * 1009) % 32749
               h1 == (h0 * h0 + 3 * h0 + 1) % 32749
           IN (h1 * h1 + 5 * h1 + b) % 32749
Pick(a, b, m) == H(a, b) % m

\* ---- grid recipes ------------------------------------------------------------------------------------------
Dim(d) == Len(d.n)
Allowed(d) ==
  /\ d.mod = "none" => d.var = 1
  /\ Dim(d) = 1 => d.kind = "tensor" /\ d.mod \in {"none", "tensor"}
  /\ (Dim(d) = 3 /\ d.kind = "tensor") => d.mod # "pert"
  /\ (Dim(d) = 3 /\ d.mod = "pert") => \A i \in 1..3 : d.n[i] <= 2
  /\ Prop = "C18" => (Dim(d) = 1 \/ d.kind = "simplex")
  /\ Prop = "C11" => Dim(d) >= 2
GridSet == {d \in [kind : {"tensor", "simplex"}, n : Sizes, mod : Mods, var : 1..NVar] : Allowed(d)}

ModIdx(m) == CASE m = "none" -> 0 [] m = "tensor" -> 1 [] m = "pert" -> 2 [] m = "shear" -> 3
NAt(d, i) == IF i <= Dim(d) THEN d.n[i] ELSE 0
HId(d) == NAt(d, 1) + 4 * NAt(d, 2) + 16 * NAt(d, 3) + 64 * ModIdx(d.mod)
          + 256 * (IF d.kind = "tensor" THEN 0 ELSE 1) + 512 * d.var

RECURSIVE Prod(_)
Prod(s) == IF s = <<>> THEN 1 ELSE Head(s) * Prod(Tail(s))
Fact(k) == IF k = 1 THEN 1 ELSE IF k = 2 THEN 2 ELSE 6
NumNodes(d) == Prod([i \in 1..Dim(d) |-> d.n[i] + 1])
NumCells(d) == Prod(d.n) * (IF d.kind = "simplex" THEN Fact(Dim(d)) ELSE 1)
NumBnd(d) == IF Dim(d) = 1 THEN 2
             ELSE IF Dim(d) = 2 THEN 2 * (d.n[1] + d.n[2])
             ELSE (IF d.kind = "simplex" THEN 2 ELSE 1) * 2 * (d.n[1] * d.n[2] + d.n[1] * d.n[3] + d.n[2] * d.n[3])

RECURSIVE Cum(_, _, _)
Cum(d, i, j) == IF j = 1 THEN 0 ELSE Cum(d, i, j - 1) + 1 + Pick(HId(d), 10 * i + j, 3)
Axes(d) == [i \in 1..Dim(d) |-> [j \in 1..(d.n[i] + 1) |-> IF d.mod = "tensor" THEN Cum(d, i, j) ELSE j - 1]]
Scale(d) == IF d.mod = "pert" THEN (IF Dim(d) = 3 THEN 6 ELSE 3) ELSE 1
Pert(d) == IF d.mod # "pert" THEN <<>>
           ELSE [m \in 1..NumNodes(d) |-> [i \in 1..3 |-> IF i <= Dim(d) THEN Pick(HId(d), 100 + 3 * m + i, 3) - 1 ELSE 0]]
Shears2 == << << <<1, 1, 0>>, <<0, 1, 0>>, <<0, 0, 1>> >>, << <<1, 0, 0>>, <<1, 1, 0>>, <<0, 0, 1>> >>,
              << <<2, 1, 0>>, <<1, 1, 0>>, <<0, 0, 1>> >>, << <<1, -1, 0>>, <<1, 1, 0>>, <<0, 0, 1>> >> >>
Shears3 == << << <<1, 1, 0>>, <<0, 1, 0>>, <<0, 0, 1>> >>, << <<1, 0, 1>>, <<0, 1, 1>>, <<0, 0, 1>> >>,
              << <<1, 1, 0>>, <<0, 1, 1>>, <<1, 0, 1>> >>, << <<2, 0, 1>>, <<1, 1, 0>>, <<0, 0, 1>> >> >>
Shear(d) == IF d.mod # "shear" THEN <<>>
            ELSE IF Dim(d) = 2 THEN Shears2[Pick(HId(d), 50, 4) + 1] ELSE Shears3[Pick(HId(d), 50, 4) + 1]

\* ---- permeabilities <<kxx, kyy, kzz, kxy, kxz, kyz>>; the first NDiag(dim) entries are diagonal -------------
\* dim 3: entries 4..6 are transversely isotropic with the equal pair in each of the three axis positions
\* (diag(a,a,b), diag(a,b,a), diag(b,a,a)); dim 2: entry 4 has kxx = kyy (and a kzz that must not matter)
KCat(dim) ==
  IF dim = 1 THEN << <<1, 1, 1, 0, 0, 0>>, <<2, 1, 1, 0, 0, 0>>, <<5, 1, 1, 0, 0, 0>> >>
  ELSE IF dim = 2 THEN << <<1, 1, 1, 0, 0, 0>>, <<2, 1, 1, 0, 0, 0>>, <<1, 3, 1, 0, 0, 0>>, <<2, 2, 3, 0, 0, 0>>,
                          <<2, 3, 1, 1, 0, 0>>, <<3, 2, 1, -1, 0, 0>>, <<4, 1, 1, 1, 0, 0>> >>
  ELSE << <<1, 1, 1, 0, 0, 0>>, <<2, 1, 3, 0, 0, 0>>, <<1, 4, 2, 0, 0, 0>>,
          <<2, 2, 5, 0, 0, 0>>, <<3, 1, 3, 0, 0, 0>>, <<1, 4, 4, 0, 0, 0>>,
          <<3, 2, 2, 1, 0, 1>>, <<2, 3, 4, 1, 1, 1>>, <<3, 3, 2, -1, 1, 0>> >>
NDiag(dim) == IF dim = 1 THEN 3 ELSE IF dim = 2 THEN 4 ELSE 6
\* positions of the equal pair: 1 = (x, y), 2 = (x, z), 3 = (y, z); catalogue entry 3 + pos
TIPositions(d) == IF Dim(d) # 3 THEN {} ELSE {1 + ((Pick(HId(d), 760, 3) + j) % 3) : j \in 0..(NTI - 1)}
TITensor(pos, a, b) == IF pos = 1 THEN <<a, a, b, 0, 0, 0>> ELSE IF pos = 2 THEN <<a, b, a, 0, 0, 0>> ELSE <<b, a, a, 0, 0, 0>>
\* a tensor choice: <<"const", i>> | <<"hetdiag", 0>> | <<"het", 0>> | <<"hetti", pos>> (per cell transversely
\* isotropic, the equal pair in the same position pos and equal in every cell, values varying from cell to cell)
KChoices(d) ==
  LET L == Len(KCat(Dim(d)))
      consts == {<<"const", Pick(HId(d), 700 + j, L) + 1>> : j \in 1..NK} \cup {<<"const", 3 + pos>> : pos \in TIPositions(d)}
  IN IF Prop # "C12" THEN consts
     ELSE consts \cup {<<"const", Pick(HId(d), 750, NDiag(Dim(d))) + 1>>, <<"hetdiag", 0>>, <<"het", 0>>}
                 \cup {<<"hetti", 1 + Pick(HId(d), 761, 3)>> : x \in (IF Dim(d) = 3 THEN {1} ELSE {})}
KCells(d, ch) ==
  LET cat == KCat(Dim(d)) IN
  [c \in 1..NumCells(d) |->
     IF ch[1] = "const" THEN cat[ch[2]]
     ELSE IF ch[1] = "hetdiag" THEN cat[Pick(HId(d), 1000 + c, NDiag(Dim(d))) + 1]
     ELSE IF ch[1] = "hetti" THEN TITensor(ch[2], 1 + Pick(HId(d), 5000 + c, 3), 1 + Pick(HId(d), 6000 + c, 5))
     ELSE cat[Pick(HId(d), 2000 + c, Len(cat)) + 1]]

\* ---- linear fields (the first one is constant) -----------------------------------------------------------
Fields(dim) ==
  IF dim = 1 THEN << [g |-> <<0, 0, 0>>, p0 |-> 5], [g |-> <<1, 0, 0>>, p0 |-> 0], [g |-> <<-3, 0, 0>>, p0 |-> 2] >>
  ELSE IF dim = 2 THEN << [g |-> <<0, 0, 0>>, p0 |-> 5], [g |-> <<1, 0, 0>>, p0 |-> 0], [g |-> <<0, 1, 0>>, p0 |-> 3],
                          [g |-> <<1, -2, 0>>, p0 |-> 3], [g |-> <<3, 2, 0>>, p0 |-> -1] >>
  ELSE << [g |-> <<0, 0, 0>>, p0 |-> 5], [g |-> <<1, 0, 0>>, p0 |-> 0], [g |-> <<0, 0, 1>>, p0 |-> 2],
          [g |-> <<1, -2, 3>>, p0 |-> 3], [g |-> <<2, 1, -1>>, p0 |-> -1] >>

\* ---- boundary-type masks (1 = Dirichlet) over the boundary faces in ascending order -------------------------
AllDir(d) == [i \in 1..NumBnd(d) |-> 1]
Seeded(d, j) ==
  LET m == [i \in 1..NumBnd(d) |-> IF Pick(HId(d) * 8 + j, 3000 + i, 4) < (j % 3) + 1 THEN 1 ELSE 0]
  IN IF \A i \in 1..NumBnd(d) : m[i] = 0 THEN [m EXCEPT ![1] = 1] ELSE m
MaskSet(d) ==
  IF Prop = "C18" THEN {AllDir(d)}
  ELSE IF NumBnd(d) <= ExhNB THEN {m \in [1..NumBnd(d) -> {0, 1}] : \E i \in 1..NumBnd(d) : m[i] = 1}
  ELSE {AllDir(d)} \cup {Seeded(d, j) : j \in 1..NMask}

\* ---- rigid motions x -> M x / n + t (C18, dim < 3) -----------------------------------------------------------
QuatM(q) == LET a == q[1]  b == q[2]  c == q[3]  e == q[4] IN
  << <<a * a + b * b - c * c - e * e, 2 * (b * c - a * e), 2 * (b * e + a * c)>>,
     <<2 * (b * c + a * e), a * a - b * b + c * c - e * e, 2 * (c * e - a * b)>>,
     <<2 * (b * e - a * c), 2 * (c * e + a * b), a * a - b * b - c * c + e * e>> >>
QuatN(q) == q[1] * q[1] + q[2] * q[2] + q[3] * q[3] + q[4] * q[4]
Quats == << <<1, 0, 0, 0>>, <<1, 2, 2, 0>>, <<2, 1, 0, 2>>, <<0, 1, 2, 2>>, <<1, 0, 2, 2>>,
            <<3, 4, 0, 0>>, <<4, 0, 3, 0>>, <<2, 2, 1, 4>>, <<1, 2, 4, 2>>,
            <<2, 3, 6, 0>>, <<6, 2, 0, 3>>, <<4, 4, 4, 1>> >>
SignedPerms == << << <<0, -1, 0>>, <<1, 0, 0>>, <<0, 0, 1>> >>, << <<0, 0, 1>>, <<1, 0, 0>>, <<0, 1, 0>> >>,
                  << <<-1, 0, 0>>, <<0, 0, 1>>, <<0, 1, 0>> >> >>
Motions == [i \in 1..(Len(Quats) + Len(SignedPerms)) |->
              IF i <= Len(Quats) THEN [M |-> QuatM(Quats[i]), n |-> QuatN(Quats[i])]
              ELSE [M |-> SignedPerms[i - Len(Quats)], n |-> 1]]
Col(M, j) == <<M[1][j], M[2][j], M[3][j]>>
Transp(M) == <<Col(M, 1), Col(M, 2), Col(M, 3)>>
MatMul(A, B) == [i \in 1..3 |-> [j \in 1..3 |-> VDot(A[i], Col(B, j))]]
Proper(mo) == /\ MatMul(Transp(mo.M), mo.M) = << <<mo.n * mo.n, 0, 0>>, <<0, mo.n * mo.n, 0>>, <<0, 0, mo.n * mo.n>> >>
              /\ Det3(mo.M[1], mo.M[2], mo.M[3]) = mo.n * mo.n * mo.n
RotK(mo, k) == LET X == MatMul(MatMul(mo.M, KMat(k)), Transp(mo.M))
               IN <<X[1][1], X[2][2], X[3][3], X[1][2], X[1][3], X[2][3]>>       \* over n^2
Motion(d) == LET mo == Motions[Pick(HId(d), 4000, Len(Motions)) + 1]
             IN [M |-> mo.M, n |-> mo.n, t |-> [i \in 1..3 |-> Pick(HId(d), 4001 + i, 5) - 2]]
\* the rotated field: gradient M g over n, offset (p0 n - (M g) . t) over n
RotField(mo, F) == [g |-> MatVecI(mo.M, F.g), p0 |-> F.p0 * mo.n - VDot(MatVecI(mo.M, F.g), mo.t), den |-> mo.n]

\* ---- one configuration ---------------------------------------------------------------------------------------
\* C18: every grid of dimension < 3; C11: every second 2D grid (MPFA rotates the tensor into the plane of the grid)
Embedded(d) == Dim(d) < 3 /\ (Prop = "C18" \/ (Prop = "C11" /\ Dim(d) = 2 /\ Pick(HId(d), 3999, 2) = 1))
Config(d, ch, mask) ==
  LET kc == KCells(d, ch)
      mo == Motion(d)
      base == [id |-> HId(d), dim |-> Dim(d), kind |-> d.kind, mod |-> d.mod, var |-> d.var, n |-> d.n,
               axes |-> Axes(d), scale |-> Scale(d), pert |-> Pert(d), shear |-> Shear(d),
               kmode |-> ch[1], kc |-> kc, fields |-> Fields(Dim(d)), mask |-> mask]
  IN IF Embedded(d)
     THEN [base |-> base, embedded |-> TRUE, motion |-> mo, rotk |-> RotK(mo, kc[1]),
           rotfields |-> [j \in 1..Len(Fields(Dim(d))) |-> RotField(mo, Fields(Dim(d))[j])]]
     ELSE [base |-> base, embedded |-> FALSE]

Init == st = 0 /\ gd \in GridSet /\ cfg = <<>>
Next == /\ st = 0 /\ st' = 1 /\ gd' = gd
        /\ \E ch \in KChoices(gd), m \in MaskSet(gd) : cfg' = Config(gd, ch, m)
Spec == Init /\ [][Next]_vars

Emit == st = 1 => PrintT(ToJson(cfg))

\* ---- laws ----------------------------------------------------------------------------------------------------
LawCatalogue == \A dim \in 1..3 : \A i \in 1..Len(KCat(dim)) :
                   /\ KSPD(KCat(dim)[i]) /\ KBlock(dim, KCat(dim)[i])
                   /\ i <= NDiag(dim) => KDiag(KCat(dim)[i])
                   /\ (dim = 3 /\ i \in 4..6) => \E a, b \in 1..9 : a # b /\ KCat(3)[i] = TITensor(i - 3, a, b)
LawMotions == \A i \in 1..Len(Motions) : Proper(Motions[i])
\* n . K g is invariant: (M nu) . (M K M^T) (M g) = n^4 (nu . K g) for the catalogue tensors and some vectors
LawInvariance == \A i \in 1..Len(Motions) : \A dim \in 1..2 : \A j \in 1..Len(KCat(dim)) :
   \A nu \in {<<1, 0, 0>>, <<0, 1, 0>>, <<2, -1, 0>>} : \A g \in {<<1, 0, 0>>, <<1, -2, 0>>, <<3, 2, 0>>} :
     LET mo == Motions[i]  k == KCat(dim)[j] IN
       mo.n < 40 =>
         VDot(MatVecI(mo.M, nu), MatVecI(KMat(RotK(mo, k)), MatVecI(mo.M, g)))
           = mo.n * mo.n * mo.n * mo.n * VDot(nu, MatVecI(KMat(k), g))
\* the three laws above do not depend on the state: TLC evaluates them once
ASSUME LawCatalogue /\ LawMotions /\ LawInvariance
LawSizes == st = 1 =>
   LET b == cfg.base IN
     /\ Len(b.kc) = NumCells(gd) /\ Len(b.mask) = NumBnd(gd) /\ (\E i \in 1..Len(b.mask) : b.mask[i] = 1)
     /\ b.pert # <<>> => Len(b.pert) = NumNodes(gd)
     /\ \A i \in 1..Len(b.axes) : \A j \in 1..(Len(b.axes[i]) - 1) : b.axes[i][j] < b.axes[i][j + 1]
     /\ b.fields[1].g = <<0, 0, 0>>
=============================================================================
