---------------------------- MODULE ClipFamilies ----------------------------
(***************************************************************************)
(* C44 input families (spec -> code).  One state per call of               *)
(*   lines_by_polygon      lattice segments (single calls, and calls with   *)
(*                         three tagged segments) against a catalogue of    *)
(*                         convex / non-convex lattice polygons; segments   *)
(*                         running along the boundary are left out          *)
(*                         (OverlapsBoundary, the exclusion of the property)*)
(*   polygons_by_polyhedron a CONVEX planar lattice polygon (the documented *)
(*                         domain: polygons_3d treats non-convex polygons   *)
(*                         wrongly by its own docstring) against every cell *)
(*                         of a convex tiling (8 cubes / 6 Kuhn tetrahedra) *)
(*                         of a box that contains it; cubes of equal extent *)
(*                         and boxes with extents 2, 4, 6 in every axis     *)
(*                         order (cubic and non-cubic cells, mirrored too)  *)
(* Model law LawCover: the inside intervals of a segment whose both end    *)
(* points are strictly inside a CONVEX polygon are exactly {(0,1)}.        *)
(***************************************************************************)
EXTENDS Clip, Json

CONSTANTS Fns, Big

ClipPolys == <<
  << <<0,0>>, <<4,0>>, <<4,4>>, <<0,4>> >>,                                        \* square
  << <<0,0>>, <<3,0>>, <<4,2>>, <<2,4>>, <<0,3>> >>,                               \* convex pentagon
  << <<0,0>>, <<4,0>>, <<4,2>>, <<2,2>>, <<2,4>>, <<0,4>> >>,                      \* L
  << <<0,0>>, <<4,0>>, <<4,4>>, <<0,4>>, <<2,2>> >>,                               \* dart
  << <<0,0>>, <<6,0>>, <<6,4>>, <<4,4>>, <<4,2>>, <<2,2>>, <<2,4>>, <<0,4>> >>,    \* U
  << <<0,4>>, <<2,2>>, <<4,4>>, <<6,2>>, <<4,0>>, <<2,1>>, <<0,0>> >> >>           \* zig-zag, clockwise
Coarse == {-1, 1, 2, 4, 5, 7}
EndPts == IF Big THEN (-1..7) \X (-1..7) ELSE Coarse \X {-1, 1, 2, 4, 5}
\* unordered pairs in one orientation plus a few reversed ones
Less(p, q) == p[1] < q[1] \/ (p[1] = q[1] /\ p[2] < q[2])
SegPairs == {ab \in EndPts \X EndPts : ab[1] # ab[2] /\ (Less(ab[1], ab[2]) \/ (ab[1][1] + ab[2][2]) % 5 = 0)}
Triples == {<< <<1,5>>, <<5,1>>, <<-1,2>>, <<7,2>>, <<1,1>>, <<1,3>> >>,
            << <<-1,-1>>, <<4,4>>, <<3,1>>, <<3,5>>, <<7,5>>, <<5,7>> >>,
            << <<1,1>>, <<3,1>>, <<5,-1>>, <<5,5>>, <<-1,3>>, <<7,3>> >>}

\* cells of the tilings
Quad(a, b, c, d) == <<a, b, c, d>>
Box(x0, y0, z0, x1, y1, z1) == <<
  Quad(<<x0,y0,z0>>, <<x1,y0,z0>>, <<x1,y1,z0>>, <<x0,y1,z0>>), Quad(<<x0,y0,z1>>, <<x1,y0,z1>>, <<x1,y1,z1>>, <<x0,y1,z1>>),
  Quad(<<x0,y0,z0>>, <<x1,y0,z0>>, <<x1,y0,z1>>, <<x0,y0,z1>>), Quad(<<x0,y1,z0>>, <<x1,y1,z0>>, <<x1,y1,z1>>, <<x0,y1,z1>>),
  Quad(<<x0,y0,z0>>, <<x0,y1,z0>>, <<x0,y1,z1>>, <<x0,y0,z1>>), Quad(<<x1,y0,z0>>, <<x1,y1,z0>>, <<x1,y1,z1>>, <<x1,y0,z1>>) >>
Tetra(a, b, c, d) == << <<a, b, c>>, <<a, b, d>>, <<a, c, d>>, <<b, c, d>> >>
Cubes8(c) == [k \in 1..8 |-> LET i == (k - 1) % 2  j == ((k - 1) \div 2) % 2  l == (k - 1) \div 4
                             IN Box(IF i = 0 THEN -2 ELSE c, IF j = 0 THEN -2 ELSE c, IF l = 0 THEN -2 ELSE c,
                                    IF i = 0 THEN c ELSE 6, IF j = 0 THEN c ELSE 6, IF l = 0 THEN c ELSE 6)]
Unit(k) == IF k = 1 THEN <<1,0,0>> ELSE IF k = 2 THEN <<0,1,0>> ELSE <<0,0,1>>
Add3(a, b) == <<a[1] + b[1], a[2] + b[2], a[3] + b[3]>>
Perm3 == {<<1,2,3>>, <<1,3,2>>, <<2,1,3>>, <<2,3,1>>, <<3,1,2>>, <<3,2,1>>}
Kuhn(o, s) == LET T(pi) == Tetra(o, Add3(o, VScale(s, Unit(pi[1]))),
                                 Add3(Add3(o, VScale(s, Unit(pi[1]))), VScale(s, Unit(pi[2]))), Add3(o, <<s, s, s>>))
              IN <<T(<<1,2,3>>), T(<<1,3,2>>), T(<<2,1,3>>), T(<<2,3,1>>), T(<<3,1,2>>), T(<<3,2,1>>)>>
Tilings == << Cubes8(2), Cubes8(1), Kuhn(<<-1,-1,-1>>, 6), Kuhn(<<-2,-1,0>>, 7) >>

Frames3 == << [o |-> <<0,0,1>>, e1 |-> <<1,0,0>>, e2 |-> <<0,1,0>>], [o |-> <<0,0,0>>, e1 |-> <<1,0,0>>, e2 |-> <<0,1,1>>],
              [o |-> <<0,0,0>>, e1 |-> <<1,0,1>>, e2 |-> <<0,1,1>>], [o |-> <<3,0,0>>, e1 |-> <<0,1,0>>, e2 |-> <<-1,0,1>>],
              [o |-> <<1,1,0>>, e1 |-> <<1,0,0>>, e2 |-> <<0,0,1>>] >>
Embed(fr, q) == <<fr.o[1] + q[1] * fr.e1[1] + q[2] * fr.e2[1], fr.o[2] + q[1] * fr.e1[2] + q[2] * fr.e2[2],
                  fr.o[3] + q[1] * fr.e1[3] + q[2] * fr.e2[3]>>
Flat3 == << << <<0,0>>, <<3,0>>, <<0,3>> >>, << <<0,0>>, <<3,0>>, <<3,3>>, <<0,3>> >>, << <<1,0>>, <<3,1>>, <<2,3>>, <<0,2>> >>,
            << <<0,0>>, <<2,0>>, <<3,2>>, <<1,3>>, <<0,2>> >>, << <<1,0>>, <<2,0>>, <<3,1>>, <<3,2>>, <<2,3>>, <<1,3>>, <<0,2>>, <<0,1>> >>,
            << <<0,1>>, <<3,0>>, <<1,3>> >> >>                      \* convex only: polygons_3d does not support non-convex polygons
Poly3Ids == {fp \in (1..Len(Frames3)) \X (1..Len(Flat3)) : (fp[1] = 3 => fp[2] = 1) /\ (Big \/ (fp[1] + fp[2]) % 2 = 0)}
Poly3(fp) == [i \in 1..Len(Flat3[fp[2]]) |-> Embed(Frames3[fp[1]], Flat3[fp[2]][i])]
Shifts == IF Big THEN {<<0,0,0>>, <<1,0,0>>, <<0,1,0>>, <<0,0,-1>>} ELSE {<<0,0,0>>}
ShiftP(poly, d) == [i \in 1..Len(poly) |-> Add3(poly[i], d)]
\* the plane of the polygon is not the plane of a face of a cell of the tiling
FaceInPlane(poly, face) == \A i \in 1..Len(face) : Height(poly, face[i], 1) = 0
GenericPlane(poly, tiling) == \A c \in 1..Len(tiling) : \A f \in 1..Len(tiling[c]) : ~FaceInPlane(poly, tiling[c][f])

\* ---- anisotropic ("tall") regions: a box with pairwise different extents 2, 4, 6 in every axis order, optionally
\* mirrored through the origin, tiled by cubic cells (side 2) or by non-cubic cells of different sizes; small polygons in
\* axis planes x_c = odd constant and in tilted planes, shifted through every third of every axis
AxisPerms == <<<<1,2,3>>, <<1,3,2>>, <<2,1,3>>, <<2,3,1>>, <<3,1,2>>, <<3,2,1>>>>
BreaksOf(kind, k) == IF kind = 1 THEN (IF k = 1 THEN <<0, 2>> ELSE IF k = 2 THEN <<0, 2, 4>> ELSE <<0, 2, 4, 6>>)
                     ELSE (IF k = 1 THEN <<0, 2>> ELSE IF k = 2 THEN <<0, 1, 4>> ELSE <<0, 2, 6>>)
GridCells(bx, by, bz, sg) ==
  LET nx == Len(bx) - 1  ny == Len(by) - 1  nz == Len(bz) - 1
  IN [k \in 1..(nx * ny * nz) |->
        LET i == ((k - 1) % nx) + 1  j == (((k - 1) \div nx) % ny) + 1  l == ((k - 1) \div (nx * ny)) + 1
        IN Box(sg * bx[i], sg * by[j], sg * bz[l], sg * bx[i + 1], sg * by[j + 1], sg * bz[l + 1])]
TallTiling(pi, kind, sg) == GridCells(BreaksOf(kind, pi[1]), BreaksOf(kind, pi[2]), BreaksOf(kind, pi[3]), sg)
SmallFlat == << << <<0,0>>, <<2,0>>, <<0,2>> >>, << <<1,0>>, <<2,1>>, <<1,2>>, <<0,1>> >>,
                << <<0,1>>, <<2,0>>, <<1,2>> >>, << <<0,0>>, <<2,0>>, <<2,1>>, <<0,2>> >> >>
\* flat point q placed with its first coordinate on axis a, second on axis b, constant cv on axis c (tilted: + q[2])
Place(q, a, b, c, cv, sa, sb, tilt, sg) ==
  [k \in 1..3 |-> sg * (IF k = a THEN q[1] + sa ELSE IF k = b THEN q[2] + sb ELSE cv + (IF tilt THEN q[2] ELSE 0))]
PlacePoly(f, a, b, c, cv, sa, sb, tilt, sg) == [i \in 1..Len(SmallFlat[f]) |-> Place(SmallFlat[f][i], a, b, c, cv, sa, sb, tilt, sg)]
AxisTriples == {<<1,2,3>>, <<1,3,2>>, <<2,3,1>>}            \* <<a, b, c>>
\* <<axis order, tiling kind, mirror sign, <<a, b, c>>, flat polygon, constant on c, shift on a, shift on b, tilted>>
TallCases ==
  IF Big
  THEN {w \in (1..6) \X {1, 2} \X {1, -1} \X AxisTriples \X (1..Len(SmallFlat)) \X (0..5) \X (0..4) \X (0..4) \X BOOLEAN :
          /\ (w[9] => w[5] <= 2) /\ (w[5] + w[6] + w[7] + w[8]) % 3 = 0 /\ (w[3] = 1 \/ (w[1] + w[2]) % 2 = 0)}
  ELSE {<<v[1], (v[1] % 2) + 1, IF v[1] % 3 = 0 THEN -1 ELSE 1, v[2], ((v[3] + v[4] + v[5]) % Len(SmallFlat)) + 1, v[3], v[4], v[5], FALSE>> :
          v \in {u \in (1..6) \X AxisTriples \X (0..5) \X (0..4) \X (0..4) : (u[4] + u[5]) % 2 = 0}}
TallPoly(w) == PlacePoly(w[5], w[4][1], w[4][2], w[4][3], w[6], w[7], w[8], w[9], w[3])
TallCells(w) == TallTiling(AxisPerms[w[1]], w[2], w[3])

VARIABLE inp
Start == [fn |-> "start"]
Init == inp = Start
Inputs(fn) ==
  CASE fn = "lines_by_polygon" ->
         {[fn |-> fn, poly |-> ClipPolys[k], pts |-> <<ab[1], ab[2]>>, edges |-> << <<0, 1, 7>> >>] :
             <<k, ab>> \in {w \in (1..Len(ClipPolys)) \X SegPairs : ~OverlapsBoundary(ClipPolys[w[1]], w[2][1], w[2][2])}}
         \cup {[fn |-> fn, poly |-> ClipPolys[k], pts |-> t, edges |-> << <<0, 1, 11>>, <<3, 2, 12>>, <<4, 5, 13>> >>] :
             <<k, t>> \in {w \in (1..Len(ClipPolys)) \X Triples :
                             \A e \in {<<1,2>>, <<4,3>>, <<5,6>>} : ~OverlapsBoundary(ClipPolys[w[1]], w[2][e[1]], w[2][e[2]])}}
    [] fn = "polygons_by_polyhedron" ->
         {[fn |-> fn, poly |-> ShiftP(Poly3(fp), d), cells |-> Tilings[t]] :
             <<fp, t, d>> \in {w \in Poly3Ids \X (1..Len(Tilings)) \X Shifts :
                                 GenericPlane(ShiftP(Poly3(w[1]), w[3]), Tilings[w[2]]) /\ Covers(Tilings[w[2]], ShiftP(Poly3(w[1]), w[3])) /\ (Big \/ w[2] \in {1, 3})}}
         \cup {[fn |-> fn, poly |-> TallPoly(w), cells |-> TallCells(w)] :
                 w \in {v \in TallCases : Covers(TallCells(v), TallPoly(v)) /\ GenericPlane(TallPoly(v), TallCells(v))}}
    [] OTHER -> {}
Next == inp = Start /\ \E fn \in Fns : inp' \in Inputs(fn)
Spec == Init /\ [][Next]_inp
Emit == inp = Start \/ PrintT(ToJson(inp))

LawCover == inp # Start /\ inp.fn = "lines_by_polygon" /\ Len(inp.edges) = 1 /\ ConvexCcw(inp.poly)
              /\ AllLeft(inp.poly, inp.pts[1]) /\ AllLeft(inp.poly, inp.pts[2])
                => InsideIntervals(inp.poly, inp.pts[1], inp.pts[2]) = {<<RZero, ROne>>}
=============================================================================
