----------------------------- MODULE Saturation -----------------------------
(***************************************************************************)
(* C42  Phase saturations and fraction derivatives are consistent.         *)
(*                                                                         *)
(* Reference semantics (exact rational arithmetic) of                      *)
(*   porepy.compositional.utils.compute_saturations                        *)
(*   porepy.compositional.utils.chainrule_fractional_derivatives           *)
(*   porepy.compositional.utils.normalize_rows                             *)
(*                                                                         *)
(* Saturations.  Phase fractions y_j = k_j / N on the simplex (k a         *)
(* composition of N into n parts, zeros = vanishing phases, k_j = N = a    *)
(* saturated phase), integer densities rho_j > 0.  The phase mass          *)
(* conservation (sum_k s_k rho_k) y_j = rho_j s_j with sum_k s_k = 1 has   *)
(* the closed-form solution                                                *)
(*     s_j = (y_j / rho_j) / sum_k (y_k / rho_k)                           *)
(*         = k_j P_j / L,   P_j = prod_{l # j} rho_l,  L = sum_i k_i P_i   *)
(* (SatRef).  Property clauses = the laws LawNonNeg, LawSumOne,            *)
(* LawReproduce; they are checked here on the reference for every lattice  *)
(* point (design level) and by J_Saturation on what the real code returns. *)
(*                                                                         *)
(* Chain rule.  Normalised fractions xn_i = x_i / S, S = sum_j x_j, with   *)
(* x_i = k_i / N.  Jac(i, j) = d xn_i / d x_j = delta_ij / S - x_i / S^2.  *)
(* LawJacIsDerivative shows by an exact identity on difference quotients   *)
(* that Jac is the derivative of the composed function:                    *)
(*   (xn_i(x + t e_j) - xn_i(x)) / t = Jac(i, j) * S / (S + t)  for t > 0. *)
(* ChainRef(df, k, N): the last n entries of the gradient are multiplied   *)
(* by Jac (row vector times matrix), the leading ones are unchanged.       *)
(*                                                                         *)
(* Row normalisation.  NormRef(row) = row / sum(row); LawRowSumOne.        *)
(*                                                                         *)
(* Pure operators only; SaturationEnum.tla enumerates the input lattices   *)
(* and checks the laws on the reference; J_Saturation.tla judges the code. *)
(***************************************************************************)
EXTENDS Rat, FiniteSets, Json, TLC

CONSTANTS MaxDen     \* every reference value has a denominator <= MaxDen (checked: LawDen in SaturationEnum)

\* ---------------------------------------------------------------- generic helpers
RECURSIVE SumSeq(_)
SumSeq(s) == IF s = <<>> THEN 0 ELSE Head(s) + SumSeq(Tail(s))
RECURSIVE ProdExcept(_, _, _)
\* product of s[l] for l # j, l >= i
ProdExcept(s, j, i) == IF i > Len(s) THEN 1
                       ELSE (IF i = j THEN 1 ELSE s[i]) * ProdExcept(s, j, i + 1)
RECURSIVE Comps(_, _)
\* compositions of N into n non-negative parts
Comps(n, N) == IF n = 1 THEN {<<N>>}
               ELSE UNION {{<<k>> \o c : c \in Comps(n - 1, N - k)} : k \in 0..N}
Tuples(n, S) == [1..n -> S]

\* ---------------------------------------------------------------- saturations
SatL(k, rho) == SumSeq([i \in 1..Len(k) |-> k[i] * ProdExcept(rho, i, 1)])
SatRef(k, rho) == [j \in 1..Len(k) |-> RNorm(k[j] * ProdExcept(rho, j, 1), SatL(k, rho))]

\* the three laws of the property, for an arbitrary candidate s (sequence of rationals);
\* y_j = k_j / N.  Only evaluated on candidates whose denominators are small (see J_Saturation).
NonNeg(s) == \A j \in 1..Len(s) : s[j][1] >= 0
SumOne(s) == REq(RSum(s), ROne)
Reproduce(s, k, N, rho) ==
  LET w == RSum([j \in 1..Len(s) |-> RMul(s[j], R(rho[j]))])     \* sum_k s_k rho_k
  IN \A j \in 1..Len(s) : REq(RMul(<<k[j], N>>, w), RMul(s[j], R(rho[j])))

LawNonNegOf(k, rho) == NonNeg(SatRef(k, rho))
LawSumOneOf(k, rho) == SumOne(SatRef(k, rho))
LawReproduceOf(k, N, rho) == Reproduce(SatRef(k, rho), k, N, rho)
LawDenOf(s) == \A j \in 1..Len(s) : s[j][2] <= MaxDen /\ Abs(s[j][1]) <= 1000 * MaxDen

\* ---------------------------------------------------------------- chain rule
\* x_i = k_i / N, K = sum k, S = K / N
\* Jac(i, j) = delta_ij / S - x_i / S^2 = N (delta_ij K - k_i) / K^2
Jac(k, N, i, j) == RNorm(N * ((IF i = j THEN SumSeq(k) ELSE 0) - k[i]), SumSeq(k) * SumSeq(k))
\* normalised fraction i at the point x + t e_j (t = tn/td)
XnAt(k, N, i, j, t) ==
  LET xi == RAdd(<<k[i], N>>, IF i = j THEN t ELSE RZero)
      S  == RAdd(<<SumSeq(k), N>>, t)
  IN RDiv(xi, S)
LawJacIsDerivativeOf(k, N, t) ==
  \A i \in 1..Len(k), j \in 1..Len(k) :
    LET S  == <<SumSeq(k), N>>
        dq == RDiv(RSub(XnAt(k, N, i, j, t), XnAt(k, N, i, j, RZero)), t)
    IN REq(dq, RMul(Jac(k, N, i, j), RDiv(S, RAdd(S, t))))
\* gradient after the chain rule; df has Len(k) + e entries, the last Len(k) w.r.t. normalised fractions
ChainRef(df, k, N) ==
  LET n == Len(k)
      e == Len(df) - n
  IN [p \in 1..Len(df) |->
        IF p <= e THEN R(df[p])
        ELSE RSum([i \in 1..n |-> RMul(R(df[e + i]), Jac(k, N, i, p - e))])]

\* ---------------------------------------------------------------- row normalisation
NormRef(row) == [j \in 1..Len(row) |-> RNorm(row[j], SumSeq(row))]
LawRowSumOneOf(row) == REq(RSum(NormRef(row)), ROne)

=============================================================================
