------------------------------ MODULE FracMesh ------------------------------
(***************************************************************************)
(* C25  Fractured mixed-dimensional grids are geometrically conforming.     *)
(*                                                                         *)
(* PART 1 - lattice networks (exact, unique answer).                        *)
(* A network N = [dim |-> 2 | 3, box |-> <<nx, ny, nz>> (nz = 0 if dim = 2),*)
(* fracs |-> << <<lo, hi>>, ... >>] lives on the unit lattice of the box    *)
(* [0,nx] x [0,ny] x [0,nz]; a fracture is the axis-aligned closed box      *)
(* [lo, hi] with exactly dim-1 extended directions (a segment / rectangle   *)
(* along grid lines / planes).  Every lattice entity (point, unit edge,     *)
(* unit square, unit cube) is named by its DOUBLED CENTRE q: the number of  *)
(* odd coordinates of q is the dimension of the entity, and s is a facet of *)
(* p iff s and p differ by 1 in exactly one coordinate.  The conforming     *)
(* mixed-dimensional grid of N is then                                      *)
(*   level dim   : the unit cubes of the box (host)                          *)
(*   level dim-1 : the unit cells of the fractures (one grid per fracture)   *)
(*   level dim-2 : the cells contained in >= 2 fractures (intersection      *)
(*                 points in 2D, intersection lines in 3D)                   *)
(*   level dim-3 : (3D) the points where intersection lines meet (a line =  *)
(*                 a straight run of level dim-2 cells lying in the same    *)
(*                 set of fractures)                                         *)
(* and a lower-dimensional cell s is coupled to exactly those cells p of    *)
(* the next level of which it is a facet - through one split face of the    *)
(* grid of p per such p: two (one on each side) where the grid of p passes  *)
(* through s, one where it ends at s (T / L configurations).                *)
(* Admissible: fractures inside the box, not inside the domain boundary,    *)
(* pairwise without a common (dim-1)-cell (overlapping / duplicated         *)
(* fractures are outside the family: cart_grid raises on them).             *)
(*                                                                         *)
(* PART 2 - validity predicates on an exported md-grid O (any family).       *)
(* All floats of the real grid are exported as fixed-point integers in      *)
(* units of 2^-26 (FX); 0-based indices as in porepy.                       *)
(* Vectors are stored FLAT (x1,y1,z1,x2,..): TLC's JSON reader costs per    *)
(* element, so only what the clauses read is exported.                      *)
(*   O.sds[i+1]  = [dim, nc, nf, vol, cc (flat), fc (flat, ALL faces),      *)
(*                  tfrac : faces tagged fracture_faces,                     *)
(*                  fsel  : the faces that occur in a mortar map of an       *)
(*                          interface whose primary grid this is, and per    *)
(*                          such face k: sfa[k] area, sfn (flat) normal,     *)
(*                          sncf[k] number of cells of the face, scell[k],   *)
(*                          ssign[k] its first cell and the cell_faces sign, *)
(*                          spts[sptr[k]..sptr[k+1]) (flat) its node coords, *)
(*                  cpts[cptr[c]..cptr[c+1]) (flat) the node coordinates of  *)
(*                          cell c (lower-dimensional grids of dim >= 1)]    *)
(*   O.intfs[..] = [pri, sec, nsides, nm,                                    *)
(*                  pmr, pmf, pmw : rows (mortar cells, sorted), columns     *)
(*                       (primary faces) and values of primary_to_mortar_int,*)
(*                  smr, smc, smw : the same for secondary_to_mortar_int,    *)
(*                  mside : mortar cell -> side (1..nsides), mvol]           *)
(* The seven clauses of the property are the operators                      *)
(*   CoupledBothSides, FacesCoincide, OppositeNormals, TagsExact,           *)
(*   HostVolumeOK, OnFractures, MortarMatch                                 *)
(* each parametrised by a tolerance t in units of 2^-26 (t = 0: exact, used *)
(* for the lattice family whose values are all multiples of 1/2).  For the  *)
(* lattice family LatticeCells / LatticePairs additionally compare the real *)
(* grid with the unique expected structure of PART 1; for SCALED lattices   *)
(* (n[i] cells on [0, L[i]], L rational: Cartesian grids with physical      *)
(* dimensions / target cell sizes) the same comparison is made through the  *)
(* scaled coordinate map ScaledLoc, within the float tolerance.             *)
(***************************************************************************)
EXTENDS Integers, Sequences, FiniteSets, SequencesExt, TLC

FX == 67108864            \* 2^26: one unit of the fixed-point export is 2^-26
HALF == 33554432          \* 2^25 = 1/2

AbsI(x) == IF x < 0 THEN -x ELSE x
SumSeq(s) == FoldLeft(LAMBDA a, b : a + b, 0, s)
RECURSIVE GCDI(_, _)
GCDI(a, b) == IF b = 0 THEN AbsI(a) ELSE GCDI(AbsI(b), AbsI(a) % AbsI(b))

(* ======================= PART 1: lattice networks ======================= *)
Zero3 == <<0, 0, 0>>
NOdd(q) == (q[1] % 2) + (q[2] % 2) + (q[3] % 2)
Box2(lo, hi) == {<<x, y, z>> : x \in (2 * lo[1])..(2 * hi[1]), y \in (2 * lo[2])..(2 * hi[2]),
                               z \in (2 * lo[3])..(2 * hi[3])}
CellsIn(lo, hi, j) == {q \in Box2(lo, hi) : NOdd(q) = j}
Plus(q, i, s) == [q EXCEPT ![i] = @ + s]
Nbrs(q) == {Plus(q, i, s) : i \in 1..3, s \in {-1, 1}}

\* one fracture f = <<lo, hi>> of a dim-dimensional box
FracOK(dim, box, f) ==
  LET lo == f[1]  hi == f[2] IN
  /\ \A i \in 1..3 : 0 <= lo[i] /\ lo[i] <= hi[i] /\ hi[i] <= box[i]
  /\ Cardinality({i \in 1..3 : lo[i] < hi[i]}) = dim - 1
  \* not inside the boundary of the domain (it may touch it with its own boundary)
  /\ \A i \in 1..dim : lo[i] = hi[i] => (0 < lo[i] /\ lo[i] < box[i])

NF(N) == Len(N.fracs)
FracCells(N, k) == CellsIn(N.fracs[k][1], N.fracs[k][2], N.dim - 1)
Closed(N, k) == Box2(N.fracs[k][1], N.fracs[k][2])
Admissible(N) ==
  /\ N.dim \in {2, 3} /\ (N.dim = 2 => N.box[3] = 0) /\ \A i \in 1..N.dim : N.box[i] >= 1
  /\ \A k \in 1..NF(N) : FracOK(N.dim, N.box, N.fracs[k])
  /\ \A k, l \in 1..NF(N) : k < l => FracCells(N, k) \cap FracCells(N, l) = {}

Host(N) == CellsIn(Zero3, N.box, N.dim)
AllFracCells(N) == UNION {FracCells(N, k) : k \in 1..NF(N)}
Codim2(N) == {q \in CellsIn(Zero3, N.box, N.dim - 2) :
                Cardinality({k \in 1..NF(N) : q \in Closed(N, k)}) >= 2}
\* (3D) 0-d points: an intersection LINE is a maximal straight run of level dim-2 cells contained in the SAME set
\* of fractures (so that all its cells have the same neighbouring grids); a lattice point is a 0-d grid where
\* such lines meet, i.e. unless it is passed by exactly one line (two collinear cells with the same fractures)
EdgeFracs(N, e) == {k \in 1..NF(N) : e \in Closed(N, k)}
IncLines(L, q) == {d \in (1..3) \X {-1, 1} : Plus(q, d[1], d[2]) \in L}
PassedByOneLine(N, L, q) ==
  \E i \in 1..3 : /\ IncLines(L, q) = {<<i, 1>>, <<i, -1>>}
                  /\ EdgeFracs(N, Plus(q, i, 1)) = EdgeFracs(N, Plus(q, i, -1))
Codim3(N) == IF N.dim < 3 THEN {}
             ELSE LET L == Codim2(N) IN
                  {q \in CellsIn(Zero3, N.box, 0) : Cardinality(IncLines(L, q)) >= 2 /\ ~PassedByOneLine(N, L, q)}
Level(N, j) == IF j = N.dim THEN Host(N)
               ELSE IF j = N.dim - 1 THEN AllFracCells(N)
               ELSE IF j = N.dim - 2 THEN Codim2(N)
               ELSE IF j = N.dim - 3 THEN Codim3(N) ELSE {}
\* the expected coupling: <<s, p>>, s a cell of level j-1, p a cell of level j, s a facet of p
PairsAt(N, j) == LET U == Level(N, j) IN UNION {{<<s, p>> : p \in Nbrs(s) \cap U} : s \in Level(N, j - 1)}
Pairs(N) == UNION {PairsAt(N, j) : j \in 1..N.dim}

\* model laws (checked by TLC on every enumerated network)
LawFractureTwoSided(N) == \A s \in AllFracCells(N) : Cardinality(Nbrs(s) \cap Host(N)) = 2
LawIntersections(N) ==
  /\ \A s \in Codim2(N) : Cardinality(Nbrs(s) \cap AllFracCells(N)) \in 2..4
  /\ \A s \in Codim3(N) : Cardinality(Nbrs(s) \cap Codim2(N)) \in 2..6
LawLevelsDisjoint(N) == \A j \in 0..N.dim : \A q \in Level(N, j) : NOdd(q) = j
\* statistics of a network (coverage keys only): numbers of X / T / L-or-end-to-end intersections cells
Degree(N, s) == Cardinality(Nbrs(s) \cap AllFracCells(N))
Stats(N) == [nf |-> NF(N), n2 |-> Cardinality(Codim2(N)), n3 |-> Cardinality(Codim3(N)),
             x |-> Cardinality({s \in Codim2(N) : Degree(N, s) = 4}),
             t |-> Cardinality({s \in Codim2(N) : Degree(N, s) = 3}),
             l |-> Cardinality({s \in Codim2(N) : Degree(N, s) = 2}),
             bnd |-> \E k \in 1..NF(N) : \E i \in 1..N.dim :
                        N.fracs[k][1][i] < N.fracs[k][2][i] /\ (N.fracs[k][1][i] = 0 \/ N.fracs[k][2][i] = N.box[i]),
             pairs |-> Cardinality(Pairs(N))]

(* ================ PART 2: validity of an exported md-grid ================= *)
SD(O, i) == O.sds[i + 1]
Close(a, b, t) == AbsI(a - b) <= t
Close3(u, v, t) == Close(u[1], v[1], t) /\ Close(u[2], v[2], t) /\ Close(u[3], v[3], t)
Sub3(u, v) == <<u[1] - v[1], u[2] - v[2], u[3] - v[3]>>
Scale3(k, u) == <<k * u[1], k * u[2], k * u[3]>>
Div3(u, d) == <<u[1] \div d, u[2] \div d, u[3] \div d>>
DotI(u, v) == u[1] * v[1] + u[2] * v[2] + u[3] * v[3]
CrossI(a, b) == <<a[2] * b[3] - a[3] * b[2], a[3] * b[1] - a[1] * b[3], a[1] * b[2] - a[2] * b[1]>>
Norm1(u) == AbsI(u[1]) + AbsI(u[2]) + AbsI(u[3])
\* slack of a comparison carried out on values divided by d (floor division loses up to one unit)
Slack(t, d) == IF t = 0 THEN 0 ELSE (t \div d) + 2

\* ---- flat storage -----------------------------------------------------------------------------------
V3(flat, i) == <<flat[3 * i + 1], flat[3 * i + 2], flat[3 * i + 3]>>          \* i-th vector, 0-based
CC(G, c) == V3(G.cc, c)
FC(G, f) == V3(G.fc, f)
PtsOf(flat, ptr, k) == {V3(flat, j) : j \in ptr[k]..(ptr[k + 1] - 1)}        \* k 1-based position
\* position of face f among the selected faces of grid P (every coupled face is selected)
Sel(P, f) == CHOOSE k \in 1..Len(P.fsel) : P.fsel[k] = f
FaceArea(P, f) == P.sfa[Sel(P, f)]
FaceNormal(P, f) == V3(P.sfn, Sel(P, f) - 1)
NumCellsOf(P, f) == P.sncf[Sel(P, f)]
OwnerCell(P, f) == P.scell[Sel(P, f)]        \* the cell of a face with exactly one cell
OwnerSign(P, f) == P.ssign[Sel(P, f)]
FacePts(P, f) == PtsOf(P.spts, P.sptr, Sel(P, f))
CellPts(S, c) == IF S.dim = 0 THEN {CC(S, c)} ELSE PtsOf(S.cpts, S.cptr, c + 1)

\* ---- reading the mortar maps ------------------------------------------------------------------------
\* every mortar cell has exactly one primary face and one secondary cell, with weight 1
MortarOneToOne(I) ==
  /\ I.nm >= 1 /\ Len(I.pmr) = I.nm /\ Len(I.pmf) = I.nm /\ Len(I.pmw) = I.nm
  /\ Len(I.smr) = I.nm /\ Len(I.smc) = I.nm /\ Len(I.smw) = I.nm /\ Len(I.mside) = I.nm /\ Len(I.mvol) = I.nm
  /\ \A m \in 1..I.nm : /\ I.pmr[m] = m - 1 /\ I.smr[m] = m - 1
                         /\ I.pmw[m] = FX /\ I.smw[m] = FX
MF(I, m) == I.pmf[m]            \* primary face of mortar cell m (m is 1-based, the face 0-based)
MC(I, m) == I.smc[m]            \* secondary cell of mortar cell m
IndicesOK(O) ==
  \A I \in Range(O.intfs) :
    /\ I.pri \in 0..(Len(O.sds) - 1) /\ I.sec \in 0..(Len(O.sds) - 1)
    /\ \A m \in 1..I.nm : /\ MF(I, m) \in 0..(SD(O, I.pri).nf - 1) /\ MC(I, m) \in 0..(SD(O, I.sec).nc - 1)
                           /\ MF(I, m) \in Range(SD(O, I.pri).fsel)
\* the exported structure can be read at all: the meshing returned, the mortar maps are one-to-one
Readable(O) == O.err = "" /\ (\A I \in Range(O.intfs) : MortarOneToOne(I)) /\ IndicesOK(O)

MOf(I, c) == {m \in 1..I.nm : MC(I, m) = c}
CoupledFaces(I) == {MF(I, m) : m \in 1..I.nm}

\* ---- clause 1: each lower-dimensional cell is coupled to one split face of the host on each side,
\*      on one side only where the host grid ends at the cell -------------------------------------------
CoupledInterface(O, I) ==
  LET P == SD(O, I.pri)  S == SD(O, I.sec) IN
  /\ P.dim = S.dim + 1
  /\ Cardinality(CoupledFaces(I)) = I.nm                   \* a split face is coupled to one cell only
  /\ \A c \in 0..(S.nc - 1) :
       LET M == MOf(I, c)  F == {MF(I, m) : m \in M} IN
       /\ Cardinality(M) \in {1, 2}
       /\ \A f \in F : NumCellsOf(P, f) = 1                 \* coupled faces are split (internal boundary) faces
       /\ Cardinality(M) = 2 => /\ Cardinality({I.mside[m] : m \in M}) = 2
                                /\ Cardinality({OwnerCell(P, f) : f \in F}) = 2
\* all faces of the grid P that coincide with cell c of the grid S
FacesAt(P, S, c, t) == LET x == CC(S, c) IN {f \in 0..(P.nf - 1) : Close3(FC(P, f), x, t)}
CoupledTo(O, i, j, c) == UNION {{MF(I, m) : m \in MOf(I, c)} : I \in {I \in Range(O.intfs) : I.pri = i /\ I.sec = j}}
\* completeness: the coupled faces of c are ALL faces of the higher-dimensional grid lying on c; so a cell
\* with one coupled face sits where that grid really ends, and touching grids are coupled
CoupledComplete(O, t) ==
  \A i, j \in 0..(Len(O.sds) - 1) :
     SD(O, i).dim = SD(O, j).dim + 1 =>
        \A c \in 0..(SD(O, j).nc - 1) : FacesAt(SD(O, i), SD(O, j), c, t) = CoupledTo(O, i, j, c)
CoupledBothSides(In, O, t) ==
  /\ Readable(O)
  /\ \A I \in Range(O.intfs) : CoupledInterface(O, I)
  /\ \A j \in 0..(Len(O.sds) - 1) : SD(O, j).dim < In.dim => \E I \in Range(O.intfs) : I.sec = j
  /\ \A a, b \in 1..Len(O.intfs) : (O.intfs[a].pri = O.intfs[b].pri /\ O.intfs[a].sec = O.intfs[b].sec) => a = b
  /\ CoupledComplete(O, t)

\* ---- clause 2: coupled faces coincide with the cell in centre and measure (and in their nodes) ----------
SameNodes(A, B, t) == (\A a \in A : \E b \in B : Close3(a, b, t)) /\ (\A b \in B : \E a \in A : Close3(a, b, t))
FacesCoincide(In, O, t) ==
  /\ Readable(O)
  /\ \A I \in Range(O.intfs) :
       LET P == SD(O, I.pri)  S == SD(O, I.sec) IN
       \A m \in 1..I.nm :
         LET f == MF(I, m)  c == MC(I, m) IN
         /\ Close3(FC(P, f), CC(S, c), t)
         /\ Close(FaceArea(P, f), S.vol[c + 1], t)
         /\ SameNodes(FacePts(P, f), CellPts(S, c), t)

\* ---- clause 3: the two coupled faces have opposite outward normals ---------------------------------------
OutNormal(P, f) == Scale3(OwnerSign(P, f), FaceNormal(P, f))
\* 'outward': away from the centre of the cell the face belongs to (factors coarsened to 2^-12 against overflow)
PointsAway(P, f) ==
  DotI(Div3(Sub3(FC(P, f), CC(P, OwnerCell(P, f))), 16384), Div3(OutNormal(P, f), 16384)) > 0
OppositeNormals(In, O, t) ==
  /\ Readable(O)
  /\ \A I \in Range(O.intfs) :
       LET P == SD(O, I.pri)  S == SD(O, I.sec) IN
       /\ \A f \in CoupledFaces(I) : NumCellsOf(P, f) = 1 /\ PointsAway(P, f)
       /\ \A c \in 0..(S.nc - 1) : \A m1, m2 \in MOf(I, c) :
            m1 < m2 => LET a == OutNormal(P, MF(I, m1))  b == OutNormal(P, MF(I, m2)) IN
                       Close3(a, Scale3(-1, b), t)

\* ---- clause 4: the fracture-face tags mark exactly the coupled faces --------------------------------------
TagsExact(In, O) ==
  /\ Readable(O)
  /\ \A i \in 0..(Len(O.sds) - 1) :
       Range(SD(O, i).tfrac) = UNION {CoupledFaces(I) : I \in {I \in Range(O.intfs) : I.pri = i}}

\* ---- clause 5: host volume = domain volume -------------------------------------------------------------------
SumTol(t, n) == IF t = 0 THEN 0 ELSE t + n           \* every exported value carries up to half a unit of rounding
HostVolumeOK(In, O, t) ==
  /\ O.err = ""
  /\ LET H == {i \in 0..(Len(O.sds) - 1) : SD(O, i).dim = In.dim} IN
     /\ Cardinality(H) = 1
     \* In.vol = <<num, den>>: the volume of the domain as a rational
     /\ \A i \in H : Close(SumSeq(SD(O, i).vol), (In.vol[1] * FX) \div In.vol[2], SumTol(t, SD(O, i).nc))

\* ---- clause 6: lower-dimensional cells lie on their fracture --------------------------------------------------
\* a fracture is its integer vertex list V (2 end points in 2D; 4 corners of a planar convex polygon, in order, in 3D)
OnSegment(V, x, t) ==
  LET a == V[1]  d == Sub3(V[2], V[1])
      w == Div3(Sub3(x, Scale3(FX, a)), 4)
      tol == Slack(t, 4) * Norm1(d)
  IN /\ Close(x[3], a[3] * FX, t)
     /\ AbsI(w[1] * d[2] - w[2] * d[1]) <= tol
     /\ -tol <= DotI(w, d) /\ DotI(w, d) <= DotI(d, d) * (FX \div 4) + tol
PolyNormal(V) == LET n == CrossI(Sub3(V[2], V[1]), Sub3(V[4], V[1]))
                     g == GCDI(GCDI(n[1], n[2]), n[3])
                 IN <<n[1] \div g, n[2] \div g, n[3] \div g>>
OnPolygon(V, x, t) ==
  LET n == PolyNormal(V)
      w == Div3(Sub3(x, Scale3(FX, V[1])), 16)
  IN /\ AbsI(DotI(n, w)) <= Slack(t, 16) * Norm1(n)
     /\ \A i \in 1..Len(V) :
          LET e == Sub3(V[IF i = Len(V) THEN 1 ELSE i + 1], V[i])
              u == Div3(Sub3(x, Scale3(FX, V[i])), 256)
          IN DotI(CrossI(e, u), n) >= -(Slack(t, 256) * 64 * Norm1(n))
OnFrac(In, k, x, t) == IF In.dim = 2 THEN OnSegment(In.fracs[k], x, t) ELSE OnPolygon(In.fracs[k], x, t)
\* squared measure of fracture k (segment: |b-a|^2; parallelogram spanned by the edges at V[1]: |e1 x e2|^2)
Measure2(In, k) == LET V == In.fracs[k] IN
                   IF In.dim = 2 THEN DotI(Sub3(V[2], V[1]), Sub3(V[2], V[1]))
                   ELSE LET n == CrossI(Sub3(V[2], V[1]), Sub3(V[4], V[1])) IN DotI(n, n)
\* the cells of grid G lie on fracture k and tile it: centres and nodes on k, total measure = measure of k
\* (compared squared, with the sum coarsened to 2^-11 against overflow: resolution 5e-4; exact for t = 0 on lattice networks)
GridOnFrac(In, G, k, t) ==
  /\ \A c \in 0..(G.nc - 1) : OnFrac(In, k, CC(G, c), t) /\ \A x \in CellPts(G, c) : OnFrac(In, k, x, t)
  /\ LET L == SumSeq(G.vol) \div 32768 IN
     AbsI(L * L - Measure2(In, k) * 4194304) <= (IF t = 0 THEN 0 ELSE 4 * L + 4)
OnFractures(In, O, t) ==
  /\ O.err = ""
  /\ LET FG == {i \in 0..(Len(O.sds) - 1) : SD(O, i).dim = In.dim - 1}
         K == 1..Len(In.fracs)
     IN /\ Cardinality(FG) = Len(In.fracs)
        /\ \A i \in FG : \E k \in K : GridOnFrac(In, SD(O, i), k, t)
        /\ \A k \in K : \E i \in FG : GridOnFrac(In, SD(O, i), k, t)
        \* cells of intersection grids lie on (at least) two fractures
        /\ \A i \in 0..(Len(O.sds) - 1) :
             SD(O, i).dim < In.dim - 1 =>
               \A c \in 0..(SD(O, i).nc - 1) : Cardinality({k \in K : OnFrac(In, k, CC(SD(O, i), c), t)}) >= 2

\* ---- clause 7: each mortar side matches the lower-dimensional cells in number and size --------------------
MortarMatch(In, O, t) ==
  /\ Readable(O)
  /\ \A I \in Range(O.intfs) :
       LET S == SD(O, I.sec) IN
       /\ I.nsides \in {1, 2} /\ I.nm = I.nsides * S.nc
       /\ \A k \in 1..I.nsides :
            LET M == {m \in 1..I.nm : I.mside[m] = k} IN
            Cardinality(M) = S.nc /\ {MC(I, m) : m \in M} = 0..(S.nc - 1)
       /\ \A m \in 1..I.nm : Close(I.mvol[m], S.vol[MC(I, m) + 1], t)

\* ---- lattice family: the real grid IS the expected one -----------------------------------------------------
OnLattice(x) == x[1] % HALF = 0 /\ x[2] % HALF = 0 /\ x[3] % HALF = 0
Loc(x) == <<x[1] \div HALF, x[2] \div HALF, x[3] \div HALF>>
\* The comparison is parametrised by the map Lc from a point to its doubled lattice coordinates and the test On
\* that the point is a lattice point (unit lattice: Loc / OnLattice; scaled lattice: ScaledLoc / ScaledOn).
LocSetW(G, Lc(_)) == {Lc(CC(G, c)) : c \in 0..(G.nc - 1)}
GridsOfDim(O, d) == {i \in 0..(Len(O.sds) - 1) : SD(O, i).dim = d}
SumNc(O, Is) == SumSeq([k \in 1..Len(O.sds) |-> IF (k - 1) \in Is THEN O.sds[k].nc ELSE 0])
LatticeCellsW(N, O, Lc(_), On(_)) ==
  /\ O.err = ""
  /\ \A i \in 0..(Len(O.sds) - 1) : SD(O, i).dim \in 0..N.dim /\ \A c \in 0..(SD(O, i).nc - 1) : On(CC(SD(O, i), c))
  \* one host grid: the unit cubes of the box
  /\ Cardinality(GridsOfDim(O, N.dim)) = 1
  /\ \A i \in GridsOfDim(O, N.dim) : LocSetW(SD(O, i), Lc) = Host(N) /\ SD(O, i).nc = Cardinality(Host(N))
  \* one grid per fracture: its unit cells
  /\ Cardinality(GridsOfDim(O, N.dim - 1)) = NF(N)
  /\ {LocSetW(SD(O, i), Lc) : i \in GridsOfDim(O, N.dim - 1)} = {FracCells(N, k) : k \in 1..NF(N)}
  /\ \A i \in GridsOfDim(O, N.dim - 1) : SD(O, i).nc = Cardinality(LocSetW(SD(O, i), Lc))
  \* intersection grids (their grouping into grids is not prescribed): every expected cell exactly once
  /\ \A d \in 0..(N.dim - 2) :
       /\ UNION {LocSetW(SD(O, i), Lc) : i \in GridsOfDim(O, d)} = Level(N, d)
       /\ SumNc(O, GridsOfDim(O, d)) = Cardinality(Level(N, d))
RealPairsW(O, Lc(_)) ==
  UNION {LET P == SD(O, I.pri)  S == SD(O, I.sec) IN
         {<<Lc(CC(S, MC(I, m))), Lc(CC(P, OwnerCell(P, MF(I, m))))>> : m \in 1..I.nm}
         : I \in Range(O.intfs)}
LatticePairsW(N, O, Lc(_)) ==
  /\ Readable(O)
  /\ \A I \in Range(O.intfs) : \A f \in CoupledFaces(I) : NumCellsOf(SD(O, I.pri), f) >= 1
  /\ RealPairsW(O, Lc) = Pairs(N)
  /\ SumSeq([k \in 1..Len(O.intfs) |-> O.intfs[k].nm]) = Cardinality(Pairs(N))
LatticeCells(N, O) == LatticeCellsW(N, O, Loc, OnLattice)
LatticePairs(N, O) == LatticePairsW(N, O, Loc)

\* ---- scaled lattices: n[i] cells on [0, L[i]], L[i] = num/den; sc[i] = <<n, num, den>> (<<0, 0, 1>>: flat direction) --
\* doubled lattice coordinate of x: 2 n x / L, rounded (x coarsened to 2^-22 against overflow)
ScY(x, s) == (x \div 16) * (2 * s[1] * s[3])
ScU(s) == s[2] * (FX \div 16)
ScLoc1(x, s) == IF s[1] = 0 THEN 0 ELSE (ScY(x, s) + ScU(s) \div 2) \div ScU(s)
ScOn1(x, s, t) == IF s[1] = 0 THEN AbsI(x) <= t
                  ELSE AbsI(ScY(x, s) - ScLoc1(x, s) * ScU(s)) <= ((t \div 16) + 2) * 2 * s[1] * s[3]
ScaledLoc(sc, x) == <<ScLoc1(x[1], sc[1]), ScLoc1(x[2], sc[2]), ScLoc1(x[3], sc[3])>>
ScaledOn(sc, x, t) == ScOn1(x[1], sc[1], t) /\ ScOn1(x[2], sc[2], t) /\ ScOn1(x[3], sc[3], t)
\* number of cells porepy documents for a target cell size cs = <<num, den>> on an extent L = <<num, den>>:
\* round(L / cs), at least one
RoundedCells(L, cs) == LET a == L[1] * cs[2]  b == L[2] * cs[1]
                           r == (2 * a + b) \div (2 * b) IN IF r < 1 THEN 1 ELSE r
=============================================================================
