#!/bin/sh
# Offline setup: nothing to build (TLA+ specs are interpreted by TLC, the harness is Python run by /venv).
# Verifies the tools the checks need and parses every specification once.
set -e
cd "$(dirname "$0")"
command -v java >/dev/null
test -f /opt/veriftools/tla/tla2tools.jar
/venv/bin/python -c "import porepy, numpy, scipy" 
mkdir -p evidence replays
LIB="$(pwd)/spec/lib:$(pwd)/spec/sys:$(pwd)/spec/ref:$(pwd)/spec/trace"
fail=0
for f in spec/lib/*.tla spec/sys/*.tla spec/ref/*.tla spec/trace/*.tla; do
  [ -f "$f" ] || continue
  if ! java -DTLA-Library="$LIB" -cp /opt/veriftools/tla/tla2tools.jar:/opt/veriftools/tla/CommunityModules-deps.jar tla2sany.SANY "$f" >/tmp/sany.$$ 2>&1; then
    echo "SANY warning (module under construction?): $f"; tail -3 /tmp/sany.$$
  fi
done
rm -f /tmp/sany.$$
[ $fail = 0 ] && echo "setup ok"
exit $fail
