#!/bin/sh
# Offline setup: nothing to build (TLA+ specs are interpreted by TLC, the harness is Python run by /venv).
# Verifies the tools the checks need and parses every specification once (eight at a time; a module that does not
# parse is reported, not fatal: the check that uses it fails with a machinery error of its own).
set -e
cd "$(dirname "$0")"
command -v java >/dev/null
test -f /opt/veriftools/tla/tla2tools.jar
/venv/bin/python -c "import porepy, numpy, scipy"
mkdir -p evidence replays
LIB="$(pwd)/spec/lib:$(pwd)/spec/sys:$(pwd)/spec/ref:$(pwd)/spec/trace"
export LIB
ls spec/lib/*.tla spec/sys/*.tla spec/ref/*.tla spec/trace/*.tla 2>/dev/null | xargs -P 8 -I{} sh -c '
  out=$(java -DTLA-Library="$LIB" -cp /opt/veriftools/tla/tla2tools.jar:/opt/veriftools/tla/CommunityModules-deps.jar tla2sany.SANY "{}" 2>&1) \
    || { echo "SANY warning (module under construction?): {}"; echo "$out" | tail -3; }' || true
echo "setup ok"
exit 0
