#!/usr/bin/env python3
"""Confirm and file a seeded change (a mutant of porepy produced by an independent sub-agent).

  tools/seeded.py <id> <property> <patch.diff> <demo.py> --needs "<what it needs to manifest>" [--tests <pytest args>]
                  [--tier quick|thorough] [--also C10 ...]

Everything runs in a fresh scratch worktree of /repo (removed afterwards); /repo itself is never modified here
(the checks import porepy from the worktree through PYTHONPATH, which is equivalent to `git -C /repo apply` for
them, and lets other work go on in /repo).  Steps: demo on the unchanged code (must exit 0) -> apply the patch ->
demo (must exit != 0) -> the registered check(s) (exit 1 + VIOLATION expected) -> the given existing tests (must
pass) -> write seeded/<id>/{patch.diff, demo.py, meta.json}."""
import argparse
import json
import os
import shutil
import subprocess
import sys
import time
from pathlib import Path

ROOT = Path(__file__).resolve().parent.parent


def sh(cmd, cwd=None, env=None, timeout=3600):
    p = subprocess.run(cmd, shell=True, cwd=cwd, env=env, capture_output=True, text=True, timeout=timeout)
    return p.returncode, (p.stdout + p.stderr)


def main():
    ap = argparse.ArgumentParser()
    ap.add_argument("id")
    ap.add_argument("prop")
    ap.add_argument("patch")
    ap.add_argument("demo")
    ap.add_argument("--needs", required=True)
    ap.add_argument("--tests", default="")
    ap.add_argument("--tier", default="quick")
    ap.add_argument("--also", nargs="*", default=[])
    ap.add_argument("--source", default="independent sub-agent given only the property text and a scratch worktree")
    a = ap.parse_args()
    wt = f"/tmp/sv_{a.id}"
    sh(f"git -C /repo worktree remove --force {wt}")
    rc, out = sh(f"git -C /repo worktree add -q {wt} HEAD")
    assert rc == 0, out
    env = dict(os.environ, PYTHONPATH=f"{wt}/src", PYTHONHASHSEED="0")
    meta = dict(id=a.id, property=a.prop, needs=a.needs, source=a.source, repo_head=sh("git -C /repo rev-parse --short HEAD")[1].strip(),
                date=time.strftime("%Y-%m-%d"), ran=[])
    try:
        shutil.copy(a.demo, f"{wt}/demo_sv.py")
        rc0, out0 = sh("/venv/bin/python demo_sv.py", cwd=wt, env=env, timeout=1800)
        meta["demo_unchanged_exit"] = rc0
        rc, out = sh(f"git apply --whitespace=nowarn {os.path.abspath(a.patch)}", cwd=wt)
        if rc != 0:
            print("patch does not apply:", out)
            return 2
        rc1, out1 = sh("/venv/bin/python demo_sv.py", cwd=wt, env=env, timeout=1800)
        meta["demo_changed_exit"] = rc1
        meta["demo_changed_output"] = out1[-600:]
        print(f"demo: unchanged exit {rc0}, changed exit {rc1}")
        results = {}
        for prop in [a.prop] + a.also:
            t0 = time.time()
            ev = ROOT / "evidence" / f"{prop}.json"
            keep = ev.read_text() if ev.exists() else None   # evidence belongs to runs on /repo itself: restore it
            rc, out = sh(f"./check {prop} --tier {a.tier}", cwd=str(ROOT), env=dict(env, VERIF_SEED=os.environ.get("VERIF_SEED", "0")), timeout=7200)
            if keep is not None:
                ev.write_text(keep)
            lines = [ln for ln in out.splitlines() if ln.startswith(("VIOLATION", "KNOWN-FINDING", "MACHINERY", "DRIFT", "["))]
            viol = [ln for ln in lines if ln.startswith("VIOLATION")]
            results[prop] = dict(exit=rc, tier=a.tier, violations=len(viol), first=(viol[0][:300] if viol else ""),
                                 clauses=sorted({w.split("=", 1)[1] for ln in viol for w in ln.split() if w.startswith("clause=")}),
                                 drift_lines=sum(ln.startswith("DRIFT") for ln in lines), wall_s=round(time.time() - t0, 1))
            meta["ran"].append(f"PYTHONPATH={wt}/src ./check {prop} --tier {a.tier}  -> exit {rc}")
            print(f"check {prop} ({a.tier}): exit {rc}, {len(viol)} VIOLATION lines, clauses {results[prop]['clauses']}")
        meta["checks"] = results
        meta["caught_by"] = [p for p, r in results.items() if r["exit"] == 1 and r["violations"] > 0]
        if a.tests:
            rc, out = sh(f"/venv/bin/python -m pytest -q -p no:cacheprovider -x {a.tests}", cwd=wt, env=env, timeout=7200)
            tail = [ln for ln in out.splitlines() if " passed" in ln or " failed" in ln or " error" in ln][-1:]
            meta["existing_tests"] = dict(cmd=f"pytest -q -x {a.tests}", exit=rc, summary=tail)
            meta["ran"].append(f"pytest -q -x {a.tests} (in the patched worktree) -> exit {rc} {tail}")
            print("existing tests:", rc, tail)
        ok = rc0 == 0 and rc1 != 0
        meta["confirmed"] = bool(ok and (not a.tests or meta["existing_tests"]["exit"] == 0))
        d = ROOT / "seeded" / a.id
        d.mkdir(parents=True, exist_ok=True)
        meta["verif_commit"] = sh(f"git -C {ROOT} rev-parse --short HEAD")[1].strip()
        old = d / "meta.json"
        if old.exists():   # keep the earlier verdicts: a change first missed and caught after strengthening shows both
            o = json.loads(old.read_text())
            meta["earlier_runs"] = o.get("earlier_runs", []) + [dict(
                verif_commit=o.get("verif_commit", "?"), caught_by=o.get("caught_by", []),
                checks={k: dict(exit=v["exit"], clauses=v["clauses"]) for k, v in o.get("checks", {}).items()},
                note=o.get("note", ""))]
        shutil.copy(a.patch, d / "patch.diff")
        shutil.copy(a.demo, d / "demo.py")
        (d / "meta.json").write_text(json.dumps(meta, indent=1) + "\n")
        print("confirmed" if meta["confirmed"] else "NOT CONFIRMED", "| caught by:", meta["caught_by"])
    finally:
        sh(f"git -C /repo worktree remove --force {wt}")
        shutil.rmtree(ROOT / "replays" / a.prop, ignore_errors=True)
    return 0


if __name__ == "__main__":
    sys.exit(main())
