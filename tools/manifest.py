#!/usr/bin/env python3
"""Single source for MANIFEST.json: `python3 tools/manifest.py` rewrites and validates it."""
import json
import sys
from pathlib import Path

ROOT = Path(__file__).resolve().parent.parent
sys.path.insert(0, str(ROOT / "tools"))
from manifest_table import CHECKS, NOT_APPLICABLE, HOOK_COMMITS  # noqa: E402

GUARD = "POREPY_VERIF"
BASE = ("cd /repo && env -u POREPY_VERIF /venv/bin/python -m pytest -ra -q -p no:cacheprovider --timeout=900 "
        "--continue-on-collection-errors")


def build():
    checks = []
    for c in CHECKS:
        pid = c["id"]
        checks.append({
            "property_id": pid,
            "quick_cmd": f"./check {pid} --tier quick",
            "thorough_cmd": f"./check {pid} --tier thorough",
            "evidence_file": f"/verif/evidence/{pid}.json",
            "replay_cmd_template": f"./check {pid} --replay {{path}}",
            "engine": "tlc",
            "level_claimed": {"category": c["level"], "text": c["text"], "design_ref": c.get("ref", f"DESIGN.md section 5, {pid}")},
            "level_note": c["note"],
            "technique": c["technique"],
        })
    return {
        "version": 1,
        "setup_cmd": "./setup.sh",
        "hooks": {
            "guard": GUARD,
            "enable": "export POREPY_VERIF=1 (set by ./check); porepy is an editable install, so checks import /repo/src as it is",
            "baseline_off_cmd": BASE,
            "source_commits": HOOK_COMMITS,
            "add_only": True,
        },
        "engines": [{
            "name": "tlc", "path": "/verif/spec",
            "serves_properties": [c["id"] for c in CHECKS],
            "kind_free_text": "TLA+ specification tree (spec/sys state machines, spec/ref reference functions, spec/trace "
                              "trace + monitor specs) checked with TLC; Python harness (harness/) drives the real porepy code, "
                              "records its transition graphs / input-output pairs and hands them to TLC for judgement",
        }],
        "checks": checks,
        "notes": "Verdicts (exit 1) only come from a property clause evaluated by TLC on executions recorded from the real code; "
                 "spec/code mechanism disagreement is reported as DRIFT and does not fail a check. Exit 2 = machinery failure.",
        "not_applicable": NOT_APPLICABLE,
    }


if __name__ == "__main__":
    m = build()
    (ROOT / "MANIFEST.json").write_text(json.dumps(m, indent=1) + "\n")
    try:
        import jsonschema
        jsonschema.validate(m, json.load(open("/root/.vp/MANIFEST.schema.json")))
        props = [json.loads(l)["id"] for l in open(ROOT / "properties.jsonl")]
        claimed = {c["property_id"] for c in m["checks"]}
        na = {c["property_id"] for c in m["not_applicable"]}
        assert not (claimed & na), claimed & na
        missing = [p for p in props if p not in claimed and p not in na]
        assert not missing, f"neither claimed nor not_applicable: {missing}"
        print(f"MANIFEST ok: {len(claimed)} claimed, {len(na)} not applicable")
    except ImportError:
        print("jsonschema missing; written unvalidated")
