#!/usr/bin/env python3
"""Markdown table of the seeded changes under seeded/ (for DESIGN.md section 11.6)."""
import json
from pathlib import Path

rows = []
for d in sorted(Path(__file__).resolve().parent.parent.joinpath("seeded").iterdir()):
    m = d / "meta.json"
    if not m.exists():
        continue
    j = json.loads(m.read_text())
    res = j.get("checks", {})
    caught = j.get("caught_by", [])
    prop = j["property"]
    r = res.get(prop, {})
    how = ", ".join(r.get("clauses", [])) if prop in caught else (f"missed (exit {r.get('exit')})")
    er = j.get("earlier_runs", [])
    hist = ""
    if er and not er[0].get("caught_by"):
        hist = "(first missed; caught after the check was strengthened)" if prop in caught else "(missed)"
    rows.append(f"| {j['id']} | {prop} | {j['needs'][:170]} | {'yes' if j.get('confirmed') else 'NO'} | {how} {hist} |")
print("| id | property | what it needs to manifest | confirmed | caught by (clauses) |")
print("|---|---|---|---|---|")
print("\n".join(rows))
