#!/usr/bin/env python3
"""Markdown table of the seeded changes under seeded/ (for DESIGN.md section 11.6)."""
import json
from pathlib import Path

rows = []
for d in sorted(Path(__file__).resolve().parent.parent.joinpath("seeded").iterdir()):
    m = d / "meta.json"
    if not m.exists():
        continue
    j = json.loads(m.read_text())
    res = j.get("checks", {})
    caught = j.get("caught_by", [])
    prop = j["property"]
    r = res.get(prop, {})
    how = ", ".join(r.get("clauses", [])) if prop in caught else (f"missed (exit {r.get('exit')})")
    er = j.get("earlier_runs", [])
    hist = ""
    if er and not er[0].get("caught_by"):
        hist = "(first missed; caught after the check was strengthened)" if prop in caught else "(missed)"
    rows.append(f"| {j['id']} | {prop} | {j['needs'][:170]} | {'yes' if j.get('confirmed') else 'NO'} | {how} {hist} |")
table = "\n".join(["| id | property | what it needs to manifest | confirmed | caught by (clauses) |", "|---|---|---|---|---|"] + rows)
import sys
if len(sys.argv) > 2 and sys.argv[1] == "--into":   # replace the text between the markers of the given file
    f = Path(sys.argv[2])
    t = f.read_text()
    b, e = "<!-- SEEDED-TABLE-BEGIN -->", "<!-- SEEDED-TABLE-END -->"
    i, k = t.index(b) + len(b), t.index(e)
    f.write_text(t[:i] + "\n" + table + "\n" + t[k:])
else:
    print(table)
